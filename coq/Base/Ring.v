(* Ring: a circular window over a cell array, with checked access. *)
From Coq Require Import List Arith Lia.
Import ListNotations.

Section Ring.
Context {A : Type} (d : A).

Definition rd (cells : list A) (i : nat) : option A := nth_error cells i.
Fixpoint upd (cells : list A) (i : nat) (x : A) : list A :=
  match cells, i with
  | [], _ => []
  | _ :: r, O => x :: r
  | c :: r, S j => c :: upd r j x
  end.
Definition wr (cells : list A) (i : nat) (x : A) : option (list A) :=
  if i <? length cells then Some (upd cells i x) else None.

Lemma upd_length cells i x : length (upd cells i x) = length cells.
Proof. revert i; induction cells; intros [|i]; simpl; auto. Qed.

Lemma nth_upd_same cells i x : i < length cells -> nth i (upd cells i x) d = x.
Proof.
  revert i; induction cells as [|c r IH]; intros i H; simpl in H; [lia|].
  destruct i as [|i]; simpl; [reflexivity|]. apply IH. lia.
Qed.

Lemma nth_upd_other cells i j x : i <> j -> nth j (upd cells i x) d = nth j cells d.
Proof.
  revert i j; induction cells as [|c r IH]; intros i j H; [destruct i; reflexivity|].
  destruct i as [|i], j as [|j]; simpl; try reflexivity; try lia.
  apply IH. lia.
Qed.

Lemma rd_Some cells i : i < length cells -> rd cells i = Some (nth i cells d).
Proof. intros H. unfold rd. now apply nth_error_nth'. Qed.

Lemma wr_Some cells i x : i < length cells -> wr cells i x = Some (upd cells i x).
Proof. intros H. unfold wr. apply Nat.ltb_lt in H. now rewrite H. Qed.

(* the [len] cells starting at [get], wrapping modulo the array size *)
Definition window (cells : list A) (get len : nat) : list A :=
  map (fun i => nth ((get + i) mod length cells) cells d) (seq 0 len).

Lemma window_length cells get len : length (window cells get len) = len.
Proof. unfold window. now rewrite map_length, seq_length. Qed.

Lemma window_0 cells get : window cells get 0 = [].
Proof. reflexivity. Qed.

Lemma window_get cells get len :
  get < length cells ->
  window cells get (S len) = nth get cells d :: window cells ((get + 1) mod length cells) len.
Proof.
  intros H. unfold window. cbn [seq map]. rewrite Nat.add_0_r, Nat.mod_small by lia. f_equal.
  rewrite <- seq_shift, map_map. apply map_ext. intros i.
  rewrite Nat.add_mod_idemp_l by lia. f_equal. f_equal. lia.
Qed.

Lemma window_snoc cells get len :
  window cells get (S len) = window cells get len ++ [nth ((get + len) mod length cells) cells d].
Proof. unfold window. rewrite seq_S, map_app. reflexivity. Qed.

Lemma mod_neq n a i len : 0 < n -> i < len -> len < n -> (a + i) mod n <> (a + len) mod n.
Proof.
  intros Hn Hi Hl E.
  pose proof (Nat.div_mod (a + i) n ltac:(lia)) as E1.
  pose proof (Nat.div_mod (a + len) n ltac:(lia)) as E2.
  pose proof (Nat.mod_upper_bound (a + i) n ltac:(lia)).
  rewrite E in E1.
  assert (n * ((a + len) / n) - n * ((a + i) / n) = len - i) by lia.
  assert ((a + i) / n <= (a + len) / n) by (apply Nat.div_le_mono; lia).
  assert (n * ((a + len) / n - (a + i) / n) = len - i) by (rewrite Nat.mul_sub_distr_l; lia).
  destruct ((a + len) / n - (a + i) / n) eqn:Q; nia.
Qed.

Lemma window_put cells get len x :
  len < length cells ->
  window (upd cells ((get + len) mod length cells) x) get (S len) = window cells get len ++ [x].
Proof.
  intros H. rewrite window_snoc. rewrite upd_length. f_equal.
  - unfold window. rewrite upd_length. apply map_ext_in. intros i Hi. apply in_seq in Hi.
    apply nth_upd_other. intros E. symmetry in E. revert E. apply mod_neq; lia.
  - f_equal. apply nth_upd_same. apply Nat.mod_upper_bound. lia.
Qed.

Lemma window_prefix (l r : list A) : window (l ++ r) 0 (length l) = l.
Proof.
  unfold window. rewrite app_length.
  rewrite <- (map_nth (fun x => x) l d) at 4 || idtac.
  apply nth_ext with (d := d) (d' := d).
  - now rewrite map_length, seq_length.
  - intros n Hn. rewrite map_length, seq_length in Hn.
    rewrite (nth_indep _ d (nth ((0 + 0) mod (length l + length r)) (l ++ r) d)) by (now rewrite map_length, seq_length).
    rewrite (map_nth (fun i => nth ((0 + i) mod (length l + length r)) (l ++ r) d)).
    rewrite seq_nth by lia. cbn [Nat.add]. rewrite Nat.mod_small by lia. now rewrite app_nth1.
Qed.

End Ring.
