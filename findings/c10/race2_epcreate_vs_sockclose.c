// probe: nng_dialer_create / nng_listener_create racing nng_socket_close; delay at H5 point 1/2
#include <nng/nng.h>
#include <pthread.h>
#include <stdio.h>
#include <stdlib.h>
#include <unistd.h>
extern void (*nng_verif_delay_hook)(int, void *);
static int mode;
static void hook(int pt, void *o) { if (pt == (mode ? 2 : 1)) usleep(300000); }
static nng_socket s;
static nng_dialer d; static nng_listener l;
static int crv;
static void *t1(void *a) {
	if (mode == 0) crv = nng_dialer_create(&d, s, "inproc://race2"); else crv = nng_listener_create(&l, s, "inproc://race2");
	return NULL;
}
int main(int argc, char **argv) {
	pthread_t a;
	mode = argc > 1 ? atoi(argv[1]) : 0;
	nng_init(NULL);
	nng_verif_delay_hook = hook;
	nng_pair0_open(&s);
	pthread_create(&a, NULL, t1, NULL);
	usleep(100000);
	printf("close rv=%d\n", nng_socket_close(s));
	pthread_join(a, NULL);
	printf("create rv=%d id=%d\n", crv, mode ? nng_listener_id(l) : nng_dialer_id(d));
	usleep(100000);
	if (crv == 0) {
		int rv = mode ? nng_listener_start(l, 0) : nng_dialer_start(d, NNG_FLAG_NONBLOCK);
		printf("start on handle after socket close rv=%d\n", rv);
		rv = mode ? nng_listener_close(l) : nng_dialer_close(d);
		printf("close on handle after socket close rv=%d\n", rv);
	}
	nng_fini();
	return 0;
}
