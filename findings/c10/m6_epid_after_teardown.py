# the dialer's id leaves the map only when the dialer is reaped (after teardown) instead of in nni_dialer_close
p="src/core/dialer.c"
t=open(p).read()
old="""	d->d_closed = true;
	nni_id_remove(&dialers, d->d_id);
	nni_mtx_unlock(&dialers_lk);"""
assert t.count(old)==1
t=t.replace(old,"""	d->d_closed = true;
	nni_mtx_unlock(&dialers_lk);""")
old2="""void
nni_dialer_destroy(nni_dialer *d)
{"""
assert t.count(old2)==1
t=t.replace(old2,old2+"""
	nni_mtx_lock(&dialers_lk);
	nni_id_remove(&dialers, d->d_id);
	nni_mtx_unlock(&dialers_lk);""")
open(p,"w").write(t)
