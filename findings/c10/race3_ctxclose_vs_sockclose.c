// probe: nng_ctx_close racing nng_socket_close: ctx_fini after the socket was freed? delay at H5 point 15
#include <nng/nng.h>
#include <pthread.h>
#include <stdio.h>
#include <stdlib.h>
#include <string.h>
#include <unistd.h>
extern void (*nng_verif_delay_hook)(int, void *);
static void hook(int pt, void *o) { if (pt == 15) usleep(300000); }
static nng_socket s;
static nng_ctx c;
static void *t1(void *a) { printf("ctx close rv=%d\n", nng_ctx_close(c)); return NULL; }
static void cb(void *a) { }
int main(int argc, char **argv) {
	pthread_t a;
	nng_aio *aio;
	const char *proto = argc > 1 ? argv[1] : "req";
	nng_init(NULL);
	nng_verif_delay_hook = hook;
	if (!strcmp(proto, "req")) nng_req0_open(&s); else if (!strcmp(proto, "rep")) nng_rep0_open(&s);
	else if (!strcmp(proto, "sub")) nng_sub0_open(&s); else if (!strcmp(proto, "surveyor")) nng_surveyor0_open(&s); else nng_respondent0_open(&s);
	if (nng_ctx_open(&c, s) != 0) abort();
	nng_aio_alloc(&aio, cb, NULL);
	nng_ctx_recv(c, aio); // pending (or ESTATE) receive on the context
	pthread_create(&a, NULL, t1, NULL);
	usleep(100000);
	printf("sock close rv=%d\n", nng_socket_close(s));
	pthread_join(a, NULL);
	nng_aio_wait(aio);
	printf("recv result=%d\n", nng_aio_result(aio));
	nng_aio_free(aio);
	nng_fini();
	return 0;
}
