p="src/core/socket.c"
t=open(p).read()
old="""	while ((s->s_ref > 1) || (!nni_list_empty(&s->s_ctxs))) {
		nni_cv_wait(&s->s_close_cv);
	}"""
assert t.count(old)==1
open(p,"w").write(t.replace(old,""))
