// probe: nng_ctx_open racing nng_socket_close after sock_shutdown's context loop: does close hang?
// delay at H5 point 7 (sock_shutdown, before the protocol's sock_close)
#include <nng/nng.h>
#include <pthread.h>
#include <stdio.h>
#include <stdlib.h>
#include <string.h>
#include <unistd.h>
extern void (*nng_verif_delay_hook)(int, void *);
static void hook(int pt, void *o) { if (pt == 7) usleep(300000); }
static nng_socket s;
static volatile int closed = 0;
static void *t2(void *a) { int rv = nng_socket_close(s); printf("sock close rv=%d\n", rv); closed = 1; return NULL; }
int main(int argc, char **argv) {
	pthread_t b; nng_ctx c;
	setvbuf(stdout, NULL, _IOLBF, 0);
	nng_init(NULL);
	nng_verif_delay_hook = hook;
	nng_req0_open(&s);
	pthread_create(&b, NULL, t2, NULL);
	usleep(100000);
	printf("ctx_open rv=%d\n", nng_ctx_open(&c, s));
	for (int i = 0; i < 50 && !closed; i++) usleep(100000);
	if (!closed) { printf("nng_socket_close HANGS (5 s after nng_ctx_open returned)\n"); _exit(3); }
	pthread_join(b, NULL);
	nng_fini();
	return 0;
}
