// probe: nng_dialer_close racing nng_socket_close (sock_shutdown ignores a failed nni_dialer_hold)
#include <nng/nng.h>
#include <pthread.h>
#include <stdio.h>
#include <stdlib.h>
#include <unistd.h>
#define ND 8
static nng_dialer ds[ND];
static nng_listener ls[ND];
static nng_socket s;
static pthread_barrier_t bar;
static int mode;
static void *t1(void *a) {
	pthread_barrier_wait(&bar);
	for (int i = 0; i < ND; i++) { if (mode == 0) nng_dialer_close(ds[i]); else nng_listener_close(ls[i]); }
	return NULL;
}
static void *t2(void *a) {
	pthread_barrier_wait(&bar);
	nng_socket_close(s);
	return NULL;
}
int main(int argc, char **argv) {
	int iters = argc > 1 ? atoi(argv[1]) : 1000;
	mode = argc > 2 ? atoi(argv[2]) : 0;
	nng_init(NULL);
	for (int it = 0; it < iters; it++) {
		char url[64];
		pthread_t a, b;
		nng_pair0_open(&s);
		for (int i = 0; i < ND; i++) {
			snprintf(url, sizeof url, "inproc://race1-%d-%d", it, i);
			if (mode == 0) { if (nng_dial(s, url, &ds[i], NNG_FLAG_NONBLOCK) != 0) abort(); }
			else { if (nng_listen(s, url, &ls[i], 0) != 0) abort(); }
		}
		pthread_barrier_init(&bar, NULL, 2);
		pthread_create(&a, NULL, t1, NULL);
		pthread_create(&b, NULL, t2, NULL);
		pthread_join(a, NULL);
		pthread_join(b, NULL);
		pthread_barrier_destroy(&bar);
	}
	printf("done %d\n", iters);
	nng_fini();
	return 0;
}
