p="src/core/dialer.c"
t=open(p).read()
old="""	d->d_ops.d_close(d->d_data);
	nni_aio_stop(&d->d_tmo_aio);
	nni_aio_stop(&d->d_con_aio);"""
assert t.count(old)==1
open(p,"w").write(t.replace(old,"""	d->d_ops.d_close(d->d_data);
	nni_aio_stop(&d->d_con_aio);"""))
