// probe: an operation issued concurrently with close (it passed nni_sock_find before the close began,
// reaches the protocol after the protocol's sock_close): is it completed?  White-box replay of the
// interleaving inside nng_socket_send / nng_socket_recv (find ... [close runs] ... nni_sock_send; rele).
#include "core/nng_impl.h"
#include <pthread.h>
#include <stdio.h>
#include <stdlib.h>
#include <string.h>
#include <unistd.h>
static nng_socket s;
static void *t2(void *a) { int rv = nng_socket_close(s); printf("close rv=%d\n", rv); return NULL; }
static volatile int done = 0; static int result = -1;
static nng_aio *aio;
static void cb(void *a) { result = nng_aio_result(aio); done = 1; }
int main(int argc, char **argv) {
	pthread_t b; nni_sock *sock; nng_msg *m;
	const char *proto = argc > 1 ? argv[1] : "pair0";
	setvbuf(stdout, NULL, _IOLBF, 0);
	nng_init(NULL);
	int send = 1;
	if (!strcmp(proto, "pair0")) nng_pair0_open(&s); else if (!strcmp(proto, "pair1")) nng_pair1_open(&s);
	else if (!strcmp(proto, "push0")) nng_push0_open(&s); else if (!strcmp(proto, "bus0")) { nng_bus0_open(&s); send = 0; }
	else if (!strcmp(proto, "pull0")) { nng_pull0_open(&s); send = 0; } else if (!strcmp(proto, "req0")) nng_req0_open(&s);
	else if (!strcmp(proto, "sub0")) { nng_sub0_open(&s); send = 0; } else if (!strcmp(proto, "pair0r")) { nng_pair0_open(&s); send = 0; }
	else abort();
	nng_aio_alloc(&aio, cb, NULL);
	if (nni_sock_find(&sock, s.id) != 0) abort();      // nng_socket_send: nni_sock_find
	pthread_create(&b, NULL, t2, NULL);
	usleep(200000);                                   // close has run the protocol's sock_close and waits for our reference
	if (send) { nng_msg_alloc(&m, 4); nng_aio_set_msg(aio, m); nni_sock_send(sock, aio); } else nni_sock_recv(sock, aio);
	nni_sock_rele(sock);                              // nng_socket_send: nni_sock_rele
	pthread_join(b, NULL);
	for (int i = 0; i < 30 && !done; i++) usleep(100000);
	if (done) printf("operation completed with %d\n", result); else printf("operation NEVER completed (3 s after close returned)\n");
	if (!done) { printf("cancelling...\n"); nng_aio_cancel(aio); usleep(200000); printf("after cancel done=%d result=%d\n", done, result); }
	return 0;
}
