p="src/core/pipe.c"
t=open(p).read()
old="""	if (p->p_id != 0) {
		nni_id_remove(&pipes, p->p_id);
	}"""
assert t.count(old)==1
open(p,"w").write(t.replace(old,""))
