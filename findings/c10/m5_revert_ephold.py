p="src/core/socket.c"
t=open(p).read()
import re
old1="""		if (nni_listener_hold(l) != 0) {"""
i=t.index(old1); j=t.index("continue;\n\t\t}\n", i)+len("continue;\n\t\t}\n")
t=t[:i]+"		nni_listener_hold(l);\n"+t[j:]
old2="""		if (nni_dialer_hold(d) != 0) {"""
i=t.index(old2); j=t.index("continue;\n\t\t}\n", i)+len("continue;\n\t\t}\n")
t=t[:i]+"		nni_dialer_hold(d);\n"+t[j:]
open(p,"w").write(t)
