p="src/sp/protocol/reqrep0/rep.c"
t=open(p).read()
old="""	if ((aio = ctx->raio) != NULL) {
		nni_list_remove(&s->recvq, ctx);
		ctx->raio = NULL;
		nni_aio_finish_error(aio, NNG_ECLOSED);
	}
	nni_mtx_unlock(&s->lk);
}"""
assert t.count(old)==1
open(p,"w").write(t.replace(old,"""	if ((aio = ctx->raio) != NULL) {
		nni_list_remove(&s->recvq, ctx);
		ctx->raio = NULL;
	}
	nni_mtx_unlock(&s->lk);
}"""))
