p="src/core/socket.c"
t=open(p).read()
old="""	while (!nni_list_empty(&sock->s_pipes)) {
		nni_cv_wait(&sock->s_cv);
	}
	NNI_ASSERT(nni_list_first(&sock->s_pipes) == NULL);"""
assert t.count(old)==1
open(p,"w").write(t.replace(old,""))
