// probe: three concurrent nng_socket_close: the third returns 0 while the first has not closed the endpoints yet
#include <nng/nng.h>
#include <pthread.h>
#include <stdio.h>
#include <stdlib.h>
#include <unistd.h>
extern void (*nng_verif_delay_hook)(int, void *);
static __thread int me;
static void hook(int pt, void *o) {
	if (pt == 3 && me == 1) usleep(600000);   // T1: inside sock_shutdown, closing the first dialer (s_mx not held)
	if (pt == 8 && me == 3) usleep(150000);   // T3: after sock_shutdown returned ECLOSED, before it looks at s_closed
}
static nng_socket s; static nng_dialer d0, d;
static volatile int ret3 = -1;
static void *tc(void *a) { me = (int)(long) a; if (me == 2 || me == 3) usleep(100000); int rv = nng_socket_close(s);
	printf("T%d: nng_socket_close rv=%d\n", me, rv); if (me == 3) ret3 = rv; return NULL; }
int main(void) {
	pthread_t t[3]; nng_duration ms;
	setvbuf(stdout, NULL, _IOLBF, 0);
	nng_init(NULL); nng_verif_delay_hook = hook;
	nng_pair0_open(&s);
	if (nng_dial(s, "inproc://race6-nobody0", &d0, NNG_FLAG_NONBLOCK) != 0) abort();
	if (nng_dial(s, "inproc://race6-nobody", &d, NNG_FLAG_NONBLOCK) != 0) abort();
	for (long i = 0; i < 3; i++) pthread_create(&t[i], NULL, tc, (void *) (i + 1));
	while (ret3 < 0) usleep(1000);
	int rv = nng_dialer_get_ms(d, NNG_OPT_RECONNMINT, &ms);
	printf("after T3's close returned %d: nng_dialer_get_ms(second dialer of that socket) rv=%d (0 = handle still valid)\n", ret3, rv);
	for (int i = 0; i < 3; i++) pthread_join(t[i], NULL);
	printf("after all closes returned: nng_dialer_get_ms rv=%d\n", nng_dialer_get_ms(d, NNG_OPT_RECONNMINT, &ms));
	nng_fini(); return 0;
}
