// pair0: a sender blocked on a full send buffer is overtaken by a later send after NNG_OPT_SENDBUF grows
// build: gcc -I/repo/include resize_order_demo.c <builddir>/libnng_testing.a -lpthread
#include <nng/nng.h>
#include <stdio.h>
#include <stdlib.h>
#include <string.h>
#define CHK(x) do { int rv_ = (x); if (rv_ != 0) { printf("%s: %s\n", #x, nng_strerror(rv_)); exit(2);} } while (0)
static void snd(nng_socket s, nng_aio **a, char c) { nng_msg *m; CHK(nng_msg_alloc(&m, 1)); *(char *) nng_msg_body(m) = c; CHK(nng_aio_alloc(a, NULL, NULL)); nng_aio_set_msg(*a, m); nng_socket_send(s, *a); }
int main(void) {
  nng_socket s, r; nng_aio *a[4]; char got[8] = {0};
  CHK(nng_init(NULL)); CHK(nng_pair0_open(&s)); CHK(nng_pair0_open(&r));
  CHK(nng_socket_set_int(s, NNG_OPT_SENDBUF, 0));
  CHK(nng_listen(r, "inproc://resize-order", NULL, 0)); CHK(nng_dial(s, "inproc://resize-order", NULL, 0));
  nng_msleep(50);
  snd(s, &a[0], '1'); nng_msleep(20); snd(s, &a[1], '2'); nng_msleep(20); snd(s, &a[2], '3'); nng_msleep(20);   // 3 blocks
  CHK(nng_socket_set_int(s, NNG_OPT_SENDBUF, 2));
  snd(s, &a[3], '4'); nng_msleep(20);
  for (int i = 0; i < 4; i++) { nng_msg *m; CHK(nng_socket_set_ms(r, NNG_OPT_RECVTIMEO, 1000)); if (nng_recvmsg(r, &m, 0) != 0) break; got[i] = *(char *) nng_msg_body(m); nng_msg_free(m); }
  printf("sent 1 2 3 4 in this order; received %s\n", got);
  return strcmp(got, "1234") == 0 ? 0 : 1;
}
