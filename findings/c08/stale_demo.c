// stale send completion in pair1: callback of old pipe's send runs after a new peer attached
#include <nng/nng.h>
#include <stdio.h>
#include <stdlib.h>
#include <string.h>
#include <unistd.h>
#include <sys/socket.h>
#include <netinet/in.h>
#include <arpa/inet.h>
#include <sys/time.h>
#define CHK(x) do { int rv_ = (x); if (rv_ != 0) { printf("%s: %s\n", #x, nng_strerror(rv_)); exit(2);} } while (0)
static nng_msg *mk(size_t n, char c) { nng_msg *m; CHK(nng_msg_alloc(&m, n)); memset(nng_msg_body(m), c, n); return m; }
int main(void) {
  nng_socket s1, a; char url[64]; int port = 23000 + (getpid() % 20000);
  snprintf(url, sizeof url, "tcp://127.0.0.1:%d", port);
  CHK(nng_init(NULL));
  CHK(nng_pair1_open(&s1)); CHK(nng_pair1_open(&a));
  CHK(nng_socket_set_int(s1, NNG_OPT_SENDBUF, 4));
  CHK(nng_listen(s1, url, NULL, 0));
  CHK(nng_dial(a, url, NULL, 0));
  nng_msleep(100);
  // m1 goes out on P1 at once; its completion callback is delayed (PAIR_DELAY ms)
  CHK(nng_sendmsg(s1, mk(8, '1'), NNG_FLAG_NONBLOCK));
  CHK(nng_sendmsg(s1, mk(8u << 20, '2'), NNG_FLAG_NONBLOCK));   // queued
  CHK(nng_sendmsg(s1, mk(8, '3'), NNG_FLAG_NONBLOCK));          // queued
  nng_msg *m; CHK(nng_recvmsg(a, &m, 0)); printf("A got %c (%zu bytes)\n", *(char *) nng_msg_body(m), nng_msg_len(m)); nng_msg_free(m);
  nng_socket_close(a);            // P1 goes away while its send callback is still pending
  nng_msleep(50);
  // B: a raw TCP peer that completes the SP handshake for PAIRv1 and then reads slowly
  int fd = socket(AF_INET, SOCK_STREAM, 0); int sz = 4096; setsockopt(fd, SOL_SOCKET, SO_RCVBUF, &sz, sizeof sz);
  struct sockaddr_in sa = {0}; sa.sin_family = AF_INET; sa.sin_port = htons(port); sa.sin_addr.s_addr = htonl(0x7f000001);
  if (connect(fd, (struct sockaddr *) &sa, sizeof sa) != 0) { perror("connect"); return 2; }
  struct timeval tv = {3, 0}; setsockopt(fd, SOL_SOCKET, SO_RCVTIMEO, &tv, sizeof tv);
  unsigned char hs[8] = {0, 'S', 'P', 0, 0, 0x11, 0, 0}, in[8]; write(fd, hs, 8); read(fd, in, 8);
  nng_msleep(atoi(getenv("PAIR_DELAY") ? getenv("PAIR_DELAY") : "0") + 300);   // the delayed callback of P1 runs now
  // drain B: expect frame(m2) then frame(m3), intact
  unsigned long long total = 0; int nmsg = 0; int bad = 0;
  for (;;) {
    unsigned char lb[8]; size_t got = 0; while (got < 8) { ssize_t r = read(fd, lb + got, 8 - got); if (r <= 0) goto done; got += r; }
    unsigned long long len = 0; for (int i = 0; i < 8; i++) len = (len << 8) | lb[i];
    unsigned char *buf = malloc(len ? len : 1); got = 0; while (got < len) { ssize_t r = read(fd, buf + got, len - got); if (r <= 0) { printf("B: connection ended inside a message (%zu of %llu)\n", got, len); bad = 1; goto done; } got += r; }
    nmsg++; total += len; printf("B got message %d: len %llu first body byte %c\n", nmsg, len, len > 4 ? buf[4] : '?'); free(buf);
    if (nmsg == 2) break;
  }
done:
  printf("B received %d whole messages%s (expected 2: '2' then '3')\n", nmsg, bad ? ", stream broken" : "");
  close(fd); nng_socket_close(s1); nng_fini();
  return (nmsg == 2 && !bad) ? 0 : 1;
}
