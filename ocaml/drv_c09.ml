(* model: c09-bus *)
(* with: proto_link.ml *)
(* drv_c09.ml: the BUS model (cooked and raw) on the script language of harness/wb_proto.c.
   The model follows the source: BUS_SEND_NO_AIO_START is read from bus.c by
   tools/gen_consts_d/c09_bus.py on every run (NNGV_BUS_FIXED=0|1 overrides it, for
   experiments only). *)
open Nngv_model
open Conv
open Proto_link

let fixed =
  match Sys.getenv_opt "NNGV_BUS_FIXED" with
  | Some "1" -> true
  | Some "0" -> false
  | _ -> bUS_SEND_NO_AIO_START

let () =
  register "bus0" (fun () -> mk_proto (bus_init false) (bus_step fixed) bus_poll false);
  register "bus0_raw" (fun () -> mk_proto (bus_init true) (bus_step fixed) bus_poll false);
  main ()
