(* model: c19-url *)
(* drv_url.ml: runs the extracted URL model (Utf8Model / CanonModel /
   UrlParseModel) on an op script and prints one observation line per op in
   the text format of harness/wb_url.c.  Lines "spec <what> ..." evaluate the
   extracted spec predicates (Utf8Spec / CanonSpec / UrlSpec).

   ops:  parse <hex> | sprintf <hex> | clone <hex> | rt <hex> | canon <hex> | canon2 <hex>
         svc <hexname> <port|->     (answer of the service data base, recorded)
         mark <k> | # comment
   The defect flags default to the generated constants (Gen/Consts.v, read
   from the current source); "--flags abcd" (each 0/1 = scheme, utf8,
   clone allocation, clone NULL host, nested bracket) overrides them. *)
open Nngv_model
open Conv

let flags = ref { fx_scheme = uRL_FIX_SCHEME_EXACT; fx_utf8 = uRL_FIX_UTF8_ACCUM; fx_clone = uRL_FIX_CLONE_ALLOC; fx_clone_null = uRL_FIX_CLONE_NULL; fx_bracket = uRL_FIX_BRACKET }

let svc : (string, int option) Hashtbl.t = Hashtbl.create 16
let need : string list ref = ref []

let resolver (name : n list) : n option =
  let k = hex_of_bytes name in
  match Hashtbl.find_opt svc k with
  | Some (Some p) -> Some (n_of_int p)
  | Some None -> None
  | None -> need := k :: !need; None

let hexo = function None -> "NULL" | Some l -> hex_of_bytes l

let view_str (v : uview) : string =
  Printf.sprintf "scheme=%s userinfo=%s host=%s port=%d path=%s query=%s fragment=%s"
    (hex_of_bytes v.v_scheme) (hexo v.v_userinfo) (hexo v.v_hostname) (int_of_n v.v_port)
    (hex_of_bytes v.v_path) (hexo v.v_query) (hexo v.v_fragment)

let need_suffix () =
  match !need with
  | [] -> ""
  | l -> let s = " NEED-SVC=" ^ String.concat "," (List.sort_uniq compare l) in need := []; s

(* the argument string as the memory at the pointer: the bytes and their NUL *)
let raw_of hex = bytes_of_hex hex @ [N0]

let do_parse hex : (nurl, string) result =
  match url_parse !flags resolver (raw_of hex) with
  | UOob -> Error "MODEL-OOB"
  | UErr rv -> Error (Printf.sprintf "rv=%d" (int_of_n rv))
  | UVal u -> Ok u

let show_url tag (u : nurl) =
  match url_view u with
  | None -> Printf.printf "%s MODEL-OOB%s\n" tag (need_suffix ())
  | Some v -> Printf.printf "%s rv=0 %s%s\n" tag (view_str v) (need_suffix ())

let b2i b = if b then 1 else 0

let () =
  (match Array.to_list Sys.argv with
   | _ :: "--flags" :: f :: _ when String.length f = 5 ->
       flags := { fx_scheme = f.[0] = '1'; fx_utf8 = f.[1] = '1'; fx_clone = f.[2] = '1'; fx_clone_null = f.[3] = '1';
                  fx_bracket = f.[4] = '1' }
   | _ -> ());
  try
    while true do
      let line = input_line stdin in
      (match split_ws line with
      | [] -> ()
      | w :: _ when w.[0] = '#' -> ()
      | "mark" :: k :: _ -> print_endline ("mark " ^ k)
      | "svc" :: name :: ans :: _ ->
          Hashtbl.replace svc name (if ans = "-" then None else Some (int_of_string ans));
          Printf.printf "svc %s %s\n" name ans
      | "parse" :: hex :: _ ->
          (match do_parse hex with
           | Error e -> Printf.printf "parse %s%s\n" e (need_suffix ())
           | Ok u -> show_url "parse" u)
      | "sprintf" :: hex :: _ ->
          (match do_parse hex with
           | Error e -> Printf.printf "sprintf %s%s\n" e (need_suffix ())
           | Ok u ->
             (match url_sprintf u with
              | None -> Printf.printf "sprintf MODEL-OOB%s\n" (need_suffix ())
              | Some s -> Printf.printf "sprintf rv=0 len=%d str=%s%s\n" (List.length s) (hex_of_bytes s) (need_suffix ())))
      | "rt" :: hex :: _ ->
          (match do_parse hex with
           | Error e -> Printf.printf "rt %s%s\n" e (need_suffix ())
           | Ok u ->
             (match url_sprintf u with
              | None -> Printf.printf "rt MODEL-OOB%s\n" (need_suffix ())
              | Some s ->
                (match url_parse !flags resolver (s @ [N0]) with
                 | UOob -> Printf.printf "rt MODEL-OOB%s\n" (need_suffix ())
                 | UErr rv -> Printf.printf "rt rv=0 rv2=%d%s\n" (int_of_n rv) (need_suffix ())
                 | UVal u2 -> show_url "rt rv=0 rv2=0" u2)))
      | "clone" :: hex :: _ ->
          (match do_parse hex with
           | Error e -> Printf.printf "clone %s%s\n" e (need_suffix ())
           | Ok u ->
             (match url_clone !flags.fx_clone !flags.fx_clone_null u with
              | UOob | UErr _ -> Printf.printf "clone MODEL-OOB%s\n" (need_suffix ())
              | UVal (rv, None) -> Printf.printf "clone rv=0 crv=%d%s\n" (int_of_n rv) (need_suffix ())
              | UVal (rv, Some c) ->
                  (* a component NULL in the original but not in the clone is a wild pointer: reported, not followed *)
                  let wild = u.u_hostname = None && c.u_hostname <> None in
                  let c' = if wild then { c with u_hostname = None } else c in
                  show_url (Printf.sprintf "clone rv=0 crv=%d%s" (int_of_n rv) (if wild then " WILD-HOST" else "")) c'))
      | ("canon" | "canon2" as op) :: hex :: _ ->
          let once b = match canonify !flags.fx_utf8 b with
            | None -> Error "MODEL-OOB"
            | Some (rv, b') -> if int_of_n rv <> 0 then Error (Printf.sprintf "rv=%d" (int_of_n rv)) else Ok b' in
          let out b = match cstr_at b O with None -> "MODEL-OOB" | Some s -> "rv=0 out=" ^ hex_of_bytes s in
          (match once (raw_of hex) with
           | Error e -> Printf.printf "%s %s\n" op e
           | Ok b ->
             if op = "canon" then Printf.printf "%s %s\n" op (out b)
             else (match once b with
                   | Error e -> Printf.printf "%s rv=0 second %s\n" op e
                   | Ok b2 -> Printf.printf "%s %s\n" op (out b2)))
      | "spec" :: "path" :: hex :: _ ->
          let p = bytes_of_hex hex in
          Printf.printf "spec ev=%d utf8=%d esc=%d dslash=%d dot=%d ok=%d\n"
            (b2i (escapes_valid p)) (b2i (wf_utf8b (pct_decode p))) (b2i (escapes_canonical p))
            (b2i (no_double_slash p)) (b2i (no_dot_segments p)) (b2i (path_ok p))
      | "spec" :: "text" :: hex :: _ ->
          (* query / fragment text: escapes valid and canonical, raw bytes well-formed UTF-8 *)
          let p = bytes_of_hex hex in
          Printf.printf "spec ev=%d utf8=%d esc=%d wfraw=%d\n" (b2i (escapes_valid p)) (b2i (wf_utf8b (pct_decode p)))
            (b2i (escapes_canonical p)) (b2i (wf_utf8b p))
      | "spec" :: "wf" :: hex :: _ ->
          Printf.printf "spec wf=%d\n" (b2i (wf_utf8b (bytes_of_hex hex)))
      | "spec" :: "host" :: hex :: _ ->
          Printf.printf "spec lower=%d\n" (b2i (host_lower (bytes_of_hex hex)))
      | "spec" :: "input" :: hex :: _ ->
          (* the input text split as the property reads it *)
          let raw = bytes_of_hex hex in
          let st = scheme_text raw in
          (match after_scheme raw with
           | None -> Printf.printf "spec sep=0 scheme=%s known=%d\n" (hex_of_bytes st) (b2i (known_schemeb st))
           | Some rest ->
               let au = authority_of rest in
               Printf.printf "spec sep=1 scheme=%s known=%d pathonly=%d auth=%s ats=%d rest=%s\n" (hex_of_bytes st)
                 (b2i (known_schemeb st)) (b2i (path_only_scheme st)) (hex_of_bytes au)
                 (List.length (List.filter (fun c -> int_of_n c = 64) au)) (hex_of_bytes rest))
      | "spec" :: "port" :: hex :: _ ->
          (match port_numeric (bytes_of_hex hex) with
           | None -> print_endline "spec numeric=-"
           | Some v -> Printf.printf "spec numeric=%d\n" (int_of_n v))
      | _ -> print_endline "bad line");
      ()
    done
  with End_of_file -> ()
