(* model: c17-msg *)
(* drv_msg.ml: runs MsgModel on an op script, one observation line per op, in
   the same text format as harness/wb_msg.c; lines "spec <hdr> <body> <op..>"
   evaluate the extracted MsgSpec.spec_step on the given pair of strings. *)
open Nngv_model
open Conv

let slots : msg option array = Array.make 8 None

let obs (rv : int) (v : string) (m : msg option) : string =
  match m with
  | None -> Printf.sprintf "rv=%d val=%s none" rv v
  | Some m ->
      let body = match msg_body m with Some b -> hex_of_bytes b | None -> "OOB" in
      Printf.sprintf "rv=%d val=%s hdr=%s body=%s cap=%d" rv v (hex_of_bytes m.m_hdr) body
        (int_of_nat (msg_capacity m))

let vstr = function None -> "-" | Some v -> hex_of_n v

let parse_op (name : string) (rest : string list) : op =
  let nat k = nat_of_int (int_of_string (List.nth rest k)) in
  match name with
  | "append" -> Append (bytes_of_hex (List.nth rest 0))
  | "insert" -> Insert (bytes_of_hex (List.nth rest 0))
  | "trim" -> Trim (nat 0) | "chop" -> Chop (nat 0)
  | "happend" -> HAppend (bytes_of_hex (List.nth rest 0))
  | "hinsert" -> HInsert (bytes_of_hex (List.nth rest 0))
  | "htrim" -> HTrim (nat 0) | "hchop" -> HChop (nat 0)
  | "realloc" -> Realloc (nat 0) | "reserve" -> Reserve (nat 0)
  | "clear" -> Clear | "hclear" -> HClear
  | "appendu" -> AppendU (nat 0, n_of_hex (List.nth rest 1))
  | "insertu" -> InsertU (nat 0, n_of_hex (List.nth rest 1))
  | "trimu" -> TrimU (nat 0) | "chopu" -> ChopU (nat 0)
  | "happendu" -> HAppendU (nat 0, n_of_hex (List.nth rest 1))
  | "hinsertu" -> HInsertU (nat 0, n_of_hex (List.nth rest 1))
  | "htrimu" -> HTrimU (nat 0) | "hchopu" -> HChopU (nat 0)
  | _ -> failwith ("bad op " ^ name)

let () =
  try
    while true do
      let line = input_line stdin in
      match split_ws line with
      | [] -> ()
      | w :: _ when w.[0] = '#' -> ()
      | "mark" :: k :: _ -> print_endline ("mark " ^ k)
      | "spec" :: h :: b :: name :: rest ->
          let s = (bytes_of_hex h, bytes_of_hex b) in
          let o = parse_op name rest in
          let ((rv, v), (h', b')) = spec_step s o in
          (match o with
           | Realloc n when List.length (snd s) < int_of_nat n ->
               (* growing: old body followed by (n - len) unspecified bytes *)
               Printf.printf "spec rv=0 val=- hdr=%s body=%s tailfree=%d\n" (hex_of_bytes (fst s))
                 (hex_of_bytes (snd s)) (int_of_nat n - List.length (snd s))
           | _ -> Printf.printf "spec rv=%d val=%s hdr=%s body=%s tailfree=0\n" (int_of_n rv) (vstr v)
                    (hex_of_bytes h') (hex_of_bytes b'))
      | "alloc" :: i :: sz :: _ ->
          let i = int_of_string i and sz = int_of_string sz in
          (match msg_alloc (nat_of_int sz) false false with
           | Some (rv, Some m) -> slots.(i) <- Some m; print_endline (obs (int_of_n rv) "-" (Some m))
           | Some (rv, None) -> print_endline (obs (int_of_n rv) "-" None)
           | None -> print_endline "MODEL-OOB")
      | "free" :: i :: _ -> let i = int_of_string i in slots.(i) <- None; print_endline "ok"
      | "dup" :: i :: j :: _ ->
          let i = int_of_string i and j = int_of_string j in
          (match slots.(i) with
           | None -> print_endline "noslot"
           | Some m ->
             (match msg_dup m false false with
              | Some (rv, Some m') -> slots.(j) <- Some m'; print_endline (obs (int_of_n rv) "-" (Some m'))
              | Some (rv, None) -> print_endline (obs (int_of_n rv) "-" None)
              | None -> print_endline "MODEL-OOB"))
      | "pullup" :: i :: _ ->
          let i = int_of_string i in
          (match slots.(i) with
           | None -> print_endline "noslot"
           | Some m ->
             (match msg_pull_up true m false false false with
              | Some (Some m') -> slots.(i) <- Some m'; print_endline (obs 0 "-" (Some m'))
              | Some None -> print_endline (obs 2 "-" None)
              | None -> print_endline "MODEL-OOB"))
      | name :: i :: rest ->
          let i = int_of_string i in
          (match slots.(i) with
           | None -> print_endline "noslot"
           | Some m ->
             (match msg_step true m (parse_op name rest) false with
              | None -> print_endline "MODEL-OOB"
              | Some ((rv, v), m') ->
                  slots.(i) <- Some m';
                  print_endline (obs (int_of_n rv) (vstr v) (Some m'))))
      | _ -> failwith "bad line"
    done
  with End_of_file -> ()
