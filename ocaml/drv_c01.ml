(* model: c01-frame *)
(* drv_c01.ml: runs the extracted C01/C11 models (IovModel, SpFrameModel,
   InprocModel, ReqRepBacktrace, WsMsgModel) on the script of harness/wb_c01.c
   and prints the same observation lines.  "spec ..." lines evaluate the staged
   decoder (the abstract receiver) on an uncut stream.  Hand-written, trusted. *)
open Nngv_model
open Conv

let n_of_string (s : string) : n = n_of_hex (Printf.sprintf "%x" (int_of_string s))
(* which text of nni_msg_pull_up the tree under test has: the check passes --chk=0|1 (what it reads from the source
   itself; the generated constant is the default) *)
let pullup_chk = ref c01_PULLUP_CHECKS_INSERT
let allocmax : n = n_of_hex "1000000000"   (* 2^36: nni_msg_alloc above this fails (ASan allocator limit) *)
let big : n = n_of_hex "10000000000"

let parse_list (s : string) : int list =
  if s = "-" then [] else List.map int_of_string (List.filter (fun x -> x <> "") (String.split_on_char ',' s))

let rec drop k l = if k <= 0 then l else match l with [] -> [] | _ :: r -> drop (k - 1) r
let rec take k l = if k <= 0 then [] else match l with [] -> [] | x :: r -> x :: take (k - 1) r

(* pieces of l cut at ascending positions (clamped; empty pieces dropped) *)
let pieces (l : 'a list) (cuts : int list) : 'a list list =
  let a = Array.of_list l in
  let len = Array.length a in
  let rec go off cuts acc =
    match cuts with
    | [] -> List.rev (if off < len then (Array.to_list (Array.sub a off (len - off))) :: acc else acc)
    | c :: r -> let c = min c len in
                if c > off then go c r ((Array.to_list (Array.sub a off (c - off))) :: acc) else go off r acc in
  go 0 cuts []

let hexs = hex_of_bytes
let kind_of tran = if tran = "ipc" then KIpc else KTcp

(* ------------------------------------------------------------------ iov *)
let parse_iov (s : string) : iov list =
  if s = "-" then [] else
  List.map (fun e ->
    match String.split_on_char ':' e with
    | [p; l] -> { iv_ptr = (if p = "-" then None else Some (n_of_string p)); iv_len = n_of_string l }
    | _ -> failwith "iov") (String.split_on_char ',' s)

let print_aiov n ret (a : aiov) =
  let cnt = match iov_count a with Some c -> int_of_n c | None -> -1 in
  Printf.printf "adv n=%d ret=%d nio=%d count=%d iov=%s\n" n ret (int_of_nat a.a_nio) cnt
    (String.concat "," (List.map (fun e ->
       (match e.iv_ptr with None -> "-" | Some p -> string_of_int (int_of_n p)) ^ ":" ^ string_of_int (int_of_n e.iv_len)) a.a_iov))

let do_iov ents advs =
  match set_iov aiov0 (parse_iov ents) with
  | None -> print_endline "set panic"
  | Some (rv, a) ->
      Printf.printf "set rv=%d\n" (int_of_n rv);
      if int_of_n rv = 0 then begin
        print_aiov 0 0 a;
        let cur = ref (Some a) in
        List.iter (fun k ->
          match !cur with
          | None -> ()
          | Some a ->
              (match iov_advance a (n_of_int k) with
               | None -> print_endline "adv panic"; cur := None
               | Some (a', r) -> print_aiov k (int_of_n r) a'; cur := Some a')) (parse_list advs)
      end

(* -------------------------------------------------------------- pull-up *)
let build_msg (body : n list) (hdr : n list) : msg option =
  match msg_alloc O false false with
  | Some (_, Some m0) ->
      (match msg_step true m0 (Append body) false with
       | Some ((_, _), m1) ->
           (match msg_step true m1 (HAppend hdr) false with
            | Some ((rv, _), m2) when int_of_n rv = 0 -> Some m2
            | _ -> None)
       | None -> None)
  | _ -> None

let print_rx_msg (hdr : n list) (body : n list) =
  Printf.printf "rx hdr=%s body=%s\n" (hexs hdr) (hexs body)

let do_pullup bodyhex hdrhex shared fk =
  match build_msg (bytes_of_hex bodyhex) (bytes_of_hex hdrhex) with
  | None -> print_endline "pullup setup failed"
  | Some m ->
      let sh = shared = "1" in
      (* the allocations nni_msg_pull_up can make, in order: duplicate branch: the nni_msg struct (0), its chunk
         (1); insert branch: the grown chunk (0) *)
      let k = int_of_string fk in
      let dup = sh || int_of_nat (chunk_room m.m_body) < List.length m.m_hdr in
      let f1 = dup && k = 0 and f2 = (dup && k = 1) || ((not dup) && k = 0) in
      (match ip_pull_up !pullup_chk m sh f1 f2 with
       | None -> print_endline "pullup panic"
       | Some None -> print_endline "pullup none"
       | Some (Some pu) ->
           (match msg_body pu with
            | None -> print_endline "pullup panic"
            | Some b -> Printf.printf "pullup hdr=%s body=%s\n" (hexs pu.m_hdr) (hexs b)))

(* ------------------------------------------------------------------- rx *)
(* what the receiving protocol does with a message handed up by the transport *)
type pres = PDeliver of n list * n list | PDropMsg | PClosePipe

let proto_recv (proto : string) (wire : n list) : pres =
  match proto with
  | "xrep" ->
      (match xrep_recv N0 (nat_of_int 8) wire with
       | BtDeliver pm -> PDeliver (drop 4 pm.pm_hdr, pm.pm_body)
       | BtDrop -> PDropMsg
       | BtClose -> PClosePipe)
  | "pair1" ->
      (match proto_check (PrPair1 (false, nat_of_int 8)) N0 wire with
       | AppDeliver (h, b) -> PDeliver (h, b)
       | MsgDrop -> PDropMsg
       | PipeClose -> PClosePipe)
  | _ -> PDeliver ([], wire)

let do_rx tran proto rcvmax negohex negocuts streamhex cuts flags self peer =
  let k = kind_of tran in
  let selfid = n_of_string self and peerid = n_of_string peer in
  Printf.printf "nego tx=%s\n" (hexs (sp_header selfid));
  let nh = bytes_of_hex negohex in
  let closes = String.contains flags 'c' in
  let wait = String.contains flags 'w' in
  let finish n closed =
    Printf.printf "end n=%d closed=%d extra=0\n" n (if wait then (if closed then 1 else 0) else -1) in
  match nego_rx_all (nego_sent k selfid) (pieces nh (parse_list negocuts)) with
  | None -> print_endline "nego panic"
  | Some ((st, outs), rest) ->
      if not st.ng_done then
        (* fewer than 8 bytes: nng keeps waiting (10 s); an EOF fails the negotiation *)
        finish 0 closes
      else begin
        let ready = List.exists (function NReady p -> peer_accept peerid p | _ -> false) outs in
        if not ready then finish 0 true
        else begin
          let cfg = { r_kind = k; r_rcvmax = n_of_string rcvmax; r_allocmax = allocmax } in
          let stream = bytes_of_hex streamhex in
          let ps = pieces stream (parse_list cuts) in
          let ps = if rest = [] then ps else rest :: ps in
          match rx_init k with
          | None -> print_endline "rx panic"
          | Some st0 ->
              (match rx_feed_all cfg st0 ps with
               | None -> print_endline "rx panic"
               | Some (st1, evs) ->
                   let n = ref 0 and closed = ref false in
                   List.iter (fun e ->
                     if not !closed then
                       match e with
                       | RDeliver m ->
                           (match proto_recv proto m with
                            | PDeliver (h, b) ->
                                if proto = "xrep" then Printf.printf "rx hdr=P:%s body=%s\n" (hexs h) (hexs b)
                                else print_rx_msg h b;
                                incr n
                            | PDropMsg -> ()
                            | PClosePipe -> closed := true)
                       | RError _ -> closed := true
                       | RAlloc _ -> ()) evs;
                   (* an EOF from the peer ends the connection too *)
                   finish !n (!closed || closes))
        end
      end

(* ------------------------------------------------------------------- tx *)
let parse_msgs (s : string) : (n list * n list) list =
  List.map (fun t ->
    match String.split_on_char ':' t with
    | [h; b] -> (bytes_of_hex (if h = "" then "-" else h), bytes_of_hex (if b = "" then "-" else b))
    | _ -> failwith "msgs") (String.split_on_char ',' s)

let do_tx tran proto msgs self =
  let k = kind_of tran in
  Printf.printf "nego tx=%s\n" (hexs (sp_header (n_of_string self)));
  (* pair0 (cooked or raw) and raw pub leave the header as the application set it *)
  let cooked = false && proto = "" in
  let out = ref [] and ok = ref true in
  List.iter (fun (h, b) ->
    let m = { sp_hdr = (if cooked then [] else h); sp_body = b } in
    match send_msg k m [big] with
    | Some ((w, _), true) -> out := !out @ w
    | _ -> ok := false) (parse_msgs msgs);
  if not !ok then print_endline "tx panic"
  else Printf.printf "wire %s\nend sent_rv=0 n=%d\n" (hexs !out) (List.length !out)

(* --------------------------------------------------------------- inproc *)
let do_inproc mode msgs =
  let ms = parse_msgs msgs in
  let built = List.map (fun (h, b) -> build_msg b h) ms in
  if List.exists (fun x -> x = None) built then print_endline "inproc setup failed"
  else begin
    let built = List.map (function Some m -> m | None -> assert false) built in
    let shared = mode = "pub2" in
    let sends = List.mapi (fun i m -> ISend (n_of_int (100 + i), m, shared, false, false)) built in
    let recvs = List.mapi (fun i _ -> IRecv (n_of_int (200 + i))) built in
    let ops =
      if mode = "pairi" then List.concat (List.map2 (fun s r -> [s; r]) sends recvs) else sends @ recvs in
    let run () =
      match ip_run !pullup_chk ip_init ops with
      | None -> None
      | Some (_, outs) ->
          Some (List.filter_map (function
                  | OHandoff (_, _, m) -> (match msg_body m with Some b -> Some (m.m_hdr, b) | None -> None)
                  | _ -> None) outs) in
    match run () with
    | None -> print_endline "inproc panic"
    | Some del ->
        if mode = "pairi" then
          List.iter (fun (h, b) -> print_endline "sent rv=0"; print_rx_msg h b) del
        else begin
          List.iter (fun _ -> print_endline "sent rv=0") ms;
          if shared then
            List.iter (fun kk -> Printf.printf "sub %d\n" kk; List.iter (fun (h, b) -> print_rx_msg h b) del) [0; 1]
          else List.iter (fun (h, b) -> print_rx_msg h b) del
        end;
        print_endline "end"
  end

(* back-pressure over inproc: the sends wait in the writers queue (or in the sending protocol) until the receiving
   side posts receives; what arrives is every message, pulled up, in order *)
let do_inprocbp mode msgs =
  let ms = parse_msgs msgs in
  let ms = if mode = "push" then List.map (fun (_, b) -> ([], b)) ms else ms in
  let built = List.map (fun (h, b) -> build_msg b h) ms in
  if List.exists (fun x -> x = None) built then print_endline "inproc setup failed"
  else begin
    let built = List.map (function Some m -> m | None -> assert false) built in
    let sends = List.mapi (fun i m -> ISend (n_of_int (100 + i), m, false, false, false)) built in
    let recvs = List.mapi (fun i _ -> IRecv (n_of_int (200 + i))) built in
    match ip_run !pullup_chk ip_init (sends @ recvs) with
    | None -> print_endline "inproc panic"
    | Some (_, outs) ->
        List.iter (function
          | OHandoff (_, _, m) -> (match msg_body m with Some b -> print_rx_msg m.m_hdr b | None -> ())
          | _ -> ()) outs;
        print_endline "end sent_rv=0"
  end

(* ------------------------------------------------------ SP over WebSocket *)
let def_maxrxframe = n_of_int 1048576
let def_maxtxframe = n_of_int 65536

let do_wsrx role rcvmax streamhex cuts flags wproto =
  let server = role = "l" in
  (* a dialing socket asks for its peer's sub-protocol *)
  let peername = match wproto with "pull" -> "push" | "sub" -> "pub" | _ -> "pair" in
  print_endline (if server then "hs status=101" else Printf.sprintf "hs proto=%s.sp.nanomsg.org" peername);
  let cfg = { c_server = server; c_isstream = false; c_maxframe = def_maxrxframe;
              c_recvmax = eff_recvmax c16_DIALER_COPIES_RECVMAX server (n_of_string rcvmax); c_recv_text = false;
              c_allocmax = allocmax; c_ctl_counts = c16_RECVMAX_COUNTS_CONTROL } in
  let ps = pieces (bytes_of_hex streamhex) (parse_list cuts) in
  let st = ref ws_dinit and evs = ref [] in
  List.iter (fun p -> let (s', e) = ws_feed cfg !st p in st := s'; evs := !evs @ e) ps;
  let n = ref 0 and closed = ref false in
  List.iter (function
    | EDeliver m -> if not !closed then (print_rx_msg [] m; incr n)
    | EClose _ -> closed := true
    | ETx _ -> ()) !evs;
  let wait = String.contains flags 'w' in
  Printf.printf "end n=%d closed=%d\n" !n
    (if wait then (if !closed || String.contains flags 'c' then 1 else 0) else -1)

let do_wstx role fragsize msgs =
  let server = role = "l" in
  print_endline (if server then "hs status=101" else "hs proto=pair.sp.nanomsg.org");
  let fs = n_of_string fragsize in
  let fs = if int_of_n fs = 0 then def_maxtxframe else eff_fragsize c16_DIALER_COPIES_FRAGSIZE server fs in
  let cnt = ref 0 in
  List.iter (fun (h, b) ->
    List.iter (fun ((op, fin), payload) ->
      incr cnt;
      Printf.printf "wsframe op=%d fin=%d masked=%d rsv=0 payload=%s\n" (int_of_n op) (if fin then 1 else 0)
        (if server then 0 else 1) (hexs payload)) (ws_send_frames false false fs (h @ b))) (parse_msgs msgs);
  Printf.printf "end sent_rv=0 frames=%d rest=0\n" !cnt

(* ----------------------------------------------------------- C11 sessions *)
let proto_rx_of (proto : string) : proto_rx =
  let ttl = nat_of_int 8 in
  match proto with
  | "rep" -> PrRep ttl | "xrep" -> PrXRep ttl | "req" -> PrReq | "xreq" -> PrXReq
  | "surveyor" -> PrSurveyor | "xsurveyor" -> PrXSurveyor
  | "respondent" -> PrResp ttl | "xrespondent" -> PrXResp ttl
  | "pair1" -> PrPair1 (false, ttl) | "pair1raw" -> PrPair1 (true, ttl)
  | _ -> PrPlain

let do_sess tran role proto rcvmax streamhex cuts flags ctlhex self peer =
  let cfg = { cc_rx = { r_kind = kind_of tran; r_rcvmax = n_of_string rcvmax; r_allocmax = allocmax };
              cc_self = n_of_string self; cc_expect = n_of_string peer; cc_proto = proto_rx_of proto; cc_pipe = N0 } in
  let ps = pieces (bytes_of_hex streamhex) (parse_list cuts) in
  match conn_feed_all cfg (conn_init cfg) ps with
  | None -> print_endline "sess panic"
  | Some (st, evs) ->
      let n = ref 0 in
      let silent = proto = "req" || proto = "surveyor" in   (* nothing is outstanding: every reply is discarded *)
      List.iter (function
        | CDeliver (h, b) ->
            if not silent then begin
              incr n;
              if proto = "xrep" || proto = "xrespondent" then
                Printf.printf "rx hdr=P:%s body=%s\n" (hexs (drop 4 h)) (hexs b)
              else if proto = "rep" || proto = "respondent" then print_rx_msg [] b
              else print_rx_msg h b
            end
        | _ -> ()) evs;
      let closed_m = (match st with CClosed -> true | _ -> false) in
      let reset = String.contains flags 'r' in
      let closed = closed_m || String.contains flags 'c' || reset in
      let shown = if reset then 1 else if String.contains flags 'w' then (if closed then 1 else 0) else -1 in
      Printf.printf "end n=%d closed=%d\n" !n shown;
      if ctlhex <> "-" then begin
        let single = String.length proto >= 4 && String.sub proto 0 4 = "pair" in
        if shown <> 1 && (single || role = "d") then print_endline "ctl skipped" else print_endline "ctl ok=1"
      end

(* stall: a peer sends part of its handshake and goes silent; the negotiation aio of tcp / ipc expires (10 s, on the
   virtual clock), socket:// has no such timeout; afterwards a well-behaved connection is served *)
let do_stall tran proto parthex self peer =
  if tran = "ws" then print_endline "ctl ok=1"
  else begin
    let cfg = { cc_rx = { r_kind = kind_of tran; r_rcvmax = N0; r_allocmax = allocmax };
                cc_self = n_of_string self; cc_expect = n_of_string peer; cc_proto = proto_rx_of proto; cc_pipe = N0 } in
    match conn_feed_all cfg (conn_init cfg) [bytes_of_hex parthex] with
    | None -> print_endline "stall panic"
    | Some (st, _) ->
        let st' = if tran = "sfd" then st else fst (conn_eof st (n_of_int 5)) in
        Printf.printf "stall closed=%d\n" (match st' with CClosed -> 1 | _ -> 0);
        print_endline "ctl ok=1"
  end

(* ------------------------------------------------------------------ UDP *)
let le16_bytes (v : int) = [n_of_int (v land 255); n_of_int ((v lsr 8) land 255)]
let do_udp dgrams self peer =
  let selfid = int_of_string self and peerid = int_of_string peer in
  let pipe = ref None and n = ref 0 and refresh = ref 5 in
  let reply op p0 p1 =
    Printf.printf "reply %s\n" (hexs ([n_of_int 1; n_of_int op] @ le16_bytes selfid @ le16_bytes p0 @ le16_bytes p1)) in
  List.iter (fun dh ->
    let d = bytes_of_hex dh in
    let ep = { ue_dialer = false; ue_closed = false; ue_pipe = !pipe; ue_full = false } in
    let op = match d with _ :: o :: _ -> int_of_n o | _ -> -1 in
    match udp_classify ep d with
    | UIgnore -> ()
    | UData p ->
        (match !pipe with
         | Some pi when not pi.up_closed -> incr n; print_rx_msg [] p
         | _ -> ())
    | UDisc r ->
        (* pipe-level disconnects (DATA / CREQ / CACK of a known peer) close the pipe and are sent once *)
        (match !pipe with
         | Some pi when op >= 0 && op <= 2 ->
             if not pi.up_closed then begin reply 3 (int_of_n r) 0; pipe := Some { pi with up_closed = true } end
         | _ -> reply 3 (int_of_n r) 0)
    | UNewPipe (ty, _, rf) ->
        refresh := min 5 (int_of_n rf);
        reply 2 65000 !refresh;
        if int_of_n ty = peerid then pipe := Some { up_peer = ty; up_rcvmax = n_of_int 65000; up_closed = false }
        else begin
          (* the protocol's pipe_start rejects the peer: the pipe is closed again, DISC(closed) *)
          reply 3 0 0; pipe := Some { up_peer = ty; up_rcvmax = n_of_int 65000; up_closed = true }
        end
    | URefresh rf -> refresh := min !refresh (int_of_n rf); reply 2 65000 !refresh
    | UCack (_, _, rf) -> refresh := min 5 (int_of_n rf)   (* udp_recv_cack: p->refresh = min(ep->refresh, us_refresh s) *)
    | UClosePipe -> (match !pipe with Some pi -> pipe := Some { pi with up_closed = true } | None -> ()))
    (String.split_on_char ',' dgrams);
  Printf.printf "end n=%d\n" !n

(* ----------------------------------------------------------------- spec *)
(* spec rx <tran> <rcvmax> <streamhex>: the staged decoder on the uncut stream *)
let do_spec_rx tran rcvmax streamhex =
  let cfg = { r_kind = kind_of tran; r_rcvmax = n_of_string rcvmax; r_allocmax = allocmax } in
  let (d, evs) = sp_feed cfg sp_dinit (bytes_of_hex streamhex) in
  List.iter (function
    | RDeliver m -> Printf.printf "spec rx %s\n" (hexs m)
    | RError rv -> Printf.printf "spec error %d\n" (int_of_n rv)
    | RAlloc _ -> ()) evs;
  Printf.printf "spec end pending=%d\n" (List.length d.d_acc)

let () =
  Array.iter (fun a -> if a = "--chk=1" then pullup_chk := true else if a = "--chk=0" then pullup_chk := false) Sys.argv;
  try
    while true do
      let line = input_line stdin in
      (match split_ws line with
       | [] -> ()
       | "mark" :: k :: _ -> Printf.printf "mark %s\n" k
       | "iov" :: e :: a :: _ -> do_iov e a
       | "pullup" :: b :: h :: s :: f :: _ -> do_pullup b h s f
       | "rx" :: tran :: _role :: proto :: rcvmax :: nh :: nc :: st :: cuts :: _nexp :: fl :: self :: peer :: _ ->
           do_rx tran proto rcvmax nh nc st cuts fl self peer
       | "tx" :: tran :: _role :: proto :: _small :: msgs :: _pd :: _ch :: _pa :: _tot :: self :: _ ->
           do_tx tran proto msgs self
       | "inproc" :: mode :: msgs :: _ -> do_inproc mode msgs
       | "inprocbp" :: mode :: _rb :: msgs :: _ -> do_inprocbp mode msgs
       | "flood" :: _ -> print_endline "fds back=1"; print_endline "ctl ok=1"
       | "sess" :: tran :: role :: proto :: rcvmax :: st :: cuts :: fl :: ctl :: _nexp :: self :: peer :: _ ->
           do_sess tran role proto rcvmax st cuts fl ctl self peer
       | "stall" :: tran :: proto :: part :: _adv :: _ctl :: self :: peer :: _ -> do_stall tran proto part self peer
       | "wshs" :: _ -> print_endline "ctl ok=1"
       | "udp" :: _proto :: dgrams :: _nexp :: self :: peer :: _ -> do_udp dgrams self peer
       | "wsrx" :: role :: rcvmax :: st :: cuts :: _nexp :: fl :: rest ->
           do_wsrx role rcvmax st cuts fl (match rest with p :: _ -> p | [] -> "pair0")
       | "wstx" :: role :: fs :: msgs :: _ -> do_wstx role fs msgs
       | "spec" :: "rx" :: tran :: rcvmax :: st :: _ -> do_spec_rx tran rcvmax st
       | t :: _ when String.length t > 0 && t.[0] = '#' -> ()
       | t :: _ -> Printf.printf "badcmd %s\n" t);
      flush stdout
    done
  with End_of_file -> ()
