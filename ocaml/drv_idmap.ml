(* model: c18-idmap *)
(* drv_idmap.ml: runs IdMapModel on an op script and prints the same observation
   lines (and "diag ..." lines) as harness/wb_idmap.c.

   With the argument --spec the input is instead a list of lines
       <op line> TAB <observation line of the implementation>
   and the extracted IdMapSpec is used as the judge: the spec state is advanced
   with id_spec_step / id_spec_fail_step and each observation is checked against
   it; one line "ok" or "SPECFAIL <clause> <detail>" is printed per op. *)
open Nngv_model
open Conv

let hx = hex_of_n
let nhex s = n_of_hex s
let err_name = function IdOob -> "OOB" | IdFuel -> "FUEL" | IdPanic -> "PANIC" | IdUnderflow -> "UNDERFLOW"

let diag (m : id_map) : string =
  let cap = List.length m.id_entries in
  let b = Buffer.create 256 in
  Buffer.add_string b
    (Printf.sprintf "diag cap=%d count=%d load=%d min=%d max=%d dyn=%s reg=%d" cap (int_of_nat m.id_count)
       (int_of_nat m.id_load) (int_of_nat m.id_min_load) (int_of_nat m.id_max_load) (hx m.id_dyn_val)
       (if m.id_registered then 1 else 0));
  if cap <= 64 && cap > 0 then begin
    Buffer.add_string b " cells=";
    List.iteri (fun i e ->
      Buffer.add_string b (Printf.sprintf "%s%s/%d/%d" (if i > 0 then "," else "") (hx e.ie_key)
                             (int_of_nat e.ie_skips) (match e.ie_val with Some _ -> 1 | None -> 0))) m.id_entries
  end;
  Buffer.contents b

(* --fixed: the source has the repaired wrap test in nni_id_alloc (detected by tools/gen_consts_d/c18_idmap.py) *)
let fixed = ref false

let has_f toks = match List.rev toks with "fail" :: _ -> true | _ -> false

(* ------------------------------------------------------------ model mode *)
let model_mode () =
  let cur : id_map option ref = ref None in
  let rnd = ref N0 in
  let dead = ref false in   (* a model error is sticky until the next init *)
  let with_map f = match !cur with
    | None -> print_endline "nomap"
    | Some m -> if !dead then print_endline "MODEL-ERR-STICKY" else f m in
  let fail e = dead := true; print_endline ("MODEL-ERR " ^ err_name e) in
  try
    while true do
      let line = input_line stdin in
      match split_ws line with
      | [] -> ()
      | w :: _ when w.[0] = '#' -> ()
      | "mark" :: k :: _ -> print_endline ("mark " ^ k)
      | "init" :: lo :: hi :: rest ->
          let flags = match rest with f :: _ -> int_of_string ("0x" ^ f) | [] -> 0 in
          dead := false;
          if flags land 1 <> 0 then begin
            let m = id_map_static_init (nhex lo) (nhex hi) (flags land 2 <> 0) in
            cur := Some m; print_endline "init ok"; print_endline (diag m)
          end else begin
            match id_map_init (nhex lo) (nhex hi) (flags land 2 <> 0) with
            | IdOk m -> cur := Some m; print_endline "init ok"; print_endline (diag m)
            | IdErr _ -> print_endline "init precond"
          end
      | "rand" :: n :: _ -> rnd := nhex n; print_endline "rand ok"
      | "set" :: k :: v :: rest ->
          with_map (fun m ->
            if nhex v = N0 then print_endline "set precond" else
            match id_set m (nhex k) (nhex v) (has_f rest) with
            | IdOk (rv, m') -> cur := Some m'; Printf.printf "set rv=%d\n" (int_of_n rv); print_endline (diag m')
            | IdErr e -> fail e)
      | "get" :: k :: _ ->
          with_map (fun m ->
            match id_get m (nhex k) with
            | IdOk None -> print_endline "get v=-"
            | IdOk (Some v) -> print_endline ("get v=" ^ hx v)
            | IdErr e -> fail e)
      | "remove" :: k :: rest ->
          with_map (fun m ->
            match id_remove m (nhex k) (has_f rest) with
            | IdOk (rv, m') -> cur := Some m'; Printf.printf "remove rv=%d\n" (int_of_n rv); print_endline (diag m')
            | IdErr e -> fail e)
      | "alloc" :: v :: rest ->
          with_map (fun m ->
            if nhex v = N0 then print_endline "alloc precond" else
            match id_alloc !fixed m (nhex v) !rnd (has_f rest) with
            | IdOk ((rv, id), m') ->
                cur := Some m';
                (match id with
                 | Some id -> Printf.printf "alloc rv=%d id=%s\n" (int_of_n rv) (hx id)
                 | None -> Printf.printf "alloc rv=%d id=-\n" (int_of_n rv));
                print_endline (diag m')
            | IdErr e -> fail e)
      | "visit" :: _ ->
          with_map (fun m ->
            match id_visit_all m with
            | IdOk l -> print_endline (String.concat "" ("visit" :: List.map (fun (k, v) -> " " ^ hx k ^ ":" ^ hx v) l))
            | IdErr e -> fail e)
      | "count" :: _ -> with_map (fun m -> Printf.printf "count %d\n" (int_of_nat m.id_count))
      | "cursor" :: n :: _ ->
          with_map (fun m -> let m' = set_dyn m (nhex n) in cur := Some m'; print_endline "cursor ok"; print_endline (diag m'))
      | "fini" :: _ ->
          with_map (fun m -> let m' = id_map_fini m in cur := Some m'; print_endline "fini ok"; print_endline (diag m'))
      | op :: _ -> print_endline ("badop " ^ op)
    done
  with End_of_file -> ()

(* ------------------------------------------------------------- spec mode *)
let split_tab (s : string) : string * string =
  match String.index_opt s '\t' with
  | Some i -> (String.sub s 0 i, String.sub s (i + 1) (String.length s - i - 1))
  | None -> (s, "")

let rec n_cmp (a : n) (b : n) : int = compare (hex_pad a) (hex_pad b)
and hex_pad (a : n) : string = let h = hx a in String.make (40 - String.length h) '0' ^ h

let sorted_pairs (l : (n * n) list) : string list =
  List.map (fun (k, v) -> hx k ^ ":" ^ hx v) (List.sort (fun (a, _) (b, _) -> n_cmp a b) l)

let n_le a b = n_cmp a b <= 0

let spec_mode () =
  let cur : id_spec option ref = ref None in
  let rnd = ref N0 in
  let ok () = print_endline "ok" in
  let bad clause detail = print_endline ("SPECFAIL " ^ clause ^ " " ^ detail) in
  let with_spec f = match !cur with None -> print_endline "ok" | Some s -> f s in
  (* advance with the normal outcome, or with the failure outcome if the observation is that one *)
  let alt s o (matches : id_out -> bool) (describe : id_out -> string) clause =
    let (out, s') = id_spec_step s o in
    if matches out then (cur := Some s'; ok ())
    else match id_spec_fail_step s o with
      | Some (fout, fs) when matches fout -> cur := Some fs; ok ()
      | _ -> bad clause ("spec expects " ^ describe out) in
  try
    while true do
      let line = input_line stdin in
      let (opl, obs) = split_tab line in
      let obs = String.trim obs in
      match split_ws opl with
      | [] -> ()
      | w :: _ when w.[0] = '#' -> ()
      | "mark" :: k :: _ -> print_endline ("mark " ^ k)
      | "init" :: lo :: hi :: rest ->
          let flags = match rest with f :: _ -> int_of_string ("0x" ^ f) | [] -> 0 in
          if obs = "init precond" then (cur := None; ok ())
          else begin
            let lo = nhex lo and hi = nhex hi in
            let (lo, hi) = if flags land 1 <> 0 then (lo, hi)
              else ((if lo = N0 then n_of_int 1 else lo), (if hi = N0 then nhex "ffffffff" else hi)) in
            cur := Some { sp_map = []; sp_lo = lo; sp_hi = hi; sp_random = (flags land 2 <> 0); sp_cur = N0 };
            if obs = "init ok" then ok () else bad "init" obs
          end
      | "rand" :: n :: _ -> rnd := nhex n; ok ()
      | "set" :: k :: v :: rest ->
          with_spec (fun s ->
            if obs = "set precond" then ok () else
            alt s (IoSet (nhex k, nhex v, has_f rest))
              (function OutRv rv -> obs = Printf.sprintf "set rv=%d" (int_of_n rv) | _ -> false)
              (function OutRv rv -> Printf.sprintf "rv=%d" (int_of_n rv) | _ -> "?") "set-rv")
      | "get" :: k :: _ ->
          with_spec (fun s ->
            match id_spec_step s (IoGet (nhex k)) with
            | (OutGet r, _) ->
                let e = "get v=" ^ (match r with None -> "-" | Some v -> hx v) in
                if obs = e then ok () else bad "get" ("spec expects " ^ e)
            | _ -> bad "get" "internal")
      | "remove" :: k :: rest ->
          with_spec (fun s ->
            alt s (IoRemove (nhex k, has_f rest))
              (function OutRv rv -> obs = Printf.sprintf "remove rv=%d" (int_of_n rv) | _ -> false)
              (function OutRv rv -> Printf.sprintf "rv=%d" (int_of_n rv) | _ -> "?") "remove-rv")
      | "alloc" :: v :: rest ->
          with_spec (fun s ->
            if obs = "alloc precond" then ok () else begin
              (* direct clauses first: range and freshness of whatever id was issued *)
              let issued =
                try Scanf.sscanf obs "alloc rv=0 id=%s" (fun h -> Some (nhex h)) with _ -> None in
              match issued with
              | Some id when not (n_le s.sp_lo id && n_le id s.sp_hi) ->
                  bad "alloc-range" (Printf.sprintf "id %s outside [%s,%s]" (hx id) (hx s.sp_lo) (hx s.sp_hi))
              | Some id when am_mem s.sp_map id ->
                  bad "alloc-not-fresh" (Printf.sprintf "id %s is live" (hx id))
              | _ ->
                alt s (IoAlloc (nhex v, !rnd, has_f rest))
                  (function
                    | OutAlloc (rv, Some id) -> obs = Printf.sprintf "alloc rv=%d id=%s" (int_of_n rv) (hx id)
                    | OutAlloc (rv, None) -> obs = Printf.sprintf "alloc rv=%d id=-" (int_of_n rv)
                    | _ -> false)
                  (function
                    | OutAlloc (rv, Some id) -> Printf.sprintf "rv=%d id=%s (first free id in cyclic order from the cursor)" (int_of_n rv) (hx id)
                    | OutAlloc (rv, None) -> Printf.sprintf "rv=%d (range exhausted: %d live)" (int_of_n rv) (List.length s.sp_map)
                    | _ -> "?") "alloc-order"
            end)
      | "visit" :: _ ->
          with_spec (fun s ->
            let e = String.concat " " ("visit" :: sorted_pairs s.sp_map) in
            let got = match split_ws obs with
              | "visit" :: ps -> String.concat " " ("visit" :: List.sort (fun a b ->
                    let key x = let h = List.hd (String.split_on_char ':' x) in String.make (40 - String.length h) '0' ^ h in
                    compare (key a) (key b)) ps)
              | _ -> obs in
            if got = e then ok () else bad "visit" ("spec expects " ^ (if String.length e > 300 then String.sub e 0 300 ^ "..." else e)))
      | "count" :: _ ->
          with_spec (fun s ->
            let e = Printf.sprintf "count %d" (List.length s.sp_map) in
            if obs = e then ok () else bad "count" ("spec expects " ^ e))
      | "cursor" :: n :: _ ->
          with_spec (fun s -> cur := Some { s with sp_cur = nhex n }; ok ())
      | "fini" :: _ ->
          with_spec (fun s -> cur := Some { s with sp_map = [] }; ok ())
      | _ -> print_endline "ok"
    done
  with End_of_file -> ()

let () =
  let args = Array.to_list Sys.argv in
  if List.mem "--fixed" args then fixed := true;
  if List.mem "--spec" args then spec_mode () else model_mode ()
