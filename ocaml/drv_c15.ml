(* model: c15-poll *)
(* with: proto_link.ml *)
(* drv_c15.ml: every protocol model (cooked and raw) on the script language of
   harness/wb_proto.c, instantiated with the repairs the current source has
   (coq/Proto/PollModel.v c15_* over coq/Gen/Consts.v).  `--flags` prints which repairs
   are in force; `--pollable` runs the model of src/core/pollable.c on the script language of
   harness/wb_c15.c (raise / clear / getfd / poll). *)
open Nngv_model
open Conv
open Proto_link

let rec z_of_int (i : int) : z = if i = 0 then Z0 else if i > 0 then Zpos (pos_of_int i) else Zneg (pos_of_int (-i))

(* PAIRv1 headers are hop counts 1, 2, ...: keep the link's pipe ids out of their way (see drv_c08.ml) *)
let mk_far (type s) (init : s) (step : s -> pop -> s * pout list) (poll : s -> ppoll) : proto =
  let st = ref init in
  { step = (fun o ->
      let o' = (match o with
        | PPipeStart (p, peer) ->
            let k = Array.length !pipes - 1 in
            if k >= 0 && (!pipes).(k).pidn = p && int_of_n p < 0x40000000 then begin
              let np = { (!pipes).(k) with pidn = n_of_int (0x40000000 + int_of_n p) } in
              (!pipes).(k) <- np;
              PPipeStart (np.pidn, peer)
            end else o
        | _ -> o) in
      let (s', outs) = step !st o' in st := s'; outs);
    poll = (fun () -> poll !st); idgen = false }

let pollable_main () =
  (* one pollable per `new`; lines: new | raise | clear | getfd | poll ; observation: fd=<x|0|1> *)
  let p = ref plb_init in
  let show () = print_endline (match plb_readable !p with None -> "fd=x" | Some true -> "fd=1" | Some false -> "fd=0") in
  try
    while true do
      let line = input_line stdin in
      match split_ws line with
      | [] -> ()
      | w :: _ when w.[0] = '#' -> ()
      | "mark" :: k :: _ -> p := plb_init; print_endline ("mark " ^ k)
      | "new" :: _ -> p := plb_init; show ()
      | "raise" :: _ -> p := plb_step !p PlRaise; show ()
      | "clear" :: _ -> p := plb_step !p PlClear; show ()
      | "getfd" :: _ -> p := plb_step !p PlGetFd; show ()
      | "poll" :: _ -> show ()
      | "window" :: what :: _ ->
          let clear = (what = "clear") in
          let (a, b) = c15_window clear in
          let fd x = (match plb_readable x with Some true -> 1 | _ -> 0) in
          print_endline (Printf.sprintf "window fd=%d flag=%d%s" (fd a) (if plb_raised a then 1 else 0)
                           (if clear then Printf.sprintf " after-clear fd=%d" (fd b) else ""))
      | op :: _ -> print_endline ("badop " ^ op)
    done
  with End_of_file -> ()

let () =
  register "req0" (fun () -> mk_proto c15_req_init c15_req_step c15_req_poll true);
  register "rep0" (fun () -> mk_proto c15_rep_init c15_rep_step c15_rep_poll false);
  register "req0_raw" (fun () -> mk_proto c15_xreq_init c15_xreq_step c15_xreq_poll false);
  register "rep0_raw" (fun () -> mk_proto c15_xrep_init c15_xrep_step c15_xrep_poll false);
  register "sub0" (fun () -> mk_proto c15_sub_init c15_sub_step c15_sub_poll false);
  register "sub0_raw" (fun () -> mk_proto c15_xsub_init c15_xsub_step c15_xsub_poll false);
  register "pub0" (fun () -> mk_proto c15_pub_init c15_pub_step c15_pub_poll false);
  register "pub0_raw" (fun () -> mk_proto c15_pub_init c15_pub_step c15_pub_poll false);
  register "push0" (fun () -> mk_proto c15_push_init c15_push_step c15_push_poll false);
  register "push0_raw" (fun () -> mk_proto c15_push_init c15_push_step c15_push_poll false);
  register "pull0" (fun () -> mk_proto c15_pull_init c15_pull_step c15_pull_poll false);
  register "pull0_raw" (fun () -> mk_proto c15_pull_init c15_pull_step c15_pull_poll false);
  register "surveyor0" (fun () -> mk_proto c15_surv_init c15_surv_step c15_surv_poll true);
  register "respondent0" (fun () -> mk_proto c15_resp_init c15_resp_step c15_resp_poll false);
  register "surveyor0_raw" (fun () -> mk_proto c15_xsurv_init c15_xsurv_step c15_xsurv_poll false);
  register "respondent0_raw" (fun () -> mk_proto c15_xresp_init c15_xresp_step c15_xresp_poll false);
  register "pair0" (fun () -> mk_far c15_pair_init c15_pair0_step c15_pair_poll);
  register "pair0_raw" (fun () -> mk_far c15_pair_init c15_pair0_step c15_pair_poll);
  register "pair1" (fun () -> mk_far c15_pair_init c15_pair1_step c15_pair_poll);
  register "pair1_raw" (fun () -> mk_far c15_pair_init c15_pair1raw_step c15_pair_poll);
  register "bus0" (fun () -> mk_proto (c15_bus_init false) c15_bus_step c15_bus_poll false);
  register "bus0_raw" (fun () -> mk_proto (c15_bus_init true) c15_bus_step c15_bus_poll false);
  opt_hook := (fun name ty v ->
    match name, ty with
    | "req:resend-time", _ -> Some (OResendTime (z_of_int (int_of_string v)))
    | "req:resend-tick", _ -> Some (OResendTick (z_of_int (int_of_string v)))
    | "surveyor:survey-time", "ms" -> Some (OSurveyTime (z_of_int (int_of_string v)))
    | _ -> None);
  if Array.length Sys.argv > 1 && Sys.argv.(1) = "--flags" then
    print_endline (String.concat "" (List.map (fun b -> if b then "1" else "0") c15_flags))
  else if Array.length Sys.argv > 1 && Sys.argv.(1) = "--pollable" then pollable_main ()
  else main ()
