(* model: c02-provc *)
(* drv_provc.ml: the extracted provider-contract monitor (Core/ProvContract.pc_step) on the
   per-aio event histories observed by harness/wb_opkinds.c.
   input : one history per line  "H <id> <ev> <ev> ..."  with events
             S  submit          K  nni_aio_start accepted     R<rv>  nni_aio_start refused (completes with rv)
             F<rv>  finish      C<rv>  callback reads rv      D  callback returns
             X  a_stop latched (stop/close/fini section)      T  nng_aio_stop returned     U<code>  user disruption
   output: "H <id> ok phase=... stopped=... running=..."  or
           "H <id> breach at=<k> ev=<tok> phase=... stopped=... running=... why=<text>" *)
open Nngv_model
open Conv

let ev_of_tok (t : string) : pcevent option =
  let num () = n_of_int (int_of_string (String.sub t 1 (String.length t - 1))) in
  try
    (match t.[0] with
     | 'S' when t = "S" -> Some ESubmit
     | 'K' when t = "K" -> Some EStartOk
     | 'R' -> Some (EStartRefused (num ()))
     | 'F' -> Some (EFinish (num ()))
     | 'C' -> Some (ECallback (num ()))
     | 'D' when t = "D" -> Some ECbDone
     | 'X' when t = "X" -> Some EFwStop
     | 'T' when t = "T" -> Some EStopReturned
     | 'U' -> Some (EUser (num ()))
     | _ -> None)
  with _ -> None

let show_phase = function
  | PIdle -> "idle" | PSubmitted -> "submitted" | POwned -> "owned"
  | PCompleted rv -> Printf.sprintf "completed(%d)" (int_of_n rv)

let show (m : pcstate) =
  Printf.sprintf "phase=%s stopped=%b running=%d" (show_phase m.pc_phase) m.pc_stopped (int_of_nat m.pc_running)

(* words for the report; the verdict itself is pc_step's *)
let why (m : pcstate) (e : pcevent) : string =
  match e, m.pc_phase with
  | ESubmit, _ -> "submission while the previous operation on this aio is outstanding (harness error)"
  | EStartOk, PSubmitted -> "operation accepted by nni_aio_start on a stopped aio"
  | (EStartOk | EStartRefused _), PIdle -> "nni_aio_start without a submission"
  | (EStartOk | EStartRefused _), _ -> "second nni_aio_start for one submission"
  | EFinish _, PIdle -> "completion (nni_aio_finish) with no operation outstanding"
  | EFinish _, PCompleted _ -> "second completion of one operation (finish after finish, or finish after a refused nni_aio_start)"
  | ECallback rv, PCompleted r -> Printf.sprintf "callback read result %d, the operation completed with %d" (int_of_n rv) (int_of_n r)
  | ECallback _, PIdle -> "callback without a completion (second callback for one operation)"
  | ECallback _, _ -> "callback before the operation was completed"
  | ECbDone, _ -> "callback return without a callback"
  | EStopReturned, PIdle -> "nng_aio_stop returned while a callback was still running"
  | EStopReturned, _ -> "nng_aio_stop returned with an operation still outstanding"
  | _, _ -> "refused"

let () =
  try
    while true do
      let line = input_line stdin in
      match split_ws line with
      | "H" :: id :: toks ->
          let evs = List.map (fun t -> (t, ev_of_tok t)) toks in
          (match List.find_opt (fun (_, e) -> e = None) evs with
           | Some (t, _) -> Printf.printf "H %s badtoken %s\n" id t
           | None ->
             let l = List.map (fun (_, e) -> match e with Some e -> e | None -> assert false) evs in
             (match pc_run pc_init l with
              | Some m -> Printf.printf "H %s ok %s\n" id (show m)
              | None ->
                (match pc_first_breach pc_init l O with
                 | Some (k, m) ->
                     let k = int_of_nat k in
                     Printf.printf "H %s breach at=%d ev=%s %s why=%s\n" id k (List.nth toks k) (show m) (why m (List.nth l k))
                 | None -> Printf.printf "H %s breach at=? (pc_run refuses, pc_first_breach finds none)\n" id)))
      | _ -> ()
    done
  with End_of_file -> ()
