(* model: c04-reqrep *)
(* with: proto_link.ml *)
(* drv_c04.ml: REQ / REP / raw REQ / raw REP models (C04, C12) on the script language of
   harness/wb_proto.c.  Which repairs the source has is read from Gen/Consts.v. *)
open Nngv_model
open Conv
open Proto_link

let z_of_int (i : int) : z = if i = 0 then Z0 else if i > 0 then Zpos (pos_of_int i) else Zneg (pos_of_int (-i))

let () =
  let fx = { fx_clone = c04_REQ_CLONE_FIXED; fx_cancel = c04_REQ_CANCEL_SEND_FIXED; fx_stash = c04_REQ_STASH_FIXED; fx_rdclr = c04_REQ_RDCLR_FIXED } in
  let pf = { pf_rclose = c04_REP_RCLOSE_FIXED; pf_nbsend = c04_REP_NBSEND_FIXED; pf_saio = c04_REP_SAIO_FIXED; pf_wbusy = c04_REP_WBUSY_FIXED } in
  let mf = { mf_nb = c04_MSGQ_NB_FIXED; mf_resize = c04_MSGQ_RESIZE_FIXED; mf_getput = c04_MSGQ_GET_RUNS_PUTQ } in
  register "req0" (fun () -> mk_proto req_init (req_step fx) req_poll true);
  register "rep0" (fun () -> mk_proto rep_init (rep_step pf) rep_poll false);
  register "req0_raw" (fun () -> mk_proto xreq_init (xreq_step mf) xreq_poll false);
  register "rep0_raw" (fun () -> mk_proto xrep_init (xrep_step mf) xrep_poll false);
  opt_hook := (fun name _ty v ->
    match name with
    | "req:resend-time" -> Some (OResendTime (z_of_int (int_of_string v)))
    | "req:resend-tick" -> Some (OResendTick (z_of_int (int_of_string v)))
    | _ -> None);
  main ()
