(* conv.ml: conversions between OCaml values and the extracted Coq datatypes
   (hand-written, trusted). *)
open Nngv_model

let nat_of_int (i : int) : nat =
  let r = ref O in for _ = 1 to i do r := S !r done; !r
let int_of_nat (n : nat) : int =
  let rec go acc = function O -> acc | S k -> go (acc + 1) k in go 0 n

let rec pos_of_int (i : int) : positive =
  if i = 1 then XH else if i land 1 = 0 then XO (pos_of_int (i lsr 1)) else XI (pos_of_int (i lsr 1))
let n_of_int (i : int) : n = if i = 0 then N0 else Npos (pos_of_int i)
let rec int_of_pos = function XH -> 1 | XO p -> 2 * int_of_pos p | XI p -> 2 * int_of_pos p + 1
let int_of_n = function N0 -> 0 | Npos p -> int_of_pos p

(* arbitrary-size N <-> hex strings (big-endian digits) *)
let n_of_hex (s : string) : n =
  let msb_first = ref [] in
  String.iter (fun c ->
    let d = int_of_string ("0x" ^ String.make 1 c) in
    msb_first := (d land 1 = 1) :: (d land 2 = 2) :: (d land 4 = 4) :: (d land 8 = 8) :: !msb_first) s;
  (* msb_first now holds bits LSB first *)
  let lsb = !msb_first in
  let rec strip_high = function false :: r -> strip_high r | l -> l in
  match strip_high (List.rev lsb) with
  | [] -> N0
  | _ :: rest -> Npos (List.fold_left (fun p b -> if b then XI p else XO p) XH rest)
let hex_of_n (v : n) : string =
  match v with
  | N0 -> "0"
  | Npos p ->
      let rec lsb_first p = match p with XH -> [true] | XO q -> false :: lsb_first q | XI q -> true :: lsb_first q in
      let rec nib l = match l with
        | [] -> []
        | _ ->
          let rec take k l acc = if k = 0 then (List.rev acc, l) else match l with [] -> (List.rev acc, []) | x :: r -> take (k-1) r (x :: acc) in
          let (a, r) = take 4 l [] in
          let v = List.fold_right (fun b acc -> acc * 2 + (if b then 1 else 0)) a 0 in
          v :: nib r in
      String.concat "" (List.map (Printf.sprintf "%x") (List.rev (nib (lsb_first p))))

let bytes_of_hex (s : string) : n list =
  if s = "-" then [] else
  let len = String.length s / 2 in
  List.init len (fun i -> n_of_int (int_of_string ("0x" ^ String.sub s (2 * i) 2)))
let hex_of_bytes (l : n list) : string =
  if l = [] then "-" else
  let b = Buffer.create 64 in
  List.iter (fun x -> Buffer.add_string b (Printf.sprintf "%02x" (int_of_n x))) l;
  Buffer.contents b

let split_ws (s : string) : string list =
  List.filter (fun x -> x <> "") (String.split_on_char ' ' (String.trim s))
