(* ledger_link.ml: proto_link.ml (the socket core + deterministic transport around the
   extracted protocol models, same script language, same observation line) extended with the
   ownership ledger of coq/Ledger/Ledger.v: every step a model takes is replayed into the
   socket's ledger by the EXTRACTED Ledger.replay_step with the protocol's view
   (Ledger/Views.v); the observation line gains
     refs=<library-side references> live=<library-side objects>   (what hook H3 counts)
   a failed send prints :kept / :LOST from the ledger (owner OBack a / OLost), a violated
   ledger prints LEDGER-BROKEN(<step>), a close applies the fini frees and prints
   leak=<n> if the closed socket still owns references.  Derived from proto_link.ml
   (kept separate so that the other properties' drivers are untouched).
   Original header: the part of every protocol model driver that is not a protocol:
   it plays the socket core and the deterministic transport (harness/vtran.h)
   around the extracted protocol models -- pipes with a queue of pending transport
   sends, an armed receive and an inbox; close / drop sequences in the order the C
   core uses; completions collected per command -- and prints the same observation
   lines as harness/wb_proto.c.  A driver registers its models and calls main (). *)
open Nngv_model
open Conv

type proto = { step : pop -> pout list; poll : unit -> ppoll; idgen : bool;
               led : unit -> lstate; fini : unit -> int; broken : unit -> string option }

let op_name (o : pop) : string =
  match o with
  | PSend _ -> "PSend" | PRecv _ -> "PRecv" | PCancel _ -> "PCancel" | PPipeStart _ -> "PPipeStart"
  | PPipeClose _ -> "PPipeClose" | PSendDone _ -> "PSendDone" | PRecvDone _ -> "PRecvDone"
  | PSetOpt _ -> "PSetOpt" | PCtxOpen _ -> "PCtxOpen" | PCtxClose _ -> "PCtxClose"
  | PSockClose -> "PSockClose" | PTick _ -> "PTick"

let ledger_off = (Sys.getenv_opt "NNGV_LEDGER_OFF" <> None)

let mk_proto (type s) (init : s) (step : s -> pop -> s * pout list) (poll : s -> ppoll) (idgen : bool)
             (v : s view) : proto =
  let st = ref init in
  let ls = ref ls_init in
  let bad : string option ref = ref None in
  { step = (fun o ->
      let (s', outs) = step !st o in
      if not ledger_off && !bad = None then begin
        match replay_step v !ls !st o s' outs with
        | Some l -> ls := l
        | None -> bad := Some (op_name o)
      end;
      st := s'; outs);
    poll = (fun () -> poll !st); idgen;
    led = (fun () -> !ls);
    (* sock_fini / pipe_fini / ctx_fini: free what is still queued; returns what the socket still owns *)
    fini = (fun () ->
      if !bad <> None || ledger_off then 0 else
      match do_aevs !ls (fini_evs v !st) with
      | Some l -> ls := l; Conv.int_of_nat (lib_ref_count l.ls_led) + Conv.int_of_nat (lost_count l.ls_led)
      | None -> bad := Some "fini"; 0);
    broken = (fun () -> !bad) }

let protos : (string * (unit -> proto)) list ref = ref []
let register (name : string) (mk : unit -> proto) = protos := (name, mk) :: !protos
(* options that only some protocols know: name, type, value -> popt *)
let opt_hook : (string -> string -> string -> popt option) ref = ref (fun _ _ _ -> None)

(* ---- link / core state ---- *)
type pipe = { sock : int; mutable st : char (* o c g *); mutable tx : pmsg list; mutable armed : int;
              mutable inbox : n list list; mutable dead : bool; pidn : n }
let socks : (int, proto) Hashtbl.t = Hashtbl.create 8
let sock_ctxs : (int, int list ref) Hashtbl.t = Hashtbl.create 8
let ctx_sock : (int, int) Hashtbl.t = Hashtbl.create 8
let pipes : pipe array ref = ref [||]
let rids : n list ref = ref []          (* request ids by first appearance *)
let dones : (int * string) list ref = ref []
let aio_kind : (int, int) Hashtbl.t = Hashtbl.create 16   (* 1 send, 2 recv *)
let nb_result : (n * pmsg option) option ref = ref None
let opt_rv : int option ref = ref None
let nb_aio = 9999
let now_ms = ref 0          (* virtual time: the sum of all advances *)
let aio_zero : (int, unit) Hashtbl.t = Hashtbl.create 8   (* user aios with timeout 0 (aiotmo a<k> 0) *)
let leak_note = ref ""      (* " leak=<n>" for the close being observed *)
let lost_closed = ref 0     (* references lost (leaked) by sockets closed since the last mark: still live in the process *)
let broken_closed = ref ""  (* LEDGER-BROKEN notes of sockets already closed *)

let reset () =
  Hashtbl.reset socks; Hashtbl.reset sock_ctxs; Hashtbl.reset ctx_sock; pipes := [||]; rids := [];
  dones := []; Hashtbl.reset aio_kind; nb_result := None; now_ms := 0;
  leak_note := ""; lost_closed := 0; broken_closed := ""; Hashtbl.reset aio_zero

let rec index_of x l i = match l with [] -> -1 | y :: r -> if x = y then i else index_of x r (i + 1)

let word_of_bytes (l : n list) : n = List.fold_left (fun acc b -> n_of_int (int_of_n acc * 256 + int_of_n b)) (n_of_int 0) l
let be32 (v : int) : n list = List.map n_of_int [ (v lsr 24) land 255; (v lsr 16) land 255; (v lsr 8) land 255; v land 255 ]

let put_words (b : n list) (tokens : bool) : string =
  if b = [] then "-" else begin
    let buf = Buffer.create 32 in
    let rec go l =
      match l with
      | a :: b' :: c :: d :: rest when tokens ->
          let v = word_of_bytes [a; b'; c; d] in
          let hit = ref false in
          Array.iteri (fun i p -> if not !hit && p.pidn = v then (Buffer.add_string buf (Printf.sprintf "[P%d]" i); hit := true)) !pipes;
          if not !hit then begin
            let r = index_of v !rids 0 in
            if r >= 0 then (Buffer.add_string buf (Printf.sprintf "[R%d]" r); hit := true)
          end;
          if not !hit then List.iter (fun x -> Buffer.add_string buf (Printf.sprintf "%02x" (int_of_n x))) [a; b'; c; d];
          go rest
      | x :: rest -> Buffer.add_string buf (Printf.sprintf "%02x" (int_of_n x)); go rest
      | [] -> () in
    go b; Buffer.contents buf
  end

let untok (s : string) : n list =
  if s = "-" then [] else begin
    let out = ref [] in
    let i = ref 0 in
    let n = String.length s in
    while !i < n do
      if s.[!i] = '[' then begin
        let j = String.index_from s !i ']' in
        let k = int_of_string (String.sub s (!i + 2) (j - !i - 2)) in
        let v = (match s.[!i + 1] with
                 | 'P' -> if k < Array.length !pipes then int_of_n (!pipes).(k).pidn else 0
                 | 'R' -> if k < List.length !rids then int_of_n (List.nth !rids k) else 0
                 | _ -> 0) in
        out := List.rev_append (be32 v) !out;
        i := j + 1
      end else begin
        out := n_of_int (int_of_string ("0x" ^ String.sub s !i 2)) :: !out;
        i := !i + 2
      end
    done;
    List.rev !out
  end

let msg_str (m : pmsg) = put_words m.pm_hdr true ^ "/" ^ put_words m.pm_body false

(* ---- event processing ---- *)
let queue : (int * pop) Queue.t = Queue.create ()     (* (socket, op) internal events *)

let pipe_index (s : int) (p : n) : int =
  let r = ref (-1) in
  Array.iteri (fun i x -> if x.sock = s && x.pidn = p then r := i) !pipes; !r

let rec handle_out (s : int) (o : pout) =
  match o with
  | Complete (a, rv, m) ->
      let a' = int_of_n a in
      if a' = nb_aio then nb_result := Some (rv, m)
      else begin
        let k = try Hashtbl.find aio_kind a' with Not_found -> 0 in
        (* an aio with timeout 0 is refused by nni_aio_start with NNG_ETIMEDOUT (nng_sendmsg / nng_recvmsg
           with NNG_FLAG_NONBLOCK turn that into NNG_EAGAIN) *)
        let rv = if Hashtbl.mem aio_zero a' && int_of_n rv = 8 then n_of_int 5 else rv in
        let str = (match m with
          | Some m when int_of_n rv = 0 -> Printf.sprintf "a%d:0:%s" a' (msg_str m)
          | _ -> if k = 1 && int_of_n rv <> 0 then begin
                   (* a failed send: is the message still attached to the aio (owner OBack a)? *)
                   let kept = (match Hashtbl.find_opt socks s with
                     | Some pr -> ledger_off || pr.broken () <> None || back_of (pr.led ()).ls_led a <> []
                     | None -> true) in
                   Printf.sprintf "a%d:%d:%s" a' (int_of_n rv) (if kept then "kept" else "LOST")
                 end else Printf.sprintf "a%d:%d" a' (int_of_n rv)) in
        dones := (a', str) :: !dones;
        Hashtbl.remove aio_kind a'
      end
  | TranSend (p, m) ->
      let i = pipe_index s p in
      if i >= 0 then begin
        let pp = (!pipes).(i) in
        if pp.st <> 'o' then Queue.add (s, PSendDone (p, n_of_int 7)) queue
        else if pp.dead then Queue.add (s, PSendDone (p, n_of_int 31)) queue
        else pp.tx <- pp.tx @ [m]
      end
  | TranRecv p ->
      let i = pipe_index s p in
      if i >= 0 then begin
        let pp = (!pipes).(i) in
        if pp.st <> 'o' then Queue.add (s, PRecvDone (p, n_of_int 7, { pm_hdr = []; pm_body = [] })) queue
        else if pp.dead && pp.inbox = [] then Queue.add (s, PRecvDone (p, n_of_int 31, { pm_hdr = []; pm_body = [] })) queue
        else (pp.armed <- pp.armed + 1; match_inbox s pp)
      end
  | ClosePipe p -> let i = pipe_index s p in if i >= 0 then close_pipe i
  | Reject _ -> ()     (* handled by the caller of PPipeStart *)
  | Free _ -> ()
  | OptRv rv -> opt_rv := Some (int_of_n rv)
  | Arm _ -> ()

and match_inbox (s : int) (pp : pipe) =
  match pp.inbox with
  | b :: rest when pp.armed > 0 ->
      pp.inbox <- rest; pp.armed <- pp.armed - 1;
      Queue.add (s, PRecvDone (pp.pidn, n_of_int 0, { pm_hdr = []; pm_body = b })) queue;
      match_inbox s pp
  | _ -> ()

(* nni_pipe_close: proto pipe_close, then the transport fails what is pending *)
and close_pipe (i : int) =
  let pp = (!pipes).(i) in
  if pp.st = 'o' then begin
    pp.st <- 'c';
    Queue.add (pp.sock, PPipeClose pp.pidn) queue;
    List.iter (fun _ -> Queue.add (pp.sock, PSendDone (pp.pidn, n_of_int 7)) queue) pp.tx;
    pp.tx <- [];
    for _ = 1 to pp.armed do Queue.add (pp.sock, PRecvDone (pp.pidn, n_of_int 7, { pm_hdr = []; pm_body = [] })) queue done;
    pp.armed <- 0; pp.inbox <- []
  end

let apply (s : int) (o : pop) : pout list =
  match Hashtbl.find_opt socks s with
  | None -> []
  | Some pr -> let outs = pr.step o in List.iter (handle_out s) outs; outs

let run_queue () =
  while not (Queue.is_empty queue) do
    let (s, o) = Queue.pop queue in ignore (apply s o)
  done;
  (* closed pipes are reaped once nothing refers to them *)
  Array.iter (fun p -> if p.st = 'c' then p.st <- 'g') !pipes

let observe (rv : int) (extra : string) =
  run_queue ();
  let buf = Buffer.create 128 in
  Buffer.add_string buf (Printf.sprintf "rv=%d%s%s" rv (if extra = "" then "" else " ") extra);
  let ds = List.sort compare !dones in
  dones := [];
  Buffer.add_string buf (" done=" ^ (if ds = [] then "-" else String.concat "," (List.map snd ds)));
  Buffer.add_string buf " pipes=";
  if Array.length !pipes = 0 then Buffer.add_string buf "-";
  Array.iteri (fun i p ->
    if i > 0 then Buffer.add_char buf ',';
    if p.st = 'g' then Buffer.add_string buf (Printf.sprintf "p%d:g" i)
    else begin
      (match p.tx with
       | m :: _ when (Hashtbl.find socks p.sock).idgen && List.length m.pm_hdr = 4 ->
           let v = word_of_bytes m.pm_hdr in
           if index_of v !rids 0 < 0 then rids := !rids @ [v]
       | _ -> ());
      Buffer.add_string buf (Printf.sprintf "p%d:%c:t%d:%s:r%di%d" i p.st (List.length p.tx)
        (match p.tx with m :: _ -> msg_str m | [] -> "-") p.armed (List.length p.inbox))
    end) !pipes;
  Buffer.add_string buf " poll=";
  let ss = List.sort compare (Hashtbl.fold (fun k _ acc -> k :: acc) socks []) in
  if ss = [] then Buffer.add_string buf "-";
  List.iteri (fun i s ->
    let pl = (Hashtbl.find socks s).poll () in
    let c = function None -> 'x' | Some true -> '1' | Some false -> '0' in
    Buffer.add_string buf (Printf.sprintf "%ss%d:%c%c" (if i > 0 then "," else "") s (c pl.poll_r) (c pl.poll_w))) ss;
  (* the ledger: library-side references and objects over all open sockets *)
  let refs = ref 0 and live = ref 0 and lost = ref 0 in
  Hashtbl.iter (fun _ pr ->
    let l = (pr.led ()).ls_led in
    refs := !refs + Conv.int_of_nat (lib_ref_count l);
    live := !live + Conv.int_of_nat (lib_obj_count l);
    lost := !lost + Conv.int_of_nat (lost_count l)) socks;
  Buffer.add_string buf (Printf.sprintf " refs=%d live=%d" (!refs + !lost + !lost_closed) (!live + !lost + !lost_closed));
  if !lost + !lost_closed > 0 then Buffer.add_string buf (Printf.sprintf " lost=%d" (!lost + !lost_closed));
  if !leak_note <> "" then (Buffer.add_string buf !leak_note; leak_note := "");
  Hashtbl.iter (fun s pr -> match pr.broken () with
    | Some w -> Buffer.add_string buf (Printf.sprintf " LEDGER-BROKEN(s%d:%s)" s w) | None -> ()) socks;
  if !broken_closed <> "" then Buffer.add_string buf !broken_closed;
  print_endline (Buffer.contents buf)

let idx (t : string) = int_of_string (String.sub t 1 (String.length t - 1))
let target (t : string) : int * n option =     (* socket, ctx *)
  if t.[0] = 'c' then (Hashtbl.find ctx_sock (idx t), Some (n_of_int (idx t))) else (idx t, None)


(* ---- the message-manipulation family (coq/Ledger/ChunkAlloc.v, rules of the current source:
   Ledger/ChunkCur.v): slots m0..m15, the allocator events of every call, the allocator's books ---- *)
let m_ssz = ref 248
let m_st = ref (ms_init (Conv.nat_of_int 16))
let m_fail : nat option ref = ref None
let m_books : (int, int) Hashtbl.t = Hashtbl.create 64      (* block id -> size it was allocated with *)
let m_tab : (nat * n) list option ref = ref (Some [])       (* the same books, kept by the extracted treplay *)
let m_reset () = m_st := ms_init (Conv.nat_of_int 16); m_fail := None; Hashtbl.reset m_books; m_tab := Some []

let m_obs (k : int) : string =
  match mobs !m_st (Conv.nat_of_int k) with
  | Some ((((len, hlen), cap), blk), head) ->
      Printf.sprintf "%d:%d:%d:%d:%d" (int_of_n len) (int_of_n hlen) (int_of_n cap) (int_of_n blk) (int_of_n head)
  | None -> "-"

(* one operation: returns the printed line *)
let m_apply (o : mop) (show : int) : string =
  let ((st', rv), evs) = mstep_cur (n_of_int !m_ssz) !m_st o !m_fail in
  m_st := st'; m_fail := None;
  let mism = ref "" in
  let strs = List.filter_map (fun e ->
    match e with
    | EA (b, n) -> Hashtbl.replace m_books (Conv.int_of_nat b) (int_of_n n); Some (Printf.sprintf "A%d" (int_of_n n))
    | EF (b, n) ->
        let b = Conv.int_of_nat b and n = int_of_n n in
        (match Hashtbl.find_opt m_books b with
         | Some a ->
             Hashtbl.remove m_books b;
             if a <> n && !mism = "" then mism := Printf.sprintf " free-size-mismatch %d %d" a n;
             Some (Printf.sprintf "F%d:%d" a n)
         | None -> Some (Printf.sprintf "F?:%d" n))
    | EI (b, n) -> Hashtbl.replace m_books (Conv.int_of_nat b) (int_of_n n); None
    | EX (b, _) -> Hashtbl.remove m_books (Conv.int_of_nat b); None) evs in
  let broken =
    (match !m_tab with
     | Some t -> (match treplay t evs with
                  | Some t' -> m_tab := Some t'; ""
                  | None -> m_tab := None; if !mism = "" then " BOOKS-BROKEN" else "")
     | None -> "") in
  Printf.sprintf "m rv=%d s=%s ev=%s%s%s" (int_of_n rv) (m_obs show)
    (if strs = [] then "-" else String.concat "," strs) !mism broken

let m_command (op : string) (args : string list) : string option =
  let slot t = int_of_string (String.sub t 1 (String.length t - 1)) in
  let num t = n_of_int (min (int_of_string t) 65536) in
  let nk k = Conv.nat_of_int k in
  match op, args with
  | "mssz", v :: _ -> m_ssz := int_of_string v; Some (Printf.sprintf "m ssz=%d" !m_ssz)
  | "mfail", v :: _ -> m_fail := Some (Conv.nat_of_int (int_of_string v)); Some (Printf.sprintf "m fail=%s" v)
  | "mbooks", _ ->
      let b = Hashtbl.length m_books and y = Hashtbl.fold (fun _ v acc -> acc + v) m_books 0 in
      Some (Printf.sprintf "m books=%d:%d" b y)
  | "malloc", k :: n :: _ -> Some (m_apply (MAlloc (nk (slot k), num n)) (slot k))
  | "mappend", k :: n :: _ -> Some (m_apply (MAppend (nk (slot k), num n)) (slot k))
  | "minsert", k :: n :: _ -> Some (m_apply (MInsert (nk (slot k), num n)) (slot k))
  | "mtrim", k :: n :: _ -> Some (m_apply (MTrim (nk (slot k), num n)) (slot k))
  | "mchop", k :: n :: _ -> Some (m_apply (MChop (nk (slot k), num n)) (slot k))
  | "mrealloc", k :: n :: _ -> Some (m_apply (MRealloc (nk (slot k), num n)) (slot k))
  | "mreserve", k :: n :: _ -> Some (m_apply (MReserve (nk (slot k), num n)) (slot k))
  | "mclear", k :: _ -> Some (m_apply (MClear (nk (slot k))) (slot k))
  | "mhappend", k :: n :: _ -> Some (m_apply (MHAppend (nk (slot k), num n)) (slot k))
  | "mhinsert", k :: n :: _ -> Some (m_apply (MHInsert (nk (slot k), num n)) (slot k))
  | "mhtrim", k :: n :: _ -> Some (m_apply (MHTrim (nk (slot k), num n)) (slot k))
  | "mhchop", k :: n :: _ -> Some (m_apply (MHChop (nk (slot k), num n)) (slot k))
  | "mhclear", k :: _ -> Some (m_apply (MHClear (nk (slot k))) (slot k))
  | "mdup", k :: j :: _ -> Some (m_apply (MDup (nk (slot k), nk (slot j))) (slot j))
  | "mfree", k :: _ -> Some (m_apply (MFree (nk (slot k))) (slot k))
  (* model-only: what the driver reported of a send / receive over a real transport *)
  | "mgive", k :: _ -> Some (m_apply (MGive (nk (slot k))) (slot k))
  | "madopt", k :: a :: h :: l :: hl :: _ ->
      Some (m_apply (MAdopt (nk (slot k), n_of_int (int_of_string a), n_of_int (int_of_string h),
                             n_of_int (int_of_string l), n_of_int (int_of_string hl))) (slot k))
  | _ -> None

let main () =
  try
    while true do
      let line = input_line stdin in
      match split_ws line with
      | [] -> ()
      | w :: _ when w.[0] = '#' -> ()
      | "mark" :: k :: _ -> reset (); m_reset (); print_endline ("mark " ^ k)
      | op :: args when String.length op > 1 && op.[0] = 'm' && op <> "mark" && op <> "mstyle" && op <> "msleep"
                        && (match m_command op args with Some l -> print_endline l; true | None -> false) -> ()
      | "open" :: s :: p :: _ ->
          (match List.assoc_opt p !protos with
           | Some mk -> Hashtbl.replace socks (idx s) (mk ()); Hashtbl.replace sock_ctxs (idx s) (ref []); observe 0 ""
           | None -> observe 9 "")
      | "close" :: s :: _ ->
          let s = idx s in
          if Hashtbl.mem socks s then begin
            Array.iteri (fun i p -> if p.sock = s && p.st = 'o' then close_pipe i) !pipes;
            run_queue ();
            List.iter (fun c -> ignore (apply s (PCtxClose (n_of_int c))); Hashtbl.remove ctx_sock c) !(Hashtbl.find sock_ctxs s);
            ignore (apply s PSockClose);
            run_queue ();
            let pr = Hashtbl.find socks s in
            let left = pr.fini () in
            let lost = Conv.int_of_nat (lost_count (pr.led ()).ls_led) in
            if left - lost > 0 then leak_note := Printf.sprintf " leak=%d" (left - lost);
            lost_closed := !lost_closed + left;
            (match pr.broken () with Some w -> broken_closed := !broken_closed ^ Printf.sprintf " LEDGER-BROKEN(s%d:%s)" s w | None -> ());
            Hashtbl.remove socks s;
            observe 0 ""
          end else observe 7 ""
      | "ctx" :: c :: s :: _ ->
          let c' = idx c and s' = idx s in
          Hashtbl.replace ctx_sock c' s';
          let l = Hashtbl.find sock_ctxs s' in l := !l @ [c'];
          let outs = apply s' (PCtxOpen (n_of_int c')) in
          (match List.find_opt (function OptRv _ -> true | _ -> false) outs with
           | Some (OptRv rv) -> Hashtbl.remove ctx_sock c'; l := List.filter (fun x -> x <> c') !l; observe (int_of_n rv) ""
           | _ -> observe 0 "")
      | "ctxclose" :: c :: _ ->
          let c' = idx c in
          (match Hashtbl.find_opt ctx_sock c' with
           | Some s -> ignore (apply s (PCtxClose (n_of_int c'))); Hashtbl.remove ctx_sock c';
                       let l = Hashtbl.find sock_ctxs s in l := List.filter (fun x -> x <> c') !l; observe 0 ""
           | None -> observe 7 "")
      | "conn" :: s :: peer :: _ ->
          let s = idx s in
          let k = Array.length !pipes in
          let p = { sock = s; st = 'o'; tx = []; armed = 0; inbox = []; dead = false; pidn = n_of_int (k + 1) } in
          pipes := Array.append !pipes [| p |];
          let outs = apply s (PPipeStart (p.pidn, n_of_int (int_of_string peer))) in
          if List.exists (function Reject _ -> true | _ -> false) outs then close_pipe k;
          observe 0 (Printf.sprintf "pipe=p%d" k)
      | "sent" :: p :: rest ->
          let i = idx p in
          let rv = (match rest with r :: _ -> int_of_string r | [] -> 0) in
          if i < Array.length !pipes && (!pipes).(i).st <> 'g' && (!pipes).(i).tx <> [] then begin
            let pp = (!pipes).(i) in
            pp.tx <- List.tl pp.tx;
            Queue.add (pp.sock, PSendDone (pp.pidn, n_of_int rv)) queue;
            observe 0 ""
          end else observe 12 ""
      | "inject" :: p :: h :: _ ->
          let i = idx p in
          if i < Array.length !pipes && (!pipes).(i).st = 'o' then begin
            let pp = (!pipes).(i) in
            pp.inbox <- pp.inbox @ [untok h]; match_inbox pp.sock pp; observe 0 ""
          end else observe 12 ""
      | "drop" :: p :: _ ->
          let i = idx p in
          if i < Array.length !pipes && (!pipes).(i).st <> 'g' then begin
            let pp = (!pipes).(i) in
            pp.dead <- true;
            if pp.inbox = [] then begin
              for _ = 1 to pp.armed do Queue.add (pp.sock, PRecvDone (pp.pidn, n_of_int 31, { pm_hdr = []; pm_body = [] })) queue done;
              pp.armed <- 0
            end;
            List.iter (fun _ -> Queue.add (pp.sock, PSendDone (pp.pidn, n_of_int 31)) queue) pp.tx;
            pp.tx <- [];
            observe 0 ""
          end else observe 12 ""
      | ("send" | "sendnb") as op :: t :: rest ->
          let nb = (op = "sendnb") in
          let (s, c) = target t in
          let (a, h, b) = (match nb, rest with
            | true, h :: b :: _ -> (nb_aio, h, b)
            | false, a :: h :: b :: _ -> (idx a, h, b)
            | _ -> failwith "bad send") in
          let m = { pm_hdr = untok h; pm_body = untok b } in
          if (not nb) && Hashtbl.mem aio_kind a then observe 4 ""
          else begin
            if not nb then Hashtbl.replace aio_kind a 1;
            nb_result := None;
            ignore (apply s (PSend (c, n_of_int a, (nb || Hashtbl.mem aio_zero a), m)));
            run_queue ();
            if nb then (match !nb_result with Some (rv, _) -> observe (int_of_n rv) "" | None -> observe (-1) "NB-DID-NOT-COMPLETE")
            else observe 0 ""
          end
      | ("recv" | "recvnb") as op :: t :: rest ->
          let nb = (op = "recvnb") in
          let (s, c) = target t in
          let a = (match nb, rest with true, _ -> nb_aio | false, a :: _ -> idx a | _ -> failwith "bad recv") in
          if (not nb) && Hashtbl.mem aio_kind a then observe 4 ""
          else begin
            if not nb then Hashtbl.replace aio_kind a 2;
            nb_result := None;
            ignore (apply s (PRecv (c, n_of_int a, (nb || Hashtbl.mem aio_zero a))));
            run_queue ();
            if nb then (match !nb_result with
              | Some (rv, Some m) when int_of_n rv = 0 -> print_string ("got=" ^ msg_str m ^ " "); observe 0 ""
              | Some (rv, _) -> observe (int_of_n rv) ""
              | None -> observe (-1) "NB-DID-NOT-COMPLETE")
            else observe 0 ""
          end
      | "cancel" :: a :: _ ->
          let a' = idx a in
          if Hashtbl.mem aio_kind a' then
            Hashtbl.iter (fun s _ -> ignore (apply s (PCancel (n_of_int a', n_of_int 20)))) socks;
          observe 0 ""
      | "setopt" :: t :: name :: ty :: v :: _ ->
          let (s, c) = target t in
          let o = (match name, ty with
            | "send-buffer", _ -> Some (OSendBuf (nat_of_int (int_of_string v)))
            | "recv-buffer", _ -> Some (ORecvBuf (nat_of_int (int_of_string v)))
            | "ttl-max", _ -> Some (OMaxTtl (nat_of_int (int_of_string v)))
            | _, "sub" -> Some (OSub (bytes_of_hex v))
            | _, "unsub" -> Some (OUnsub (bytes_of_hex v))
            | "sub:prefnew", _ -> Some (OPrefNew (v <> "0"))
            | _ -> !opt_hook name ty v) in
          opt_rv := None;
          (match o with
           | Some o -> ignore (apply s (PSetOpt (c, o))); run_queue ();
                       observe (match !opt_rv with Some r -> r | None -> 9) ""
           | None -> observe 9 "")
      | "advance" :: ms :: _ ->
          now_ms := !now_ms + int_of_string ms;
          Hashtbl.iter (fun s _ -> ignore (apply s (PTick (n_of_int !now_ms)))) socks;
          observe 0 ""
      | "aiotmo" :: a :: ms :: _ ->
          if int_of_string ms = 0 then Hashtbl.replace aio_zero (idx a) () else Hashtbl.remove aio_zero (idx a);
          observe 0 ""
      | "sleep" :: _ | "poll" :: _ | "aiotmo" :: _ | "mstyle" :: _ -> observe 0 ""
      | op :: _ -> print_endline ("badop " ^ op)
    done
  with End_of_file -> ()
