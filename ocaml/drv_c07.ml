(* model: c07-survey *)
(* with: proto_link.ml *)
(* drv_c07.ml: SURVEYOR / RESPONDENT models (cooked and raw) on the script language of
   harness/wb_proto.c.  The step functions are the models instantiated with the repairs
   found in the current source (coq/Proto/SurveyCur.v over coq/Gen/Consts.v). *)
open Nngv_model
open Conv
open Proto_link

let rec z_of_int (i : int) : z = if i = 0 then Z0 else if i > 0 then Zpos (pos_of_int i) else Zneg (pos_of_int (-i))

(* repairs in force: those of the current source (c07_fix_flags, from Gen/Consts.v); the environment
   variable C07_FIX=<ten 0/1 digits> overrides them (experiments with a repaired scratch tree only) *)
let flags : bool list =
  match Sys.getenv_opt "C07_FIX" with
  | Some s when String.length s = 10 -> List.init 10 (fun i -> s.[i] = '1')
  | _ -> c07_fix_flags
let fl i = List.nth flags i

let () =
  let rfx = { rf_nb = fl 1; rf_wbusy = fl 2; rf_rclose = fl 3; rf_sbusy = fl 6; rf_wother = fl 7; rf_wstale = fl 8 } in
  let mfx = { mf_nb = fl 4; mf_resize = fl 5; mf_getput = fl 9 } in
  register "surveyor0" (fun () -> mk_proto surv_init (surv_step (fl 0)) surv_poll true);
  register "respondent0" (fun () -> mk_proto resp_init (resp_step rfx) resp_poll false);
  register "surveyor0_raw" (fun () -> mk_proto xsurv_init (xsurv_step mfx) xsurv_poll false);
  register "respondent0_raw" (fun () -> mk_proto xresp_init (xresp_step mfx) xresp_poll false);
  opt_hook := (fun name ty v ->
    match name, ty with
    | "surveyor:survey-time", "ms" -> Some (OSurveyTime (z_of_int (int_of_string v)))
    | _ -> None);
  if Array.length Sys.argv > 1 && Sys.argv.(1) = "--flags" then
    print_endline (String.concat "" (List.map (fun b -> if b then "1" else "0") flags))
  else main ()
