(* model: c08-pair *)
(* with: proto_link.ml *)
(* drv_c08.ml: PAIR v0 / v1 (cooked and raw) models on the script language of harness/wb_proto.c.

   proto_link numbers the model's pipes 1, 2, 3 ... and prints every 4-byte header word that
   equals a pipe id as [P<n>].  PAIRv1 headers are hop counts (1, 2, ...), which would collide
   with those ids (the library's ids are random 31-bit numbers, so they do not).  This driver
   therefore renumbers a pipe to 0x40000000 + n when it is started -- in the link's own table
   and in the event handed to the model -- which changes nothing else: ids are opaque. *)
open Nngv_model
open Conv
open Proto_link

let mk (type s) (init : s) (step : s -> pop -> s * pout list) (poll : s -> ppoll) : proto =
  let st = ref init in
  { step = (fun o ->
      let o' = (match o with
        | PPipeStart (p, peer) ->
            let k = Array.length !pipes - 1 in
            if k >= 0 && (!pipes).(k).pidn = p && int_of_n p < 0x40000000 then begin
              let np = { (!pipes).(k) with pidn = n_of_int (0x40000000 + int_of_n p) } in
              (!pipes).(k) <- np;
              PPipeStart (np.pidn, peer)
            end else o
        | _ -> o) in
      let (s', outs) = step !st o' in st := s'; outs);
    poll = (fun () -> poll !st); idgen = false }

let () =
  register "pair0" (fun () -> mk pair0_init pair0_step pair0_poll);
  register "pair0_raw" (fun () -> mk pair0_init pair0_step pair0_poll);
  register "pair1" (fun () -> mk pair1_init pair1_step pair1_poll);
  register "pair1_raw" (fun () -> mk pair1_init pair1_raw_step pair1_poll);
  main ()
