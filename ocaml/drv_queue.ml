(* model: c18-queue *)
(* drv_queue.ml: runs LmqModel / MsgqModel on the op script of harness/wb_queue.c *)
open Nngv_model
open Conv

let lq : lmq option ref = ref None
let mq : msgq option ref = ref None
let kind : (int, int) Hashtbl.t = Hashtbl.create 16   (* aio -> 1 put / 2 get *)

let b2i b = if b then 1 else 0
let ids l = if l = [] then "-" else String.concat "," (List.map string_of_int (List.sort compare (List.map int_of_n l)))

let lstate q =
  Printf.sprintf " len=%d cap=%d full=%d empty=%d" (int_of_nat q.q_len) (int_of_nat q.q_cap)
    (b2i (lmq_full q)) (b2i (lmq_empty q))

let lstep (o : lop) =
  match !lq with
  | None -> print_endline "noqueue"
  | Some q ->
    (match lmq_step true q o with
     | None -> print_endline "MODEL-OOB"
     | Some (out, q') ->
         lq := Some q';
         (match out, o with
          | LRv (rv, m), LGet ->
              Printf.printf "rv=%d msg=%s%s\n" (int_of_n rv) (match m with Some x -> string_of_int (int_of_n x) | None -> "-") (lstate q')
          | LRv (rv, _), _ -> Printf.printf "rv=%d%s\n" (int_of_n rv) (lstate q')
          | LFreed (rv, l), _ -> Printf.printf "rv=%d freed=%s%s\n" (int_of_n rv) (ids l) (lstate q')))

let qstate q =
  Printf.sprintf " cap=%d send=%d recv=%d | diag len=%d get=%d put=%d alloc=%d" (int_of_nat q.mq_cap)
    (b2i q.mq_sendable) (b2i q.mq_recvable) (int_of_nat q.mq_len) (int_of_nat q.mq_get) (int_of_nat q.mq_put)
    (List.length q.mq_cells)

let qstep (o : mop) (extra_done : string list) =
  match !mq with
  | None -> print_endline "noqueue"
  | Some q ->
    (match msgq_step true q o with
     | None -> print_endline "MODEL-OOB"
     | Some ((rv, q'), outs) ->
         mq := Some q';
         let dones = List.filter_map (function
           | Done (a, rv, Some m) -> Some (int_of_n a, Printf.sprintf "%d:%d:%d" (int_of_n a) (int_of_n rv) (int_of_n m))
           | Done (a, rv, None) ->
               let k = try Hashtbl.find kind (int_of_n a) with Not_found -> 0 in
               Some (int_of_n a, Printf.sprintf "%d:%d:%s" (int_of_n a) (int_of_n rv) (if k = 1 then "kept" else "-"))
           | Accept (a, _) -> Some (int_of_n a, Printf.sprintf "%d:0:-" (int_of_n a))
           | MFree _ -> None) outs in
         let dones = List.sort compare dones in
         let ds = List.map snd dones @ extra_done in
         let freed = List.filter_map (function MFree m -> Some m | _ -> None) outs in
         Printf.printf "rv=%d done=%s freed=%s%s\n" (int_of_n rv)
           (if ds = [] then "-" else String.concat "," ds) (ids freed) (qstate q'))

let () =
  try
    while true do
      let line = input_line stdin in
      match split_ws line with
      | [] -> ()
      | w :: _ when w.[0] = '#' -> ()
      | "mark" :: k :: _ -> lq := None; mq := None; Hashtbl.reset kind; print_endline ("mark " ^ k)
      | "linit" :: c :: _ ->
          (match lmq_init true (nat_of_int (int_of_string c)) false with
           | Some q -> lq := Some q; Printf.printf "rv=0%s\n" (lstate q)
           | None -> print_endline "MODEL-OOB")
      | "lput" :: i :: _ -> lstep (LPut (n_of_int (int_of_string i)))
      | "lget" :: _ -> lstep LGet
      | "lflush" :: _ -> lstep LFlush
      | "lresize" :: c :: _ -> lstep (LResize (nat_of_int (int_of_string c), false))
      | "qinit" :: c :: _ ->
          let q = msgq_init (nat_of_int (int_of_string c)) in
          mq := Some q; Printf.printf "rv=0 done=- freed=-%s\n" (qstate q)
      | "qput" :: a :: m :: nb :: _ ->
          let a' = int_of_string a in
          Hashtbl.replace kind a' 1;
          (* with a zero timeout nni_aio_start refuses -- but it is only reached when the
             operation would have to wait (same test as in the model) *)
          let must_start = (match !mq with
            | Some q -> q.mq_putq <> [] || (q.mq_getq = [] && int_of_nat q.mq_cap <= int_of_nat q.mq_len)
            | None -> false) in
          if nb = "1" then qstep (MAioPut (n_of_int a', n_of_int (int_of_string m), false))
                             (if must_start then [Printf.sprintf "%d:5:kept" a'] else [])
          else qstep (MAioPut (n_of_int a', n_of_int (int_of_string m), true)) []
      | "qget" :: a :: nb :: _ ->
          let a' = int_of_string a in
          Hashtbl.replace kind a' 2;
          let must_start = (match !mq with
            | Some q -> q.mq_getq <> [] || (int_of_nat q.mq_len = 0 && q.mq_putq = [])
            | None -> false) in
          if nb = "1" then qstep (MAioGet (n_of_int a', false)) (if must_start then [Printf.sprintf "%d:5:-" a'] else [])
          else qstep (MAioGet (n_of_int a', true)) []
      | "qtryput" :: m :: _ -> qstep (MTryPut (n_of_int (int_of_string m))) []
      | "qcancel" :: a :: _ ->
          (* nni_aio_abort calls the provider's cancel function only while the aio
             is pending (a_cancel_fn set); otherwise nothing happens *)
          let a' = n_of_int (int_of_string a) in
          (match !mq with
           | Some q when List.exists (fun (x, _) -> x = a') q.mq_putq || List.mem a' q.mq_getq ->
               qstep (MCancel (a', n_of_int 20)) []
           | Some q -> Printf.printf "rv=0 done=- freed=-%s\n" (qstate q)
           | None -> print_endline "noqueue")
      | "qclose" :: _ -> qstep MClose []
      | "qresize" :: c :: _ -> qstep (MResize (nat_of_int (int_of_string c), false)) []
      | "qnotify" :: _ -> qstep MNotify []
      | op :: _ -> print_endline ("badop " ^ op)
    done
  with End_of_file -> ()
