(* proto_link.ml: the part of every protocol model driver that is not a protocol:
   it plays the socket core and the deterministic transport (harness/vtran.h)
   around the extracted protocol models -- pipes with a queue of pending transport
   sends, an armed receive and an inbox; close / drop sequences in the order the C
   core uses; completions collected per command -- and prints the same observation
   lines as harness/wb_proto.c.  A driver registers its models and calls main (). *)
open Nngv_model
open Conv

type proto = { step : pop -> pout list; poll : unit -> ppoll; idgen : bool }

let mk_proto (type s) (init : s) (step : s -> pop -> s * pout list) (poll : s -> ppoll) (idgen : bool) : proto =
  let st = ref init in
  { step = (fun o -> let (s', outs) = step !st o in st := s'; outs);
    poll = (fun () -> poll !st); idgen }

let protos : (string * (unit -> proto)) list ref = ref []
let register (name : string) (mk : unit -> proto) = protos := (name, mk) :: !protos
(* options that only some protocols know: name, type, value -> popt *)
let opt_hook : (string -> string -> string -> popt option) ref = ref (fun _ _ _ -> None)

(* ---- link / core state ---- *)
type pipe = { sock : int; mutable st : char (* o c g *); mutable tx : pmsg list; mutable armed : int;
              mutable inbox : n list list; mutable dead : bool; pidn : n }
let socks : (int, proto) Hashtbl.t = Hashtbl.create 8
let sock_ctxs : (int, int list ref) Hashtbl.t = Hashtbl.create 8
let ctx_sock : (int, int) Hashtbl.t = Hashtbl.create 8
let pipes : pipe array ref = ref [||]
let rids : n list ref = ref []          (* request ids by first appearance *)
let dones : (int * string) list ref = ref []
let aio_kind : (int, int) Hashtbl.t = Hashtbl.create 16   (* 1 send, 2 recv *)
let nb_result : (n * pmsg option) option ref = ref None
let opt_rv : int option ref = ref None
let nb_aio = 9999
let now_ms = ref 0          (* virtual time: the sum of all advances *)
(* `aiotmo a<i> <ms>` (ms > 0): the user aio's own timeout.  When a blocking operation is submitted with such
   an aio its deadline is now + ms; at `advance`, every still-pending aio whose deadline has passed gets the
   protocol's cancel function with NNG_ETIMEDOUT (what the expire thread does), before the tick.  Scripts that
   never use aiotmo are unaffected. *)
let aio_tmo : (int, int) Hashtbl.t = Hashtbl.create 16
let aio_deadline : (int, int) Hashtbl.t = Hashtbl.create 16
let arm_aio (a : int) =
  match Hashtbl.find_opt aio_tmo a with
  | Some ms -> Hashtbl.replace aio_deadline a (!now_ms + ms)
  | None -> Hashtbl.remove aio_deadline a

let reset () =
  Hashtbl.reset socks; Hashtbl.reset sock_ctxs; Hashtbl.reset ctx_sock; pipes := [||]; rids := [];
  dones := []; Hashtbl.reset aio_kind; nb_result := None; now_ms := 0;
  Hashtbl.reset aio_tmo; Hashtbl.reset aio_deadline

let rec index_of x l i = match l with [] -> -1 | y :: r -> if x = y then i else index_of x r (i + 1)

let word_of_bytes (l : n list) : n = List.fold_left (fun acc b -> n_of_int (int_of_n acc * 256 + int_of_n b)) (n_of_int 0) l
let be32 (v : int) : n list = List.map n_of_int [ (v lsr 24) land 255; (v lsr 16) land 255; (v lsr 8) land 255; v land 255 ]

let put_words (b : n list) (tokens : bool) : string =
  if b = [] then "-" else begin
    let buf = Buffer.create 32 in
    let rec go l =
      match l with
      | a :: b' :: c :: d :: rest when tokens ->
          let v = word_of_bytes [a; b'; c; d] in
          let hit = ref false in
          Array.iteri (fun i p -> if not !hit && p.pidn = v then (Buffer.add_string buf (Printf.sprintf "[P%d]" i); hit := true)) !pipes;
          if not !hit then begin
            let r = index_of v !rids 0 in
            if r >= 0 then (Buffer.add_string buf (Printf.sprintf "[R%d]" r); hit := true)
          end;
          if not !hit then List.iter (fun x -> Buffer.add_string buf (Printf.sprintf "%02x" (int_of_n x))) [a; b'; c; d];
          go rest
      | x :: rest -> Buffer.add_string buf (Printf.sprintf "%02x" (int_of_n x)); go rest
      | [] -> () in
    go b; Buffer.contents buf
  end

(* a token "[P<i>]", "[R<n>]", "[R<n>+k]" or "[R<n>-k]" (the text between the brackets): value (32 bits), is it a
   relative form, is the base known, base index, offset.  A relative token names an id the peer has not seen on
   the wire (ids are consecutive, hence predictable): the id of a request abandoned before it was transmitted,
   or of one that is still queued.  An unknown base gives 0 in every form (as harness/wb_proto.c). *)
let tok_value (t : string) : int * bool * bool * int * int =
  let body = String.sub t 1 (String.length t - 1) in
  let cut = (try Some (String.index body '+') with Not_found -> (try Some (String.index body '-') with Not_found -> None)) in
  let (bs, off, arith) = (match cut with
    | Some i when t.[0] = 'R' -> (int_of_string (String.sub body 0 i), int_of_string (String.sub body i (String.length body - i)), true)
    | _ -> (int_of_string body, 0, false)) in
  match t.[0] with
  | 'P' -> if bs >= 0 && bs < Array.length !pipes then (int_of_n (!pipes).(bs).pidn, false, true, bs, 0) else (0, false, false, bs, 0)
  | 'R' -> if bs >= 0 && bs < List.length !rids then ((int_of_n (List.nth !rids bs) + off) land 0xffffffff, arith, true, bs, off)
           else (0, arith, false, bs, off)
  | _ -> (0, false, false, bs, 0)

let untok (s : string) : n list =
  if s = "-" then [] else begin
    let out = ref [] in
    let i = ref 0 in
    let n = String.length s in
    while !i < n do
      if s.[!i] = '[' then begin
        let j = String.index_from s !i ']' in
        let (v, _, _, _, _) = tok_value (String.sub s (!i + 1) (j - !i - 1)) in
        out := List.rev_append (be32 v) !out;
        i := j + 1
      end else begin
        out := n_of_int (int_of_string ("0x" ^ String.sub s !i 2)) :: !out;
        i := !i + 2
      end
    done;
    List.rev !out
  end

(* canonical spelling of a tokenised hex string (as canon_tok of harness/wb_proto.c): a relative token whose
   value is a request id already seen on the wire is spelt [R<m>], one that names no seen id keeps its relative
   spelling, an unknown base is 00000000; None if the string has no relative token *)
let canon_tok (s : string) : string option =
  let buf = Buffer.create 32 in
  let any = ref false in
  let i = ref 0 in
  let n = String.length s in
  while !i < n do
    if s.[!i] = '[' then begin
      let j = (try String.index_from s !i ']' with Not_found -> n - 1) in
      let (v, arith, known, bs, off) = tok_value (String.sub s (!i + 1) (j - !i - 1)) in
      if arith then begin
        any := true;
        if not known then Buffer.add_string buf "00000000"
        else begin
          let r = index_of (n_of_int v) !rids 0 in
          if r >= 0 then Buffer.add_string buf (Printf.sprintf "[R%d]" r)
          else Buffer.add_string buf (Printf.sprintf "[R%d%+d]" bs off)
        end
      end else Buffer.add_string buf (String.sub s !i (j - !i + 1));
      i := j + 1
    end else (Buffer.add_char buf s.[!i]; incr i)
  done;
  if !any then Some (Buffer.contents buf) else None

let msg_str (m : pmsg) = put_words m.pm_hdr true ^ "/" ^ put_words m.pm_body false

(* ---- event processing ---- *)
let queue : (int * pop) Queue.t = Queue.create ()     (* (socket, op) internal events *)

let pipe_index (s : int) (p : n) : int =
  let r = ref (-1) in
  Array.iteri (fun i x -> if x.sock = s && x.pidn = p then r := i) !pipes; !r

let rec handle_out (s : int) (o : pout) =
  match o with
  | Complete (a, rv, m) ->
      let a' = int_of_n a in
      if a' = nb_aio then nb_result := Some (rv, m)
      else begin
        let k = try Hashtbl.find aio_kind a' with Not_found -> 0 in
        let str = (match m with
          | Some m when int_of_n rv = 0 -> Printf.sprintf "a%d:0:%s" a' (msg_str m)
          | _ -> if k = 1 && int_of_n rv <> 0 then Printf.sprintf "a%d:%d:kept" a' (int_of_n rv)
                 else Printf.sprintf "a%d:%d" a' (int_of_n rv)) in
        dones := (a', str) :: !dones;
        Hashtbl.remove aio_kind a'
      end
  | TranSend (p, m) ->
      let i = pipe_index s p in
      if i >= 0 then begin
        let pp = (!pipes).(i) in
        if pp.st <> 'o' then Queue.add (s, PSendDone (p, n_of_int 7)) queue
        else if pp.dead then Queue.add (s, PSendDone (p, n_of_int 31)) queue
        else pp.tx <- pp.tx @ [m]
      end
  | TranRecv p ->
      let i = pipe_index s p in
      if i >= 0 then begin
        let pp = (!pipes).(i) in
        if pp.st <> 'o' then Queue.add (s, PRecvDone (p, n_of_int 7, { pm_hdr = []; pm_body = [] })) queue
        else if pp.dead && pp.inbox = [] then Queue.add (s, PRecvDone (p, n_of_int 31, { pm_hdr = []; pm_body = [] })) queue
        else (pp.armed <- pp.armed + 1; match_inbox s pp)
      end
  | ClosePipe p -> let i = pipe_index s p in if i >= 0 then close_pipe i
  | Reject _ -> ()     (* handled by the caller of PPipeStart *)
  | Free _ -> ()
  | OptRv rv -> opt_rv := Some (int_of_n rv)
  | Arm _ -> ()

and match_inbox (s : int) (pp : pipe) =
  match pp.inbox with
  | b :: rest when pp.armed > 0 ->
      pp.inbox <- rest; pp.armed <- pp.armed - 1;
      Queue.add (s, PRecvDone (pp.pidn, n_of_int 0, { pm_hdr = []; pm_body = b })) queue;
      match_inbox s pp
  | _ -> ()

(* nni_pipe_close: proto pipe_close, then the transport fails what is pending *)
and close_pipe (i : int) =
  let pp = (!pipes).(i) in
  if pp.st = 'o' then begin
    pp.st <- 'c';
    Queue.add (pp.sock, PPipeClose pp.pidn) queue;
    List.iter (fun _ -> Queue.add (pp.sock, PSendDone (pp.pidn, n_of_int 7)) queue) pp.tx;
    pp.tx <- [];
    for _ = 1 to pp.armed do Queue.add (pp.sock, PRecvDone (pp.pidn, n_of_int 7, { pm_hdr = []; pm_body = [] })) queue done;
    pp.armed <- 0; pp.inbox <- []
  end

let apply (s : int) (o : pop) : pout list =
  match Hashtbl.find_opt socks s with
  | None -> []
  | Some pr -> let outs = pr.step o in List.iter (handle_out s) outs; outs

let run_queue () =
  while not (Queue.is_empty queue) do
    let (s, o) = Queue.pop queue in ignore (apply s o)
  done;
  (* closed pipes are reaped once nothing refers to them *)
  Array.iter (fun p -> if p.st = 'c' then p.st <- 'g') !pipes

let observe (rv : int) (extra : string) =
  run_queue ();
  let buf = Buffer.create 128 in
  Buffer.add_string buf (Printf.sprintf "rv=%d%s%s" rv (if extra = "" then "" else " ") extra);
  let ds = List.sort compare !dones in
  dones := [];
  Buffer.add_string buf (" done=" ^ (if ds = [] then "-" else String.concat "," (List.map snd ds)));
  Buffer.add_string buf " pipes=";
  if Array.length !pipes = 0 then Buffer.add_string buf "-";
  Array.iteri (fun i p ->
    if i > 0 then Buffer.add_char buf ',';
    if p.st = 'g' then Buffer.add_string buf (Printf.sprintf "p%d:g" i)
    else begin
      (match p.tx with
       | m :: _ when (Hashtbl.find socks p.sock).idgen && List.length m.pm_hdr = 4 ->
           let v = word_of_bytes m.pm_hdr in
           (* request / survey ids have the high bit set (as harness/wb_proto.c) *)
           if int_of_n v land 0x80000000 <> 0 && index_of v !rids 0 < 0 then rids := !rids @ [v]
       | _ -> ());
      Buffer.add_string buf (Printf.sprintf "p%d:%c:t%d:%s:r%di%d" i p.st (List.length p.tx)
        (match p.tx with m :: _ -> msg_str m | [] -> "-") p.armed (List.length p.inbox))
    end) !pipes;
  Buffer.add_string buf " poll=";
  let ss = List.sort compare (Hashtbl.fold (fun k _ acc -> k :: acc) socks []) in
  if ss = [] then Buffer.add_string buf "-";
  List.iteri (fun i s ->
    let pl = (Hashtbl.find socks s).poll () in
    let c = function None -> 'x' | Some true -> '1' | Some false -> '0' in
    Buffer.add_string buf (Printf.sprintf "%ss%d:%c%c" (if i > 0 then "," else "") s (c pl.poll_r) (c pl.poll_w))) ss;
  print_endline (Buffer.contents buf)

let idx (t : string) = int_of_string (String.sub t 1 (String.length t - 1))
let target (t : string) : int * n option =     (* socket, ctx *)
  if t.[0] = 'c' then (Hashtbl.find ctx_sock (idx t), Some (n_of_int (idx t))) else (idx t, None)

let main () =
  try
    while true do
      let line = input_line stdin in
      match split_ws line with
      | [] -> ()
      | w :: _ when w.[0] = '#' -> ()
      | "mark" :: k :: _ -> reset (); print_endline ("mark " ^ k)
      | "open" :: s :: p :: _ ->
          (match List.assoc_opt p !protos with
           | Some mk -> Hashtbl.replace socks (idx s) (mk ()); Hashtbl.replace sock_ctxs (idx s) (ref []); observe 0 ""
           | None -> observe 9 "")
      | "close" :: s :: _ ->
          let s = idx s in
          if Hashtbl.mem socks s then begin
            Array.iteri (fun i p -> if p.sock = s && p.st = 'o' then close_pipe i) !pipes;
            run_queue ();
            List.iter (fun c -> ignore (apply s (PCtxClose (n_of_int c))); Hashtbl.remove ctx_sock c) !(Hashtbl.find sock_ctxs s);
            ignore (apply s PSockClose);
            run_queue ();
            Hashtbl.remove socks s;
            observe 0 ""
          end else observe 7 ""
      | "ctx" :: c :: s :: _ ->
          let c' = idx c and s' = idx s in
          Hashtbl.replace ctx_sock c' s';
          let l = Hashtbl.find sock_ctxs s' in l := !l @ [c'];
          let outs = apply s' (PCtxOpen (n_of_int c')) in
          (match List.find_opt (function OptRv _ -> true | _ -> false) outs with
           | Some (OptRv rv) -> Hashtbl.remove ctx_sock c'; l := List.filter (fun x -> x <> c') !l; observe (int_of_n rv) ""
           | _ -> observe 0 "")
      | "ctxclose" :: c :: _ ->
          let c' = idx c in
          (match Hashtbl.find_opt ctx_sock c' with
           | Some s -> ignore (apply s (PCtxClose (n_of_int c'))); Hashtbl.remove ctx_sock c';
                       let l = Hashtbl.find sock_ctxs s in l := List.filter (fun x -> x <> c') !l; observe 0 ""
           | None -> observe 7 "")
      | "conn" :: s :: peer :: _ ->
          let s = idx s in
          let k = Array.length !pipes in
          let p = { sock = s; st = 'o'; tx = []; armed = 0; inbox = []; dead = false; pidn = n_of_int (k + 1) } in
          pipes := Array.append !pipes [| p |];
          let outs = apply s (PPipeStart (p.pidn, n_of_int (int_of_string peer))) in
          if List.exists (function Reject _ -> true | _ -> false) outs then close_pipe k;
          observe 0 (Printf.sprintf "pipe=p%d" k)
      | "sent" :: p :: rest ->
          let i = idx p in
          let rv = (match rest with r :: _ -> int_of_string r | [] -> 0) in
          if i < Array.length !pipes && (!pipes).(i).st <> 'g' && (!pipes).(i).tx <> [] then begin
            let pp = (!pipes).(i) in
            pp.tx <- List.tl pp.tx;
            Queue.add (pp.sock, PSendDone (pp.pidn, n_of_int rv)) queue;
            observe 0 ""
          end else observe 12 ""
      | "inject" :: p :: h :: _ ->
          let i = idx p in
          if i < Array.length !pipes && (!pipes).(i).st = 'o' then begin
            let pp = (!pipes).(i) in
            let bytes = untok h in
            let canon = (match canon_tok h with Some c -> "inj=" ^ c | None -> "") in
            pp.inbox <- pp.inbox @ [bytes]; match_inbox pp.sock pp; observe 0 canon
          end else observe 12 ""
      | "drop" :: p :: _ ->
          let i = idx p in
          if i < Array.length !pipes && (!pipes).(i).st <> 'g' then begin
            let pp = (!pipes).(i) in
            pp.dead <- true;
            if pp.inbox = [] then begin
              for _ = 1 to pp.armed do Queue.add (pp.sock, PRecvDone (pp.pidn, n_of_int 31, { pm_hdr = []; pm_body = [] })) queue done;
              pp.armed <- 0
            end;
            List.iter (fun _ -> Queue.add (pp.sock, PSendDone (pp.pidn, n_of_int 31)) queue) pp.tx;
            pp.tx <- [];
            observe 0 ""
          end else observe 12 ""
      | ("send" | "sendnb") as op :: t :: rest ->
          let nb = (op = "sendnb") in
          let (s, c) = target t in
          let (a, h, b) = (match nb, rest with
            | true, h :: b :: _ -> (nb_aio, h, b)
            | false, a :: h :: b :: _ -> (idx a, h, b)
            | _ -> failwith "bad send") in
          let m = { pm_hdr = untok h; pm_body = untok b } in
          if (not nb) && Hashtbl.mem aio_kind a then observe 4 ""
          else begin
            if not nb then (Hashtbl.replace aio_kind a 1; arm_aio a);
            nb_result := None;
            ignore (apply s (PSend (c, n_of_int a, nb, m)));
            run_queue ();
            if nb then (match !nb_result with Some (rv, _) -> observe (int_of_n rv) "" | None -> observe (-1) "NB-DID-NOT-COMPLETE")
            else observe 0 ""
          end
      | ("recv" | "recvnb") as op :: t :: rest ->
          let nb = (op = "recvnb") in
          let (s, c) = target t in
          let a = (match nb, rest with true, _ -> nb_aio | false, a :: _ -> idx a | _ -> failwith "bad recv") in
          if (not nb) && Hashtbl.mem aio_kind a then observe 4 ""
          else begin
            if not nb then (Hashtbl.replace aio_kind a 2; arm_aio a);
            nb_result := None;
            ignore (apply s (PRecv (c, n_of_int a, nb)));
            run_queue ();
            if nb then (match !nb_result with
              | Some (rv, Some m) when int_of_n rv = 0 -> print_string ("got=" ^ msg_str m ^ " "); observe 0 ""
              | Some (rv, _) -> observe (int_of_n rv) ""
              | None -> observe (-1) "NB-DID-NOT-COMPLETE")
            else observe 0 ""
          end
      | "cancel" :: a :: _ ->
          let a' = idx a in
          if Hashtbl.mem aio_kind a' then
            Hashtbl.iter (fun s _ -> ignore (apply s (PCancel (n_of_int a', n_of_int 20)))) socks;
          observe 0 ""
      | "setopt" :: t :: name :: ty :: v :: _ ->
          let (s, c) = target t in
          let o = (match name, ty with
            | "send-buffer", _ -> Some (OSendBuf (nat_of_int (int_of_string v)))
            | "recv-buffer", _ -> Some (ORecvBuf (nat_of_int (int_of_string v)))
            | "ttl-max", _ -> Some (OMaxTtl (nat_of_int (int_of_string v)))
            | _, "sub" -> Some (OSub (bytes_of_hex v))
            | _, "unsub" -> Some (OUnsub (bytes_of_hex v))
            | "sub:prefnew", _ -> Some (OPrefNew (v <> "0"))
            | _ -> !opt_hook name ty v) in
          opt_rv := None;
          (match o with
           | Some o -> ignore (apply s (PSetOpt (c, o))); run_queue ();
                       observe (match !opt_rv with Some r -> r | None -> 9) ""
           | None -> observe 9 "")
      | "advance" :: ms :: _ ->
          now_ms := !now_ms + int_of_string ms;
          let due = Hashtbl.fold (fun a d acc -> if d < !now_ms && Hashtbl.mem aio_kind a then (d, a) :: acc else acc) aio_deadline [] in
          List.iter (fun (_, a) ->
            Hashtbl.remove aio_deadline a;
            if Hashtbl.mem aio_kind a then begin
              Hashtbl.iter (fun s _ -> ignore (apply s (PCancel (n_of_int a, n_of_int 5)))) socks;
              run_queue ()
            end) (List.sort compare due);
          Hashtbl.iter (fun s _ -> ignore (apply s (PTick (n_of_int !now_ms)))) socks;
          observe 0 ""
      | "aiotmo" :: a :: ms :: _ ->
          let ms = int_of_string ms in
          if ms > 0 then Hashtbl.replace aio_tmo (idx a) ms else Hashtbl.remove aio_tmo (idx a);
          observe 0 ""
      | "sleep" :: _ | "poll" :: _ | "aiotmo" :: _ -> observe 0 ""
      | op :: _ -> print_endline ("badop " ^ op)
    done
  with End_of_file -> ()
