(* model: c02-aio *)
(* drv_aio.ml: AioModel on the script language of harness/wb_aio.c (scripted mode),
   and, with --replay, conformance of an H2 trace: every logged critical section must be
   an instance of AioFw.fw_step. *)
open Nngv_model
open Conv

let naio = 32
let fixed = c02_EXPIRE_RECHECK_FIXED
let fdone = c02_ABORT_DONE_FIXED
let astep = astep fixed fdone
let fw_step = fw_step fdone
let st : aio option array = Array.make naio None
(* the deadline configuration of each aio (Core/AioDeadline.v), in the form the source has now *)
let dl_step = dl_step c02_DL_SET_CLEARS c02_DL_FINISH_CLEARS c02_DL_START_CONSUMES
let dlc : dl array = Array.make naio dl_init
let now0 = 1000000
let now = ref now0
let z_of_int (i : int) : z = if i = 0 then Z0 else if i > 0 then Zpos (pos_of_int i) else Zneg (pos_of_int (- i))
let dcfg (k : int) (o : dop) : dout = let (c', x) = dl_step dlc.(k) o in dlc.(k) <- c'; x
let fin_impl : bool array = Array.make naio false     (* nni_aio_finish_impl ran since the last look *)
let cbs : (int * int) list ref = ref []

(* run the library's own threads to quiescence: continuations in thread order, then callbacks *)
let rec settle (k : int) (s : aio) : aio =
  let rec first_run i =
    if i >= List.length s.threads then None
    else match astep s (LRun (nat_of_int i)) with
      | Some s' -> (match List.nth s.threads i with PFinish _ :: _ -> fin_impl.(k) <- true | _ -> ()); Some s'
      | None -> first_run (i + 1) in
  match first_run 0 with
  | Some s' -> settle k s'
  | None ->
    (match astep s LRunCb with
     | Some s' -> cbs := (k, int_of_n s.a_result) :: !cbs; settle k s'
     | None ->
       (match astep s LCbDone with
        | Some s' -> settle k s'
        | None -> s))

let observe (pfx : string) =
  let l = List.rev !cbs in
  cbs := [];
  (* the C driver lists callbacks grouped by aio index *)
  let l = List.stable_sort (fun (a, _) (b, _) -> compare a b) l in
  let owns = List.filter (fun k -> match st.(k) with Some s -> s.p_owns && not s.p_sleep | None -> false) (List.init naio (fun i -> i)) in
  Printf.printf "%s cb=%s owns=%s\n" pfx
    (if l = [] then "-" else String.concat "," (List.map (fun (k, r) -> Printf.sprintf "a%d:%d" k r) l))
    (if owns = [] then "-" else String.concat "," (List.map (fun k -> Printf.sprintf "a%d" k) owns))

let step (k : int) (l : alabel) : bool =
  match st.(k) with
  | None -> false
  | Some s -> (match astep s l with
               | Some s' ->
                   st.(k) <- Some (settle k s');
                   if fin_impl.(k) then (fin_impl.(k) <- false; ignore (dcfg k DFinish));
                   true
               | None -> false)

let scripted () =
  try
    while true do
      let line = input_line stdin in
      match split_ws line with
      | [] -> ()
      | w :: _ when w.[0] = '#' -> ()
      | "mark" :: k :: _ -> Array.fill st 0 naio None; Array.fill dlc 0 naio dl_init; now := now0; cbs := []; print_endline ("mark " ^ k)
      | "advance" :: ms :: _ ->
          now := !now + int_of_string ms;
          for k = 0 to naio - 1 do ignore (step k (LExpire (n_of_int !now))) done;
          observe "ok"
      | op :: a :: rest ->
          let k = int_of_string (String.sub a 1 (String.length a - 1)) in
          (match op with
           | "alloc" ->
               (* nng_aio_alloc: nni_aio_init, then nng_aio_set_timeout(aio, NNG_DURATION_DEFAULT) *)
               st.(k) <- Some aio_init; dlc.(k) <- dl_init; ignore (dcfg k (DSetTimeout (z_of_int (-2)))); fin_impl.(k) <- false; observe "ok"
           | _ when st.(k) = None -> observe "noaio"
           | "tmo" -> ignore (dcfg k (DSetTimeout (z_of_int (int_of_string (List.hd rest))))); observe "ok"
           | ("expire" | "expnever") when (match st.(k) with Some s -> s.g_subs <> s.g_cbs | None -> false) -> observe "busy"
           | "expire" -> ignore (dcfg k (DSetExpire (Some (n_of_int (max 0 (!now + int_of_string (List.hd rest))))))); observe "ok"
           | "expnever" -> ignore (dcfg k (DSetExpire None)); observe "ok"
           | "norm" -> ignore (dcfg k (DNormalize (z_of_int (int_of_string (List.hd rest))))); observe "ok"
           | ("begin" | "sleep") when (match st.(k) with Some s -> s.g_subs <> s.g_cbs | None -> false) -> observe "busy"
           | "begin" ->
               if rest <> [] then ignore (step k LReset);
               let (zero, dl) = (match dcfg k (DStart (n_of_int !now)) with
                                 | OStart VZero -> (true, None) | OStart (VDeadline t) -> (false, t) | _ -> (false, None)) in
               ignore (step k (LStart (zero, dl, false, false)));
               let started = (match st.(k) with Some s -> s.p_owns | None -> false) in
               observe (Printf.sprintf "started=%d" (if started then 1 else 0))
           | "finish" ->
               let ok = step k (LProvFinish (n_of_int (int_of_string (List.hd rest)))) in
               observe (if ok then "ok" else "noown")
           | "cancel" -> ignore (step k (LAbort (n_of_int 20))); observe "ok"
           | "abort" -> ignore (step k (LAbort (n_of_int (int_of_string (List.hd rest))))); observe "ok"
           | "stop" -> ignore (step k LStop); observe "ok"
           | "sleep" ->
               (* nni_sleep_aio: reset; expire_ok unless the aio's own timeout is shorter *)
               let ms = int_of_string (List.hd rest) in
               ignore (step k LReset);
               let (zero, dl, eok) = (match dcfg k (DSleep (n_of_int !now, z_of_int ms)) with
                                      | OSleep (VZero, e) -> (true, None, e) | OSleep (VDeadline t, e) -> (false, t, e) | _ -> (false, None, true)) in
               ignore (step k (LStart (zero, dl, true, eok)));
               observe "ok"
           | "free" -> ignore (step k LStop); st.(k) <- None; observe "ok"
           | _ -> observe "badop")
      | _ -> observe "badop"
    done
  with End_of_file -> ()

(* ---- trace replay ---- *)
let fw0 = { f_stop = false; f_abort = false; f_expiring = false; f_expire_ok = false; f_sleep = false;
            f_cancel = false; f_on_eq = false; f_result = n_of_int 0; f_done = false }
let show f = Printf.sprintf "stop=%b abort=%b expiring=%b expire_ok=%b sleep=%b cancel=%b on_eq=%b done=%b result=%d"
  f.f_stop f.f_abort f.f_expiring f.f_expire_ok f.f_sleep f.f_cancel f.f_on_eq f.f_done (int_of_n f.f_result)

let replay () =
  (* records grouped per aio, in trace order *)
  let recs : (int * int * int * fw) list array = Array.make naio [] in   (* seq, kind, arg, logged *)
  let nrec = ref 0 and bad = ref 0 and races = ref 0 in
  let kinds = Hashtbl.create 16 in
  (try
    while true do
      let line = input_line stdin in
      match split_ws line with
      | "T" :: seq :: kind :: k :: flags :: result :: arg :: _ ->
          incr nrec;
          let k = int_of_string k and kind = int_of_string kind and arg = int_of_string arg in
          let b i = flags.[i] = '1' in
          let logged = { f_stop = b 0; f_abort = b 1; f_expiring = b 2; f_expire_ok = b 3; f_sleep = b 4;
                         f_cancel = b 5; f_on_eq = b 6; f_result = n_of_int (int_of_string result);
                         f_done = (String.length flags > 8 && b 8) } in
          Hashtbl.replace kinds kind (1 + (try Hashtbl.find kinds kind with Not_found -> 0));
          recs.(k) <- (int_of_string seq, kind, arg, logged) :: recs.(k)
      | _ -> ()
    done
  with End_of_file -> ());
  for k = 0 to naio - 1 do
    let a = Array.of_list (List.rev recs.(k)) in
    let cur = ref fw0 in
    let skip_to = ref (-1) in
    let tk_of kind arg (logged : fw) = (match kind with
        | 1 -> Some (TStartOk (arg <> 0, logged.f_on_eq)) | 2 -> Some TStartStopped | 3 -> Some TStartAborted
        | 4 -> Some TStartTimeout | 5 -> Some (TFinish (n_of_int arg)) | 6 -> Some (TAbort (n_of_int arg))
        | 7 -> Some TStop | 8 -> Some TClose | 9 -> Some TFini | 10 -> Some (TExpire (n_of_int arg))
        | 11 -> Some TExpireDone | 12 -> Some (TSleepCancel (n_of_int arg)) | 13 -> Some TReset
        | 14 -> Some TSleepSetup | 15 -> Some TExpireMark | 16 -> Some TExpireSkip | _ -> None) in
    Array.iteri (fun i (seq, kind, arg, logged) ->
      if i <= !skip_to then cur := logged else begin
      let pre = !cur in
      let tk = tk_of kind arg logged in
      (* the records of nni_aio_reset / nni_sleep_aio are taken without eq_mtx: the snapshot may already
         contain the effect of the critical section whose record comes next *)
      let overtaken () =
        (kind = 13 || kind = 14) &&
        (match tk with
         | None -> false
         | Some t1 ->
           (* the snapshot may contain the effects of the next m locked sections of this aio (m <= 3) *)
           let ok = ref false in
           for m = 1 to 3 do
             if not !ok && i + m < Array.length a then begin
               let mid = ref (Some pre) in
               for j = i + 1 to i + m do
                 let (_, k2, a2, l2) = a.(j) in
                 mid := (match !mid, tk_of k2 a2 l2 with
                         | Some st, Some t2 when k2 <> 13 && k2 <> 14 -> fw_step t2 st
                         | _ -> None)
               done;
               (match !mid with
                | Some st -> (match fw_step t1 st with
                              | Some e -> let e = if kind = 14 then { e with f_expire_ok = logged.f_expire_ok } else e in
                                          if e = logged then (ok := true; skip_to := i + m)
                              | None -> ())
                | None -> ())
               ;
               (* or: the unlocked writes all landed first and only the record was written late *)
               if not !ok then begin
                 let st = ref (fw_step t1 pre) in
                 for j = i + 1 to i + m do
                   let (_, k2, a2, l2) = a.(j) in
                   st := (match !st, tk_of k2 a2 l2 with
                          | Some s0, Some t2 when k2 <> 13 && k2 <> 14 -> fw_step t2 s0
                          | _ -> None)
                 done;
                 (match !st with
                  | Some e -> let e = if kind = 14 then { e with f_expire_ok = logged.f_expire_ok } else e in
                              if e = logged then (ok := true; skip_to := i + m)
                  | None -> ())
               end
             end
           done;
           !ok) in
      (* nni_aio_reset / nni_sleep_aio write a_abort, a_result, a_expire_ok, a_sleep without eq_mtx:
         a record next to one of them may show those four fields mid-update *)
      let near_unlocked =
        let u j = j >= 0 && j < Array.length a && (let (_, kd, _, _) = a.(j) in kd = 13 || kd = 14) in
        u (i - 2) || u (i - 1) || u i || u (i + 1) || u (i + 2) in
      let same_locked (x : fw) (y : fw) =
        x.f_stop = y.f_stop && x.f_expiring = y.f_expiring && x.f_cancel = y.f_cancel && x.f_on_eq = y.f_on_eq in
      (* nni_aio_reset writes a_abort, a_result, a_expire_ok, a_sleep, a_done without eq_mtx and logs its record
         afterwards: a locked section of another thread may run (and be logged) between those writes and the
         reset's own record, however many records of other threads come in between.  A record explained by a
         reset that is logged within the next few records of this aio, some of whose writes had already landed,
         is such a race. *)
      let reset_ahead () =
        let has = ref false and has14 = ref false in
        for j = i + 1 to min (Array.length a - 1) (i + 12) do
          let (_, kd, _, _) = a.(j) in
          if kd = 13 then has := true;
          if kd = 14 then (has := true; has14 := true)      (* nni_sleep_aio: reset, then a_sleep := true, a_expire_ok := either *)
        done;
        !has &&
        (match tk with
         | None -> false
         | Some t ->
           let found = ref false in
           for mask = 0 to (if !has14 then 255 else 31) do
             if not !found then begin
               let p0 = pre in
               let p1 = if mask land 1 <> 0 then { p0 with f_abort = false } else p0 in
               let p2 = if mask land 2 <> 0 then { p1 with f_result = n_of_int 0 } else p1 in
               let p3 = if mask land 4 <> 0 then { p2 with f_expire_ok = false } else p2 in
               let p4 = if mask land 8 <> 0 then { p3 with f_sleep = false } else p3 in
               let p5 = if mask land 16 <> 0 then { p4 with f_done = false } else p4 in
               let p5 = if mask land 32 <> 0 then { p5 with f_sleep = true } else p5 in
               let p5 = if mask land 64 <> 0 then { p5 with f_expire_ok = true } else p5 in
               let p5 = if mask land 128 <> 0 then { p5 with f_expire_ok = false } else p5 in
               (match fw_step t p5 with
                | Some e -> let e = if kind = 14 then { e with f_expire_ok = logged.f_expire_ok } else e in
                            if e = logged then found := true
                            else begin
                              (* ... or some of the reset's writes landed inside this critical section, after its
                                 test and before its record was written *)
                              for m2 = 1 to 31 do
                                if not !found then begin
                                  let q = e in
                                  let q = if m2 land 1 <> 0 then { q with f_abort = false } else q in
                                  let q = if m2 land 2 <> 0 then { q with f_result = n_of_int 0 } else q in
                                  let q = if m2 land 4 <> 0 then { q with f_expire_ok = false } else q in
                                  let q = if m2 land 8 <> 0 then { q with f_sleep = false } else q in
                                  let q = if m2 land 16 <> 0 then { q with f_done = false } else q in
                                  if q = logged then found := true
                                end
                              done
                            end
                | None -> ())
             end
           done;
           !found) in
      (match tk with
       | None -> incr bad; Printf.printf "MISMATCH seq=%d unknown kind %d\n" seq kind
       | Some tk ->
         (match fw_step tk pre with
          | None ->
              if near_unlocked || reset_ahead () then incr races
              else (incr bad; Printf.printf "MISMATCH seq=%d aio=%d kind=%d not enabled from: %s ; logged: %s\n" seq k kind (show pre) (show logged))
          | Some exp ->
              let exp = if kind = 14 then { exp with f_expire_ok = logged.f_expire_ok } else exp in
              if exp <> logged then begin
                if near_unlocked && same_locked exp logged then incr races
                else if overtaken () then incr races
                else if reset_ahead () then incr races
                else if (kind = 13 || kind = 14) && { exp with f_expiring = false } = logged &&
                        (let hit = ref false in
                         for j = i + 1 to min (Array.length a - 1) (i + 4) do
                           let (_, kd, _, _) = a.(j) in if kd = 11 || kd = 16 then hit := true
                         done; !hit)
                then incr races    (* the unlocked snapshot already shows the expire loop's "done with this aio", logged just after *)
                else (incr bad;
                      Printf.printf "MISMATCH seq=%d aio=%d kind=%d pre: %s ; model: %s ; logged: %s\n" seq k kind (show pre) (show exp) (show logged))
              end));
      cur := logged end) a
  done;
  Printf.printf "replayed=%d mismatches=%d unlocked_reset_races=%d kinds=%s\n" !nrec !bad !races
    (String.concat "," (List.map (fun (k, n) -> Printf.sprintf "%d:%d" k n) (List.sort compare (Hashtbl.fold (fun k n acc -> (k, n) :: acc) kinds []))))

let () = if Array.length Sys.argv > 1 && Sys.argv.(1) = "--replay" then replay () else scripted ()
