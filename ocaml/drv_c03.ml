(* model: c03-ledger *)
(* with: ledger_link.ml *)
(* drv_c03.ml: every protocol model (cooked and raw) with its ownership ledger
   (coq/Ledger/Ledger.v, Views.v) on the script language of harness/wb_proto.c /
   harness/wb_ledger.c.  The step functions are the ones of the current source
   (flags from Gen/Consts.v), as in drv_c04 / c05 / c07 / c08 / c09 / proto. *)
open Nngv_model
open Conv
open Ledger_link

let z_of_int (i : int) : z = if i = 0 then Z0 else if i > 0 then Zpos (pos_of_int i) else Zneg (pos_of_int (-i))

(* PAIRv1 headers are hop counts 1, 2, ...: renumber the model's pipe ids out of their way (see drv_c08.ml) *)
let renumber (pr : proto) : proto =
  { pr with step = (fun o ->
      let o' = (match o with
        | PPipeStart (p, peer) ->
            let k = Array.length !pipes - 1 in
            if k >= 0 && (!pipes).(k).pidn = p && int_of_n p < 0x40000000 then begin
              let np = { (!pipes).(k) with pidn = n_of_int (0x40000000 + int_of_n p) } in
              (!pipes).(k) <- np;
              PPipeStart (np.pidn, peer)
            end else o
        | _ -> o) in
      pr.step o') }

let () =
  register "push0" (fun () -> mk_proto push_init push_step_cur push_poll false view_push);
  register "push0_raw" (fun () -> mk_proto push_init push_step_cur push_poll false view_push);
  register "pull0" (fun () -> mk_proto pull_init pull_step pull_poll false view_pull);
  register "pull0_raw" (fun () -> mk_proto pull_init pull_step pull_poll false view_pull);
  register "sub0" (fun () -> mk_proto sub_init sub_step_cur sub_poll false view_sub);
  register "sub0_raw" (fun () -> mk_proto xsub_init xsub_step_cur xsub_poll false view_xsub);
  register "pub0" (fun () -> mk_proto pub_init pub_step pub_poll false view_pub);
  register "pub0_raw" (fun () -> mk_proto pub_init pub_step pub_poll false view_pub);
  register "pair0" (fun () -> renumber (mk_proto pair0_init pair0_step pair0_poll false view_pair0));
  register "pair0_raw" (fun () -> renumber (mk_proto pair0_init pair0_step pair0_poll false view_pair0));
  register "pair1" (fun () -> renumber (mk_proto pair1_init pair1_step pair1_poll false view_pair1));
  register "pair1_raw" (fun () -> renumber (mk_proto pair1_init pair1_raw_step pair1_poll false view_pair1_raw));
  register "bus0" (fun () -> mk_proto (bus_init false) bus_step_cur bus_poll false view_bus_cur);
  register "bus0_raw" (fun () -> mk_proto (bus_init true) bus_step_cur bus_poll false view_bus_cur);
  register "req0" (fun () -> mk_proto req_init req_step_cur req_poll true view_req_cur);
  register "rep0" (fun () -> mk_proto rep_init rep_step_cur rep_poll false view_rep);
  register "req0_raw" (fun () -> mk_proto xreq_init xreq_step_cur xreq_poll false view_xreq);
  register "rep0_raw" (fun () -> mk_proto xrep_init xrep_step_cur xrep_poll false view_xrep);
  register "surveyor0" (fun () -> mk_proto surv_init surv_step_cur surv_poll true view_surv);
  register "respondent0" (fun () -> mk_proto resp_init resp_step_cur resp_poll false view_resp);
  register "surveyor0_raw" (fun () -> mk_proto xsurv_init xsurv_step_cur xsurv_poll false view_xsurv_cur);
  register "respondent0_raw" (fun () -> mk_proto xresp_init xresp_step_cur xresp_poll false view_xresp);
  opt_hook := (fun name ty v ->
    match name, ty with
    | "req:resend-time", _ -> Some (OResendTime (z_of_int (int_of_string v)))
    | "req:resend-tick", _ -> Some (OResendTick (z_of_int (int_of_string v)))
    | "surveyor:survey-time", _ -> Some (OSurveyTime (z_of_int (int_of_string v)))
    | _ -> None);
  if Array.length Sys.argv > 1 && Sys.argv.(1) = "--flags" then
    Printf.printf "bus_no_aio_start=%b bus_start_before_detach=%b h3=%b\n" bUS_SEND_NO_AIO_START c03_BUS_START_BEFORE_DETACH c03_HOOK_H3
  else main ()
