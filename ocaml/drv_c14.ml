(* model: c14-pipeev *)
(* drv_c14.ml: the C14 models (Core/PipeEvModel, DialerModel, ListenerModel) behind the script
   language of harness/wb_pipeev.c.  After every command the library's own threads are run to
   quiescence (start threads, reaper, endpoint callbacks), in a fixed order; the observation
   line has the format of the C driver.  Random draws: the model is given the largest delay
   the code can draw (back_off - 1), so a timer fires here no earlier than in the library. *)
open Nngv_model
open Conv

let rec z_of_int (i : int) : z = if i = 0 then Z0 else if i > 0 then Zpos (pos_of_int i) else Zneg (pos_of_int (-i))
let int_of_z = function Z0 -> 0 | Zpos p -> int_of_pos p | Zneg p -> - (int_of_pos p)

let fixmax = c14_RECONNMAX_RESETS
let reap_waits = c14_REAP_WAITS_START   (* pipe_reap defers while nni_pipe_start is running (repaired form) *)
let wide = c14_BACKOFF_WIDE
let dstep = dstep fixmax wide

type ep = D of int | L of int
type pinfo = { sk : int; li : int; peer : int; pep : ep; mutable dead : bool; mutable used : bool;
               mutable shown : int (* callbacks already printed *); mutable xs : int list (* events in whose callback the pipe was closed *) }
type sockst = { mutable m : sock; proto : string; mutable smin : int; mutable smax : int; mutable sopen : bool;
                mutable active : int option; cbclose : int array }
type dialst = { mutable dm : dialer; dsk : int; mutable dopen : bool; mutable drem : int; mutable ures : int option }
type lstst = { mutable lm : listener; lsk : int; mutable lopen : bool; mutable lrem : int; mutable waitq : int list }

let nsock = 6 and nep = 16
let socks : sockst option array = Array.make nsock None
let dials : dialst option array = Array.make nep None
let lsts : lstst option array = Array.make nep None
let pinfos : pinfo array ref = ref [||]
let npipes () = Array.length !pinfos
let race_armed = ref false   (* "racestart": see harness/wb_pipeev.c *)

let reset () =
  Array.fill socks 0 nsock None; Array.fill dials 0 nep None; Array.fill lsts 0 nep None; pinfos := [||]

let sock k = match socks.(k) with Some s -> s | None -> failwith "no socket"
let sstep_ k o = let s = sock k in s.m <- sstep s.m o
let pipe_of (g : int) : pipe =
  let pi = (!pinfos).(g) in
  match nth_error (sock pi.sk).m.pipes (nat_of_int pi.li) with Some p -> p | None -> failwith "no pipe"

let peer_of proto = match proto with "bus0" -> 112 | "pair0" -> 16 | "pair1" -> 17 | "push0" -> 81 | "pull0" -> 80
  | "pub0" -> 33 | "sub0" -> 32 | "req0" -> 49 | "rep0" -> 48 | _ -> 0
let single proto = (proto = "pair0" || proto = "pair1")

(* a new pipe on socket sk for endpoint e; returns its global index *)
let create_pipe sk e peer : int =
  let s = sock sk in
  let li = List.length s.m.pipes in
  sstep_ sk OCreate;
  let g = npipes () in
  pinfos := Array.append !pinfos [| { sk; li; peer; pep = e; dead = false; used = false; shown = 0; xs = [] } |];
  g

let close_pipe_g g = let pi = (!pinfos).(g) in sstep_ pi.sk (OClose (nat_of_int pi.li))

let max_rnd (d : dialer) : z = let c = int_of_z d.d_curr in if c > 0 then z_of_int (c - 1) else Z0

(* the dialer's timer was (re)armed by the step just taken? *)
let dial_step (k : int) (o : dop) =
  match dials.(k) with
  | None -> ()
  | Some ds ->
    let before = ds.dm.d_tmo in
    ds.dm <- dstep ds.dm o;
    (match ds.dm.d_tmo, before with
     | Some dl, None -> ds.drem <- int_of_z dl
     | _ -> ())

let lst_step (k : int) (o : lop) =
  match lsts.(k) with
  | None -> ()
  | Some ls ->
    let before = ls.lm.l_tmo in
    ls.lm <- lstep ls.lm o;
    (match ls.lm.l_tmo, before with
     | Some ms, None -> ls.lrem <- int_of_n ms
     | _ -> ())

(* one pass; true if some step was taken.  [reap]: this pass is the reaper's (one step per pipe); otherwise it is the
   pass of the threads that run callbacks (start threads, endpoint callbacks).  The reaper gets its turn only when
   those have nothing to do: in the library it is a thread of its own that has to be woken first, while an accept
   callback that re-arms and is matched at once goes on without a thread switch. *)
let settle_pass (reap : bool) : bool =
  let progress = ref false in
  let did () = progress := true in
  (* pipes *)
  Array.iteri (fun g pi ->
    match socks.(pi.sk) with
    | None -> ()
    | Some s ->
      let i = nat_of_int pi.li in
      let p = pipe_of g in
      let cb_actions w ev =
        (* the logging callback of the harness: may close its own pipe *)
        if s.cbclose.(ev) <> 0 then begin
          if s.cbclose.(ev) > 0 then s.cbclose.(ev) <- s.cbclose.(ev) - 1;
          pi.xs <- ev :: pi.xs;
          sstep_ pi.sk (OCbAct (i, w, CbClose i))
        end;
        sstep_ pi.sk (OCbExit (i, w)) in
      if not reap then (match p.p_spc with
       | SPreRead | SPostRead -> sstep_ pi.sk (OCbRead (i, WStart)); did ()
       | SPreEnter _ | SPostEnter _ -> if s.m.s_ser = None then (sstep_ pi.sk (OCbEnter (i, WStart)); did ())
       | SPreInCb -> cb_actions WStart 1; did ()
       | SPostInCb -> cb_actions WStart 2; did ()
       | SCheck -> sstep_ pi.sk (OCheck i); did ()
       | SProto ->
           let ok = pi.peer = peer_of s.proto && not (single s.proto && s.active <> None) in
           sstep_ pi.sk (OProto (i, ok));
           if ok then begin
             pi.used <- true;
             if single s.proto then s.active <- Some g;
             if pi.dead then sstep_ pi.sk (OClose i);      (* its first receive fails: the protocol closes it *)
             if !race_armed then begin
               (* another thread closes the pipe while the protocol's pipe_start is running, and the
                  reaper is through with it before *_start_pipe goes on *)
               race_armed := false;
               sstep_ pi.sk (OClose i);
               if not reap_waits then begin
                 let fuel = ref 40 in
                 while !fuel > 0 && (pipe_of g).p_rpc <> RDone do
                   decr fuel;
                   (match (pipe_of g).p_rpc with
                    | RQueued -> if s.active = Some g then s.active <- None; sstep_ pi.sk (OReap i)
                    | RTranClose | RStop | RRemove -> sstep_ pi.sk (OReap i)
                    | RRemRead -> sstep_ pi.sk (OCbRead (i, WReap))
                    | RRemEnter _ -> sstep_ pi.sk (OCbEnter (i, WReap))
                    | RRemInCb -> cb_actions WReap 3
                    | RNone | RDone -> ())
                 done
               end
             end
           end;
           did ()
       | SIdle | SDone -> ());
      let p = pipe_of g in
      if reap then (match p.p_rpc with
       | RQueued -> if s.active = Some g then s.active <- None; sstep_ pi.sk (OReap i); did ()
       | RTranClose | RStop -> sstep_ pi.sk (OReap i); did ()
       | RRemRead -> sstep_ pi.sk (OCbRead (i, WReap)); did ()
       | RRemEnter _ -> if s.m.s_ser = None then (sstep_ pi.sk (OCbEnter (i, WReap)); did ())
       | RRemInCb -> cb_actions WReap 3; did ()
       | RRemove ->
           sstep_ pi.sk (OReap i);
           (match pi.pep with
            | D k -> (match dials.(k) with
                      | Some ds -> dial_step k (DPipeRemoved (nat_of_int g, max_rnd ds.dm))
                      | None -> ())
            | L k -> (match lsts.(k) with
                      | Some ls -> ls.waitq <- List.filter (fun x -> x <> g) ls.waitq
                      | None -> ()));
           did ()
       | RNone | RDone -> ())) !pinfos;
  (* dialers *)
  if not reap then Array.iteri (fun k d -> match d with
    | None -> ()
    | Some ds ->
      (match ds.dm.d_conn_done with
       | Some (rv, p) ->
           let user = ds.dm.d_user in
           dial_step k (DConnCb (max_rnd ds.dm));
           if user then ds.ures <- Some (int_of_n rv);
           if int_of_n rv = 0 then begin
             let g = int_of_nat p in
             let pi = (!pinfos).(g) in
             sstep_ pi.sk (OStart (nat_of_int pi.li))
           end;
           did ()
       | None -> ());
      (match ds.dm.d_tmo_done with
       | Some _ -> dial_step k DTimerCb; did ()
       | None -> ())) dials;
  (* listeners *)
  if not reap then Array.iteri (fun k l -> match l with
    | None -> ()
    | Some ls ->
      (match ls.lm.l_acc_done with
       | Some (rv, p) ->
           lst_step k LAccCb;
           if int_of_n rv = 0 then begin
             let g = int_of_nat p in
             let pi = (!pinfos).(g) in
             sstep_ pi.sk (OStart (nat_of_int pi.li))
           end;
           did ()
       | None -> ());
      (match ls.lm.l_tmo_done with
       | Some _ -> lst_step k LTimerCb; did ()
       | None -> ());
      (* a waiting connection is matched as soon as an accept is pending *)
      (match ls.waitq with
       | g :: rest when ls.lm.l_acc && not ls.lm.l_closed ->
           ls.waitq <- rest; lst_step k (LTran (SrcMatch (nat_of_int g))); did ()
       | _ -> ())) lsts;
  !progress

let settle () =
  let n = ref 0 in
  let go = ref true in
  while !go && !n < 100000 do
    incr n;
    if settle_pass false then () else if settle_pass true then () else go := false
  done

let pipe_gone g = let p = pipe_of g in p.p_closed

let observe (rv : int) (extra : string) =
  settle ();
  let b = Buffer.create 256 in
  Buffer.add_string b (Printf.sprintf "rv=%d%s%s" rv (if extra = "" then "" else " ") extra);
  Buffer.add_string b " ev=";
  let evs = ref [] in
  Array.iteri (fun g pi ->
    let p = pipe_of g in
    let cbs = List.map int_of_n p.g_cbs in
    List.iteri (fun j e -> if j >= pi.shown then
      evs := Printf.sprintf "p%d:%d%s" g e (if List.mem e pi.xs then "x" else "") :: !evs) cbs;
    pi.shown <- List.length cbs) !pinfos;
  Buffer.add_string b (if !evs = [] then "-" else String.concat "," (List.rev !evs));
  Buffer.add_string b " pipes=";
  if npipes () = 0 then Buffer.add_string b "-"
  else Buffer.add_string b (String.concat "," (Array.to_list (Array.mapi (fun g pi ->
    Printf.sprintf "p%d:%c:%d" g (if pipe_gone g then 'g' else 'o') (if pi.used then 1 else 0)) !pinfos)));
  Array.iteri (fun k d -> match d with
    | Some ds when ds.dopen ->
        let d = ds.dm in
        Buffer.add_string b (Printf.sprintf " d%d=%s/%d/%d/%d/%s/a%d" k
          (match d.d_pipe with Some p -> Printf.sprintf "p%d" (int_of_nat p) | None -> "-")
          (int_of_z d.d_inir) (int_of_z d.d_maxr) (int_of_z d.d_curr)
          (if d.d_conn then "c" else if d.d_tmo <> None then "t" else "-") (int_of_nat d.g_att));
        (match ds.ures with Some r -> Buffer.add_string b (Printf.sprintf "/u%d" r); ds.ures <- None | None -> ())
    | _ -> ()) dials;
  Array.iteri (fun k l -> match l with
    | Some ls when ls.lopen ->
        let l = ls.lm in
        Buffer.add_string b (Printf.sprintf " l%d=%s/a%d" k
          (if l.l_acc then "a" else if l.l_tmo <> None then "t" else "-") (int_of_nat l.g_acc_calls))
    | _ -> ()) lsts;
  print_endline (Buffer.contents b)

let close_dialer k =
  match dials.(k) with
  | Some ds when ds.dopen ->
      dial_step k DClose;
      Array.iteri (fun g pi -> if pi.pep = D k then close_pipe_g g) !pinfos;
      ds.dopen <- false
  | _ -> ()
let close_listener k =
  match lsts.(k) with
  | Some ls when ls.lopen ->
      lst_step k LoClose;
      Array.iteri (fun g pi -> if pi.pep = L k then close_pipe_g g) !pinfos;
      ls.waitq <- [];
      ls.lopen <- false
  | _ -> ()

let idx (s : string) = int_of_string (String.sub s 1 (String.length s - 1))

let () =
  (if Array.length Sys.argv > 1 && Sys.argv.(1) = "--flags" then
     (Printf.printf "fixmax=%b wide=%b reap_waits=%b\n" fixmax wide reap_waits; exit 0));
  try
    while true do
      let line = input_line stdin in
      match split_ws line with
      | [] -> ()
      | w :: _ when w.[0] = '#' -> ()
      | ["mark"; k] -> reset (); print_endline ("mark " ^ k)
      | ["open"; s; proto] ->
          socks.(idx s) <- Some { m = sock_init; proto; smin = 1000; smax = 0; sopen = true; active = None;
                                  cbclose = Array.make 4 0 };
          observe 0 ""
      | ["notify"; s; mask] ->
          for e = 1 to 3 do sstep_ (idx s) (ONotify (n_of_int e, mask.[e - 1] = '1')) done;
          observe 0 ""
      | ["cbclose"; s; ev; n] -> (sock (idx s)).cbclose.(int_of_string ev) <- int_of_string n; observe 0 ""
      | ["sopt"; s; which; v] ->
          let v = int_of_string v in
          if v < -1 then observe 3 ""
          else begin
            (if which = "min" then (sock (idx s)).smin <- v else (sock (idx s)).smax <- v);
            observe 0 ""
          end
      | ["listen"; l; s] ->
          let k = idx l in
          lsts.(k) <- Some { lm = listener_init; lsk = idx s; lopen = true; lrem = 0; waitq = [] };
          lst_step k LoStart;
          observe 0 ""
      | ["dialer"; d; s] ->
          let k = idx d and sk = idx s in
          let so = sock sk in
          dials.(k) <- Some { dm = dialer_init (z_of_int so.smin) (z_of_int so.smax); dsk = sk; dopen = true;
                              drem = 0; ures = None };
          observe 0 ""
      | ["dstart"; d; how] ->
          let k = idx d in
          (match dials.(k) with
           | Some ds ->
               let started = ds.dm.d_started in
               if how = "nb" then begin
                 dial_step k (DStart false);
                 observe (if started then 11 else 0) ""
               end else begin
                 if started then ds.ures <- Some 11 else dial_step k (DStart true);
                 observe 0 ""
               end
           | None -> observe 12 "")
      | ["dopt"; d; which; v] ->
          let v = int_of_string v in
          (match dials.(idx d) with
           | Some ds when ds.dopen ->
               if v < -1 then observe 3 ""
               else begin
                 dial_step (idx d) (if which = "min" then DSetMin (z_of_int v) else DSetMax (z_of_int v));
                 observe 0 ""
               end
           | _ -> observe 12 "")
      | ["conn"; l; peer] ->
          let k = idx l in
          (match lsts.(k) with
           | Some ls when ls.lopen ->
               let g = create_pipe ls.lsk (L k) (int_of_string peer) in
               ls.waitq <- ls.waitq @ [g];
               observe 0 (Printf.sprintf "pipe=p%d" g)
           | _ -> observe 7 "")
      | ["dialok"; d; peer] ->
          let k = idx d in
          (match dials.(k) with
           | Some ds when ds.dopen ->
               if not ds.dm.d_conn then observe 11 ""
               else begin
                 let g = create_pipe ds.dsk (D k) (int_of_string peer) in
                 dial_step k (DConnDone (n_of_int 0, nat_of_int g));
                 observe 0 (Printf.sprintf "pipe=p%d" g)
               end
           | _ -> observe 7 "")
      | "dialfail" :: d :: code :: rest ->
          let k = idx d in
          (match dials.(k) with
           | Some ds when ds.dopen ->
               if not ds.dm.d_conn then observe 11 ""
               else begin
                 let g = (match rest with p :: _ -> Some (create_pipe ds.dsk (D k) (int_of_string p)) | [] -> None) in
                 dial_step k (DConnDone (n_of_int (int_of_string code), O));
                 (match g with Some g -> close_pipe_g g; observe 0 (Printf.sprintf "pipe=p%d" g) | None -> observe 0 "")
               end
           | _ -> observe 7 "")
      | "accfail" :: l :: code :: rest ->
          let k = idx l in
          (match lsts.(k) with
           | Some ls when ls.lopen ->
               if not ls.lm.l_acc then observe 11 ""
               else begin
                 let g = (match rest with p :: _ -> Some (create_pipe ls.lsk (L k) (int_of_string p)) | [] -> None) in
                 lst_step k (LTran (SrcAccept (n_of_int (int_of_string code))));
                 (match g with Some g -> close_pipe_g g; observe 0 (Printf.sprintf "pipe=p%d" g) | None -> observe 0 "")
               end
           | _ -> observe 7 "")
      | ["drop"; p] ->
          let g = idx p in
          if g >= npipes () || pipe_gone g then observe 12 ""
          else begin
            let pi = (!pinfos).(g) in
            pi.dead <- true;
            if pi.used then close_pipe_g g;     (* the pending receive fails: the protocol closes the pipe *)
            observe 0 ""
          end
      | ["pclose"; p] ->
          let g = idx p in
          if g >= npipes () || pipe_gone g then observe 12 ""
          else (close_pipe_g g; observe 0 "")
      | ["lclose"; l] ->
          (match lsts.(idx l) with
           | Some ls when ls.lopen -> close_listener (idx l); observe 0 ""
           | _ -> observe 12 "")
      | ["dclose"; d] ->
          (match dials.(idx d) with
           | Some ds when ds.dopen -> close_dialer (idx d); observe 0 ""
           | _ -> observe 12 "")
      | ["close"; s] ->
          let sk = idx s in
          sstep_ sk OShutBegin;
          Array.iteri (fun k l -> match l with Some ls when ls.lsk = sk -> close_listener k | _ -> ()) lsts;
          Array.iteri (fun k d -> match d with Some ds when ds.dsk = sk -> close_dialer k | _ -> ()) dials;
          settle ();
          sstep_ sk OShutEps; sstep_ sk OShutPipes;
          settle ();
          sstep_ sk OShutWait;
          (sock sk).sopen <- false;
          observe (if (sock sk).m.s_shut_returned then 0 else 999) ""
      | ["advance"; ms] ->
          let ms = int_of_string ms in
          Array.iteri (fun k d -> match d with
            | Some ds when ds.dm.d_tmo <> None ->
                ds.drem <- ds.drem - ms;
                if ds.drem < 0 then dial_step k DTimerFire
            | _ -> ()) dials;
          Array.iteri (fun k l -> match l with
            | Some ls when ls.lm.l_tmo <> None ->
                ls.lrem <- ls.lrem - ms;
                if ls.lrem < 0 then lst_step k LTimerFire
            | _ -> ()) lsts;
          observe 0 ""
      | ["poll"] -> observe 0 ""
      | ["racestart"] -> race_armed := true; observe 0 ""
      | op :: _ -> print_endline ("badop " ^ op)
    done
  with End_of_file -> ()
