(* model: proto *)
(* with: proto_link.ml *)
(* drv_proto.ml: PUSH / PULL models on the script language of harness/wb_proto.c *)
open Nngv_model
open Conv
open Proto_link

let () =
  register "push0" (fun () -> mk_proto push0_init push0_step push0_poll false);
  register "push0_raw" (fun () -> mk_proto push0_init push0_step push0_poll false);
  register "pull0" (fun () -> mk_proto pull_init pull_step pull_poll false);
  register "pull0_raw" (fun () -> mk_proto pull_init pull_step pull_poll false);
  main ()
