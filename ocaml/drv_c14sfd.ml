(* model: c14-pipeev *)
(* drv_c14sfd.ml: Core/SfdqModel (the socket-fd listener's hand-over queue) behind the script language of
   harness/wb_sfdq.c.  Descriptor of pair i = i + 1 in the model (0 is the array's initial filling). *)
open Nngv_model
open Conv

let fixed = c14_SFDQ_SHIFT_FIXED
let fixclose = c14_SFDQ_CLOSE_RESETS
let cap = c14_SFD_LISTEN_QUEUE
let npair = 48 and naio = 48

let st = ref (sfdl_init cap)
let handed = Array.make npair false
let deliv = Array.make npair 0
let closed = Array.make npair false
let pending = Array.make naio false
let probe : int option option ref = ref None     (* None: no probe; Some None: a descriptor nobody touches; Some (Some i) *)
let probe_closed = ref false
let oob = ref false

let reset () =
  st := sfdl_init cap; Array.fill handed 0 npair false; Array.fill deliv 0 npair 0; Array.fill closed 0 npair false;
  Array.fill pending 0 naio false; probe := None; probe_closed := false; oob := false

let idx s = int_of_string (String.sub s 1 (String.length s - 1))

let apply (o : sf_op) : int * (int * int * int) list =
  (* returns (rv of the call, completions (aio, rv, pair or -1)) *)
  let (s', outs) = sf_step fixed fixclose cap !st o in
  st := s';
  let rv = ref 0 and done_ = ref [] in
  List.iter (function
    | SfRet r -> rv := int_of_n r
    | SfDeliver (a, fd) ->
        let a = int_of_nat a and i = int_of_n fd - 1 in
        pending.(a) <- false;
        if i >= 0 && i < npair then deliv.(i) <- deliv.(i) + 1;
        done_ := (a, 0, i) :: !done_
    | SfFail (a, r) -> let a = int_of_nat a in pending.(a) <- false; done_ := (a, int_of_n r, -1) :: !done_
    | SfCloseFd fd ->
        let i = int_of_n fd - 1 in
        if i >= 0 && i < npair then begin
          (match !probe with Some (Some p) when p = i && closed.(i) -> probe_closed := true | _ -> ());
          closed.(i) <- true
        end
    | SfOob -> oob := true) outs;
  (!rv, List.sort compare !done_)

let observe rv dn =
  if !oob then print_endline "OOB"
  else begin
    let b = Buffer.create 128 in
    Buffer.add_string b (Printf.sprintf "rv=%d done=" rv);
    Buffer.add_string b (if dn = [] then "-" else String.concat "," (List.map (fun (a, r, i) ->
      if r = 0 then Printf.sprintf "a%d:0:f%d" a i else Printf.sprintf "a%d:%d" a r) dn));
    Buffer.add_string b " fds=";
    let l = ref [] in
    for i = npair - 1 downto 0 do
      if handed.(i) then
        l := (Printf.sprintf "f%d:%c%s" i (if closed.(i) then 'c' else if deliv.(i) > 0 then 'd' else 'q')
                (if deliv.(i) > 1 then Printf.sprintf "x%d" deliv.(i) else "")) :: !l
    done;
    Buffer.add_string b (if !l = [] then "-" else String.concat "," !l);
    (match !probe with Some _ -> Buffer.add_string b (if !probe_closed then " probe=c" else " probe=o") | None -> ());
    print_endline (Buffer.contents b)
  end

let () =
  (if Array.length Sys.argv > 1 && Sys.argv.(1) = "--flags" then
     (Printf.printf "fixed=%b fixclose=%b cap=%d\n" fixed fixclose (int_of_nat cap); exit 0));
  try
    while true do
      let line = input_line stdin in
      match split_ws line with
      | [] -> ()
      | w :: _ when w.[0] = '#' -> ()
      | ["mark"; k] -> reset (); print_endline ("mark " ^ k)
      | ["setfd"; f] ->
          let i = idx f in
          let (rv, dn) = apply (SfSetFd (n_of_int (i + 1), true)) in
          if rv = 0 && not !oob then handed.(i) <- true;
          observe rv dn
      | ["accept"; a] ->
          let k = idx a in
          if pending.(k) then observe 4 []
          else begin
            pending.(k) <- true;
            let (_, dn) = apply (SfAccept (nat_of_int k, true)) in
            observe 0 dn
          end
      | ["cancel"; a] -> let (_, dn) = apply (SfCancel (nat_of_int (idx a), n_of_int 20)) in observe 0 dn
      | ["close"] | ["stop"] -> let (_, dn) = apply SfClose in observe 0 dn
      | ["probe"] ->
          (if !probe = None then begin
             (* the application's new descriptor gets the lowest free number: the lowest one the listener has closed *)
             let p = ref None in
             for i = npair - 1 downto 0 do if closed.(i) then p := Some i done;
             probe := Some !p
           end);
          observe 0 []
      | ["poll"] -> observe 0 []
      | op :: _ -> print_endline ("badop " ^ op)
    done
  with End_of_file -> ()
