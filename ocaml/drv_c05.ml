(* model: c05-pubsub *)
(* with: proto_link.ml *)
(* drv_c05.ml: PUB / SUB / raw SUB models on the script language of harness/wb_proto.c.
   Contexts: the link layer passes `Some ctx` for c<k> targets and `None` for the socket
   (= the master context of SUB).  Options as the C has them: `sub` / `unsub` topics and
   sub:prefnew, recv-buffer per context and per socket (proto_link maps them to
   OSub / OUnsub / OPrefNew / ORecvBuf); send-buffer on PUB. *)
open Nngv_model
open Conv
open Proto_link

let () =
  register "sub0" (fun () -> mk_proto sub_init sub_step_cur sub_poll false);
  register "sub0_raw" (fun () -> mk_proto xsub_init xsub_step_cur xsub_poll false);
  register "pub0" (fun () -> mk_proto pub_init pub_step pub_poll false);
  register "pub0_raw" (fun () -> mk_proto pub_init pub_step pub_poll false);
  main ()
