(* model: c20-allocfail *)
(* drv_c20.ml: runs the oracle-threaded wrappers of coq/AllocFail on the op script of
   harness/wb_allocfail.c and prints the same lines: the observation through the
   component's API, " | ", and the ledger of the call (A<size> allocated, X<size>
   refused, F<size> freed, in program order).
     sizes msg=.. ptr=.. msgq=.. ent=.. url=.. topic=..   struct sizes (read from the library)
     oracle <bits>     1 = the next allocation succeeds, 0 = it is refused; exhausted = succeed
   The forms of the source that the model follows are the generated flags of Gen/Consts.v. *)
open Nngv_model
open Conv

(* the forms of the source: Gen/Consts.v, or "--flags <u><p>" (0/1 each: the long-URL nni_strdup is
   tested; nni_msg_pull_up tests nni_msg_insert) given by the check, which reads them from
   the very tree it tests (Gen/Consts.v is shared with checks running on other trees) *)
let f_url_checked = ref uRL_STRDUP_CHECKED
let f_pullup_checked = ref pULL_UP_INSERT_CHECKED
let () =
  match Array.to_list Sys.argv with
  | _ :: "--flags" :: f :: _ when String.length f = 2 ->
      f_url_checked := (f.[0] = '1'); f_pullup_checked := (f.[1] = '1')
  | _ -> ()

let sz_msg = ref 0 and sz_ptr = ref 8 and sz_msgq = ref 0 and sz_ent = ref 0 and sz_url = ref 0 and sz_topic = ref 0
let orc : bool list ref = ref []

let ev_str (t : aev list) : string =
  if t = [] then "-" else
  String.concat " " (List.map (function
    | AAlloc s -> "A" ^ string_of_int (int_of_nat s)
    | AFail s -> "X" ^ string_of_int (int_of_nat s)
    | AFree s -> "F" ^ string_of_int (int_of_nat s)) t)

(* run a wrapper under the current oracle; returns (result, ledger) *)
let runm (m : 'a m) : 'a * aev list =
  let ((r, o'), t) = m !orc in
  orc := o'; (r, t)

let out (obs : string) (t : aev list) = print_endline (obs ^ " | " ^ ev_str t)
let nat = nat_of_int
let nsz r = nat_of_int !r

(* ---- msg ---- *)
let slots : msg option array = Array.make 8 None
let mobs (rv : int) (v : string) (m : msg option) : string =
  match m with
  | None -> Printf.sprintf "rv=%d val=%s none" rv v
  | Some m ->
      let body = match msg_body m with Some b -> hex_of_bytes b | None -> "OOB" in
      Printf.sprintf "rv=%d val=%s hdr=%s body=%s cap=%d" rv v (hex_of_bytes m.m_hdr) body (int_of_nat (msg_capacity m))
let vstr = function None -> "-" | Some v -> hex_of_n v
let parse_op (name : string) (rest : string list) : op =
  let natk k = nat_of_int (int_of_string (List.nth rest k)) in
  match name with
  | "append" -> Append (bytes_of_hex (List.nth rest 0))
  | "insert" -> Insert (bytes_of_hex (List.nth rest 0))
  | "trim" -> Trim (natk 0) | "chop" -> Chop (natk 0)
  | "happend" -> HAppend (bytes_of_hex (List.nth rest 0))
  | "hinsert" -> HInsert (bytes_of_hex (List.nth rest 0))
  | "htrim" -> HTrim (natk 0) | "hchop" -> HChop (natk 0)
  | "realloc" -> Realloc (natk 0) | "reserve" -> Reserve (natk 0)
  | "clear" -> Clear | "hclear" -> HClear
  | "appendu" -> AppendU (natk 0, n_of_hex (List.nth rest 1))
  | "insertu" -> InsertU (natk 0, n_of_hex (List.nth rest 1))
  | "trimu" -> TrimU (natk 0) | "chopu" -> ChopU (natk 0)
  | "happendu" -> HAppendU (natk 0, n_of_hex (List.nth rest 1))
  | "hinsertu" -> HInsertU (natk 0, n_of_hex (List.nth rest 1))
  | "htrimu" -> HTrimU (natk 0) | "hchopu" -> HChopU (natk 0)
  | _ -> failwith ("bad op " ^ name)

(* ---- queues ---- *)
let lq : lmq option ref = ref None
let mq : msgq option ref = ref None
let b2i b = if b then 1 else 0
let ids l = if l = [] then "-" else String.concat "," (List.map string_of_int (List.sort compare (List.map int_of_n l)))
let lstate q =
  Printf.sprintf " len=%d cap=%d full=%d empty=%d" (int_of_nat q.q_len) (int_of_nat q.q_cap) (b2i (lmq_full q)) (b2i (lmq_empty q))
let qstate q = Printf.sprintf " cap=%d len=%d alloc=%d" (int_of_nat q.mq_cap) (int_of_nat q.mq_len) (List.length q.mq_cells)
let lstep (o : lop_o) =
  match !lq with
  | None -> print_endline "noqueue"
  | Some q ->
    (match runm (lmq_step_o (nsz sz_ptr) true q o) with
     | None, _ -> print_endline "MODEL-OOB"
     | Some (ot, q'), t ->
         lq := Some q';
         (match ot, o with
          | LRv (rv, m), OGet ->
              out (Printf.sprintf "rv=%d msg=%s%s" (int_of_n rv) (match m with Some x -> string_of_int (int_of_n x) | None -> "-") (lstate q')) t
          | LRv (rv, _), _ -> out (Printf.sprintf "rv=%d%s" (int_of_n rv) (lstate q')) t
          | LFreed (rv, l), _ -> out (Printf.sprintf "rv=%d freed=%s%s" (int_of_n rv) (ids l) (lstate q')) t))
let qstep (o : mop_o) =
  match !mq with
  | None -> print_endline "noqueue"
  | Some q ->
    (match runm (msgq_step_o (nsz sz_ptr) true q o) with
     | None, _ -> print_endline "MODEL-OOB"
     | Some ((rv, q'), outs), t ->
         mq := Some q';
         let freed = List.filter_map (function MFree m -> Some m | _ -> None) outs in
         (* a refused tryput leaves the message with the caller, who frees it off the record *)
         out (Printf.sprintf "rv=%d freed=%s%s" (int_of_n rv) (ids freed) (qstate q')) t)

(* ---- idmap ---- *)
let im : id_map option ref = ref None
let istep (o : id_op_o) (fmt : id_out -> id_map -> string) =
  match !im with
  | None -> print_endline "nomap"
  | Some m ->
    (match runm (id_step_o (nsz sz_ent) iDMAP_ALLOC_WRAP_FIXED m o) with
     | IdErr _, _ -> print_endline "MODEL-ERR"
     | IdOk (o', m'), t -> im := Some m'; out (fmt o' m') t)
let icc m = Printf.sprintf " cap=%d count=%d" (List.length m.id_entries) (int_of_nat m.id_count)

(* ---- url ---- *)
let url1 : nurl option ref = ref None
let url2 : nurl option ref = ref None
let uflags () = { fx_scheme = uRL_FIX_SCHEME_EXACT; fx_utf8 = uRL_FIX_UTF8_ACCUM; fx_clone = uRL_FIX_CLONE_ALLOC;
                  fx_clone_null = uRL_FIX_CLONE_NULL; fx_bracket = uRL_FIX_BRACKET }
let hexo = function None -> "NULL" | Some l -> hex_of_bytes l
let ushow (u : nurl) : string =
  match url_view u with
  | None -> "MODEL-OOB"
  | Some v -> Printf.sprintf "rv=0 scheme=%s userinfo=%s host=%s port=%d path=%s query=%s fragment=%s"
                (hex_of_bytes v.v_scheme) (hexo v.v_userinfo) (hexo v.v_hostname) (int_of_n v.v_port)
                (hex_of_bytes v.v_path) (hexo v.v_query) (hexo v.v_fragment)

(* ---- sub ---- *)
let ss : sub1 option ref = ref None
let optrv (outs : pout list) : int =
  List.fold_left (fun acc o -> match o with OptRv rv -> int_of_n rv | _ -> acc) (-1) outs

let cleanup () : aev list =
  let t = ref [] in
  let add x = t := !t @ x in
  Array.iteri (fun i s -> match s with
    | Some m -> let ((), e) = runm (msg_free_o (nsz sz_msg) m) in add e; slots.(i) <- None
    | None -> ()) slots;
  (match !lq with Some q -> let (_, e) = runm (lmq_fini_o (nsz sz_ptr) q) in add e; lq := None | None -> ());
  (match !mq with Some q -> let ((), e) = runm (msgq_fini_o (nsz sz_ptr) (nsz sz_msgq) q) in add e; mq := None | None -> ());
  (match !im with Some m -> let (_, e) = runm (id_fini_o (nsz sz_ent) m) in add e; im := None | None -> ());
  (match !url1 with Some u -> let ((), e) = runm (url_free_o (nsz sz_url) u) in add e; url1 := None | None -> ());
  (match !url2 with Some u -> let ((), e) = runm (url_free_o (nsz sz_url) u) in add e; url2 := None | None -> ());
  !t

let () =
  try
    while true do
      let line = input_line stdin in
      match split_ws line with
      | [] -> ()
      | w :: _ when w.[0] = '#' -> ()
      | "mark" :: k :: _ ->
          ignore (cleanup ()); ss := None; orc := []; print_endline ("mark " ^ k)
      | "oracle" :: rest ->
          let s = match rest with b :: _ when b <> "-" -> b | _ -> "" in
          orc := List.init (String.length s) (fun i -> s.[i] = '1')
      | "sizes" :: kvs ->
          List.iter (fun kv ->
            match String.split_on_char '=' kv with
            | [k; v] ->
                let v = int_of_string v in
                (match k with
                 | "msg" -> sz_msg := v | "ptr" -> sz_ptr := v | "msgq" -> sz_msgq := v
                 | "ent" -> sz_ent := v | "url" -> sz_url := v | "topic" -> sz_topic := v | _ -> ())
            | _ -> ()) kvs
      | "end" :: _ ->
          let t = cleanup () in out "end live=0/0" t
      (* ---------------- lmq *)
      | "linit" :: c :: _ ->
          (match runm (lmq_init_o (nsz sz_ptr) true (nat (int_of_string c))) with
           | Some q, t -> lq := Some q; out (Printf.sprintf "rv=0%s" (lstate q)) t
           | None, _ -> print_endline "MODEL-OOB")
      | "lput" :: i :: _ -> lstep (OPut (n_of_int (int_of_string i)))
      | "lget" :: _ -> lstep OGet
      | "lflush" :: _ -> lstep OFlush
      | "lresize" :: c :: _ -> lstep (OResize (nat (int_of_string c)))
      | "lfini" :: _ ->
          (match !lq with
           | None -> print_endline "noqueue"
           | Some q ->
             (match runm (lmq_fini_o (nsz sz_ptr) q) with
              | Some l, t -> lq := None; out (Printf.sprintf "rv=0 freed=%s" (ids l)) t
              | None, _ -> print_endline "MODEL-OOB"))
      (* ---------------- msgq *)
      | "qinit" :: c :: _ ->
          (match runm (msgq_init_o (nsz sz_ptr) (nsz sz_msgq) (nat (int_of_string c))) with
           | (rv, Some q), t -> mq := Some q; out (Printf.sprintf "rv=%d%s" (int_of_n rv) (qstate q)) t
           | (rv, None), t -> mq := None; out (Printf.sprintf "rv=%d" (int_of_n rv)) t)
      | "qtryput" :: i :: _ -> qstep (QTryPut (n_of_int (int_of_string i)))
      | "qresize" :: c :: _ -> qstep (QResize (nat (int_of_string c)))
      | "qfini" :: _ ->
          (match !mq with
           | None -> print_endline "noqueue"
           | Some q ->
               (* nni_msgq_fini frees the queued messages, then the ring and the struct *)
               let held = (match msgq_step_o (nsz sz_ptr) true q QClose [] with
                           | ((Some ((_, _), outs), _), _) -> List.filter_map (function MFree m -> Some m | _ -> None) outs
                           | _ -> []) in
               let ((), t) = runm (msgq_fini_o (nsz sz_ptr) (nsz sz_msgq) q) in
               mq := None; out (Printf.sprintf "rv=0 freed=%s" (ids held)) t)
      (* ---------------- idmap *)
      | "iinit" :: lo :: hi :: _ ->
          (match id_map_init (n_of_hex lo) (n_of_hex hi) false with
           | IdOk m -> im := Some m; out "rv=0" []
           | IdErr _ -> print_endline "MODEL-ERR")
      | "iset" :: k :: v :: _ ->
          istep (JSet (n_of_hex k, n_of_hex v)) (fun o m -> match o with OutRv rv -> Printf.sprintf "rv=%d%s" (int_of_n rv) (icc m) | _ -> "?")
      | "iget" :: k :: _ ->
          istep (JGet (n_of_hex k)) (fun o _ -> match o with OutGet (Some v) -> "get=" ^ hex_of_n v | OutGet None -> "get=-" | _ -> "?")
      | "iremove" :: k :: _ ->
          istep (JRemove (n_of_hex k)) (fun o m -> match o with OutRv rv -> Printf.sprintf "rv=%d%s" (int_of_n rv) (icc m) | _ -> "?")
      | "ialloc" :: v :: _ ->
          istep (JAlloc (n_of_hex v, N0)) (fun o m -> match o with
            | OutAlloc (rv, Some id) -> Printf.sprintf "rv=%d id=%s%s" (int_of_n rv) (hex_of_n id) (icc m)
            | OutAlloc (rv, None) -> Printf.sprintf "rv=%d id=-%s" (int_of_n rv) (icc m) | _ -> "?")
      | "icount" :: _ -> istep JCount (fun o _ -> match o with OutCount n -> Printf.sprintf "count=%d" (int_of_nat n) | _ -> "?")
      | "ivisit" :: _ ->
          istep JVisit (fun o _ -> match o with
            | OutVisit l ->
                let l = List.sort compare (List.map (fun (k, v) -> (hex_of_n k, hex_of_n v)) l) in
                (* sort numerically by key: same length first, then text *)
                let l = List.sort (fun (a, _) (b, _) -> compare (String.length a, a) (String.length b, b)) l in
                "visit=" ^ (if l = [] then "-" else String.concat "," (List.map (fun (k, v) -> k ^ ":" ^ v) l))
            | _ -> "?")
      | "ifini" :: _ ->
          (match !im with
           | None -> print_endline "nomap"
           | Some m -> let (m', t) = runm (id_fini_o (nsz sz_ent) m) in im := None; out (Printf.sprintf "rv=0%s" (icc m')) t)
      (* ---------------- url *)
      | "uparse" :: hex :: _ ->
          (match !url1 with Some u -> ignore (url_free_o (nsz sz_url) u []); url1 := None | None -> ());
          (match runm (url_parse_o (nsz sz_url) !f_url_checked (uflags ()) (fun _ -> None) (bytes_of_hex hex @ [N0])) with
           | UCrash, t -> out "CRASH" t
           | URes (rv, Some u), t -> url1 := Some u; out (ushow u) t
           | URes (rv, None), t -> out (Printf.sprintf "rv=%d" (int_of_n rv)) t)
      | "uclone" :: _ ->
          (match !url1 with
           | None -> print_endline "nourl"
           | Some u ->
             (match !url2 with Some u2 -> ignore (url_free_o (nsz sz_url) u2 []); url2 := None | None -> ());
             (match runm (url_clone_o (nsz sz_url) uRL_FIX_CLONE_NULL u) with
              | UCrash, t -> out "CRASH" t
              | URes (_, Some c), t -> url2 := Some c; out (ushow c) t
              | URes (rv, None), t -> out (Printf.sprintf "rv=%d" (int_of_n rv)) t))
      | ("ufree" | "ufree2" as op) :: _ ->
          let r = if op = "ufree" then url1 else url2 in
          (match !r with
           | None -> print_endline "nourl"
           | Some u -> let ((), t) = runm (url_free_o (nsz sz_url) u) in r := None; out "ok" t)
      (* ---------------- sub *)
      | "sopen" :: _ -> ss := Some sub_init; out "rv=0" []
      | ("ssub" | "sunsub" as op) :: hex :: _ ->
          (match !ss with
           | None -> print_endline "nosock"
           | Some s ->
               let t = bytes_of_hex hex in
               let ((s', outs), l) =
                 if op = "ssub" then runm (sub_subscribe_o (nsz sz_topic) true s None t)
                 else runm (sub_unsubscribe_o (nsz sz_topic) true s None t) in
               ss := Some s'; out (Printf.sprintf "rv=%d" (optrv outs)) l)
      | "sprobe" :: hex :: _ ->
          (match !ss with
           | None -> print_endline "nosock"
           | Some s ->
               let t = bytes_of_hex hex in
               let has = (match find_ctx None s.sb_ctxs with Some c -> has_topic t c.sc_topics | None -> false) in
               (* the probe of the C driver unsubscribes and subscribes again: the topic moves to the end *)
               if has then begin
                 let (((s1, _), _), _) = sub_unsubscribe_o (nsz sz_topic) true s None t [] in
                 let (((s2, _), _), _) = sub_subscribe_o (nsz sz_topic) true s1 None t [] in
                 ss := Some s2
               end;
               out (Printf.sprintf "has=%d" (b2i has)) [])
      | "sclose" :: _ -> ss := None; out "rv=0" []
      (* ---------------- msg *)
      | "alloc" :: i :: sz :: _ ->
          let i = int_of_string i in
          slots.(i) <- None;
          (match runm (msg_alloc_o (nsz sz_msg) (nat (int_of_string sz))) with
           | Some (rv, Some m), t -> slots.(i) <- Some m; out (mobs (int_of_n rv) "-" (Some m)) t
           | Some (rv, None), t -> out (mobs (int_of_n rv) "-" None) t
           | None, _ -> print_endline "MODEL-OOB")
      | name :: i :: rest ->
          let i = int_of_string i in
          (match slots.(i) with
           | None -> print_endline "noslot"
           | Some m ->
             (match name with
              | "free" -> let ((), t) = runm (msg_free_o (nsz sz_msg) m) in slots.(i) <- None; out "ok" t
              | "dup" ->
                  let j = int_of_string (List.hd rest) in
                  slots.(j) <- None;
                  (match runm (msg_dup_o (nsz sz_msg) m) with
                   | Some (rv, Some m'), t -> slots.(j) <- Some m'; out (mobs (int_of_n rv) "-" (Some m')) t
                   | Some (rv, None), t -> out (mobs (int_of_n rv) "-" None) t
                   | None, _ -> print_endline "MODEL-OOB")
              | "unique" ->
                  let shared = List.hd rest = "1" in
                  (match runm (msg_unique_o (nsz sz_msg) m shared) with
                   | Some (Some m'), t -> slots.(i) <- Some m'; out (mobs 0 "-" (Some m')) t
                   | Some None, t -> slots.(i) <- None; out (mobs 2 "-" None) t
                   | None, _ -> print_endline "MODEL-OOB")
              | "pullup" ->
                  let shared = List.hd rest = "1" in
                  (match runm (msg_pull_up_o (nsz sz_msg) true !f_pullup_checked m shared) with
                   | Some (Some m'), t -> slots.(i) <- Some m'; out (mobs 0 "-" (Some m')) t
                   | Some None, t ->
                       (* NULL: the caller (inproc) frees its reference; storage goes only if unshared *)
                       let t2 = if shared then [] else snd (runm (msg_free_o (nsz sz_msg) m)) in
                       slots.(i) <- None; out (mobs 2 "-" None) (t @ t2)
                   | None, _ -> print_endline "MODEL-OOB")
              | _ ->
                (match runm (msg_step_o true m (parse_op name rest)) with
                 | None, _ -> print_endline "MODEL-OOB"
                 | Some ((rv, v), m'), t -> slots.(i) <- Some m'; out (mobs (int_of_n rv) (vstr v) (Some m')) t)))
      | _ -> print_endline "bad line"
    done
  with End_of_file -> ()
