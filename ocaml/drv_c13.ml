(* model: c13-route *)
(* drv_c13.ml: evaluates the extracted Route model (coq/Route/RouteModel.v) on the queries of
   checks/c13.py, one answer line per query line.

     recv <kind> <pid> <ttl> <wire>     kind: xrep rep xresp resp xreq xsurv pair1
                                        -> deliver <hdr> <body> | drop | close | panic
     fwd <fam> <pid> <ttl> <wire>       fam: reqrep survey         (request direction through one device)
                                        -> send <wire> | drop | close
     back <fam> <wire>                  (reply direction through one device) -> send <pid> <wire> | none
     pfwd <ttl> <wire>                  pair1 raw device -> send <wire> | drop | close | stop
     psend <raw 0|1> <hdr> <body>       pair1 sock_send + pipe_send -> wire <wire> | eproto
     bfwd <pid> <wire>                  bus raw device -> send <skip-pid> <wire>
     roundtrip <fam> <tr> <id> <body> <rbody> <pid>:<ttl> ...
                                        -> lostat <i> <forwards> | lostreplier <forwards> | garbage <i> |
                                           replylost | done <reqbody> <backtrace> <p_n,..,p_1> <id> <repbody>
     pchain <wire> <ttl> ...            -> arrive <wire> <forwards> | dropat <i> <forwards> | closeat <i> <forwards>
     loop <reqrep|survey|pair1|bus> <gens> <wire> <ttl> ...
                                        ring of n devices 0 -> 1 -> .. -> n-1 -> 0, message arriving at device 0:
                                        -> forwards <k> alive <m>
   numbers are hex (pid, id) or decimal (ttl, gens); byte strings are hex, "-" = empty. *)
open Nngv_model
open Conv

let fam = function "reqrep" -> reqrep_ops | "survey" -> survey_ops | s -> failwith ("family " ^ s)
let nat s = nat_of_int (int_of_string s)
let hexn s = n_of_hex s
let pr_rres = function
  | RDeliver m -> Printf.sprintf "deliver %s %s" (hex_of_bytes m.pm_hdr) (hex_of_bytes m.pm_body)
  | RDrop -> "drop"
  | RClose -> "close"
let pid_str p = Printf.sprintf "%08x" (int_of_n p)

let answer (t : string list) : string =
  match t with
  | ["recv"; kind; pid; ttl; wire] ->
      let w = bytes_of_hex wire and p = hexn pid and tt = nat ttl in
      (match kind with
       | "xrep" -> (match xrep_recv_h [] p tt w with Some r -> pr_rres r | None -> "panic")
       | "xresp" -> (match xresp_recv_h [] p tt w with Some r -> pr_rres r | None -> "panic")
       | "rep" -> pr_rres (reqrep_ops.f_cooked_recv tt w)
       | "resp" -> pr_rres (survey_ops.f_cooked_recv tt w)
       | "xreq" -> pr_rres (reqrep_ops.f_back_recv w)
       | "xsurv" -> pr_rres (survey_ops.f_back_recv w)
       | "pair1" -> pr_rres (pair1_recv tt w)
       | _ -> "badkind")
  | ["fwd"; f; pid; ttl; wire] ->
      (match dev_request (fam f) { h_pid = hexn pid; h_ttl = nat ttl } (bytes_of_hex wire) with
       | FwdSend w -> "send " ^ hex_of_bytes w
       | FwdDrop -> "drop" | FwdClose -> "close" | FwdStop -> "stop")
  | ["back"; f; wire] ->
      (match dev_reply (fam f) (bytes_of_hex wire) with
       | Some (p, w) -> Printf.sprintf "send %s %s" (pid_str p) (hex_of_bytes w)
       | None -> "none")
  | ["pfwd"; ttl; wire] ->
      (match pair1_dev (nat ttl) (bytes_of_hex wire) with
       | FwdSend w -> "send " ^ hex_of_bytes w
       | FwdDrop -> "drop" | FwdClose -> "close" | FwdStop -> "stop")
  | ["psend"; raw; hdr; body] ->
      (match pair1_send (raw = "1") { pm_hdr = bytes_of_hex hdr; pm_body = bytes_of_hex body } with
       | Some w -> "wire " ^ hex_of_bytes w
       | None -> "eproto")
  | ["bfwd"; pid; wire] ->
      let (skip, w) = bus_dev (hexn pid) (bytes_of_hex wire) in
      Printf.sprintf "send %s %s" (pid_str skip) (hex_of_bytes w)
  | "roundtrip" :: f :: tr :: id :: body :: rbody :: hops ->
      let hs = List.map (fun s -> match String.split_on_char ':' s with
                                  | [p; t] -> { h_pid = hexn p; h_ttl = nat t }
                                  | _ -> failwith "hop") hops in
      (match roundtrip (fam f) hs (nat tr) (hexn id) (bytes_of_hex body) (bytes_of_hex rbody) with
       | RtLostAt (i, fw) -> Printf.sprintf "lostat %d %d" (int_of_nat i) (int_of_nat fw)
       | RtLostAtReplier fw -> Printf.sprintf "lostreplier %d" (int_of_nat fw)
       | RtGarbage i -> Printf.sprintf "garbage %d" (int_of_nat i)
       | RtReplyLost _ -> "replylost"
       | RtDone (rb, bt, routes, id', b') ->
           Printf.sprintf "done %s %s %s %s %s" (hex_of_bytes rb) (hex_of_bytes bt)
             (if routes = [] then "-" else String.concat "," (List.map pid_str routes)) (pid_str id') (hex_of_bytes b'))
  | "pchain" :: wire :: ttls ->
      let (c, tr) = pair1_chain (nat_of_int 1) (List.map nat ttls) (bytes_of_hex wire) in
      let n = List.length tr in
      (match c with
       | CArrive w -> Printf.sprintf "arrive %s %d" (hex_of_bytes w) n
       | CDropAt i -> Printf.sprintf "dropat %d %d" (int_of_nat i) n
       | CCloseAt i -> Printf.sprintf "closeat %d %d" (int_of_nat i) n)
  | "loop" :: kind :: gens :: wire :: ttls ->
      let n = List.length ttls in
      let ta = Array.of_list (List.map nat ttls) in
      let ttl (v : nat) = ta.(int_of_nat v mod n) in
      (* device v's far side is connected to device (v+1) mod n; the pipe there gets id 0x100 + index *)
      let edges (v : nat) = let u = (int_of_nat v + 1) mod n in [ (nat_of_int u, n_of_int (0x100 + u)) ] in
      let fwdf = (match kind with
        | "reqrep" -> fam_forward reqrep_ops ttl
        | "survey" -> fam_forward survey_ops ttl
        | "pair1" -> pair1_forward ttl
        | "bus" -> bus_forward
        | s -> failwith ("loop kind " ^ s)) in
      let live = [ ((nat_of_int 0, n_of_int 0x100), bytes_of_hex wire) ] in
      let g = nat gens in
      Printf.sprintf "forwards %d alive %d" (int_of_nat (flood_forwards fwdf edges g live))
        (List.length (flood fwdf edges g live))
  | _ -> "badquery"

let () =
  try
    while true do
      let line = input_line stdin in
      match split_ws line with
      | [] -> ()
      | w :: _ when w.[0] = '#' -> ()
      | "mark" :: k :: _ -> print_endline ("mark " ^ k)
      | t -> print_endline (try answer t with Failure s -> "error " ^ s | Not_found -> "error notfound" | Invalid_argument s -> "error " ^ s)
    done
  with End_of_file -> ()
