(* model: c16-codec *)
(* drv_codec.ml: runs the extracted C16 models on the script of
   harness/wb_codec.c and prints the same observation lines; lines starting
   with "spec" evaluate the extracted CodecSpec (reference receiver, grammar
   checkers). Hand-written, trusted. *)
open Nngv_model
open Conv

let n_of_string (s : string) : n = n_of_hex (Printf.sprintf "%x" (int_of_string s))
let allocmax : n = n_of_hex "10000000000"   (* 2^40: larger allocations fail (ASan limit / address space) *)

let parse_cuts (s : string) (len : int) : int list =
  if s = "-" then [] else
  List.map (fun x -> min (int_of_string x) len) (List.filter (fun x -> x <> "") (String.split_on_char ',' s))

(* pieces of l cut at the given ascending positions (empty pieces dropped) *)
let pieces (l : 'a list) (cuts : int list) : 'a list list =
  let a = Array.of_list l in
  let len = Array.length a in
  let rec go off cuts acc =
    match cuts with
    | [] -> List.rev (if off < len || acc = [] then (Array.to_list (Array.sub a off (len - off))) :: acc else acc)
    | c :: r -> if c > off then go c r ((Array.to_list (Array.sub a off (c - off))) :: acc) else go off r acc in
  go 0 cuts []

let rec drop k l = if k <= 0 then l else match l with [] -> [] | _ :: r -> drop (k - 1) r
let rec take k l = if k <= 0 then [] else match l with [] -> [] | x :: r -> x :: take (k - 1) r

let hexs l = hex_of_bytes l

(* ------------------------------------------------------------ base64 *)
let do_b64 enc hex cap =
  let d = bytes_of_hex hex in
  let r = if enc then b64_encode d (n_of_string cap) else b64_decode d (n_of_string cap) in
  let name = if enc then "b64e" else "b64d" in
  match r with
  | None -> Printf.printf "%s n=-1\n" name
  | Some o -> Printf.printf "%s n=%d out=%s\n" name (List.length o) (hexs o)

(* ------------------------------------------------------------ chunked *)
let do_chunk maxsz hex cuts =
  let d = bytes_of_hex hex in
  let len = List.length d in
  let segs = (* the C driver feeds one segment per cut, the last up to len, stopping at rv <> EAGAIN *)
    let cs = parse_cuts cuts len @ [len] in
    let rec go off cs acc = match cs with
      | [] -> List.rev acc
      | c :: r -> let seg = if c > off then c - off else 0 in go (off + seg) r (take seg (drop off d) :: acc) in
    go 0 cs [] in
  let cl = ref (chunks_init (n_of_string maxsz) allocmax) in
  let rv = ref 8 and off = ref 0 in
  List.iter (fun seg ->
    if !rv = 8 then begin
      let ((cl', r), n) = chunks_parse !cl seg in
      cl := cl'; rv := int_of_n r;
      Printf.printf "seg rv=%d n=%d\n" !rv (int_of_nat n);
      off := !off + int_of_nat n
    end) segs;
  Printf.printf "chunks rv=%d used=%d total=%s" !rv !off (string_of_int (int_of_n (!cl).cl_total));
  List.iter (fun ch ->
    Printf.printf " %d" (int_of_n ch.c_size);
    if !rv = 0 then Printf.printf ":%s" (hexs (chunk_payload ch))) (!cl).cl_chunks;
  print_newline ()

(* --------------------------------------------------------- HTTP heads *)
let do_head isreq hex cuts =
  let d = bytes_of_hex hex in
  let len = List.length d in
  let cs = parse_cuts cuts len @ [len] in
  let h = ref hconn_init and buf = ref [] and rv = ref 8 and off = ref 0 and get = ref 0 in
  List.iter (fun c ->
    if !rv = 8 then begin
      let seg = if c > !off then c - !off else 0 in
      buf := !buf @ take seg (drop !off d);
      off := !off + seg;
      let ((h', r), rest) =
        if isreq then req_parse c16_REQ_PARSE_KEEPS_ERR !h !buf else res_parse c16_STATUS_STRICT !h !buf in
      h := h'; rv := int_of_n r;
      let n = List.length !buf - List.length rest in
      buf := rest; get := !get + n;
      Printf.printf "p rv=%d n=%d\n" !rv n
    end) cs;
  if (!h).h_unk then print_endline "head unmodelled"
  else begin
    let c = !h in
    let uri = if c.h_uri = [] then [n_of_int 47] else c.h_uri in
    Printf.printf "%s rv=%d used=%d status=%d meth=%s uri=%s vers=%s reason=%s hdrs=%s\n"
      (if isreq then "req" else "res") !rv !get (int_of_n (get_status c)) (hexs c.h_meth) (hexs uri) (hexs c.h_vers)
      (if isreq then "-" else match c.h_reason with Some r -> hexs r | None -> "*")
      (if c.h_hdrs = [] then "-" else
       String.concat "," (List.map (fun (k, v) -> hexs k ^ ":" ^ hexs v) c.h_hdrs))
  end

(* heads read through the model of http_rd_buf (bounded buffer, pieces as they arrive) *)
let do_hhead isreq hex cuts =
  let d = bytes_of_hex hex in
  let ps = pieces d (parse_cuts cuts (List.length d)) in
  let name = if isreq then "hreq" else "hres" in
  let (r, evs) = rd_feed_all c16_RDBUF_PULLUP_FIRST c16_REQ_PARSE_KEEPS_ERR c16_STATUS_STRICT isreq
                   (nat_of_int (int_of_n c16_HTTP_BUFSIZE)) rd_init ps in
  match evs with
  | [] -> Printf.printf "%s rv=- incomplete\n" name
  | HDone (rv, c) :: _ ->
      if c.h_unk then print_endline "head unmodelled" else begin
        let uri = if c.h_uri = [] then [n_of_int 47] else c.h_uri in
        Printf.printf "%s rv=%d status=%d meth=%s uri=%s vers=%s reason=%s hdrs=%s\n"
          name (int_of_n rv) (int_of_n (get_status c)) (hexs c.h_meth) (hexs uri) (hexs c.h_vers)
          (if isreq then "-" else match c.h_reason with Some r -> hexs r | None -> "*")
          (if c.h_hdrs = [] then "-" else
           String.concat "," (List.map (fun (k, v) -> hexs k ^ ":" ^ hexs v) c.h_hdrs))
      end

(* ---------------------------------------------------------- WebSocket *)
let zero_key = [N0; N0; N0; N0]

let print_tx server op payload =
  match ws_encode_control server zero_key op payload with
  | None -> ()
  | Some bytes ->
      let hl = List.length bytes - List.length payload - (if server then 0 else 4) in
      Printf.printf "tx hdr=%s key=%d payload=%s\n" (hexs (take hl bytes)) (if server then 0 else 1) (hexs payload)

let print_tx_frame server (op, final) payload =
  let bytes = ws_encode server zero_key op final payload in
  let hl = List.length bytes - List.length payload - (if server then 0 else 4) in
  Printf.printf "tx hdr=%s key=%d payload=%s\n" (hexs (take hl bytes)) (if server then 0 else 1) (hexs payload)

let do_ws role mode maxframe recvmax recvtext hex cuts =
  let server = role = "s" and isstream = mode = "s" in
  let cfg = { c_server = server; c_isstream = isstream; c_maxframe = n_of_string maxframe;
              c_recvmax = eff_recvmax c16_DIALER_COPIES_RECVMAX server (n_of_string recvmax); c_recv_text = recvtext = "1";
              c_allocmax = allocmax; c_ctl_counts = c16_RECVMAX_COUNTS_CONTROL } in
  let d = bytes_of_hex hex in
  let ps = pieces d (parse_cuts cuts (List.length d)) in
  let st = ref ws_dinit and evs = ref [] in
  List.iter (fun p -> let (s', e) = ws_feed cfg !st p in st := s'; evs := !evs @ e) ps;
  let del = List.filter_map (function EDeliver m -> Some m | _ -> None) !evs in
  if isstream then Printf.printf "rxs %s\n" (hexs (List.concat del))
  else List.iter (fun m -> Printf.printf "rx %s\n" (hexs m)) del;
  List.iter (function ETx (op, p) -> print_tx server op p | _ -> ()) !evs;
  print_endline "end done=1"

let do_wssend role mode fragsize sendtext hex =
  let server = role = "s" and isstream = mode = "s" in
  let d = bytes_of_hex hex in
  let frs = ws_send_frames isstream (sendtext = "1") (eff_fragsize c16_DIALER_COPIES_FRAGSIZE server (n_of_string fragsize)) d in
  let cnt = List.fold_left (fun a ((_, _), p) -> a + List.length p) 0 frs in
  Printf.printf "sent rv=0 n=%d\n" cnt;
  List.iter (fun ((op, fin), p) -> print_tx_frame server (op, fin) p) frs;
  print_tx server (n_of_int 8) [n_of_int 3; n_of_int 232];
  print_endline "end"

(* --------------------------------------------------------------- spec *)
let do_spec = function
  | "ws" :: role :: mode :: maxframe :: recvmax :: recvtext :: _pre :: hex :: _ ->
      let c = { sc_server = role = "s"; sc_isstream = mode = "s"; sc_maxframe = n_of_string maxframe;
                sc_recvmax = n_of_string recvmax; sc_recv_text = recvtext = "1" } in
      let (del, o) = spec_ws_run c (bytes_of_hex hex) in
      if mode = "s" then Printf.printf "spec rxs %s\n" (hexs (List.concat del))
      else List.iter (fun m -> Printf.printf "spec rx %s\n" (hexs m)) del;
      Printf.printf "spec outcome=%s\n" (match o with SOk -> "ok" | SViolation -> "violation" | SClosed -> "closed")
  | "wf" :: role :: hex :: _ ->
      Printf.printf "spec wf=%b\n" (wf_ws_stream_b (role = "s") (bytes_of_hex hex))
  | "head" :: hex :: _ -> Printf.printf "spec head=%b\n" (wf_http_head_b (bytes_of_hex hex))
  | "chunk" :: maxsz :: hex :: _ ->
      (match spec_dechunk_run (n_of_string maxsz) (bytes_of_hex hex) with
       | DBody (cs, rest) ->
           Printf.printf "spec chunk=body rest=%d %s\n" (List.length rest)
             (String.concat " " (List.map (fun c -> string_of_int (List.length c) ^ ":" ^ hexs c) cs))
       | DBad -> print_endline "spec chunk=bad"
       | DMore -> print_endline "spec chunk=more")
  | "b64e" :: hex :: _ -> Printf.printf "spec b64e=%s\n" (hexs (spec_b64_encode (bytes_of_hex hex)))
  | _ -> print_endline "spec ?"

let () =
  try
    while true do
      let line = input_line stdin in
      (match split_ws line with
       | [] -> ()
       | w :: _ when w.[0] = '#' -> ()
       | "mark" :: k :: _ -> print_endline ("mark " ^ k)
       | "b64e" :: hex :: cap :: _ -> do_b64 true hex cap
       | "b64d" :: hex :: cap :: _ -> do_b64 false hex cap
       | "chunk" :: maxsz :: hex :: cuts :: _ -> do_chunk maxsz hex cuts
       | "req" :: hex :: cuts :: _ -> do_head true hex cuts
       | "res" :: hex :: cuts :: _ -> do_head false hex cuts
       | "hreq" :: hex :: cuts :: _ -> do_hhead true hex cuts
       | "hres" :: hex :: cuts :: _ -> do_hhead false hex cuts
       | "ws" :: role :: mode :: maxframe :: recvmax :: recvtext :: _pre :: hex :: cuts :: _ ->
           do_ws role mode maxframe recvmax recvtext hex cuts
       | "wssend" :: role :: mode :: fragsize :: sendtext :: hex :: _ -> do_wssend role mode fragsize sendtext hex
       | "spec" :: rest -> do_spec rest
       | op :: _ -> print_endline ("badcmd " ^ op));
      flush stdout
    done
  with End_of_file -> ()
