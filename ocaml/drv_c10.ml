(* model: c10-close *)
(* drv_c10.ml: Core/CloseModel.v (extracted)
     modeld_c10 explore [pinned|fixed|cur] [name]   exhaustive interleaving search over small scenarios
                                                   (a cross-check of the invariants proved in CloseProofs.v and
                                                    the source of the refuted witnesses; not part of the proof)
     modeld_c10 script                             the script language of harness/wb_close.c (mode script)
     modeld_c10 --flags                            the C10_FX_* flags the model was built with *)
open Nngv_model
open Conv

let cur_fixes = { fx_ephold = c10_FX_EPHOLD; fx_epid = c10_FX_EPID; fx_ctxfini = c10_FX_CTXFINI;
                  fx_lateop = c10_FX_LATEOP; fx_ctxopen = c10_FX_CTXOPEN; fx_ctxmark = c10_FX_CTXMARK }

let ni = nat_of_int
let nn = n_of_int

(* ------------------------------------------------------------------ printing *)
let s_uop = function
  | USockClose -> "sockclose" | UDevClose -> "devclose" | UCtxOpen -> "ctxopen"
  | UCtxClose c -> Printf.sprintf "ctxclose(c%d)" (int_of_nat c)
  | UEpCreate d -> if d then "dialer_create" else "listener_create"
  | UEpClose e -> Printf.sprintf "epclose(e%d)" (int_of_nat e)
  | UEpStart (e, a) -> Printf.sprintf "epstart(e%d,a%d)" (int_of_nat e) (int_of_n a)
  | UPipeClose p -> Printf.sprintf "pipeclose(p%d)" (int_of_nat p)
  | USubmit (k, a, b) -> Printf.sprintf "submit(%s,a%d,%s)" (match k with None -> "s" | Some c -> "c" ^ string_of_int (int_of_nat c)) (int_of_n a) (if b then "blocks" else "now")
  | UGetSock -> "getsock" | UGetCtx c -> Printf.sprintf "getctx(c%d)" (int_of_nat c)
  | UGetEp e -> Printf.sprintf "getep(e%d)" (int_of_nat e) | UGetPipe p -> Printf.sprintf "getpipe(p%d)" (int_of_nat p)

let s_label = function
  | LSpawn u -> "spawn " ^ s_uop u
  | LRun k -> Printf.sprintf "run t%d" (int_of_nat k)
  | LReap -> "reap"
  | LEpCb (e, rv) -> Printf.sprintf "epcb e%d %d" (int_of_nat e) (int_of_n rv)
  | LPipeCb p -> Printf.sprintf "pipecb p%d" (int_of_nat p)
  | LComplete (a, rv) -> Printf.sprintf "complete a%d %d" (int_of_n a) (int_of_n rv)
  | LPipeCreate e -> Printf.sprintf "pipecreate e%d" (int_of_nat e)
  | LPipeOp p -> Printf.sprintf "pipeop p%d" (int_of_nat p)
  | LEpOp e -> Printf.sprintf "epop e%d" (int_of_nat e)
  | LDevStart -> "devstart"

let s_act = function
  | AFind u -> "find:" ^ s_uop u | ARet (u, rv, r) -> Printf.sprintf "ret:%s=%d/%d" (s_uop u) (int_of_n rv) (int_of_nat r)
  | AShutBegin _ -> "shutbegin" | AShutEp -> "shutep" | AShutPipes -> "shutpipes" | AMsgqClose -> "msgqclose"
  | AShutCtxs -> "shutctxs" | AWaitCtxs -> "WAITctxs" | AWaitPipes -> "WAITpipes" | AProtoClose -> "protoclose"
  | ASockClose2 _ -> "sockclose2" | AWaitRefs -> "WAITrefs" | ASockDestroy -> "sockdestroy" | ASockRele -> "sockrele"
  | ACtxOpen1 -> "ctxopen1" | ACtxOpen2 _ -> "ctxopen2" | ACtxClose _ -> "ctxclose" | ACtxRele _ -> "ctxrele" | ACtxDestroy _ -> "ctxdestroy"
  | AEpCreate1 _ -> "epcreate1" | AEpCreate2 _ -> "epcreate2" | AEpClose e -> "epclose" ^ string_of_int (int_of_nat e)
  | AEpTranClose _ -> "eptranclose" | AEpStopWait _ -> "WAITepstop" | AEpClosePipes _ -> "epclosepipes"
  | AEpSockRemove _ -> "epsockremove" | AEpRele _ -> "eprele" | AEpStart _ -> "epstart" | AEpReap _ -> "epreap" | AEpDestroy _ -> "epdestroy"
  | APipeClose _ -> "pipeclose" | APipeRele _ -> "piperele" | APipeTranClose _ -> "pipetranclose" | APipeIdRemove _ -> "pipeidremove"
  | APipeStopWait _ -> "WAITpipestop" | APipeRemove _ -> "piperemove" | ASubmit _ -> "submit"

let s_state (s : st) =
  let b x = if x then "1" else "0" in
  let k = s.sk in
  Printf.sprintf "sock{closing=%s closed=%s dev=%s ref=%d inmap=%s freed=%s pclosed=%s pend=%d shutdone=%s} ctxs=[%s] eps=[%s] pipes=[%s] threads=[%s] reaper=[%s] rq=%d done=[%s] rets=[%s] bad=[%s]"
    (b k.k_closing) (b k.k_closed) (b k.k_device) (int_of_nat k.k_ref) (b k.k_inmap) (b k.k_freed) (b k.k_pclosed) (List.length k.k_pend) (b k.k_shutdone)
    (String.concat ";" (List.map (fun c -> Printf.sprintf "cl=%s ref=%d map=%s list=%s freed=%s pend=%d" (b c.c_closed) (int_of_nat c.c_ref) (b c.c_inmap) (b c.c_onlist) (b c.c_freed) (List.length c.c_pend)) s.ctxs))
    (String.concat ";" (List.map (fun e -> Printf.sprintf "cl=%s ref=%d map=%s list=%s tc=%s st=%s busy=%d rq=%s freed=%s pend=%d" (b e.e_closed) (int_of_nat e.e_ref) (b e.e_inmap) (b e.e_onlist) (b e.e_tranclosed) (b e.e_stopped) (int_of_nat e.e_busy) (b e.e_reapq) (b e.e_freed) (List.length e.e_pend)) s.eps))
    (String.concat ";" (List.map (fun p -> Printf.sprintf "ep=%d cl=%s ref=%d map=%s list=%s tc=%s st=%s busy=%d freed=%s" (int_of_nat p.p_ep) (b p.p_closed) (int_of_nat p.p_ref) (b p.p_inmap) (b p.p_onlist) (b p.p_tranclosed) (b p.p_stopped) (int_of_nat p.p_busy) (b p.p_freed)) s.pipes))
    (String.concat " | " (List.map (fun t -> String.concat "," (List.map s_act t)) s.threads))
    (String.concat "," (List.map s_act s.reaper)) (List.length s.rq)
    (String.concat "," (List.map (fun (a, r) -> Printf.sprintf "a%d:%d" (int_of_n a) (int_of_n r)) s.done0))
    (String.concat "," (List.map (fun ((u, rv), r) -> Printf.sprintf "%s=%d/%d" (s_uop u) (int_of_n rv) (int_of_nat r)) s.rets))
    (String.concat "," (List.map (fun x -> string_of_int (int_of_nat x)) s.bad))

(* ------------------------------------------------------------------ enumeration of enabled internal steps *)
let internal_labels (s : st) : label list =
  List.mapi (fun i _ -> LRun (ni i)) s.threads
  @ [LReap]
  @ List.concat (List.mapi (fun i (e : epst) -> if e.e_tranclosed then [LEpCb (ni i, nn 0)] else []) s.eps)
  @ List.concat (List.mapi (fun i (p : pipest) -> if p.p_tranclosed then [LPipeCb (ni i)] else []) s.pipes)

let enabled fx s = List.filter_map (fun l -> match step fx s l with Some s' -> Some (l, s') | None -> None) (internal_labels s)

let rec settle fx s = match enabled fx s with (_, s') :: _ -> settle fx s' | [] -> s

let active (s : st) = List.exists (fun t -> t <> []) s.threads || s.reaper <> [] || s.rq <> []

(* ------------------------------------------------------------------ properties checked on every state *)
let ret_list (s : st) = List.map (fun ((u, rv), r) -> (u, int_of_n rv, int_of_nat r)) s.rets

let check_state fx (s : st) : string list =
  let errs = ref [] in
  let add m = errs := m :: !errs in
  if s.bad <> [] then add ("bad=" ^ String.concat "," (List.map (fun x -> string_of_int (int_of_nat x)) s.bad));
  let rl = ret_list s in
  let sock_ret role = List.exists (fun (u, rv, r) -> u = USockClose && rv = 0 && r = role) rl in
  if sock_ret 1 || sock_ret 2 then begin
    (* close_handles_invalid *)
    if find_sock s = None then add "handles: socket handle valid after close returned";
    List.iteri (fun i _ -> if find_ctx s (ni i) = None then add (Printf.sprintf "handles: ctx %d valid after socket close returned" i)) s.ctxs;
    List.iteri (fun i _ -> if find_ep s (ni i) = None then add (Printf.sprintf "handles: ep %d valid after socket close returned" i)) s.eps;
    List.iteri (fun i _ -> if find_pipe s (ni i) = None then add (Printf.sprintf "handles: pipe %d valid after socket close returned" i)) s.pipes;
    List.iteri (fun i (c : ctxst) -> if c.c_pend <> [] then add (Printf.sprintf "pending: ctx %d has pending aios after socket close returned" i)) s.ctxs;
    List.iteri (fun i (e : epst) -> if e.e_pend <> [] then add (Printf.sprintf "pending: ep %d has pending aios after socket close returned" i)) s.eps
  end;
  if sock_ret 2 && s.sk.k_pend <> [] then add "pending: socket has pending aios after the destroying close returned";
  if sock_ret 3 && not (sock_ret 1 || sock_ret 2) then begin
    (* a concurrent (third) closer that found s_closing and s_closed set returns at once *)
    List.iteri (fun i _ -> if find_ep s (ni i) = None then add (Printf.sprintf "late-closer: ep %d still valid when a concurrent nng_socket_close returned 0" i)) s.eps;
    List.iteri (fun i _ -> if find_pipe s (ni i) = None then add (Printf.sprintf "late-closer: pipe %d still valid when a concurrent nng_socket_close returned 0" i)) s.pipes
  end;
  List.iter (fun (u, rv, _) -> match u with
    | UCtxClose c when rv = 0 -> if find_ctx s c = None then add "handles: ctx valid after ctx close returned"
    | UEpClose e when rv = 0 -> if find_ep s e = None then add "handles: ep valid after ep close returned"
    | _ -> ()) rl;
  if not (active s) then begin
    (* everything ran to its end: every submitted aio has a result *)
    List.iter (fun a -> if not (List.exists (fun (b, _) -> b = a) s.done0) then add (Printf.sprintf "pending: aio %d never completed" (int_of_n a))) s.subm;
    if s.sk.k_freed then List.iteri (fun i (e : epst) -> if not e.e_freed then add (Printf.sprintf "leak: ep %d not destroyed" i)) s.eps
  end;
  ignore fx;
  !errs

(* ------------------------------------------------------------------ scenarios *)
type scen = { name : string; ph : phase; latch : bool; finic : bool;
              setup : label list;          (* each followed by settling *)
              conc : uop list;             (* spawned together *)
              ext : label list }           (* external events, each may happen once at any time *)

let scens = [
  { name = "sock2"; ph = PhProto; latch = false; finic = false; setup = []; conc = [USockClose; USockClose]; ext = [] };
  { name = "sock3"; ph = PhProto; latch = false; finic = false; setup = [LSpawn (UEpCreate true)]; conc = [USockClose; USockClose; USockClose]; ext = [] };
  { name = "ep_vs_sock"; ph = PhProto; latch = false; finic = false; setup = [LSpawn (UEpCreate true)]; conc = [UEpClose (ni 0); USockClose]; ext = [] };
  { name = "ep2_vs_sock"; ph = PhProto; latch = false; finic = false; setup = [LSpawn (UEpCreate false); LSpawn (UEpCreate true)]; conc = [UEpClose (ni 0); UEpClose (ni 0); USockClose]; ext = [] };
  { name = "epcreate_vs_sock"; ph = PhProto; latch = false; finic = false; setup = []; conc = [UEpCreate true; USockClose]; ext = [] };
  { name = "epcreate_then_use"; ph = PhProto; latch = false; finic = false; setup = []; conc = [UEpCreate true; USockClose]; ext = [LSpawn (UGetEp (ni 0)); LSpawn (UEpClose (ni 0))] };
  { name = "ctx_vs_sock"; ph = PhFini; latch = true; finic = true; setup = [LSpawn UCtxOpen; LSpawn (USubmit (Some (ni 0), nn 1, true))]; conc = [UCtxClose (ni 0); USockClose]; ext = [] };
  { name = "ctx2_vs_sock"; ph = PhFini; latch = true; finic = true; setup = [LSpawn UCtxOpen; LSpawn (USubmit (Some (ni 0), nn 1, true))]; conc = [UCtxClose (ni 0); UCtxClose (ni 0); USockClose]; ext = [] };
  { name = "ctxopen_vs_sock"; ph = PhFini; latch = true; finic = true; setup = []; conc = [UCtxOpen; USockClose]; ext = [] };
  { name = "submit_vs_sock"; ph = PhProto; latch = false; finic = false; setup = []; conc = [USubmit (None, nn 1, true); USockClose]; ext = [] };
  { name = "submit_vs_sock_fini"; ph = PhFini; latch = true; finic = true; setup = []; conc = [USubmit (None, nn 1, true); USockClose]; ext = [] };
  { name = "submit_vs_sock_msgq"; ph = PhMsgq; latch = true; finic = false; setup = []; conc = [USubmit (None, nn 1, true); USockClose]; ext = [] };
  { name = "ctxsubmit_vs_ctxclose"; ph = PhFini; latch = true; finic = true; setup = [LSpawn UCtxOpen]; conc = [USubmit (Some (ni 0), nn 1, true); UCtxClose (ni 0); USockClose]; ext = [] };
  { name = "pipe_sock"; ph = PhProto; latch = false; finic = false; setup = [LSpawn (UEpCreate false); LPipeCreate (ni 0); LPipeOp (ni 0)]; conc = [USockClose]; ext = [LPipeOp (ni 0)] };
  { name = "pipe_vs_sock"; ph = PhProto; latch = false; finic = false; setup = [LSpawn (UEpCreate false); LPipeCreate (ni 0); LPipeOp (ni 0)]; conc = [UPipeClose (ni 0); USockClose]; ext = [] };
  { name = "pipe_ep_sock"; ph = PhProto; latch = false; finic = false; setup = [LSpawn (UEpCreate true); LPipeCreate (ni 0)]; conc = [UPipeClose (ni 0); UEpClose (ni 0); USockClose]; ext = [] };
  { name = "pipecreate_vs_close"; ph = PhProto; latch = false; finic = false; setup = [LSpawn (UEpCreate false)]; conc = [USockClose]; ext = [LPipeCreate (ni 0); LPipeOp (ni 0)] };
  { name = "dial_vs_close"; ph = PhProto; latch = false; finic = false; setup = [LSpawn (UEpCreate true)]; conc = [UEpStart (ni 0, nn 1); USockClose]; ext = [] };
  { name = "dial_vs_epclose"; ph = PhProto; latch = false; finic = false; setup = [LSpawn (UEpCreate true); LSpawn (UEpStart (ni 0, nn 1))]; conc = [UEpClose (ni 0); UEpClose (ni 0)]; ext = [LSpawn USockClose] };
  { name = "device"; ph = PhMsgq; latch = true; finic = false; setup = [LDevStart]; conc = [USockClose; UDevClose]; ext = [] };
  { name = "epcreate2_vs_sock"; ph = PhProto; latch = false; finic = false; setup = []; conc = [UEpCreate true; UEpCreate false; USockClose]; ext = [] };
  { name = "ctxopen_submit"; ph = PhFini; latch = true; finic = true; setup = []; conc = [UCtxOpen; USockClose]; ext = [LSpawn (USubmit (Some (ni 0), nn 1, true)); LSpawn (UCtxClose (ni 0))] };
  { name = "dial_epclose_sock"; ph = PhProto; latch = false; finic = false; setup = [LSpawn (UEpCreate true)]; conc = [UEpStart (ni 0, nn 1); UEpClose (ni 0); USockClose]; ext = [LPipeCreate (ni 0)] };
  { name = "pipes2"; ph = PhProto; latch = false; finic = false; setup = [LSpawn (UEpCreate true); LSpawn (UEpCreate false); LPipeCreate (ni 0); LPipeCreate (ni 1); LPipeOp (ni 0)]; conc = [UEpClose (ni 0); USockClose]; ext = [LPipeCreate (ni 1)] };
  { name = "dev_race"; ph = PhMsgq; latch = true; finic = false; setup = []; conc = [USockClose]; ext = [LDevStart; LSpawn UDevClose; LSpawn USockClose] };
  { name = "reap_requeue"; ph = PhProto; latch = false; finic = false; setup = [LSpawn (UEpCreate true); LPipeCreate (ni 0); LPipeCreate (ni 0)]; conc = [UEpClose (ni 0); UPipeClose (ni 1)]; ext = [LSpawn USockClose; LPipeOp (ni 0)] };
  { name = "get_vs_close"; ph = PhProto; latch = false; finic = false; setup = [LSpawn UCtxOpen; LSpawn (UEpCreate true)]; conc = [UGetSock; UGetCtx (ni 0); UGetEp (ni 0); USockClose]; ext = [] };
]

let explore fx (sc : scen) (maxstates : int) =
  let s0 = List.fold_left (fun s l -> match step fx s l with Some s' -> settle fx s' | None -> failwith ("setup step not enabled: " ^ s_label l)) (init sc.ph sc.latch sc.finic) sc.setup in
  let s0 = List.fold_left (fun s u -> match step fx s (LSpawn u) with Some s' -> s' | None -> failwith ("spawn not enabled: " ^ s_uop u)) s0 sc.conc in
  (* search state: (model state, remaining external events) *)
  let seen = Hashtbl.create 100000 in
  let q = Queue.create () in
  let key (s, ext) = Marshal.to_string (s, ext) [] in
  let parent = Hashtbl.create 100000 in
  let push prev l (st : st * label list) =
    let k = key st in
    if not (Hashtbl.mem seen k) then begin
      Hashtbl.add seen k ();
      Hashtbl.add parent k (prev, l);
      Queue.add (st, k) q
    end in
  push "" (LSpawn USockClose) (s0, sc.ext);
  let nstates = ref 0 and nerr = ref 0 and nfinal = ref 0 and nstuck = ref 0 in
  let firsterr : (string * string) list ref = ref [] in
  let trace k =
    let rec go k acc = match Hashtbl.find_opt parent k with
      | Some ("", _) | None -> acc
      | Some (pk, l) -> go pk (s_label l :: acc) in
    String.concat "; " (go k []) in
  let report cls msg k s =
    incr nerr;
    if not (List.mem_assoc cls !firsterr) then
      firsterr := (cls, Printf.sprintf "%s\n    trace: %s\n    state: %s" msg (trace k) (s_state s)) :: !firsterr in
  while not (Queue.is_empty q) && !nstates < maxstates do
    let ((s, ext), k) = Queue.pop q in
    incr nstates;
    let errs = check_state fx s in
    List.iter (fun m -> report (String.sub m 0 (min 12 (String.length m))) m k s) errs;
    if s.bad = [] then begin
      let en = enabled fx s in
      if en = [] then begin
        if active s then begin incr nstuck; if ext = [] then report "stuck" "no internal step enabled although threads / the reaper still have work (and no external event left)" k s end
        else incr nfinal
      end;
      (* the termination measure of Core/CloseTerm.v must decrease along every internal step *)
      let m3 x = (int_of_nat (phi x), int_of_nat (pS x), int_of_nat (l x)) in
      let (a1, a2, a3) = m3 s in
      List.iter (fun (lb, s') ->
        let (b1, b2, b3) = m3 s' in
        if s'.bad = [] && not (b1 < a1 || (b1 = a1 && (b2 < a2 || (b2 = a2 && b3 < a3)))) then
          report ("measure") (Printf.sprintf "measure does not decrease on %s: (%d,%d,%d) -> (%d,%d,%d)" (s_label lb) a1 a2 a3 b1 b2 b3) k s) en;
      List.iter (fun (l, s') -> push k l (s', ext)) en;
      List.iter (fun l -> match step fx s l with
        | Some s' -> push k l (s', List.filter (fun x -> x != l) ext)
        | None -> ()) ext
    end
  done;
  Printf.printf "scenario %-22s states=%d final=%d stuck-with-ext=%d errors=%d%s\n" sc.name !nstates !nfinal !nstuck !nerr (if Queue.is_empty q then "" else " (TRUNCATED)");
  List.iter (fun (c, m) -> Printf.printf "  [%s] %s\n" c m) (List.rev !firsterr);
  !nerr

(* ------------------------------------------------------------------ script mode (see harness/wb_close.c) *)
let script () =
  let fx = cur_fixes in
  let s = ref (init PhProto false false) in
  let opened = ref false in
  let nctx = ref 0 and nep = ref 0 and npipe = ref 0 in
  let seen_done = ref 0 and seen_rets = ref 0 in
  let overrides : (int * int) list ref = ref [] in
  let do_steps ls = List.iter (fun l -> match step fx !s l with Some s' -> s := settle fx s' | None -> ()) ls in
  let observe rv =
    let all_done = List.map (fun (a, r) -> (int_of_n a, int_of_n r)) !s.done0 in
    let fresh = List.filteri (fun i _ -> i >= !seen_done) all_done in
    seen_done := List.length all_done;
    let fresh = List.map (fun (a, r) -> if r = 0 && List.mem_assoc a !overrides then (a, List.assoc a !overrides) else (a, r)) fresh in
    let fresh = List.sort compare fresh in
    let hv = function None -> "ok" | Some e -> string_of_int (int_of_n e) in
    let hs =
      if not !opened then "-" else
      String.concat "," (("s:" ^ hv (find_sock !s))
        :: List.init !nctx (fun k -> Printf.sprintf "c%d:%s" k (hv (find_ctx !s (ni k))))
        @ List.init !nep (fun k -> Printf.sprintf "ep%d:%s" k (hv (find_ep !s (ni k))))
        @ List.init !npipe (fun k -> Printf.sprintf "p%d:%s" k (hv (find_pipe !s (ni k))))) in
    Printf.printf "rv=%d done=%s h=%s\n" rv
      (if fresh = [] then "-" else String.concat "," (List.map (fun (a, r) -> Printf.sprintf "a%d:%d" a r) fresh)) hs in
  let last_ret () =
    let rl = !s.rets in
    let n = List.length rl in
    if n > !seen_rets then begin
      seen_rets := n;
      let ((_, rv), _) = List.nth rl (n - 1) in int_of_n rv end
    else 0 in
  let idx tok off = int_of_string (String.sub tok off (String.length tok - off)) in
  (try while true do
    let line = input_line stdin in
    let toks = split_ws line in
    (* "+a<i>:<rv>": the protocol completed that operation for reasons of its own during this command *)
    let extra = List.filter (fun x -> String.length x > 1 && x.[0] = '+') toks in
    let toks = List.filter (fun x -> not (String.length x > 1 && x.[0] = '+')) toks in
    let apply_extra () =
      List.iter (fun x ->
        match String.split_on_char ':' (String.sub x 2 (String.length x - 2)) with
        | [a; rv] -> do_steps [LComplete (nn (int_of_string a), nn (int_of_string rv))]
        | _ -> ()) extra in
    let observe rv = apply_extra (); observe rv in
    match toks with
    | [] -> ()
    | "mark" :: k :: _ ->
        Printf.printf "mark %s\n" k;
        s := init PhProto false false; opened := false; nctx := 0; nep := 0; npipe := 0;
        seen_done := 0; seen_rets := 0; overrides := []
    | "open" :: _ :: ph :: latch :: finic :: _ ->
        let ph = (match ph with "0" -> PhMsgq | "1" -> PhProto | _ -> PhFini) in
        s := init ph (latch = "1") (finic = "1"); opened := true;
        observe 0
    | "ctx" :: rest ->
        (match rest with
         | "nosup" :: _ -> observe (match find_sock !s with Some e -> int_of_n e | None -> 9)   (* the protocol has no contexts *)
         | _ ->
           let before = List.length !s.ctxs in
           do_steps [LSpawn UCtxOpen];
           let rv = last_ret () in
           if rv = 0 then incr nctx
           else if List.length !s.ctxs > before then failwith "script: a failed ctx_open left a context behind";
           observe rv)
    | ("dialer" | "listener" as w) :: _ ->
        do_steps [LSpawn (UEpCreate (w = "dialer"))];
        let rv = last_ret () in
        if rv = 0 then incr nep;
        observe rv
    | "conn" :: ep :: _ ->
        let before = List.length !s.pipes in
        do_steps [LPipeCreate (ni (idx ep 2))];
        if List.length !s.pipes > before then begin
          if List.mem "reject" toks then begin
            (* the protocol's pipe_start refused it: nni_pipe_close + nni_pipe_rele by the core *)
            do_steps [LSpawn (UPipeClose (ni before))]; ignore (last_ret ())
          end;
          incr npipe; observe 0 end
        else observe 3
    | ("recv" | "send") :: tgt :: a :: flag :: _ ->
        let ai = idx a 1 in
        let blocks = (flag = "b") in
        if not blocks && String.length flag > 1 then overrides := (ai, int_of_string (String.sub flag 1 (String.length flag - 1))) :: !overrides;
        let k = if tgt = "s" then None else Some (ni (idx tgt 1)) in
        do_steps [LSpawn (USubmit (k, nn ai, blocks))];
        ignore (last_ret ());
        observe 0
    | "close" :: tgt :: _ ->
        let u = if tgt = "s" then USockClose
                else if tgt.[0] = 'c' then UCtxClose (ni (idx tgt 1))
                else if tgt.[0] = 'e' then UEpClose (ni (idx tgt 2))
                else UPipeClose (ni (idx tgt 1)) in
        do_steps [LSpawn u];
        observe (last_ret ())
    | "bufs" :: _ :: rest ->
        (* queue depths do not exist in the model (pending sets are abstract): echo the implementation's return value *)
        let rv = List.fold_left (fun acc x -> if String.length x > 2 && String.sub x 0 2 = "rv" then int_of_string (String.sub x 2 (String.length x - 2)) else acc) 0 rest in
        observe rv
    | "probe" :: _ -> observe 0
    | _ -> observe 3
  done with End_of_file -> ())

let () =
  match Array.to_list Sys.argv with
  | _ :: "script" :: _ -> script ()
  | _ :: "--flags" :: _ ->
      Printf.printf "ephold=%b epid=%b ctxfini=%b lateop=%b ctxopen=%b ctxmark=%b\n" c10_FX_EPHOLD c10_FX_EPID c10_FX_CTXFINI c10_FX_LATEOP c10_FX_CTXOPEN c10_FX_CTXMARK
  | _ :: "explore" :: rest ->
      let fxn, rest = match rest with
        | "pinned" :: r -> fixes_none, r | "fixed" :: r -> fixes_all, r | "cur" :: r -> cur_fixes, r | r -> cur_fixes, r in
      let which = match rest with n :: _ -> Some n | [] -> None in
      let tot = ref 0 in
      List.iter (fun sc -> if which = None || which = Some sc.name then tot := !tot + explore fxn sc 400000) scens;
      Printf.printf "explore-done errors=%d\n" !tot
  | _ -> prerr_endline "usage: modeld_c10 explore [pinned|fixed|cur] [scenario] | script | --flags"; exit 2
