// wb_idmap.c: white-box driver for the id map (C18, src/core/idhash.c).
// Reads an op script on stdin and prints one observation line per op --
// everything observable through nni_id_get/set/remove/alloc/visit/count -- and,
// after every operation that can change the map, a separate "diag ..." line
// with the private state (cap, count, load, thresholds, cursor and for small
// tables every cell as key/skips/val-present).  diag lines are compared only
// as diagnostics; the API-visible lines decide.
//
// ops:  init <lo> <hi> <flags>   flags: 1 = static initializer (NNI_ID_MAP_INITIALIZER),
//                                       2 = random start;  numbers are hex
//       set <k> <v> [fail]       fail = the table allocation, if one is attempted, fails
//       get <k> | remove <k> [fail] | alloc <v> [fail] | visit | count | fini
//       cursor <n>               overwrite m->id_dyn_val (white-box, for determinism)
//       rand <n>                 the value the next nni_random() call returns
//       mark <k> | # comment
//
// White-box devices: the struct is visible through core/nng_impl.h; nni_random
// is defined here (the archive member that defines it is then not linked), so
// the random start of nni_id_alloc is scripted; allocation failure is injected
// through nni_alloc_set.
#include "core/nng_impl.h"
#include "wb_common.h"

struct nni_id_entry {
	uint64_t key;
	uint32_t skips;
	void    *val;
};

static nni_id_map map;
static int        have_map = 0;
static uint32_t   rand_next = 0;
static int        fail_armed = 0;
static unsigned   fail_hits  = 0;

uint32_t
nni_random(void)
{
	return rand_next;
}

static void *
wb_malloc(size_t sz)
{
	if (fail_armed) {
		fail_hits++;
		return NULL;
	}
	return malloc(sz);
}
static void *
wb_calloc(size_t n, size_t sz)
{
	if (fail_armed) {
		fail_hits++;
		return NULL;
	}
	return calloc(n, sz);
}
static void
wb_free(void *p, size_t sz)
{
	(void) sz;
	free(p);
}

static void
diag(void)
{
	printf("diag cap=%u count=%u load=%u min=%u max=%u dyn=%llx reg=%d", map.id_cap, map.id_count,
	    map.id_load, map.id_min_load, map.id_max_load, (unsigned long long) map.id_dyn_val,
	    map.id_registered ? 1 : 0);
	if (map.id_cap <= 64 && map.id_entries != NULL) {
		printf(" cells=");
		for (uint32_t i = 0; i < map.id_cap; i++) {
			printf("%s%llx/%u/%d", i ? "," : "", (unsigned long long) map.id_entries[i].key,
			    map.id_entries[i].skips, map.id_entries[i].val != NULL);
		}
	}
	printf("\n");
}

int
main(void)
{
	char  line[4096];
	char *tok[8];
	nni_alloc_set(wb_malloc, wb_calloc, wb_free);
	while (fgets(line, sizeof(line), stdin) != NULL) {
		int   nt = 0;
		char *sp = NULL;
		for (char *t = strtok_r(line, " \t\n", &sp); t != NULL && nt < 8; t = strtok_r(NULL, " \t\n", &sp)) {
			tok[nt++] = t;
		}
		if (nt == 0) continue;
		const char *op = tok[0];
		if (op[0] == '#') continue;
		if (strcmp(op, "mark") == 0) {
			printf("mark %s\n", tok[1]);
			fflush(stdout);
			continue;
		}
		uint64_t a = nt > 1 ? strtoull(tok[1], NULL, 16) : 0;
		uint64_t b = nt > 2 ? strtoull(tok[2], NULL, 16) : 0;
		int      f = (nt > 1 && strcmp(tok[nt - 1], "fail") == 0);
		if (strcmp(op, "init") == 0) {
			unsigned flags = nt > 3 ? (unsigned) strtoul(tok[3], NULL, 16) : 0;
			if (have_map) {
				nni_id_map_sys_fini();
				nni_id_map_fini(&map);
				have_map = 0;
			}
			if (flags & NNI_ID_FLAG_STATIC) {
				nni_id_map tmp = NNI_ID_MAP_INITIALIZER(a, b, (flags & NNI_ID_FLAG_RANDOM) != 0);
				map            = tmp;
			} else {
				uint64_t lo = a == 0 ? 1 : a;
				uint64_t hi = b == 0 ? 0xffffffffu : b;
				if (!(hi > lo)) { // would violate the documented precondition (NNI_ASSERT)
					printf("init precond\n");
					continue;
				}
				nni_id_map_init(&map, a, b, (flags & NNI_ID_FLAG_RANDOM) != 0);
			}
			have_map = 1;
			printf("init ok\n");
			diag();
			continue;
		}
		if (strcmp(op, "rand") == 0) {
			rand_next = (uint32_t) a;
			printf("rand ok\n");
			continue;
		}
		if (!have_map) {
			printf("nomap\n");
			continue;
		}
		if (strcmp(op, "set") == 0) {
			if (b == 0) {
				printf("set precond\n");
				continue;
			}
			fail_armed = f;
			int rv     = nni_id_set(&map, a, (void *) (uintptr_t) b);
			fail_armed = 0;
			printf("set rv=%d\n", rv);
			diag();
		} else if (strcmp(op, "get") == 0) {
			void *v = nni_id_get(&map, a);
			if (v == NULL) {
				printf("get v=-\n");
			} else {
				printf("get v=%llx\n", (unsigned long long) (uintptr_t) v);
			}
		} else if (strcmp(op, "remove") == 0) {
			fail_armed = f;
			int rv     = nni_id_remove(&map, a);
			fail_armed = 0;
			printf("remove rv=%d\n", rv);
			diag();
		} else if (strcmp(op, "alloc") == 0) {
			uint64_t id = 0;
			if (a == 0) {
				printf("alloc precond\n");
				continue;
			}
			fail_armed = f;
			int rv     = nni_id_alloc(&map, &id, (void *) (uintptr_t) a);
			fail_armed = 0;
			if (rv == 0) {
				printf("alloc rv=0 id=%llx\n", (unsigned long long) id);
			} else {
				printf("alloc rv=%d id=-\n", rv);
			}
			diag();
		} else if (strcmp(op, "visit") == 0) {
			uint32_t cursor = 0;
			uint64_t key;
			void    *val;
			unsigned n = 0;
			printf("visit");
			while (nni_id_visit(&map, &key, &val, &cursor)) {
				printf(" %llx:%llx", (unsigned long long) key, (unsigned long long) (uintptr_t) val);
				if (++n > 1000000) {
					printf(" RUNAWAY");
					break;
				}
			}
			printf("\n");
		} else if (strcmp(op, "count") == 0) {
			printf("count %u\n", nni_id_count(&map));
		} else if (strcmp(op, "cursor") == 0) {
			map.id_dyn_val = a;
			printf("cursor ok\n");
			diag();
		} else if (strcmp(op, "fini") == 0) {
			nni_id_map_fini(&map);
			printf("fini ok\n");
			diag();
		} else {
			printf("badop %s\n", op);
		}
	}
	if (have_map) {
		nni_id_map_sys_fini();
		nni_id_map_fini(&map);
	}
	return 0;
}
