// wb_msg.c: white-box driver for nng_msg (C17).  Reads an op script on stdin,
// prints one observation line per op: rv, value, header bytes, body bytes,
// capacity -- everything observable through the message API.
#include "core/nng_impl.h"
#include "wb_common.h"

static nng_msg *slot[8];

static void
obs(int rv, const char *val, nng_msg *m)
{
	if (m == NULL) {
		printf("rv=%d val=%s none\n", rv, val);
		return;
	}
	printf("rv=%d val=%s hdr=", rv, val);
	puthex(nng_msg_header(m), nng_msg_header_len(m));
	printf(" body=");
	puthex(nng_msg_body(m), nng_msg_len(m));
	printf(" cap=%zu\n", nng_msg_capacity(m));
}

int
main(void)
{
	char  line[1 << 20];
	char *tok[8];
	nng_init(NULL);
	while (fgets(line, sizeof(line), stdin) != NULL) {
		int   nt = 0;
		char *sp = NULL;
		for (char *t = strtok_r(line, " \n", &sp); t != NULL && nt < 8;
		     t       = strtok_r(NULL, " \n", &sp)) {
			tok[nt++] = t;
		}
		if (nt == 0) continue;
		const char *op = tok[0];
		if (op[0] == '#') continue;
		if (strcmp(op, "mark") == 0) {
			printf("mark %s\n", tok[1]);
			continue;
		}
		int         i  = nt > 1 ? atoi(tok[1]) : 0;
		int         rv = 0;
		char        val[40] = "-";
		size_t      len;
		uint8_t    *d;
		if (strcmp(op, "alloc") == 0) {
			if (slot[i]) nng_msg_free(slot[i]);
			slot[i] = NULL;
			rv      = nng_msg_alloc(&slot[i], strtoull(tok[2], NULL, 10));
			obs(rv, val, slot[i]);
			continue;
		}
		if (strcmp(op, "free") == 0) {
			nng_msg_free(slot[i]);
			slot[i] = NULL;
			printf("ok\n");
			continue;
		}
		if (strcmp(op, "dup") == 0) {
			int j = atoi(tok[2]);
			if (slot[j]) nng_msg_free(slot[j]);
			slot[j] = NULL;
			rv      = nng_msg_dup(&slot[j], slot[i]);
			obs(rv, val, slot[j]);
			continue;
		}
		if (slot[i] == NULL) {
			printf("noslot\n");
			continue;
		}
		nng_msg *m = slot[i];
		if (strcmp(op, "pullup") == 0) {
			m       = nni_msg_pull_up(m);
			slot[i] = m;
			obs(m ? 0 : 2, val, m);
			continue;
		}
#define BYTES_OP(name, fn)                         \
	if (strcmp(op, name) == 0) {               \
		d  = unhex(tok[2], &len);          \
		rv = fn(m, d, len);                \
		free(d);                           \
		obs(rv, val, m);                   \
		continue;                          \
	}
#define SIZE_OP(name, fn)                                   \
	if (strcmp(op, name) == 0) {                        \
		rv = fn(m, strtoull(tok[2], NULL, 10));     \
		obs(rv, val, m);                            \
		continue;                                   \
	}
		BYTES_OP("append", nng_msg_append)
		BYTES_OP("insert", nng_msg_insert)
		BYTES_OP("happend", nng_msg_header_append)
		BYTES_OP("hinsert", nng_msg_header_insert)
		SIZE_OP("trim", nng_msg_trim)
		SIZE_OP("chop", nng_msg_chop)
		SIZE_OP("htrim", nng_msg_header_trim)
		SIZE_OP("hchop", nng_msg_header_chop)
		SIZE_OP("realloc", nng_msg_realloc)
		SIZE_OP("reserve", nng_msg_reserve)
		if (strcmp(op, "clear") == 0) {
			nng_msg_clear(m);
			obs(0, val, m);
			continue;
		}
		if (strcmp(op, "hclear") == 0) {
			nng_msg_header_clear(m);
			obs(0, val, m);
			continue;
		}
		int      k = atoi(tok[2]);
		uint64_t v = nt > 3 ? strtoull(tok[3], NULL, 16) : 0;
#define PUT_OP(name, pfx)                                                   \
	if (strcmp(op, name) == 0) {                                        \
		rv = k == 2 ? pfx##_u16(m, (uint16_t) v)                    \
		    : k == 4 ? pfx##_u32(m, (uint32_t) v)                   \
		             : pfx##_u64(m, v);                             \
		obs(rv, val, m);                                            \
		continue;                                                   \
	}
#define GET_OP(name, pfx)                                                   \
	if (strcmp(op, name) == 0) {                                        \
		uint16_t v16 = 0;                                           \
		uint32_t v32 = 0;                                           \
		uint64_t v64 = 0;                                           \
		rv = k == 2 ? pfx##_u16(m, &v16)                            \
		    : k == 4 ? pfx##_u32(m, &v32)                           \
		             : pfx##_u64(m, &v64);                          \
		if (rv == 0)                                                \
			snprintf(val, sizeof(val), "%llx",                  \
			    (unsigned long long) (k == 2         ? v16      \
			            : k == 4 ? v32 : v64));                 \
		obs(rv, val, m);                                            \
		continue;                                                   \
	}
		PUT_OP("appendu", nng_msg_append)
		PUT_OP("insertu", nng_msg_insert)
		PUT_OP("happendu", nng_msg_header_append)
		PUT_OP("hinsertu", nng_msg_header_insert)
		GET_OP("trimu", nng_msg_trim)
		GET_OP("chopu", nng_msg_chop)
		GET_OP("htrimu", nng_msg_header_trim)
		GET_OP("hchopu", nng_msg_header_chop)
		printf("badop %s\n", op);
	}
	for (int i = 0; i < 8; i++) {
		if (slot[i]) nng_msg_free(slot[i]);
	}
	nng_fini();
	return 0;
}
