// wb_c20api.c -- C20 (b): API programs under "fail the k-th allocation" (fault
// enumeration; supports the correspondence and the search for failing inputs, it is not
// proof).  Linked with the ASan/UBSan static library built from /repo.
//
//   wb_c20api <program> <kfrom> <kto>      run the program once per k in [kfrom,kto]
//                                          (k = 0: no failure, counts allocations)
//   wb_c20api <program> cycles <n>         n init/run/fini cycles in one process, no fault
//   wb_c20api --list                       program names
//
// Per k one line:
//   K <k> hit=<0|1> count=<allocations> live=<blocks>/<bytes> badfree=<n> badsize=<n> first=<rv> verdict=<...>
// verdict: OK | BADRV:<rv> | NORECOVER:<rv> | LEAK | BADFREE   (hit=0 and not OK: environment, not a finding)
// A crash / sanitizer report / assertion / hang ends the process; the line "K <k> BEGIN"
// (flushed before the run) names the k, and the stack of the injected failure is printed.
#include <execinfo.h>
#include <pthread.h>
#include <signal.h>
#include <stdatomic.h>
#include <stdbool.h>
#include <stdint.h>
#include <stdio.h>
#include <stdlib.h>
#include <string.h>
#include <unistd.h>

#include <nng/http.h>
#include <nng/nng.h>

// ------------------------------------------------------------------ accounting allocator
#define HSZ 4096
#define OBF 0x5a5a5a5a5a5a5a5aULL // stored pointers are obfuscated so that LeakSanitizer still sees leaks
typedef struct blk {
	uintptr_t   p;
	size_t      sz;
	struct blk *next;
} blk;
static blk            *htab[HSZ];
static pthread_mutex_t hlk = PTHREAD_MUTEX_INITIALIZER;
static atomic_long     g_count;
static long            g_failat;
static atomic_int      g_hit;
static atomic_long     g_live, g_livebytes, g_badfree, g_badsize;
static void           *g_stack[48];
static int             g_nstack;
static int             g_curk = -1;
static const char     *g_prog = "?";

static void
track(void *p, size_t sz)
{
	blk *b = malloc(sizeof(*b));
	b->p   = ((uintptr_t) p) ^ OBF;
	b->sz  = sz;
	size_t h = (((uintptr_t) p) >> 4) % HSZ;
	pthread_mutex_lock(&hlk);
	b->next = htab[h];
	htab[h] = b;
	pthread_mutex_unlock(&hlk);
	atomic_fetch_add(&g_live, 1);
	atomic_fetch_add(&g_livebytes, (long) sz);
}
static bool
inject(void)
{
	long n = atomic_fetch_add(&g_count, 1) + 1;
	if (n == g_failat) {
		g_nstack = backtrace(g_stack, 48);
		atomic_store(&g_hit, 1);
		return true;
	}
	return false;
}
static void *
acct_malloc(size_t sz)
{
	if (inject()) {
		return NULL;
	}
	void *p = malloc(sz);
	if (p != NULL) {
		memset(p, 0xa5, sz); // nni_alloc memory is not zeroed: make reliance on zero visible
		track(p, sz);
	}
	return p;
}
static void *
acct_calloc(size_t n, size_t sz)
{
	if (inject()) {
		return NULL;
	}
	void *p = calloc(n, sz);
	if (p != NULL) {
		track(p, n * sz);
	}
	return p;
}
static void
acct_free(void *p, size_t sz)
{
	if (p == NULL) {
		return;
	}
	size_t h = (((uintptr_t) p) >> 4) % HSZ;
	pthread_mutex_lock(&hlk);
	blk **pp = &htab[h];
	while (*pp != NULL && (*pp)->p != (((uintptr_t) p) ^ OBF)) {
		pp = &(*pp)->next;
	}
	blk *b = *pp;
	if (b != NULL) {
		*pp = b->next;
	}
	pthread_mutex_unlock(&hlk);
	if (b == NULL) {
		atomic_fetch_add(&g_badfree, 1);
		fprintf(stderr, "BADFREE unknown pointer %p size %zu\n", p, sz);
		return; // do not free: not ours
	}
	if (b->sz != sz) {
		atomic_fetch_add(&g_badsize, 1);
		fprintf(stderr, "BADSIZE allocated %zu freed as %zu\n", b->sz, sz);
	}
	atomic_fetch_sub(&g_live, 1);
	atomic_fetch_sub(&g_livebytes, (long) b->sz);
	// poison: data read (or transmitted) after its release shows as wrong bytes even
	// where no sanitizer is watching
	memset(p, 0xdd, b->sz);
	free(b);
	free(p);
}
static void
forget_all(void)
{
	pthread_mutex_lock(&hlk);
	for (int i = 0; i < HSZ; i++) {
		while (htab[i] != NULL) {
			blk *b  = htab[i];
			htab[i] = b->next;
			free(b);
		}
	}
	pthread_mutex_unlock(&hlk);
	atomic_store(&g_live, 0);
	atomic_store(&g_livebytes, 0);
}
static void
dump_live(void)
{
	pthread_mutex_lock(&hlk);
	int n = 0;
	for (int i = 0; i < HSZ; i++) {
		for (blk *b = htab[i]; b != NULL; b = b->next) {
			if (n++ < 12) {
				fprintf(stderr, "LIVE block of %zu bytes\n", b->sz);
			}
		}
	}
	pthread_mutex_unlock(&hlk);
}

static void
print_inject_stack(void)
{
	char hdr[96];
	int  n = snprintf(hdr, sizeof(hdr), "INJECT-STACK prog=%s k=%d frames=%d\n", g_prog, g_curk, g_nstack);
	(void) !write(2, hdr, (size_t) n);
	if (g_nstack > 0) {
		backtrace_symbols_fd(g_stack, g_nstack, 2);
	}
	(void) !write(2, "INJECT-STACK-END\n", 17);
}
// called by the sanitizer runtime (ASan and UBSan share it) when it is about to die
static void
on_sanitizer_death(void)
{
	print_inject_stack();
}
static void
on_signal(int sig)
{
	char b[64];
	int  n = snprintf(b, sizeof(b), "\nK %d %s\n", g_curk, sig == SIGALRM ? "HANG" : (sig == SIGABRT ? "ABORT" : "SIGNAL"));
	(void) !write(1, b, (size_t) n);
	if (sig == SIGABRT) {
		void *here[32];
		int   nh = backtrace(here, 32);
		(void) !write(2, "ABORT-STACK\n", 12);
		backtrace_symbols_fd(here, nh, 2);
		(void) !write(2, "ABORT-STACK-END\n", 16);
	}
	print_inject_stack();
	_exit(sig == SIGALRM ? 97 : 96);
}

extern int  __lsan_do_recoverable_leak_check(void) __attribute__((weak));
extern void __sanitizer_set_death_callback(void (*)(void)) __attribute__((weak));

// ------------------------------------------------------------------ step bookkeeping
enum { K_API = 0, K_XCHG = 1, K_CONN = 2 };
static int         g_debug;
static int         v_kind;      // 0 ok, 1 badrv, 2 norecover
static int         env_rv;      // a step failed although no fault had been injected yet (environment / race)
static char        env_step[64];
static char        v_step[64];
static int         v_rv;
static char        first_step[64];
static int         first_rv;

static bool
allowed(int kind, int rv)
{
	if (rv == NNG_ENOMEM) {
		return true;
	}
	if (kind == K_XCHG) {
		// documented best-effort loss of one message / connection: the
		// exchange times out or sees the connection go away
		return (rv == NNG_ETIMEDOUT || rv == NNG_ECONNRESET || rv == NNG_ECONNSHUT);
	}
	if (kind == K_CONN) {
		// NNG_EPROTO: the peer (in this process) could not allocate its side of a
		// WebSocket connection and answered the upgrade with an HTTP 500 page
		return (rv == NNG_ETIMEDOUT || rv == NNG_ECONNRESET || rv == NNG_ECONNREFUSED ||
		    rv == NNG_ECONNSHUT || rv == NNG_ECONNABORTED || rv == NNG_EPROTO);
	}
	return false;
}
static void
verdict(int kind, const char *step, int rv)
{
	if (v_kind == 0) {
		v_kind = kind;
		snprintf(v_step, sizeof(v_step), "%s", step);
		v_rv = rv;
	}
}
// result of one attempt of a step; returns true if the step succeeded
static bool
note(int kind, const char *step, int rv)
{
	if (rv == 0) {
		return true;
	}
	if (first_step[0] == 0) {
		snprintf(first_step, sizeof(first_step), "%s", step);
		first_rv = rv;
	}
	if (!atomic_load(&g_hit)) {
		// failure without an injected fault: environment (port in use) or an
		// expected race (a publisher drops until the subscriber's pipe is attached)
		if (env_rv == 0) {
			env_rv = rv;
			snprintf(env_step, sizeof(env_step), "%s", step);
		}
	} else if (!allowed(kind, rv)) {
		verdict(1, step, rv);
	}
	return false;
}
// a step that must succeed when repeated (the fault is one-shot): "later calls still behave"
#define TRY(kind, tries, expr)                                         \
	({                                                             \
		int  _rv = 0;                                          \
		bool _ok = false;                                      \
		for (int _i = 0; _i < (tries) && !_ok; _i++) {         \
			_rv = (expr);                                  \
			if (g_debug) {                                 \
				printf("  try %d of %s -> %d\n", _i, #expr, _rv); \
			}                                              \
			_ok = note(kind, #expr, _rv);                  \
			if (!_ok && (kind) != K_API) {                 \
				nng_msleep(20);                        \
			}                                              \
		}                                                      \
		if (!_ok) {                                            \
			verdict(2, #expr, _rv);                        \
		}                                                      \
		_ok;                                                   \
	})
#define API(expr) TRY(K_API, 3, expr)

// ------------------------------------------------------------------ helpers
static char g_url[256];
static int  g_seq;

typedef int (*opener)(nng_socket *);

static bool
set_timeouts(nng_socket s, int ms)
{
	return API(nng_socket_set_ms(s, NNG_OPT_SENDTIMEO, ms)) && API(nng_socket_set_ms(s, NNG_OPT_RECVTIMEO, ms)) &&
	    API(nng_socket_set_ms(s, NNG_OPT_RECONNMINT, 10)) && API(nng_socket_set_ms(s, NNG_OPT_RECONNMAXT, 10));
}

// listen on a scratch address of the transport and leave the dialable URL in g_url
static int
do_listen(nng_socket s, const char *tran, nng_listener *lp)
{
	char url[200];
	int  rv;
	int  port = 0;
	g_seq++;
	if (strcmp(tran, "inproc") == 0) {
		snprintf(url, sizeof(url), "inproc://c20_%d_%d", (int) getpid(), g_seq);
	} else if (strcmp(tran, "ipc") == 0) {
		snprintf(url, sizeof(url), "ipc:///tmp/nngv_c20_%d_%d.ipc", (int) getpid(), g_seq);
	} else if (strcmp(tran, "abstract") == 0) {
		snprintf(url, sizeof(url), "abstract://nngv_c20_%d_%d", (int) getpid(), g_seq);
	} else if (strcmp(tran, "ws") == 0) {
		snprintf(url, sizeof(url), "ws://127.0.0.1:0/c20");
	} else {
		snprintf(url, sizeof(url), "%s://127.0.0.1:0", tran);
	}
	if ((rv = nng_listen(s, url, lp, 0)) != 0) {
		return rv;
	}
	if (strcmp(tran, "tcp") == 0 || strcmp(tran, "ws") == 0 || strcmp(tran, "udp") == 0) {
		if ((rv = nng_listener_get_int(*lp, NNG_OPT_BOUND_PORT, &port)) != 0) {
			nng_listener_close(*lp);
			return rv;
		}
		snprintf(g_url, sizeof(g_url), "%s://127.0.0.1:%d%s", tran, port, strcmp(tran, "ws") == 0 ? "/c20" : "");
	} else {
		snprintf(g_url, sizeof(g_url), "%s", url);
	}
	return 0;
}

static int
send_str(nng_socket s, const char *str)
{
	nng_msg *m;
	int      rv;
	if ((rv = nng_msg_alloc(&m, 0)) != 0) {
		return rv;
	}
	if ((rv = nng_msg_append(m, str, strlen(str) + 1)) != 0) {
		nng_msg_free(m);
		return rv;
	}
	if ((rv = nng_sendmsg(s, m, 0)) != 0) {
		nng_msg_free(m); // ownership stays with the caller on failure
	}
	return rv;
}
static int
recv_str(nng_socket s, const char *want)
{
	nng_msg *m;
	int      rv;
	if ((rv = nng_recvmsg(s, &m, 0)) != 0) {
		return rv;
	}
	if (nng_msg_len(m) != strlen(want) + 1 || strcmp(nng_msg_body(m), want) != 0) {
		rv = -1000; // wrong content: never acceptable
	}
	nng_msg_free(m);
	return rv;
}
// one message a -> b; the unit that is retried
static int
xchg(nng_socket a, nng_socket b, const char *str)
{
	int rv;
	if ((rv = send_str(a, str)) != 0) {
		return rv;
	}
	return recv_str(b, str);
}
// drain stale messages (left over from an exchange that was abandoned half way)
static void
drain(nng_socket s)
{
	nng_msg *m;
	while (nng_recvmsg(s, &m, NNG_FLAG_NONBLOCK) == 0) {
		nng_msg_free(m);
	}
}
static int
xchg_fresh(nng_socket a, nng_socket b, const char *str)
{
	static int n;
	char       buf[64];
	snprintf(buf, sizeof(buf), "%s#%d", str, ++n);
	drain(b);
	return xchg(a, b, buf);
}
static int
rr_once(nng_socket req, nng_socket rep, const char *q)
{
	int rv;
	static int n;
	char       buf[64], ans[80];
	snprintf(buf, sizeof(buf), "%s#%d", q, ++n);
	snprintf(ans, sizeof(ans), "re:%s", buf);
	drain(rep);
	if ((rv = send_str(req, buf)) != 0 || (rv = recv_str(rep, buf)) != 0 || (rv = send_str(rep, ans)) != 0) {
		return rv;
	}
	return recv_str(req, ans);
}

// ------------------------------------------------------------------ programs
// two sockets of a protocol pair over a transport: open, options, listen, dial,
// messages both ways (as the pattern allows), close
typedef struct {
	const char *name;
	opener      a, b;   // a listens, b dials
	int         shape;  // 0 both ways, 1 a->b only, 2 request/reply (b asks a), 3 pubsub (a pub, b sub), 4 survey (a surveys b)
} pattern;

static void
prog_pattern(const pattern *pt, const char *tran)
{
	nng_socket   a = NNG_SOCKET_INITIALIZER, b = NNG_SOCKET_INITIALIZER;
	nng_listener l = NNG_LISTENER_INITIALIZER;
	nng_dialer   d = NNG_DIALER_INITIALIZER;
	bool         oa = false, ob = false;
	int          tmo = strcmp(tran, "inproc") == 0 ? 120 : 250;

	if (!(oa = API(pt->a(&a))) || !(ob = API(pt->b(&b)))) {
		goto done;
	}
	if (!set_timeouts(a, tmo) || !set_timeouts(b, tmo)) {
		goto done;
	}
	if (pt->shape == 3 && !API(nng_sub0_socket_subscribe(b, "", 0))) {
		goto done;
	}
	if (pt->shape == 4 && !API(nng_socket_set_ms(a, NNG_OPT_SURVEYOR_SURVEYTIME, tmo))) {
		goto done;
	}
	if (pt->shape == 2 && !API(nng_socket_set_ms(b, NNG_OPT_REQ_RESENDTIME, NNG_DURATION_INFINITE))) {
		goto done;
	}
	if (!API(do_listen(a, tran, &l))) {
		goto done;
	}
	if (!TRY(K_CONN, 8, nng_dial(b, g_url, &d, 0))) {
		goto done;
	}
	switch (pt->shape) {
	case 0:
		if (!TRY(K_XCHG, 12, xchg_fresh(b, a, "ping")) || !TRY(K_XCHG, 12, xchg_fresh(a, b, "pong"))) {
			goto done;
		}
		break;
	case 1:
		if (!TRY(K_XCHG, 12, xchg_fresh(b, a, "job")) || !TRY(K_XCHG, 12, xchg_fresh(b, a, "job2"))) {
			goto done;
		}
		break;
	case 2:
	case 4:
		if (pt->shape == 2) {
			if (!TRY(K_XCHG, 12, rr_once(b, a, "ask")) || !TRY(K_XCHG, 12, rr_once(b, a, "again"))) {
				goto done;
			}
		} else {
			if (!TRY(K_XCHG, 12, rr_once(a, b, "poll")) || !TRY(K_XCHG, 12, rr_once(a, b, "poll2"))) {
				goto done;
			}
		}
		break;
	case 3:
		// the publisher drops while the subscriber's pipe is not attached yet: retried unit
		if (!TRY(K_XCHG, 40, xchg_fresh(a, b, "news")) || !TRY(K_XCHG, 40, xchg_fresh(a, b, "more"))) {
			goto done;
		}
		break;
	}
done:
	if (ob) {
		API(nng_socket_close(b));
	}
	if (oa) {
		API(nng_socket_close(a));
	}
}

static const pattern patterns[] = {
	{ "pair0", nng_pair0_open, nng_pair0_open, 0 },
	{ "pair1", nng_pair1_open, nng_pair1_open, 0 },
	{ "bus", nng_bus0_open, nng_bus0_open, 0 },
	{ "pipeline", nng_pull0_open, nng_push0_open, 1 },
	{ "reqrep", nng_rep0_open, nng_req0_open, 2 },
	{ "pubsub", nng_pub0_open, nng_sub0_open, 3 },
	{ "survey", nng_surveyor0_open, nng_respondent0_open, 4 },
	{ "rawpair", nng_pair0_open_raw, nng_pair0_open_raw, 0 },
	{ NULL, NULL, NULL, 0 },
};
static const char *trans[] = { "inproc", "tcp", "ipc", "ws", NULL };

// contexts with aios: two REQ contexts against two REP contexts
static int
ctx_rr(nng_ctx cq, nng_ctx cp, nng_aio *aq, nng_aio *ap, const char *q0)
{
	nng_msg   *m;
	int        rv;
	static int attempt;
	char       q[64];
	snprintf(q, sizeof(q), "%s#%d", q0, ++attempt);
	if ((rv = nng_msg_alloc(&m, 0)) != 0) {
		return rv;
	}
	if ((rv = nng_msg_append(m, q, strlen(q) + 1)) != 0) {
		nng_msg_free(m);
		return rv;
	}
	nng_aio_set_msg(aq, m);
	nng_ctx_send(cq, aq);
	nng_aio_wait(aq);
	if ((rv = nng_aio_result(aq)) != 0) {
		if (g_debug) printf("    stage req-send rv=%d\n", rv);
		nng_msg_free(nng_aio_get_msg(aq));
		nng_aio_set_msg(aq, NULL);
		return rv;
	}
	nng_ctx_recv(cp, ap);
	nng_aio_wait(ap);
	if ((rv = nng_aio_result(ap)) != 0) {
		if (g_debug) printf("    stage rep-recv rv=%d\n", rv);
		return rv;
	}
	m = nng_aio_get_msg(ap); // echo it back
	for (int stale = 0; stale < 4 && (nng_msg_len(m) != strlen(q) + 1 || strcmp(nng_msg_body(m), q) != 0); stale++) {
		// a request of an earlier, abandoned attempt (REQ resends it when its pipe
		// comes back): not the one we are waiting for
		nng_msg_free(m);
		nng_aio_set_msg(ap, NULL);
		nng_ctx_recv(cp, ap);
		nng_aio_wait(ap);
		if ((rv = nng_aio_result(ap)) != 0) {
			return rv;
		}
		m = nng_aio_get_msg(ap);
	}
	nng_aio_set_msg(ap, m);
	nng_ctx_send(cp, ap);
	nng_aio_wait(ap);
	if ((rv = nng_aio_result(ap)) != 0) {
		if (g_debug) printf("    stage rep-send rv=%d\n", rv);
		nng_msg_free(nng_aio_get_msg(ap));
		nng_aio_set_msg(ap, NULL);
		return rv;
	}
	nng_ctx_recv(cq, aq);
	nng_aio_wait(aq);
	if ((rv = nng_aio_result(aq)) != 0) {
		if (g_debug) printf("    stage req-recv rv=%d\n", rv);
		return rv;
	}
	m = nng_aio_get_msg(aq);
	nng_aio_set_msg(aq, NULL);
	if (nng_msg_len(m) != strlen(q) + 1 || strcmp(nng_msg_body(m), q) != 0) {
		rv = -1000;
	}
	nng_msg_free(m);
	return rv;
}
static void
prog_ctx(const char *tran)
{
	nng_socket   a = NNG_SOCKET_INITIALIZER, b = NNG_SOCKET_INITIALIZER;
	nng_listener l;
	nng_dialer   d;
	nng_ctx      cq[2], cp[2];
	nng_aio     *aq = NULL, *ap = NULL;
	bool         oa = false, ob = false;
	int          nq = 0, np = 0;
	if (!(oa = API(nng_rep0_open(&a))) || !(ob = API(nng_req0_open(&b)))) {
		goto done;
	}
	if (!API(nng_aio_alloc(&aq, NULL, NULL)) || !API(nng_aio_alloc(&ap, NULL, NULL))) {
		goto done;
	}
	nng_aio_set_timeout(aq, 250);
	nng_aio_set_timeout(ap, 250);
	if (!set_timeouts(a, 250) || !set_timeouts(b, 250)) {
		goto done;
	}
	for (int i = 0; i < 2; i++) {
		if (!API(nng_ctx_open(&cq[nq], b))) {
			goto done;
		}
		nq++;
		if (!API(nng_ctx_open(&cp[np], a))) {
			goto done;
		}
		np++;
	}
	if (!API(nng_ctx_set_ms(cq[0], NNG_OPT_REQ_RESENDTIME, NNG_DURATION_INFINITE))) {
		goto done;
	}
	if (!API(do_listen(a, tran, &l)) || !TRY(K_CONN, 8, nng_dial(b, g_url, &d, 0))) {
		goto done;
	}
	if (!TRY(K_XCHG, 12, ctx_rr(cq[0], cp[0], aq, ap, "c0")) || !TRY(K_XCHG, 12, ctx_rr(cq[1], cp[1], aq, ap, "c1"))) {
		goto done;
	}
done:
	for (int i = 0; i < nq; i++) {
		API(nng_ctx_close(cq[i]));
	}
	for (int i = 0; i < np; i++) {
		API(nng_ctx_close(cp[i]));
	}
	if (ob) {
		API(nng_socket_close(b));
	}
	if (oa) {
		API(nng_socket_close(a));
	}
	if (aq != NULL) {
		nng_aio_free(aq);
	}
	if (ap != NULL) {
		nng_aio_free(ap);
	}
}

// SUB contexts with their own subscriptions, receive-buffer resize, unsubscribe
static void
prog_subctx(const char *tran)
{
	nng_socket   a = NNG_SOCKET_INITIALIZER, b = NNG_SOCKET_INITIALIZER;
	nng_listener l;
	nng_dialer   d;
	nng_ctx      c1;
	bool         oa = false, ob = false, oc = false;
	if (!(oa = API(nng_pub0_open(&a))) || !(ob = API(nng_sub0_open(&b)))) {
		goto done;
	}
	if (!set_timeouts(a, 120) || !set_timeouts(b, 120)) {
		goto done;
	}
	if (!(oc = API(nng_ctx_open(&c1, b)))) {
		goto done;
	}
	if (!API(nng_sub0_socket_subscribe(b, "to", 2)) || !API(nng_sub0_socket_subscribe(b, "topic-long-enough", 17)) ||
	    !API(nng_sub0_ctx_subscribe(c1, "x", 1)) || !API(nng_socket_set_int(b, NNG_OPT_RECVBUF, 300)) ||
	    !API(nng_ctx_set_int(c1, NNG_OPT_RECVBUF, 5))) {
		goto done;
	}
	if (!API(do_listen(a, tran, &l)) || !TRY(K_CONN, 8, nng_dial(b, g_url, &d, 0))) {
		goto done;
	}
	if (!TRY(K_XCHG, 40, xchg_fresh(a, b, "topic")) || !API(nng_sub0_socket_unsubscribe(b, "to", 2)) ||
	    !TRY(K_XCHG, 40, xchg_fresh(a, b, "topic-long-enough"))) {
		goto done;
	}
done:
	if (oc) {
		API(nng_ctx_close(c1));
	}
	if (ob) {
		API(nng_socket_close(b));
	}
	if (oa) {
		API(nng_socket_close(a));
	}
}

// URL handling
static int
url_round(const char *s)
{
	nng_url *u = NULL, *c = NULL;
	int      rv;
	char     buf[600];
	if ((rv = nng_url_parse(&u, s)) != 0) {
		return rv;
	}
	if ((rv = nng_url_clone(&c, u)) != 0) {
		nng_url_free(u);
		return rv;
	}
	nng_url_sprintf(buf, sizeof(buf), c);
	(void) nng_url_scheme(c);
	(void) nng_url_hostname(c);
	(void) nng_url_path(c);
	(void) nng_url_port(c);
	nng_url_free(c);
	nng_url_free(u);
	return 0;
}
static void
prog_url(const char *unused)
{
	(void) unused;
	char longurl[400];
	int  n = snprintf(longurl, sizeof(longurl), "http://user@www.example.com:8080/");
	for (int i = 0; i < 200; i++) {
		longurl[n++] = (char) ('a' + (i % 26));
	}
	snprintf(longurl + n, sizeof(longurl) - (size_t) n, "?q=1#frag");
	API(url_round("tcp://127.0.0.1:4000"));
	API(url_round("ws://[::1]:80/some/../path/%41?x=y#z"));
	API(url_round("ipc:///tmp/some/path.ipc"));
	API(url_round(longurl));
	API(url_round("inproc://name"));
}

// message API
static int
msg_round(void)
{
	nng_msg *m = NULL, *d = NULL;
	int      rv;
	uint32_t v;
	char     big[3000];
	memset(big, 'x', sizeof(big));
	if ((rv = nng_msg_alloc(&m, 10)) != 0) {
		return rv;
	}
	if ((rv = nng_msg_append(m, big, 100)) != 0 || (rv = nng_msg_insert(m, big, 40)) != 0 ||
	    (rv = nng_msg_insert_u32(m, 7)) != 0 || (rv = nng_msg_append(m, big, sizeof(big))) != 0 ||
	    (rv = nng_msg_header_append_u32(m, 9)) != 0 || (rv = nng_msg_realloc(m, 5000)) != 0 ||
	    (rv = nng_msg_reserve(m, 9000)) != 0 || (rv = nng_msg_dup(&d, m)) != 0) {
		nng_msg_free(m);
		return rv;
	}
	if ((rv = nng_msg_trim_u32(d, &v)) != 0 || v != 7 || nng_msg_len(d) != 4996) {
		rv = -1000;
	}
	nng_msg_free(d);
	nng_msg_free(m);
	return rv;
}
static void
prog_msg(const char *unused)
{
	(void) unused;
	API(msg_round());
}

// public id map
static int
idmap_round(void)
{
	nng_id_map *map;
	int         rv;
	uint64_t    id;
	static int  vals[64];
	if ((rv = nng_id_map_alloc(&map, 10, 1000, 0)) != 0) {
		return rv;
	}
	for (int i = 0; i < 40; i++) {
		if ((rv = nng_id_alloc(map, &id, &vals[i])) != 0) {
			goto out;
		}
	}
	for (uint64_t i = 10; i < 45; i++) {
		(void) nng_id_remove(map, i);
	}
	if ((rv = nng_id_set(map, 500, &vals[1])) != 0) {
		goto out;
	}
	if (nng_id_get(map, 500) != &vals[1] || nng_id_get(map, 45) != &vals[35]) {
		rv = -1000;
	}
out:
	nng_id_map_free(map);
	return rv;
}
static void
prog_idmap(const char *unused)
{
	(void) unused;
	API(idmap_round());
}

// options, poll descriptors, buffer resizes
static void
prog_opts(const char *unused)
{
	(void) unused;
	nng_socket s = NNG_SOCKET_INITIALIZER, r = NNG_SOCKET_INITIALIZER, p = NNG_SOCKET_INITIALIZER;
	bool       os = false, orr = false, op = false;
	int        fd;
	if (!(os = API(nng_pair1_open(&s))) || !(orr = API(nng_req0_open_raw(&r))) || !(op = API(nng_push0_open(&p)))) {
		goto done;
	}
	if (!API(nng_socket_set_int(s, NNG_OPT_RECVBUF, 40)) || !API(nng_socket_set_int(s, NNG_OPT_SENDBUF, 33)) ||
	    !API(nng_socket_set_int(r, NNG_OPT_RECVBUF, 64)) || !API(nng_socket_set_int(r, NNG_OPT_SENDBUF, 9)) ||
	    !API(nng_socket_set_int(p, NNG_OPT_SENDBUF, 100)) || !API(nng_socket_get_recv_poll_fd(s, &fd)) ||
	    !API(nng_socket_get_send_poll_fd(s, &fd)) || !API(nng_socket_get_send_poll_fd(p, &fd)) ||
	    !API(nng_socket_get_recv_poll_fd(r, &fd)) || !API(nng_socket_set_size(s, NNG_OPT_RECVMAXSZ, 1000)) ||
	    !API(nng_socket_set_int(s, NNG_OPT_RECVBUF, 3))) {
		goto done;
	}
done:
	if (os) {
		API(nng_socket_close(s));
	}
	if (orr) {
		API(nng_socket_close(r));
	}
	if (op) {
		API(nng_socket_close(p));
	}
}

// endpoints as objects, non-blocking dial, pipe notification, endpoint options
static atomic_int pipe_events;
static void
pipe_cb(nng_pipe p, nng_pipe_ev ev, void *arg)
{
	(void) p;
	(void) ev;
	(void) arg;
	atomic_fetch_add(&pipe_events, 1);
}
static void
prog_endpoints(const char *tran)
{
	nng_socket     a = NNG_SOCKET_INITIALIZER, b = NNG_SOCKET_INITIALIZER;
	nng_listener   l, l2;
	nng_dialer     d;
	const nng_url *u;
	bool           oa = false, ob = false;
	char           url[128];
	if (!(oa = API(nng_pair0_open(&a))) || !(ob = API(nng_pair0_open(&b)))) {
		goto done;
	}
	if (!set_timeouts(a, 250) || !set_timeouts(b, 250)) {
		goto done;
	}
	if (!API(nng_pipe_notify(a, NNG_PIPE_EV_ADD_POST, pipe_cb, NULL)) ||
	    !API(nng_pipe_notify(b, NNG_PIPE_EV_REM_POST, pipe_cb, NULL))) {
		goto done;
	}
	if (!API(do_listen(a, tran, &l))) {
		goto done;
	}
	snprintf(url, sizeof(url), "inproc://c20_second_%d", ++g_seq);
	if (!API(nng_listener_create(&l2, a, url)) || !API(nng_listener_set_size(l2, NNG_OPT_RECVMAXSZ, 100)) ||
	    !API(nng_listener_start(l2, 0)) || !API(nng_listener_get_url(l2, &u)) || !API(nng_listener_close(l2))) {
		goto done;
	}
	if (!API(nng_dialer_create(&d, b, g_url)) || !API(nng_dialer_set_ms(d, NNG_OPT_RECONNMINT, 10)) ||
	    !API(nng_dialer_get_url(d, &u))) {
		goto done;
	}
	if (!TRY(K_CONN, 3, nng_dialer_start(d, NNG_FLAG_NONBLOCK))) {
		goto done;
	}
	if (!TRY(K_XCHG, 20, xchg_fresh(b, a, "hello"))) {
		goto done;
	}
	API(nng_dialer_close(d));
done:
	if (ob) {
		API(nng_socket_close(b));
	}
	if (oa) {
		API(nng_socket_close(a));
	}
}

// statistics snapshot of a socket with a listener, a dialer and a pipe
static void
walk(const nng_stat *st, int depth)
{
	for (; st != NULL; st = nng_stat_next(st)) {
		(void) nng_stat_name(st);
		(void) nng_stat_desc(st);
		(void) nng_stat_value(st);
		if (nng_stat_type(st) == NNG_STAT_STRING) {
			const char *s = nng_stat_string(st);
			if (s != NULL) {
				(void) strlen(s);
			}
		}
		if (depth < 8) {
			walk(nng_stat_child(st), depth + 1);
		}
	}
}
static int
stats_round(void)
{
	nng_stat *st;
	int       rv;
	if ((rv = nng_stats_get(&st)) != 0) {
		return rv;
	}
	walk(st, 0);
	nng_stats_free(st);
	return 0;
}
static void
prog_stats(const char *tran)
{
	nng_socket   a = NNG_SOCKET_INITIALIZER, b = NNG_SOCKET_INITIALIZER;
	nng_listener l;
	nng_dialer   d;
	bool         oa = false, ob = false;
	if (!(oa = API(nng_pair0_open(&a))) || !(ob = API(nng_pair0_open(&b)))) {
		goto done;
	}
	if (!set_timeouts(a, 250) || !set_timeouts(b, 250)) {
		goto done;
	}
	if (!API(do_listen(a, tran, &l)) || !TRY(K_CONN, 8, nng_dial(b, g_url, &d, 0))) {
		goto done;
	}
	if (!TRY(K_XCHG, 12, xchg_fresh(b, a, "s")) || !API(stats_round()) || !API(stats_round())) {
		goto done;
	}
done:
	if (ob) {
		API(nng_socket_close(b));
	}
	if (oa) {
		API(nng_socket_close(a));
	}
}

// HTTP server + client
static const char *doc = "<html><body>C20</body></html>";
static int
http_round(void)
{
	nng_url          *url = NULL;
	nng_aio          *aio = NULL;
	nng_http_server  *srv = NULL;
	nng_http_handler *h   = NULL;
	nng_http_client  *cli = NULL;
	nng_http         *conn = NULL;
	int               rv, port;
	bool              added = false, started = false;
	void             *data;
	size_t            len;

	if ((rv = nng_url_parse(&url, "http://127.0.0.1:0/")) != 0 || (rv = nng_aio_alloc(&aio, NULL, NULL)) != 0 ||
	    (rv = nng_http_server_hold(&srv, url)) != 0 ||
	    (rv = nng_http_handler_alloc_static(&h, "/doc", doc, strlen(doc), "text/html")) != 0) {
		goto out;
	}
	nng_aio_set_timeout(aio, 400);
	if ((rv = nng_http_server_add_handler(srv, h)) != 0) {
		goto out;
	}
	added = true;
	if ((rv = nng_http_server_start(srv)) != 0) {
		goto out;
	}
	started = true;
	if ((rv = nng_http_server_get_port(srv, &port)) != 0) {
		goto out;
	}
	nng_url_resolve_port(url, (uint32_t) port);
	if ((rv = nng_http_client_alloc(&cli, url)) != 0) {
		goto out;
	}
	nng_http_client_connect(cli, aio);
	nng_aio_wait(aio);
	if ((rv = nng_aio_result(aio)) != 0) {
		goto out;
	}
	conn = nng_aio_get_output(aio, 0);
	if ((rv = nng_http_set_uri(conn, "/doc", NULL)) != 0 || (rv = nng_http_set_header(conn, "X-C20", "yes")) != 0) {
		goto out;
	}
	nng_http_transact(conn, aio);
	nng_aio_wait(aio);
	if ((rv = nng_aio_result(aio)) != 0) {
		goto out;
	}
	nng_http_get_body(conn, &data, &len);
	if (nng_http_get_status(conn) != NNG_HTTP_STATUS_OK) {
		// an allocation failure inside the server may legitimately produce a 5xx page
		rv = nng_http_get_status(conn) >= 500 ? NNG_ENOMEM : -1000;
	} else if (len != strlen(doc) || memcmp(data, doc, len) != 0) {
		rv = -1000;
	}
out:
	if (conn != NULL) {
		nng_http_close(conn);
	}
	if (cli != NULL) {
		nng_http_client_free(cli);
	}
	if (started) {
		nng_http_server_stop(srv);
	}
	if (h != NULL && !added) {
		nng_http_handler_free(h);
	}
	if (srv != NULL) {
		nng_http_server_release(srv);
	}
	if (aio != NULL) {
		nng_aio_free(aio);
	}
	if (url != NULL) {
		nng_url_free(url);
	}
	return rv;
}
static void
prog_http(const char *unused)
{
	(void) unused;
	TRY(K_CONN, 4, http_round());
}

// aio: sleep, cancel, timeout, send/recv through aios
static void
prog_aio(const char *tran)
{
	nng_socket   a = NNG_SOCKET_INITIALIZER, b = NNG_SOCKET_INITIALIZER;
	nng_listener l;
	nng_dialer   d;
	nng_aio     *x = NULL, *y = NULL;
	bool         oa = false, ob = false;
	if (!API(nng_aio_alloc(&x, NULL, NULL)) || !API(nng_aio_alloc(&y, NULL, NULL))) {
		goto done;
	}
	nng_sleep_aio(5, x);
	nng_aio_wait(x);
	nng_sleep_aio(5000, y);
	nng_aio_cancel(y);
	nng_aio_wait(y);
	if (nng_aio_result(y) != NNG_ECANCELED || nng_aio_result(x) != 0) {
		verdict(1, "sleep/cancel", nng_aio_result(y));
	}
	if (!(oa = API(nng_pull0_open(&a))) || !(ob = API(nng_push0_open(&b)))) {
		goto done;
	}
	if (!set_timeouts(a, 250) || !set_timeouts(b, 250)) {
		goto done;
	}
	if (!API(do_listen(a, tran, &l)) || !TRY(K_CONN, 8, nng_dial(b, g_url, &d, 0))) {
		goto done;
	}
	nng_aio_set_timeout(x, 30);
	nng_socket_recv(a, x); // nothing to receive: times out
	nng_aio_wait(x);
	if (nng_aio_result(x) != NNG_ETIMEDOUT && nng_aio_result(x) != NNG_ENOMEM) {
		verdict(1, "recv-timeout", nng_aio_result(x));
	}
	if (!TRY(K_XCHG, 12, xchg_fresh(b, a, "w"))) {
		goto done;
	}
done:
	if (ob) {
		API(nng_socket_close(b));
	}
	if (oa) {
		API(nng_socket_close(a));
	}
	if (x != NULL) {
		nng_aio_free(x);
	}
	if (y != NULL) {
		nng_aio_free(y);
	}
}

// ---- messages larger than the WebSocket fragment size (64 KiB): several frames per message.
// The receiver checks the payload byte for byte: a message is delivered intact or not at all.
static uint8_t
big_byte(uint32_t tag, size_t i)
{
	return (uint8_t) ((i * 2654435761u + tag * 97u + (i >> 11)) >> 3);
}
static int
big_send(nng_socket s, uint32_t tag, size_t sz)
{
	nng_msg *m;
	int      rv;
	uint8_t *b;
	if ((rv = nng_msg_alloc(&m, sz)) != 0) {
		return rv;
	}
	b = nng_msg_body(m);
	for (size_t i = 4; i < sz; i++) {
		b[i] = big_byte(tag, i);
	}
	b[0] = (uint8_t) (tag >> 24);
	b[1] = (uint8_t) (tag >> 16);
	b[2] = (uint8_t) (tag >> 8);
	b[3] = (uint8_t) tag;
	if ((rv = nng_sendmsg(s, m, 0)) != 0) {
		nng_msg_free(m);
	}
	return rv;
}
// receives until the message with this tag arrives; messages of earlier, abandoned attempts
// are skipped if they are intact; any message whose content is not what its sender wrote
// is -1001 (never acceptable)
static int
big_recv(nng_socket s, uint32_t tag, size_t sz)
{
	for (int n = 0; n < 8; n++) {
		nng_msg *m;
		int      rv;
		if ((rv = nng_recvmsg(s, &m, 0)) != 0) {
			return rv;
		}
		uint8_t *b   = nng_msg_body(m);
		size_t   len = nng_msg_len(m);
		uint32_t got = len >= 4 ? ((uint32_t) b[0] << 24) | ((uint32_t) b[1] << 16) | ((uint32_t) b[2] << 8) | b[3] : 0;
		int      bad = (len != sz) || got == 0 || got > tag;
		for (size_t i = 4; i < len && !bad; i++) {
			if (b[i] != big_byte(got, i)) {
				if (g_debug) {
					printf("    corrupt byte %zu of %zu: %02x, sent %02x\n", i, len, b[i], big_byte(got, i));
				}
				bad = 1;
			}
		}
		nng_msg_free(m);
		if (bad) {
			return -1001;
		}
		if (got == tag) {
			return 0;
		}
	}
	return NNG_ETIMEDOUT;
}
static uint32_t big_tag;
static int
big_xchg(nng_socket from, nng_socket to, size_t sz)
{
	int      rv;
	uint32_t tag = ++big_tag;
	if ((rv = big_send(from, tag, sz)) != 0) {
		return rv;
	}
	return big_recv(to, tag, sz);
}
static int
big_rr(nng_socket req, nng_socket rep, size_t sz)
{
	int      rv;
	uint32_t tag = ++big_tag;
	if ((rv = big_send(req, tag, sz)) != 0 || (rv = big_recv(rep, tag, sz)) != 0) {
		return rv;
	}
	tag = ++big_tag;
	if ((rv = big_send(rep, tag, sz + 1)) != 0) {
		return rv;
	}
	return big_recv(req, tag, sz + 1);
}
// arg = "<pair0|reqrep>:<size>:<tran>"
static void
prog_big(const char *arg)
{
	nng_socket   a = NNG_SOCKET_INITIALIZER, b = NNG_SOCKET_INITIALIZER;
	nng_listener l;
	nng_dialer   d;
	bool         oa = false, ob = false;
	bool         rr = strncmp(arg, "reqrep", 6) == 0;
	size_t       sz = (size_t) atol(strchr(arg, ':') + 1);
	const char  *tran = strrchr(arg, ':') + 1;
	big_tag = 0;
	if (!(oa = API(rr ? nng_rep0_open(&a) : nng_pair0_open(&a))) || !(ob = API(rr ? nng_req0_open(&b) : nng_pair0_open(&b)))) {
		goto done;
	}
	if (!set_timeouts(a, 400) || !set_timeouts(b, 400)) {
		goto done;
	}
	if (rr && !API(nng_socket_set_ms(b, NNG_OPT_REQ_RESENDTIME, NNG_DURATION_INFINITE))) {
		goto done;
	}
	if (!API(do_listen(a, tran, &l)) || !TRY(K_CONN, 8, nng_dial(b, g_url, &d, 0))) {
		goto done;
	}
	if (rr) {
		if (!TRY(K_XCHG, 10, big_rr(b, a, sz))) {
			goto done;
		}
	} else if (!TRY(K_XCHG, 10, big_xchg(b, a, sz)) || !TRY(K_XCHG, 10, big_xchg(a, b, sz + 3))) {
		goto done;
	}
done:
	if (ob) {
		API(nng_socket_close(b));
	}
	if (oa) {
		API(nng_socket_close(a));
	}
}

// ---- HTTP request URIs longer than the connection's inline buffer (200 bytes): set twice
static int
httpuri_round(void)
{
	nng_url         *url = NULL;
	nng_aio         *aio = NULL;
	nng_http_server *srv = NULL;
	nng_http_client *cli = NULL;
	nng_http        *conn = NULL;
	int              rv, port, first = 0;
	bool             started = false;
	char             u1[400], u2[600];

	memset(u1, 'a', sizeof(u1));
	memset(u2, 'b', sizeof(u2));
	u1[0] = u2[0] = '/';
	u1[sizeof(u1) - 1] = u2[sizeof(u2) - 1] = 0;
	if ((rv = nng_url_parse(&url, "http://127.0.0.1:0/")) != 0 || (rv = nng_aio_alloc(&aio, NULL, NULL)) != 0 ||
	    (rv = nng_http_server_hold(&srv, url)) != 0 || (rv = nng_http_server_start(srv)) != 0) {
		goto out;
	}
	started = true;
	nng_aio_set_timeout(aio, 400);
	if ((rv = nng_http_server_get_port(srv, &port)) != 0) {
		goto out;
	}
	nng_url_resolve_port(url, (uint32_t) port);
	if ((rv = nng_http_client_alloc(&cli, url)) != 0) {
		goto out;
	}
	nng_http_client_connect(cli, aio);
	nng_aio_wait(aio);
	if ((rv = nng_aio_result(aio)) != 0) {
		goto out;
	}
	conn = nng_aio_get_output(aio, 0);
	// every call: success, or NNG_ENOMEM leaving a URI that can still be read; carried on
	// to the end so that a dangling pointer left by a failed call is used afterwards
	for (int i = 0; i < 5; i++) {
		const char *want = (i % 2) ? u2 : u1;
		int         r    = i == 4 ? nng_http_set_uri(conn, "/short", "q=1") : nng_http_set_uri(conn, want, NULL);
		const char *got  = nng_http_get_uri(conn);
		size_t      n    = strlen(got); // reads the whole string
		if (r == 0 && i < 4 && (n != strlen(want) || strcmp(got, want) != 0)) {
			r = -1000;
		}
		if (r != 0 && r != NNG_ENOMEM) {
			rv = r;
			goto out;
		}
		if (r != 0 && first == 0) {
			first = r;
		}
	}
	rv = first;
out:
	if (conn != NULL) {
		nng_http_close(conn);
	}
	if (cli != NULL) {
		nng_http_client_free(cli);
	}
	if (started) {
		nng_http_server_stop(srv);
	}
	if (srv != NULL) {
		nng_http_server_release(srv);
	}
	if (aio != NULL) {
		nng_aio_free(aio);
	}
	if (url != NULL) {
		nng_url_free(url);
	}
	return rv;
}
static void
prog_httpuri(const char *unused)
{
	(void) unused;
	TRY(K_CONN, 4, httpuri_round());
}

// ---- raw sockets and polyamorous PAIR1: their per-pipe state allocates (pipe_init can fail)
static int
raw_recv_expect(nng_socket s, const char *q, nng_msg **mp)
{
	for (int n = 0; n < 6; n++) {
		nng_msg *m;
		int      rv;
		if ((rv = nng_recvmsg(s, &m, 0)) != 0) {
			return rv;
		}
		if (nng_msg_len(m) == strlen(q) + 1 && strcmp(nng_msg_body(m), q) == 0) {
			*mp = m;
			return 0;
		}
		nng_msg_free(m); // of an earlier, abandoned attempt
	}
	return NNG_ETIMEDOUT;
}
static int
send_str_hdr(nng_socket s, const char *str, uint32_t hdr)
{
	nng_msg *m;
	int      rv;
	if ((rv = nng_msg_alloc(&m, 0)) != 0) {
		return rv;
	}
	if ((rv = nng_msg_append(m, str, strlen(str) + 1)) != 0 || (rv = nng_msg_header_append_u32(m, hdr)) != 0 ||
	    (rv = nng_sendmsg(s, m, 0)) != 0) {
		nng_msg_free(m);
	}
	return rv;
}
static int raw_n;
// cooked asker (REQ / SURVEYOR) against a raw answerer that echoes the message, header and all
static int
raw_echo_once(nng_socket ask, nng_socket rawans, const char *q0)
{
	char     q[64];
	nng_msg *m;
	int      rv;
	snprintf(q, sizeof(q), "%s#%d", q0, ++raw_n);
	if ((rv = send_str(ask, q)) != 0 || (rv = raw_recv_expect(rawans, q, &m)) != 0) {
		return rv;
	}
	if ((rv = nng_sendmsg(rawans, m, 0)) != 0) {
		nng_msg_free(m);
		return rv;
	}
	if ((rv = raw_recv_expect(ask, q, &m)) != 0) {
		return rv;
	}
	nng_msg_free(m);
	return 0;
}
// raw asker (the request / survey id in the header is ours) against a cooked answerer
static int
raw_ask_once(nng_socket rawask, nng_socket ans, const char *q0)
{
	char     q[64];
	nng_msg *m;
	int      rv;
	snprintf(q, sizeof(q), "%s#%d", q0, ++raw_n);
	if ((rv = send_str_hdr(rawask, q, 0x80000000u | (uint32_t) raw_n)) != 0 || (rv = raw_recv_expect(ans, q, &m)) != 0) {
		return rv;
	}
	nng_msg_free(m);
	if ((rv = send_str(ans, q)) != 0 || (rv = raw_recv_expect(rawask, q, &m)) != 0) {
		return rv;
	}
	nng_msg_free(m);
	return 0;
}
// arg = "<xrep|xresp|xsurv|xreq|poly>:<tran>"
static void
prog_raw(const char *arg)
{
	nng_socket   a = NNG_SOCKET_INITIALIZER, b = NNG_SOCKET_INITIALIZER;
	nng_listener l;
	nng_dialer   d;
	bool         oa = false, ob = false;
	const char  *tran = strchr(arg, ':') + 1;
	int          kind = strncmp(arg, "xrep", 4) == 0 ? 0 : strncmp(arg, "xresp", 5) == 0 ? 1 : strncmp(arg, "xsurv", 5) == 0 ? 2
	             : strncmp(arg, "xreq", 4) == 0                                                                          ? 3
	                                                                                                                     : 4;
	opener       oa_fn[] = { nng_rep0_open_raw, nng_respondent0_open_raw, nng_surveyor0_open_raw, nng_rep0_open, nng_pair1_open_poly };
	opener       ob_fn[] = { nng_req0_open, nng_surveyor0_open, nng_respondent0_open, nng_req0_open_raw, nng_pair1_open_poly };
	raw_n = 0;
	// a (the side whose per-pipe state is of interest) listens: its pipes are made in the accept path
	if (!(oa = API(oa_fn[kind](&a))) || !(ob = API(ob_fn[kind](&b)))) {
		goto done;
	}
	if (!set_timeouts(a, 250) || !set_timeouts(b, 250)) {
		goto done;
	}
	if (kind == 0 && !API(nng_socket_set_ms(b, NNG_OPT_REQ_RESENDTIME, NNG_DURATION_INFINITE))) {
		goto done;
	}
	if (kind == 1 && !API(nng_socket_set_ms(b, NNG_OPT_SURVEYOR_SURVEYTIME, 250))) {
		goto done;
	}
	if (!API(do_listen(a, tran, &l)) || !TRY(K_CONN, 8, nng_dial(b, g_url, &d, 0))) {
		goto done;
	}
	switch (kind) {
	case 0:
	case 1:
		if (!TRY(K_XCHG, 12, raw_echo_once(b, a, "ask")) || !TRY(K_XCHG, 12, raw_echo_once(b, a, "more"))) {
			goto done;
		}
		break;
	case 2:
		if (!TRY(K_XCHG, 12, raw_ask_once(a, b, "poll")) || !TRY(K_XCHG, 12, raw_ask_once(a, b, "more"))) {
			goto done;
		}
		break;
	case 3:
		if (!TRY(K_XCHG, 12, raw_ask_once(b, a, "ask")) || !TRY(K_XCHG, 12, raw_ask_once(b, a, "more"))) {
			goto done;
		}
		break;
	default:
		if (!TRY(K_XCHG, 12, xchg_fresh(b, a, "ping")) || !TRY(K_XCHG, 12, xchg_fresh(a, b, "pong"))) {
			goto done;
		}
		break;
	}
done:
	if (ob) {
		API(nng_socket_close(b));
	}
	if (oa) {
		API(nng_socket_close(a));
	}
}

// ---- HTTP server error pages: set, replace, set another, then a request that is answered with one
static const char *page404 = "<html><body>C20: no such thing</body></html>";
static int
httperr_round(void)
{
	nng_url         *url = NULL;
	nng_aio         *aio = NULL;
	nng_http_server *srv = NULL;
	nng_http_client *cli = NULL;
	nng_http        *conn = NULL;
	int              rv, port, first = 0;
	bool             started = false;
	void            *data;
	size_t           len;

	if ((rv = nng_url_parse(&url, "http://127.0.0.1:0/")) != 0 || (rv = nng_aio_alloc(&aio, NULL, NULL)) != 0 ||
	    (rv = nng_http_server_hold(&srv, url)) != 0) {
		goto out;
	}
	nng_aio_set_timeout(aio, 400);
	// every call: success or NNG_ENOMEM, and the server stays usable (the calls that follow
	// take the same locks; a lock left held shows as a hang or a panic)
	for (int i = 0; i < 5; i++) {
		int r = nng_http_server_set_error_page(srv, i == 3 ? NNG_HTTP_STATUS_INTERNAL_SERVER_ERROR : NNG_HTTP_STATUS_NOT_FOUND,
		    i == 1 ? "<html>first</html>" : page404);
		if (r != 0 && r != NNG_ENOMEM) {
			rv = r;
			goto out;
		}
		if (r != 0 && first == 0) {
			first = r;
		}
	}
	if ((rv = nng_http_server_start(srv)) != 0) {
		goto out;
	}
	started = true;
	if ((rv = nng_http_server_get_port(srv, &port)) != 0) {
		goto out;
	}
	nng_url_resolve_port(url, (uint32_t) port);
	if ((rv = nng_http_client_alloc(&cli, url)) != 0) {
		goto out;
	}
	nng_http_client_connect(cli, aio);
	nng_aio_wait(aio);
	if ((rv = nng_aio_result(aio)) != 0) {
		goto out;
	}
	conn = nng_aio_get_output(aio, 0);
	if ((rv = nng_http_set_uri(conn, "/no/such/thing", NULL)) != 0) {
		goto out;
	}
	nng_http_transact(conn, aio);
	nng_aio_wait(aio);
	if ((rv = nng_aio_result(aio)) != 0) {
		goto out;
	}
	nng_http_get_body(conn, &data, &len);
	if (nng_http_get_status(conn) >= 500) {
		rv = NNG_ENOMEM; // the server could not build its answer
	} else if (nng_http_get_status(conn) != NNG_HTTP_STATUS_NOT_FOUND) {
		rv = -1000;
	} else if (first == 0 && (len != strlen(page404) || memcmp(data, page404, len) != 0)) {
		// all pages were set, so the custom one must be served -- unless the server could
		// not copy it into this response (best effort: the status line is still right)
		rv = atomic_load(&g_hit) ? NNG_ENOMEM : -1000;
	}
	if (rv == 0) {
		rv = first;
	}
out:
	if (conn != NULL) {
		nng_http_close(conn);
	}
	if (cli != NULL) {
		nng_http_client_free(cli);
	}
	if (started) {
		nng_http_server_stop(srv);
	}
	if (srv != NULL) {
		nng_http_server_release(srv);
	}
	if (aio != NULL) {
		nng_aio_free(aio);
	}
	if (url != NULL) {
		nng_url_free(url);
	}
	return rv;
}
static void
prog_httperr(const char *unused)
{
	(void) unused;
	TRY(K_CONN, 4, httperr_round());
}

// only nng_init / nng_fini (the allocations of library start-up)
static void
prog_init(const char *unused)
{
	(void) unused;
}

typedef struct {
	const char *name;
	void (*fn)(const char *);
	const char *arg;
} program;
static program programs[256];
static int     nprograms;
static char    names[256][40];
static const pattern *pat_of[256];

static void
run_pattern_entry(const char *arg)
{
	// arg = "<index>:<tran>"
	int         idx  = atoi(arg);
	const char *tran = strchr(arg, ':') + 1;
	prog_pattern(pat_of[idx], tran);
}
static char pargs[256][24];
static void
add(const char *name, void (*fn)(const char *), const char *arg)
{
	snprintf(names[nprograms], sizeof(names[0]), "%s", name);
	programs[nprograms].name = names[nprograms];
	programs[nprograms].fn   = fn;
	programs[nprograms].arg  = arg;
	nprograms++;
}
static void
build_table(void)
{
	add("init", prog_init, "");
	add("url", prog_url, "");
	add("msg", prog_msg, "");
	add("idmap", prog_idmap, "");
	add("opts", prog_opts, "");
	add("http", prog_http, "");
	add("httpuri", prog_httpuri, "");
	add("httperr", prog_httperr, "");
	{
		// nng_init/nng_fini with every combination of 1..3 task / expire / poller / resolver threads
		static char inames[81][24], iargs[81][8];
		int         n = 0;
		for (int t = 1; t <= 3; t++)
			for (int e = 1; e <= 3; e++)
				for (int pl = 1; pl <= 3; pl++)
					for (int r = 1; r <= 3; r++, n++) {
						snprintf(inames[n], sizeof(inames[n]), "init:t%de%dp%dr%d", t, e, pl, r);
						snprintf(iargs[n], sizeof(iargs[n]), "%d%d%d%d", t, e, pl, r);
						add(inames[n], prog_init, iargs[n]);
					}
	}
	{
		static const char *rk[]  = { "xrep", "xresp", "xsurv", "xreq", "poly" };
		static const char *rt[]  = { "inproc", "tcp", "ipc" };
		static char        rnames[15][24];
		int                n = 0;
		for (int i = 0; i < 5; i++)
			for (int j = 0; j < 3; j++, n++) {
				snprintf(rnames[n], sizeof(rnames[n]), "%s:%s", rk[i], rt[j]);
				add(rnames[n], prog_raw, rnames[n]);
			}
	}
	add("bigpair70k:ws", prog_big, "pair0:70000:ws");
	add("bigpair200k:ws", prog_big, "pair0:200000:ws");
	add("bigreqrep70k:ws", prog_big, "reqrep:70000:ws");
	add("bigreqrep200k:ws", prog_big, "reqrep:200000:ws");
	add("bigpair200k:tcp", prog_big, "pair0:200000:tcp");
	add("bigpair200k:inproc", prog_big, "pair0:200000:inproc");
	for (int t = 0; trans[t] != NULL; t++) {
		for (int p = 0; patterns[p].name != NULL; p++) {
			char nm[40];
			snprintf(nm, sizeof(nm), "%s:%s", patterns[p].name, trans[t]);
			pat_of[nprograms] = &patterns[p];
			snprintf(pargs[nprograms], sizeof(pargs[0]), "%d:%s", nprograms, trans[t]);
			add(nm, run_pattern_entry, pargs[nprograms]);
		}
		char nm[40];
		snprintf(nm, sizeof(nm), "ctx:%s", trans[t]);
		add(nm, prog_ctx, trans[t]);
		snprintf(nm, sizeof(nm), "subctx:%s", trans[t]);
		add(nm, prog_subctx, trans[t]);
		snprintf(nm, sizeof(nm), "endpoints:%s", trans[t]);
		add(nm, prog_endpoints, trans[t]);
		snprintf(nm, sizeof(nm), "stats:%s", trans[t]);
		add(nm, prog_stats, trans[t]);
		snprintf(nm, sizeof(nm), "aio:%s", trans[t]);
		add(nm, prog_aio, trans[t]);
	}
}

static void
run_one(const program *pg, long k)
{
	nng_init_params prm;
	memset(&prm, 0, sizeof(prm));
	prm.num_task_threads     = 2;
	prm.max_task_threads     = 2;
	prm.num_expire_threads   = 1;
	prm.max_expire_threads   = 1;
	prm.num_poller_threads   = 1;
	prm.max_poller_threads   = 1;
	prm.num_resolver_threads = 1;
	if (pg->fn == prog_init && strlen(pg->arg) == 4) {
		// "init:t<T>e<E>p<P>r<R>": the thread counts of this variant
		prm.num_task_threads = prm.max_task_threads = (int16_t) (pg->arg[0] - '0');
		prm.num_expire_threads = prm.max_expire_threads = (int16_t) (pg->arg[1] - '0');
		prm.num_poller_threads = prm.max_poller_threads = (int16_t) (pg->arg[2] - '0');
		prm.num_resolver_threads                        = (int16_t) (pg->arg[3] - '0');
	}
	prm.malloc_fn            = acct_malloc;
	prm.calloc_fn            = acct_calloc;
	prm.free_fn              = acct_free;

	g_curk = (int) k;
	atomic_store(&g_count, 0);
	atomic_store(&g_hit, 0);
	atomic_store(&g_badfree, 0);
	atomic_store(&g_badsize, 0);
	g_nstack      = 0;
	bool whole    = (pg->fn == prog_init); // only "init" injects into nng_init itself
	g_failat      = whole ? k : 0;
	v_kind        = 0;
	env_rv        = 0;
	v_step[0]     = 0;
	first_step[0] = 0;
	first_rv      = 0;
	printf("K %ld BEGIN\n", k);
	fflush(stdout);
	alarm(25);
	int rv = nng_init(&prm);
	if (rv == 0) {
		nng_log_set_logger(nng_null_logger);
		if (!whole) {
			// k counts the allocations made after nng_init has returned
			atomic_store(&g_count, 0);
			g_failat = k;
		}
		pg->fn(pg->arg);
		nng_fini();
	} else {
		note(K_API, "nng_init", rv);
	}
	alarm(0);
	g_failat    = 0; // no injection outside the run
	long count  = atomic_load(&g_count);
	long live   = atomic_load(&g_live);
	long bytes  = atomic_load(&g_livebytes);
	long badfr  = atomic_load(&g_badfree);
	char vb[128];
	if (v_kind == 1) {
		snprintf(vb, sizeof(vb), "BADRV:%d", v_rv);
	} else if (v_kind == 2) {
		snprintf(vb, sizeof(vb), "NORECOVER:%d", v_rv);
	} else if (badfr != 0) {
		snprintf(vb, sizeof(vb), "BADFREE");
	} else if (live != 0) {
		snprintf(vb, sizeof(vb), "LEAK");
	} else {
		snprintf(vb, sizeof(vb), "OK");
	}
	printf("K %ld hit=%d count=%ld live=%ld/%ld badfree=%ld badsize=%ld first=%d verdict=%s\n", k, atomic_load(&g_hit), count,
	    live, bytes, badfr, atomic_load(&g_badsize), first_rv, vb);
	if (first_step[0]) {
		printf("  first-failing-step: %s\n", first_step);
	}
	if (env_rv != 0) {
		printf("  failed-before-any-fault: %s rv=%d\n", env_step, env_rv);
	}
	if (v_kind == 1 || v_kind == 2) {
		printf("  verdict-step: %s\n", v_step);
	}
	fflush(stdout);
	if (strcmp(vb, "OK") != 0 && strncmp(vb, "ENV", 3) != 0) {
		print_inject_stack();
		if (live != 0) {
			dump_live();
			if (__lsan_do_recoverable_leak_check) {
				__lsan_do_recoverable_leak_check();
			}
		}
	}
	forget_all();
}

int
main(int argc, char **argv)
{
	build_table();
	if (argc >= 2 && strcmp(argv[1], "--list") == 0) {
		for (int i = 0; i < nprograms; i++) {
			puts(programs[i].name);
		}
		return 0;
	}
	if (argc < 4) {
		fprintf(stderr, "usage: wb_c20api <program> <kfrom> <kto>\n");
		return 2;
	}
	const program *pg = NULL;
	for (int i = 0; i < nprograms; i++) {
		if (strcmp(programs[i].name, argv[1]) == 0) {
			pg = &programs[i];
		}
	}
	if (pg == NULL) {
		fprintf(stderr, "unknown program %s\n", argv[1]);
		return 2;
	}
	g_prog = pg->name;
	setvbuf(stdout, NULL, _IOLBF, 0);
	g_debug = getenv("C20_DEBUG") != NULL;
	if (__sanitizer_set_death_callback) {
		__sanitizer_set_death_callback(on_sanitizer_death);
	}
	signal(SIGALRM, on_signal);
	signal(SIGABRT, on_signal);
	signal(SIGPIPE, SIG_IGN);
	if (strcmp(argv[2], "cycles") == 0) {
		// several init/fini cycles in this one process, no fault
		for (int c = 0; c < atoi(argv[3]); c++) {
			run_one(pg, 0);
		}
		return 0;
	}
	long kfrom = atol(argv[2]), kto = atol(argv[3]);
	int  misses = 0;
	for (long k = kfrom; k <= kto; k++) {
		run_one(pg, k);
		if (k > 0 && !atomic_load(&g_hit)) {
			if (++misses >= 3) {
				printf("PAST-END %ld\n", k);
				break;
			}
		} else {
			misses = 0;
		}
	}
	return 0;
}
