// wb_device.c: driver of the C13 check (devices, backtraces, hop limits).
//
// Two kinds of commands, one observation line each:
//
// 1. script commands on the deterministic transport of vtran.h (as wb_proto.c, plus devices and
//    links).  Every socket listens on telnet://s<k>; pipes are created / fed / drained by the
//    harness.  REAL nng_device instances (nng_device_aio) run between the sockets named.
//      open s<k> <proto> | close s<k> | setopt s<k> <name> int|ms <v>
//      conn s<k> <peer-proto>          -> pipe=p<n>:<pipe id hex>
//      inject p<n> <hex> | sent p<n> [rv] | drop p<n>
//      sendnb|send s<k> <hdrhex> <bodyhex> | recvnb s<k>   (got=<hdr>/<body>)
//      device d<k> s<i> s<j>|-         nng_device_aio (reflector with "-")
//      devstop d<k>                    cancel and wait; rv = the device's result
//      link p<a> p<b>                  the two pipes are the two ends of one connection
//      pump <max>                      move pending sends across the links (one at a time, library
//                                      quiescent after each) until nothing is pending or <max> moves
//                                      were made; the moves are listed: moves=p<a>>p<b>:<wire hex>,...
//      poll | mark <k>
//    observation: [got=<hdr>/<body> ]rv=<n>[ pipe=p<n>:<id>][ moves=...] done=- pipes=p<n>:<o|c|g>:t<#tx>:<hdr/body|->:r<#rx>i<#inbox>,...
//
// 2. whole scenarios over inproc with real dialers/listeners, several concurrent requesters, real
//    devices; decided by library quiescence (hook H2q), never by a timeout:
//      ichain <fam> <ttls|-> <tr> <nreq> <nrep> <rawreq> <rawrep> <rounds> [late]
//         (late = 1: every NNG_OPT_MAXTTL first gets another value and its real one only after all peers are connected)
//         fam reqrep|survey: nreq requesters/surveyors -> device 1 .. device n (front socket ttl t_i)
//                            -> nrep repliers/respondents (ttl tr)
//         fam pair1: one cooked sender (ttl nreq!) -> n raw devices (both sockets ttl t_i) -> one receiver (ttl tr)
//      -> ichain rv=<n> sent=<k> delivered=<k> hdrmin=<w> hdrmax=<w> hdrbad=<k> replies=<k> noreply=<k> wrong=<k> late=<k> extra=<k> hops=<list>
#define _GNU_SOURCE
#include <sched.h>
#include <time.h>

#include "vtran.h"
#include "wb_common.h"

#define NSOCK 48
#define NDEV 24
#define NLINK 64

static nng_socket socks[NSOCK];
static int        sock_open[NSOCK];
static vt_ep     *sock_ep[NSOCK];
static nng_aio   *devs[NDEV];
static int        dev_s1[NDEV], dev_s2[NDEV];
static int        link_a[NLINK], link_b[NLINK], nlinks;
static int        icase;

struct {
	const char *name;
	int (*open)(nng_socket *);
} protos[] = {
	{ "req0", nng_req0_open }, { "req0_raw", nng_req0_open_raw }, { "rep0", nng_rep0_open },
	{ "rep0_raw", nng_rep0_open_raw }, { "surveyor0", nng_surveyor0_open },
	{ "surveyor0_raw", nng_surveyor0_open_raw }, { "respondent0", nng_respondent0_open },
	{ "respondent0_raw", nng_respondent0_open_raw }, { "pair1", nng_pair1_open },
	{ "pair1_raw", nng_pair1_open_raw }, { "bus0", nng_bus0_open }, { "bus0_raw", nng_bus0_open_raw },
	{ "pair0", nng_pair0_open }, { "pair0_raw", nng_pair0_open_raw }, { NULL, NULL },
};

static int
open_proto(const char *name, nng_socket *s)
{
	for (int i = 0; protos[i].name != NULL; i++)
		if (strcmp(protos[i].name, name) == 0) return protos[i].open(s);
	return NNG_ENOTSUP;
}

static void
print_msg(nng_msg *m)
{
	puthex(nng_msg_header(m), nng_msg_header_len(m));
	putchar('/');
	puthex(nng_msg_body(m), nng_msg_len(m));
}

static void
observe(int rv, const char *extra, const char *moves)
{
	int q = vt_quiesce();
	printf("rv=%d%s%s", rv, extra ? " " : "", extra ? extra : "");
	if (q != 0) printf(" NOT-QUIESCENT");
	if (moves != NULL) printf(" moves=%s", moves[0] ? moves : "-");
	printf(" done=- pipes=");
	int first = 1;
	nni_mtx_lock(&vt_mtx);
	for (int i = 0; i < vt_npipes; i++) {
		vt_pipe *p = vt_pipes[i];
		printf("%sp%d:", first ? "" : ",", i);
		first = 0;
		if (p == NULL || vt_pipe_state[i] == 3) {
			printf("g");
			continue;
		}
		printf("%c:", p->closed ? 'c' : 'o');
		nni_aio *a;
		int      ntx = 0, nrx = 0, nin = 0;
		NNI_LIST_FOREACH (&p->sendq, a) ntx++;
		NNI_LIST_FOREACH (&p->recvq, a) nrx++;
		for (vt_buf *b = p->in_head; b != NULL; b = b->next) nin++;
		printf("t%d:", ntx);
		if ((a = nni_list_first(&p->sendq)) != NULL) {
			print_msg(nni_aio_get_msg(a));
		} else {
			printf("-");
		}
		printf(":r%di%d", nrx, nin);
	}
	nni_mtx_unlock(&vt_mtx);
	if (first) printf("-");
	printf("\n");
	fflush(stdout);
}

// take the oldest pending send of pipe a (completing it), returning its wire bytes (header ++ body)
static uint8_t *
take_send(int a, size_t *len)
{
	vt_pipe *p;
	nni_aio *aio;
	uint8_t *w = NULL;
	nni_mtx_lock(&vt_mtx);
	if (a >= 0 && a < vt_npipes && (p = vt_pipes[a]) != NULL && (aio = nni_list_first(&p->sendq)) != NULL) {
		nni_msg *m  = nni_aio_get_msg(aio);
		size_t   hl = nni_msg_header_len(m), bl = nni_msg_len(m);
		w           = malloc(hl + bl + 1);
		memcpy(w, nni_msg_header(m), hl);
		memcpy(w + hl, nni_msg_body(m), bl);
		*len = hl + bl;
		nni_aio_list_remove(aio);
		nni_aio_set_msg(aio, NULL);
		nni_msg_free(m);
		nni_aio_finish(aio, 0, bl);
	}
	nni_mtx_unlock(&vt_mtx);
	return w;
}

static int
has_send(int a)
{
	int r = 0;
	nni_mtx_lock(&vt_mtx);
	if (a >= 0 && a < vt_npipes && vt_pipes[a] != NULL && vt_pipe_state[a] != 3 &&
	    nni_list_first(&vt_pipes[a]->sendq) != NULL)
		r = 1;
	nni_mtx_unlock(&vt_mtx);
	return r;
}

static void
stop_dev(int k, int *rvp)
{
	if (devs[k] == NULL) return;
	nng_aio_cancel(devs[k]);
	nng_aio_wait(devs[k]);
	if (rvp != NULL) *rvp = nng_aio_result(devs[k]);
	nng_aio_free(devs[k]);
	devs[k] = NULL;
	// the device closed its sockets
	if (dev_s1[k] >= 0) sock_open[dev_s1[k]] = 0, sock_ep[dev_s1[k]] = NULL;
	if (dev_s2[k] >= 0) sock_open[dev_s2[k]] = 0, sock_ep[dev_s2[k]] = NULL;
}

static void
reset_all(void)
{
	for (int k = 0; k < NDEV; k++) stop_dev(k, NULL);
	for (int s = 0; s < NSOCK; s++) {
		if (sock_open[s]) nng_socket_close(socks[s]);
		sock_open[s] = 0;
		sock_ep[s]   = NULL;
	}
	vt_quiesce();
	nni_mtx_lock(&vt_mtx);
	vt_npipes = 0;
	nni_mtx_unlock(&vt_mtx);
	nlinks = 0;
}

// ------------------------------------------------------------------ inproc scenarios
#define MAXCH 20
#define MAXREQ 8
#define MAXREP 4

static int
set_ttl(nng_socket s, int ttl)
{
	return nng_socket_set_int(s, NNG_OPT_MAXTTL, ttl);
}

static int
is_pid_word(const uint8_t *p)
{
	return (p[0] & 0x80) == 0;
}

static void
cmd_ichain(char **tok, int nt)
{
	// ichain <fam> <ttls|-> <tr> <nreq> <nrep> <rawreq> <rawrep> <rounds>
	const char *fam = tok[1];
	int         ttls[MAXCH], n = 0;
	int         tr = atoi(tok[3]), nreq = atoi(tok[4]), nrep = atoi(tok[5]);
	int         rawreq = atoi(tok[6]), rawrep = atoi(tok[7]), rounds = atoi(tok[8]);
	int         pair = strcmp(fam, "pair1") == 0, surv = strcmp(fam, "survey") == 0;
	int         sender_ttl = nreq;
	int         lateopt = nt > 9 ? atoi(tok[9]) : 0; // 1: NNG_OPT_MAXTTL gets its value only AFTER all peers are connected
#define ALT(t) (lateopt ? ((t) == 8 ? 15 : 16 - (t)) : (t))
	nng_socket  front[MAXCH], back[MAXCH], req[MAXREQ], rep[MAXREP];
	nng_aio    *daio[MAXCH];
	char        url[64];
	int         rv = 0, sent = 0, delivered = 0, hdrmin = 99, hdrmax = 0, hdrbad = 0, replies = 0, noreply = 0,
	    wrong = 0, extra = 0, late = 0;
	char hops[256];
	hops[0] = 0;
	if (strcmp(tok[2], "-") != 0) {
		char *sp = NULL, *c = strdup(tok[2]);
		for (char *t = strtok_r(c, ",", &sp); t != NULL && n < MAXCH; t = strtok_r(NULL, ",", &sp))
			ttls[n++] = atoi(t);
		free(c);
	}
	if (pair) nreq = nrep = 1;
	if (nreq > MAXREQ) nreq = MAXREQ;
	if (nrep > MAXREP) nrep = MAXREP;
	icase++;
	const char *front_p = pair ? "pair1_raw" : surv ? "respondent0_raw" : "rep0_raw";
	const char *back_p  = pair ? "pair1_raw" : surv ? "surveyor0_raw" : "req0_raw";
	const char *rep_p = pair ? "pair1" : surv ? (rawrep ? "respondent0_raw" : "respondent0") : (rawrep ? "rep0_raw" : "rep0");
	const char *req_p = pair ? "pair1" : surv ? (rawreq ? "surveyor0_raw" : "surveyor0") : (rawreq ? "req0_raw" : "req0");
#define CK(x)                                  \
	do {                                   \
		int r_ = (x);                  \
		if (r_ != 0 && rv == 0) rv = r_; \
	} while (0)
	// repliers listen at the far end
	snprintf(url, sizeof(url), "inproc://c13-%d-%d", icase, n + 1);
	for (int j = 0; j < nrep; j++) {
		CK(open_proto(rep_p, &rep[j]));
		CK(set_ttl(rep[j], ALT(tr)));
		if (j == 0) {
			CK(nng_listen(rep[j], url, NULL, 0));
		}
	}
	// with several repliers the last device's back socket must reach all of them: they each listen
	// on their own URL and the back socket dials each
	for (int j = 1; j < nrep; j++) {
		snprintf(url, sizeof(url), "inproc://c13-%d-%d-r%d", icase, n + 1, j);
		CK(nng_listen(rep[j], url, NULL, 0));
	}
	for (int i = n; i >= 1; i--) {
		CK(open_proto(front_p, &front[i]));
		CK(open_proto(back_p, &back[i]));
		CK(set_ttl(front[i], ALT(ttls[i - 1])));
		if (pair) CK(set_ttl(back[i], ALT(ttls[i - 1])));
		snprintf(url, sizeof(url), "inproc://c13-%d-%d", icase, i);
		CK(nng_listen(front[i], url, NULL, 0));
		snprintf(url, sizeof(url), "inproc://c13-%d-%d", icase, i + 1);
		CK(nng_dial(back[i], url, NULL, 0));
		if (i == n) {
			for (int j = 1; j < nrep; j++) {
				snprintf(url, sizeof(url), "inproc://c13-%d-%d-r%d", icase, n + 1, j);
				CK(nng_dial(back[i], url, NULL, 0));
			}
		}
	}
	snprintf(url, sizeof(url), "inproc://c13-%d-%d", icase, 1);
	for (int j = 0; j < nreq; j++) {
		CK(open_proto(req_p, &req[j]));
		if (pair) CK(set_ttl(req[j], ALT(sender_ttl)));
		if (!pair && !surv && !rawreq) CK(nng_socket_set_ms(req[j], NNG_OPT_REQ_RESENDTIME, NNG_DURATION_INFINITE));
		if (surv && !rawreq) CK(nng_socket_set_ms(req[j], NNG_OPT_SURVEYOR_SURVEYTIME, 3600000));
		CK(nng_socket_set_ms(req[j], NNG_OPT_SENDTIMEO, 10000));
		CK(nng_dial(req[j], url, NULL, 0));
		if (n == 0) {
			for (int k = 1; k < nrep; k++) {
				char u2[64];
				snprintf(u2, sizeof(u2), "inproc://c13-%d-%d-r%d", icase, n + 1, k);
				CK(nng_dial(req[j], u2, NULL, 0));
			}
		}
	}
	for (int j = 0; j < nrep; j++) CK(nng_socket_set_ms(rep[j], NNG_OPT_SENDTIMEO, 10000));
	if (vt_quiesce() != 0 && rv == 0) rv = -1;
	// everybody is connected: the hop limits get their values (again), then the devices start
	for (int j = 0; j < nrep; j++) CK(set_ttl(rep[j], tr));
	if (pair) CK(set_ttl(req[0], sender_ttl));
	for (int i = n; i >= 1; i--) {
		CK(set_ttl(front[i], ttls[i - 1]));
		if (pair) CK(set_ttl(back[i], ttls[i - 1]));
		CK(nng_aio_alloc(&daio[i], NULL, NULL));
		nng_device_aio(daio[i], front[i], back[i]);
	}
	if (vt_quiesce() != 0 && rv == 0) rv = -1;

	for (int r = 0; r < rounds && rv == 0; r++) {
		// every requester sends before anything is received
		for (int j = 0; j < nreq; j++) {
			nng_msg *m;
			uint8_t  body[4] = { 'Q', (uint8_t) j, (uint8_t) r, (uint8_t) icase };
			nng_msg_alloc(&m, 0);
			nng_msg_append(m, body, 4);
			if (rawreq && !pair) {
				uint8_t id[4] = { 0x80, (uint8_t) icase, (uint8_t) j, (uint8_t) r };
				nng_msg_header_append(m, id, 4);
			}
			int e = nng_sendmsg(req[j], m, 0);
			if (e != 0) {
				nng_msg_free(m);
				CK(e);
			} else {
				sent++;
			}
		}
		if (vt_quiesce() != 0) CK(-1);
		// repliers take what arrived and answer
		for (int k = 0; k < nrep; k++) {
			nng_msg *pend[64];
			int      np = 0;
			for (;;) {
				nng_msg *m = NULL;
				// nothing is in flight when we look: an empty socket is a final answer
				if (vt_quiesce() != 0) CK(-1);
				int e = nng_recvmsg(rep[k], &m, NNG_FLAG_NONBLOCK);
				if (e != 0) break;
				delivered++;
				if (nng_msg_len(m) != 4 || ((uint8_t *) nng_msg_body(m))[0] != 'Q') hdrbad++;
				size_t hl = nng_msg_header_len(m);
				if (rawrep && !pair) {
					int w = (int) (hl / 4);
					if (w < hdrmin) hdrmin = w;
					if (w > hdrmax) hdrmax = w;
					uint8_t *h = nng_msg_header(m);
					uint32_t first;
					if (hl % 4 != 0 || hl < 8) {
						hdrbad++;
					} else {
						for (int x = 0; x < w - 1; x++)
							if (!is_pid_word(h + 4 * x)) hdrbad++;
						if (is_pid_word(h + 4 * (w - 1))) hdrbad++;
						NNI_GET32(h, first);
						if ((int) first != nng_pipe_id(nng_msg_get_pipe(m))) hdrbad++;
					}
				}
				if (pair) {
					uint32_t hv = 0xffffffffu;
					if (hl == 4) NNI_GET32((uint8_t *) nng_msg_header(m), hv);
					size_t l = strlen(hops);
					snprintf(hops + l, sizeof(hops) - l, "%s%u", l ? "," : "", hv);
				}
				// the answer: 'R' + the request's tag; raw repliers keep the header they received
				((uint8_t *) nng_msg_body(m))[0] = 'R';
				if (pair) nng_msg_header_clear(m);
				if (rawrep && !pair && np < 64) {
					pend[np++] = m;
				} else {
					int e2 = nng_sendmsg(rep[k], m, 0);
					if (e2 != 0) {
						nng_msg_free(m);
						CK(e2);
					}
				}
			}
			for (int x = 0; x < np; x++) {
				// the raw RESPONDENT's per-pipe send queue holds 2 messages and a device is
				// best-effort under back-pressure: responses go one at a time so that no
				// scheduling-dependent drop can occur (REQ/REP: depth 64, a burst is fine)
				if (surv && vt_quiesce() != 0) CK(-1);
				int e2 = nng_sendmsg(rep[k], pend[x], 0);
				if (e2 != 0) {
					nng_msg_free(pend[x]);
					CK(e2);
				}
			}
		}
		if (vt_quiesce() != 0) CK(-1);
		// requesters collect
		for (int j = 0; j < nreq; j++) {
			int got = 0;
			for (;;) {
				nng_msg *m = NULL;
				if (vt_quiesce() != 0) CK(-1);
				int e = nng_recvmsg(req[j], &m, NNG_FLAG_NONBLOCK);
				if (e != 0) break;
				uint8_t *b  = nng_msg_body(m);
				int      ok = nng_msg_len(m) == 4 && b[0] == 'R' && b[1] == (uint8_t) j && b[2] == (uint8_t) r &&
				    b[3] == (uint8_t) icase;
				if (ok && rawreq && !pair) {
					uint8_t *h = nng_msg_header(m);
					ok = nng_msg_header_len(m) == 4 && h[0] == 0x80 && h[1] == (uint8_t) icase &&
					    h[2] == (uint8_t) j && h[3] == (uint8_t) r;
				}
				if (pair) {
					uint32_t hv = 0xffffffffu;
					if (nng_msg_header_len(m) == 4) NNI_GET32((uint8_t *) nng_msg_header(m), hv);
					size_t l = strlen(hops);
					snprintf(hops + l, sizeof(hops) - l, "%sb%u", l ? "," : "", hv);
				}
				if (!ok && nng_msg_len(m) == 4 && b[0] == 'R' && b[1] == (uint8_t) j && b[3] == (uint8_t) icase)
					late++; // the right requester, an earlier round
				else if (!ok)
					wrong++;
				else if (got >= (surv ? nrep : 1))
					extra++;
				else {
					got++;
					replies++;
				}
				nng_msg_free(m);
			}
			if (got == 0) noreply++;
		}
	}
	// teardown: requesters, devices front to back, repliers
	for (int j = 0; j < nreq; j++) nng_socket_close(req[j]);
	for (int i = 1; i <= n; i++) {
		nng_aio_cancel(daio[i]);
		nng_aio_wait(daio[i]);
		nng_aio_free(daio[i]);
	}
	for (int j = 0; j < nrep; j++) nng_socket_close(rep[j]);
	int q = vt_quiesce();
	printf("ichain rv=%d%s sent=%d delivered=%d hdrmin=%d hdrmax=%d hdrbad=%d replies=%d noreply=%d wrong=%d late=%d extra=%d hops=%s\n",
	    rv, q ? " NOT-QUIESCENT" : "", sent, delivered, hdrmin == 99 ? 0 : hdrmin, hdrmax, hdrbad, replies, noreply,
	    wrong, late, extra, hops[0] ? hops : "-");
	fflush(stdout);
}


// ------------------------------------------------------------------ order through devices
// iorder <kind> <ndev> <k> <n>
//   busrefl:   raw BUS R with a reflector device; k cooked senders and one cooked receiver dial R
//   bus2:      raw BUS R1 | R2 two-way device; k senders dial R1, the receiver dials R2
//   pair1refl: raw PAIR1 R with a reflector device; one cooked peer sends and gets its own messages back
//   reqrep / survey: k raw requesters -> ndev devices -> one raw replier; the replier echoes everything back
// every sender sends n numbered messages, interleaved with the others, as fast as the harness thread can;
// buffers are as large as the protocols allow.  Receivers check, per sender, that the numbers are strictly
// increasing (drops are the protocols' business, overtaking is not).
//   -> iorder rv=<n> sent=<k> recv=<k> reorder=<k> back=<k> backreorder=<k> first=<text|->
#define OMAX 8
struct ord {
	int  last[OMAX];
	int  recv, reorder;
	char first[64];
};
static void
ord_init(struct ord *o)
{
	memset(o, 0, sizeof(*o));
	for (int i = 0; i < OMAX; i++) o->last[i] = -1;
}
static void
ord_see(struct ord *o, nng_msg *m)
{
	uint8_t *b = nng_msg_body(m);
	if (nng_msg_len(m) != 5 || b[0] >= OMAX) {
		o->reorder++;
		if (!o->first[0]) snprintf(o->first, sizeof(o->first), "damaged");
		return;
	}
	uint32_t v;
	NNI_GET32(b + 1, v);
	o->recv++;
	if ((int) v <= o->last[b[0]]) {
		o->reorder++;
		if (!o->first[0]) snprintf(o->first, sizeof(o->first), "s%d#%u-after-#%d", b[0], v, o->last[b[0]]);
	} else {
		o->last[b[0]] = (int) v;
	}
}
// drain a socket at quiescence
static void
ord_drain(nng_socket s, struct ord *o, nng_msg **keep, int *nkeep, int maxkeep)
{
	for (;;) {
		nng_msg *m = NULL;
		int      e = nng_recvmsg(s, &m, NNG_FLAG_NONBLOCK);
		if (e != 0) {
			if (vt_quiesce() != 0) return;
			e = nng_recvmsg(s, &m, NNG_FLAG_NONBLOCK);
			if (e != 0) return;
		}
		ord_see(o, m);
		if (keep != NULL && *nkeep < maxkeep) {
			keep[(*nkeep)++] = m;
		} else {
			nng_msg_free(m);
		}
	}
}
static nng_msg *
ord_msg(int who, int i)
{
	nng_msg *m;
	uint8_t  b[5] = { (uint8_t) who };
	NNI_PUT32(b + 1, (uint32_t) i);
	nng_msg_alloc(&m, 0);
	nng_msg_append(m, b, 5);
	return m;
}

static void
cmd_iorder(char **tok, int nt)
{
	const char *kind = tok[1];
	int         ndev = atoi(tok[2]), k = atoi(tok[3]), n = atoi(tok[4]);
	int         rv = 0, sent = 0;
	struct ord  fw, bk;
	nng_socket  snd[OMAX], rcv, R1, R2, front[MAXCH], back[MAXCH];
	nng_aio    *daio[MAXCH + 1];
	nng_socket  none = NNG_SOCKET_INITIALIZER;
	char        url[64];
	int         nd = 0;
	(void) nt;
	ord_init(&fw);
	ord_init(&bk);
	if (k > OMAX) k = OMAX;
	if (k < 1) k = 1;
	if (ndev > MAXCH - 1) ndev = MAXCH - 1;
	icase++;
#define BIG(s)                                        \
	do {                                          \
		nng_socket_set_int(s, NNG_OPT_SENDBUF, 8192); \
		nng_socket_set_int(s, NNG_OPT_RECVBUF, 8192); \
		nng_socket_set_ms(s, NNG_OPT_SENDTIMEO, 20000); \
	} while (0)
	int bus = strcmp(kind, "busrefl") == 0 || strcmp(kind, "bus2") == 0;
	int pr  = strcmp(kind, "pair1refl") == 0;
	if (bus || pr) {
		const char *rawp = pr ? "pair1_raw" : "bus0_raw", *ckp = pr ? "pair1" : "bus0";
		int two = strcmp(kind, "bus2") == 0;
		if (pr) k = 1;
		CK(open_proto(rawp, &R1));
		BIG(R1);
		snprintf(url, sizeof(url), "inproc://c13o-%d-a", icase);
		CK(nng_listen(R1, url, NULL, 0));
		if (two) {
			CK(open_proto(rawp, &R2));
			BIG(R2);
			snprintf(url, sizeof(url), "inproc://c13o-%d-b", icase);
			CK(nng_listen(R2, url, NULL, 0));
		}
		for (int j = 0; j < k; j++) {
			CK(open_proto(ckp, &snd[j]));
			BIG(snd[j]);
			snprintf(url, sizeof(url), "inproc://c13o-%d-a", icase);
			CK(nng_dial(snd[j], url, NULL, 0));
		}
		if (!pr) {
			CK(open_proto(ckp, &rcv));
			BIG(rcv);
			snprintf(url, sizeof(url), "inproc://c13o-%d-%s", icase, two ? "b" : "a");
			CK(nng_dial(rcv, url, NULL, 0));
		}
		if (vt_quiesce() != 0) CK(-1);
		CK(nng_aio_alloc(&daio[0], NULL, NULL));
		nng_device_aio(daio[0], R1, two ? R2 : none);
		nd = 1;
		if (vt_quiesce() != 0) CK(-1);
		for (int i = 0; i < n && rv == 0; i++) {
			for (int j = 0; j < k; j++) {
				nng_msg *m = ord_msg(j, i);
				int      e = nng_sendmsg(snd[j], m, 0);
				if (e != 0) {
					nng_msg_free(m);
					CK(e);
				} else {
					sent++;
				}
			}
		}
		if (vt_quiesce() != 0) CK(-1);
		ord_drain(pr ? snd[0] : rcv, &fw, NULL, NULL, 0);
		// a reflector also hands every sender the other senders' messages
		if (!pr && !two)
			for (int j = 0; j < k; j++) {
				struct ord one;
				ord_init(&one);
				ord_drain(snd[j], &one, NULL, NULL, 0);
				bk.recv += one.recv;
				bk.reorder += one.reorder;
				// a reflector must never hand a sender its own message back
				if (one.last[j] >= 0) {
					bk.reorder++;
					if (!one.first[0]) snprintf(one.first, sizeof(one.first), "own-message-echoed#%d", one.last[j]);
				}
				if (one.first[0] && !bk.first[0]) snprintf(bk.first, sizeof(bk.first), "at-s%d:%s", j, one.first);
			}
		for (int j = 0; j < k; j++) nng_socket_close(snd[j]);
		if (!pr) nng_socket_close(rcv);
	} else {
		int         surv = strcmp(kind, "survey") == 0;
		const char *fp = surv ? "respondent0_raw" : "rep0_raw", *bp = surv ? "surveyor0_raw" : "req0_raw";
		static nng_msg *keep[65536];
		int             nkeep = 0;
		CK(open_proto(fp, &rcv));
		BIG(rcv);
		set_ttl(rcv, 15);
		snprintf(url, sizeof(url), "inproc://c13o-%d-%d", icase, ndev + 1);
		CK(nng_listen(rcv, url, NULL, 0));
		for (int i = ndev; i >= 1; i--) {
			CK(open_proto(fp, &front[i]));
			CK(open_proto(bp, &back[i]));
			BIG(front[i]);
			BIG(back[i]);
			set_ttl(front[i], 15);
			snprintf(url, sizeof(url), "inproc://c13o-%d-%d", icase, i);
			CK(nng_listen(front[i], url, NULL, 0));
			snprintf(url, sizeof(url), "inproc://c13o-%d-%d", icase, i + 1);
			CK(nng_dial(back[i], url, NULL, 0));
		}
		snprintf(url, sizeof(url), "inproc://c13o-%d-%d", icase, 1);
		for (int j = 0; j < k; j++) {
			CK(open_proto(bp, &snd[j]));
			BIG(snd[j]);
			CK(nng_dial(snd[j], url, NULL, 0));
		}
		if (vt_quiesce() != 0) CK(-1);
		for (int i = ndev; i >= 1; i--) {
			CK(nng_aio_alloc(&daio[nd], NULL, NULL));
			nng_device_aio(daio[nd], front[i], back[i]);
			nd++;
		}
		if (vt_quiesce() != 0) CK(-1);
		for (int i = 0; i < n && rv == 0; i++) {
			for (int j = 0; j < k; j++) {
				nng_msg *m     = ord_msg(j, i);
				uint8_t  id[4] = { 0x80, (uint8_t) j, (uint8_t) (i >> 8), (uint8_t) i };
				nng_msg_header_append(m, id, 4);
				int e = nng_sendmsg(snd[j], m, 0);
				if (e != 0) {
					nng_msg_free(m);
					CK(e);
				} else {
					sent++;
				}
			}
		}
		if (vt_quiesce() != 0) CK(-1);
		ord_drain(rcv, &fw, keep, &nkeep, 65536);
		// echo everything back, headers as received
		for (int x = 0; x < nkeep; x++) {
			int e = nng_sendmsg(rcv, keep[x], 0);
			if (e != 0) {
				nng_msg_free(keep[x]);
				CK(e);
			}
		}
		if (vt_quiesce() != 0) CK(-1);
		for (int j = 0; j < k; j++) {
			struct ord one;
			ord_init(&one);
			ord_drain(snd[j], &one, NULL, NULL, 0);
			bk.recv += one.recv;
			bk.reorder += one.reorder;
			// a reply for somebody else is a routing error, counted as reordering of the worst kind
			for (int q = 0; q < OMAX; q++)
				if (q != j && one.last[q] >= 0) {
					bk.reorder++;
					if (!one.first[0]) snprintf(one.first, sizeof(one.first), "reply-of-s%d-at-s%d", q, j);
				}
			if (one.first[0] && !bk.first[0]) snprintf(bk.first, sizeof(bk.first), "back:%s", one.first);
		}
		for (int j = 0; j < k; j++) nng_socket_close(snd[j]);
	}
	for (int i = 0; i < nd; i++) {
		nng_aio_cancel(daio[i]);
		nng_aio_wait(daio[i]);
		nng_aio_free(daio[i]);
	}
	if (!(bus || pr)) nng_socket_close(rcv);
	int q = vt_quiesce();
	printf("iorder rv=%d%s sent=%d recv=%d reorder=%d back=%d backreorder=%d first=%s\n", rv, q ? " NOT-QUIESCENT" : "", sent,
	    fw.recv, fw.reorder, bk.recv, bk.reorder, fw.first[0] ? fw.first : (bk.first[0] ? bk.first : "-"));
	fflush(stdout);
}

int
main(void)
{
	static char line[1 << 16];
	static char moves[1 << 16];
	char       *tok[12];
	nng_init(NULL);
	vt_register();
	for (int k = 0; k < NDEV; k++) dev_s1[k] = dev_s2[k] = -1;
	while (fgets(line, sizeof(line), stdin) != NULL) {
		int   nt = 0;
		char *sp = NULL;
		for (char *t = strtok_r(line, " \n", &sp); t != NULL && nt < 12; t = strtok_r(NULL, " \n", &sp)) tok[nt++] = t;
		if (nt == 0 || tok[0][0] == '#') continue;
		const char *op = tok[0];
		int         rv = 0;
		char        extra[128];
		const char *mv = NULL;
		extra[0]       = 0;
#define IDX(t) atoi((t) + 1)
		if (strcmp(op, "mark") == 0) {
			reset_all();
			printf("mark %s\n", tok[1]);
			fflush(stdout);
			continue;
		}
		if (strcmp(op, "ichain") == 0) {
			if (nt < 9) {
				printf("badop ichain\n");
				fflush(stdout);
				continue;
			}
			cmd_ichain(tok, nt);
			continue;
		}
		if (strcmp(op, "iorder") == 0) {
			if (nt < 5) {
				printf("badop iorder\n");
				fflush(stdout);
				continue;
			}
			cmd_iorder(tok, nt);
			continue;
		}
		if (strcmp(op, "open") == 0) {
			int s = IDX(tok[1]);
			rv    = open_proto(tok[2], &socks[s]);
			if (rv == 0) {
				char url[32];
				vt_last_ep = NULL;
				snprintf(url, sizeof(url), "telnet://s%d", s);
				rv           = nng_listen(socks[s], url, NULL, 0);
				sock_open[s] = 1;
				sock_ep[s]   = (rv == 0) ? vt_last_ep : NULL;
			}
		} else if (strcmp(op, "close") == 0) {
			int s        = IDX(tok[1]);
			rv           = nng_socket_close(socks[s]);
			if (rv == 0) {
				sock_open[s] = 0;
				sock_ep[s]   = NULL;
			}
		} else if (strcmp(op, "conn") == 0) {
			int s = IDX(tok[1]);
			int r = sock_ep[s] ? vt_connect(sock_ep[s], (uint16_t) atoi(tok[2])) : -NNG_ECLOSED;
			if (r < 0) {
				rv = -r;
			} else {
				snprintf(extra, sizeof(extra), "pipe=p%d:%08x", r, vt_pipe_ids[r]);
			}
		} else if (strcmp(op, "sent") == 0) {
			rv = vt_sent(IDX(tok[1]), nt > 2 ? atoi(tok[2]) : 0) == 0 ? 0 : NNG_ENOENT;
		} else if (strcmp(op, "inject") == 0) {
			size_t   len;
			uint8_t *d = unhex(tok[2], &len);
			rv         = vt_inject(IDX(tok[1]), d, len) == 0 ? 0 : NNG_ENOENT;
			free(d);
		} else if (strcmp(op, "drop") == 0) {
			rv = vt_drop(IDX(tok[1])) == 0 ? 0 : NNG_ENOENT;
		} else if (strcmp(op, "sendnb") == 0 || strcmp(op, "send") == 0) {
			int      t = IDX(tok[1]);
			size_t   hl, bl;
			uint8_t *h = unhex(tok[2], &hl);
			uint8_t *b = unhex(tok[3], &bl);
			nng_msg *m;
			nng_msg_alloc(&m, 0);
			nng_msg_header_append(m, h, hl);
			nng_msg_append(m, b, bl);
			free(h);
			free(b);
			// "send" = blocking form (the socket's send timeout bounds it; a timeout is a harness problem)
			if (op[4] != 'n') nng_socket_set_ms(socks[t], NNG_OPT_SENDTIMEO, 10000);
			rv = nng_sendmsg(socks[t], m, op[4] == 'n' ? NNG_FLAG_NONBLOCK : 0);
			if (rv != 0) nng_msg_free(m);
		} else if (strcmp(op, "recvnb") == 0) {
			int      t = IDX(tok[1]);
			nng_msg *m = NULL;
			rv         = nng_recvmsg(socks[t], &m, NNG_FLAG_NONBLOCK);
			if (rv == 0) {
				vt_quiesce();
				printf("got=");
				print_msg(m);
				printf(" ");
				nng_msg_free(m);
			}
		} else if (strcmp(op, "setopt") == 0) {
			int t = IDX(tok[1]);
			if (strcmp(tok[3], "int") == 0)
				rv = nng_socket_set_int(socks[t], tok[2], atoi(tok[4]));
			else if (strcmp(tok[3], "ms") == 0)
				rv = nng_socket_set_ms(socks[t], tok[2], atoi(tok[4]));
			else
				rv = NNG_EINVAL;
		} else if (strcmp(op, "device") == 0) {
			int        k  = IDX(tok[1]);
			int        s1 = IDX(tok[2]);
			int        s2 = strcmp(tok[3], "-") == 0 ? -1 : IDX(tok[3]);
			nng_socket none = NNG_SOCKET_INITIALIZER;
			if (devs[k] != NULL) {
				rv = NNG_EBUSY;
			} else if ((rv = nng_aio_alloc(&devs[k], NULL, NULL)) == 0) {
				dev_s1[k] = s1;
				dev_s2[k] = s2;
				nng_device_aio(devs[k], socks[s1], s2 >= 0 ? socks[s2] : none);
				vt_quiesce();
				// a device that could not start completes at once
				if (!nng_aio_busy(devs[k])) {
					rv = nng_aio_result(devs[k]);
					nng_aio_free(devs[k]);
					devs[k] = NULL;
				}
			}
		} else if (strcmp(op, "devstop") == 0) {
			int k = IDX(tok[1]);
			if (devs[k] == NULL)
				rv = NNG_ENOENT;
			else
				stop_dev(k, &rv);
		} else if (strcmp(op, "link") == 0) {
			if (nlinks < NLINK) {
				link_a[nlinks] = IDX(tok[1]);
				link_b[nlinks] = IDX(tok[2]);
				nlinks++;
			} else {
				rv = NNG_ENOMEM;
			}
		} else if (strcmp(op, "pump") == 0) {
			int    max = atoi(tok[1]), count = 0, stop = 0;
			size_t ml = 0;
			moves[0]  = 0;
			mv        = moves;
			while (!stop) {
				int moved = 0;
				vt_quiesce();
				for (int l = 0; l < nlinks && !stop; l++) {
					for (int dir = 0; dir < 2 && !stop; dir++) {
						int a = dir ? link_b[l] : link_a[l], b = dir ? link_a[l] : link_b[l];
						if (!has_send(a)) continue;
						if (count >= max) {
							stop = 1;
							rv   = NNG_EAGAIN; // watchdog: still busy after <max> moves
							break;
						}
						size_t   len = 0;
						uint8_t *w   = take_send(a, &len);
						if (w == NULL) continue;
						int ok = vt_inject(b, w, len) == 0;
						if (ml + 2 * len + 40 < sizeof(moves)) {
							ml += (size_t) snprintf(moves + ml, sizeof(moves) - ml, "%sp%d%cp%d:", ml ? "," : "", a,
							    ok ? '>' : 'x', b);
							if (len == 0) ml += (size_t) snprintf(moves + ml, sizeof(moves) - ml, "-");
							for (size_t i = 0; i < len; i++)
								ml += (size_t) snprintf(moves + ml, sizeof(moves) - ml, "%02x", w[i]);
						}
						free(w);
						count++;
						moved = 1;
						vt_quiesce();
					}
				}
				if (!moved) break;
			}
			snprintf(extra, sizeof(extra), "count=%d", count);
		} else if (strcmp(op, "poll") == 0) {
			rv = 0;
		} else {
			printf("badop %s\n", op);
			fflush(stdout);
			continue;
		}
		observe(rv, extra[0] ? extra : NULL, mv);
	}
	reset_all();
	nng_fini();
	return 0;
}
