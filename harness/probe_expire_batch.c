#include "core/nng_impl.h"
#include <stdio.h>
#include <pthread.h>
static nng_aio *A, *B;
static pthread_mutex_t m = PTHREAD_MUTEX_INITIALIZER;
static int ownsA, ownsB, slowA = 1;
static volatile int cbB_n; static int cbB_rv[4]; static nng_time cbB_t[4];
static void cancelA(nng_aio *a, void *arg, nng_err rv) { int mine; pthread_mutex_lock(&m); mine = ownsA; ownsA = 0; pthread_mutex_unlock(&m);
  if (slowA) nng_msleep(300);
  if (mine) nng_aio_finish(a, rv); }
static void cancelB(nng_aio *a, void *arg, nng_err rv) { int mine; pthread_mutex_lock(&m); mine = ownsB; ownsB = 0; pthread_mutex_unlock(&m); if (mine) nng_aio_finish(a, rv); }
static void cbA(void *x) {}
static void cbB(void *x) { cbB_rv[cbB_n] = nng_aio_result(B); cbB_t[cbB_n] = nng_clock(); cbB_n++; }
int main(void) {
  nng_init_params p = {0}; p.num_expire_threads = 1; p.max_expire_threads = 1;
  nng_init(&p);
  nng_aio_alloc(&A, cbA, NULL); nng_aio_alloc(&B, cbB, NULL);
  nng_aio_set_timeout(A, 20); nng_aio_set_timeout(B, 20);
  pthread_mutex_lock(&m); if (nng_aio_start(A, cancelA, NULL)) ownsA = 1; if (nng_aio_start(B, cancelB, NULL)) ownsB = 1; pthread_mutex_unlock(&m);
  nng_msleep(60); // expire loop has marked both, is inside cancelA (sleeping 300 ms)
  // B's first operation completes normally now
  int mine; pthread_mutex_lock(&m); mine = ownsB; ownsB = 0; pthread_mutex_unlock(&m);
  if (mine) nng_aio_finish(B, 0);
  while (cbB_n < 1) nng_msleep(1);
  printf("B op1 result %d\n", cbB_rv[0]);
  // resubmit B with a 10 s timeout
  nng_aio_set_timeout(B, 10000);
  nng_time t0 = nng_clock();
  pthread_mutex_lock(&m); if (nng_aio_start(B, cancelB, NULL)) ownsB = 1; pthread_mutex_unlock(&m);
  for (int i = 0; i < 1500 && cbB_n < 2; i++) nng_msleep(1);
  if (cbB_n >= 2) printf("B op2 completed with %d after %d ms (timeout configured: 10000 ms)\n", cbB_rv[1], (int)(cbB_t[1] - t0));
  else printf("B op2 still pending after 1.5 s (ok)\n");
  pthread_mutex_lock(&m); mine = ownsB; ownsB = 0; pthread_mutex_unlock(&m); if (mine) nng_aio_finish(B, 0);
  nng_aio_free(A); nng_aio_free(B); nng_fini(); return 0; }
