// wb_proto.c: protocol-level driver.  Public API towards the application side,
// the deterministic transport of vtran.h towards the network side.  One command
// per line on stdin, one observation line per command on stdout.
#define _GNU_SOURCE
#include <poll.h>
#include <sched.h>
#include <time.h>

#include "vtran.h"
#include "wb_common.h"

#define NSOCK 8
#define NCTX 16
#define NAIO 64

static nng_socket socks[NSOCK];
static int        sock_open[NSOCK];
static int        sock_cooked_idgen[NSOCK]; // 1: cooked req/surveyor: tx header is a fresh request id
static vt_ep     *sock_ep[NSOCK];
static nng_ctx    ctxs[NCTX];
static int        ctx_open[NCTX];
static nng_aio   *aios[NAIO];
static int        aio_kind[NAIO];  // 0 idle, 1 send pending, 2 recv pending
static int        aio_done[NAIO];  // set by callback
static int        aio_rv[NAIO];
static nng_msg   *aio_msg[NAIO];
static nni_mtx    cb_mtx;
extern void      nng_verif_clock_advance(uint64_t);
static uint32_t   rids[256];
static int        nrids;

static void
aio_cb(void *arg)
{
	int k = (int) (intptr_t) arg;
	nni_mtx_lock(&cb_mtx);
	aio_rv[k] = nng_aio_result(aios[k]);
	if (aio_kind[k] == 2 && aio_rv[k] == 0) {
		aio_msg[k] = nng_aio_get_msg(aios[k]);
		nng_aio_set_msg(aios[k], NULL);
	} else if (aio_kind[k] == 1 && aio_rv[k] != 0) {
		aio_msg[k] = nng_aio_get_msg(aios[k]); // failed send: still ours
		nng_aio_set_msg(aios[k], NULL);
	}
	aio_done[k] = 1;
	nni_mtx_unlock(&cb_mtx);
}

// ---- tokens: [P<i>] pipe id, [R<n>] request/survey id -------------------
static int
rid_index(uint32_t v, int add)
{
	for (int i = 0; i < nrids; i++)
		if (rids[i] == v) return i;
	if (add && nrids < 256) {
		rids[nrids] = v;
		return nrids++;
	}
	return -1;
}
static void
put_words(const uint8_t *b, size_t n, int tokens)
{
	if (n == 0) {
		putchar('-');
		return;
	}
	size_t i = 0;
	while (i < n) {
		if (tokens && (n - i) >= 4) {
			uint32_t v;
			NNI_GET32(b + i, v);
			int hit = 0;
			for (int p = 0; p < vt_npipes && !hit; p++) {
				if (vt_pipe_ids[p] == v) {
					printf("[P%d]", p);
					hit = 1;
				}
			}
			if (!hit) {
				int r = rid_index(v, 0);
				if (r >= 0) {
					printf("[R%d]", r);
					hit = 1;
				}
			}
			if (hit) {
				i += 4;
				continue;
			}
			printf("%02x%02x%02x%02x", b[i], b[i + 1], b[i + 2], b[i + 3]);
			i += 4;
			continue;
		}
		printf("%02x", b[i]);
		i++;
	}
}
// value of a token "[P<i>]", "[R<n>]", "[R<n>+k]" or "[R<n>-k]" (s points at '['): an id relative to a request id
// seen on the wire names an id the peer has NOT seen -- ids are consecutive, hence predictable (the id of a request
// that was abandoned before it was transmitted, or that is still queued).  *arith is set for the +/- forms, *known
// when the base exists.  An unknown base gives 0 in every form.
static uint32_t
tok_value(const char *s, int *arith, int *known, int *base, long *off)
{
	char    *e;
	long     k = strtol(s + 2, &e, 10);
	uint32_t v = 0;
	*arith = 0;
	*off   = 0;
	*base  = (int) k;
	*known = 0;
	if (s[1] == 'P') {
		if (k >= 0 && k < vt_npipes) {
			v      = vt_pipe_ids[k];
			*known = 1;
		}
	} else if (s[1] == 'R') {
		if (*e == '+' || *e == '-') {
			*arith = 1;
			*off   = strtol(e, NULL, 10);
		}
		if (k >= 0 && k < nrids) {
			v      = rids[k] + (uint32_t) *off;
			*known = 1;
		}
	}
	return v;
}
// hex with tokens -> bytes
static uint8_t *
untok(const char *s, size_t *len)
{
	uint8_t *b = malloc(strlen(s) + 8);
	size_t   n = 0;
	if (strcmp(s, "-") == 0) {
		*len = 0;
		return b;
	}
	while (*s) {
		if (*s == '[') {
			int      ar, kn, bs;
			long     off;
			uint32_t v = tok_value(s, &ar, &kn, &bs, &off);
			NNI_PUT32(b + n, v);
			n += 4;
			while (*s && *s != ']') s++;
			if (*s) s++;
		} else {
			b[n++] = (uint8_t) ((hexval(s[0]) << 4) | hexval(s[1]));
			s += 2;
		}
	}
	*len = n;
	return b;
}
// canonical spelling of a tokenised hex string: a relative token whose value is a request id already seen on the
// wire is spelt [R<m>]; one that names no seen id keeps its relative spelling; an unknown base is 00000000.
// Returns 1 if the string contained a relative token (only then is the spelling reported).
static int
canon_tok(const char *s, char *out, size_t cap)
{
	size_t n   = 0;
	int    any = 0;
	out[0]     = 0;
	while (*s && n + 24 < cap) {
		if (*s == '[') {
			int      ar, kn, bs;
			long     off;
			uint32_t v = tok_value(s, &ar, &kn, &bs, &off);
			if (ar) {
				int r = kn ? rid_index(v, 0) : -1;
				any   = 1;
				if (!kn)
					n += (size_t) snprintf(out + n, cap - n, "00000000");
				else if (r >= 0)
					n += (size_t) snprintf(out + n, cap - n, "[R%d]", r);
				else
					n += (size_t) snprintf(out + n, cap - n, "[R%d%+ld]", bs, off);
				while (*s && *s != ']') s++;
				if (*s) s++;
			} else {
				while (*s && *s != ']') out[n++] = *s++;
				if (*s) out[n++] = *s++;
			}
		} else {
			out[n++] = *s++;
		}
	}
	out[n] = 0;
	return any;
}

static void
print_msg(nng_msg *m)
{
	put_words(nng_msg_header(m), nng_msg_header_len(m), 1);
	putchar('/');
	put_words(nng_msg_body(m), nng_msg_len(m), 0);
}

static int
pollfd_state(nng_socket s, int recv)
{
	int fd;
	int rv = recv ? nng_socket_get_recv_poll_fd(s, &fd) : nng_socket_get_send_poll_fd(s, &fd);
	if (rv != 0) return -1;
	struct pollfd pf = { .fd = fd, .events = POLLIN };
	return (poll(&pf, 1, 0) == 1 && (pf.revents & POLLIN)) ? 1 : 0;
}

static void
observe(int rv, const char *extra)
{
	int q = vt_quiesce();
	printf("rv=%d%s%s", rv, extra ? " " : "", extra ? extra : "");
	if (q != 0) printf(" NOT-QUIESCENT");
	// completions
	printf(" done=");
	int first = 1;
	nni_mtx_lock(&cb_mtx);
	for (int k = 0; k < NAIO; k++) {
		if (aios[k] != NULL && aio_done[k]) {
			printf("%sa%d:%d", first ? "" : ",", k, aio_rv[k]);
			first = 0;
			if (aio_kind[k] == 2 && aio_rv[k] == 0 && aio_msg[k] != NULL) {
				printf(":");
				print_msg(aio_msg[k]);
				nng_msg_free(aio_msg[k]);
			} else if (aio_kind[k] == 1 && aio_rv[k] != 0) {
				printf(aio_msg[k] != NULL ? ":kept" : ":LOST");
				if (aio_msg[k] != NULL && getenv("NNGV_KEPT_DETAIL") != NULL) {
					// the message a refused send hands back, as the caller finds it
					putchar('=');
					print_msg(aio_msg[k]);
				}
				if (aio_msg[k] != NULL) nng_msg_free(aio_msg[k]);
			}
			aio_msg[k]  = NULL;
			aio_done[k] = 0;
			aio_kind[k] = 0;
		}
	}
	nni_mtx_unlock(&cb_mtx);
	if (first) printf("-");
	// pipes
	printf(" pipes=");
	first = 1;
	nni_mtx_lock(&vt_mtx);
	for (int i = 0; i < vt_npipes; i++) {
		vt_pipe *p = vt_pipes[i];
		printf("%sp%d:", first ? "" : ",", i);
		first = 0;
		if (p == NULL || vt_pipe_state[i] == 3) {
			printf("g");
			continue;
		}
		printf("%c:", p->closed ? 'c' : 'o');
		nni_aio *a;
		int      ntx = 0, nrx = 0, nin = 0;
		NNI_LIST_FOREACH (&p->sendq, a) ntx++;
		NNI_LIST_FOREACH (&p->recvq, a) nrx++;
		for (vt_buf *b = p->in_head; b != NULL; b = b->next) nin++;
		printf("t%d:", ntx);
		if ((a = nni_list_first(&p->sendq)) != NULL) {
			nng_msg *m = nni_aio_get_msg(a);
			// a cooked req/surveyor socket puts a fresh id in the header: register it
			for (int s = 0; s < NSOCK; s++) {
				if (sock_open[s] && sock_cooked_idgen[s] && sock_ep[s] == p->ep &&
				    nng_msg_header_len(m) == 4) {
					uint32_t v;
					NNI_GET32((uint8_t *) nng_msg_header(m), v);
					// request / survey ids have the high bit set; anything else in
					// that place is not an id and is shown as it is
					if (v & 0x80000000u) rid_index(v, 1);
				}
			}
			print_msg(m);
		} else {
			printf("-");
		}
		printf(":r%di%d", nrx, nin);
	}
	nni_mtx_unlock(&vt_mtx);
	if (first) printf("-");
	printf(" poll=");
	first = 1;
	for (int s = 0; s < NSOCK; s++) {
		if (!sock_open[s]) continue;
		int r = pollfd_state(socks[s], 1), w = pollfd_state(socks[s], 0);
		printf("%ss%d:%c%c", first ? "" : ",", s, r < 0 ? 'x' : '0' + r, w < 0 ? 'x' : '0' + w);
		first = 0;
	}
	if (first) printf("-");
	printf("\n");
	fflush(stdout);
}

struct {
	const char *name;
	int (*open)(nng_socket *);
	int idgen;
} protos[] = {
	{ "req0", nng_req0_open, 1 }, { "req0_raw", nng_req0_open_raw, 0 }, { "rep0", nng_rep0_open, 0 },
	{ "rep0_raw", nng_rep0_open_raw, 0 }, { "pub0", nng_pub0_open, 0 }, { "pub0_raw", nng_pub0_open_raw, 0 },
	{ "sub0", nng_sub0_open, 0 }, { "sub0_raw", nng_sub0_open_raw, 0 }, { "push0", nng_push0_open, 0 },
	{ "push0_raw", nng_push0_open_raw, 0 }, { "pull0", nng_pull0_open, 0 }, { "pull0_raw", nng_pull0_open_raw, 0 },
	{ "surveyor0", nng_surveyor0_open, 1 }, { "surveyor0_raw", nng_surveyor0_open_raw, 0 },
	{ "respondent0", nng_respondent0_open, 0 }, { "respondent0_raw", nng_respondent0_open_raw, 0 },
	{ "pair0", nng_pair0_open, 0 }, { "pair0_raw", nng_pair0_open_raw, 0 }, { "pair1", nng_pair1_open, 0 },
	{ "pair1_raw", nng_pair1_open_raw, 0 }, { "bus0", nng_bus0_open, 0 }, { "bus0_raw", nng_bus0_open_raw, 0 },
	{ NULL, NULL, 0 },
};

static void
reset_all(void)
{
	for (int c = 0; c < NCTX; c++) {
		if (ctx_open[c]) nng_ctx_close(ctxs[c]);
		ctx_open[c] = 0;
	}
	for (int s = 0; s < NSOCK; s++) {
		if (sock_open[s]) nng_socket_close(socks[s]);
		sock_open[s] = 0;
		sock_ep[s]   = NULL;
	}
	vt_quiesce();
	for (int k = 0; k < NAIO; k++) {
		if (aios[k] != NULL) {
			nng_aio_stop(aios[k]);
			nni_mtx_lock(&cb_mtx);
			if (aio_msg[k] != NULL) nng_msg_free(aio_msg[k]);
			aio_msg[k] = NULL;
			nni_mtx_unlock(&cb_mtx);
			nng_msg *m = nng_aio_get_msg(aios[k]);
			if (m != NULL && aio_kind[k] == 1) nng_msg_free(m);
			nng_aio_free(aios[k]);
			aios[k]     = NULL;
			aio_kind[k] = aio_done[k] = 0;
		}
	}
	vt_quiesce();
	nni_mtx_lock(&vt_mtx);
	vt_npipes = 0;
	nni_mtx_unlock(&vt_mtx);
	nrids = 0;
}

static nng_aio *
get_aio(int k)
{
	if (aios[k] == NULL) {
		nng_aio_alloc(&aios[k], aio_cb, (void *) (intptr_t) k);
		nng_aio_set_timeout(aios[k], NNG_DURATION_INFINITE);
	}
	return aios[k];
}

int
main(void)
{
	static char line[1 << 20];
	char       *tok[10];
	nng_init(NULL);
	vt_register();
	nni_mtx_init(&cb_mtx);
	while (fgets(line, sizeof(line), stdin) != NULL) {
		int   nt = 0;
		char *sp = NULL;
		for (char *t = strtok_r(line, " \n", &sp); t != NULL && nt < 10; t = strtok_r(NULL, " \n", &sp))
			tok[nt++] = t;
		if (nt == 0 || tok[0][0] == '#') continue;
		const char *op = tok[0];
		int         rv = 0;
		char        extra[1024];
		extra[0] = 0;
		if (strcmp(op, "mark") == 0) {
			reset_all();
			printf("mark %s\n", tok[1]);
			fflush(stdout);
			continue;
		}
		// target helpers
#define IDX(t) atoi((t) + 1)
		if (strcmp(op, "open") == 0) {
			int s = IDX(tok[1]);
			rv    = NNG_ENOTSUP;
			for (int i = 0; protos[i].name != NULL; i++) {
				if (strcmp(protos[i].name, tok[2]) == 0) {
					rv = protos[i].open(&socks[s]);
					if (rv == 0) {
						char url[32];
						vt_last_ep = NULL;
						snprintf(url, sizeof(url), "telnet://s%d", s);
						sock_cooked_idgen[s] = protos[i].idgen;
						rv                   = nng_listen(socks[s], url, NULL, 0);
						sock_open[s]         = 1;
						sock_ep[s]           = (rv == 0) ? vt_last_ep : NULL;
					}
				}
			}
		} else if (strcmp(op, "close") == 0) {
			int s = IDX(tok[1]);
			rv    = nng_socket_close(socks[s]);
			sock_open[s] = 0;
			sock_ep[s]   = NULL;
		} else if (strcmp(op, "ctx") == 0) {
			int c = IDX(tok[1]);
			rv    = nng_ctx_open(&ctxs[c], socks[IDX(tok[2])]);
			if (rv == 0) ctx_open[c] = 1;
		} else if (strcmp(op, "ctxclose") == 0) {
			int c = IDX(tok[1]);
			rv    = nng_ctx_close(ctxs[c]);
			ctx_open[c] = 0;
		} else if (strcmp(op, "conn") == 0) {
			int s = IDX(tok[1]);
			int r = sock_ep[s] ? vt_connect(sock_ep[s], (uint16_t) atoi(tok[2])) : -NNG_ECLOSED;
			if (r < 0) {
				rv = -r;
			} else {
				snprintf(extra, sizeof(extra), "pipe=p%d", r);
			}
		} else if (strcmp(op, "sent") == 0) {
			rv = vt_sent(IDX(tok[1]), nt > 2 ? atoi(tok[2]) : 0) == 0 ? 0 : NNG_ENOENT;
		} else if (strcmp(op, "inject") == 0) {
			size_t   len;
			uint8_t *d = untok(tok[2], &len);
			rv         = vt_inject(IDX(tok[1]), d, len) == 0 ? 0 : NNG_ENOENT;
			free(d);
			// a relative id token: say which id it was (see canon_tok)
			if (rv == 0) {
				memcpy(extra, "inj=", 4);
				if (!canon_tok(tok[2], extra + 4, sizeof(extra) - 4)) extra[0] = 0;
			}
		} else if (strcmp(op, "drop") == 0) {
			rv = vt_drop(IDX(tok[1])) == 0 ? 0 : NNG_ENOENT;
		} else if (strcmp(op, "send") == 0 || strcmp(op, "sendnb") == 0) {
			int      nb  = op[4] == 'n';
			int      isc = tok[1][0] == 'c';
			int      t   = IDX(tok[1]);
			int      ai  = nb ? -1 : IDX(tok[2]);
			size_t   hl, bl;
			uint8_t *h = untok(tok[nb ? 2 : 3], &hl);
			uint8_t *b = untok(tok[nb ? 3 : 4], &bl);
			nng_msg *m;
			nng_msg_alloc(&m, 0);
			nng_msg_header_append(m, h, hl);
			nng_msg_append(m, b, bl);
			free(h);
			free(b);
			if (nb) {
				rv = isc ? nng_ctx_sendmsg(ctxs[t], m, NNG_FLAG_NONBLOCK)
				         : nng_sendmsg(socks[t], m, NNG_FLAG_NONBLOCK);
				if (rv != 0) {
					if (getenv("NNGV_KEPT_DETAIL") != NULL) {
						// the message a refused send hands back, as the caller finds it
						printf("kept ");
						print_msg(m);
						printf("\n");
					}
					nng_msg_free(m);
				}
			} else if (aio_kind[ai] != 0) {
				nng_msg_free(m);
				rv = NNG_EBUSY;
			} else {
				nng_aio *a = get_aio(ai);
				aio_kind[ai] = 1;
				nng_aio_set_msg(a, m);
				if (isc)
					nng_ctx_send(ctxs[t], a);
				else
					nng_socket_send(socks[t], a);
			}
		} else if (strcmp(op, "recv") == 0 || strcmp(op, "recvnb") == 0) {
			int nb  = op[4] == 'n';
			int isc = tok[1][0] == 'c';
			int t   = IDX(tok[1]);
			if (nb) {
				nng_msg *m = NULL;
				rv = isc ? nng_ctx_recvmsg(ctxs[t], &m, NNG_FLAG_NONBLOCK)
				         : nng_recvmsg(socks[t], &m, NNG_FLAG_NONBLOCK);
				if (rv == 0) {
					// print inline, as "got=<hdr>/<body>"
					int q = vt_quiesce();
					(void) q;
					printf("got=");
					print_msg(m);
					printf(" ");
					nng_msg_free(m);
				}
			} else {
				int ai = IDX(tok[2]);
				if (aio_kind[ai] != 0) {
					rv = NNG_EBUSY;
				} else {
					nng_aio *a   = get_aio(ai);
					aio_kind[ai] = 2;
					if (isc)
						nng_ctx_recv(ctxs[t], a);
					else
						nng_socket_recv(socks[t], a);
				}
			}
		} else if (strcmp(op, "cancel") == 0) {
			nng_aio_cancel(get_aio(IDX(tok[1])));
		} else if (strcmp(op, "stopaio") == 0) {
			// nng_aio_stop: every later operation started on this aio is refused (NNG_ESTOPPED) by nni_aio_start
			nng_aio_stop(get_aio(IDX(tok[1])));
		} else if (strcmp(op, "aiotmo") == 0) {
			nng_aio_set_timeout(get_aio(IDX(tok[1])), atoi(tok[2]));
		} else if (strcmp(op, "setopt") == 0) {
			// setopt <s|c> <name> <int|ms|bool|size|sub|unsub> <value>
			int         isc = tok[1][0] == 'c';
			int         t   = IDX(tok[1]);
			const char *nm  = tok[2];
			const char *ty  = tok[3];
			if (strcmp(ty, "int") == 0) {
				rv = isc ? nng_ctx_set_int(ctxs[t], nm, atoi(tok[4])) : nng_socket_set_int(socks[t], nm, atoi(tok[4]));
			} else if (strcmp(ty, "ms") == 0) {
				rv = isc ? nng_ctx_set_ms(ctxs[t], nm, atoi(tok[4])) : nng_socket_set_ms(socks[t], nm, atoi(tok[4]));
			} else if (strcmp(ty, "bool") == 0) {
				rv = isc ? nng_ctx_set_bool(ctxs[t], nm, atoi(tok[4]) != 0)
				         : nng_socket_set_bool(socks[t], nm, atoi(tok[4]) != 0);
			} else if (strcmp(ty, "size") == 0) {
				rv = isc ? nng_ctx_set_size(ctxs[t], nm, (size_t) atoll(tok[4]))
				         : nng_socket_set_size(socks[t], nm, (size_t) atoll(tok[4]));
			} else if (strcmp(ty, "sub") == 0 || strcmp(ty, "unsub") == 0) {
				size_t   len;
				uint8_t *d = unhex(tok[4], &len);
				int      sub = ty[0] == 's';
				if (isc)
					rv = sub ? nng_sub0_ctx_subscribe(ctxs[t], d, len) : nng_sub0_ctx_unsubscribe(ctxs[t], d, len);
				else
					rv = sub ? nng_sub0_socket_subscribe(socks[t], d, len)
					         : nng_sub0_socket_unsubscribe(socks[t], d, len);
				free(d);
			} else {
				rv = NNG_EINVAL;
			}
		} else if (strcmp(op, "advance") == 0) {
			nng_verif_clock_advance((uint64_t) atoll(tok[1]));
		} else if (strcmp(op, "sleep") == 0) {
			nng_msleep(atoi(tok[1]));
		} else if (strcmp(op, "poll") == 0) {
			rv = 0;
		} else {
			printf("badop %s\n", op);
			fflush(stdout);
			continue;
		}
		observe(rv, extra[0] ? extra : NULL);
	}
	reset_all();
	nng_fini();
	return 0;
}
