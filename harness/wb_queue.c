// wb_queue.c: white-box driver for nni_lmq and nni_msgq (C18).
// msgqueue.c is compiled into this unit so that the private struct and the
// current source are what is exercised (the archive member is then not linked).
#include "core/nng_impl.h"
#include "core/msgqueue.c"
#include "wb_common.h"

#define MAXMSG 4096
#define MAXAIO 64
static nng_msg *msgs[MAXMSG];  // our tracking reference (one extra clone)
static int      held[MAXMSG];  // 1 = the queue/aio currently holds a reference
static nni_lmq  lq;
static int      lq_live;
static nni_msgq *mq;
static nni_aio  aios[MAXAIO];
static int      aio_live[MAXAIO]; // 1 = started and not yet observed complete
static int      aio_kind[MAXAIO]; // 1 = put, 2 = get
static int      aio_msg[MAXAIO];

static nng_msg *
mk(int id)
{
	nng_msg *m;
	if (msgs[id] != NULL) {
		fprintf(stderr, "msg id %d reused\n", id);
		exit(3);
	}
	nng_msg_alloc(&m, 0);
	nng_msg_append_u32(m, (uint32_t) id);
	nni_msg_clone(m); // tracking reference
	msgs[id] = m;
	held[id] = 1;
	return m;
}
static int
idof(nng_msg *m)
{
	uint32_t v;
	NNI_GET32((uint8_t *) nng_msg_body(m), v);
	return (int) v;
}
// the caller got the message back (get / failed put): drop that reference
static void
release(int id)
{
	held[id] = 0;
	nng_msg_free(msgs[id]);
}
// messages the library freed: held by it, but only our tracking ref is left
static void
print_freed(void)
{
	int first = 1;
	printf(" freed=");
	for (int i = 0; i < MAXMSG; i++) {
		if (msgs[i] != NULL && held[i] && !nni_msg_shared(msgs[i])) {
			printf("%s%d", first ? "" : ",", i);
			first   = 0;
			held[i] = 0;
		}
	}
	if (first) printf("-");
}
static void
print_done(void)
{
	int first = 1;
	printf(" done=");
	for (int a = 0; a < MAXAIO; a++) {
		if (aio_live[a] && !nni_aio_busy(&aios[a])) {
			int      rv = nni_aio_result(&aios[a]);
			nng_msg *m  = nni_aio_get_msg(&aios[a]);
			aio_live[a] = 0;
			printf("%s%d:%d:", first ? "" : ",", a, rv);
			first = 0;
			if (aio_kind[a] == 2 && rv == 0 && m != NULL) {
				printf("%d", idof(m));
				release(idof(m));
			} else if (aio_kind[a] == 1 && rv != 0) {
				// failed put: message still attached to the aio, ours again
				printf(m != NULL && idof(m) == aio_msg[a] ? "kept" : "LOST");
				if (m != NULL) release(idof(m));
			} else {
				printf("-");
			}
			nni_aio_set_msg(&aios[a], NULL);
		}
	}
	if (first) printf("-");
}
static void
lstate(void)
{
	printf(" len=%zu cap=%zu full=%d empty=%d", nni_lmq_len(&lq), nni_lmq_cap(&lq), nni_lmq_full(&lq),
	    nni_lmq_empty(&lq));
}
static void
qstate(void)
{
	printf(" cap=%d send=%d recv=%d", nni_msgq_cap(mq), (int) nni_atomic_get_bool(&mq->mq_sendable.p_raised),
	    (int) nni_atomic_get_bool(&mq->mq_recvable.p_raised));
	printf(" | diag len=%u get=%u put=%u alloc=%u", mq->mq_len, mq->mq_get, mq->mq_put, mq->mq_alloc);
}
static void
cleanup(void)
{
	if (lq_live) {
		nni_lmq_fini(&lq);
		lq_live = 0;
	}
	if (mq != NULL) {
		nni_msgq_close(mq);
		for (int a = 0; a < MAXAIO; a++) {
			if (aio_live[a]) {
				nng_msg *m = nni_aio_get_msg(&aios[a]);
				if (m != NULL && aio_kind[a] == 1) nng_msg_free(m);
				nni_aio_set_msg(&aios[a], NULL);
				aio_live[a] = 0;
			}
		}
		nni_msgq_fini(mq);
		mq = NULL;
	}
	for (int i = 0; i < MAXMSG; i++) {
		if (msgs[i] != NULL) {
			nng_msg_free(msgs[i]); // tracking ref (queue refs were dropped by fini/close)
			msgs[i] = NULL;
			held[i] = 0;
		}
	}
}

int
main(void)
{
	char  line[4096];
	char *tok[8];
	nng_init(NULL);
	for (int a = 0; a < MAXAIO; a++) nni_aio_init(&aios[a], NULL, NULL);
	while (fgets(line, sizeof(line), stdin) != NULL) {
		int   nt = 0;
		char *sp = NULL;
		for (char *t = strtok_r(line, " \n", &sp); t != NULL && nt < 8; t = strtok_r(NULL, " \n", &sp))
			tok[nt++] = t;
		if (nt == 0 || tok[0][0] == '#') continue;
		const char *op = tok[0];
		if (strcmp(op, "mark") == 0) {
			cleanup();
			printf("mark %s\n", tok[1]);
		} else if (strcmp(op, "linit") == 0) {
			cleanup();
			nni_lmq_init(&lq, (size_t) atoi(tok[1]));
			lq_live = 1;
			printf("rv=0");
			lstate();
			printf("\n");
		} else if (strcmp(op, "lput") == 0) {
			int id = atoi(tok[1]);
			int rv = nni_lmq_put(&lq, mk(id));
			if (rv != 0) release(id);
			printf("rv=%d", rv);
			lstate();
			printf("\n");
		} else if (strcmp(op, "lget") == 0) {
			nng_msg *m  = NULL;
			int      rv = nni_lmq_get(&lq, &m);
			printf("rv=%d msg=", rv);
			if (rv == 0) {
				printf("%d", idof(m));
				release(idof(m));
			} else {
				printf("-");
			}
			lstate();
			printf("\n");
		} else if (strcmp(op, "lflush") == 0) {
			nni_lmq_flush(&lq);
			printf("rv=0");
			print_freed();
			lstate();
			printf("\n");
		} else if (strcmp(op, "lresize") == 0) {
			int rv = nni_lmq_resize(&lq, (size_t) atoi(tok[1]));
			printf("rv=%d", rv);
			print_freed();
			lstate();
			printf("\n");
		} else if (strcmp(op, "qinit") == 0) {
			cleanup();
			int rv = nni_msgq_init(&mq, (unsigned) atoi(tok[1]));
			printf("rv=%d done=- freed=-", rv);
			qstate();
			printf("\n");
		} else if (strcmp(op, "qput") == 0 || strcmp(op, "qget") == 0) {
			int a  = atoi(tok[1]);
			int put = op[1] == 'p';
			int id = put ? atoi(tok[2]) : -1;
			int nb = atoi(tok[put ? 3 : 2]);
			if (aio_live[a]) {
				printf("aio-busy\n");
				continue;
			}
			nni_aio_reset(&aios[a]);
			nni_aio_set_timeout(&aios[a], nb ? NNG_DURATION_ZERO : NNG_DURATION_INFINITE);
			aio_live[a] = 1;
			aio_kind[a] = put ? 1 : 2;
			aio_msg[a]  = id;
			if (put) {
				nni_aio_set_msg(&aios[a], mk(id));
				nni_msgq_aio_put(mq, &aios[a]);
			} else {
				nni_msgq_aio_get(mq, &aios[a]);
			}
			printf("rv=0");
			print_done();
			print_freed();
			qstate();
			printf("\n");
		} else if (strcmp(op, "qtryput") == 0) {
			int id = atoi(tok[1]);
			int rv = nni_msgq_tryput(mq, mk(id));
			if (rv != 0) release(id);
			printf("rv=%d", rv);
			print_done();
			print_freed();
			qstate();
			printf("\n");
		} else if (strcmp(op, "qcancel") == 0) {
			nni_aio_abort(&aios[atoi(tok[1])], NNG_ECANCELED);
			printf("rv=0");
			print_done();
			print_freed();
			qstate();
			printf("\n");
		} else if (strcmp(op, "qclose") == 0) {
			nni_msgq_close(mq);
			printf("rv=0");
			print_done();
			print_freed();
			qstate();
			printf("\n");
		} else if (strcmp(op, "qresize") == 0) {
			int rv = nni_msgq_resize(mq, atoi(tok[1]));
			printf("rv=%d", rv);
			print_done();
			print_freed();
			qstate();
			printf("\n");
		} else if (strcmp(op, "qnotify") == 0) {
			nni_pollable *p;
			nni_msgq_get_recvable(mq, &p);
			printf("rv=0");
			print_done();
			print_freed();
			qstate();
			printf("\n");
		} else {
			printf("badop %s\n", op);
		}
	}
	cleanup();
	for (int a = 0; a < MAXAIO; a++) nni_aio_fini(&aios[a]);
	nng_fini();
	return 0;
}
