// Directed schedules for C02 on the real expire thread (one expire queue):
//   burst <n> <ms>   n sleeps that fall due in the same scan (n > NNI_EXPIRE_BATCH exercises the
//                    batch limit): every one of them must complete (Core/ExpireScan.v:
//                    expire_rounds_mark_all_due)
//   freeexp          nng_aio_free while the expire thread is inside the (slow) cancel function of
//                    that aio: free must not return before the cancel function has
//                    (AioProofs.aio_stop_no_expire_reference)
// prints one result line per test; real time with wide margins.
#include "core/nng_impl.h"
#include <pthread.h>
#include <stdio.h>
#include <stdlib.h>
#include <string.h>

static nni_atomic_int ncb;
static void
cb_count(void *arg)
{
	(void) arg;
	nni_atomic_inc(&ncb);
}

static void
burst(int n, int ms)
{
	nng_aio **a = calloc((size_t) n, sizeof(*a));
	nni_atomic_set(&ncb, 0);
	for (int i = 0; i < n; i++) nng_aio_alloc(&a[i], cb_count, NULL);
	for (int i = 0; i < n; i++) nng_sleep_aio(ms, a[i]);
	for (int i = 0; i < 400 && nni_atomic_get(&ncb) < n; i++) nng_msleep(10);
	int done = nni_atomic_get(&ncb), ok = 0;
	for (int i = 0; i < n; i++)
		if (nng_aio_result(a[i]) == 0 && !nng_aio_busy(a[i])) ok++;
	printf("burst n=%d ms=%d completed=%d ok=%d\n", n, ms, done, ok);
	for (int i = 0; i < n; i++) {
		nng_aio_cancel(a[i]);
		nng_aio_free(a[i]);
	}
	free(a);
}

static pthread_mutex_t m = PTHREAD_MUTEX_INITIALIZER;
static int             owns;
static volatile int    in_cancel, cancel_calls, cb_runs, cb_rv = -1;
static void
slow_cancel(nng_aio *aio, void *arg, nng_err rv)
{
	(void) arg;
	in_cancel = 1;
	cancel_calls++;
	nng_msleep(600);
	pthread_mutex_lock(&m);
	int mine = owns;
	owns     = 0;
	pthread_mutex_unlock(&m);
	if (mine) nng_aio_finish(aio, rv);
	in_cancel = 0;
}
static nng_aio *fa;
static void
cb_one(void *arg)
{
	(void) arg;
	cb_rv = (int) nng_aio_result(fa);
	cb_runs++;
}
static void
freeexp(void)
{
	nng_aio_alloc(&fa, cb_one, NULL);
	nng_aio_set_timeout(fa, 100);
	pthread_mutex_lock(&m);
	if (nng_aio_start(fa, slow_cancel, NULL)) owns = 1;
	pthread_mutex_unlock(&m);
	nng_msleep(250); // the expire thread is inside slow_cancel now
	int entered = in_cancel;
	pthread_mutex_lock(&m);
	int mine = owns;
	owns     = 0;
	pthread_mutex_unlock(&m);
	if (mine) nng_aio_finish(fa, 0); // the operation completes normally
	nng_msleep(50);
	nng_time t0 = nng_clock();
	nng_aio_free(fa);
	int still = in_cancel;
	printf("freeexp cancel_entered=%d callbacks=%d result=%d free_returned_after_ms=%d cancel_still_running_at_return=%d\n",
	    entered, cb_runs, cb_rv, (int) (nng_clock() - t0), still);
	nng_msleep(700); // let the cancel function end before the process goes on (ASan reports a late write)
}

int
main(int argc, char **argv)
{
	nng_init_params p;
	memset(&p, 0, sizeof(p));
	p.num_expire_threads = 1;
	p.max_expire_threads = 1;
	nng_init(&p);
	char line[256];
	while (fgets(line, sizeof(line), stdin) != NULL) {
		int  n, ms;
		char op[32];
		if (sscanf(line, "%31s", op) != 1 || op[0] == '#') continue;
		if (strcmp(op, "burst") == 0 && sscanf(line, "%*s %d %d", &n, &ms) == 2) burst(n, ms);
		else if (strcmp(op, "freeexp") == 0) freeexp();
		fflush(stdout);
	}
	nng_fini();
	(void) argc;
	(void) argv;
	return 0;
}
