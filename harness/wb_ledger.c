// wb_ledger.c: C03 driver.  The script language of wb_proto.c (public API on the
// application side, the deterministic transport of vtran.h on the network side) with
//   * an ACCOUNTING ALLOCATOR installed through the pluggable allocator
//     (nng_init(&params): params.malloc_fn / calloc_fn / free_fn -> nni_alloc_set):
//     live table keyed by pointer with the allocation size, sized-free check (every
//     free must name the size of the allocation), unknown / double frees, balance
//     after nng_fini == 0 bytes outstanding;
//   * hook H3 (nng_verif_msg_refs / nng_verif_msg_live, weak: the driver degrades to
//     counting live blocks of sizeof(struct nng_msg) when the hook is absent): the
//     library-side message references / objects at every quiescent point, printed
//     as refs=<n> live=<n> on the observation line (relative to the last `mark`);
//   * nng_aio_get_msg after a failed send must return the message (:kept / :LOST);
//   * a second command set for programs over REAL transports (inproc / ipc / tcp):
//     xopen, listen, dial, bsend, brecv, asend, arecv, acancel, astop, await, pclose,
//     lclose, dclose, device, devstop, msleep, rawpeer (a plain-socket peer that dies in mid-message).  Those lines print only what does not
//     depend on timing; what is judged there is the sanitizers, the allocator balance
//     and the message counters being zero once everything is closed;
//   * the MESSAGE-MANIPULATION family on numbered message slots m0..m15: malloc, mappend,
//     minsert, mtrim, mchop, mrealloc, mreserve, mclear, mhappend, mhinsert, mhtrim, mhchop,
//     mhclear, mdup, mfree, mfail (the i-th allocation of the next operation fails), mbooks,
//     msend / mrecv (real transports: a slot's message travels / a received one is adopted),
//     mstyle (how send/bsend build their message: append, insert, reserve, realloc, dup ...).
//     An m-line prints the result, what the API shows of the slot (length, header length,
//     nng_msg_capacity), what the allocator knows of the body block (the size it was
//     allocated with and the head room = body pointer - block base) and THE ALLOCATOR EVENTS
//     of the call on the calling thread: A<size> / F<allocated size>:<size passed to free>.
//     Every free on every thread is compared with the allocation's size; a difference is the
//     observation `free-size-mismatch <alloc> <free>` on the next line that is printed.
#define _GNU_SOURCE
#include <arpa/inet.h>
#include <netinet/in.h>
#include <poll.h>
#include <pthread.h>
#include <sched.h>
#include <sys/socket.h>
#include <sys/un.h>
#include <time.h>
#include <unistd.h>

#include "vtran.h"
#include "wb_common.h"

// ---------------------------------------------------------------------------
// accounting allocator (does not call into nng; libc malloc underneath, so the
// sanitizers still see every block)
// ---------------------------------------------------------------------------
#define ACC_BUCKETS 65536
typedef struct acc_node {
	struct acc_node *next;
	void            *ptr;
	size_t           size;
} acc_node;
static acc_node       *acc_tab[ACC_BUCKETS];
static pthread_mutex_t acc_mtx = PTHREAD_MUTEX_INITIALIZER;
static long            acc_live_blocks, acc_live_bytes, acc_allocs, acc_frees;
static long            acc_bad_size, acc_bad_unknown; // sized-free mismatches, frees of unknown pointers
static long            acc_rep_size, acc_rep_unknown; // ... already reported on an observation line
static size_t          acc_msg_size;                  // sizeof(struct nng_msg), probed
static long            acc_msg_blocks;                // live blocks of that size
static char            acc_first_bad[256];
static __thread int    acc_main;         // this is the script thread
static int             acc_rec;          // record the script thread's allocator events (during an m-command)
static int             acc_fail_in = -1; // while recording: fail the allocation when this reaches 0
static char            acc_ev[1024];
static size_t          acc_evn;
static long            acc_mm_alloc = -1, acc_mm_free = -1; // first sized-free mismatch not yet printed
static long            acc_mark_blocks, acc_mark_bytes;    // live at the last mark

static void
acc_event(char k, size_t a, size_t f)
{
	if (acc_evn + 48 >= sizeof(acc_ev)) return;
	if (k == 'A')
		acc_evn += (size_t) snprintf(acc_ev + acc_evn, sizeof(acc_ev) - acc_evn, "%sA%zu", acc_evn ? "," : "", a);
	else
		acc_evn += (size_t) snprintf(acc_ev + acc_evn, sizeof(acc_ev) - acc_evn, "%sF%zu:%zu", acc_evn ? "," : "", a, f);
}
static int
acc_should_fail(void)
{
	if (acc_main && acc_rec && acc_fail_in >= 0) {
		if (acc_fail_in-- == 0) return 1;
	}
	return 0;
}

static unsigned
acc_hash(void *p)
{
	uintptr_t v = (uintptr_t) p;
	v ^= v >> 17;
	v *= 0x9E3779B97F4A7C15ull;
	return (unsigned) (v >> 40) & (ACC_BUCKETS - 1);
}
static void
acc_insert(void *p, size_t sz)
{
	acc_node *n = malloc(sizeof(*n));
	unsigned  h = acc_hash(p);
	n->ptr      = p;
	n->size     = sz;
	pthread_mutex_lock(&acc_mtx);
	n->next    = acc_tab[h];
	acc_tab[h] = n;
	acc_live_blocks++;
	acc_live_bytes += (long) sz;
	acc_allocs++;
	if (sz == acc_msg_size) acc_msg_blocks++;
	pthread_mutex_unlock(&acc_mtx);
	if (acc_main && acc_rec) acc_event('A', sz, 0);
}
static void *
acc_malloc(size_t sz)
{
	if (acc_should_fail()) return NULL;
	void *p = malloc(sz);
	if (p != NULL) acc_insert(p, sz);
	return p;
}
static void *
acc_calloc(size_t n, size_t sz)
{
	if (acc_should_fail()) return NULL;
	void *p = calloc(n, sz);
	if (p != NULL) acc_insert(p, n * sz);
	return p;
}
static void
acc_free(void *p, size_t sz)
{
	if (p == NULL) return;
	unsigned   h = acc_hash(p);
	acc_node **pp, *n = NULL;
	pthread_mutex_lock(&acc_mtx);
	for (pp = &acc_tab[h]; *pp != NULL; pp = &(*pp)->next) {
		if ((*pp)->ptr == p) {
			n   = *pp;
			*pp = n->next;
			break;
		}
	}
	if (n == NULL) {
		acc_bad_unknown++;
		if (!acc_first_bad[0])
			snprintf(acc_first_bad, sizeof(acc_first_bad), "free of unknown pointer size=%zu", sz);
		pthread_mutex_unlock(&acc_mtx);
		return; // do not hand it to free(): ASan would abort on a double free before we can report
	}
	if (n->size != sz) {
		acc_bad_size++;
		if (!acc_first_bad[0])
			snprintf(acc_first_bad, sizeof(acc_first_bad), "sized free mismatch: allocated %zu freed as %zu", n->size, sz);
		if (acc_mm_alloc < 0) {
			acc_mm_alloc = (long) n->size;
			acc_mm_free  = (long) sz;
		}
	}
	if (acc_main && acc_rec) acc_event('F', n->size, sz);
	acc_live_blocks--;
	acc_live_bytes -= (long) n->size;
	acc_frees++;
	if (n->size == acc_msg_size) acc_msg_blocks--;
	pthread_mutex_unlock(&acc_mtx);
	free(n);
	free(p);
}

// the live block that contains p: its size, and p's offset in it (1 if found)
static int
acc_block_of(const void *p, size_t *size, size_t *off)
{
	int found = 0;
	pthread_mutex_lock(&acc_mtx);
	for (int h = 0; h < ACC_BUCKETS && !found; h++) {
		for (acc_node *n = acc_tab[h]; n != NULL; n = n->next) {
			if ((const uint8_t *) p >= (uint8_t *) n->ptr && (const uint8_t *) p < (uint8_t *) n->ptr + n->size) {
				*size = n->size;
				*off  = (size_t) ((const uint8_t *) p - (uint8_t *) n->ptr);
				found = 1;
				break;
			}
		}
	}
	pthread_mutex_unlock(&acc_mtx);
	return found;
}
// the distinct observation of a free whose size is not the allocation's (any thread)
static void
print_mismatch(void)
{
	pthread_mutex_lock(&acc_mtx);
	if (acc_mm_alloc >= 0) {
		printf(" free-size-mismatch %ld %ld", acc_mm_alloc, acc_mm_free);
		acc_mm_alloc = acc_mm_free = -1;
	}
	pthread_mutex_unlock(&acc_mtx);
}

// hook H3 (weak: absent in a tree without the hook)
extern int nng_verif_msg_live(void) __attribute__((weak));
extern int nng_verif_msg_refs(void) __attribute__((weak));
extern void nng_verif_clock_advance(uint64_t);

static long base_refs, base_live; // at the last mark
static long
cur_live(void)
{
	if (nng_verif_msg_live) return nng_verif_msg_live();
	long v;
	pthread_mutex_lock(&acc_mtx);
	v = acc_msg_blocks;
	pthread_mutex_unlock(&acc_mtx);
	return v;
}
static long
cur_refs(void)
{
	return nng_verif_msg_refs ? nng_verif_msg_refs() : -1;
}

#define NSOCK 8
#define NCTX 16
#define NAIO 64
#define NEP 16

static nng_socket   socks[NSOCK];
static int          sock_open[NSOCK];
static int          sock_cooked_idgen[NSOCK];
static vt_ep       *sock_ep[NSOCK];
static nng_ctx      ctxs[NCTX];
static int          ctx_open[NCTX];
static nng_aio     *aios[NAIO];
static int          aio_kind[NAIO]; // 0 idle, 1 send pending, 2 recv pending, 3 device
static int          aio_done[NAIO];
static int          aio_rv[NAIO];
static nng_msg     *aio_msg[NAIO];
static nng_msg     *aio_sent[NAIO]; // the pointer the harness attached to a send aio
static int          aio_stale[NAIO]; // a successful send left a (dangling) message pointer in the aio
static nni_mtx      cb_mtx;
static uint32_t     rids[256];
static int          nrids;
static nng_listener listeners[NEP];
static nng_dialer   dialers[NEP];
static int          lis_open[NEP], dial_open[NEP], lis_port[NEP];
static char         lis_url[NEP][200];
static long         n_lost; // failed sends whose message was no longer on the aio
static nng_pipe     last_pipe[NSOCK]; // most recent pipe added to the socket (real transports)
static int          have_pipe[NSOCK];

static void
pipe_cb(nng_pipe p, nng_pipe_ev ev, void *arg)
{
	int s = (int) (intptr_t) arg;
	if (ev == NNG_PIPE_EV_ADD_POST) {
		nni_mtx_lock(&cb_mtx);
		last_pipe[s] = p;
		have_pipe[s] = 1;
		nni_mtx_unlock(&cb_mtx);
	}
}

static void
aio_cb(void *arg)
{
	int k = (int) (intptr_t) arg;
	nni_mtx_lock(&cb_mtx);
	aio_rv[k] = nng_aio_result(aios[k]);
	if (aio_kind[k] == 2 && aio_rv[k] == 0) {
		aio_msg[k] = nng_aio_get_msg(aios[k]);
		nng_aio_set_msg(aios[k], NULL);
	} else if (aio_kind[k] == 1 && aio_rv[k] != 0) {
		aio_msg[k] = nng_aio_get_msg(aios[k]); // failed send: must still be ours
		nng_aio_set_msg(aios[k], NULL);
	} else if (aio_kind[k] == 1 && aio_rv[k] == 0) {
		// successful send: the message is the library's; the aio must not keep pointing at it
		aio_stale[k] = (nng_aio_get_msg(aios[k]) != NULL);
		nng_aio_set_msg(aios[k], NULL);
	}
	aio_done[k] = 1;
	nni_mtx_unlock(&cb_mtx);
}

// ---- tokens: [P<i>] pipe id, [R<n>] request/survey id (as wb_proto.c) -----
static int
rid_index(uint32_t v, int add)
{
	for (int i = 0; i < nrids; i++)
		if (rids[i] == v) return i;
	if (add && nrids < 256) {
		rids[nrids] = v;
		return nrids++;
	}
	return -1;
}
static void
put_words(const uint8_t *b, size_t n, int tokens)
{
	if (n == 0) {
		putchar('-');
		return;
	}
	size_t i = 0;
	while (i < n) {
		if (tokens && (n - i) >= 4) {
			uint32_t v;
			NNI_GET32(b + i, v);
			int hit = 0;
			for (int p = 0; p < vt_npipes && !hit; p++) {
				if (vt_pipe_ids[p] == v) {
					printf("[P%d]", p);
					hit = 1;
				}
			}
			if (!hit) {
				int r = rid_index(v, 0);
				if (r >= 0) {
					printf("[R%d]", r);
					hit = 1;
				}
			}
			if (hit) {
				i += 4;
				continue;
			}
			printf("%02x%02x%02x%02x", b[i], b[i + 1], b[i + 2], b[i + 3]);
			i += 4;
			continue;
		}
		printf("%02x", b[i]);
		i++;
	}
}
static uint8_t *
untok(const char *s, size_t *len)
{
	uint8_t *b = malloc(strlen(s) + 8);
	size_t   n = 0;
	if (strcmp(s, "-") == 0) {
		*len = 0;
		return b;
	}
	while (*s) {
		if (*s == '[') {
			uint32_t v = 0;
			int      k = atoi(s + 2);
			if (s[1] == 'P') v = (k < vt_npipes) ? vt_pipe_ids[k] : 0;
			if (s[1] == 'R') v = (k < nrids) ? rids[k] : 0;
			NNI_PUT32(b + n, v);
			n += 4;
			while (*s && *s != ']') s++;
			if (*s) s++;
		} else {
			b[n++] = (uint8_t) ((hexval(s[0]) << 4) | hexval(s[1]));
			s += 2;
		}
	}
	*len = n;
	return b;
}
static void
print_msg(nng_msg *m)
{
	put_words(nng_msg_header(m), nng_msg_header_len(m), 1);
	putchar('/');
	put_words(nng_msg_body(m), nng_msg_len(m), 0);
}
static int
pollfd_state(nng_socket s, int recv)
{
	int fd;
	int rv = recv ? nng_socket_get_recv_poll_fd(s, &fd) : nng_socket_get_send_poll_fd(s, &fd);
	if (rv != 0) return -1;
	struct pollfd pf = { .fd = fd, .events = POLLIN };
	return (poll(&pf, 1, 0) == 1 && (pf.revents & POLLIN)) ? 1 : 0;
}

static void
observe(int rv, const char *extra)
{
	int q = vt_quiesce();
	printf("rv=%d%s%s", rv, extra ? " " : "", extra ? extra : "");
	if (q != 0) printf(" NOT-QUIESCENT");
	printf(" done=");
	int first = 1;
	nni_mtx_lock(&cb_mtx);
	for (int k = 0; k < NAIO; k++) {
		if (aios[k] != NULL && aio_done[k] && aio_kind[k] != 3) {
			printf("%sa%d:%d", first ? "" : ",", k, aio_rv[k]);
			first = 0;
			if (aio_kind[k] == 2 && aio_rv[k] == 0 && aio_msg[k] != NULL) {
				printf(":");
				print_msg(aio_msg[k]);
				nng_msg_free(aio_msg[k]);
			} else if (aio_kind[k] == 1 && aio_rv[k] == 0 && aio_stale[k]) {
				printf(":STALE");
				aio_stale[k] = 0;
			} else if (aio_kind[k] == 1 && aio_rv[k] != 0) {
				if (aio_msg[k] != NULL && aio_msg[k] == aio_sent[k]) {
					printf(":kept");
					nng_msg_free(aio_msg[k]);
				} else if (aio_msg[k] != NULL) {
					printf(":OTHER"); // a different message on the aio than the one submitted
					nng_msg_free(aio_msg[k]);
				} else {
					// not on the aio any more: the references counter tells whether it leaked
					printf(":LOST");
					n_lost++;
				}
			}
			aio_msg[k]  = NULL;
			aio_sent[k] = NULL;
			aio_done[k] = 0;
			aio_kind[k] = 0;
		}
	}
	nni_mtx_unlock(&cb_mtx);
	if (first) printf("-");
	printf(" pipes=");
	first = 1;
	nni_mtx_lock(&vt_mtx);
	for (int i = 0; i < vt_npipes; i++) {
		vt_pipe *p = vt_pipes[i];
		printf("%sp%d:", first ? "" : ",", i);
		first = 0;
		if (p == NULL || vt_pipe_state[i] == 3) {
			printf("g");
			continue;
		}
		printf("%c:", p->closed ? 'c' : 'o');
		nni_aio *a;
		int      ntx = 0, nrx = 0, nin = 0;
		NNI_LIST_FOREACH (&p->sendq, a) ntx++;
		NNI_LIST_FOREACH (&p->recvq, a) nrx++;
		for (vt_buf *b = p->in_head; b != NULL; b = b->next) nin++;
		printf("t%d:", ntx);
		if ((a = nni_list_first(&p->sendq)) != NULL) {
			nng_msg *m = nni_aio_get_msg(a);
			for (int s = 0; s < NSOCK; s++) {
				if (sock_open[s] && sock_cooked_idgen[s] && sock_ep[s] == p->ep && nng_msg_header_len(m) == 4) {
					uint32_t v;
					NNI_GET32((uint8_t *) nng_msg_header(m), v);
					rid_index(v, 1);
				}
			}
			print_msg(m);
		} else {
			printf("-");
		}
		printf(":r%di%d", nrx, nin);
	}
	nni_mtx_unlock(&vt_mtx);
	if (first) printf("-");
	printf(" poll=");
	first = 1;
	for (int s = 0; s < NSOCK; s++) {
		if (!sock_open[s] || sock_ep[s] == NULL) continue;
		int r = pollfd_state(socks[s], 1), w = pollfd_state(socks[s], 0);
		printf("%ss%d:%c%c", first ? "" : ",", s, r < 0 ? 'x' : '0' + r, w < 0 ? 'x' : '0' + w);
		first = 0;
	}
	if (first) printf("-");
	// the ledger's numbers: library-side message references and objects
	long refs = cur_refs();
	if (refs >= 0)
		printf(" refs=%ld", refs - base_refs);
	else
		printf(" refs=?");
	printf(" live=%ld", cur_live() - base_live);
	pthread_mutex_lock(&acc_mtx);
	if (acc_bad_size != acc_rep_size || acc_bad_unknown != acc_rep_unknown) {
		// what went wrong since the previous observation
		printf(" ALLOC-BAD(%ld,%ld:%s)", acc_bad_size - acc_rep_size, acc_bad_unknown - acc_rep_unknown, acc_first_bad);
		acc_rep_size     = acc_bad_size;
		acc_rep_unknown  = acc_bad_unknown;
		acc_first_bad[0] = 0;
	}
	pthread_mutex_unlock(&acc_mtx);
	print_mismatch();
	printf("\n");
	fflush(stdout);
}

struct {
	const char *name;
	int (*open)(nng_socket *);
	int idgen;
} protos[] = {
	{ "req0", nng_req0_open, 1 }, { "req0_raw", nng_req0_open_raw, 0 }, { "rep0", nng_rep0_open, 0 },
	{ "rep0_raw", nng_rep0_open_raw, 0 }, { "pub0", nng_pub0_open, 0 }, { "pub0_raw", nng_pub0_open_raw, 0 },
	{ "sub0", nng_sub0_open, 0 }, { "sub0_raw", nng_sub0_open_raw, 0 }, { "push0", nng_push0_open, 0 },
	{ "push0_raw", nng_push0_open_raw, 0 }, { "pull0", nng_pull0_open, 0 }, { "pull0_raw", nng_pull0_open_raw, 0 },
	{ "surveyor0", nng_surveyor0_open, 1 }, { "surveyor0_raw", nng_surveyor0_open_raw, 0 },
	{ "respondent0", nng_respondent0_open, 0 }, { "respondent0_raw", nng_respondent0_open_raw, 0 },
	{ "pair0", nng_pair0_open, 0 }, { "pair0_raw", nng_pair0_open_raw, 0 }, { "pair1", nng_pair1_open, 0 },
	{ "pair1_raw", nng_pair1_open_raw, 0 }, { "bus0", nng_bus0_open, 0 }, { "bus0_raw", nng_bus0_open_raw, 0 },
	{ NULL, NULL, 0 },
};

// message slots of the m-commands
#define NMSG 16
static nng_msg *mslot[NMSG];
static int      build_style; // mstyle <n>: how send / sendnb / bsend construct their message
static uint8_t  pat[1 << 16];

static void
reset_all(void)
{
	for (int k = 0; k < NAIO; k++)
		if (aios[k] != NULL && aio_kind[k] == 3) nng_aio_stop(aios[k]); // devices first
	for (int c = 0; c < NCTX; c++) {
		if (ctx_open[c]) nng_ctx_close(ctxs[c]);
		ctx_open[c] = 0;
	}
	for (int s = 0; s < NSOCK; s++) {
		if (sock_open[s]) nng_socket_close(socks[s]);
		sock_open[s] = 0;
		sock_ep[s]   = NULL;
	}
	for (int e = 0; e < NEP; e++) lis_open[e] = dial_open[e] = 0;
	vt_quiesce();
	for (int k = 0; k < NAIO; k++) {
		if (aios[k] != NULL) {
			nng_aio_stop(aios[k]);
			nni_mtx_lock(&cb_mtx);
			if (aio_msg[k] != NULL) nng_msg_free(aio_msg[k]);
			aio_msg[k] = NULL;
			nni_mtx_unlock(&cb_mtx);
			nng_msg *m = nng_aio_get_msg(aios[k]);
			if (m != NULL && aio_kind[k] == 1) nng_msg_free(m);
			nng_aio_free(aios[k]);
			aios[k]     = NULL;
			aio_sent[k] = NULL;
			aio_kind[k] = aio_done[k] = 0;
		}
	}
	vt_quiesce();
	nni_mtx_lock(&vt_mtx);
	vt_npipes = 0;
	nni_mtx_unlock(&vt_mtx);
	nrids = 0;
	for (int k = 0; k < NMSG; k++) {
		if (mslot[k] != NULL) nng_msg_free(mslot[k]);
		mslot[k] = NULL;
	}
}

static nng_aio *
get_aio(int k)
{
	if (aios[k] == NULL) {
		nng_aio_alloc(&aios[k], aio_cb, (void *) (intptr_t) k);
		nng_aio_set_timeout(aios[k], NNG_DURATION_INFINITE);
	}
	return aios[k];
}


// the same header and body, reached through different allocation histories of the body chunk
static nng_msg *
build_msg(const char *hdr, const char *bdy)
{
	size_t   hl, bl;
	uint8_t *h = untok(hdr, &hl);
	uint8_t *b = untok(bdy, &bl);
	nng_msg *m = NULL, *d;
	switch (build_style) {
	default: // as ever: empty message, append
		nng_msg_alloc(&m, 0);
		nng_msg_append(m, b, bl);
		break;
	case 1: // allocated with its final size
		nng_msg_alloc(&m, bl);
		if (bl) memcpy(nng_msg_body(m), b, bl);
		break;
	case 2: // inserted in front (beyond the head room: re-allocation)
		nng_msg_alloc(&m, 0);
		nng_msg_insert(m, b, bl);
		break;
	case 3: // reserve, then append
		nng_msg_alloc(&m, 0);
		nng_msg_reserve(m, bl + 64);
		nng_msg_append(m, b, bl);
		break;
	case 4: // realloc up, fill in; grown past the end and chopped back
		nng_msg_alloc(&m, 0);
		nng_msg_realloc(m, bl);
		if (bl) memcpy(nng_msg_body(m), b, bl);
		nng_msg_append(m, pat, 100);
		nng_msg_chop(m, 100);
		break;
	case 5: // second half appended, first half inserted, a scratch prefix trimmed off again
		nng_msg_alloc(&m, 0);
		nng_msg_append(m, b + bl / 2, bl - bl / 2);
		nng_msg_insert(m, b, bl / 2);
		nng_msg_insert(m, pat, 40);
		nng_msg_trim(m, 40);
		break;
	case 6: // a duplicate of a grown message (the copy is allocated with the source's cap field)
		nng_msg_alloc(&d, 0);
		nng_msg_append(d, b, bl);
		nng_msg_append(d, pat, 200);
		nng_msg_chop(d, 200);
		nng_msg_dup(&m, d);
		nng_msg_free(d);
		break;
	}
	nng_msg_header_append(m, h, hl);
	free(h);
	free(b);
	return m;
}

// one m-line: result, the slot as the API and the allocator show it, the events of the call
static void
mline(int rv, int k)
{
	printf("m rv=%d s=", rv);
	if (k >= 0 && k < NMSG && mslot[k] != NULL) {
		nng_msg *m = mslot[k];
		size_t   bsz = 0, off = 0;
		if (nng_msg_body(m) != NULL && acc_block_of(nng_msg_body(m), &bsz, &off))
			printf("%zu:%zu:%zu:%zu:%zu", nng_msg_len(m), nng_msg_header_len(m), nng_msg_capacity(m), bsz, off);
		else
			printf("%zu:%zu:%zu:?:?", nng_msg_len(m), nng_msg_header_len(m), nng_msg_capacity(m));
	} else {
		printf("-");
	}
	printf(" ev=%s", acc_evn ? acc_ev : "-");
	print_mismatch();
	printf("\n");
	fflush(stdout);
}

// wait (real time, bounded) until aio k has completed; 1 if it has
static int
await_aio(int k, int ms)
{
	for (int i = 0; i < ms; i++) {
		nni_mtx_lock(&cb_mtx);
		int d = aio_done[k];
		nni_mtx_unlock(&cb_mtx);
		if (d) return 1;
		nng_msleep(1);
	}
	return 0;
}

int
main(int argc, char **argv)
{
	static char     line[1 << 20];
	char           *tok[10];
	nng_init_params params;
	int             use_acc = !(argc > 1 && strcmp(argv[1], "--noacc") == 0);
	memset(&params, 0, sizeof(params));
	if (use_acc) {
		params.malloc_fn = acc_malloc;
		params.calloc_fn = acc_calloc;
		params.free_fn   = acc_free;
	}
	int irv = nng_init(&params);
	if (irv != 0) {
		printf("init failed %d\n", irv);
		return 3;
	}
	vt_register();
	nni_mtx_init(&cb_mtx);
	acc_main = 1;
	for (size_t i = 0; i < sizeof(pat); i++) pat[i] = (uint8_t) (0x21 + i % 0x5e);
	// probe sizeof(struct nng_msg): the first block of an nng_msg_alloc(0)
	if (use_acc) {
		long     a0 = acc_allocs;
		nng_msg *pm;
		acc_msg_size = 0;
		if (nng_msg_alloc(&pm, 0) == 0) {
			// find the largest block allocated by that call that is not the body chunk: the struct
			// (NNI_ALLOC_STRUCT comes first)
			pthread_mutex_lock(&acc_mtx);
			size_t best = 0;
			for (int h = 0; h < ACC_BUCKETS; h++)
				for (acc_node *n = acc_tab[h]; n != NULL; n = n->next)
					if (n->ptr == (void *) pm) best = n->size;
			pthread_mutex_unlock(&acc_mtx);
			(void) a0;
			nng_msg_free(pm);
			acc_msg_size   = best;
			acc_msg_blocks = 0;
		}
	}
	base_refs = cur_refs() < 0 ? 0 : cur_refs();
	base_live = cur_live();
	printf("hello acc=%d h3=%d msgsize=%zu\n", use_acc, nng_verif_msg_refs != NULL, acc_msg_size);
	fflush(stdout);
	while (fgets(line, sizeof(line), stdin) != NULL) {
		int   nt = 0;
		char *sp = NULL;
		for (char *t = strtok_r(line, " \n", &sp); t != NULL && nt < 10; t = strtok_r(NULL, " \n", &sp)) tok[nt++] = t;
		if (nt == 0 || tok[0][0] == '#') continue;
		const char *op = tok[0];
		int         rv = 0;
		char        extra[160];
		extra[0] = 0;
		if (strcmp(op, "mark") == 0) {
			reset_all();
			// whatever is still alive now was leaked by the case that ends here
			long lr = cur_refs() < 0 ? 0 : cur_refs() - base_refs, ll = cur_live() - base_live;
			if (lr != 0 || ll != 0) printf("leaked refs=%ld live=%ld\n", lr, ll);
			pthread_mutex_lock(&acc_mtx);
			if (acc_bad_size != acc_rep_size || acc_bad_unknown != acc_rep_unknown) {
				printf("allocbad %ld %ld %s", acc_bad_size - acc_rep_size, acc_bad_unknown - acc_rep_unknown, acc_first_bad);
				acc_rep_size     = acc_bad_size;
				acc_rep_unknown  = acc_bad_unknown;
				acc_first_bad[0] = 0;
				pthread_mutex_unlock(&acc_mtx);
				print_mismatch();
				printf("\n");
				pthread_mutex_lock(&acc_mtx);
			}
			acc_mark_blocks = acc_live_blocks;
			acc_mark_bytes  = acc_live_bytes;
			pthread_mutex_unlock(&acc_mtx);
			build_style = 0;
			base_refs = cur_refs() < 0 ? 0 : cur_refs();
			base_live = cur_live();
			printf("mark %s\n", tok[1]);
			fflush(stdout);
			continue;
		}
#define IDX(t) atoi((t) + 1)
		if (strcmp(op, "open") == 0 || strcmp(op, "xopen") == 0) {
			int s = IDX(tok[1]);
			rv    = NNG_ENOTSUP;
			for (int i = 0; protos[i].name != NULL; i++) {
				if (strcmp(protos[i].name, tok[2]) == 0) {
					rv = protos[i].open(&socks[s]);
					if (rv == 0) {
						sock_open[s]         = 1;
						sock_ep[s]           = NULL;
						sock_cooked_idgen[s] = protos[i].idgen;
						have_pipe[s] = 0;
						if (op[0] == 'x') nng_pipe_notify(socks[s], NNG_PIPE_EV_ADD_POST, pipe_cb, (void *) (intptr_t) s);
						if (op[0] == 'o') {
							char url[32];
							vt_last_ep = NULL;
							snprintf(url, sizeof(url), "telnet://s%d", s);
							rv         = nng_listen(socks[s], url, NULL, 0);
							sock_ep[s] = (rv == 0) ? vt_last_ep : NULL;
						}
					}
				}
			}
		} else if (strcmp(op, "close") == 0) {
			int s        = IDX(tok[1]);
			rv           = nng_socket_close(socks[s]);
			sock_open[s] = 0;
			sock_ep[s]   = NULL;
		} else if (strcmp(op, "ctx") == 0) {
			int c = IDX(tok[1]);
			rv    = nng_ctx_open(&ctxs[c], socks[IDX(tok[2])]);
			if (rv == 0) ctx_open[c] = 1;
		} else if (strcmp(op, "ctxclose") == 0) {
			int c       = IDX(tok[1]);
			rv          = nng_ctx_close(ctxs[c]);
			ctx_open[c] = 0;
		} else if (strcmp(op, "conn") == 0) {
			int s = IDX(tok[1]);
			int r = sock_ep[s] ? vt_connect(sock_ep[s], (uint16_t) atoi(tok[2])) : -NNG_ECLOSED;
			if (r < 0) {
				rv = -r;
			} else {
				snprintf(extra, sizeof(extra), "pipe=p%d", r);
			}
		} else if (strcmp(op, "sent") == 0) {
			rv = vt_sent(IDX(tok[1]), nt > 2 ? atoi(tok[2]) : 0) == 0 ? 0 : NNG_ENOENT;
		} else if (strcmp(op, "inject") == 0) {
			size_t   len;
			uint8_t *d = untok(tok[2], &len);
			rv         = vt_inject(IDX(tok[1]), d, len) == 0 ? 0 : NNG_ENOENT;
			free(d);
		} else if (strcmp(op, "drop") == 0) {
			rv = vt_drop(IDX(tok[1])) == 0 ? 0 : NNG_ENOENT;
		} else if (strcmp(op, "send") == 0 || strcmp(op, "sendnb") == 0) {
			int      nb  = op[4] == 'n';
			int      isc = tok[1][0] == 'c';
			int      t   = IDX(tok[1]);
			int      ai  = nb ? -1 : IDX(tok[2]);
			nng_msg *m   = build_msg(tok[nb ? 2 : 3], tok[nb ? 3 : 4]);
			if (nb) {
				rv = isc ? nng_ctx_sendmsg(ctxs[t], m, NNG_FLAG_NONBLOCK) : nng_sendmsg(socks[t], m, NNG_FLAG_NONBLOCK);
				if (rv != 0) nng_msg_free(m); // a failed nng_sendmsg leaves the message with the caller
			} else if (aio_kind[ai] != 0) {
				nng_msg_free(m);
				rv = NNG_EBUSY;
			} else {
				nng_aio *a   = get_aio(ai);
				aio_kind[ai] = 1;
				aio_sent[ai] = m;
				nng_aio_set_msg(a, m);
				if (isc)
					nng_ctx_send(ctxs[t], a);
				else
					nng_socket_send(socks[t], a);
			}
		} else if (strcmp(op, "recv") == 0 || strcmp(op, "recvnb") == 0) {
			int nb  = op[4] == 'n';
			int isc = tok[1][0] == 'c';
			int t   = IDX(tok[1]);
			if (nb) {
				nng_msg *m = NULL;
				rv = isc ? nng_ctx_recvmsg(ctxs[t], &m, NNG_FLAG_NONBLOCK) : nng_recvmsg(socks[t], &m, NNG_FLAG_NONBLOCK);
				if (rv == 0) {
					vt_quiesce();
					printf("got=");
					print_msg(m);
					printf(" ");
					nng_msg_free(m);
				}
			} else {
				int ai = IDX(tok[2]);
				if (aio_kind[ai] != 0) {
					rv = NNG_EBUSY;
				} else {
					nng_aio *a   = get_aio(ai);
					aio_kind[ai] = 2;
					if (isc)
						nng_ctx_recv(ctxs[t], a);
					else
						nng_socket_recv(socks[t], a);
				}
			}
		} else if (strcmp(op, "cancel") == 0) {
			nng_aio_cancel(get_aio(IDX(tok[1])));
		} else if (strcmp(op, "astop") == 0) {
			// nng_aio_stop: waits for the callback; the aio refuses further operations, so retire it
			int k = IDX(tok[1]);
			if (aios[k] != NULL) {
				nng_aio_stop(aios[k]);
				vt_quiesce();
				nni_mtx_lock(&cb_mtx);
				int d = aio_done[k];
				nni_mtx_unlock(&cb_mtx);
				if (!d && aio_kind[k] != 0) {
					// never started or already idle
					aio_kind[k] = 0;
				}
			}
		} else if (strcmp(op, "aiotmo") == 0) {
			nng_aio_set_timeout(get_aio(IDX(tok[1])), atoi(tok[2]));
		} else if (strcmp(op, "setopt") == 0) {
			int         isc = tok[1][0] == 'c';
			int         t   = IDX(tok[1]);
			const char *nm  = tok[2];
			const char *ty  = tok[3];
			if (strcmp(ty, "int") == 0) {
				rv = isc ? nng_ctx_set_int(ctxs[t], nm, atoi(tok[4])) : nng_socket_set_int(socks[t], nm, atoi(tok[4]));
			} else if (strcmp(ty, "ms") == 0) {
				rv = isc ? nng_ctx_set_ms(ctxs[t], nm, atoi(tok[4])) : nng_socket_set_ms(socks[t], nm, atoi(tok[4]));
			} else if (strcmp(ty, "bool") == 0) {
				rv = isc ? nng_ctx_set_bool(ctxs[t], nm, atoi(tok[4]) != 0) : nng_socket_set_bool(socks[t], nm, atoi(tok[4]) != 0);
			} else if (strcmp(ty, "size") == 0) {
				rv = isc ? nng_ctx_set_size(ctxs[t], nm, (size_t) atoll(tok[4])) : nng_socket_set_size(socks[t], nm, (size_t) atoll(tok[4]));
			} else if (strcmp(ty, "sub") == 0 || strcmp(ty, "unsub") == 0) {
				size_t   len;
				uint8_t *d   = unhex(tok[4], &len);
				int      sub = ty[0] == 's';
				if (isc)
					rv = sub ? nng_sub0_ctx_subscribe(ctxs[t], d, len) : nng_sub0_ctx_unsubscribe(ctxs[t], d, len);
				else
					rv = sub ? nng_sub0_socket_subscribe(socks[t], d, len) : nng_sub0_socket_unsubscribe(socks[t], d, len);
				free(d);
			} else {
				rv = NNG_EINVAL;
			}
		} else if (strcmp(op, "advance") == 0) {
			nng_verif_clock_advance((uint64_t) atoll(tok[1]));
		} else if (strcmp(op, "sleep") == 0 || strcmp(op, "msleep") == 0) {
			nng_msleep(atoi(tok[1]));
		} else if (strcmp(op, "poll") == 0) {
			rv = 0;
			// ------------------------------------------------------------------
			// real transports: nothing timing dependent is printed
			// ------------------------------------------------------------------
		} else if (strcmp(op, "listen") == 0) {
			// listen s<k> l<e> <url>   (tcp://127.0.0.1:0 binds an ephemeral port, remembered for `dial ... :@<e>`)
			int e = IDX(tok[2]);
			rv    = nng_listen(socks[IDX(tok[1])], tok[3], &listeners[e], 0);
			if (rv == 0) {
				int port     = 0;
				lis_open[e]  = 1;
				snprintf(lis_url[e], sizeof(lis_url[e]), "%s", tok[3]);
				if (nng_listener_get_int(listeners[e], NNG_OPT_BOUND_PORT, &port) == 0) lis_port[e] = port;
			}
			printf("x rv=%d\n", rv);
			fflush(stdout);
			continue;
		} else if (strcmp(op, "dial") == 0) {
			// dial s<k> d<e> <url> [nb]     (":@<e>" in the url = the port listener e is bound to)
			int   e = IDX(tok[2]);
			char  url[256];
			char *at = strstr(tok[3], ":@");
			if (at != NULL) {
				snprintf(url, sizeof(url), "%.*s:%d", (int) (at - tok[3]), tok[3], lis_port[atoi(at + 2)]);
			} else {
				snprintf(url, sizeof(url), "%s", tok[3]);
			}
			rv = nng_dial(socks[IDX(tok[1])], url, &dialers[e], nt > 4 ? NNG_FLAG_NONBLOCK : 0);
			if (rv == 0) dial_open[e] = 1;
			printf("x rv=%s\n", rv == 0 ? "0" : "E");
			fflush(stdout);
			continue;
		} else if (strcmp(op, "lclose") == 0 || strcmp(op, "dclose") == 0) {
			int e = IDX(tok[1]);
			if (op[0] == 'l' && lis_open[e]) {
				nng_listener_close(listeners[e]);
				lis_open[e] = 0;
			}
			if (op[0] == 'd' && dial_open[e]) {
				nng_dialer_close(dialers[e]);
				dial_open[e] = 0;
			}
			printf("x\n");
			fflush(stdout);
			continue;
		} else if (strcmp(op, "bsend") == 0) {
			// bsend s<k>|c<k> <hdr> <body> <timeout-ms>: blocking send with a timeout; result not printed
			int      isc = tok[1][0] == 'c';
			int      t   = IDX(tok[1]);
			nng_msg *m   = build_msg(tok[2], tok[3]);
			nng_aio *a;
			nng_aio_alloc(&a, NULL, NULL);
			nng_aio_set_timeout(a, atoi(tok[4]));
			nng_aio_set_msg(a, m);
			if (isc)
				nng_ctx_send(ctxs[t], a);
			else
				nng_socket_send(socks[t], a);
			nng_aio_wait(a);
			if (nng_aio_result(a) != 0) {
				nng_msg *back = nng_aio_get_msg(a);
				if (back == m)
					nng_msg_free(back);
				else {
					n_lost++;
					printf("x LOST rv=%d\n", nng_aio_result(a));
				}
			}
			nng_aio_free(a);
			printf("x\n");
			fflush(stdout);
			continue;
		} else if (strcmp(op, "brecv") == 0) {
			// brecv s<k>|c<k> <timeout-ms>
			int      isc = tok[1][0] == 'c';
			int      t   = IDX(tok[1]);
			nng_aio *a;
			nng_aio_alloc(&a, NULL, NULL);
			nng_aio_set_timeout(a, atoi(tok[2]));
			if (isc)
				nng_ctx_recv(ctxs[t], a);
			else
				nng_socket_recv(socks[t], a);
			nng_aio_wait(a);
			if (nng_aio_result(a) == 0) nng_msg_free(nng_aio_get_msg(a));
			nng_aio_free(a);
			printf("x\n");
			fflush(stdout);
			continue;
		} else if (strcmp(op, "bufsend") == 0) {
			// bufsend s<k> <hex>: nng_send (copies the buffer), non-blocking; result not printed
			size_t   len;
			uint8_t *d = unhex(tok[2], &len);
			(void) nng_send(socks[IDX(tok[1])], d, len, NNG_FLAG_NONBLOCK);
			free(d);
			printf("x\n");
			fflush(stdout);
			continue;
		} else if (strcmp(op, "bufrecv") == 0) {
			// bufrecv s<k> <size>: nng_recv into a caller buffer (truncating copy), non-blocking
			uint8_t buf[256];
			size_t  sz = (size_t) atoi(tok[2]);
			if (sz > sizeof(buf)) sz = sizeof(buf);
			(void) nng_recv(socks[IDX(tok[1])], buf, &sz, NNG_FLAG_NONBLOCK);
			printf("x\n");
			fflush(stdout);
			continue;
		} else if (strcmp(op, "await") == 0) {
			// await a<k> <ms>: wait for an aio started with send/recv; then settle it (not printed)
			int k = IDX(tok[1]);
			await_aio(k, atoi(tok[2]));
			nni_mtx_lock(&cb_mtx);
			if (aios[k] != NULL && aio_done[k]) {
				if (aio_msg[k] != NULL) nng_msg_free(aio_msg[k]);
				else if (aio_kind[k] == 1 && aio_rv[k] != 0) {
					n_lost++;
					printf("x LOST rv=%d\n", aio_rv[k]);
				}
				aio_msg[k]  = NULL;
				aio_sent[k] = NULL;
				aio_done[k] = 0;
				aio_kind[k] = 0;
			}
			nni_mtx_unlock(&cb_mtx);
			printf("x\n");
			fflush(stdout);
			continue;
		} else if (strcmp(op, "settle") == 0) {
			// settle: stop every aio (completes what is pending with an error) and reclaim messages
			for (int k = 0; k < NAIO; k++) {
				if (aios[k] == NULL || aio_kind[k] == 3) continue;
				nng_aio_stop(aios[k]);
				nni_mtx_lock(&cb_mtx);
				if (aio_msg[k] != NULL) nng_msg_free(aio_msg[k]);
				else if (aio_done[k] && aio_kind[k] == 1 && aio_rv[k] != 0) {
					n_lost++;
					printf("x LOST rv=%d\n", aio_rv[k]);
				}
				aio_msg[k]  = NULL;
				aio_sent[k] = NULL;
				nni_mtx_unlock(&cb_mtx);
				nng_aio_free(aios[k]);
				aios[k]     = NULL;
				aio_kind[k] = aio_done[k] = 0;
			}
			printf("x\n");
			fflush(stdout);
			continue;
		} else if (strcmp(op, "pclose") == 0) {
			// pclose s<k>: close the most recent pipe added to the socket
			int      s = IDX(tok[1]);
			nng_pipe p;
			int      h;
			nni_mtx_lock(&cb_mtx);
			p = last_pipe[s];
			h = have_pipe[s];
			have_pipe[s] = 0;
			nni_mtx_unlock(&cb_mtx);
			if (h) nng_pipe_close(p);
			printf("x\n");
			fflush(stdout);
			continue;
		} else if (strcmp(op, "device") == 0) {
			// device a<k> s<i> s<j>
			int      k = IDX(tok[1]);
			nng_aio *a = get_aio(k);
			aio_kind[k] = 3;
			nng_device_aio(a, socks[IDX(tok[2])], socks[IDX(tok[3])]);
			printf("x\n");
			fflush(stdout);
			continue;
		} else if (strcmp(op, "devstop") == 0) {
			int k = IDX(tok[1]);
			if (aios[k] != NULL) {
				if (nt > 2)
					nng_aio_cancel(aios[k]);
				else
					nng_aio_stop(aios[k]);
			}
			printf("x\n");
			fflush(stdout);
			continue;
		} else if (strcmp(op, "counters") == 0) {
			// counters: messages alive right now (timing dependent while things are open; exact after closes)
			vt_quiesce();
			printf("x refs=%ld live=%ld lost=%ld\n", cur_refs() < 0 ? -1 : cur_refs() - base_refs, cur_live() - base_live, n_lost);
			fflush(stdout);
			continue;
		} else if (strcmp(op, "rawpeer") == 0) {
			// rawpeer l<e> <proto> <announce> <send> <linger-ms>: a peer on a plain socket (tcp / ipc listener e) that
			// completes the SP handshake as protocol <proto>, announces a message of <announce> bytes, sends only <send>
			// of them, waits and closes: the pipe is lost IN THE MIDDLE of a message the transport has already allocated
			int e  = IDX(tok[1]);
			int fd = -1;
			if (e >= 0 && e < NEP && lis_open[e]) {
				if (strncmp(lis_url[e], "tcp://", 6) == 0) {
					struct sockaddr_in sa;
					memset(&sa, 0, sizeof(sa));
					sa.sin_family      = AF_INET;
					sa.sin_port        = htons((uint16_t) lis_port[e]);
					sa.sin_addr.s_addr = htonl(INADDR_LOOPBACK);
					fd                 = socket(AF_INET, SOCK_STREAM, 0);
					if (fd >= 0 && connect(fd, (struct sockaddr *) &sa, sizeof(sa)) != 0) {
						close(fd);
						fd = -1;
					}
				} else if (strncmp(lis_url[e], "ipc://", 6) == 0) {
					struct sockaddr_un su;
					memset(&su, 0, sizeof(su));
					su.sun_family = AF_UNIX;
					snprintf(su.sun_path, sizeof(su.sun_path), "%s", lis_url[e] + 6);
					fd = socket(AF_UNIX, SOCK_STREAM, 0);
					if (fd >= 0 && connect(fd, (struct sockaddr *) &su, sizeof(su)) != 0) {
						close(fd);
						fd = -1;
					}
				}
			}
			if (fd >= 0) {
				int      ipc      = strncmp(lis_url[e], "ipc://", 6) == 0;
				uint16_t proto    = (uint16_t) atoi(tok[2]);
				uint64_t announce = (uint64_t) atoll(tok[3]);
				size_t   nsend    = (size_t) atoll(tok[4]);
				uint8_t  hs[8]    = { 0, 'S', 'P', 0, (uint8_t) (proto >> 8), (uint8_t) proto, 0, 0 };
				uint8_t  in[8], fr[9];
				size_t   fl = 0;
				struct pollfd pf = { .fd = fd, .events = POLLIN };
				(void) !send(fd, hs, 8, MSG_NOSIGNAL);
				size_t got = 0;
				while (got < 8 && poll(&pf, 1, 300) == 1) {
					ssize_t r = read(fd, in + got, 8 - got);
					if (r <= 0) break;
					got += (size_t) r;
				}
				if (got == 8) {
					if (ipc) fr[fl++] = 1;
					for (int i = 7; i >= 0; i--) fr[fl++] = (uint8_t) (announce >> (8 * i));
					(void) !send(fd, fr, fl, MSG_NOSIGNAL);
					if (nsend > sizeof(pat)) nsend = sizeof(pat);
					if (nsend > 0) (void) !send(fd, pat, nsend, MSG_NOSIGNAL);
					nng_msleep(nt > 5 ? atoi(tok[5]) : 5);
				}
				close(fd);
			}
			printf("x\n");
			fflush(stdout);
			continue;
		} else if (strcmp(op, "mstyle") == 0) {
			build_style = atoi(tok[1]);
		} else if (strcmp(op, "mssz") == 0) {
			// mssz <n>: tells the MODEL sizeof(struct nng_msg); the driver answers with what it measured
			printf("m ssz=%zu\n", acc_msg_size);
			fflush(stdout);
			continue;
		} else if (strcmp(op, "mfail") == 0) {
			// the i-th allocation (0 = first) the NEXT m-command makes on this thread fails
			acc_fail_in = atoi(tok[1]);
			printf("m fail=%d\n", acc_fail_in);
			fflush(stdout);
			continue;
		} else if (strcmp(op, "mbooks") == 0) {
			// blocks / bytes the allocator has handed out since the last mark and not got back
			// (exact only while no socket is open)
			pthread_mutex_lock(&acc_mtx);
			long b = acc_live_blocks - acc_mark_blocks, y = acc_live_bytes - acc_mark_bytes;
			pthread_mutex_unlock(&acc_mtx);
			printf("m books=%ld:%ld", b, y);
			print_mismatch();
			printf("\n");
			fflush(stdout);
			continue;
		} else if (op[0] == 'm' && (strcmp(op, "malloc") == 0 || strcmp(op, "mappend") == 0 || strcmp(op, "minsert") == 0 ||
		                               strcmp(op, "mtrim") == 0 || strcmp(op, "mchop") == 0 || strcmp(op, "mrealloc") == 0 ||
		                               strcmp(op, "mreserve") == 0 || strcmp(op, "mclear") == 0 || strcmp(op, "mhappend") == 0 ||
		                               strcmp(op, "mhinsert") == 0 || strcmp(op, "mhtrim") == 0 || strcmp(op, "mhchop") == 0 ||
		                               strcmp(op, "mhclear") == 0 || strcmp(op, "mdup") == 0 || strcmp(op, "mfree") == 0)) {
			// <op> m<k> [<n> | m<j>]: one call of the message API on slot k; the line shows slot k (mdup: slot j)
			int    k    = IDX(tok[1]);
			int    show = (strcmp(op, "mdup") == 0 && nt > 2) ? IDX(tok[2]) : k; // mdup shows the destination slot
			size_t n    = (nt > 2 && tok[2][0] != 'm') ? (size_t) atoll(tok[2]) : 0;
			if (n > sizeof(pat)) n = sizeof(pat);
			nng_msg *m = (k >= 0 && k < NMSG) ? mslot[k] : NULL;
			acc_evn    = 0;
			acc_ev[0]  = 0;
			if (k < 0 || k >= NMSG) {
				rv = NNG_ENOENT;
			} else if (strcmp(op, "malloc") == 0) {
				if (m != NULL) {
					rv = NNG_EBUSY;
				} else {
					acc_rec = 1;
					rv      = nng_msg_alloc(&mslot[k], n);
					acc_rec = 0;
					if (rv != 0) mslot[k] = NULL;
				}
			} else if (m == NULL) {
				rv = NNG_ENOENT;
			} else if (strcmp(op, "mdup") == 0) {
				int j = IDX(tok[2]);
				if (j < 0 || j >= NMSG) {
					rv = NNG_ENOENT;
				} else if (mslot[j] != NULL) {
					rv = NNG_EBUSY;
				} else {
					acc_rec = 1;
					rv      = nng_msg_dup(&mslot[j], m);
					acc_rec = 0;
					if (rv != 0) mslot[j] = NULL;
				}
			} else if (strcmp(op, "mfree") == 0) {
				acc_rec = 1;
				nng_msg_free(m);
				acc_rec  = 0;
				mslot[k] = NULL;
			} else {
				acc_rec = 1;
				if (strcmp(op, "mappend") == 0) rv = nng_msg_append(m, pat, n);
				else if (strcmp(op, "minsert") == 0) rv = nng_msg_insert(m, pat, n);
				else if (strcmp(op, "mtrim") == 0) rv = nng_msg_trim(m, n);
				else if (strcmp(op, "mchop") == 0) rv = nng_msg_chop(m, n);
				else if (strcmp(op, "mrealloc") == 0) rv = nng_msg_realloc(m, n);
				else if (strcmp(op, "mreserve") == 0) rv = nng_msg_reserve(m, n);
				else if (strcmp(op, "mclear") == 0) nng_msg_clear(m);
				else if (strcmp(op, "mhappend") == 0) rv = nng_msg_header_append(m, pat, n);
				else if (strcmp(op, "mhinsert") == 0) rv = nng_msg_header_insert(m, pat, n);
				else if (strcmp(op, "mhtrim") == 0) rv = nng_msg_header_trim(m, n);
				else if (strcmp(op, "mhchop") == 0) rv = nng_msg_header_chop(m, n);
				else if (strcmp(op, "mhclear") == 0) nng_msg_header_clear(m);
				acc_rec = 0;
			}
			acc_fail_in = -1;
			mline(rv, show);
			continue;
		} else if (strcmp(op, "msend") == 0) {
			// msend s<k>|c<k> m<j> <timeout-ms>: the slot's message travels (real transports; timing dependent:
			// the line only says whether the library took it)
			int      isc = tok[1][0] == 'c';
			int      t   = IDX(tok[1]);
			int      j   = IDX(tok[2]);
			nng_msg *m   = (j >= 0 && j < NMSG) ? mslot[j] : NULL;
			if (m == NULL) {
				printf("x sent=0\n");
				fflush(stdout);
				continue;
			}
			nng_aio *a;
			nng_aio_alloc(&a, NULL, NULL);
			nng_aio_set_timeout(a, atoi(tok[3]));
			nng_aio_set_msg(a, m);
			if (isc)
				nng_ctx_send(ctxs[t], a);
			else
				nng_socket_send(socks[t], a);
			nng_aio_wait(a);
			if (nng_aio_result(a) != 0) {
				if (nng_aio_get_msg(a) != m) {
					n_lost++;
					mslot[j] = NULL;
					printf("x LOST rv=%d\n", nng_aio_result(a));
				}
				printf("x sent=0");
			} else {
				mslot[j] = NULL;
				printf("x sent=1");
			}
			nng_aio_free(a);
			print_mismatch();
			printf("\n");
			fflush(stdout);
			continue;
		} else if (strcmp(op, "mrecv") == 0) {
			// mrecv s<k>|c<k> m<j> <timeout-ms>: a received message is put into the (empty) slot; the line shows what
			// the allocator knows of its body block: adopt=<allocated size>:<head room>:<length>:<header length>
			int      isc = tok[1][0] == 'c';
			int      t   = IDX(tok[1]);
			int      j   = IDX(tok[2]);
			nng_aio *a;
			nng_aio_alloc(&a, NULL, NULL);
			nng_aio_set_timeout(a, atoi(tok[3]));
			if (isc)
				nng_ctx_recv(ctxs[t], a);
			else
				nng_socket_recv(socks[t], a);
			nng_aio_wait(a);
			if (nng_aio_result(a) == 0) {
				nng_msg *m   = nng_aio_get_msg(a);
				size_t   bsz = 0, off = 0;
				if (j >= 0 && j < NMSG && mslot[j] == NULL && nng_msg_body(m) != NULL && acc_block_of(nng_msg_body(m), &bsz, &off)) {
					mslot[j] = m;
					printf("x adopt=%zu:%zu:%zu:%zu", bsz, off, nng_msg_len(m), nng_msg_header_len(m));
				} else {
					nng_msg_free(m);
					printf("x recv=0");
				}
			} else {
				printf("x recv=0");
			}
			nng_aio_free(a);
			print_mismatch();
			printf("\n");
			fflush(stdout);
			continue;
		} else {
			printf("badop %s\n", op);
			fflush(stdout);
			continue;
		}
		observe(rv, extra[0] ? extra : NULL);
	}
	reset_all();
	long end_refs = cur_refs(), end_live = cur_live();
	nng_fini();
	pthread_mutex_lock(&acc_mtx);
	printf("fini outstanding=%ld/%ld allocs=%ld frees=%ld badsize=%ld badptr=%ld msgrefs=%ld msglive=%ld lost=%ld%s%s\n", acc_live_bytes, acc_live_blocks,
	    acc_allocs, acc_frees, acc_bad_size, acc_bad_unknown, end_refs < 0 ? 0 : end_refs - base_refs, end_live - base_live, n_lost,
	    acc_first_bad[0] ? " first=" : "", acc_first_bad);
	if (acc_mm_alloc >= 0) printf("free-size-mismatch %ld %ld\n", acc_mm_alloc, acc_mm_free);
	if (acc_live_blocks != 0) {
		int shown = 0;
		for (int h = 0; h < ACC_BUCKETS && shown < 8; h++)
			for (acc_node *n = acc_tab[h]; n != NULL && shown < 8; n = n->next, shown++) printf("outstanding block size=%zu\n", n->size);
	}
	pthread_mutex_unlock(&acc_mtx);
	fflush(stdout);
	return 0;
}
