// wb_ledger.c: C03 driver.  The script language of wb_proto.c (public API on the
// application side, the deterministic transport of vtran.h on the network side) with
//   * an ACCOUNTING ALLOCATOR installed through the pluggable allocator
//     (nng_init(&params): params.malloc_fn / calloc_fn / free_fn -> nni_alloc_set):
//     live table keyed by pointer with the allocation size, sized-free check (every
//     free must name the size of the allocation), unknown / double frees, balance
//     after nng_fini == 0 bytes outstanding;
//   * hook H3 (nng_verif_msg_refs / nng_verif_msg_live, weak: the driver degrades to
//     counting live blocks of sizeof(struct nng_msg) when the hook is absent): the
//     library-side message references / objects at every quiescent point, printed
//     as refs=<n> live=<n> on the observation line (relative to the last `mark`);
//   * nng_aio_get_msg after a failed send must return the message (:kept / :LOST);
//   * a second command set for programs over REAL transports (inproc / ipc / tcp):
//     xopen, listen, dial, bsend, brecv, asend, arecv, acancel, astop, await, pclose,
//     lclose, dclose, device, devstop, msleep.  Those lines print only what does not
//     depend on timing; what is judged there is the sanitizers, the allocator balance
//     and the message counters being zero once everything is closed.
#define _GNU_SOURCE
#include <poll.h>
#include <pthread.h>
#include <sched.h>
#include <time.h>

#include "vtran.h"
#include "wb_common.h"

// ---------------------------------------------------------------------------
// accounting allocator (does not call into nng; libc malloc underneath, so the
// sanitizers still see every block)
// ---------------------------------------------------------------------------
#define ACC_BUCKETS 65536
typedef struct acc_node {
	struct acc_node *next;
	void            *ptr;
	size_t           size;
} acc_node;
static acc_node       *acc_tab[ACC_BUCKETS];
static pthread_mutex_t acc_mtx = PTHREAD_MUTEX_INITIALIZER;
static long            acc_live_blocks, acc_live_bytes, acc_allocs, acc_frees;
static long            acc_bad_size, acc_bad_unknown; // sized-free mismatches, frees of unknown pointers
static long            acc_rep_size, acc_rep_unknown; // ... already reported on an observation line
static size_t          acc_msg_size;                  // sizeof(struct nng_msg), probed
static long            acc_msg_blocks;                // live blocks of that size
static char            acc_first_bad[256];
static int             acc_fail_at = -1; // fail the k-th allocation from now (unused by default)

static unsigned
acc_hash(void *p)
{
	uintptr_t v = (uintptr_t) p;
	v ^= v >> 17;
	v *= 0x9E3779B97F4A7C15ull;
	return (unsigned) (v >> 40) & (ACC_BUCKETS - 1);
}
static void
acc_insert(void *p, size_t sz)
{
	acc_node *n = malloc(sizeof(*n));
	unsigned  h = acc_hash(p);
	n->ptr      = p;
	n->size     = sz;
	pthread_mutex_lock(&acc_mtx);
	n->next    = acc_tab[h];
	acc_tab[h] = n;
	acc_live_blocks++;
	acc_live_bytes += (long) sz;
	acc_allocs++;
	if (sz == acc_msg_size) acc_msg_blocks++;
	pthread_mutex_unlock(&acc_mtx);
}
static void *
acc_malloc(size_t sz)
{
	void *p = malloc(sz);
	if (p != NULL) acc_insert(p, sz);
	return p;
}
static void *
acc_calloc(size_t n, size_t sz)
{
	void *p = calloc(n, sz);
	if (p != NULL) acc_insert(p, n * sz);
	return p;
}
static void
acc_free(void *p, size_t sz)
{
	if (p == NULL) return;
	unsigned   h = acc_hash(p);
	acc_node **pp, *n = NULL;
	pthread_mutex_lock(&acc_mtx);
	for (pp = &acc_tab[h]; *pp != NULL; pp = &(*pp)->next) {
		if ((*pp)->ptr == p) {
			n   = *pp;
			*pp = n->next;
			break;
		}
	}
	if (n == NULL) {
		acc_bad_unknown++;
		if (!acc_first_bad[0])
			snprintf(acc_first_bad, sizeof(acc_first_bad), "free of unknown pointer size=%zu", sz);
		pthread_mutex_unlock(&acc_mtx);
		return; // do not hand it to free(): ASan would abort on a double free before we can report
	}
	if (n->size != sz) {
		acc_bad_size++;
		if (!acc_first_bad[0])
			snprintf(acc_first_bad, sizeof(acc_first_bad), "sized free mismatch: allocated %zu freed as %zu", n->size, sz);
	}
	acc_live_blocks--;
	acc_live_bytes -= (long) n->size;
	acc_frees++;
	if (n->size == acc_msg_size) acc_msg_blocks--;
	pthread_mutex_unlock(&acc_mtx);
	free(n);
	free(p);
}

// hook H3 (weak: absent in a tree without the hook)
extern int nng_verif_msg_live(void) __attribute__((weak));
extern int nng_verif_msg_refs(void) __attribute__((weak));
extern void nng_verif_clock_advance(uint64_t);

static long base_refs, base_live; // at the last mark
static long
cur_live(void)
{
	if (nng_verif_msg_live) return nng_verif_msg_live();
	long v;
	pthread_mutex_lock(&acc_mtx);
	v = acc_msg_blocks;
	pthread_mutex_unlock(&acc_mtx);
	return v;
}
static long
cur_refs(void)
{
	return nng_verif_msg_refs ? nng_verif_msg_refs() : -1;
}

#define NSOCK 8
#define NCTX 16
#define NAIO 64
#define NEP 16

static nng_socket   socks[NSOCK];
static int          sock_open[NSOCK];
static int          sock_cooked_idgen[NSOCK];
static vt_ep       *sock_ep[NSOCK];
static nng_ctx      ctxs[NCTX];
static int          ctx_open[NCTX];
static nng_aio     *aios[NAIO];
static int          aio_kind[NAIO]; // 0 idle, 1 send pending, 2 recv pending, 3 device
static int          aio_done[NAIO];
static int          aio_rv[NAIO];
static nng_msg     *aio_msg[NAIO];
static nng_msg     *aio_sent[NAIO]; // the pointer the harness attached to a send aio
static int          aio_stale[NAIO]; // a successful send left a (dangling) message pointer in the aio
static nni_mtx      cb_mtx;
static uint32_t     rids[256];
static int          nrids;
static nng_listener listeners[NEP];
static nng_dialer   dialers[NEP];
static int          lis_open[NEP], dial_open[NEP], lis_port[NEP];
static long         n_lost; // failed sends whose message was no longer on the aio
static nng_pipe     last_pipe[NSOCK]; // most recent pipe added to the socket (real transports)
static int          have_pipe[NSOCK];

static void
pipe_cb(nng_pipe p, nng_pipe_ev ev, void *arg)
{
	int s = (int) (intptr_t) arg;
	if (ev == NNG_PIPE_EV_ADD_POST) {
		nni_mtx_lock(&cb_mtx);
		last_pipe[s] = p;
		have_pipe[s] = 1;
		nni_mtx_unlock(&cb_mtx);
	}
}

static void
aio_cb(void *arg)
{
	int k = (int) (intptr_t) arg;
	nni_mtx_lock(&cb_mtx);
	aio_rv[k] = nng_aio_result(aios[k]);
	if (aio_kind[k] == 2 && aio_rv[k] == 0) {
		aio_msg[k] = nng_aio_get_msg(aios[k]);
		nng_aio_set_msg(aios[k], NULL);
	} else if (aio_kind[k] == 1 && aio_rv[k] != 0) {
		aio_msg[k] = nng_aio_get_msg(aios[k]); // failed send: must still be ours
		nng_aio_set_msg(aios[k], NULL);
	} else if (aio_kind[k] == 1 && aio_rv[k] == 0) {
		// successful send: the message is the library's; the aio must not keep pointing at it
		aio_stale[k] = (nng_aio_get_msg(aios[k]) != NULL);
		nng_aio_set_msg(aios[k], NULL);
	}
	aio_done[k] = 1;
	nni_mtx_unlock(&cb_mtx);
}

// ---- tokens: [P<i>] pipe id, [R<n>] request/survey id (as wb_proto.c) -----
static int
rid_index(uint32_t v, int add)
{
	for (int i = 0; i < nrids; i++)
		if (rids[i] == v) return i;
	if (add && nrids < 256) {
		rids[nrids] = v;
		return nrids++;
	}
	return -1;
}
static void
put_words(const uint8_t *b, size_t n, int tokens)
{
	if (n == 0) {
		putchar('-');
		return;
	}
	size_t i = 0;
	while (i < n) {
		if (tokens && (n - i) >= 4) {
			uint32_t v;
			NNI_GET32(b + i, v);
			int hit = 0;
			for (int p = 0; p < vt_npipes && !hit; p++) {
				if (vt_pipe_ids[p] == v) {
					printf("[P%d]", p);
					hit = 1;
				}
			}
			if (!hit) {
				int r = rid_index(v, 0);
				if (r >= 0) {
					printf("[R%d]", r);
					hit = 1;
				}
			}
			if (hit) {
				i += 4;
				continue;
			}
			printf("%02x%02x%02x%02x", b[i], b[i + 1], b[i + 2], b[i + 3]);
			i += 4;
			continue;
		}
		printf("%02x", b[i]);
		i++;
	}
}
static uint8_t *
untok(const char *s, size_t *len)
{
	uint8_t *b = malloc(strlen(s) + 8);
	size_t   n = 0;
	if (strcmp(s, "-") == 0) {
		*len = 0;
		return b;
	}
	while (*s) {
		if (*s == '[') {
			uint32_t v = 0;
			int      k = atoi(s + 2);
			if (s[1] == 'P') v = (k < vt_npipes) ? vt_pipe_ids[k] : 0;
			if (s[1] == 'R') v = (k < nrids) ? rids[k] : 0;
			NNI_PUT32(b + n, v);
			n += 4;
			while (*s && *s != ']') s++;
			if (*s) s++;
		} else {
			b[n++] = (uint8_t) ((hexval(s[0]) << 4) | hexval(s[1]));
			s += 2;
		}
	}
	*len = n;
	return b;
}
static void
print_msg(nng_msg *m)
{
	put_words(nng_msg_header(m), nng_msg_header_len(m), 1);
	putchar('/');
	put_words(nng_msg_body(m), nng_msg_len(m), 0);
}
static int
pollfd_state(nng_socket s, int recv)
{
	int fd;
	int rv = recv ? nng_socket_get_recv_poll_fd(s, &fd) : nng_socket_get_send_poll_fd(s, &fd);
	if (rv != 0) return -1;
	struct pollfd pf = { .fd = fd, .events = POLLIN };
	return (poll(&pf, 1, 0) == 1 && (pf.revents & POLLIN)) ? 1 : 0;
}

static void
observe(int rv, const char *extra)
{
	int q = vt_quiesce();
	printf("rv=%d%s%s", rv, extra ? " " : "", extra ? extra : "");
	if (q != 0) printf(" NOT-QUIESCENT");
	printf(" done=");
	int first = 1;
	nni_mtx_lock(&cb_mtx);
	for (int k = 0; k < NAIO; k++) {
		if (aios[k] != NULL && aio_done[k] && aio_kind[k] != 3) {
			printf("%sa%d:%d", first ? "" : ",", k, aio_rv[k]);
			first = 0;
			if (aio_kind[k] == 2 && aio_rv[k] == 0 && aio_msg[k] != NULL) {
				printf(":");
				print_msg(aio_msg[k]);
				nng_msg_free(aio_msg[k]);
			} else if (aio_kind[k] == 1 && aio_rv[k] == 0 && aio_stale[k]) {
				printf(":STALE");
				aio_stale[k] = 0;
			} else if (aio_kind[k] == 1 && aio_rv[k] != 0) {
				if (aio_msg[k] != NULL && aio_msg[k] == aio_sent[k]) {
					printf(":kept");
					nng_msg_free(aio_msg[k]);
				} else if (aio_msg[k] != NULL) {
					printf(":OTHER"); // a different message on the aio than the one submitted
					nng_msg_free(aio_msg[k]);
				} else {
					// not on the aio any more: the references counter tells whether it leaked
					printf(":LOST");
					n_lost++;
				}
			}
			aio_msg[k]  = NULL;
			aio_sent[k] = NULL;
			aio_done[k] = 0;
			aio_kind[k] = 0;
		}
	}
	nni_mtx_unlock(&cb_mtx);
	if (first) printf("-");
	printf(" pipes=");
	first = 1;
	nni_mtx_lock(&vt_mtx);
	for (int i = 0; i < vt_npipes; i++) {
		vt_pipe *p = vt_pipes[i];
		printf("%sp%d:", first ? "" : ",", i);
		first = 0;
		if (p == NULL || vt_pipe_state[i] == 3) {
			printf("g");
			continue;
		}
		printf("%c:", p->closed ? 'c' : 'o');
		nni_aio *a;
		int      ntx = 0, nrx = 0, nin = 0;
		NNI_LIST_FOREACH (&p->sendq, a) ntx++;
		NNI_LIST_FOREACH (&p->recvq, a) nrx++;
		for (vt_buf *b = p->in_head; b != NULL; b = b->next) nin++;
		printf("t%d:", ntx);
		if ((a = nni_list_first(&p->sendq)) != NULL) {
			nng_msg *m = nni_aio_get_msg(a);
			for (int s = 0; s < NSOCK; s++) {
				if (sock_open[s] && sock_cooked_idgen[s] && sock_ep[s] == p->ep && nng_msg_header_len(m) == 4) {
					uint32_t v;
					NNI_GET32((uint8_t *) nng_msg_header(m), v);
					rid_index(v, 1);
				}
			}
			print_msg(m);
		} else {
			printf("-");
		}
		printf(":r%di%d", nrx, nin);
	}
	nni_mtx_unlock(&vt_mtx);
	if (first) printf("-");
	printf(" poll=");
	first = 1;
	for (int s = 0; s < NSOCK; s++) {
		if (!sock_open[s] || sock_ep[s] == NULL) continue;
		int r = pollfd_state(socks[s], 1), w = pollfd_state(socks[s], 0);
		printf("%ss%d:%c%c", first ? "" : ",", s, r < 0 ? 'x' : '0' + r, w < 0 ? 'x' : '0' + w);
		first = 0;
	}
	if (first) printf("-");
	// the ledger's numbers: library-side message references and objects
	long refs = cur_refs();
	if (refs >= 0)
		printf(" refs=%ld", refs - base_refs);
	else
		printf(" refs=?");
	printf(" live=%ld", cur_live() - base_live);
	pthread_mutex_lock(&acc_mtx);
	if (acc_bad_size != acc_rep_size || acc_bad_unknown != acc_rep_unknown) {
		// what went wrong since the previous observation
		printf(" ALLOC-BAD(%ld,%ld:%s)", acc_bad_size - acc_rep_size, acc_bad_unknown - acc_rep_unknown, acc_first_bad);
		acc_rep_size     = acc_bad_size;
		acc_rep_unknown  = acc_bad_unknown;
		acc_first_bad[0] = 0;
	}
	pthread_mutex_unlock(&acc_mtx);
	printf("\n");
	fflush(stdout);
}

struct {
	const char *name;
	int (*open)(nng_socket *);
	int idgen;
} protos[] = {
	{ "req0", nng_req0_open, 1 }, { "req0_raw", nng_req0_open_raw, 0 }, { "rep0", nng_rep0_open, 0 },
	{ "rep0_raw", nng_rep0_open_raw, 0 }, { "pub0", nng_pub0_open, 0 }, { "pub0_raw", nng_pub0_open_raw, 0 },
	{ "sub0", nng_sub0_open, 0 }, { "sub0_raw", nng_sub0_open_raw, 0 }, { "push0", nng_push0_open, 0 },
	{ "push0_raw", nng_push0_open_raw, 0 }, { "pull0", nng_pull0_open, 0 }, { "pull0_raw", nng_pull0_open_raw, 0 },
	{ "surveyor0", nng_surveyor0_open, 1 }, { "surveyor0_raw", nng_surveyor0_open_raw, 0 },
	{ "respondent0", nng_respondent0_open, 0 }, { "respondent0_raw", nng_respondent0_open_raw, 0 },
	{ "pair0", nng_pair0_open, 0 }, { "pair0_raw", nng_pair0_open_raw, 0 }, { "pair1", nng_pair1_open, 0 },
	{ "pair1_raw", nng_pair1_open_raw, 0 }, { "bus0", nng_bus0_open, 0 }, { "bus0_raw", nng_bus0_open_raw, 0 },
	{ NULL, NULL, 0 },
};

static void
reset_all(void)
{
	for (int k = 0; k < NAIO; k++)
		if (aios[k] != NULL && aio_kind[k] == 3) nng_aio_stop(aios[k]); // devices first
	for (int c = 0; c < NCTX; c++) {
		if (ctx_open[c]) nng_ctx_close(ctxs[c]);
		ctx_open[c] = 0;
	}
	for (int s = 0; s < NSOCK; s++) {
		if (sock_open[s]) nng_socket_close(socks[s]);
		sock_open[s] = 0;
		sock_ep[s]   = NULL;
	}
	for (int e = 0; e < NEP; e++) lis_open[e] = dial_open[e] = 0;
	vt_quiesce();
	for (int k = 0; k < NAIO; k++) {
		if (aios[k] != NULL) {
			nng_aio_stop(aios[k]);
			nni_mtx_lock(&cb_mtx);
			if (aio_msg[k] != NULL) nng_msg_free(aio_msg[k]);
			aio_msg[k] = NULL;
			nni_mtx_unlock(&cb_mtx);
			nng_msg *m = nng_aio_get_msg(aios[k]);
			if (m != NULL && aio_kind[k] == 1) nng_msg_free(m);
			nng_aio_free(aios[k]);
			aios[k]     = NULL;
			aio_sent[k] = NULL;
			aio_kind[k] = aio_done[k] = 0;
		}
	}
	vt_quiesce();
	nni_mtx_lock(&vt_mtx);
	vt_npipes = 0;
	nni_mtx_unlock(&vt_mtx);
	nrids = 0;
}

static nng_aio *
get_aio(int k)
{
	if (aios[k] == NULL) {
		nng_aio_alloc(&aios[k], aio_cb, (void *) (intptr_t) k);
		nng_aio_set_timeout(aios[k], NNG_DURATION_INFINITE);
	}
	return aios[k];
}

static nng_msg *
build_msg(const char *hdr, const char *bdy)
{
	size_t   hl, bl;
	uint8_t *h = untok(hdr, &hl);
	uint8_t *b = untok(bdy, &bl);
	nng_msg *m;
	nng_msg_alloc(&m, 0);
	nng_msg_header_append(m, h, hl);
	nng_msg_append(m, b, bl);
	free(h);
	free(b);
	return m;
}

// wait (real time, bounded) until aio k has completed; 1 if it has
static int
await_aio(int k, int ms)
{
	for (int i = 0; i < ms; i++) {
		nni_mtx_lock(&cb_mtx);
		int d = aio_done[k];
		nni_mtx_unlock(&cb_mtx);
		if (d) return 1;
		nng_msleep(1);
	}
	return 0;
}

int
main(int argc, char **argv)
{
	static char     line[1 << 20];
	char           *tok[10];
	nng_init_params params;
	int             use_acc = !(argc > 1 && strcmp(argv[1], "--noacc") == 0);
	memset(&params, 0, sizeof(params));
	if (use_acc) {
		params.malloc_fn = acc_malloc;
		params.calloc_fn = acc_calloc;
		params.free_fn   = acc_free;
	}
	int irv = nng_init(&params);
	if (irv != 0) {
		printf("init failed %d\n", irv);
		return 3;
	}
	vt_register();
	nni_mtx_init(&cb_mtx);
	// probe sizeof(struct nng_msg): the first block of an nng_msg_alloc(0)
	if (use_acc) {
		long     a0 = acc_allocs;
		nng_msg *pm;
		acc_msg_size = 0;
		if (nng_msg_alloc(&pm, 0) == 0) {
			// find the largest block allocated by that call that is not the body chunk: the struct
			// (NNI_ALLOC_STRUCT comes first)
			pthread_mutex_lock(&acc_mtx);
			size_t best = 0;
			for (int h = 0; h < ACC_BUCKETS; h++)
				for (acc_node *n = acc_tab[h]; n != NULL; n = n->next)
					if (n->ptr == (void *) pm) best = n->size;
			pthread_mutex_unlock(&acc_mtx);
			(void) a0;
			nng_msg_free(pm);
			acc_msg_size   = best;
			acc_msg_blocks = 0;
		}
	}
	base_refs = cur_refs() < 0 ? 0 : cur_refs();
	base_live = cur_live();
	printf("hello acc=%d h3=%d msgsize=%zu\n", use_acc, nng_verif_msg_refs != NULL, acc_msg_size);
	fflush(stdout);
	while (fgets(line, sizeof(line), stdin) != NULL) {
		int   nt = 0;
		char *sp = NULL;
		for (char *t = strtok_r(line, " \n", &sp); t != NULL && nt < 10; t = strtok_r(NULL, " \n", &sp)) tok[nt++] = t;
		if (nt == 0 || tok[0][0] == '#') continue;
		const char *op = tok[0];
		int         rv = 0;
		char        extra[160];
		extra[0] = 0;
		if (strcmp(op, "mark") == 0) {
			reset_all();
			// whatever is still alive now was leaked by the case that ends here
			long lr = cur_refs() < 0 ? 0 : cur_refs() - base_refs, ll = cur_live() - base_live;
			if (lr != 0 || ll != 0) printf("leaked refs=%ld live=%ld\n", lr, ll);
			pthread_mutex_lock(&acc_mtx);
			if (acc_bad_size != acc_rep_size || acc_bad_unknown != acc_rep_unknown) {
				printf("allocbad %ld %ld %s\n", acc_bad_size - acc_rep_size, acc_bad_unknown - acc_rep_unknown, acc_first_bad);
				acc_rep_size     = acc_bad_size;
				acc_rep_unknown  = acc_bad_unknown;
				acc_first_bad[0] = 0;
			}
			pthread_mutex_unlock(&acc_mtx);
			base_refs = cur_refs() < 0 ? 0 : cur_refs();
			base_live = cur_live();
			printf("mark %s\n", tok[1]);
			fflush(stdout);
			continue;
		}
#define IDX(t) atoi((t) + 1)
		if (strcmp(op, "open") == 0 || strcmp(op, "xopen") == 0) {
			int s = IDX(tok[1]);
			rv    = NNG_ENOTSUP;
			for (int i = 0; protos[i].name != NULL; i++) {
				if (strcmp(protos[i].name, tok[2]) == 0) {
					rv = protos[i].open(&socks[s]);
					if (rv == 0) {
						sock_open[s]         = 1;
						sock_ep[s]           = NULL;
						sock_cooked_idgen[s] = protos[i].idgen;
						have_pipe[s] = 0;
						if (op[0] == 'x') nng_pipe_notify(socks[s], NNG_PIPE_EV_ADD_POST, pipe_cb, (void *) (intptr_t) s);
						if (op[0] == 'o') {
							char url[32];
							vt_last_ep = NULL;
							snprintf(url, sizeof(url), "telnet://s%d", s);
							rv         = nng_listen(socks[s], url, NULL, 0);
							sock_ep[s] = (rv == 0) ? vt_last_ep : NULL;
						}
					}
				}
			}
		} else if (strcmp(op, "close") == 0) {
			int s        = IDX(tok[1]);
			rv           = nng_socket_close(socks[s]);
			sock_open[s] = 0;
			sock_ep[s]   = NULL;
		} else if (strcmp(op, "ctx") == 0) {
			int c = IDX(tok[1]);
			rv    = nng_ctx_open(&ctxs[c], socks[IDX(tok[2])]);
			if (rv == 0) ctx_open[c] = 1;
		} else if (strcmp(op, "ctxclose") == 0) {
			int c       = IDX(tok[1]);
			rv          = nng_ctx_close(ctxs[c]);
			ctx_open[c] = 0;
		} else if (strcmp(op, "conn") == 0) {
			int s = IDX(tok[1]);
			int r = sock_ep[s] ? vt_connect(sock_ep[s], (uint16_t) atoi(tok[2])) : -NNG_ECLOSED;
			if (r < 0) {
				rv = -r;
			} else {
				snprintf(extra, sizeof(extra), "pipe=p%d", r);
			}
		} else if (strcmp(op, "sent") == 0) {
			rv = vt_sent(IDX(tok[1]), nt > 2 ? atoi(tok[2]) : 0) == 0 ? 0 : NNG_ENOENT;
		} else if (strcmp(op, "inject") == 0) {
			size_t   len;
			uint8_t *d = untok(tok[2], &len);
			rv         = vt_inject(IDX(tok[1]), d, len) == 0 ? 0 : NNG_ENOENT;
			free(d);
		} else if (strcmp(op, "drop") == 0) {
			rv = vt_drop(IDX(tok[1])) == 0 ? 0 : NNG_ENOENT;
		} else if (strcmp(op, "send") == 0 || strcmp(op, "sendnb") == 0) {
			int      nb  = op[4] == 'n';
			int      isc = tok[1][0] == 'c';
			int      t   = IDX(tok[1]);
			int      ai  = nb ? -1 : IDX(tok[2]);
			nng_msg *m   = build_msg(tok[nb ? 2 : 3], tok[nb ? 3 : 4]);
			if (nb) {
				rv = isc ? nng_ctx_sendmsg(ctxs[t], m, NNG_FLAG_NONBLOCK) : nng_sendmsg(socks[t], m, NNG_FLAG_NONBLOCK);
				if (rv != 0) nng_msg_free(m); // a failed nng_sendmsg leaves the message with the caller
			} else if (aio_kind[ai] != 0) {
				nng_msg_free(m);
				rv = NNG_EBUSY;
			} else {
				nng_aio *a   = get_aio(ai);
				aio_kind[ai] = 1;
				aio_sent[ai] = m;
				nng_aio_set_msg(a, m);
				if (isc)
					nng_ctx_send(ctxs[t], a);
				else
					nng_socket_send(socks[t], a);
			}
		} else if (strcmp(op, "recv") == 0 || strcmp(op, "recvnb") == 0) {
			int nb  = op[4] == 'n';
			int isc = tok[1][0] == 'c';
			int t   = IDX(tok[1]);
			if (nb) {
				nng_msg *m = NULL;
				rv = isc ? nng_ctx_recvmsg(ctxs[t], &m, NNG_FLAG_NONBLOCK) : nng_recvmsg(socks[t], &m, NNG_FLAG_NONBLOCK);
				if (rv == 0) {
					vt_quiesce();
					printf("got=");
					print_msg(m);
					printf(" ");
					nng_msg_free(m);
				}
			} else {
				int ai = IDX(tok[2]);
				if (aio_kind[ai] != 0) {
					rv = NNG_EBUSY;
				} else {
					nng_aio *a   = get_aio(ai);
					aio_kind[ai] = 2;
					if (isc)
						nng_ctx_recv(ctxs[t], a);
					else
						nng_socket_recv(socks[t], a);
				}
			}
		} else if (strcmp(op, "cancel") == 0) {
			nng_aio_cancel(get_aio(IDX(tok[1])));
		} else if (strcmp(op, "astop") == 0) {
			// nng_aio_stop: waits for the callback; the aio refuses further operations, so retire it
			int k = IDX(tok[1]);
			if (aios[k] != NULL) {
				nng_aio_stop(aios[k]);
				vt_quiesce();
				nni_mtx_lock(&cb_mtx);
				int d = aio_done[k];
				nni_mtx_unlock(&cb_mtx);
				if (!d && aio_kind[k] != 0) {
					// never started or already idle
					aio_kind[k] = 0;
				}
			}
		} else if (strcmp(op, "aiotmo") == 0) {
			nng_aio_set_timeout(get_aio(IDX(tok[1])), atoi(tok[2]));
		} else if (strcmp(op, "setopt") == 0) {
			int         isc = tok[1][0] == 'c';
			int         t   = IDX(tok[1]);
			const char *nm  = tok[2];
			const char *ty  = tok[3];
			if (strcmp(ty, "int") == 0) {
				rv = isc ? nng_ctx_set_int(ctxs[t], nm, atoi(tok[4])) : nng_socket_set_int(socks[t], nm, atoi(tok[4]));
			} else if (strcmp(ty, "ms") == 0) {
				rv = isc ? nng_ctx_set_ms(ctxs[t], nm, atoi(tok[4])) : nng_socket_set_ms(socks[t], nm, atoi(tok[4]));
			} else if (strcmp(ty, "bool") == 0) {
				rv = isc ? nng_ctx_set_bool(ctxs[t], nm, atoi(tok[4]) != 0) : nng_socket_set_bool(socks[t], nm, atoi(tok[4]) != 0);
			} else if (strcmp(ty, "size") == 0) {
				rv = isc ? nng_ctx_set_size(ctxs[t], nm, (size_t) atoll(tok[4])) : nng_socket_set_size(socks[t], nm, (size_t) atoll(tok[4]));
			} else if (strcmp(ty, "sub") == 0 || strcmp(ty, "unsub") == 0) {
				size_t   len;
				uint8_t *d   = unhex(tok[4], &len);
				int      sub = ty[0] == 's';
				if (isc)
					rv = sub ? nng_sub0_ctx_subscribe(ctxs[t], d, len) : nng_sub0_ctx_unsubscribe(ctxs[t], d, len);
				else
					rv = sub ? nng_sub0_socket_subscribe(socks[t], d, len) : nng_sub0_socket_unsubscribe(socks[t], d, len);
				free(d);
			} else {
				rv = NNG_EINVAL;
			}
		} else if (strcmp(op, "advance") == 0) {
			nng_verif_clock_advance((uint64_t) atoll(tok[1]));
		} else if (strcmp(op, "sleep") == 0 || strcmp(op, "msleep") == 0) {
			nng_msleep(atoi(tok[1]));
		} else if (strcmp(op, "poll") == 0) {
			rv = 0;
			// ------------------------------------------------------------------
			// real transports: nothing timing dependent is printed
			// ------------------------------------------------------------------
		} else if (strcmp(op, "listen") == 0) {
			// listen s<k> l<e> <url>   (tcp://127.0.0.1:0 binds an ephemeral port, remembered for `dial ... :@<e>`)
			int e = IDX(tok[2]);
			rv    = nng_listen(socks[IDX(tok[1])], tok[3], &listeners[e], 0);
			if (rv == 0) {
				int port     = 0;
				lis_open[e]  = 1;
				if (nng_listener_get_int(listeners[e], NNG_OPT_BOUND_PORT, &port) == 0) lis_port[e] = port;
			}
			printf("x rv=%d\n", rv);
			fflush(stdout);
			continue;
		} else if (strcmp(op, "dial") == 0) {
			// dial s<k> d<e> <url> [nb]     (":@<e>" in the url = the port listener e is bound to)
			int   e = IDX(tok[2]);
			char  url[256];
			char *at = strstr(tok[3], ":@");
			if (at != NULL) {
				snprintf(url, sizeof(url), "%.*s:%d", (int) (at - tok[3]), tok[3], lis_port[atoi(at + 2)]);
			} else {
				snprintf(url, sizeof(url), "%s", tok[3]);
			}
			rv = nng_dial(socks[IDX(tok[1])], url, &dialers[e], nt > 4 ? NNG_FLAG_NONBLOCK : 0);
			if (rv == 0) dial_open[e] = 1;
			printf("x rv=%s\n", rv == 0 ? "0" : "E");
			fflush(stdout);
			continue;
		} else if (strcmp(op, "lclose") == 0 || strcmp(op, "dclose") == 0) {
			int e = IDX(tok[1]);
			if (op[0] == 'l' && lis_open[e]) {
				nng_listener_close(listeners[e]);
				lis_open[e] = 0;
			}
			if (op[0] == 'd' && dial_open[e]) {
				nng_dialer_close(dialers[e]);
				dial_open[e] = 0;
			}
			printf("x\n");
			fflush(stdout);
			continue;
		} else if (strcmp(op, "bsend") == 0) {
			// bsend s<k>|c<k> <hdr> <body> <timeout-ms>: blocking send with a timeout; result not printed
			int      isc = tok[1][0] == 'c';
			int      t   = IDX(tok[1]);
			nng_msg *m   = build_msg(tok[2], tok[3]);
			nng_aio *a;
			nng_aio_alloc(&a, NULL, NULL);
			nng_aio_set_timeout(a, atoi(tok[4]));
			nng_aio_set_msg(a, m);
			if (isc)
				nng_ctx_send(ctxs[t], a);
			else
				nng_socket_send(socks[t], a);
			nng_aio_wait(a);
			if (nng_aio_result(a) != 0) {
				nng_msg *back = nng_aio_get_msg(a);
				if (back == m)
					nng_msg_free(back);
				else {
					n_lost++;
					printf("x LOST rv=%d\n", nng_aio_result(a));
				}
			}
			nng_aio_free(a);
			printf("x\n");
			fflush(stdout);
			continue;
		} else if (strcmp(op, "brecv") == 0) {
			// brecv s<k>|c<k> <timeout-ms>
			int      isc = tok[1][0] == 'c';
			int      t   = IDX(tok[1]);
			nng_aio *a;
			nng_aio_alloc(&a, NULL, NULL);
			nng_aio_set_timeout(a, atoi(tok[2]));
			if (isc)
				nng_ctx_recv(ctxs[t], a);
			else
				nng_socket_recv(socks[t], a);
			nng_aio_wait(a);
			if (nng_aio_result(a) == 0) nng_msg_free(nng_aio_get_msg(a));
			nng_aio_free(a);
			printf("x\n");
			fflush(stdout);
			continue;
		} else if (strcmp(op, "bufsend") == 0) {
			// bufsend s<k> <hex>: nng_send (copies the buffer), non-blocking; result not printed
			size_t   len;
			uint8_t *d = unhex(tok[2], &len);
			(void) nng_send(socks[IDX(tok[1])], d, len, NNG_FLAG_NONBLOCK);
			free(d);
			printf("x\n");
			fflush(stdout);
			continue;
		} else if (strcmp(op, "bufrecv") == 0) {
			// bufrecv s<k> <size>: nng_recv into a caller buffer (truncating copy), non-blocking
			uint8_t buf[256];
			size_t  sz = (size_t) atoi(tok[2]);
			if (sz > sizeof(buf)) sz = sizeof(buf);
			(void) nng_recv(socks[IDX(tok[1])], buf, &sz, NNG_FLAG_NONBLOCK);
			printf("x\n");
			fflush(stdout);
			continue;
		} else if (strcmp(op, "await") == 0) {
			// await a<k> <ms>: wait for an aio started with send/recv; then settle it (not printed)
			int k = IDX(tok[1]);
			await_aio(k, atoi(tok[2]));
			nni_mtx_lock(&cb_mtx);
			if (aios[k] != NULL && aio_done[k]) {
				if (aio_msg[k] != NULL) nng_msg_free(aio_msg[k]);
				else if (aio_kind[k] == 1 && aio_rv[k] != 0) {
					n_lost++;
					printf("x LOST rv=%d\n", aio_rv[k]);
				}
				aio_msg[k]  = NULL;
				aio_sent[k] = NULL;
				aio_done[k] = 0;
				aio_kind[k] = 0;
			}
			nni_mtx_unlock(&cb_mtx);
			printf("x\n");
			fflush(stdout);
			continue;
		} else if (strcmp(op, "settle") == 0) {
			// settle: stop every aio (completes what is pending with an error) and reclaim messages
			for (int k = 0; k < NAIO; k++) {
				if (aios[k] == NULL || aio_kind[k] == 3) continue;
				nng_aio_stop(aios[k]);
				nni_mtx_lock(&cb_mtx);
				if (aio_msg[k] != NULL) nng_msg_free(aio_msg[k]);
				else if (aio_done[k] && aio_kind[k] == 1 && aio_rv[k] != 0) {
					n_lost++;
					printf("x LOST rv=%d\n", aio_rv[k]);
				}
				aio_msg[k]  = NULL;
				aio_sent[k] = NULL;
				nni_mtx_unlock(&cb_mtx);
				nng_aio_free(aios[k]);
				aios[k]     = NULL;
				aio_kind[k] = aio_done[k] = 0;
			}
			printf("x\n");
			fflush(stdout);
			continue;
		} else if (strcmp(op, "pclose") == 0) {
			// pclose s<k>: close the most recent pipe added to the socket
			int      s = IDX(tok[1]);
			nng_pipe p;
			int      h;
			nni_mtx_lock(&cb_mtx);
			p = last_pipe[s];
			h = have_pipe[s];
			have_pipe[s] = 0;
			nni_mtx_unlock(&cb_mtx);
			if (h) nng_pipe_close(p);
			printf("x\n");
			fflush(stdout);
			continue;
		} else if (strcmp(op, "device") == 0) {
			// device a<k> s<i> s<j>
			int      k = IDX(tok[1]);
			nng_aio *a = get_aio(k);
			aio_kind[k] = 3;
			nng_device_aio(a, socks[IDX(tok[2])], socks[IDX(tok[3])]);
			printf("x\n");
			fflush(stdout);
			continue;
		} else if (strcmp(op, "devstop") == 0) {
			int k = IDX(tok[1]);
			if (aios[k] != NULL) {
				if (nt > 2)
					nng_aio_cancel(aios[k]);
				else
					nng_aio_stop(aios[k]);
			}
			printf("x\n");
			fflush(stdout);
			continue;
		} else if (strcmp(op, "counters") == 0) {
			// counters: messages alive right now (timing dependent while things are open; exact after closes)
			vt_quiesce();
			printf("x refs=%ld live=%ld lost=%ld\n", cur_refs() < 0 ? -1 : cur_refs() - base_refs, cur_live() - base_live, n_lost);
			fflush(stdout);
			continue;
		} else {
			printf("badop %s\n", op);
			fflush(stdout);
			continue;
		}
		observe(rv, extra[0] ? extra : NULL);
	}
	reset_all();
	long end_refs = cur_refs(), end_live = cur_live();
	nng_fini();
	pthread_mutex_lock(&acc_mtx);
	printf("fini outstanding=%ld/%ld allocs=%ld frees=%ld badsize=%ld badptr=%ld msgrefs=%ld msglive=%ld lost=%ld%s%s\n", acc_live_bytes, acc_live_blocks,
	    acc_allocs, acc_frees, acc_bad_size, acc_bad_unknown, end_refs < 0 ? 0 : end_refs - base_refs, end_live - base_live, n_lost,
	    acc_first_bad[0] ? " first=" : "", acc_first_bad);
	if (acc_live_blocks != 0) {
		int shown = 0;
		for (int h = 0; h < ACC_BUCKETS && shown < 8; h++)
			for (acc_node *n = acc_tab[h]; n != NULL && shown < 8; n = n->next, shown++) printf("outstanding block size=%zu\n", n->size);
	}
	pthread_mutex_unlock(&acc_mtx);
	fflush(stdout);
	return 0;
}
