// wb_pipeev_real.h: scenario mode of wb_pipeev.c -- real transports (tcp, ipc, inproc), raw
// TCP / UNIX-socket peers, real schedules.  Each scenario prints a log; checks/c14.py
// evaluates the property's clauses on it.  Nothing here decides pass/fail.
//
//   real    <tcp|ipc|inproc> <seed> <actions>          several sockets/dialers/listeners, random closes/rejects
//   redial  <tcp|ipc> <seed> <min> <max> <rounds>      a raw listener counts a dialer's attempts (virtual clock)
//   hostile <tcp|ipc> <seed> <rounds>                  a raw client misbehaves; a control client must connect
//   lrestart <tcp|ipc|inproc> <seed> <rounds>          a listener is closed and re-opened at the same address while
//                                                      connects are queued on it / in handshake / established
#ifndef WB_PIPEEV_REAL_H
#define WB_PIPEEV_REAL_H

static uint64_t rng_s;
static uint32_t
rnd(void)
{
	rng_s = rng_s * 6364136223846793005ULL + 1442695040888963407ULL;
	return (uint32_t) (rng_s >> 33);
}
static int
rndn(int n)
{
	return n <= 0 ? 0 : (int) (rnd() % (uint32_t) n);
}
static uint64_t
real_ms(void)
{
	struct timespec ts;
	clock_gettime(CLOCK_MONOTONIC, &ts);
	return (uint64_t) ts.tv_sec * 1000 + (uint64_t) ts.tv_nsec / 1000000;
}
static void
msleep(int ms)
{
	struct timespec ts = { ms / 1000, (ms % 1000) * 1000000L };
	nanosleep(&ts, NULL);
}

static void
dump_log(void)
{
	pthread_mutex_lock(&ev_mtx);
	for (int i = 0; i < nev; i++) {
		evrec *e = &evlog[i];
		switch (e->mark) {
		case 0: printf("E %d s%d %u %d d%d l%d\n", i, e->sock, e->pid, e->ev, e->did, e->lid); break;
		case 1: printf("C %d s%d\n", i, e->sock); break;
		case 2: printf("M %d s%d %u\n", i, e->sock, e->pid); break;
		case 3: printf("X %d s%d %u %d\n", i, e->sock, e->pid, e->ev); break;
		case 4: printf("K %d s%d %u\n", i, e->sock, e->pid); break; // nng_pipe_close from the main thread
		case 5: printf("B %d s%d %d\n", i, e->sock, e->ev); break;  // listener of s closed (ev 0) / re-opened (ev 1)
		}
	}
	if (nev >= NLOG) printf("LOG-OVERFLOW\n");
	pthread_mutex_unlock(&ev_mtx);
}

static const char *
mk_url(const char *tr, int k, char *buf, size_t n)
{
	if (strcmp(tr, "tcp") == 0)
		snprintf(buf, n, "tcp://127.0.0.1:0");
	else if (strcmp(tr, "ipc") == 0)
		snprintf(buf, n, "ipc:///tmp/nngv_c14_%d_%d.sock", (int) getpid(), k);
	else
		snprintf(buf, n, "inproc://nngv_c14_%d_%d", (int) getpid(), k);
	return buf;
}

// the address a dialer must use for a started listener
static void
listener_addr(const char *tr, nng_listener l, const char *url, char *buf, size_t n)
{
	if (strcmp(tr, "tcp") == 0) {
		int port = 0;
		nng_listener_get_int(l, NNG_OPT_BOUND_PORT, &port);
		snprintf(buf, n, "tcp://127.0.0.1:%d", port);
	} else {
		snprintf(buf, n, "%s", url);
	}
}

// ---------------------------------------------------------------- scenario: real
#define R_NSOCK 3
#define R_NL 6
#define R_ND 10
typedef struct {
	nng_listener l;
	int          sock;
	int          open;
	char         addr[96];
} r_lst;
typedef struct {
	nng_dialer d;
	int        sock;
	int        target; // listener index
	int        open;
} r_dial;

static int
live_pipes(uint32_t *ids, int *sk, int max)
{
	// pipes that had an event and no REM_POST yet (from the log)
	int n = 0;
	pthread_mutex_lock(&ev_mtx);
	for (int i = 0; i < nev && n < max; i++) {
		if (evlog[i].mark != 0 || evlog[i].ev != NNG_PIPE_EV_ADD_PRE) continue;
		int gone = 0;
		for (int j = i + 1; j < nev; j++)
			if (evlog[j].mark == 0 && evlog[j].pid == evlog[i].pid && evlog[j].sock == evlog[i].sock && evlog[j].ev == NNG_PIPE_EV_REM_POST) gone = 1;
		if (!gone) {
			ids[n] = evlog[i].pid;
			sk[n]  = evlog[i].sock;
			n++;
		}
	}
	pthread_mutex_unlock(&ev_mtx);
	return n;
}

static int
scenario_real(const char *tr, uint64_t seed, int nact)
{
	static r_lst  L[R_NL];
	static r_dial D[R_ND];
	int           nl = 0, nd = 0, urlk = 0;
	char          url[96];
	rng_s       = seed * 2654435761ULL + 12345;
	cb_seed     = seed | 1;
	cb_rej_pre  = 120 + rndn(150);
	cb_rej_post = 60 + rndn(120);
	int rmin    = (int[]){ 0, 1, 5, 20, 40 }[rndn(5)];
	int rmax    = (int[]){ 0, 0, 30, 100, 10 }[rndn(5)];
	printf("P transport=%s seed=%llu min=%d max=%d rej_pre=%d rej_post=%d\n", tr, (unsigned long long) seed, rmin, rmax, cb_rej_pre, cb_rej_post);
	for (int s = 0; s < R_NSOCK; s++) {
		if (nng_bus0_open(&socks[s]) != 0) return 3;
		sock_open[s] = 1;
		nng_socket_set_ms(socks[s], NNG_OPT_RECONNMINT, rmin);
		nng_socket_set_ms(socks[s], NNG_OPT_RECONNMAXT, rmax);
		for (int e = 1; e <= 3; e++) nng_pipe_notify(socks[s], (nng_pipe_ev) e, pipe_cb, (void *) (intptr_t) s);
	}
#define ADD_L(s)                                                                          \
	do {                                                                              \
		if (nl < R_NL && sock_open[s]) {                                          \
			mk_url(tr, urlk++, url, sizeof(url));                             \
			if (nng_listener_create(&L[nl].l, socks[s], url) == 0) {          \
				if (nng_listener_start(L[nl].l, 0) == 0) {                \
					L[nl].sock = s;                                   \
					L[nl].open = 1;                                   \
					listener_addr(tr, L[nl].l, url, L[nl].addr, sizeof(L[nl].addr)); \
					printf("A listener l%d id=%d s%d %s\n", nl, nng_listener_id(L[nl].l), s, L[nl].addr); \
					nl++;                                             \
				} else {                                                  \
					nng_listener_close(L[nl].l);                      \
				}                                                         \
			}                                                                 \
		}                                                                         \
	} while (0)
#define ADD_D(s, t)                                                                       \
	do {                                                                              \
		if (nd < R_ND && sock_open[s] && (t) < nl && L[t].sock != (s)) {          \
			if (nng_dialer_create(&D[nd].d, socks[s], L[t].addr) == 0) {      \
				nng_dialer_start(D[nd].d, NNG_FLAG_NONBLOCK);             \
				D[nd].sock   = s;                                         \
				D[nd].target = t;                                         \
				D[nd].open   = 1;                                         \
				printf("A dialer d%d id=%d s%d -> l%d\n", nd, nng_dialer_id(D[nd].d), s, t); \
				nd++;                                                     \
			}                                                                 \
		}                                                                         \
	} while (0)
	ADD_L(0);
	ADD_L(0);
	ADD_L(2);
	ADD_D(1, 0);
	ADD_D(1, 1);
	ADD_D(1, 2);
	ADD_D(2, 0);
	for (int a = 0; a < nact; a++) {
		int r = rndn(100);
		if (r < 22) {
			uint32_t ids[64];
			int      sk[64];
			int      n = live_pipes(ids, sk, 64);
			if (n > 0) {
				int      k = rndn(n);
				nng_pipe p;
				p.id = ids[k];
				log_rec(sk[k], ids[k], 0, 0, 0, 4);
				nng_pipe_close(p);
			}
		} else if (r < 45) {
			int      s = rndn(R_NSOCK);
			nng_msg *m;
			if (sock_open[s] && nng_msg_alloc(&m, 4) == 0) {
				if (nng_sendmsg(socks[s], m, NNG_FLAG_NONBLOCK) != 0) nng_msg_free(m);
			}
		} else if (r < 52) {
			int k = rndn(nd > 0 ? nd : 1);
			if (nd > 0 && D[k].open) {
				printf("A dclose d%d\n", k);
				nng_dialer_close(D[k].d);
				D[k].open = 0;
			}
		} else if (r < 57) {
			int k = rndn(nl > 0 ? nl : 1);
			if (nl > 0 && L[k].open) {
				printf("A lclose l%d\n", k);
				nng_listener_close(L[k].l);
				L[k].open = 0;
			}
		} else if (r < 63) {
			int s = rndn(R_NSOCK), t = rndn(nl > 0 ? nl : 1);
			if (nl > 0 && L[t].open) ADD_D(s, t);
		} else if (r < 66) {
			int s = rndn(R_NSOCK);
			ADD_L(s);
		} else if (r < 85) {
			nng_verif_clock_advance((uint64_t) rndn(120));
		} else {
			msleep(rndn(8));
		}
		// drain whatever arrived
		for (int s = 0; s < R_NSOCK; s++) {
			nng_msg *m;
			while (sock_open[s] && nng_recvmsg(socks[s], &m, NNG_FLAG_NONBLOCK) == 0) {
				log_rec(s, (uint32_t) nng_pipe_id(nng_msg_get_pipe(m)), 0, 0, 0, 2);
				nng_msg_free(m);
			}
		}
		if (rndn(3) == 0) msleep(rndn(4));
	}
	// settle: no more rejections; every open dialer whose listener is open must get a pipe
	pthread_mutex_lock(&ev_mtx);
	cb_rej_pre = cb_rej_post = 0;
	pthread_mutex_unlock(&ev_mtx);
	uint64_t t0 = real_ms();
	int      stable = 0;
	int      has[R_ND];
	// (a pipe may still be lost right after it was seen -- closes issued earlier propagate from the
	//  peer -- so the condition must hold at three consecutive looks; the L lines report those looks)
	while (stable < 3 && real_ms() - t0 < 8000) {
		int all = 1;
		for (int k = 0; k < nd; k++) {
			nni_dialer *d;
			has[k] = -1;
			if (!D[k].open) continue;
			if (nni_dialer_find(&d, (uint32_t) nng_dialer_id(D[k].d)) != 0) continue;
			has[k] = d->d_pipe != NULL;
			if (L[D[k].target].open && !has[k]) all = 0;
			nni_dialer_rele(d);
		}
		stable = all ? stable + 1 : 0;
		if (!all) nng_verif_clock_advance(150);
		msleep(4);
	}
	for (int k = 0; k < nd; k++) {
		printf("L d%d id=%d open=%d target_open=%d pipe=%d waited=%llu stable=%d\n", k, nng_dialer_id(D[k].d), D[k].open, L[D[k].target].open, has[k],
		    (unsigned long long) (real_ms() - t0), stable);
	}
	// close the sockets in a random order
	int order[R_NSOCK] = { 0, 1, 2 };
	for (int i = R_NSOCK - 1; i > 0; i--) {
		int j = rndn(i + 1), t = order[i];
		order[i] = order[j];
		order[j] = t;
	}
	for (int i = 0; i < R_NSOCK; i++) {
		int s = order[i];
		nng_socket_close(socks[s]);
		log_rec(s, 0, 0, 0, 0, 1);
		sock_open[s] = 0;
		if (rndn(2)) msleep(rndn(5));
	}
	msleep(30);
	pv_quiesce();
	dump_log();
	printf("real-done\n");
	return 0;
}

// ---------------------------------------------------------------- raw peers
typedef struct {
	int  fd;
	int  is_tcp;
	char url[108];
	char path[108];
} rawl;

static int
rawl_open(rawl *r, const char *tr, int k)
{
	memset(r, 0, sizeof(*r));
	r->is_tcp = strcmp(tr, "tcp") == 0;
	if (r->is_tcp) {
		struct sockaddr_in sa;
		socklen_t          sl = sizeof(sa);
		int                one = 1;
		r->fd                  = socket(AF_INET, SOCK_STREAM, 0);
		setsockopt(r->fd, SOL_SOCKET, SO_REUSEADDR, &one, sizeof(one));
		memset(&sa, 0, sizeof(sa));
		sa.sin_family      = AF_INET;
		sa.sin_addr.s_addr = htonl(INADDR_LOOPBACK);
		if (bind(r->fd, (struct sockaddr *) &sa, sizeof(sa)) != 0 || listen(r->fd, 64) != 0) return -1;
		getsockname(r->fd, (struct sockaddr *) &sa, &sl);
		snprintf(r->url, sizeof(r->url), "tcp://127.0.0.1:%d", ntohs(sa.sin_port));
	} else {
		struct sockaddr_un su;
		r->fd = socket(AF_UNIX, SOCK_STREAM, 0);
		memset(&su, 0, sizeof(su));
		su.sun_family = AF_UNIX;
		snprintf(r->path, sizeof(r->path), "/tmp/nngv_c14_raw_%d_%d.sock", (int) getpid(), k);
		snprintf(su.sun_path, sizeof(su.sun_path), "%s", r->path);
		unlink(r->path);
		if (bind(r->fd, (struct sockaddr *) &su, sizeof(su)) != 0 || listen(r->fd, 64) != 0) return -1;
		snprintf(r->url, sizeof(r->url), "ipc://%s", r->path);
	}
	return 0;
}
static void
rawl_close(rawl *r)
{
	close(r->fd);
	if (!r->is_tcp) unlink(r->path);
}
// wait up to ms (real) for a connection; -1 if none
static int
rawl_accept(rawl *r, int ms)
{
	struct pollfd pf = { .fd = r->fd, .events = POLLIN };
	if (poll(&pf, 1, ms) != 1) return -1;
	return accept(r->fd, NULL, NULL);
}
static void
sp_header(uint8_t *h, uint16_t proto)
{
	h[0] = 0;
	h[1] = 'S';
	h[2] = 'P';
	h[3] = 0;
	h[4] = (uint8_t) (proto >> 8);
	h[5] = (uint8_t) proto;
	h[6] = h[7] = 0;
}
static void
hard_close(int fd)
{
	struct linger lg = { 1, 0 };
	setsockopt(fd, SOL_SOCKET, SO_LINGER, &lg, sizeof(lg));
	close(fd);
}
static int
read_n(int fd, uint8_t *b, int n, int ms)
{
	int got = 0;
	while (got < n) {
		struct pollfd pf = { .fd = fd, .events = POLLIN };
		if (poll(&pf, 1, ms) != 1) break;
		int r = (int) read(fd, b + got, (size_t) (n - got));
		if (r <= 0) break;
		got += r;
	}
	return got;
}
// connect a raw client to an nng listener's address ("tcp://127.0.0.1:port" or "ipc://path")
static int
raw_connect(const char *addr)
{
	int fd;
	if (strncmp(addr, "tcp://", 6) == 0) {
		struct sockaddr_in sa;
		memset(&sa, 0, sizeof(sa));
		sa.sin_family      = AF_INET;
		sa.sin_addr.s_addr = htonl(INADDR_LOOPBACK);
		sa.sin_port        = htons((uint16_t) atoi(strrchr(addr, ':') + 1));
		fd                 = socket(AF_INET, SOCK_STREAM, 0);
		if (connect(fd, (struct sockaddr *) &sa, sizeof(sa)) != 0) {
			close(fd);
			return -1;
		}
	} else {
		struct sockaddr_un su;
		memset(&su, 0, sizeof(su));
		su.sun_family = AF_UNIX;
		snprintf(su.sun_path, sizeof(su.sun_path), "%s", addr + 6);
		fd = socket(AF_UNIX, SOCK_STREAM, 0);
		if (connect(fd, (struct sockaddr *) &su, sizeof(su)) != 0) {
			close(fd);
			return -1;
		}
	}
	return fd;
}

// ---------------------------------------------------------------- scenario: redial
static int
scenario_redial(const char *tr, uint64_t seed, int rmin, int rmax, int rounds)
{
	rawl        R;
	nng_dialer  dl;
	nni_dialer *d;
	int         bound = rmin > rmax ? rmin : rmax;
	rng_s             = seed * 2654435761ULL + 99;
	if (rawl_open(&R, tr, 0) != 0) return 3;
	if (nng_bus0_open(&socks[0]) != 0) return 3;
	sock_open[0] = 1;
	for (int e = 1; e <= 3; e++) nng_pipe_notify(socks[0], (nng_pipe_ev) e, pipe_cb, (void *) (intptr_t) 0);
	if (nng_dialer_create(&dl, socks[0], R.url) != 0) return 3;
	// half of the runs set the options on the socket before the dialer exists -- same effect expected
	nng_dialer_set_ms(dl, NNG_OPT_RECONNMINT, rmin);
	nng_dialer_set_ms(dl, NNG_OPT_RECONNMAXT, rmax);
	nng_dialer_start(dl, NNG_FLAG_NONBLOCK);
	if (nni_dialer_find(&d, (uint32_t) nng_dialer_id(dl)) != 0) return 3;
	printf("P transport=%s seed=%llu min=%d max=%d bound=%d\n", tr, (unsigned long long) seed, rmin, rmax, bound);
	int att = 0;
	for (int k = 0; k < rounds; k++) {
		uint64_t w0 = real_ms();
		int      fd = rawl_accept(&R, 4000);
		uint64_t wr = real_ms() - w0;
		if (fd < 0) {
			printf("R %d arrived=0 wait_real=%llu att=%d tmo=%d conn=%d pipe=%d\n", k, (unsigned long long) wr, att, d->d_tmo_aio.a_sleep ? 1 : 0,
			    -1, d->d_pipe != NULL);
			break;
		}
		att++;
		int     mode = rndn(6);
		uint8_t h[8], in[8];
		int     started = 0;
		switch (mode) {
		case 0: hard_close(fd); break;                      // reset at once
		case 1: close(fd); break;                           // orderly close before any byte
		case 2:                                             // garbage instead of the SP header
			(void) !write(fd, "GET / HT", 8);
			read_n(fd, in, 8, 200);
			close(fd);
			break;
		case 3:                                             // short header
			(void) !write(fd, "\0SP", 3);
			msleep(2);
			hard_close(fd);
			break;
		case 4:                                             // valid header of another protocol (pair0): pipe_start refuses
			sp_header(h, 0x10);
			(void) !write(fd, h, 8);
			read_n(fd, in, 8, 500);
			msleep(5);
			close(fd);
			started = 1;
			break;
		default:                                            // good peer that goes away a little later
			sp_header(h, 0x70);
			(void) !write(fd, h, 8);
			read_n(fd, in, 8, 500);
			msleep(3 + rndn(10));
			if (rndn(2)) hard_close(fd); else close(fd);
			started = 2;
			break;
		}
		// wait (real time) until the dialer has noticed and armed its timer; the timer may already
		// have fired when the delay drawn was tiny -- then the next attempt is simply there
		uint64_t a0 = real_ms();
		int      armed = 0;
		long long rem = -1;
		int      cur = -1;
		while (real_ms() - a0 < 3000) {
			if (d->d_tmo_aio.a_sleep) {
				nni_time now = nni_clock(), ex = d->d_tmo_aio.a_expire;
				armed = 1;
				rem   = ex > now ? (long long) (ex - now) : 0;
				cur   = (int) d->d_currtime;
				break;
			}
			struct pollfd pf = { .fd = R.fd, .events = POLLIN };
			if (poll(&pf, 1, 0) == 1) break; // already redialled
			msleep(1);
		}
		printf("R %d arrived=1 wait_real=%llu mode=%d started=%d armed=%d cur=%d rem=%lld att=%d\n", k, (unsigned long long) wr, mode, started, armed, cur, rem, att);
		// everything the property allows the delay to be has now elapsed on the virtual clock
		if (bound > 0) nng_verif_clock_advance((uint64_t) bound);
	}
	nni_dialer_rele(d);
	nng_socket_close(socks[0]);
	log_rec(0, 0, 0, 0, 0, 1);
	sock_open[0] = 0;
	rawl_close(&R);
	msleep(20);
	pv_quiesce();
	dump_log();
	printf("redial-done\n");
	return 0;
}

// ---------------------------------------------------------------- scenario: hostile
static nng_aio *ctl_aio;
static int
control_connect(const char *addr, int *rvp, uint64_t *msp)
{
	// a well-behaved client: must get connected whatever the hostile peer did before
	nng_socket c;
	nng_dialer cd;
	int        rv;
	uint64_t   t0 = real_ms();
	if ((rv = nng_bus0_open(&c)) != 0) return rv;
	if (ctl_aio == NULL) nng_aio_alloc(&ctl_aio, NULL, NULL);
	nng_aio_set_timeout(ctl_aio, 8000);
	rv = nng_dialer_create(&cd, c, addr);
	if (rv == 0) {
		nng_dialer_start_aio(cd, NNG_FLAG_NONBLOCK, ctl_aio);
		nng_aio_wait(ctl_aio);
		rv = nng_aio_result(ctl_aio);
	}
	*rvp = rv;
	*msp = real_ms() - t0;
	// leave it connected a moment so that the listener side runs its callbacks
	int seen = 0;
	for (int i = 0; i < 2000 && !seen && rv == 0; i++) {
		pthread_mutex_lock(&ev_mtx);
		for (int j = ev_shown; j < nev; j++)
			if (evlog[j].mark == 0 && evlog[j].sock == 0 && evlog[j].ev == NNG_PIPE_EV_ADD_POST) seen = 1;
		pthread_mutex_unlock(&ev_mtx);
		if (!seen) msleep(1);
	}
	pthread_mutex_lock(&ev_mtx);
	ev_shown = nev;
	pthread_mutex_unlock(&ev_mtx);
	nng_socket_close(c);
	return seen;
}

static int
scenario_hostile(const char *tr, uint64_t seed, int rounds)
{
	nng_listener l;
	char         url[96], addr[96];
	rng_s = seed * 2654435761ULL + 7;
	if (nng_bus0_open(&socks[0]) != 0) return 3;
	sock_open[0] = 1;
	for (int e = 1; e <= 3; e++) nng_pipe_notify(socks[0], (nng_pipe_ev) e, pipe_cb, (void *) (intptr_t) 0);
	mk_url(tr, 0, url, sizeof(url));
	if (nng_listener_create(&l, socks[0], url) != 0 || nng_listener_start(l, 0) != 0) return 3;
	listener_addr(tr, l, url, addr, sizeof(addr));
	printf("P transport=%s seed=%llu addr=%s\n", tr, (unsigned long long) seed, addr);
	int held[64], nheld = 0;
	for (int k = 0; k < rounds; k++) {
		int     kind = rndn(7);
		uint8_t h[8], in[8];
		int     fd, n = 1;
		switch (kind) {
		case 0: // reset before the transport gets to accept()
			n = 1 + rndn(20);
			for (int i = 0; i < n; i++) {
				if ((fd = raw_connect(addr)) >= 0) hard_close(fd);
			}
			break;
		case 1: // garbage handshake
			if ((fd = raw_connect(addr)) >= 0) {
				(void) !write(fd, "\xff\xfe\xfd\xfc\xfb\xfa\xf9\xf8", 8);
				read_n(fd, in, 8, 300);
				close(fd);
			}
			break;
		case 2: // half a header, then reset
			if ((fd = raw_connect(addr)) >= 0) {
				(void) !write(fd, "\0SP\0", 4);
				msleep(rndn(5));
				hard_close(fd);
			}
			break;
		case 3: // header of another protocol
			if ((fd = raw_connect(addr)) >= 0) {
				sp_header(h, 0x30);
				(void) !write(fd, h, 8);
				read_n(fd, in, 8, 300);
				msleep(2);
				close(fd);
			}
			break;
		case 4: // says nothing and stays (until the negotiation timeout on the virtual clock)
			if (nheld < 64 && (fd = raw_connect(addr)) >= 0) held[nheld++] = fd;
			break;
		case 5: // good handshake, then a reset in the middle of things
			if ((fd = raw_connect(addr)) >= 0) {
				sp_header(h, 0x70);
				(void) !write(fd, h, 8);
				read_n(fd, in, 8, 300);
				hard_close(fd);
			}
			break;
		default: // a burst of orderly closes
			n = 1 + rndn(30);
			for (int i = 0; i < n; i++) {
				if ((fd = raw_connect(addr)) >= 0) close(fd);
			}
			break;
		}
		int      crv  = -1;
		uint64_t cms  = 0;
		int      seen = control_connect(addr, &crv, &cms);
		printf("H %d kind=%d n=%d ctl_rv=%d ctl_ms=%llu s_addpost=%d held=%d\n", k, kind, n, crv, (unsigned long long) cms, seen, nheld);
		if (kind == 4 && rndn(2)) {
			// let the negotiation of the silent ones time out (10 s on the virtual clock)
			nng_verif_clock_advance(10050);
			msleep(20);
			for (int i = 0; i < nheld; i++) close(held[i]);
			nheld = 0;
			seen  = control_connect(addr, &crv, &cms);
			printf("H %d kind=9 n=0 ctl_rv=%d ctl_ms=%llu s_addpost=%d held=%d\n", k, crv, (unsigned long long) cms, seen, nheld);
		}
	}
	for (int i = 0; i < nheld; i++) close(held[i]);
	nng_socket_close(socks[0]);
	log_rec(0, 0, 0, 0, 0, 1);
	sock_open[0] = 0;
	if (ctl_aio != NULL) {
		nng_aio_free(ctl_aio);
		ctl_aio = NULL;
	}
	msleep(20);
	pv_quiesce();
	dump_log();
	printf("hostile-done\n");
	return 0;
}

// ---------------------------------------------------------------- scenario: waitleak
// a listener closed while a connection that has finished the SP handshake is still waiting to be
// matched with an accept (the listener is in its 100 ms cool-down after a garbage handshake)
static int
scenario_waitleak(const char *tr)
{
	nng_listener l;
	char         url[96], addr[96];
	uint8_t      h[8], in[8];
	int          fd, good;
	if (nng_bus0_open(&socks[0]) != 0) return 3;
	sock_open[0] = 1;
	for (int e = 1; e <= 3; e++) nng_pipe_notify(socks[0], (nng_pipe_ev) e, pipe_cb, (void *) (intptr_t) 0);
	mk_url(tr, 0, url, sizeof(url));
	if (nng_listener_create(&l, socks[0], url) != 0 || nng_listener_start(l, 0) != 0) return 3;
	listener_addr(tr, l, url, addr, sizeof(addr));
	if ((fd = raw_connect(addr)) < 0) return 3;
	(void) !write(fd, "\xff\xfe\xfd\xfc\xfb\xfa\xf9\xf8", 8); // -> NNG_EPROTO -> cool-down
	read_n(fd, in, 8, 300);
	close(fd);
	msleep(10);
	if ((good = raw_connect(addr)) < 0) return 3;
	sp_header(h, 0x70);
	(void) !write(good, h, 8);
	int n = read_n(good, in, 8, 300);
	msleep(10); // negotiated; the listener's accept is not pending: the pipe waits
	nni_listener *nl;
	int           cooling = 0;
	if (nni_listener_find(&nl, (uint32_t) nng_listener_id(l)) == 0) {
		cooling = nl->l_tmo_aio.a_sleep ? 1 : 0;
		nni_listener_rele(nl);
	}
	printf("W handshake_bytes=%d cooling=%d\n", n, cooling);
	nng_listener_close(l);
	msleep(10);
	close(good);
	nng_socket_close(socks[0]);
	sock_open[0] = 0;
	msleep(20);
	pv_quiesce();
	dump_log();
	printf("waitleak-done\n");
	return 0;
}

// ---------------------------------------------------------------- scenario: lrestart
// A listener goes away and comes back at the same address while dialers are (a) queued on it -- their connect
// arrived while the listener had no accept outstanding, because its accept callback sits in a slow ADD_PRE
// callback of the previous connection --, (b) connected at the transport level / in the SP handshake, or
// (c) fully connected.  Every dialer is open throughout: each of them must have a pipe to the NEW listener once
// the larger reconnect time has passed on the virtual clock.
static int
scenario_lrestart(const char *tr, uint64_t seed, int rounds)
{
	static const int cfg[][2] = { { 10, 10 }, { 20, 0 }, { 5, 40 }, { 0, 0 }, { 30, 10 }, { 1, 100 } };
	char url[96], addr[96];
	rng_s = seed * 2654435761ULL + 4242;
	int ci = rndn(6), rmin = cfg[ci][0], rmax = cfg[ci][1], bound = rmin > rmax ? rmin : rmax;
	printf("P transport=%s seed=%llu min=%d max=%d bound=%d\n", tr, (unsigned long long) seed, rmin, rmax, bound);
	for (int s = 0; s < 4; s++) {
		if (nng_bus0_open(&socks[s]) != 0) return 3;
		sock_open[s] = 1;
		nng_socket_set_ms(socks[s], NNG_OPT_RECONNMINT, rmin);
		nng_socket_set_ms(socks[s], NNG_OPT_RECONNMAXT, rmax);
		for (int e = 1; e <= 3; e++) nng_pipe_notify(socks[s], (nng_pipe_ev) e, pipe_cb, (void *) (intptr_t) s);
	}
	for (int k = 0; k < rounds; k++) {
		nng_listener l1, l2;
		nng_dialer   dl[3];
		int          variant = rndn(4); // 0,1: slow ADD_PRE (connects queue up); 2: no delay; 3: close at once
		int          nb      = 1 + rndn(2);
		int          l2rv    = -1;
		mk_url(tr, 100 + k, url, sizeof(url));
		if (nng_listener_create(&l1, socks[0], url) != 0 || nng_listener_start(l1, 0) != 0) {
			printf("Q %d setup-failed\n", k);
			continue;
		}
		listener_addr(tr, l1, url, addr, sizeof(addr));
		pthread_mutex_lock(&ev_mtx);
		cb_block_sock = 0;
		cb_block_ms   = 100 + rndn(120);
		cb_block_n    = variant <= 1 ? 1 : 0;
		pthread_mutex_unlock(&ev_mtx);
		int nd = 0;
		if (nng_dialer_create(&dl[nd], socks[1], addr) == 0) {
			nng_dialer_start(dl[nd], NNG_FLAG_NONBLOCK);
			nd++;
		}
		if (variant != 3) msleep(10 + rndn(30));
		for (int b = 0; b < nb; b++) {
			if (nng_dialer_create(&dl[nd], socks[2 + b], addr) == 0) {
				nng_dialer_start(dl[nd], NNG_FLAG_NONBLOCK);
				nd++;
			}
		}
		if (variant != 3) msleep(10 + rndn(50));
		log_rec(0, 0, 0, 0, 0, 5);
		nng_listener_close(l1); // (waits for the accept callback, i.e. for the slow ADD_PRE callback)
		if (rndn(2)) msleep(rndn(25));
		for (int i = 0; i < 200 && l2rv != 0; i++) {
			l2rv = nng_listener_create(&l2, socks[0], addr);
			if (l2rv == 0 && (l2rv = nng_listener_start(l2, 0)) != 0) nng_listener_close(l2);
			if (l2rv != 0) msleep(5);
		}
		log_rec(0, 0, 1, 0, 0, 5);
		uint64_t t0 = real_ms();
		int      stable = 0, has[3] = { -1, -1, -1 };
		while (l2rv == 0 && stable < 3 && real_ms() - t0 < 3000) {
			int all = 1;
			for (int i = 0; i < nd; i++) {
				nni_dialer *d;
				has[i] = -1;
				if (nni_dialer_find(&d, (uint32_t) nng_dialer_id(dl[i])) != 0) continue;
				has[i] = d->d_pipe != NULL;
				if (!has[i]) all = 0;
				nni_dialer_rele(d);
			}
			stable = all ? stable + 1 : 0;
			if (!all) nng_verif_clock_advance((uint64_t) bound + 1);
			msleep(4);
		}
		printf("Q %d variant=%d nb=%d l2rv=%d stable=%d waited=%llu", k, variant, nb, l2rv, stable, (unsigned long long) (real_ms() - t0));
		for (int i = 0; i < nd; i++) printf(" d%d=%d", nng_dialer_id(dl[i]), has[i]);
		printf("\n");
		for (int i = 0; i < nd; i++) nng_dialer_close(dl[i]);
		if (l2rv == 0) nng_listener_close(l2);
		msleep(5);
		if (l2rv == 0 && stable < 3) break; // one failing round is enough for the oracle
	}
	for (int s = 0; s < 4; s++) {
		nng_socket_close(socks[s]);
		log_rec(s, 0, 0, 0, 0, 1);
		sock_open[s] = 0;
	}
	msleep(20);
	pv_quiesce();
	dump_log();
	printf("lrestart-done\n");
	return 0;
}

// hook H5 (named delay points on the create/close paths): seeded random sleeps widen the race windows
extern void (*nng_verif_delay_hook)(int point, void *obj);
static uint64_t dly_seed;
static void
delay_hook(int point, void *obj)
{
	uint64_t h = mix(dly_seed ^ ((uint64_t) point << 32) ^ (uint64_t) (uintptr_t) obj ^ (uint64_t) real_ms());
	if ((h & 3) == 0) {
		struct timespec ts = { 0, (long) ((h >> 8) % 2000000) };
		nanosleep(&ts, NULL);
	}
}

static int
scenario_main(int argc, char **argv)
{
	if (getenv("C14_DELAY_SEED") != NULL && atoll(getenv("C14_DELAY_SEED")) != 0) {
		dly_seed             = strtoull(getenv("C14_DELAY_SEED"), NULL, 10);
		nng_verif_delay_hook = delay_hook;
	}
	if (argc >= 3 && strcmp(argv[1], "waitleak") == 0) return scenario_waitleak(argv[2]);
	if (argc >= 5 && strcmp(argv[1], "lrestart") == 0) return scenario_lrestart(argv[2], strtoull(argv[3], NULL, 10), atoi(argv[4]));
	if (argc >= 5 && strcmp(argv[1], "real") == 0) return scenario_real(argv[2], strtoull(argv[3], NULL, 10), atoi(argv[4]));
	if (argc >= 7 && strcmp(argv[1], "redial") == 0)
		return scenario_redial(argv[2], strtoull(argv[3], NULL, 10), atoi(argv[4]), atoi(argv[5]), atoi(argv[6]));
	if (argc >= 5 && strcmp(argv[1], "hostile") == 0) return scenario_hostile(argv[2], strtoull(argv[3], NULL, 10), atoi(argv[4]));
	fprintf(stderr, "usage: wb_pipeev [real <tcp|ipc|inproc> <seed> <actions> | redial <tcp|ipc> <seed> <min> <max> <rounds> | hostile <tcp|ipc> <seed> <rounds>]\n");
	return 2;
}
#endif
