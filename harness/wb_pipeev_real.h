// stub
static int scenario_main(int argc, char **argv) { (void) argc; (void) argv; return 2; }
