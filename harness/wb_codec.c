// wb_codec.c: driver for the WebSocket/HTTP codecs (C16).
//
// White-box part (deterministic): nni_base64_encode/decode, nni_sha1,
// nni_http_chunks_parse, nni_http_req_parse / nni_http_res_parse (the driver
// keeps the unconsumed bytes the way http_rd_buf does).
// Loopback part: an nng ws:// stream listener or dialer in this process and a
// raw TCP socket owned by the driver as the other end, so that every byte and
// every segmentation of the byte stream is chosen by the script.
//
// One command per line; output lines are the observations (see drv_codec.ml
// for the same lines printed from the extracted models).
#define _GNU_SOURCE
#include "core/nng_impl.h"
#include "supplemental/http/http_api.h"
#include "supplemental/http/http_msg.h"
#include "supplemental/websocket/base64.h"
#include "supplemental/websocket/sha1.h"
#include "supplemental/websocket/websocket.h"
#include "wb_common.h"

#include <arpa/inet.h>
#include <errno.h>
#include <netinet/in.h>
#include <netinet/tcp.h>
#include <poll.h>
#include <signal.h>
#include <sys/socket.h>
#include <unistd.h>

static unsigned gap_us = 1500; // pause between two segments of a stream

// parse "a,b,c" (ascending cut positions inside [0,len]) ; "-" = none
static int
parse_cuts(const char *s, size_t *cuts, int max, size_t len)
{
	int n = 0;
	if (s == NULL || strcmp(s, "-") == 0) return 0;
	while (*s && n < max) {
		size_t v = strtoull(s, (char **) &s, 10);
		if (v > len) v = len;
		cuts[n++] = v;
		if (*s == ',') s++;
	}
	return n;
}

// ------------------------------------------------------------------ base64
static void
do_b64e(char **tok)
{
	size_t   len;
	uint8_t *d   = unhex(tok[1], &len);
	size_t   cap = strtoull(tok[2], NULL, 10);
	char    *out = malloc(cap + 1);
	size_t   n   = nni_base64_encode(d, len, out, cap);
	if (n == (size_t) -1) {
		printf("b64e n=-1\n");
	} else {
		printf("b64e n=%zu out=", n);
		puthex(out, n);
		printf("\n");
	}
	free(out);
	free(d);
}

static void
do_b64d(char **tok)
{
	size_t   len;
	uint8_t *d   = unhex(tok[1], &len);
	size_t   cap = strtoull(tok[2], NULL, 10);
	uint8_t *out = malloc(cap + 1);
	size_t   n   = nni_base64_decode((const char *) d, len, out, cap);
	if (n == (size_t) -1) {
		printf("b64d n=-1\n");
	} else {
		printf("b64d n=%zu out=", n);
		puthex(out, n);
		printf("\n");
	}
	free(out);
	free(d);
}

static void
do_sha1(char **tok)
{
	size_t   len;
	uint8_t *d = unhex(tok[1], &len);
	uint8_t  dig[20];
	nni_sha1(d, len, dig);
	printf("sha1 ");
	puthex(dig, 20);
	printf("\n");
	free(d);
}

// ---------------------------------------------------------------- chunked
// chunk <maxsz> <hex> <cuts>
static void
do_chunk(char **tok)
{
	size_t           len, cuts[64], off = 0, n = 0;
	size_t           maxsz = strtoull(tok[1], NULL, 10);
	uint8_t         *d     = unhex(tok[2], &len);
	int              nc    = parse_cuts(tok[3], cuts, 63, len);
	nni_http_chunks *cl;
	nni_http_chunk  *ch = NULL;
	int              rv = NNG_EAGAIN;

	cuts[nc++] = len;
	nni_http_chunks_init(&cl, maxsz);
	for (int i = 0; i < nc && rv == NNG_EAGAIN; i++) {
		size_t seg = cuts[i] > off ? cuts[i] - off : 0;
		// a private copy of the segment so that ASan sees its bounds
		uint8_t *tmp = malloc(seg + 1);
		memcpy(tmp, d + off, seg);
		n  = 0;
		rv = nni_http_chunks_parse(cl, tmp, seg, &n);
		free(tmp);
		printf("seg rv=%d n=%zu\n", rv, n);
		off += n; // on EAGAIN n == seg
	}
	printf("chunks rv=%d used=%zu total=%zu", rv, off, nni_http_chunks_size(cl));
	while ((ch = nni_http_chunks_iter(cl, ch)) != NULL) {
		printf(" %zu", nni_http_chunk_size(ch));
		if (rv == 0) {
			printf(":");
			puthex(nni_http_chunk_data(ch), nni_http_chunk_size(ch));
		}
	}
	printf("\n");
	nni_http_chunks_free(cl);
	free(d);
}

// ------------------------------------------------------------- HTTP heads
// req|res <hex> <cuts>
static void
do_head(char **tok, bool isreq)
{
	size_t   len, cuts[64], off = 0, get = 0, put = 0, n;
	uint8_t *d  = unhex(tok[1], &len);
	int      nc = parse_cuts(tok[2], cuts, 63, len);
	nng_http *conn;
	uint8_t *buf = malloc(len + 1);
	int      rv  = NNG_EAGAIN;
	nni_list *hdrs;
	http_header *h;

	cuts[nc++] = len;
	// http_rd_buf parses requests with conn->client = true and responses
	// with conn->client = false (that flag selects the header list)
	nni_http_init(&conn, NULL, isreq);
	nni_http_conn_reset(conn);
	for (int i = 0; i < nc && rv == NNG_EAGAIN; i++) {
		size_t seg = cuts[i] > off ? cuts[i] - off : 0;
		memcpy(buf + put, d + off, seg);
		off += seg;
		put += seg;
		n = 0;
		if (isreq) {
			rv = nni_http_req_parse(conn, buf + get, put - get, &n);
		} else {
			rv = nni_http_res_parse(conn, buf + get, put - get, &n);
		}
		get += n;
		printf("p rv=%d n=%zu\n", rv, n);
	}
	printf("%s rv=%d used=%zu status=%d meth=", isreq ? "req" : "res", rv, get,
	    (int) nni_http_get_status(conn));
	puthex(nni_http_get_method(conn), strlen(nni_http_get_method(conn)));
	printf(" uri=");
	puthex(nni_http_get_uri(conn), strlen(nni_http_get_uri(conn)));
	printf(" vers=");
	puthex(nni_http_get_version(conn), strlen(nni_http_get_version(conn)));
	printf(" reason=");
	if (isreq) {
		printf("-");
	} else {
		puthex(nni_http_get_reason(conn), strlen(nni_http_get_reason(conn)));
	}
	printf(" hdrs=");
	hdrs = isreq ? &nni_http_conn_req(conn)->data.hdrs
	             : &nni_http_conn_res(conn)->data.hdrs;
	int k = 0;
	NNI_LIST_FOREACH (hdrs, h) {
		if (k++) printf(",");
		puthex(h->name, strlen(h->name));
		printf(":");
		puthex(h->value, strlen(h->value));
	}
	if (k == 0) printf("-");
	printf("\n");
	nni_http_conn_fini(conn);
	free(buf);
	free(d);
}

// ------------------------------------------- HTTP heads through http_rd_buf
static int raw_write_all(int fd, const uint8_t *p, size_t n);
static void raw_write_cut(int fd, const uint8_t *d, size_t len, const size_t *cuts, int nc);

// a connected pair: raw fd (returned) <-> nng tcp stream (*sp)
static int
tcp_pair(nng_stream **sp)
{
	nng_stream_listener *l   = NULL;
	nng_aio             *aio = NULL;
	int                  port = 0, fd = -1, one = 1;
	struct sockaddr_in   sa = { .sin_family = AF_INET };

	*sp = NULL;
	if (nng_stream_listener_alloc(&l, "tcp://127.0.0.1:0") != 0) return -1;
	nng_aio_alloc(&aio, NULL, NULL);
	nng_aio_set_timeout(aio, 5000);
	if (nng_stream_listener_listen(l) != 0 ||
	    nng_stream_listener_get_int(l, NNG_OPT_BOUND_PORT, &port) != 0) goto out;
	nng_stream_listener_accept(l, aio);
	sa.sin_port        = htons((uint16_t) port);
	sa.sin_addr.s_addr = htonl(INADDR_LOOPBACK);
	fd                 = socket(AF_INET, SOCK_STREAM, 0);
	setsockopt(fd, IPPROTO_TCP, TCP_NODELAY, &one, sizeof(one));
	if (connect(fd, (struct sockaddr *) &sa, sizeof(sa)) != 0) {
		close(fd);
		fd = -1;
		nng_aio_stop(aio);
		goto out;
	}
	nng_aio_wait(aio);
	if (nng_aio_result(aio) != 0) {
		close(fd);
		fd = -1;
		goto out;
	}
	*sp = nng_aio_get_output(aio, 0);
out:
	nng_aio_free(aio);
	nng_stream_listener_close(l);
	nng_stream_listener_free(l);
	return fd;
}

// hreq|hres <hex> <cuts>: the head is read by nni_http_read_req / nni_http_read_res from a
// real connection (http_rd_buf with its 8 KiB buffer); the bytes arrive cut as requested
static void
do_hhead(char **tok, bool isreq)
{
	size_t      len, cuts[64];
	uint8_t    *d  = unhex(tok[1], &len);
	int         nc = parse_cuts(tok[2], cuts, 63, len);
	nng_stream *st;
	nng_http   *conn;
	nng_aio    *aio;
	nni_list   *hdrs;
	http_header *h;
	int         fd = tcp_pair(&st), rv, k = 0;

	if (fd < 0) {
		printf("%s rv=-1 nopair\n", isreq ? "hreq" : "hres");
		free(d);
		return;
	}
	nni_http_init(&conn, st, !isreq);
	nng_aio_alloc(&aio, NULL, NULL);
	nng_aio_set_timeout(aio, 3000);
	if (isreq) {
		nni_http_read_req(conn, aio);
	} else {
		nni_http_conn_reset(conn);
		nni_http_read_res(conn, aio);
	}
	raw_write_cut(fd, d, len, cuts, nc);
	usleep(2 * gap_us);
	shutdown(fd, SHUT_WR);
	nng_aio_wait(aio);
	rv = nng_aio_result(aio);
	if (rv != 0 && rv != NNG_EPROTO && rv != NNG_EMSGSIZE && rv != NNG_ENOTSUP) {
		printf("%s rv=- incomplete(%d)\n", isreq ? "hreq" : "hres", rv);
	} else {
		printf("%s rv=%d status=%d meth=", isreq ? "hreq" : "hres", rv, (int) nni_http_get_status(conn));
		puthex(nni_http_get_method(conn), strlen(nni_http_get_method(conn)));
		printf(" uri=");
		puthex(nni_http_get_uri(conn), strlen(nni_http_get_uri(conn)));
		printf(" vers=");
		puthex(nni_http_get_version(conn), strlen(nni_http_get_version(conn)));
		printf(" reason=");
		if (isreq) {
			printf("-");
		} else {
			puthex(nni_http_get_reason(conn), strlen(nni_http_get_reason(conn)));
		}
		printf(" hdrs=");
		hdrs = isreq ? &nni_http_conn_req(conn)->data.hdrs : &nni_http_conn_res(conn)->data.hdrs;
		NNI_LIST_FOREACH (hdrs, h) {
			if (k++) printf(",");
			puthex(h->name, strlen(h->name));
			printf(":");
			puthex(h->value, strlen(h->value));
		}
		if (k == 0) printf("-");
		printf("\n");
	}
	nng_aio_free(aio);
	nni_http_conn_fini(conn);
	close(fd);
	free(d);
}

// hbody <hex head> <hex body> <c> <len1,len2,...> <f|r>: a response head followed by a body;
// head + the first c body bytes are written in one segment, the head is read by
// nni_http_read_res (so those c bytes sit in the connection's read buffer), then ONE read
// (nng_http_read_all for f, nng_http_read for r) is posted with the given io vector, and the
// rest of the body is written in one more segment.  Prints what each element received.
static void
do_hbody(char **tok)
{
	size_t      hl, bl, c = (size_t) strtoull(tok[3], NULL, 10);
	uint8_t    *h = unhex(tok[1], &hl);
	uint8_t    *b = unhex(tok[2], &bl);
	nng_stream *st;
	nng_http   *conn;
	nng_aio    *aio;
	nng_iov     iov[8];
	uint8_t    *bufs[8];
	size_t      lens[8];
	int         nio = 0, fd = tcp_pair(&st), rv;
	char       *sp  = tok[4];

	while (*sp != 0 && nio < 8) {
		lens[nio++] = (size_t) strtoull(sp, &sp, 10);
		if (*sp == ',') sp++;
	}
	if (fd < 0) {
		printf("hbody rv=-1 nopair\n");
		free(h);
		free(b);
		return;
	}
	if (c > bl) c = bl;
	nni_http_init(&conn, st, true);
	nng_aio_alloc(&aio, NULL, NULL);
	nng_aio_set_timeout(aio, 3000);
	nni_http_conn_reset(conn);
	nni_http_read_res(conn, aio);
	uint8_t *first = malloc(hl + c + 1);
	memcpy(first, h, hl);
	memcpy(first + hl, b, c);
	raw_write_all(fd, first, hl + c);
	free(first);
	nng_aio_wait(aio);
	rv = nng_aio_result(aio);
	if (rv != 0) {
		printf("hbody rv=- head(%d)\n", rv);
	} else {
		usleep(20 * gap_us); // everything of the first segment is in the read buffer by now
		for (int i = 0; i < nio; i++) {
			bufs[i] = calloc(lens[i] + 1, 1);
			memset(bufs[i], 0xEE, lens[i]);
			iov[i].iov_buf = bufs[i];
			iov[i].iov_len = lens[i];
		}
		nng_aio_set_iov(aio, (unsigned) nio, iov);
		if (tok[5][0] == 'f') {
			nng_http_read_all(conn, aio);
		} else {
			nng_http_read(conn, aio);
		}
		usleep(10 * gap_us);
		if (bl > c) raw_write_all(fd, b + c, bl - c);
		usleep(2 * gap_us);
		shutdown(fd, SHUT_WR);
		nng_aio_wait(aio);
		printf("hbody rv=%d n=%zu iov=", nng_aio_result(aio), nng_aio_count(aio));
		for (int i = 0; i < nio; i++) {
			if (i) printf(",");
			puthex((char *) bufs[i], lens[i]);
			free(bufs[i]);
		}
		printf("\n");
	}
	nng_aio_free(aio);
	nni_http_conn_fini(conn);
	close(fd);
	free(h);
	free(b);
}

// --------------------------------------------------------- WebSocket loop
typedef struct {
	nng_mtx    *mtx;
	nng_cv     *cv;
	int         done, err;
	nng_stream *s;
	nng_aio    *raio;
	int         msgmode;
	uint8_t     rbuf[1 << 16];
	uint8_t   **rec;
	size_t     *reclen;
	int         nrec, caprec;
} wsctx;

static void
ws_record(wsctx *c, const void *p, size_t n)
{
	if (c->nrec == c->caprec) {
		c->caprec = c->caprec ? c->caprec * 2 : 16;
		c->rec    = realloc(c->rec, c->caprec * sizeof(uint8_t *));
		c->reclen = realloc(c->reclen, c->caprec * sizeof(size_t));
	}
	c->rec[c->nrec] = malloc(n + 1);
	memcpy(c->rec[c->nrec], p, n);
	c->reclen[c->nrec++] = n;
}

static void
ws_post_recv(wsctx *c)
{
	if (!c->msgmode) {
		nng_iov iov;
		iov.iov_buf = c->rbuf;
		iov.iov_len = sizeof(c->rbuf);
		nng_aio_set_iov(c->raio, 1, &iov);
	}
	nng_stream_recv(c->s, c->raio);
}

static void
ws_recv_cb(void *arg)
{
	wsctx *c  = arg;
	int    rv = nng_aio_result(c->raio);
	nng_mtx_lock(c->mtx);
	if (rv != 0) {
		c->err  = rv;
		c->done = 1;
		nng_cv_wake(c->cv);
		nng_mtx_unlock(c->mtx);
		return;
	}
	if (c->msgmode) {
		nng_msg *m = nng_aio_get_msg(c->raio);
		nng_aio_set_msg(c->raio, NULL);
		ws_record(c, nng_msg_body(m), nng_msg_len(m));
		nng_msg_free(m);
	} else {
		ws_record(c, c->rbuf, nng_aio_count(c->raio));
	}
	nng_mtx_unlock(c->mtx);
	ws_post_recv(c);
}

static int
raw_write_all(int fd, const uint8_t *p, size_t n)
{
	while (n > 0) {
		ssize_t w = send(fd, p, n, MSG_NOSIGNAL);
		if (w < 0) {
			if (errno == EINTR) continue;
			return -1;
		}
		p += w;
		n -= (size_t) w;
	}
	return 0;
}

// write d[0..len) cut at the given positions, pausing between the pieces
static void
raw_write_cut(int fd, const uint8_t *d, size_t len, const size_t *cuts, int nc)
{
	size_t off = 0;
	for (int i = 0; i <= nc; i++) {
		size_t end = (i < nc) ? cuts[i] : len;
		if (end > len) end = len;
		if (end > off) {
			if (raw_write_all(fd, d + off, end - off) != 0) return;
			off = end;
			if (i < nc) usleep(gap_us);
		}
	}
}

// read until CRLFCRLF (returns length of the head incl. the blank line, 0 on
// failure); bytes after the head stay in buf (total in *tot)
static size_t
raw_read_head(int fd, uint8_t *buf, size_t cap, size_t *tot)
{
	size_t n = 0;
	for (;;) {
		struct pollfd pfd = { .fd = fd, .events = POLLIN };
		if (poll(&pfd, 1, 3000) <= 0) return 0;
		ssize_t r = recv(fd, buf + n, cap - n, 0);
		if (r <= 0) return 0;
		n += (size_t) r;
		for (size_t i = 0; i + 3 < n; i++) {
			if (memcmp(buf + i, "\r\n\r\n", 4) == 0) {
				*tot = n;
				return i + 4;
			}
		}
		if (n == cap) return 0;
	}
}

// collect everything until EOF / reset / 3 s idle
static size_t
raw_read_eof(int fd, uint8_t *buf, size_t n, size_t cap)
{
	for (;;) {
		struct pollfd pfd = { .fd = fd, .events = POLLIN };
		if (poll(&pfd, 1, 3000) <= 0) break;
		ssize_t r = recv(fd, buf + n, cap - n, 0);
		if (r <= 0) break;
		n += (size_t) r;
		if (n == cap) break;
	}
	return n;
}

static const char *
find_header(const char *head, const char *name)
{
	const char *p = strcasestr(head, name);
	if (p == NULL) return NULL;
	p += strlen(name);
	while (*p == ' ') p++;
	return p;
}

// print the frames nng emitted: header bytes without the key, whether a key
// was present, payload unmasked
static void
print_tx(const uint8_t *b, size_t n)
{
	size_t i = 0;
	while (i < n) {
		size_t   h = 2, len;
		uint8_t  key[4] = { 0, 0, 0, 0 };
		int      masked;
		if (n - i < 2) break;
		len    = b[i + 1] & 0x7f;
		masked = (b[i + 1] & 0x80) ? 1 : 0;
		if (len == 126) {
			if (n - i < 4) break;
			len = ((size_t) b[i + 2] << 8) | b[i + 3];
			h   = 4;
		} else if (len == 127) {
			if (n - i < 10) break;
			len = 0;
			for (int k = 0; k < 8; k++) len = (len << 8) | b[i + 2 + k];
			h = 10;
		}
		if (masked) {
			if (n - i < h + 4) break;
			memcpy(key, b + i + h, 4);
		}
		if (len > n || n - i < h + (masked ? 4 : 0) + len) break;
		printf("tx hdr=");
		puthex(b + i, h);
		printf(" key=%d payload=", masked);
		const uint8_t *p = b + i + h + (masked ? 4 : 0);
		if (len == 0) {
			printf("-");
		} else {
			for (size_t k = 0; k < len; k++) printf("%02x", p[k] ^ key[k & 3]);
		}
		printf("\n");
		i += h + (masked ? 4 : 0) + len;
	}
	if (i < n) {
		printf("txjunk ");
		puthex(b + i, n - i);
		printf("\n");
	}
}

static void
make_accept(const char *key24, char *out29)
{
	nni_sha1_ctx ctx;
	uint8_t      dig[20];
	nni_sha1_init(&ctx);
	nni_sha1_update(&ctx, key24, strlen(key24));
	nni_sha1_update(&ctx, "258EAFA5-E914-47DA-95CA-C5AB0DC85B11", 36);
	nni_sha1_final(&ctx, dig);
	size_t n = nni_base64_encode(dig, 20, out29, 29);
	out29[n == (size_t) -1 ? 0 : n] = 0;
}

// Establish a WebSocket between nng (role 's': nng is the server, 'c': nng is
// the client) and a raw socket.  [pre] are bytes the raw side sends in the
// same write as its half of the handshake; hcuts cut that write.
// Returns the raw fd (or -1) and the nng stream in *sp.
typedef struct {
	char   role, mode;
	size_t maxframe, recvmax, fragsize;
	int    recvtext, sendtext;
	const char *key; // Sec-WebSocket-Key used by the raw client
	const char *conn; // value of the Connection header the raw side sends (NULL: "Upgrade")
} wscfg;

static nng_stream_listener *g_l;
static nng_stream_dialer   *g_d;

static int
ws_establish(const wscfg *cf, const uint8_t *pre, size_t prelen, const char *hcuts,
    nng_stream **sp)
{
	nng_aio *aio;
	int      fd = -1, rv;
	char     url[64];
	uint8_t  head[8192];
	size_t   cuts[64];
	bool     msgmode = cf->mode == 'm';

	*sp = NULL;
	g_l = NULL;
	g_d = NULL;
	nng_aio_alloc(&aio, NULL, NULL);
	nng_aio_set_timeout(aio, 5000);
	if (cf->role == 's') {
		int port = 0;
		if ((rv = nng_stream_listener_alloc(&g_l, "ws://127.0.0.1:0/t")) != 0) goto fail;
		nng_stream_listener_set_bool(g_l, NNI_OPT_WS_MSGMODE, msgmode);
		nng_stream_listener_set_size(g_l, NNG_OPT_WS_RECVMAXFRAME, cf->maxframe);
		nng_stream_listener_set_size(g_l, NNG_OPT_WS_SENDMAXFRAME, cf->fragsize);
		nng_stream_listener_set_size(g_l, NNG_OPT_RECVMAXSZ, cf->recvmax);
		nng_stream_listener_set_bool(g_l, NNG_OPT_WS_RECV_TEXT, cf->recvtext);
		nng_stream_listener_set_bool(g_l, NNG_OPT_WS_SEND_TEXT, cf->sendtext);
		if ((rv = nng_stream_listener_listen(g_l)) != 0) goto fail;
		if ((rv = nng_stream_listener_get_int(g_l, NNG_OPT_BOUND_PORT, &port)) != 0) goto fail;
		nng_stream_listener_accept(g_l, aio);

		struct sockaddr_in sa = { .sin_family = AF_INET, .sin_port = htons((uint16_t) port) };
		sa.sin_addr.s_addr    = htonl(INADDR_LOOPBACK);
		fd                    = socket(AF_INET, SOCK_STREAM, 0);
		int one               = 1;
		setsockopt(fd, IPPROTO_TCP, TCP_NODELAY, &one, sizeof(one));
		if (connect(fd, (struct sockaddr *) &sa, sizeof(sa)) != 0) {
			rv = -errno;
			goto fail;
		}
		int hl = snprintf((char *) head, sizeof(head),
		    "GET /t HTTP/1.1\r\nHost: 127.0.0.1:%d\r\nUpgrade: websocket\r\n"
		    "Connection: %s\r\nSec-WebSocket-Key: %s\r\n"
		    "Sec-WebSocket-Version: 13\r\n\r\n",
		    port, cf->conn ? cf->conn : "Upgrade", cf->key);
		if (prelen > sizeof(head) - hl) prelen = sizeof(head) - hl;
		memcpy(head + hl, pre, prelen);
		int nc = parse_cuts(hcuts, cuts, 63, hl + prelen);
		raw_write_cut(fd, head, hl + prelen, cuts, nc);
		size_t tot = 0;
		size_t rl  = raw_read_head(fd, head, sizeof(head) - 1, &tot);
		if (rl == 0) {
			rv = -1000;
			goto fail;
		}
		head[rl] = 0;
		const char *acc = find_header((char *) head, "Sec-WebSocket-Accept:");
		char        exp[32];
		make_accept(cf->key, exp);
		printf("hs status=%.3s accept_ok=%d extra=%zu head=", (char *) head + 9,
		    acc != NULL && strncmp(acc, exp, 28) == 0 && acc[28] == '\r', tot - rl);
		puthex(head, rl);
		printf("\n");
		if (strncmp((char *) head + 9, "101", 3) != 0) {
			rv = -1001;
			goto fail;
		}
	} else {
		struct sockaddr_in sa = { .sin_family = AF_INET };
		socklen_t          sl = sizeof(sa);
		sa.sin_addr.s_addr    = htonl(INADDR_LOOPBACK);
		int lfd               = socket(AF_INET, SOCK_STREAM, 0);
		if (bind(lfd, (struct sockaddr *) &sa, sizeof(sa)) != 0 || listen(lfd, 4) != 0) {
			rv = -errno;
			close(lfd);
			goto fail;
		}
		getsockname(lfd, (struct sockaddr *) &sa, &sl);
		snprintf(url, sizeof(url), "ws://127.0.0.1:%d/t", ntohs(sa.sin_port));
		if ((rv = nng_stream_dialer_alloc(&g_d, url)) != 0) {
			close(lfd);
			goto fail;
		}
		nng_stream_dialer_set_bool(g_d, NNI_OPT_WS_MSGMODE, msgmode);
		nng_stream_dialer_set_size(g_d, NNG_OPT_WS_RECVMAXFRAME, cf->maxframe);
		nng_stream_dialer_set_size(g_d, NNG_OPT_WS_SENDMAXFRAME, cf->fragsize);
		nng_stream_dialer_set_size(g_d, NNG_OPT_RECVMAXSZ, cf->recvmax);
		nng_stream_dialer_set_bool(g_d, NNG_OPT_WS_RECV_TEXT, cf->recvtext);
		nng_stream_dialer_set_bool(g_d, NNG_OPT_WS_SEND_TEXT, cf->sendtext);
		nng_stream_dialer_dial(g_d, aio);
		struct pollfd pfd = { .fd = lfd, .events = POLLIN };
		if (poll(&pfd, 1, 3000) <= 0) {
			close(lfd);
			rv = -1002;
			goto fail;
		}
		fd = accept(lfd, NULL, NULL);
		close(lfd);
		int one = 1;
		setsockopt(fd, IPPROTO_TCP, TCP_NODELAY, &one, sizeof(one));
		size_t tot = 0;
		size_t rl  = raw_read_head(fd, head, sizeof(head) - 1, &tot);
		if (rl == 0) {
			rv = -1000;
			goto fail;
		}
		head[rl] = 0;
		printf("hsreq extra=%zu head=", tot - rl);
		puthex(head, rl);
		printf("\n");
		const char *k = find_header((char *) head, "Sec-WebSocket-Key:");
		char        key[32], acc[32];
		if (k == NULL) {
			rv = -1003;
			goto fail;
		}
		snprintf(key, sizeof(key), "%.24s", k);
		make_accept(key, acc);
		int hl = snprintf((char *) head, sizeof(head),
		    "HTTP/1.1 101 Switching Protocols\r\nUpgrade: websocket\r\n"
		    "Connection: %s\r\nSec-WebSocket-Accept: %s\r\n\r\n",
		    cf->conn ? cf->conn : "Upgrade", acc);
		if (prelen > sizeof(head) - hl) prelen = sizeof(head) - hl;
		memcpy(head + hl, pre, prelen);
		int nc = parse_cuts(hcuts, cuts, 63, hl + prelen);
		raw_write_cut(fd, head, hl + prelen, cuts, nc);
	}
	nng_aio_wait(aio);
	if ((rv = nng_aio_result(aio)) != 0) goto fail;
	*sp = nng_aio_get_output(aio, 0);
	nng_aio_free(aio);
	return fd;
fail:
	printf("wsfail rv=%d\n", rv);
	nng_aio_stop(aio);
	nng_aio_free(aio);
	if (fd >= 0) close(fd);
	return -1;
}

static void
ws_teardown(void)
{
	if (g_l) {
		nng_stream_listener_close(g_l);
		nng_stream_listener_free(g_l);
		g_l = NULL;
	}
	if (g_d) {
		nng_stream_dialer_close(g_d);
		nng_stream_dialer_free(g_d);
		g_d = NULL;
	}
}

// ws <role> <mode> <maxframe> <recvmax> <recvtext> <pre> <hex> <cuts> <hcuts>
static void
do_ws(char **tok)
{
	wscfg    cf = { .role = tok[1][0], .mode = tok[2][0], .maxframe = strtoull(tok[3], NULL, 10),
		   .recvmax = strtoull(tok[4], NULL, 10), .fragsize = 65536, .recvtext = atoi(tok[5]),
		   .sendtext = 0, .key = "dGhlIHNhbXBsZSBub25jZQ==" };
	size_t   pre = strtoull(tok[6], NULL, 10), len, cuts[64];
	uint8_t *d   = unhex(tok[7], &len);
	wsctx   *c   = calloc(1, sizeof(*c));
	nng_stream *s;
	int      fd;
	static uint8_t txb[1 << 18];
	static char    connhdr[256];

	if (tok[10] != NULL) { // optional: Connection header value (hex)
		size_t   cl;
		uint8_t *cv = unhex(tok[10], &cl);
		if (cl > 255) cl = 255;
		memcpy(connhdr, cv, cl);
		connhdr[cl] = 0;
		cf.conn     = connhdr;
		free(cv);
	}
	if (pre > len) pre = len;
	fd = ws_establish(&cf, d, pre, tok[9], &s);
	if (fd < 0) {
		printf("end err=-1\n");
		ws_teardown();
		free(c);
		free(d);
		return;
	}
	nng_mtx_alloc(&c->mtx);
	nng_cv_alloc(&c->cv, c->mtx);
	nng_aio_alloc(&c->raio, ws_recv_cb, c);
	c->s       = s;
	c->msgmode = cf.mode == 'm';
	ws_post_recv(c);

	int nc = parse_cuts(tok[8], cuts, 63, len);
	// cut positions are relative to the whole stream; drop those inside pre
	int k0 = 0;
	while (k0 < nc && cuts[k0] <= pre) k0++;
	for (int i = k0; i < nc; i++) cuts[i] -= pre;
	raw_write_cut(fd, d + pre, len - pre, cuts + k0, nc - k0);
	usleep(2 * gap_us); // let replies to the last frames leave before the EOF is seen
	shutdown(fd, SHUT_WR);

	// Collect what nng emits until it is finished with this stream: its
	// receive failed, or it sent a close frame (always its last frame), or the
	// connection ended, or nothing has happened for a while (a receive posted
	// after the connection was closed by the peer never completes).
	size_t   ntx = 0, parsed = 0;
	int      saw_close = 0, eof = 0, done = 0, err = 0, lastrec = -1;
	nng_time start = nng_clock(), lastact = start, donetime = 0;
	for (;;) {
		struct pollfd pfd = { .fd = fd, .events = POLLIN };
		int           pr  = eof ? (usleep(2000), 0) : poll(&pfd, 1, 2);
		nng_time      now = nng_clock();
		if (pr > 0) {
			ssize_t r = recv(fd, txb + ntx, sizeof(txb) - ntx, 0);
			if (r <= 0) {
				eof = 1;
			} else {
				ntx += (size_t) r;
				lastact = now;
			}
		}
		// walk over the complete frames received so far
		while (ntx - parsed >= 2) {
			size_t l7 = txb[parsed + 1] & 0x7f, h = 2 + ((txb[parsed + 1] & 0x80) ? 4 : 0), len = l7;
			if (l7 == 126) {
				if (ntx - parsed < 4) break;
				len = ((size_t) txb[parsed + 2] << 8) | txb[parsed + 3];
				h += 2;
			} else if (l7 == 127) {
				if (ntx - parsed < 10) break;
				len = 0;
				for (int k = 0; k < 8; k++) len = (len << 8) | txb[parsed + 2 + k];
				h += 8;
			}
			if (len > sizeof(txb) || ntx - parsed < h + len) break;
			if ((txb[parsed] & 0x0f) == 8) saw_close = 1;
			parsed += h + len;
		}
		nng_mtx_lock(c->mtx);
		done = c->done;
		err  = c->err;
		if (c->nrec != lastrec) {
			lastrec = c->nrec;
			lastact = now;
		}
		nng_mtx_unlock(c->mtx);
		if (done && donetime == 0) donetime = now;
		if (saw_close || (eof && done)) break;
		if (done && now - donetime > 40) break;   // failed without a close frame (read error)
		if (now - lastact > 300) break;           // quiet
		if (now - start > 5000) break;
	}
	nng_stream_close(s);
	nng_aio_stop(c->raio);
	nng_stream_free(s);
	close(fd);
	ws_teardown();
	nng_mtx_lock(c->mtx);
	done = c->done;
	err  = c->err;
	nng_mtx_unlock(c->mtx);
	(void) err;

	if (c->msgmode) {
		for (int i = 0; i < c->nrec; i++) {
			printf("rx ");
			puthex(c->rec[i], c->reclen[i]);
			printf("\n");
		}
	} else {
		printf("rxs ");
		size_t tot = 0;
		for (int i = 0; i < c->nrec; i++) tot += c->reclen[i];
		if (tot == 0) printf("-");
		for (int i = 0; i < c->nrec; i++) {
			for (size_t k = 0; k < c->reclen[i]; k++) printf("%02x", c->rec[i][k]);
		}
		printf("\n");
	}
	print_tx(txb, ntx);
	printf("end done=%d\n", done);
	for (int i = 0; i < c->nrec; i++) free(c->rec[i]);
	free(c->rec);
	free(c->reclen);
	nng_aio_free(c->raio);
	nng_cv_free(c->cv);
	nng_mtx_free(c->mtx);
	free(c);
	free(d);
}

// wssend <role> <mode> <fragsize> <sendtext> <hex msg>
// nng sends one message (message mode) or one write (stream mode); the raw
// side collects the frames, answers the close frame that nng_stream_close
// emits, and prints what it saw.
static void
do_wssend(char **tok)
{
	wscfg cf = { .role = tok[1][0], .mode = tok[2][0], .maxframe = 0, .recvmax = 0,
		.fragsize = strtoull(tok[3], NULL, 10), .recvtext = 0, .sendtext = atoi(tok[4]),
		.key = "dGhlIHNhbXBsZSBub25jZQ==" };
	size_t      len;
	uint8_t    *d = unhex(tok[5], &len);
	nng_stream *s;
	nng_aio    *aio;
	static uint8_t txb[1 << 20];
	int         fd = ws_establish(&cf, NULL, 0, "-", &s);

	if (fd < 0) {
		printf("sent rv=-1 n=0\n");
		ws_teardown();
		free(d);
		return;
	}
	nng_aio_alloc(&aio, NULL, NULL);
	nng_aio_set_timeout(aio, 5000);
	if (cf.mode == 'm') {
		nng_msg *m;
		nng_msg_alloc(&m, 0);
		nng_msg_append(m, d, len);
		nng_aio_set_msg(aio, m);
	} else {
		nng_iov iov = { .iov_buf = d, .iov_len = len };
		nng_aio_set_iov(aio, 1, &iov);
	}
	nng_stream_send(s, aio);
	// drain concurrently: large messages do not fit the socket buffers
	size_t ntx = 0;
	for (;;) {
		struct pollfd pfd = { .fd = fd, .events = POLLIN };
		int           pr  = poll(&pfd, 1, 2);
		if (pr > 0) {
			ssize_t r = recv(fd, txb + ntx, sizeof(txb) - ntx, 0);
			if (r <= 0) break;
			ntx += (size_t) r;
		} else if (!nng_aio_busy(aio)) {
			break;
		}
	}
	nng_aio_wait(aio);
	int    rv = nng_aio_result(aio);
	size_t cnt = nng_aio_count(aio);
	if (rv != 0 && cf.mode == 'm' && nng_aio_get_msg(aio) != NULL) nng_msg_free(nng_aio_get_msg(aio));
	nng_stream_close(s);
	// answer the close so that nng finishes at once
	uint8_t cl_s[4]  = { 0x88, 0x02, 0x03, 0xe8 };
	uint8_t cl_c[8]  = { 0x88, 0x82, 0, 0, 0, 0, 0x03, 0xe8 };
	if (cf.role == 's') {
		raw_write_all(fd, cl_c, 8);
	} else {
		raw_write_all(fd, cl_s, 4);
	}
	nng_stream_free(s);
	ntx = raw_read_eof(fd, txb, ntx, sizeof(txb));
	close(fd);
	ws_teardown();
	printf("sent rv=%d n=%zu\n", rv, cnt);
	print_tx(txb, ntx);
	printf("end\n");
	nng_aio_free(aio);
	free(d);
}

// wssend2 <role> <fragsize> <hexA> <hexB>: two message-mode sends submitted
// back to back on the same connection (both in flight); prints the frames seen
static void
do_wssend2(char **tok)
{
	wscfg cf = { .role = tok[1][0], .mode = 'm', .maxframe = 0, .recvmax = 0,
		.fragsize = strtoull(tok[2], NULL, 10), .recvtext = 0, .sendtext = 0,
		.key = "dGhlIHNhbXBsZSBub25jZQ==" };
	size_t      la, lb, ntx = 0;
	uint8_t    *a = unhex(tok[3], &la), *b = unhex(tok[4], &lb);
	nng_stream *s;
	nng_aio    *aio[2];
	nng_msg    *m;
	static uint8_t txb[1 << 20];
	int         fd = ws_establish(&cf, NULL, 0, "-", &s);

	if (fd < 0) {
		printf("sent2 rv=-1\n");
		ws_teardown();
		free(a);
		free(b);
		return;
	}
	for (int i = 0; i < 2; i++) {
		nng_aio_alloc(&aio[i], NULL, NULL);
		nng_aio_set_timeout(aio[i], 5000);
		nng_msg_alloc(&m, 0);
		nng_msg_append(m, i ? b : a, i ? lb : la);
		nng_aio_set_msg(aio[i], m);
	}
	nng_stream_send(s, aio[0]);
	nng_stream_send(s, aio[1]);
	for (;;) {
		struct pollfd pfd = { .fd = fd, .events = POLLIN };
		if (poll(&pfd, 1, 2) > 0) {
			ssize_t r = recv(fd, txb + ntx, sizeof(txb) - ntx, 0);
			if (r <= 0) break;
			ntx += (size_t) r;
		} else if (!nng_aio_busy(aio[0]) && !nng_aio_busy(aio[1])) {
			break;
		}
	}
	nng_aio_wait(aio[0]);
	nng_aio_wait(aio[1]);
	printf("sent2 rv=%d,%d\n", nng_aio_result(aio[0]), nng_aio_result(aio[1]));
	for (int i = 0; i < 2; i++) {
		if (nng_aio_result(aio[i]) != 0 && nng_aio_get_msg(aio[i]) != NULL) nng_msg_free(nng_aio_get_msg(aio[i]));
	}
	nng_stream_close(s);
	uint8_t cl_s[4] = { 0x88, 0x02, 0x03, 0xe8 };
	uint8_t cl_c[8] = { 0x88, 0x82, 0, 0, 0, 0, 0x03, 0xe8 };
	if (cf.role == 's') {
		raw_write_all(fd, cl_c, 8);
	} else {
		raw_write_all(fd, cl_s, 4);
	}
	nng_stream_free(s);
	ntx = raw_read_eof(fd, txb, ntx, sizeof(txb));
	close(fd);
	ws_teardown();
	print_tx(txb, ntx);
	printf("end\n");
	nng_aio_free(aio[0]);
	nng_aio_free(aio[1]);
	free(a);
	free(b);
}

int
main(int argc, char **argv)
{
	static char line[1 << 21];
	char       *tok[12];
	signal(SIGPIPE, SIG_IGN);
	if (argc > 1) gap_us = (unsigned) atoi(argv[1]);
	nng_init(NULL);
	while (fgets(line, sizeof(line), stdin) != NULL) {
		int   nt = 0;
		char *sp = NULL;
		memset(tok, 0, sizeof(tok));
		for (char *t = strtok_r(line, " \n", &sp); t != NULL && nt < 11; t = strtok_r(NULL, " \n", &sp)) {
			tok[nt++] = t;
		}
		if (nt == 0 || tok[0][0] == '#') continue;
		const char *op = tok[0];
		if (strcmp(op, "mark") == 0) {
			printf("mark %s\n", tok[1]);
		} else if (strcmp(op, "b64e") == 0 && nt >= 3) {
			do_b64e(tok);
		} else if (strcmp(op, "b64d") == 0 && nt >= 3) {
			do_b64d(tok);
		} else if (strcmp(op, "sha1") == 0 && nt >= 2) {
			do_sha1(tok);
		} else if (strcmp(op, "chunk") == 0 && nt >= 4) {
			do_chunk(tok);
		} else if (strcmp(op, "req") == 0 && nt >= 3) {
			do_head(tok, true);
		} else if (strcmp(op, "res") == 0 && nt >= 3) {
			do_head(tok, false);
		} else if (strcmp(op, "hreq") == 0 && nt >= 3) {
			do_hhead(tok, true);
		} else if (strcmp(op, "hbody") == 0 && nt >= 6) {
			do_hbody(tok);
		} else if (strcmp(op, "hres") == 0 && nt >= 3) {
			do_hhead(tok, false);
		} else if (strcmp(op, "ws") == 0 && nt >= 10) {
			do_ws(tok);
		} else if (strcmp(op, "wssend2") == 0 && nt >= 5) {
			do_wssend2(tok);
		} else if (strcmp(op, "wssend") == 0 && nt >= 6) {
			do_wssend(tok);
		} else {
			printf("badcmd %s\n", op);
		}
		fflush(stdout);
	}
	nng_fini();
	return 0;
}
