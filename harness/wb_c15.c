// wb_c15.c: white-box driver for src/core/pollable.c (C15: the descriptor is a
// level-triggered mirror of the flag whenever it is first asked for), plus a
// concurrent mode in which one thread raises / clears while another asks for the
// descriptor for the first time.
//
// Script (one command per line, one observation per command):
//   new | raise | clear | getfd | poll     observation: fd=x (no descriptor yet) | fd=0 | fd=1 (poll(2) POLLIN)
//   race <n> <seed>                        n rounds of: fresh pollable; thread A performs a random raise/clear
//                                          sequence ending in a known level while thread B calls getfd at a random
//                                          moment; after both are done poll(2) must equal the final level.
//                                          observation: race rounds=<n> bad=<k> raised_final=<r> created_during=<c>
//   window clear | window raise            the interleaving of Properties_C15.pollable_level_concurrent_clear_refuted, made
//                                          deterministic: pollable.c is compiled into this unit with the load of p_raised inside
//                                          nni_pollable_getfd wrapped, so that a complete nni_pollable_clear (resp. raise) of
//                                          "another thread" runs exactly between that load and the write that follows it.
//                                          observation: window fd=<0|1> flag=<0|1> [after-clear fd=<0|1>]
//   api                                    the buffer API on real sockets (PAIRv0 over inproc, real threads): nng_send / nng_recv
//                                          with NNG_FLAG_NONBLOCK on a socket that cannot send / has nothing (NNG_EAGAIN, nothing
//                                          leaked: LeakSanitizer at exit), with room (0), full again (NNG_EAGAIN); then end to end:
//                                          poll(2) with a 2 s timeout on the peer's receive descriptor, after which the NONBLOCK
//                                          nng_recv must succeed and the descriptor must drop.  The longest NONBLOCK call is
//                                          reported (evidence only).
//                                          observation: api send0=<rv> recv0=<rv> send1=<rv> send2=<rv> polled=<0|1> recv1=<rv> len=<n> fd_after=<0|1> max_nb_us=<t>
//   mark <k>
#define _GNU_SOURCE
#include <poll.h>
#include <pthread.h>
#include <time.h>

#include "core/nng_impl.h"
#include "wb_common.h"

// pollable.c as it is in the tree, with one instrumented load (the archive member is then not linked)
static void (*c15_hook)(void);
static bool c15_get_bool(nni_atomic_bool *b);
#define nni_atomic_get_bool c15_get_bool
#include "core/pollable.c"
#undef nni_atomic_get_bool
static bool
c15_get_bool(nni_atomic_bool *b)
{
	bool v = nni_atomic_get_bool(b);
	if (c15_hook != NULL) {
		void (*h)(void) = c15_hook;
		c15_hook        = NULL;
		h();
	}
	return (v);
}

static nni_pollable P;
static int          live;
static int          fd = -1;

static int
readable(int f)
{
	struct pollfd pf = { .fd = f, .events = POLLIN };
	return (poll(&pf, 1, 0) == 1 && (pf.revents & POLLIN)) ? 1 : 0;
}

static void
show(void)
{
	if (fd < 0) {
		printf("fd=x\n");
	} else {
		printf("fd=%d\n", readable(fd));
	}
	fflush(stdout);
}

static long long
now_us(void)
{
	struct timespec ts;
	clock_gettime(CLOCK_MONOTONIC, &ts);
	return (long long) ts.tv_sec * 1000000LL + ts.tv_nsec / 1000;
}

static void
api_test(void)
{
	nng_socket a, b;
	long long  mx = 0, t;
	char       buf[16] = "0123456789";
	size_t     sz;
	int        send0, recv0, send1, send2, recv1, polled = 0, fdr = -1, after = -1;
	nng_pair0_open(&a);
	nng_pair0_open(&b);
#define TIMED(x)              \
	do {                  \
		t = now_us(); \
		x;            \
		t = now_us() - t; \
		if (t > mx) mx = t; \
	} while (0)
	TIMED(send0 = nng_send(a, buf, 10, NNG_FLAG_NONBLOCK));
	sz = sizeof(buf);
	TIMED(recv0 = nng_recv(a, buf, &sz, NNG_FLAG_NONBLOCK));
	nng_socket_set_int(a, NNG_OPT_SENDBUF, 1);
	TIMED(send1 = nng_send(a, "abcdefghij", 10, NNG_FLAG_NONBLOCK));
	TIMED(send2 = nng_send(a, "klmnopqrst", 10, NNG_FLAG_NONBLOCK));
	nng_listen(a, "inproc://c15api", NULL, 0);
	nng_dial(b, "inproc://c15api", NULL, 0);
	if (nng_socket_get_recv_poll_fd(b, &fdr) == 0) {
		struct pollfd pf = { .fd = fdr, .events = POLLIN };
		polled = (poll(&pf, 1, 2000) == 1 && (pf.revents & POLLIN)) ? 1 : 0;
	}
	sz = sizeof(buf);
	TIMED(recv1 = nng_recv(b, buf, &sz, NNG_FLAG_NONBLOCK));
	if (fdr >= 0) after = readable(fdr);
	printf("api send0=%d recv0=%d send1=%d send2=%d polled=%d recv1=%d len=%d fd_after=%d max_nb_us=%lld\n", send0, recv0, send1, send2,
	    polled, recv1, recv1 == 0 ? (int) sz : -1, after, mx);
	fflush(stdout);
	nng_socket_close(a);
	nng_socket_close(b);
}

static void
hook_clear(void)
{
	nni_pollable_clear(&P);
}
static void
hook_raise(void)
{
	nni_pollable_raise(&P);
}

static void
fresh(void)
{
	if (live) nni_pollable_fini(&P);
	nni_pollable_init(&P);
	live = 1;
	fd   = -1;
}

struct race {
	nni_pollable  p;
	unsigned      seed;
	int           nops;
	int           final;
	volatile int  go;
	volatile int  progress;
	int           delay;
	int           fd;
	int           created_at;
};

static unsigned
rnd(unsigned *s)
{
	*s = *s * 1103515245u + 12345u;
	return (*s >> 16) & 0x7fff;
}

static void *
mutator(void *arg)
{
	struct race *r = arg;
	while (!r->go) {
	}
	for (int i = 0; i < r->nops; i++) {
		int up = (i == r->nops - 1) ? r->final : (int) (rnd(&r->seed) & 1);
		if (up) {
			nni_pollable_raise(&r->p);
		} else {
			nni_pollable_clear(&r->p);
		}
		r->progress = i + 1;
	}
	return NULL;
}

static void *
getter(void *arg)
{
	struct race *r = arg;
	while (!r->go) {
	}
	while (r->progress < r->delay) {
	}
	r->created_at = r->progress;
	if (nni_pollable_getfd(&r->p, &r->fd) != 0) r->fd = -1;
	return NULL;
}

int
main(void)
{
	char line[256];
	nng_init(NULL);
	while (fgets(line, sizeof(line), stdin) != NULL) {
		char op[32];
		int  a = 0, b = 0;
		int  n = sscanf(line, "%31s %d %d", op, &a, &b);
		if (n < 1 || op[0] == '#') continue;
		if (strcmp(op, "mark") == 0) {
			fresh();
			printf("mark %d\n", a);
			fflush(stdout);
		} else if (strcmp(op, "new") == 0) {
			fresh();
			show();
		} else if (strcmp(op, "raise") == 0) {
			if (!live) fresh();
			nni_pollable_raise(&P);
			show();
		} else if (strcmp(op, "clear") == 0) {
			if (!live) fresh();
			nni_pollable_clear(&P);
			show();
		} else if (strcmp(op, "getfd") == 0) {
			if (!live) fresh();
			int f;
			if (nni_pollable_getfd(&P, &f) == 0) fd = f;
			show();
		} else if (strcmp(op, "poll") == 0) {
			show();
		} else if (strcmp(op, "api") == 0) {
			api_test();
		} else if (strcmp(op, "window") == 0) {
			char what[32] = "";
			sscanf(line, "%*s %31s", what);
			fresh();
			int f = -1;
			if (strcmp(what, "clear") == 0) {
				nni_pollable_raise(&P);
				c15_hook = hook_clear;
			} else {
				c15_hook = hook_raise;
			}
			nni_pollable_getfd(&P, &f);
			c15_hook = NULL;
			fd       = f;
			printf("window fd=%d flag=%d", readable(f), nni_atomic_get_bool(&P.p_raised) ? 1 : 0);
			if (strcmp(what, "clear") == 0) {
				nni_pollable_clear(&P); // a further clear finds the flag down and does not drain
				printf(" after-clear fd=%d", readable(f));
			}
			printf("\n");
			fflush(stdout);
		} else if (strcmp(op, "race") == 0) {
			unsigned seed = (unsigned) b;
			int      bad = 0, ups = 0, during = 0;
			for (int i = 0; i < a; i++) {
				struct race r;
				pthread_t   ta, tb;
				memset(&r, 0, sizeof(r));
				nni_pollable_init(&r.p);
				r.seed  = seed + (unsigned) i * 7919u;
				r.nops  = 1 + (int) (rnd(&seed) % 12);
				r.final = (int) (rnd(&seed) & 1);
				r.delay = (int) (rnd(&seed) % (unsigned) (r.nops + 1));
				r.fd    = -1;
				pthread_create(&ta, NULL, mutator, &r);
				pthread_create(&tb, NULL, getter, &r);
				r.go = 1;
				pthread_join(ta, NULL);
				pthread_join(tb, NULL);
				if (r.fd < 0 || readable(r.fd) != r.final) bad++;
				ups += r.final;
				if (r.created_at > 0 && r.created_at < r.nops) during++;
				nni_pollable_fini(&r.p);
			}
			printf("race rounds=%d bad=%d raised_final=%d created_during=%d\n", a, bad, ups, during);
			fflush(stdout);
		} else {
			printf("badop %s\n", op);
			fflush(stdout);
		}
	}
	if (live) nni_pollable_fini(&P);
	nng_fini();
	return 0;
}
