// wb_c01.c: driver for C01 (whole-message integrity under any segmentation)
// and C11 (hostile peers).
//
// White-box part (deterministic): nni_aio_set_iov / nni_aio_iov_advance /
// nni_aio_iov_count on an aio of the static library; nni_msg_pull_up with an
// allocator that fails on request.
// Wire part: an nng socket of this process on one end of a tcp / ipc /
// socket-fd (socketpair) / inproc connection and a raw descriptor owned by the
// driver on the other end, so that every byte and every cut of the byte stream
// towards nng is chosen by the script (TCP_NODELAY + a pause between pieces),
// and nng's own writes meet a small socket buffer and a slow reader.
//
// One command per line; output lines are the observations (ocaml/drv_c01.ml
// prints the same lines from the extracted models).  Lines starting with
// "diag" are diagnostics (never compared).
#define _GNU_SOURCE
#include "core/nng_impl.h"
#include "wb_common.h"

#include <arpa/inet.h>
#include <errno.h>
#include <fcntl.h>
#include <netinet/in.h>
#include <netinet/tcp.h>
#include <poll.h>
#include <pthread.h>
#include <signal.h>
#include <sys/socket.h>
#include <sys/time.h>
#include <sys/un.h>
#include <unistd.h>

static unsigned gap_us = 1500; // pause between two pieces of a stream
static int      g_serial;      // distinguishes ipc paths / inproc names
static volatile sig_atomic_t g_sigpipe;

static void
on_sigpipe(int s)
{
	(void) s;
	g_sigpipe++;
}

// ---------------------------------------------------------------- allocator
static __thread long fail_in = -1; // the k-th allocation of this thread fails (0 = next)
static int
alloc_should_fail(void)
{
	if (fail_in < 0) return 0;
	if (fail_in == 0) {
		fail_in = -1;
		return 1;
	}
	fail_in--;
	return 0;
}
static void *
v_malloc(size_t n)
{
	return alloc_should_fail() ? NULL : malloc(n);
}
static void *
v_calloc(size_t a, size_t b)
{
	return alloc_should_fail() ? NULL : calloc(a, b);
}
static void
v_free(void *p, size_t n)
{
	(void) n;
	free(p);
}

static int
parse_list(const char *s, size_t *v, int max)
{
	int n = 0;
	if (s == NULL || strcmp(s, "-") == 0) return 0;
	while (*s && n < max) {
		v[n++] = strtoull(s, (char **) &s, 10);
		if (*s == ',') s++;
	}
	return n;
}

static double
now_ms(void)
{
	struct timeval tv;
	gettimeofday(&tv, NULL);
	return tv.tv_sec * 1000.0 + tv.tv_usec / 1000.0;
}

// ------------------------------------------------------------------ iov (WB)
// iov <off:len,...|-> <adv,adv,...>    off = '-' for a NULL iov_buf
static void
do_iov(char **tok)
{
	static uint8_t arena[1];
	nni_aio        aio;
	nni_iov        v[16];
	unsigned       n = 0;
	size_t         adv[64];
	const char    *s = tok[1];

	nni_aio_init(&aio, NULL, NULL);
	if (strcmp(s, "-") != 0) {
		while (*s && n < 16) {
			if (*s == '-') {
				v[n].iov_buf = NULL;
				s++;
			} else {
				v[n].iov_buf = arena + strtoull(s, (char **) &s, 10);
			}
			if (*s == ':') s++;
			v[n].iov_len = strtoull(s, (char **) &s, 10);
			n++;
			if (*s == ',') s++;
		}
	}
	int rv = nni_aio_set_iov(&aio, n, v);
	printf("set rv=%d\n", rv);
	if (rv == 0) {
		int na = parse_list(tok[2], adv, 64);
		for (int i = 0; i <= na; i++) {
			unsigned nio;
			nni_iov *cur;
			size_t   ret = 0;
			if (i > 0) ret = nni_aio_iov_advance(&aio, adv[i - 1]);
			nni_aio_get_iov(&aio, &nio, &cur);
			printf("adv n=%zu ret=%zu nio=%u count=%zu iov=", i > 0 ? adv[i - 1] : 0, ret, nio,
			    nni_aio_iov_count(&aio));
			for (unsigned j = 0; j < NNI_AIO_MAX_IOV; j++) {
				if (aio.a_iov[j].iov_buf == NULL) {
					printf("%s-:%zu", j ? "," : "", aio.a_iov[j].iov_len);
				} else {
					printf("%s%zu:%zu", j ? "," : "",
					    (size_t) ((uint8_t *) aio.a_iov[j].iov_buf - arena), aio.a_iov[j].iov_len);
				}
			}
			printf("\n");
		}
	}
	nni_aio_fini(&aio);
}

// --------------------------------------------------------------- pull-up (WB)
// pullup <bodyhex> <hdrhex> <shared 0|1> <fail k|-1>
// message = nng_msg_alloc(0) + append body + header append; optional clone
// (refcnt 2); the k-th allocation made by nni_msg_pull_up fails
static void
do_pullup(char **tok)
{
	size_t   bl, hl;
	uint8_t *b = unhex(tok[1], &bl);
	uint8_t *h = unhex(tok[2], &hl);
	int      shared = atoi(tok[3]);
	long     fk     = atol(tok[4]);
	nng_msg *m, *pu;

	if (nng_msg_alloc(&m, 0) != 0 || nng_msg_append(m, b, bl) != 0 || nng_msg_header_append(m, h, hl) != 0) {
		printf("pullup setup failed\n");
		return;
	}
	if (shared) nni_msg_clone(m);
	fail_in = fk;
	pu      = nni_msg_pull_up(m);
	fail_in = -1;
	if (pu == NULL) {
		printf("pullup none\n");
		nni_msg_free(m); // pull_up failed: the caller still owns its reference
	} else {
		printf("pullup hdr=");
		puthex(nni_msg_header(pu), nni_msg_header_len(pu));
		printf(" body=");
		puthex(nni_msg_body(pu), nni_msg_len(pu));
		printf("\n");
		nni_msg_free(pu);
	}
	if (shared) nni_msg_free(m); // the clone's reference
	free(b);
	free(h);
}

// ------------------------------------------------------------ raw descriptors
static int
raw_write_all(int fd, const uint8_t *p, size_t n)
{
	while (n > 0) {
		ssize_t w = send(fd, p, n, MSG_NOSIGNAL);
		if (w < 0) {
			if (errno == EINTR) continue;
			if (errno == EAGAIN) {
				struct pollfd pfd = { .fd = fd, .events = POLLOUT };
				if (poll(&pfd, 1, 2000) <= 0) return -1;
				continue;
			}
			return -1;
		}
		p += w;
		n -= (size_t) w;
	}
	return 0;
}

// write d[0..len) cut at the given ascending positions, pausing between pieces;
// returns number of bytes written (a peer that has closed stops it)
static size_t
raw_write_cut(int fd, const uint8_t *d, size_t len, const size_t *cuts, int nc)
{
	size_t off = 0;
	for (int i = 0; i <= nc; i++) {
		size_t end = (i < nc) ? cuts[i] : len;
		if (end > len) end = len;
		if (end > off) {
			if (raw_write_all(fd, d + off, end - off) != 0) return off;
			off = end;
			if (i < nc) usleep(gap_us);
		}
	}
	return off;
}

// read exactly n bytes (timeout ms); returns bytes read
static size_t
raw_read_n(int fd, uint8_t *buf, size_t n, int tmo)
{
	size_t got = 0;
	while (got < n) {
		struct pollfd pfd = { .fd = fd, .events = POLLIN };
		if (poll(&pfd, 1, tmo) <= 0) break;
		ssize_t r = recv(fd, buf + got, n - got, 0);
		if (r <= 0) break;
		got += (size_t) r;
	}
	return got;
}

// 1 = the peer (nng) closed or reset the connection within tmo ms; bytes that
// arrive meanwhile are counted in *extra
static int
raw_wait_closed(int fd, int tmo, size_t *extra)
{
	double  t0 = now_ms();
	uint8_t tmp[4096];
	for (;;) {
		int left = tmo - (int) (now_ms() - t0);
		if (left < 0) left = 0;
		struct pollfd pfd = { .fd = fd, .events = POLLIN };
		int           pr  = poll(&pfd, 1, left);
		if (pr <= 0) return 0;
		ssize_t r = recv(fd, tmp, sizeof(tmp), MSG_DONTWAIT);
		if (r == 0) return 1;
		if (r < 0) {
			if (errno == EAGAIN || errno == EINTR) continue;
			return 1; // ECONNRESET and the like
		}
		if (extra) *extra += (size_t) r;
	}
}

// ------------------------------------------------------------- connection setup
typedef struct {
	nng_socket sock;
	int        fd; // raw end
	int        nngfd; // sfd: the descriptor handed to nng (for setsockopt), else -1
	char       path[108];
} conn;

static int
open_proto(const char *proto, nng_socket *s)
{
	if (strcmp(proto, "pair0") == 0) return nng_pair0_open(s);
	if (strcmp(proto, "pair0raw") == 0) return nng_pair0_open_raw(s);
	if (strcmp(proto, "pair1") == 0) return nng_pair1_open(s);
	if (strcmp(proto, "pair1raw") == 0) return nng_pair1_open_raw(s);
	if (strcmp(proto, "xrep") == 0) return nng_rep0_open_raw(s);
	if (strcmp(proto, "rep") == 0) return nng_rep0_open(s);
	if (strcmp(proto, "xreq") == 0) return nng_req0_open_raw(s);
	if (strcmp(proto, "req") == 0) return nng_req0_open(s);
	if (strcmp(proto, "pull") == 0) return nng_pull0_open(s);
	if (strcmp(proto, "push") == 0) return nng_push0_open(s);
	if (strcmp(proto, "sub") == 0) {
		int rv = nng_sub0_open(s);
		if (rv == 0) rv = nng_sub0_socket_subscribe(*s, "", 0);
		return rv;
	}
	if (strcmp(proto, "pub") == 0) return nng_pub0_open(s);
	if (strcmp(proto, "pubraw") == 0) return nng_pub0_open_raw(s);
	if (strcmp(proto, "bus") == 0) return nng_bus0_open(s);
	if (strcmp(proto, "busraw") == 0) return nng_bus0_open_raw(s);
	if (strcmp(proto, "surveyor") == 0) return nng_surveyor0_open(s);
	if (strcmp(proto, "respondent") == 0) return nng_respondent0_open(s);
	if (strcmp(proto, "xrespondent") == 0) return nng_respondent0_open_raw(s);
	if (strcmp(proto, "xsurveyor") == 0) return nng_surveyor0_open_raw(s);
	return NNG_ENOTSUP;
}

static void
small_bufs(int fd, int rcv, int snd)
{
	int one = 1;
	if (rcv) setsockopt(fd, SOL_SOCKET, SO_RCVBUF, &one, sizeof(one));
	if (snd) setsockopt(fd, SOL_SOCKET, SO_SNDBUF, &one, sizeof(one));
}

// attach a raw descriptor to an already opened nng socket.
// tran: tcp | ipc | sfd; role: l (nng listens) | d (nng dials); smallbuf: shrink
// the raw side's receive buffer (and nng's send buffer where we own the fd)
static int
conn_attach(conn *c, const char *tran, char role, int smallbuf)
{
	int rv;
	c->fd       = -1;
	c->nngfd    = -1;
	c->path[0]  = 0;
	if (strcmp(tran, "sfd") == 0) {
		int          fds[2];
		nng_listener l;
		if (socketpair(AF_UNIX, SOCK_STREAM, 0, fds) != 0) return -errno;
		if (smallbuf) {
			small_bufs(fds[1], 1, 0);
			small_bufs(fds[0], 0, 1);
		}
		if ((rv = nng_listener_create(&l, c->sock, "socket://")) != 0) return rv;
		if ((rv = nng_listener_start(l, 0)) != 0) return rv;
		if ((rv = nng_listener_set_int(l, NNG_OPT_SOCKET_FD, fds[0])) != 0) return rv;
		c->fd    = fds[1];
		c->nngfd = fds[0];
		return 0;
	}
	if (strcmp(tran, "tcp") == 0) {
		struct sockaddr_in sa = { .sin_family = AF_INET };
		socklen_t          sl = sizeof(sa);
		int                one = 1;
		sa.sin_addr.s_addr    = htonl(INADDR_LOOPBACK);
		if (role == 'l') {
			nng_listener l;
			int          port = 0;
			if ((rv = nng_listener_create(&l, c->sock, "tcp://127.0.0.1:0")) != 0) return rv;
			if ((rv = nng_listener_start(l, 0)) != 0) return rv;
			if ((rv = nng_listener_get_int(l, NNG_OPT_BOUND_PORT, &port)) != 0) return rv;
			sa.sin_port = htons((uint16_t) port);
			c->fd       = socket(AF_INET, SOCK_STREAM, 0);
			if (smallbuf) small_bufs(c->fd, 1, 0);
			setsockopt(c->fd, IPPROTO_TCP, TCP_NODELAY, &one, sizeof(one));
			if (connect(c->fd, (struct sockaddr *) &sa, sizeof(sa)) != 0) return -errno;
			return 0;
		} else {
			char url[64];
			int  lfd = socket(AF_INET, SOCK_STREAM, 0);
			if (smallbuf) small_bufs(lfd, 1, 0);
			if (bind(lfd, (struct sockaddr *) &sa, sizeof(sa)) != 0 || listen(lfd, 4) != 0) {
				close(lfd);
				return -errno;
			}
			getsockname(lfd, (struct sockaddr *) &sa, &sl);
			snprintf(url, sizeof(url), "tcp://127.0.0.1:%d", ntohs(sa.sin_port));
			if ((rv = nng_dial(c->sock, url, NULL, NNG_FLAG_NONBLOCK)) != 0) {
				close(lfd);
				return rv;
			}
			struct pollfd pfd = { .fd = lfd, .events = POLLIN };
			if (poll(&pfd, 1, 3000) <= 0) {
				close(lfd);
				return -1002;
			}
			c->fd = accept(lfd, NULL, NULL);
			close(lfd);
			setsockopt(c->fd, IPPROTO_TCP, TCP_NODELAY, &one, sizeof(one));
			return c->fd >= 0 ? 0 : -errno;
		}
	}
	if (strcmp(tran, "ipc") == 0) {
		struct sockaddr_un su = { .sun_family = AF_UNIX };
		char               url[160];
		snprintf(c->path, sizeof(c->path), "/tmp/nngv_c01_%d_%d.sock", (int) getpid(), ++g_serial);
		unlink(c->path);
		strcpy(su.sun_path, c->path);
		snprintf(url, sizeof(url), "ipc://%s", c->path);
		if (role == 'l') {
			if ((rv = nng_listen(c->sock, url, NULL, 0)) != 0) return rv;
			c->fd = socket(AF_UNIX, SOCK_STREAM, 0);
			if (smallbuf) small_bufs(c->fd, 1, 0);
			if (connect(c->fd, (struct sockaddr *) &su, sizeof(su)) != 0) return -errno;
			return 0;
		} else {
			int lfd = socket(AF_UNIX, SOCK_STREAM, 0);
			if (smallbuf) small_bufs(lfd, 1, 0);
			if (bind(lfd, (struct sockaddr *) &su, sizeof(su)) != 0 || listen(lfd, 4) != 0) {
				close(lfd);
				return -errno;
			}
			if ((rv = nng_dial(c->sock, url, NULL, NNG_FLAG_NONBLOCK)) != 0) {
				close(lfd);
				return rv;
			}
			struct pollfd pfd = { .fd = lfd, .events = POLLIN };
			if (poll(&pfd, 1, 3000) <= 0) {
				close(lfd);
				return -1002;
			}
			c->fd = accept(lfd, NULL, NULL);
			close(lfd);
			if (smallbuf) small_bufs(c->fd, 1, 0);
			return c->fd >= 0 ? 0 : -errno;
		}
	}
	return NNG_ENOTSUP;
}

static void
conn_close(conn *c)
{
	if (c->fd >= 0) close(c->fd);
	c->fd = -1;
	nng_socket_close(c->sock);
	if (c->path[0]) unlink(c->path);
}

// the raw side of the SP negotiation: write [hdr] cut at [cuts], read nng's 8
// bytes.  Prints "nego tx=<what nng sent>".  Returns 0 when 8 bytes came back.
static int
raw_nego(int fd, const uint8_t *hdr, size_t hlen, const size_t *cuts, int nc)
{
	uint8_t in[8];
	raw_write_cut(fd, hdr, hlen, cuts, nc);
	size_t got = raw_read_n(fd, in, 8, 3000);
	printf("nego tx=");
	puthex(in, got);
	printf("\n");
	return got == 8 ? 0 : -1;
}

static void
print_msg(nng_msg *m, int pipehdr)
{
	size_t   hl = nng_msg_header_len(m);
	uint8_t *h  = nng_msg_header(m);
	printf("rx hdr=");
	if (pipehdr && hl >= 4) {
		printf("P:");
		puthex(h + 4, hl - 4);
	} else {
		puthex(h, hl);
	}
	printf(" body=");
	puthex(nng_msg_body(m), nng_msg_len(m));
	printf("\n");
}

// flags shared by rx / wsrx: z = NNG_OPT_RECVBUF 0, B = NNG_OPT_RECVBUF 2 (protocols without the option ignore it);
// p = back-pressure: the application starts receiving only 300 ms after the last byte was written
static void
bp_options(nng_socket s, const char *fl)
{
	if (strchr(fl, 'z')) nng_socket_set_int(s, NNG_OPT_RECVBUF, 0);
	if (strchr(fl, 'B')) nng_socket_set_int(s, NNG_OPT_RECVBUF, 2);
}

// rx <tran> <role> <proto> <rcvmax> <negohex> <negocuts> <streamhex> <cuts> <nexpect> <flags>
//   negohex  : the 8 (or any number of) bytes the raw peer sends as its SP header
//   nexpect  : how many messages the harness waits for before it stops early
//   flags    : c = close the raw end after the last byte; w = wait (up to 400 ms)
//              to see whether nng closes the connection
static void
do_rx(char **tok)
{
	conn        c;
	const char *tran = tok[1], *proto = tok[3];
	char        role   = tok[2][0];
	size_t      rcvmax = strtoull(tok[4], NULL, 10);
	size_t      nl, sl, ncuts[16], cuts[256];
	uint8_t    *nh  = unhex(tok[5], &nl);
	int         nnc = parse_list(tok[6], ncuts, 16);
	uint8_t    *st  = unhex(tok[7], &sl);
	int         nc  = parse_list(tok[8], cuts, 256);
	int         nexp = atoi(tok[9]);
	const char *fl   = tok[10];
	int         rv, nrx = 0, rawhdr;

	if ((rv = open_proto(proto, &c.sock)) != 0) {
		printf("fail open rv=%d\n", rv);
		goto out;
	}
	rawhdr = strcmp(proto, "xrep") == 0 || strcmp(proto, "xrespondent") == 0;
	nng_socket_set_size(c.sock, NNG_OPT_RECVMAXSZ, rcvmax);
	nng_socket_set_ms(c.sock, NNG_OPT_RECVTIMEO, 600);
	bp_options(c.sock, fl);
	if ((rv = conn_attach(&c, tran, role, 0)) != 0) {
		printf("fail attach rv=%d\n", rv);
		conn_close(&c);
		goto out;
	}
	if (raw_nego(c.fd, nh, nl, ncuts, nnc) == 0) {
		size_t wr = raw_write_cut(c.fd, st, sl, cuts, nc);
		if (wr != sl) printf("diag short_write=%zu\n", wr);
	}
	if (strchr(fl, 'c')) {
		shutdown(c.fd, SHUT_WR);
	}
	if (strchr(fl, 'p')) usleep(300000);
	for (;;) {
		nng_msg *m;
		if (nrx >= nexp) nng_socket_set_ms(c.sock, NNG_OPT_RECVTIMEO, 40);
		rv = nng_recvmsg(c.sock, &m, 0);
		if (rv != 0) break;
		print_msg(m, rawhdr);
		nng_msg_free(m);
		nrx++;
		if (nrx > nexp + 8) break;
	}
	int    closed = -1;
	size_t extra  = 0;
	if (strchr(fl, 'w')) closed = raw_wait_closed(c.fd, 400, &extra);
	printf("end n=%d closed=%d extra=%zu\n", nrx, closed, extra);
	conn_close(&c);
out:
	free(nh);
	free(st);
}

// ----------------------------------------------------------------- tx
typedef struct {
	nng_socket sock;
	int        nmsg;
	uint8_t  **hdr, **body;
	size_t    *hl, *bl;
	volatile int done, rv;
} txjob;

static void *
tx_thread(void *arg)
{
	txjob *j = arg;
	for (int i = 0; i < j->nmsg; i++) {
		nng_msg *m;
		nng_msg_alloc(&m, 0);
		nng_msg_append(m, j->body[i], j->bl[i]);
		if (j->hl[i]) nng_msg_header_append(m, j->hdr[i], j->hl[i]);
		int rv = nng_sendmsg(j->sock, m, 0);
		if (rv != 0) {
			nng_msg_free(m);
			j->rv = rv;
			break;
		}
	}
	j->done = 1;
	return NULL;
}

// tx <tran> <role> <proto> <smallbuf 0|1> <hdrhex:bodyhex,...> <predelay_us> <chunk> <pause_us> <total>
//   the raw peer waits predelay, then reads [chunk] bytes at a time pausing
//   [pause_us] between reads, until <total> bytes have arrived (then looks 30 ms
//   for more).  Prints the byte stream nng emitted.
static void
do_tx(char **tok)
{
	conn        c;
	const char *tran = tok[1], *proto = tok[3];
	char        role  = tok[2][0];
	int         small = atoi(tok[4]);
	unsigned    predelay = (unsigned) atoi(tok[6]);
	size_t      chunk = strtoull(tok[7], NULL, 10);
	unsigned    pause = (unsigned) atoi(tok[8]);
	size_t      total = strtoull(tok[9], NULL, 10);
	txjob       j     = { 0 };
	pthread_t   th;
	int         rv;
	uint8_t     peerhdr[8] = { 0, 'S', 'P', 0, 0, 0, 0, 0 };

	// messages
	{
		char *sp = NULL, *copy = strdup(tok[5]);
		int   cap = 1;
		for (char *p = copy; *p; p++) cap += (*p == ',');
		j.hdr  = calloc(cap, sizeof(*j.hdr));
		j.body = calloc(cap, sizeof(*j.body));
		j.hl   = calloc(cap, sizeof(size_t));
		j.bl   = calloc(cap, sizeof(size_t));
		for (char *t = strtok_r(copy, ",", &sp); t != NULL; t = strtok_r(NULL, ",", &sp)) {
			char *colon = strchr(t, ':');
			*colon      = 0;
			j.hdr[j.nmsg]  = unhex(t, &j.hl[j.nmsg]);
			j.body[j.nmsg] = unhex(colon + 1, &j.bl[j.nmsg]);
			j.nmsg++;
		}
		free(copy);
	}
	if ((rv = open_proto(proto, &c.sock)) != 0) {
		printf("fail open rv=%d\n", rv);
		return;
	}
	nng_socket_set_ms(c.sock, NNG_OPT_SENDTIMEO, 8000);
	if ((rv = conn_attach(&c, tran, role, small)) != 0) {
		printf("fail attach rv=%d\n", rv);
		conn_close(&c);
		return;
	}
	// our header announces the protocol nng expects as its peer
	{
		uint16_t peer = 0;
		if (strncmp(proto, "pair0", 5) == 0) peer = 0x10;
		else if (strncmp(proto, "pair1", 5) == 0) peer = 0x11;
		else if (strcmp(proto, "xreq") == 0 || strcmp(proto, "req") == 0) peer = 0x31;
		else if (strcmp(proto, "xrep") == 0 || strcmp(proto, "rep") == 0) peer = 0x30;
		else if (strncmp(proto, "pub", 3) == 0) peer = 0x21;
		else if (strcmp(proto, "push") == 0) peer = 0x51;
		else if (strncmp(proto, "bus", 3) == 0) peer = 0x70;
		peerhdr[4] = (uint8_t) (peer >> 8);
		peerhdr[5] = (uint8_t) peer;
	}
	if (raw_nego(c.fd, peerhdr, 8, NULL, 0) != 0) {
		printf("fail nego\n");
		conn_close(&c);
		return;
	}
	j.sock = c.sock;
	pthread_create(&th, NULL, tx_thread, &j);
	usleep(predelay);
	printf("diag pending=%d\n", j.done ? 0 : 1);
	uint8_t *buf = malloc(total + 65536);
	size_t   got = 0;
	double   t0  = now_ms();
	while (got < total && now_ms() - t0 < 15000) {
		struct pollfd pfd = { .fd = c.fd, .events = POLLIN };
		if (poll(&pfd, 1, 3000) <= 0) break;
		size_t  want = chunk < total - got ? chunk : total - got;
		ssize_t r    = recv(c.fd, buf + got, want, 0);
		if (r <= 0) break;
		got += (size_t) r;
		if (pause) usleep(pause);
	}
	// anything beyond the expected bytes (a duplicate, a stray frame)?
	{
		struct pollfd pfd = { .fd = c.fd, .events = POLLIN };
		while (got < total + 65536 && poll(&pfd, 1, 30) > 0) {
			ssize_t r = recv(c.fd, buf + got, total + 65536 - got, 0);
			if (r <= 0) break;
			got += (size_t) r;
		}
	}
	pthread_join(th, NULL);
	printf("wire ");
	puthex(buf, got);
	printf("\nend sent_rv=%d n=%zu\n", j.rv, got);
	free(buf);
	conn_close(&c);
	for (int i = 0; i < j.nmsg; i++) {
		free(j.hdr[i]);
		free(j.body[i]);
	}
	free(j.hdr);
	free(j.body);
	free(j.hl);
	free(j.bl);
}

// ----------------------------------------------------------------- inproc
// inproc <mode> <hdrhex:bodyhex,...>
//   mode pair : raw pair0 --inproc--> pair0, all sends first then the receives
//        pairi: the same, one receive after each send
//        pub2 : raw pub --inproc--> two subs (the message is shared between
//               the two pipes: nni_msg_pull_up takes its duplicate branch)
static void
do_inproc(char **tok)
{
	const char *mode = tok[1];
	char        url[64];
	nng_socket  tx, rx1, rx2 = NNG_SOCKET_INITIALIZER;
	int         two = strcmp(mode, "pub2") == 0;
	int         rv;

	snprintf(url, sizeof(url), "inproc://c01_%d_%d", (int) getpid(), ++g_serial);
	if (two) {
		rv = nng_pub0_open_raw(&tx);
		if (rv == 0) rv = open_proto("sub", &rx1);
		if (rv == 0) rv = open_proto("sub", &rx2);
	} else {
		rv = nng_pair0_open_raw(&tx);
		if (rv == 0) rv = nng_pair0_open(&rx1);
	}
	if (rv != 0) {
		printf("fail open rv=%d\n", rv);
		return;
	}
	nng_socket_set_ms(rx1, NNG_OPT_RECVTIMEO, 500);
	nng_socket_set_int(rx1, NNG_OPT_RECVBUF, 64);
	nng_socket_set_int(tx, NNG_OPT_SENDBUF, 64);
	if (two) {
		nng_socket_set_ms(rx2, NNG_OPT_RECVTIMEO, 500);
		nng_socket_set_int(rx2, NNG_OPT_RECVBUF, 64);
	}
	nng_socket_set_ms(tx, NNG_OPT_SENDTIMEO, 1000);
	if ((rv = nng_listen(tx, url, NULL, 0)) != 0 || (rv = nng_dial(rx1, url, NULL, 0)) != 0 ||
	    (two && (rv = nng_dial(rx2, url, NULL, 0)) != 0)) {
		printf("fail connect rv=%d\n", rv);
		goto out;
	}
	usleep(20000); // let the pipes attach (pub drops messages without subscribers)
	char *sp = NULL, *copy = strdup(tok[2]);
	int   nsent = 0, interleave = strcmp(mode, "pairi") == 0;
	for (char *t = strtok_r(copy, ",", &sp); t != NULL; t = strtok_r(NULL, ",", &sp)) {
		char  *colon = strchr(t, ':');
		size_t hl, bl;
		*colon       = 0;
		uint8_t *h   = unhex(t, &hl);
		uint8_t *b   = unhex(colon + 1, &bl);
		nng_msg *m;
		nng_msg_alloc(&m, 0);
		nng_msg_append(m, b, bl);
		if (hl) nng_msg_header_append(m, h, hl);
		rv = nng_sendmsg(tx, m, 0);
		printf("sent rv=%d\n", rv);
		if (rv != 0) nng_msg_free(m);
		else nsent++;
		free(h);
		free(b);
		if (interleave && rv == 0) {
			if (nng_recvmsg(rx1, &m, 0) == 0) {
				print_msg(m, 0);
				nng_msg_free(m);
				nsent--;
			}
		}
	}
	free(copy);
	for (int k = 0; k < (two ? 2 : 1); k++) {
		nng_socket r = k ? rx2 : rx1;
		int        n = 0;
		nng_msg   *m;
		if (two) printf("sub %d\n", k);
		while (n < nsent + 2) {
			if (n >= nsent) nng_socket_set_ms(r, NNG_OPT_RECVTIMEO, 30);
			if (nng_recvmsg(r, &m, 0) != 0) break;
			print_msg(m, 0);
			nng_msg_free(m);
			n++;
		}
	}
	printf("end\n");
out:
	nng_socket_close(tx);
	nng_socket_close(rx1);
	if (two) nng_socket_close(rx2);
}

// inprocbp <pair|push> <recvbuf> <hdrhex:bodyhex,...>
// back-pressure over inproc: a thread sends all messages (blocking sends) while
// the receiving application does not receive for 300 ms, then receives
static void
do_inprocbp(char **tok)
{
	char       url[64];
	nng_socket tx, rx;
	int        rv, push = strcmp(tok[1], "push") == 0;
	txjob      j = { 0 };
	pthread_t  th;

	snprintf(url, sizeof(url), "inproc://c01bp_%d_%d", (int) getpid(), ++g_serial);
	rv = push ? nng_push0_open(&tx) : nng_pair0_open_raw(&tx);
	if (rv == 0) rv = push ? nng_pull0_open(&rx) : nng_pair0_open(&rx);
	if (rv != 0) {
		printf("fail open rv=%d\n", rv);
		return;
	}
	nng_socket_set_int(rx, NNG_OPT_RECVBUF, atoi(tok[2]));
	nng_socket_set_int(tx, NNG_OPT_SENDBUF, 0);
	nng_socket_set_ms(tx, NNG_OPT_SENDTIMEO, 5000);
	nng_socket_set_ms(rx, NNG_OPT_RECVTIMEO, 600);
	if ((rv = nng_listen(rx, url, NULL, 0)) != 0 || (rv = nng_dial(tx, url, NULL, 0)) != 0) {
		printf("fail connect rv=%d\n", rv);
		goto out;
	}
	{
		char *sp = NULL, *copy = strdup(tok[3]);
		int   cap = 1;
		for (char *p = copy; *p; p++) cap += (*p == ',');
		j.hdr  = calloc(cap, sizeof(*j.hdr));
		j.body = calloc(cap, sizeof(*j.body));
		j.hl   = calloc(cap, sizeof(size_t));
		j.bl   = calloc(cap, sizeof(size_t));
		for (char *t = strtok_r(copy, ",", &sp); t != NULL; t = strtok_r(NULL, ",", &sp)) {
			char *colon    = strchr(t, ':');
			*colon         = 0;
			j.hdr[j.nmsg]  = unhex(t, &j.hl[j.nmsg]);
			j.body[j.nmsg] = unhex(colon + 1, &j.bl[j.nmsg]);
			j.nmsg++;
		}
		free(copy);
	}
	j.sock = tx;
	pthread_create(&th, NULL, tx_thread, &j);
	usleep(300000);
	for (int n = 0; n < j.nmsg + 2; n++) {
		nng_msg *m;
		if (n >= j.nmsg) nng_socket_set_ms(rx, NNG_OPT_RECVTIMEO, 40);
		if (nng_recvmsg(rx, &m, 0) != 0) break;
		print_msg(m, 0);
		nng_msg_free(m);
	}
	pthread_join(th, NULL);
	printf("end sent_rv=%d\n", j.rv);
	for (int i = 0; i < j.nmsg; i++) {
		free(j.hdr[i]);
		free(j.body[i]);
	}
	free(j.hdr);
	free(j.body);
	free(j.hl);
	free(j.bl);
out:
	nng_socket_close(tx);
	nng_socket_close(rx);
}

// ------------------------------------------------------- SP over WebSocket
#include "supplemental/websocket/base64.h"
#include "supplemental/websocket/sha1.h"

static size_t
raw_read_head(int fd, uint8_t *buf, size_t cap, size_t *tot)
{
	size_t n = 0;
	for (;;) {
		struct pollfd pfd = { .fd = fd, .events = POLLIN };
		if (poll(&pfd, 1, 3000) <= 0) return 0;
		ssize_t r = recv(fd, buf + n, cap - n, 0);
		if (r <= 0) return 0;
		n += (size_t) r;
		for (size_t i = 0; i + 3 < n; i++) {
			if (memcmp(buf + i, "\r\n\r\n", 4) == 0) {
				*tot = n;
				return i + 4;
			}
		}
		if (n == cap) return 0;
	}
}

static const char *
find_header(const char *head, const char *name)
{
	const char *p = strcasestr(head, name);
	if (p == NULL) return NULL;
	p += strlen(name);
	while (*p == ' ') p++;
	return p;
}

static void
make_accept(const char *key24, char *out29)
{
	nni_sha1_ctx ctx;
	uint8_t      dig[20];
	nni_sha1_init(&ctx);
	nni_sha1_update(&ctx, key24, strlen(key24));
	nni_sha1_update(&ctx, "258EAFA5-E914-47DA-95CA-C5AB0DC85B11", 36);
	nni_sha1_final(&ctx, dig);
	size_t n = nni_base64_encode(dig, 20, out29, 29);
	out29[n == (size_t) -1 ? 0 : n] = 0;
}

// connect a raw descriptor to an nng pair0 socket over ws:// and complete the
// HTTP upgrade with the SP sub-protocol.  Bytes that followed nng's head are
// kept in lead[0..*nlead).  Returns the raw fd or -1.
static const char *g_wsproto = "pair"; // <name>.sp.nanomsg.org offered / answered by the raw side

static int
ws_attach(nng_socket s, char role, size_t fragsize, uint8_t *lead, size_t *nlead)
{
	uint8_t head[8192];
	int     fd = -1, rv, one = 1;
	size_t  tot = 0, rl;
	*nlead      = 0;
	struct sockaddr_in sa = { .sin_family = AF_INET };
	socklen_t          sl = sizeof(sa);
	sa.sin_addr.s_addr    = htonl(INADDR_LOOPBACK);
	if (role == 'l') {
		nng_listener l;
		int          port = 0;
		if ((rv = nng_listener_create(&l, s, "ws://127.0.0.1:0/")) != 0) return -1;
		if (fragsize) nng_listener_set_size(l, NNG_OPT_WS_SENDMAXFRAME, fragsize);
		if ((rv = nng_listener_start(l, 0)) != 0) return -1;
		if ((rv = nng_listener_get_int(l, NNG_OPT_BOUND_PORT, &port)) != 0) return -1;
		sa.sin_port = htons((uint16_t) port);
		fd          = socket(AF_INET, SOCK_STREAM, 0);
		setsockopt(fd, IPPROTO_TCP, TCP_NODELAY, &one, sizeof(one));
		if (connect(fd, (struct sockaddr *) &sa, sizeof(sa)) != 0) goto fail;
		int hl = snprintf((char *) head, sizeof(head),
		    "GET / HTTP/1.1\r\nHost: 127.0.0.1:%d\r\nUpgrade: websocket\r\n"
		    "Connection: Upgrade\r\nSec-WebSocket-Key: dGhlIHNhbXBsZSBub25jZQ==\r\n"
		    "Sec-WebSocket-Protocol: %s.sp.nanomsg.org\r\n"
		    "Sec-WebSocket-Version: 13\r\n\r\n",
		    port, g_wsproto);
		if (raw_write_all(fd, head, (size_t) hl) != 0) goto fail;
		if ((rl = raw_read_head(fd, head, sizeof(head) - 1, &tot)) == 0) goto fail;
		head[rl] = 0;
		printf("hs status=%.3s\n", (char *) head + 9);
		if (strncmp((char *) head + 9, "101", 3) != 0) goto fail;
	} else {
		char url[64];
		int  lfd = socket(AF_INET, SOCK_STREAM, 0);
		if (bind(lfd, (struct sockaddr *) &sa, sizeof(sa)) != 0 || listen(lfd, 4) != 0) {
			close(lfd);
			return -1;
		}
		getsockname(lfd, (struct sockaddr *) &sa, &sl);
		snprintf(url, sizeof(url), "ws://127.0.0.1:%d/", ntohs(sa.sin_port));
		nng_dialer d;
		if ((rv = nng_dialer_create(&d, s, url)) != 0) {
			close(lfd);
			return -1;
		}
		if (fragsize) nng_dialer_set_size(d, NNG_OPT_WS_SENDMAXFRAME, fragsize);
		if ((rv = nng_dialer_start(d, NNG_FLAG_NONBLOCK)) != 0) {
			close(lfd);
			return -1;
		}
		struct pollfd pfd = { .fd = lfd, .events = POLLIN };
		if (poll(&pfd, 1, 3000) <= 0) {
			close(lfd);
			return -1;
		}
		fd = accept(lfd, NULL, NULL);
		close(lfd);
		setsockopt(fd, IPPROTO_TCP, TCP_NODELAY, &one, sizeof(one));
		if ((rl = raw_read_head(fd, head, sizeof(head) - 1, &tot)) == 0) goto fail;
		head[rl]      = 0;
		const char *k = find_header((char *) head, "Sec-WebSocket-Key:");
		const char *pr = find_header((char *) head, "Sec-WebSocket-Protocol:");
		char        key[32], acc[32];
		if (k == NULL) goto fail;
		printf("hs proto=%.19s\n", pr ? pr : "?");
		snprintf(key, sizeof(key), "%.24s", k);
		make_accept(key, acc);
		int hl = snprintf((char *) head + rl + 1, sizeof(head) - rl - 1,
		    "HTTP/1.1 101 Switching Protocols\r\nUpgrade: websocket\r\n"
		    "Connection: Upgrade\r\nSec-WebSocket-Accept: %s\r\n"
		    "Sec-WebSocket-Protocol: %s.sp.nanomsg.org\r\n\r\n",
		    acc, g_wsproto);
		if (raw_write_all(fd, head + rl + 1, (size_t) hl) != 0) goto fail;
	}
	if (tot > rl) {
		memcpy(lead, head + rl, tot - rl);
		*nlead = tot - rl;
	}
	return fd;
fail:
	if (fd >= 0) close(fd);
	return -1;
}

// wsrx <role> <rcvmax> <streamhex> <cuts> <nexpect> <flags>
static void
do_wsrx(char **tok)
{
	conn     c;
	char     role   = tok[1][0];
	size_t   rcvmax = strtoull(tok[2], NULL, 10);
	size_t   sl, cuts[256], nlead;
	uint8_t *st   = unhex(tok[3], &sl);
	int      nc   = parse_list(tok[4], cuts, 256);
	int      nexp = atoi(tok[5]), nrx = 0, rv;
	uint8_t  lead[8192];

	c.path[0] = 0;
	c.nngfd   = -1;
	// optional 8th token: the protocol (pair0 | pull | sub); the raw side names the matching sub-protocol
	const char *wproto = tok[7] != NULL ? tok[7] : "pair0";
	g_wsproto = strcmp(wproto, "pull") == 0 ? (role == 'l' ? "pull" : "push")
	    : strcmp(wproto, "sub") == 0      ? (role == 'l' ? "sub" : "pub")
	                                      : "pair";
	if ((rv = open_proto(wproto, &c.sock)) != 0) {
		printf("fail open rv=%d\n", rv);
		free(st);
		g_wsproto = "pair";
		return;
	}
	nng_socket_set_size(c.sock, NNG_OPT_RECVMAXSZ, rcvmax);
	nng_socket_set_ms(c.sock, NNG_OPT_RECVTIMEO, 600);
	bp_options(c.sock, tok[6]);
	rv        = ws_attach(c.sock, role, 0, lead, &nlead);
	g_wsproto = "pair";
	if ((c.fd = rv) < 0) {
		printf("fail attach\n");
		nng_socket_close(c.sock);
		free(st);
		return;
	}
	raw_write_cut(c.fd, st, sl, cuts, nc);
	if (strchr(tok[6], 'c')) shutdown(c.fd, SHUT_WR);
	if (strchr(tok[6], 'p')) usleep(300000);
	for (;;) {
		nng_msg *m;
		if (nrx >= nexp) nng_socket_set_ms(c.sock, NNG_OPT_RECVTIMEO, 40);
		if (nng_recvmsg(c.sock, &m, 0) != 0) break;
		print_msg(m, 0);
		nng_msg_free(m);
		if (++nrx > nexp + 8) break;
	}
	int    closed = -1;
	size_t extra  = 0;
	if (strchr(tok[6], 'w')) closed = raw_wait_closed(c.fd, 400, &extra);
	printf("end n=%d closed=%d\n", nrx, closed);
	conn_close(&c);
	free(st);
}

// wstx <role> <fragsize> <hdrhex:bodyhex,...> <nframes>
// nng sends the messages; the raw peer prints every frame it receives
// (unmasked) until <nframes> have arrived, then looks 30 ms for more
static void
do_wstx(char **tok)
{
	conn      c;
	char      role     = tok[1][0];
	size_t    fragsize = strtoull(tok[2], NULL, 10);
	int       nframes  = atoi(tok[4]), seen = 0, rv;
	txjob     j        = { 0 };
	pthread_t th;
	uint8_t   lead[8192];
	size_t    nlead;

	{
		char *sp = NULL, *copy = strdup(tok[3]);
		int   cap = 1;
		for (char *p = copy; *p; p++) cap += (*p == ',');
		j.hdr  = calloc(cap, sizeof(*j.hdr));
		j.body = calloc(cap, sizeof(*j.body));
		j.hl   = calloc(cap, sizeof(size_t));
		j.bl   = calloc(cap, sizeof(size_t));
		for (char *t = strtok_r(copy, ",", &sp); t != NULL; t = strtok_r(NULL, ",", &sp)) {
			char *colon    = strchr(t, ':');
			*colon         = 0;
			j.hdr[j.nmsg]  = unhex(t, &j.hl[j.nmsg]);
			j.body[j.nmsg] = unhex(colon + 1, &j.bl[j.nmsg]);
			j.nmsg++;
		}
		free(copy);
	}
	c.path[0] = 0;
	c.nngfd   = -1;
	if ((rv = nng_pair0_open_raw(&c.sock)) != 0) {
		printf("fail open rv=%d\n", rv);
		return;
	}
	nng_socket_set_ms(c.sock, NNG_OPT_SENDTIMEO, 8000);
	if ((c.fd = ws_attach(c.sock, role, fragsize, lead, &nlead)) < 0) {
		printf("fail attach\n");
		nng_socket_close(c.sock);
		return;
	}
	j.sock = c.sock;
	pthread_create(&th, NULL, tx_thread, &j);
	// frame reader
	size_t   cap = 1 << 20, n = nlead;
	uint8_t *buf = malloc(cap);
	memcpy(buf, lead, nlead);
	double t0 = now_ms();
	int    tmo = 3000;
	for (;;) {
		// parse complete frames at the front of buf
		for (;;) {
			if (n < 2) break;
			size_t hl = 2, pl = buf[1] & 0x7f;
			int    masked = buf[1] & 0x80;
			if (pl == 126) {
				if (n < 4) break;
				pl = ((size_t) buf[2] << 8) | buf[3];
				hl = 4;
			} else if (pl == 127) {
				if (n < 10) break;
				pl = 0;
				for (int i = 0; i < 8; i++) pl = (pl << 8) | buf[2 + i];
				hl = 10;
			}
			size_t kl = masked ? 4 : 0;
			if (n < hl + kl + pl) {
				if (hl + kl + pl + 16 > cap) {
					cap = hl + kl + pl + 4096;
					buf = realloc(buf, cap);
				}
				break;
			}
			uint8_t *pay = buf + hl + kl;
			if (masked) {
				for (size_t i = 0; i < pl; i++) pay[i] ^= buf[hl + (i & 3)];
			}
			printf("wsframe op=%d fin=%d masked=%d rsv=%d payload=", buf[0] & 0x0f, (buf[0] >> 7) & 1,
			    masked ? 1 : 0, (buf[0] >> 4) & 7);
			puthex(pay, pl);
			printf("\n");
			seen++;
			memmove(buf, buf + hl + kl + pl, n - (hl + kl + pl));
			n -= hl + kl + pl;
		}
		if (seen >= nframes) tmo = 30;
		if (now_ms() - t0 > 15000) break;
		struct pollfd pfd = { .fd = c.fd, .events = POLLIN };
		if (poll(&pfd, 1, tmo) <= 0) break;
		if (n == cap) {
			cap *= 2;
			buf = realloc(buf, cap);
		}
		ssize_t r = recv(c.fd, buf + n, cap - n, 0);
		if (r <= 0) break;
		n += (size_t) r;
	}
	pthread_join(th, NULL);
	printf("end sent_rv=%d frames=%d rest=%zu\n", j.rv, seen, n);
	free(buf);
	conn_close(&c);
	for (int i = 0; i < j.nmsg; i++) {
		free(j.hdr[i]);
		free(j.body[i]);
	}
	free(j.hdr);
	free(j.body);
	free(j.hl);
	free(j.bl);
}

// ------------------------------------------------------------ C11 sessions
#include <sys/resource.h>
static double
cpu_ms(void)
{
	struct rusage ru;
	getrusage(RUSAGE_SELF, &ru);
	return (ru.ru_utime.tv_sec + ru.ru_stime.tv_sec) * 1000.0 + (ru.ru_utime.tv_usec + ru.ru_stime.tv_usec) / 1000.0;
}

static int
single_pipe_proto(const char *proto)
{
	return strncmp(proto, "pair", 4) == 0;
}

// a listening raw socket kept open so that a dialing nng socket can reconnect
typedef struct {
	conn c;
	struct sockaddr_in tcp_sa; // role l, tcp: where nng listens
	int  lfd;           // role d: the raw listener
	nng_listener l;     // sfd: the socket:// listener (further fds can be added)
	const char *tran;
	char        role;
} sess;

static int
sess_attach(sess *x, const char *tran, char role)
{
	int rv;
	x->lfd  = -1;
	x->tran = tran;
	x->role = role;
	x->c.fd = -1;
	x->c.nngfd = -1;
	x->c.path[0] = 0;
	if (strcmp(tran, "sfd") == 0) {
		int fds[2];
		if (socketpair(AF_UNIX, SOCK_STREAM, 0, fds) != 0) return -errno;
		if ((rv = nng_listener_create(&x->l, x->c.sock, "socket://")) != 0) return rv;
		if ((rv = nng_listener_start(x->l, 0)) != 0) return rv;
		if ((rv = nng_listener_set_int(x->l, NNG_OPT_SOCKET_FD, fds[0])) != 0) return rv;
		x->c.fd = fds[1];
		return 0;
	}
	if (role == 'l') {
		rv = conn_attach(&x->c, tran, role, 0);
		if (rv == 0 && strcmp(tran, "tcp") == 0) {
			socklen_t sl = sizeof(x->tcp_sa);
			getpeername(x->c.fd, (struct sockaddr *) &x->tcp_sa, &sl);
		}
		return rv;
	}
	// role d: like conn_attach but the listening descriptor stays open
	if (strcmp(tran, "tcp") == 0) {
		struct sockaddr_in sa = { .sin_family = AF_INET };
		socklen_t          sl = sizeof(sa);
		char               url[64];
		sa.sin_addr.s_addr    = htonl(INADDR_LOOPBACK);
		x->lfd                = socket(AF_INET, SOCK_STREAM, 0);
		if (bind(x->lfd, (struct sockaddr *) &sa, sizeof(sa)) != 0 || listen(x->lfd, 4) != 0) return -errno;
		getsockname(x->lfd, (struct sockaddr *) &sa, &sl);
		snprintf(url, sizeof(url), "tcp://127.0.0.1:%d", ntohs(sa.sin_port));
		nng_dialer d;
		if ((rv = nng_dialer_create(&d, x->c.sock, url)) != 0) return rv;
		nng_dialer_set_ms(d, NNG_OPT_RECONNMINT, 20);
		nng_dialer_set_ms(d, NNG_OPT_RECONNMAXT, 20);
		if ((rv = nng_dialer_start(d, NNG_FLAG_NONBLOCK)) != 0) return rv;
	} else {
		struct sockaddr_un su = { .sun_family = AF_UNIX };
		char               url[160];
		snprintf(x->c.path, sizeof(x->c.path), "/tmp/nngv_c11_%d_%d.sock", (int) getpid(), ++g_serial);
		unlink(x->c.path);
		strcpy(su.sun_path, x->c.path);
		snprintf(url, sizeof(url), "ipc://%s", x->c.path);
		x->lfd = socket(AF_UNIX, SOCK_STREAM, 0);
		if (bind(x->lfd, (struct sockaddr *) &su, sizeof(su)) != 0 || listen(x->lfd, 4) != 0) return -errno;
		nng_dialer d;
		if ((rv = nng_dialer_create(&d, x->c.sock, url)) != 0) return rv;
		nng_dialer_set_ms(d, NNG_OPT_RECONNMINT, 20);
		nng_dialer_set_ms(d, NNG_OPT_RECONNMAXT, 20);
		if ((rv = nng_dialer_start(d, NNG_FLAG_NONBLOCK)) != 0) return rv;
	}
	struct pollfd pfd = { .fd = x->lfd, .events = POLLIN };
	if (poll(&pfd, 1, 3000) <= 0) return -1002;
	x->c.fd = accept(x->lfd, NULL, NULL);
	if (strcmp(tran, "tcp") == 0) {
		int one = 1;
		setsockopt(x->c.fd, IPPROTO_TCP, TCP_NODELAY, &one, sizeof(one));
	}
	return x->c.fd >= 0 ? 0 : -errno;
}

// a further, well-behaved connection to the same endpoint; returns its raw fd
static int
sess_second(sess *x)
{
	if (strcmp(x->tran, "sfd") == 0) {
		int fds[2];
		if (socketpair(AF_UNIX, SOCK_STREAM, 0, fds) != 0) return -1;
		if (nng_listener_set_int(x->l, NNG_OPT_SOCKET_FD, fds[0]) != 0) {
			close(fds[0]);
			close(fds[1]);
			return -1;
		}
		return fds[1];
	}
	if (x->role == 'd') {
		struct pollfd pfd = { .fd = x->lfd, .events = POLLIN };
		if (poll(&pfd, 1, 2500) <= 0) return -1;
		return accept(x->lfd, NULL, NULL);
	}
	// role l: connect again to where the first connection went
	if (strcmp(x->tran, "tcp") == 0) {
		struct sockaddr_in sa = x->tcp_sa;
		int                one = 1;
		int fd = socket(AF_INET, SOCK_STREAM, 0);
		setsockopt(fd, IPPROTO_TCP, TCP_NODELAY, &one, sizeof(one));
		if (connect(fd, (struct sockaddr *) &sa, sizeof(sa)) != 0) {
			close(fd);
			return -1;
		}
		return fd;
	} else {
		struct sockaddr_un su = { .sun_family = AF_UNIX };
		strcpy(su.sun_path, x->c.path);
		int fd = socket(AF_UNIX, SOCK_STREAM, 0);
		if (connect(fd, (struct sockaddr *) &su, sizeof(su)) != 0) {
			close(fd);
			return -1;
		}
		return fd;
	}
}

// sess <tran> <role> <proto> <rcvmax> <streamhex> <cuts> <flags> <ctlhex|-> <nexp> <self> <peer>
//   streamhex: everything the hostile peer sends, negotiation bytes included
//   flags: c = half-close after the last byte, r = reset (SO_LINGER 0) after
//          the last byte, w = wait to see whether nng closes the connection
//   ctlhex: wire payload of a message sent over a second, well-behaved
//          connection afterwards ("-" = no control connection); it must be
//          delivered (or, for protocols that deliver nothing unsolicited, the
//          negotiation must complete)
static void
do_sess(char **tok)
{
	sess        x;
	const char *tran = tok[1], *proto = tok[3];
	char        role   = tok[2][0];
	size_t      rcvmax = strtoull(tok[4], NULL, 10);
	size_t      sl, cl, cuts[256];
	uint8_t    *st  = unhex(tok[5], &sl);
	int         nc  = parse_list(tok[6], cuts, 256);
	const char *fl  = tok[7];
	uint8_t    *ctl = unhex(tok[8], &cl);
	int         doctl = strcmp(tok[8], "-") != 0;
	int         nexp  = atoi(tok[9]);
	unsigned    self  = (unsigned) atoi(tok[10]), peer = (unsigned) atoi(tok[11]);
	int         rv, nrx = 0, rawhdr;
	double      cpu0 = cpu_ms(), t0 = now_ms();
	(void) self;

	if ((rv = open_proto(proto, &x.c.sock)) != 0) {
		printf("fail open rv=%d\n", rv);
		goto out;
	}
	rawhdr = strcmp(proto, "xrep") == 0 || strcmp(proto, "xrespondent") == 0;
	nng_socket_set_size(x.c.sock, NNG_OPT_RECVMAXSZ, rcvmax);
	nng_socket_set_ms(x.c.sock, NNG_OPT_RECVTIMEO, 500);
	if ((rv = sess_attach(&x, tran, role)) != 0) {
		printf("fail attach rv=%d\n", rv);
		if (x.lfd >= 0) close(x.lfd);
		conn_close(&x.c);
		goto out;
	}
	{
		size_t wr = raw_write_cut(x.c.fd, st, sl, cuts, nc);
		if (wr != sl) printf("diag short_write=%zu\n", wr);
	}
	if (strchr(fl, 'c')) shutdown(x.c.fd, SHUT_WR);
	if (strchr(fl, 'r')) {
		struct linger lg = { .l_onoff = 1, .l_linger = 0 };
		setsockopt(x.c.fd, SOL_SOCKET, SO_LINGER, &lg, sizeof(lg));
		close(x.c.fd);
		x.c.fd = -1;
	}
	for (;;) {
		nng_msg *m;
		if (nrx >= nexp) nng_socket_set_ms(x.c.sock, NNG_OPT_RECVTIMEO, 60);
		if (nng_recvmsg(x.c.sock, &m, 0) != 0) break;
		print_msg(m, rawhdr);
		nng_msg_free(m);
		if (++nrx > nexp + 8) break;
	}
	int    closed = -1;
	size_t extra  = 0;
	if (x.c.fd < 0) {
		closed = 1;
		usleep(30000);
	} else if (strchr(fl, 'w')) {
		closed = raw_wait_closed(x.c.fd, 400, &extra);
	}
	printf("end n=%d closed=%d\n", nrx, closed);
	if (doctl) {
		if (closed != 1 && (single_pipe_proto(proto) || role == 'd')) {
			printf("ctl skipped\n");
		} else {
			int     fd2 = -1, ok = 0, negok = 0;
			uint8_t hdr[8] = { 0, 'S', 'P', 0, (uint8_t) (peer >> 8), (uint8_t) peer, 0, 0 };
			// the listener pauses 100 ms after some failed accepts: be patient
			for (int attempt = 0; attempt < 3 && fd2 < 0; attempt++) {
				fd2 = sess_second(&x);
				if (fd2 < 0) usleep(100000);
			}
			if (fd2 >= 0) {
				uint8_t in[8];
				raw_write_all(fd2, hdr, 8);
				negok = raw_read_n(fd2, in, 8, 2500) == 8;
				if (negok && cl > 0) {
					uint8_t fr[9 + 8];
					size_t  hl = 0;
					if (strcmp(tran, "ipc") == 0) fr[hl++] = 1;
					for (int i = 7; i >= 0; i--) fr[hl++] = (uint8_t) (((uint64_t) cl) >> (8 * i));
					raw_write_all(fd2, fr, hl);
					raw_write_all(fd2, ctl, cl);
					nng_socket_set_ms(x.c.sock, NNG_OPT_RECVTIMEO, 2500);
					for (int k = 0; k < 4 && !ok; k++) {
						nng_msg *m;
						if (nng_recvmsg(x.c.sock, &m, 0) != 0) break;
						ok = 1; // a message arrived over the control connection
						nng_msg_free(m);
					}
				} else if (negok) {
					ok = 1;
				}
				close(fd2);
			}
			printf("ctl ok=%d\n", ok);
			if (!ok) printf("diag ctl fd=%d negok=%d\n", fd2, negok);
		}
	}
	printf("diag cpu_ms=%.0f wall_ms=%.0f\n", cpu_ms() - cpu0, now_ms() - t0);
	if (x.lfd >= 0) close(x.lfd);
	conn_close(&x.c);
out:
	free(st);
	free(ctl);
}

// ------------------------------------------------------------------ SP / UDP
// udp <proto> <dgramhex,dgramhex,...> <nexp>
// an nng listener on udp://127.0.0.1:0; one raw UDP socket sends the datagrams
// in order, collecting the replies (30 ms after each); prints replies and what
// the application receives
static void
do_udp(char **tok)
{
	nng_socket   s;
	nng_listener l;
	int          rv, port = 0, nexp = atoi(tok[3]), nrx = 0;
	double       cpu0 = cpu_ms();
	if ((rv = open_proto(tok[1], &s)) != 0) {
		printf("fail open rv=%d\n", rv);
		return;
	}
	nng_socket_set_ms(s, NNG_OPT_RECVTIMEO, 300);
	if ((rv = nng_listener_create(&l, s, "udp://127.0.0.1:0")) != 0 || (rv = nng_listener_start(l, 0)) != 0 ||
	    (rv = nng_listener_get_int(l, NNG_OPT_BOUND_PORT, &port)) != 0) {
		printf("fail listen rv=%d\n", rv);
		nng_socket_close(s);
		return;
	}
	int                fd = socket(AF_INET, SOCK_DGRAM, 0);
	struct sockaddr_in sa = { .sin_family = AF_INET, .sin_port = htons((uint16_t) port) };
	sa.sin_addr.s_addr    = htonl(INADDR_LOOPBACK);
	connect(fd, (struct sockaddr *) &sa, sizeof(sa));
	char *sp = NULL, *copy = strdup(tok[2]);
	for (char *t = strtok_r(copy, ",", &sp); t != NULL; t = strtok_r(NULL, ",", &sp)) {
		size_t   dl;
		uint8_t *d = unhex(t, &dl);
		send(fd, d, dl, 0);
		free(d);
		for (;;) {
			struct pollfd pfd = { .fd = fd, .events = POLLIN };
			uint8_t       in[70000];
			if (poll(&pfd, 1, 40) <= 0) break;
			ssize_t r = recv(fd, in, sizeof(in), 0);
			if (r < 0) break;
			printf("reply ");
			puthex(in, (size_t) r);
			printf("\n");
		}
		for (;;) {
			nng_msg *m;
			nng_socket_set_ms(s, NNG_OPT_RECVTIMEO, 25);
			if (nng_recvmsg(s, &m, 0) != 0) break;
			print_msg(m, 0);
			nng_msg_free(m);
			if (++nrx > nexp + 8) break;
		}
	}
	free(copy);
	printf("end n=%d\n", nrx);
	printf("diag cpu_ms=%.0f\n", cpu_ms() - cpu0);
	close(fd);
	nng_socket_close(s);
}

// a well-behaved WebSocket client: upgrade with the SP sub-protocol, one masked
// binary frame "ok"; 1 = the socket received it
static int
ws_control(nng_socket s, struct sockaddr_in *sa, int port)
{
	int      fd2 = socket(AF_INET, SOCK_STREAM, 0), ok = 0, one = 1;
	uint8_t  head[4096];
	size_t   tot = 0, rl;
	nng_msg *m;
	setsockopt(fd2, IPPROTO_TCP, TCP_NODELAY, &one, sizeof(one));
	if (connect(fd2, (struct sockaddr *) sa, sizeof(*sa)) == 0) {
		int n = snprintf((char *) head, sizeof(head),
		    "GET / HTTP/1.1\r\nHost: 127.0.0.1:%d\r\nUpgrade: websocket\r\n"
		    "Connection: Upgrade\r\nSec-WebSocket-Key: dGhlIHNhbXBsZSBub25jZQ==\r\n"
		    "Sec-WebSocket-Protocol: pair.sp.nanomsg.org\r\nSec-WebSocket-Version: 13\r\n\r\n",
		    port);
		raw_write_all(fd2, head, (size_t) n);
		if ((rl = raw_read_head(fd2, head, sizeof(head) - 1, &tot)) != 0 &&
		    strncmp((char *) head + 9, "101", 3) == 0) {
			uint8_t fr[] = { 0x82, 0x82, 1, 2, 3, 4, 'o' ^ 1, 'k' ^ 2 };
			raw_write_all(fd2, fr, sizeof(fr));
			nng_socket_set_ms(s, NNG_OPT_RECVTIMEO, 2000);
			if (nng_recvmsg(s, &m, 0) == 0) {
				ok = nng_msg_len(m) == 2 && memcmp(nng_msg_body(m), "ok", 2) == 0;
				nng_msg_free(m);
			}
		}
	}
	close(fd2);
	return ok;
}

// wshs <headhex> <cuts> <flags>
// an nng pair0 socket listening on ws://; the raw peer sends arbitrary bytes
// where the HTTP upgrade request belongs (flags: c = half-close afterwards),
// then a second, well-behaved WebSocket connection must still be served
static void
do_wshs(char **tok)
{
	nng_socket   s;
	nng_listener l;
	int          port = 0, rv, one = 1;
	size_t       hl, cuts[64];
	uint8_t     *h  = unhex(tok[1], &hl);
	int          nc = parse_list(tok[2], cuts, 64);
	double       cpu0 = cpu_ms();
	if ((rv = nng_pair0_open(&s)) != 0) {
		printf("fail open rv=%d\n", rv);
		free(h);
		return;
	}
	nng_socket_set_ms(s, NNG_OPT_RECVTIMEO, 2000);
	if ((rv = nng_listener_create(&l, s, "ws://127.0.0.1:0/")) != 0 || (rv = nng_listener_start(l, 0)) != 0 ||
	    (rv = nng_listener_get_int(l, NNG_OPT_BOUND_PORT, &port)) != 0) {
		printf("fail listen rv=%d\n", rv);
		nng_socket_close(s);
		free(h);
		return;
	}
	struct sockaddr_in sa = { .sin_family = AF_INET, .sin_port = htons((uint16_t) port) };
	sa.sin_addr.s_addr    = htonl(INADDR_LOOPBACK);
	int fd                = socket(AF_INET, SOCK_STREAM, 0);
	setsockopt(fd, IPPROTO_TCP, TCP_NODELAY, &one, sizeof(one));
	if (connect(fd, (struct sockaddr *) &sa, sizeof(sa)) != 0) {
		printf("fail connect\n");
	} else {
		uint8_t in[2048];
		raw_write_cut(fd, h, hl, cuts, nc);
		if (strchr(tok[3], 'c')) shutdown(fd, SHUT_WR);
		struct pollfd pfd = { .fd = fd, .events = POLLIN };
		ssize_t       r   = -1;
		if (poll(&pfd, 1, 150) > 0) r = recv(fd, in, sizeof(in) - 1, 0);
		if (r >= 12) printf("diag status=%.3s\n", (char *) in + 9);
		else printf("diag status=none r=%zd\n", r);
	}
	printf("ctl ok=%d\n", ws_control(s, &sa, port));
	printf("diag cpu_ms=%.0f\n", cpu_ms() - cpu0);
	if (fd >= 0) close(fd);
	nng_socket_close(s);
	free(h);
}

// ------------------------------------------------ stalled handshake (H4 clock)
extern void nng_verif_clock_advance(uint64_t);

// stall <tran> <proto> <partialhex> <advance_ms> <ctlhex> <self> <peer>
// tran: tcp | ipc | sfd | ws (nng listens).  A raw peer connects, sends only
// <partialhex> of its handshake and stays silent; the virtual clock is advanced
// by <advance_ms> (the 10 s negotiation timeout / the 2 s HTTP timeout costs no
// real time); then a well-behaved connection must be served.
static void
do_stall(char **tok)
{
	const char *tran = tok[1], *proto = tok[2];
	size_t      pl, cl;
	uint8_t    *part = unhex(tok[3], &pl);
	uint64_t    adv  = strtoull(tok[4], NULL, 10);
	uint8_t    *ctl  = unhex(tok[5], &cl);
	unsigned    peer = (unsigned) atoi(tok[7]);
	double      cpu0 = cpu_ms();
	int         rv;

	if (strcmp(tran, "ws") == 0) {
		nng_socket   s;
		nng_listener l;
		int          port = 0, one = 1;
		if ((rv = nng_pair0_open(&s)) != 0 || (rv = nng_listener_create(&l, s, "ws://127.0.0.1:0/")) != 0 ||
		    (rv = nng_listener_start(l, 0)) != 0 || (rv = nng_listener_get_int(l, NNG_OPT_BOUND_PORT, &port)) != 0) {
			printf("fail listen rv=%d\n", rv);
			goto out;
		}
		struct sockaddr_in sa = { .sin_family = AF_INET, .sin_port = htons((uint16_t) port) };
		sa.sin_addr.s_addr    = htonl(INADDR_LOOPBACK);
		int fd                = socket(AF_INET, SOCK_STREAM, 0);
		setsockopt(fd, IPPROTO_TCP, TCP_NODELAY, &one, sizeof(one));
		if (connect(fd, (struct sockaddr *) &sa, sizeof(sa)) != 0) {
			printf("fail connect\n");
		} else {
			raw_write_all(fd, part, pl);
			usleep(30000);
			nng_verif_clock_advance(adv);
			size_t extra = 0;
			printf("diag stall closed=%d\n", raw_wait_closed(fd, 300, &extra));
		}
		printf("ctl ok=%d\n", ws_control(s, &sa, port));
		printf("diag cpu_ms=%.0f\n", cpu_ms() - cpu0);
		close(fd);
		nng_socket_close(s);
		goto out;
	}
	{
		sess x;
		if ((rv = open_proto(proto, &x.c.sock)) != 0) {
			printf("fail open rv=%d\n", rv);
			goto out;
		}
		if ((rv = sess_attach(&x, tran, 'l')) != 0) {
			printf("fail attach rv=%d\n", rv);
			conn_close(&x.c);
			goto out;
		}
		raw_write_all(x.c.fd, part, pl);
		usleep(30000); // let nng read what there is and wait for the rest
		nng_verif_clock_advance(adv);
		size_t extra = 0;
		printf("stall closed=%d\n", raw_wait_closed(x.c.fd, 400, &extra));
		// the well-behaved connection
		int     fd2 = -1, ok = 0, negok = 0;
		uint8_t hdr[8] = { 0, 'S', 'P', 0, (uint8_t) (peer >> 8), (uint8_t) peer, 0, 0 };
		for (int attempt = 0; attempt < 3 && fd2 < 0; attempt++) {
			fd2 = sess_second(&x);
			if (fd2 < 0) usleep(100000);
		}
		if (fd2 >= 0) {
			uint8_t in[8];
			raw_write_all(fd2, hdr, 8);
			negok = raw_read_n(fd2, in, 8, 2500) == 8;
			if (negok) {
				uint8_t fr[9 + 8];
				size_t  hl = 0;
				if (strcmp(tran, "ipc") == 0) fr[hl++] = 1;
				for (int i = 7; i >= 0; i--) fr[hl++] = (uint8_t) (((uint64_t) cl) >> (8 * i));
				raw_write_all(fd2, fr, hl);
				raw_write_all(fd2, ctl, cl);
				nng_socket_set_ms(x.c.sock, NNG_OPT_RECVTIMEO, 2500);
				nng_msg *m;
				if (nng_recvmsg(x.c.sock, &m, 0) == 0) {
					ok = 1;
					nng_msg_free(m);
				}
			}
			close(fd2);
		}
		printf("ctl ok=%d\n", ok);
		if (!ok) printf("diag ctl fd=%d negok=%d\n", fd2, negok);
		printf("diag cpu_ms=%.0f\n", cpu_ms() - cpu0);
		conn_close(&x.c);
	}
out:
	free(part);
	free(ctl);
}

// ------------------------------------------------------ resource exhaustion
static int
count_fds(void)
{
	int n = 0;
	for (int fd = 0; fd < 4096; fd++) {
		if (fcntl(fd, F_GETFD) != -1) n++;
	}
	return n;
}

// flood <tran> <proto> <nofile> <n> <kinds> <ctlhex> <self> <peer>
//   tran: tcp | ipc | sfd | ws (nng listens).  RLIMIT_NOFILE is lowered to
//   <nofile> for the duration; <n> hostile sessions in sequence, the i-th of
//   kind kinds[i % len]:  b = 8 bytes that are not an SP header, s = 3 bytes then
//   disconnect, p = well-formed header with the wrong protocol id, o = good
//   header then a length field of 2^62, t = good header, a frame announcing 100
//   bytes, 10 of them, disconnect, h (ws) = garbage where the upgrade request
//   belongs.  Afterwards the descriptors in use must be back at the count before
//   the batch (+-2) and a well-behaved connection must be served.
static void
do_flood(char **tok)
{
	const char   *tran = tok[1], *proto = tok[2], *kinds = tok[5];
	rlim_t        nofile = (rlim_t) atoi(tok[3]);
	int           n = atoi(tok[4]), rv, isws = strcmp(tran, "ws") == 0;
	size_t        cl;
	uint8_t      *ctl  = unhex(tok[6], &cl);
	unsigned      peer = (unsigned) atoi(tok[8]);
	struct rlimit old, lim;
	double        cpu0 = cpu_ms();
	sess          x;
	int           port = 0, dropped = 0, refused = 0;
	struct sockaddr_in wsa = { .sin_family = AF_INET };
	uint8_t       good[8] = { 0, 'S', 'P', 0, (uint8_t) (peer >> 8), (uint8_t) peer, 0, 0 };

	getrlimit(RLIMIT_NOFILE, &old);
	if (isws) {
		nng_listener l;
		if ((rv = nng_pair0_open(&x.c.sock)) != 0 || (rv = nng_listener_create(&l, x.c.sock, "ws://127.0.0.1:0/")) != 0 ||
		    (rv = nng_listener_start(l, 0)) != 0 || (rv = nng_listener_get_int(l, NNG_OPT_BOUND_PORT, &port)) != 0) {
			printf("fail listen rv=%d\n", rv);
			free(ctl);
			return;
		}
		wsa.sin_port        = htons((uint16_t) port);
		wsa.sin_addr.s_addr = htonl(INADDR_LOOPBACK);
		x.c.fd = -1;
		x.lfd  = -1;
		x.c.path[0] = 0;
	} else {
		if ((rv = open_proto(proto, &x.c.sock)) != 0) {
			printf("fail open rv=%d\n", rv);
			free(ctl);
			return;
		}
		// the first connection only brings the endpoint up (and is a well-behaved one that leaves again)
		if ((rv = sess_attach(&x, tran, 'l')) != 0) {
			printf("fail attach rv=%d\n", rv);
			conn_close(&x.c);
			free(ctl);
			return;
		}
		uint8_t in[8];
		raw_write_all(x.c.fd, good, 8);
		raw_read_n(x.c.fd, in, 8, 2000);
		shutdown(x.c.fd, SHUT_RDWR);
	}
	usleep(150000);
	int base = count_fds();
	lim      = old;
	lim.rlim_cur = nofile < old.rlim_max ? nofile : old.rlim_max;
	setrlimit(RLIMIT_NOFILE, &lim);
	for (int i = 0; i < n; i++) {
		char    k  = kinds[i % strlen(kinds)];
		int     fd = -1;
		uint8_t buf[128];
		size_t  bl = 0;
		if (isws) {
			int one = 1;
			fd      = socket(AF_INET, SOCK_STREAM, 0);
			if (fd >= 0 && connect(fd, (struct sockaddr *) &wsa, sizeof(wsa)) != 0) {
				close(fd);
				fd = -1;
			}
			if (fd >= 0) setsockopt(fd, IPPROTO_TCP, TCP_NODELAY, &one, sizeof(one));
			bl = (size_t) snprintf((char *) buf, sizeof(buf), k == 's' ? "GE" : "NOT HTTP AT ALL\r\n\r\n");
		} else {
			fd = sess_second(&x);
			switch (k) {
			case 'b': memcpy(buf, "NOT-SP!!", 8); bl = 8; break;
			case 's': memcpy(buf, good, 3); bl = 3; break;
			case 'p': memcpy(buf, good, 8); buf[5] ^= 0x0f; bl = 8; break;
			case 'o':
				memcpy(buf, good, 8); bl = 8;
				if (strcmp(tran, "ipc") == 0) buf[bl++] = 1;
				buf[bl++] = 0x40; memset(buf + bl, 0, 7); bl += 7;
				break;
			default:
				memcpy(buf, good, 8); bl = 8;
				if (strcmp(tran, "ipc") == 0) buf[bl++] = 1;
				memset(buf + bl, 0, 7); bl += 7; buf[bl++] = 100;
				memset(buf + bl, 'x', 10); bl += 10;
				break;
			}
		}
		if (fd < 0) {
			refused++;
			usleep(20000);
			continue;
		}
		raw_write_all(fd, buf, bl);
		if (k == 's' || k == 't') {
			usleep(2000);
			shutdown(fd, SHUT_RDWR);
		} else {
			size_t extra = 0;
			dropped += raw_wait_closed(fd, isws ? 40 : 300, &extra);
		}
		close(fd);
	}
	// the hostile peers are gone: everything acquired for them must come back
	int after = -1;
	for (int w = 0; w < 60; w++) {
		after = count_fds();
		if (after <= base + 2) break;
		usleep(50000);
	}
	printf("diag flood n=%d dropped=%d refused=%d base=%d after=%d\n", n, dropped, refused, base, after);
	printf("fds back=%d\n", after <= base + 2);
	// the control connection, still under the lowered limit
	if (isws) {
		printf("ctl ok=%d\n", ws_control(x.c.sock, &wsa, port));
	} else {
		int fd2 = -1, ok = 0;
		for (int attempt = 0; attempt < 3 && fd2 < 0; attempt++) {
			fd2 = sess_second(&x);
			if (fd2 < 0) usleep(100000);
		}
		if (fd2 >= 0) {
			uint8_t in[8], fr[9 + 8];
			size_t  hl = 0;
			raw_write_all(fd2, good, 8);
			if (raw_read_n(fd2, in, 8, 2500) == 8) {
				if (strcmp(tran, "ipc") == 0) fr[hl++] = 1;
				for (int i = 7; i >= 0; i--) fr[hl++] = (uint8_t) (((uint64_t) cl) >> (8 * i));
				raw_write_all(fd2, fr, hl);
				raw_write_all(fd2, ctl, cl);
				nng_socket_set_ms(x.c.sock, NNG_OPT_RECVTIMEO, 2500);
				nng_msg *m;
				if (nng_recvmsg(x.c.sock, &m, 0) == 0) {
					ok = 1;
					nng_msg_free(m);
				}
			}
			close(fd2);
		}
		printf("ctl ok=%d\n", ok);
	}
	setrlimit(RLIMIT_NOFILE, &old);
	printf("diag cpu_ms=%.0f\n", cpu_ms() - cpu0);
	if (x.lfd >= 0) close(x.lfd);
	conn_close(&x.c);
	free(ctl);
}

int
main(int argc, char **argv)
{
	static char     line[1 << 23];
	char           *tok[16];
	nng_init_params ip = { 0 };
	struct sigaction sa = { 0 };
	sa.sa_handler       = on_sigpipe;
	sigaction(SIGPIPE, &sa, NULL);
	if (argc > 1) gap_us = (unsigned) atoi(argv[1]);
	ip.malloc_fn = v_malloc;
	ip.calloc_fn = v_calloc;
	ip.free_fn   = v_free;
	nng_init(&ip);
	while (fgets(line, sizeof(line), stdin) != NULL) {
		int   nt = 0;
		char *sp = NULL;
		for (char *t = strtok_r(line, " \n", &sp); t != NULL && nt < 14; t = strtok_r(NULL, " \n", &sp)) {
			tok[nt++] = t;
		}
		for (int i = nt; i < 16; i++) tok[i] = NULL;
		if (nt == 0 || tok[0][0] == '#') continue;
		const char *op = tok[0];
		int         sp0 = g_sigpipe;
		if (strcmp(op, "mark") == 0) {
			printf("mark %s\n", tok[1]);
		} else if (strcmp(op, "iov") == 0 && nt >= 3) {
			do_iov(tok);
		} else if (strcmp(op, "pullup") == 0 && nt >= 5) {
			do_pullup(tok);
		} else if (strcmp(op, "rx") == 0 && nt >= 11) {
			do_rx(tok);
		} else if (strcmp(op, "tx") == 0 && nt >= 10) {
			do_tx(tok);
		} else if (strcmp(op, "inproc") == 0 && nt >= 3) {
			do_inproc(tok);
		} else if (strcmp(op, "sess") == 0 && nt >= 12) {
			do_sess(tok);
		} else if (strcmp(op, "flood") == 0 && nt >= 9) {
			do_flood(tok);
		} else if (strcmp(op, "inprocbp") == 0 && nt >= 4) {
			do_inprocbp(tok);
		} else if (strcmp(op, "stall") == 0 && nt >= 8) {
			do_stall(tok);
		} else if (strcmp(op, "wshs") == 0 && nt >= 4) {
			do_wshs(tok);
		} else if (strcmp(op, "udp") == 0 && nt >= 4) {
			do_udp(tok);
		} else if (strcmp(op, "wsrx") == 0 && nt >= 7) {
			do_wsrx(tok);
		} else if (strcmp(op, "wstx") == 0 && nt >= 5) {
			do_wstx(tok);
		} else {
			printf("badcmd %s\n", op);
		}
		if (g_sigpipe != sp0) printf("sigpipe %d\n", g_sigpipe - sp0);
		fflush(stdout);
	}
	nng_fini();
	return 0;
}
