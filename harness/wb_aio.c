// wb_aio.c: driver for the aio framework (C02).
//  scripted mode: one command per line, a test provider built on the public
//    provider API (nng_aio_start / nng_aio_finish / nng_aio_reset), one
//    observation line per command (after the library is quiescent);
//  stress mode:  `stress <seed> <ms> <threads> <naios>` runs random concurrent
//    operations with the H2 trace on and prints the trace and per-aio counters.
#define _GNU_SOURCE
#include <pthread.h>
#include <sched.h>
#include <time.h>

#include "core/nng_impl.h"
#include "wb_common.h"

extern int  nng_verif_inflight(void);
extern void nng_verif_clock_advance(uint64_t);
extern void nng_verif_trace_start(void);
extern int  nng_verif_trace_stop(void (*)(unsigned, int, void *, const unsigned char *, int, int));

#define NAIO 32
static nng_aio        *aios[NAIO];
static pthread_mutex_t prov_mtx = PTHREAD_MUTEX_INITIALIZER;
static int             owns[NAIO];          // the provider has the aio on its "list"
static int             fin_valid[NAIO];     // the current operation was completed through nng_aio_finish ...
static int             fin_rv[NAIO];        // ... with this result
static int             cb_results[NAIO][64];
static int             cb_n[NAIO];
static long            n_sub[NAIO], n_cb[NAIO], n_bad[NAIO];
static volatile int    op_state[NAIO];      // stress: 0 idle, 1 operation outstanding
static volatile int    stress_on, stress_resub;
static pthread_mutex_t cb_mtx = PTHREAD_MUTEX_INITIALIZER;

static int
quiesce(void)
{
	int calm = 0;
	for (int i = 0; i < 4000000; i++) {
		if (nng_verif_inflight() == 0) {
			if (++calm >= 3) return 0;
			sched_yield();
		} else {
			calm = 0;
			if (i > 2000) {
				struct timespec ts = { 0, 5000 };
				nanosleep(&ts, NULL);
			} else {
				sched_yield();
			}
		}
	}
	return -1;
}

static void
prov_cancel(nng_aio *aio, void *arg, nng_err rv)
{
	int k = (int) (intptr_t) arg;
	int mine;
	pthread_mutex_lock(&prov_mtx);
	mine = owns[k];
	if (mine) {
		owns[k]      = 0;
		fin_valid[k] = 1;
		fin_rv[k]    = (int) rv;
	}
	pthread_mutex_unlock(&prov_mtx);
	if (mine) nng_aio_finish(aio, rv);
}

// returns 1 if the provider accepted the operation
static int
prov_begin(int k, int reset)
{
	// with reset: the public provider entry (nng_aio_start resets first);
	// without: what the library's own providers do (nni_aio_start on the aio as it is)
	pthread_mutex_lock(&prov_mtx);
	fin_valid[k] = 0;
	__atomic_add_fetch(&n_sub[k], 1, __ATOMIC_SEQ_CST);
	if (!(reset ? nng_aio_start(aios[k], prov_cancel, (void *) (intptr_t) k)
	            : nni_aio_start(aios[k], prov_cancel, (void *) (intptr_t) k))) {
		pthread_mutex_unlock(&prov_mtx);
		return 0;
	}
	owns[k] = 1;
	pthread_mutex_unlock(&prov_mtx);
	return 1;
}

static int
prov_finish(int k, int rv)
{
	int mine;
	pthread_mutex_lock(&prov_mtx);
	mine = owns[k];
	if (mine) {
		owns[k]      = 0;
		fin_valid[k] = 1;
		fin_rv[k]    = rv;
	}
	pthread_mutex_unlock(&prov_mtx);
	if (mine) nng_aio_finish(aios[k], (nng_err) rv);
	return mine;
}

static void
aio_cb(void *arg)
{
	int k  = (int) (intptr_t) arg;
	int rv = (int) nng_aio_result(aios[k]);
	pthread_mutex_lock(&cb_mtx);
	if (cb_n[k] < 64) cb_results[k][cb_n[k]++] = rv;
	n_cb[k]++;
	if (fin_valid[k] && fin_rv[k] != rv) n_bad[k]++;
	pthread_mutex_unlock(&cb_mtx);
	if (stress_on) {
		// sometimes resubmit from inside the callback (allowed when the result is success)
		if (stress_resub && rv == 0 && (rand() % 4 == 0)) {
			if (prov_begin(k, 1)) return; // still outstanding
			return;                      // failed start: its own callback will follow and release
		}
		__atomic_store_n(&op_state[k], 0, __ATOMIC_SEQ_CST);
	}
}

static void
observe(const char *pfx)
{
	int q = quiesce();
	printf("%s%s", pfx, q ? " NOT-QUIESCENT" : "");
	printf(" cb=");
	int first = 1;
	pthread_mutex_lock(&cb_mtx);
	for (int k = 0; k < NAIO; k++) {
		for (int i = 0; i < cb_n[k]; i++) {
			printf("%sa%d:%d", first ? "" : ",", k, cb_results[k][i]);
			first = 0;
		}
		cb_n[k] = 0;
	}
	pthread_mutex_unlock(&cb_mtx);
	if (first) printf("-");
	printf(" owns=");
	first = 1;
	for (int k = 0; k < NAIO; k++) {
		if (aios[k] != NULL && owns[k]) {
			printf("%sa%d", first ? "" : ",", k);
			first = 0;
		}
	}
	if (first) printf("-");
	printf("\n");
	fflush(stdout);
}

// ---- stress ---------------------------------------------------------------
static int      st_naio;
static unsigned st_seed;
static void *
stress_thread(void *arg)
{
	unsigned r = st_seed * 2654435761u + (unsigned) (intptr_t) arg * 40503u + 1;
#define RND() (r = r * 1103515245u + 12345u, (r >> 16) & 0x7fff)
	while (stress_on) {
		int k  = (int) (RND() % (unsigned) st_naio);
		int op = (int) (RND() % 100);
		if (op < 30) {
			int expect = 0;
			if (__atomic_compare_exchange_n(&op_state[k], &expect, 1, 0, __ATOMIC_SEQ_CST, __ATOMIC_SEQ_CST)) {
				int t = (int) (RND() % 10);
				nng_aio_set_timeout(aios[k], t == 0 ? 0 : t < 4 ? (nng_duration) (1 + RND() % 3) : NNG_DURATION_INFINITE);
				if (RND() % 5 == 0) {
					__atomic_add_fetch(&n_sub[k], 1, __ATOMIC_SEQ_CST);
					pthread_mutex_lock(&prov_mtx);
					fin_valid[k] = 0;
					pthread_mutex_unlock(&prov_mtx);
					nng_sleep_aio((nng_duration) (RND() % 3), aios[k]);
				} else {
					// always through the public entry (which resets): a start on a stale
					// a_abort with a_result == 0 is the late-abort finding and trips NNI_ASSERT
					(void) prov_begin(k, 1);
				}
			}
		} else if (op < 60) {
			(void) prov_finish(k, (RND() % 4 == 0) ? NNG_ECONNRESET : 0);
		} else if (op < 75) {
			nng_aio_cancel(aios[k]);
		} else if (op < 85) {
			nng_aio_abort(aios[k], NNG_ECLOSED);
		} else if (op < 95) {
			struct timespec ts = { 0, 20000 };
			nanosleep(&ts, NULL);
		} else {
			sched_yield();
		}
	}
	return NULL;
}

static void
trace_cb(unsigned seq, int kind, void *aio, const unsigned char *f, int result, int arg)
{
	int k = -1;
	for (int i = 0; i < NAIO; i++)
		if (aios[i] == aio) k = i;
	if (k < 0) return; // an aio of the library itself
	printf("T %u %d %d %d%d%d%d%d%d%d%d%d %d %d\n", seq, kind, k, f[0], f[1], f[2], f[3], f[4], f[5], f[6], f[7], f[8], result, arg);
}

static void
do_stress(unsigned seed, int ms, int nthreads, int naio)
{
	pthread_t th[16];
	st_naio = naio;
	st_seed = seed;
	srand(seed);
	for (int k = 0; k < naio; k++) {
		if (aios[k] == NULL) nng_aio_alloc(&aios[k], aio_cb, (void *) (intptr_t) k);
		n_sub[k] = n_cb[k] = n_bad[k] = 0;
		op_state[k] = 0;
	}
	stress_resub = (seed % 2) == 0;
	nng_verif_trace_start();
	stress_on = 1;
	for (int i = 0; i < nthreads; i++) pthread_create(&th[i], NULL, stress_thread, (void *) (intptr_t) i);
	nng_msleep(ms);
	stress_on = 0;
	for (int i = 0; i < nthreads; i++) pthread_join(th[i], NULL);
	// let everything complete
	for (int round = 0; round < 200; round++) {
		int busy = 0;
		for (int k = 0; k < naio; k++) {
			prov_finish(k, 0);
			if (nng_aio_busy(aios[k])) busy = 1;
		}
		quiesce();
		if (!busy) break;
		nng_msleep(5);
	}
	int n = nng_verif_trace_stop(trace_cb);
	printf("trace_records=%d\n", n);
	for (int k = 0; k < naio; k++) {
		printf("S a%d sub=%ld cb=%ld bad=%ld busy=%d\n", k, n_sub[k], n_cb[k], n_bad[k], (int) nng_aio_busy(aios[k]));
		cb_n[k] = 0;
	}
	printf("stress-done\n");
	fflush(stdout);
}

int
main(void)
{
	char  line[4096];
	char *tok[8];
	nng_init(NULL);
	while (fgets(line, sizeof(line), stdin) != NULL) {
		int   nt = 0;
		char *sp = NULL;
		for (char *t = strtok_r(line, " \n", &sp); t != NULL && nt < 8; t = strtok_r(NULL, " \n", &sp)) tok[nt++] = t;
		if (nt == 0 || tok[0][0] == '#') continue;
		const char *op = tok[0];
		char        pfx[64];
		if (strcmp(op, "mark") == 0) {
			for (int k = 0; k < NAIO; k++) {
				if (aios[k] != NULL) {
					prov_finish(k, 0);
					nng_aio_free(aios[k]);
					aios[k] = NULL;
					owns[k] = cb_n[k] = 0;
				}
			}
			quiesce();
			printf("mark %s\n", tok[1]);
			fflush(stdout);
			continue;
		}
		if (strcmp(op, "stress") == 0) {
			do_stress((unsigned) atoi(tok[1]), atoi(tok[2]), atoi(tok[3]), atoi(tok[4]));
			continue;
		}
		if (strcmp(op, "advance") == 0) {
			nng_verif_clock_advance((uint64_t) atoll(tok[1]));
			observe("ok");
			continue;
		}
		int k = atoi(tok[1] + 1);
		snprintf(pfx, sizeof(pfx), "ok");
		if (strcmp(op, "alloc") == 0) {
			nng_aio_alloc(&aios[k], aio_cb, (void *) (intptr_t) k);
			n_sub[k] = n_cb[k] = n_bad[k] = 0;
		} else if (aios[k] == NULL) {
			snprintf(pfx, sizeof(pfx), "noaio");
		} else if (strcmp(op, "tmo") == 0) {
			nng_aio_set_timeout(aios[k], (nng_duration) atoi(tok[2]));
		} else if ((strcmp(op, "expire") == 0 || strcmp(op, "expnever") == 0) && (n_sub[k] != n_cb[k])) {
			// the user's contract: an absolute expiry is set between operations (nni_aio_set_expire writes
			// a_expire, which is also the deadline of an operation in flight, without any lock)
			snprintf(pfx, sizeof(pfx), "busy");
		} else if (strcmp(op, "expire") == 0) {
			// an absolute expiry, given relative to the clock of this instant (the clock runs on real time)
			nng_aio_set_expire(aios[k], (nng_time) ((int64_t) nng_clock() + atoll(tok[2])));
		} else if (strcmp(op, "expnever") == 0) {
			nng_aio_set_expire(aios[k], NNI_TIME_NEVER);
		} else if (strcmp(op, "norm") == 0) {
			nni_aio_normalize_timeout(aios[k], (nng_duration) atoi(tok[2]));
		} else if ((strcmp(op, "begin") == 0 || strcmp(op, "sleep") == 0) && (n_sub[k] != n_cb[k])) {
			snprintf(pfx, sizeof(pfx), "busy"); // the user's contract: one operation at a time
		} else if (strcmp(op, "begin") == 0) {
			snprintf(pfx, sizeof(pfx), "started=%d", prov_begin(k, nt > 2));
		} else if (strcmp(op, "finish") == 0) {
			snprintf(pfx, sizeof(pfx), "%s", prov_finish(k, atoi(tok[2])) ? "ok" : "noown");
		} else if (strcmp(op, "cancel") == 0) {
			nng_aio_cancel(aios[k]);
		} else if (strcmp(op, "abort") == 0) {
			nng_aio_abort(aios[k], (nng_err) atoi(tok[2]));
		} else if (strcmp(op, "stop") == 0) {
			nng_aio_stop(aios[k]);
		} else if (strcmp(op, "sleep") == 0) {
			n_sub[k]++;
			fin_valid[k] = 0;
			nng_sleep_aio((nng_duration) atoi(tok[2]), aios[k]);
		} else if (strcmp(op, "free") == 0) {
			nng_aio_free(aios[k]);
			aios[k] = NULL;
			owns[k] = 0;
		} else {
			snprintf(pfx, sizeof(pfx), "badop");
		}
		observe(pfx);
	}
	for (int k = 0; k < NAIO; k++) {
		if (aios[k] != NULL) {
			prov_finish(k, 0);
			nng_aio_free(aios[k]);
		}
	}
	nng_fini();
	return 0;
}
