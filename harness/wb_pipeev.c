// wb_pipeev.c: driver for property C14 (pipe events, redial, accept).
//
// 1. script mode (stdin, one command per line, one observation line per command):
//    public API towards the application side (sockets, nng_pipe_notify callbacks,
//    dialers, listeners, options), and a deterministic white-box transport with BOTH a
//    dialer and a listener towards the network side (URL scheme "ssh", which nng's URL
//    parser knows and no transport uses): every transport-level event (a connection
//    arrives, a pending accept / connect completes with a chosen result code, the peer
//    goes away) is an explicit command.  Quiescence via hook H2q, time via hook H4.
// 2. scenario mode (argv[1] = real | redial | hostile): real transports (tcp, ipc,
//    inproc), raw TCP/IPC peers written with plain sockets, real schedules; prints a log
//    that checks/c14.py evaluates with the property's own words.
#define _GNU_SOURCE
#include <arpa/inet.h>
#include <errno.h>
#include <fcntl.h>
#include <netinet/in.h>
#include <netinet/tcp.h>
#include <poll.h>
#include <pthread.h>
#include <sched.h>
#include <sys/socket.h>
#include <sys/un.h>
#include <time.h>
#include <unistd.h>

#include "core/nng_impl.h"
#include "core/sockimpl.h"
#include "wb_common.h"

extern int  nng_verif_inflight(void);
extern void nng_verif_clock_advance(uint64_t);

// ------------------------------------------------------------------ deterministic transport
#define PV_MAXPIPES 1024
#define PV_MAXEPS 32

typedef struct pv_pipe pv_pipe;
typedef struct pv_ep   pv_ep;

struct pv_pipe {
	nni_pipe     *npipe;
	pv_ep        *ep;
	uint16_t      peer;
	int           idx;
	bool          closed;
	bool          dead;
	bool          waiting; // on its endpoint's waitpipes (the creator's reference is still held there)
	nni_list      sendq;
	nni_list      recvq;
	nni_list_node node;
};

struct pv_ep {
	nni_listener *nl;
	nni_dialer   *nd;
	nni_aio      *useraio;
	bool          closed;
	nni_list      waitpipes;
	int           idx;
	int           attempts;  // d_connect / l_accept calls that were accepted (not refused)
	nni_time      last_call; // clock of the latest of those
};

static nni_mtx  pv_mtx;
static pv_pipe *pv_pipes[PV_MAXPIPES];
static int      pv_pipe_state[PV_MAXPIPES]; // 0 none, 1 open, 2 closed, 3 gone
static uint32_t pv_pipe_ids[PV_MAXPIPES];
static int      pv_pipe_iocnt[PV_MAXPIPES]; // p_send + p_recv calls
static int      pv_npipes;
static pv_ep   *pv_eps[PV_MAXEPS];
static pv_ep   *pv_last_ep;
// "racestart": the next pipe's first p_recv/p_send -- which the protocol issues from its pipe_start,
// i.e. inside nni_pipe_start after the closed-check -- closes the pipe (as another thread's
// nng_pipe_close would at that moment) and lets the reaper finish with it before returning.
static int          pv_race_armed;
static volatile int pv_race_stopped;
static nni_pipe    *pv_race_pipe;

static void
pv_fail_all(nni_list *l, nng_err rv)
{
	nni_aio *aio;
	while ((aio = nni_list_first(l)) != NULL) {
		nni_aio_list_remove(aio);
		nni_aio_finish_error(aio, rv);
	}
}

static void
pv_pipe_close(void *arg)
{
	pv_pipe *p = arg;
	nni_mtx_lock(&pv_mtx);
	p->closed = true;
	if (p->idx >= 0 && pv_pipe_state[p->idx] == 1) pv_pipe_state[p->idx] = 2;
	pv_fail_all(&p->sendq, NNG_ECLOSED);
	pv_fail_all(&p->recvq, NNG_ECLOSED);
	nni_mtx_unlock(&pv_mtx);
}

static void
pv_pipe_stop(void *arg)
{
	pv_pipe *p = arg;
	bool     w;
	nni_mtx_lock(&pv_mtx);
	if (pv_race_pipe == p->npipe) pv_race_stopped = 1;
	if (p->ep != NULL) nni_list_node_remove(&p->node);
	w          = p->waiting;
	p->waiting = false;
	nni_mtx_unlock(&pv_mtx);
	// closed while it was waiting to be matched: drop the creator's reference here
	// (pipe_reap still holds its own until it returns)
	if (w) nni_pipe_rele(p->npipe);
}

static int
pv_pipe_init(void *arg, nni_pipe *npipe)
{
	pv_pipe *p = arg;
	p->npipe   = npipe;
	p->idx     = -1;
	nni_aio_list_init(&p->sendq);
	nni_aio_list_init(&p->recvq);
	NNI_LIST_NODE_INIT(&p->node);
	return (0);
}

static void
pv_pipe_fini(void *arg)
{
	pv_pipe *p = arg;
	nni_mtx_lock(&pv_mtx);
	if (p->idx >= 0) {
		pv_pipes[p->idx]      = NULL;
		pv_pipe_state[p->idx] = 3;
	}
	nni_mtx_unlock(&pv_mtx);
}

static void
pv_pipe_cancel(nni_aio *aio, void *arg, nng_err rv)
{
	NNI_ARG_UNUSED(arg);
	nni_mtx_lock(&pv_mtx);
	if (nni_aio_list_active(aio)) {
		nni_aio_list_remove(aio);
		nni_aio_finish_error(aio, rv);
	}
	nni_mtx_unlock(&pv_mtx);
}

static void
pv_pipe_io(pv_pipe *p, nni_aio *aio, nni_list *q)
{
	nni_mtx_lock(&pv_mtx);
	if (pv_race_armed && p->idx >= 0 && pv_pipe_iocnt[p->idx] == 0) {
		pv_race_armed   = 0;
		pv_race_stopped = 0;
		pv_race_pipe    = p->npipe;
		nni_mtx_unlock(&pv_mtx);
		nni_pipe_close(p->npipe);
		for (int i = 0; i < 2000 && !pv_race_stopped; i++) {
			struct timespec ts = { 0, 1000000 };
			nanosleep(&ts, NULL);
		}
		{
			// the reaper still has nni_pipe_remove and its nni_pipe_rele to do
			struct timespec ts = { 0, 20000000 };
			nanosleep(&ts, NULL);
		}
		nni_mtx_lock(&pv_mtx);
		pv_race_pipe = NULL;
	}
	if (p->idx >= 0) pv_pipe_iocnt[p->idx]++;
	if (!nni_aio_start(aio, pv_pipe_cancel, p)) {
		nni_mtx_unlock(&pv_mtx);
		return;
	}
	if (p->closed) {
		nni_aio_finish_error(aio, NNG_ECLOSED);
	} else if (p->dead) {
		nni_aio_finish_error(aio, NNG_ECONNSHUT);
	} else {
		nni_aio_list_append(q, aio);
	}
	nni_mtx_unlock(&pv_mtx);
}
static void
pv_pipe_send(void *arg, nni_aio *aio)
{
	pv_pipe *p = arg;
	pv_pipe_io(p, aio, &p->sendq);
}
static void
pv_pipe_recv(void *arg, nni_aio *aio)
{
	pv_pipe *p = arg;
	pv_pipe_io(p, aio, &p->recvq);
}
static uint16_t
pv_pipe_peer(void *arg)
{
	return (((pv_pipe *) arg)->peer);
}
static nng_err
pv_getopt(void *arg, const char *name, void *buf, size_t *szp, nni_type t)
{
	NNI_ARG_UNUSED(arg);
	NNI_ARG_UNUSED(name);
	NNI_ARG_UNUSED(buf);
	NNI_ARG_UNUSED(szp);
	NNI_ARG_UNUSED(t);
	return (NNG_ENOTSUP);
}
static nng_sockaddr pv_nowhere;
static const nng_sockaddr *
pv_pipe_addr(void *arg)
{
	NNI_ARG_UNUSED(arg);
	return (&pv_nowhere);
}
static size_t
pv_pipe_size(void)
{
	return (sizeof(pv_pipe));
}

// ---- endpoints (one structure for both kinds, as tcp.c) ----
static nng_err
pv_ep_init_common(pv_ep *ep)
{
	NNI_LIST_INIT(&ep->waitpipes, pv_pipe, node);
	nni_mtx_lock(&pv_mtx);
	ep->idx = -1;
	for (int i = 0; i < PV_MAXEPS; i++) {
		if (pv_eps[i] == NULL) {
			ep->idx   = i;
			pv_eps[i] = ep;
			break;
		}
	}
	pv_last_ep = ep;
	nni_mtx_unlock(&pv_mtx);
	return (ep->idx < 0 ? NNG_ENOMEM : NNG_OK);
}
static nng_err
pv_lep_init(void *arg, nng_url *url, nni_listener *nl)
{
	pv_ep *ep = arg;
	NNI_ARG_UNUSED(url);
	ep->nl = nl;
	return (pv_ep_init_common(ep));
}
static nng_err
pv_dep_init(void *arg, nng_url *url, nni_dialer *nd)
{
	pv_ep *ep = arg;
	NNI_ARG_UNUSED(url);
	ep->nd = nd;
	return (pv_ep_init_common(ep));
}
static void
pv_ep_fini(void *arg)
{
	pv_ep *ep = arg;
	nni_mtx_lock(&pv_mtx);
	if (ep->idx >= 0) pv_eps[ep->idx] = NULL;
	if (pv_last_ep == ep) pv_last_ep = NULL;
	nni_mtx_unlock(&pv_mtx);
}
static nng_err
pv_ep_bind(void *arg, nng_url *url)
{
	NNI_ARG_UNUSED(arg);
	NNI_ARG_UNUSED(url);
	return (NNG_OK);
}
static void
pv_ep_cancel(nni_aio *aio, void *arg, nng_err rv)
{
	pv_ep *ep = arg;
	nni_mtx_lock(&pv_mtx);
	if (ep->useraio == aio) {
		ep->useraio = NULL;
		nni_aio_finish_error(aio, rv);
	}
	nni_mtx_unlock(&pv_mtx);
}
static void
pv_ep_match(pv_ep *ep)
{
	pv_pipe *p;
	nni_aio *aio;
	if (((aio = ep->useraio) == NULL) || ((p = nni_list_first(&ep->waitpipes)) == NULL)) {
		return;
	}
	nni_list_remove(&ep->waitpipes, p);
	p->waiting  = false;
	ep->useraio = NULL;
	nni_aio_set_output(aio, 0, p->npipe);
	nni_aio_finish(aio, 0, 0);
}
// l_accept and d_connect: the shape of tcptran_ep_accept / tcptran_ep_connect
static void
pv_ep_arm(void *arg, nni_aio *aio)
{
	pv_ep *ep = arg;
	nni_aio_reset(aio);
	nni_mtx_lock(&pv_mtx);
	if (ep->closed) {
		nni_mtx_unlock(&pv_mtx);
		nni_aio_finish_error(aio, NNG_ECLOSED);
		return;
	}
	if (ep->useraio != NULL) {
		nni_mtx_unlock(&pv_mtx);
		nni_aio_finish_error(aio, NNG_EBUSY);
		return;
	}
	if (!nni_aio_start(aio, pv_ep_cancel, ep)) {
		nni_mtx_unlock(&pv_mtx);
		return;
	}
	ep->useraio = aio;
	ep->attempts++;
	ep->last_call = nni_clock();
	pv_ep_match(ep);
	nni_mtx_unlock(&pv_mtx);
}
static void
pv_ep_close(void *arg)
{
	pv_ep   *ep = arg;
	pv_pipe *p;
	nni_mtx_lock(&pv_mtx);
	ep->closed = true;
	if (ep->useraio != NULL) {
		nni_aio_finish_error(ep->useraio, NNG_ECLOSED);
		ep->useraio = NULL;
	}
	while ((p = nni_list_first(&ep->waitpipes)) != NULL) {
		nni_list_remove(&ep->waitpipes, p);
		p->waiting = false;
		nni_pipe_close(p->npipe);
		nni_pipe_rele(p->npipe); // the creator's reference (the harness keeps none)
	}
	nni_mtx_unlock(&pv_mtx);
}
static void
pv_ep_stop(void *arg)
{
	NNI_ARG_UNUSED(arg);
}
static nng_err
pv_ep_setopt(void *arg, const char *name, const void *buf, size_t sz, nni_type t)
{
	NNI_ARG_UNUSED(arg);
	NNI_ARG_UNUSED(buf);
	NNI_ARG_UNUSED(sz);
	NNI_ARG_UNUSED(t);
	if (strcmp(name, NNG_OPT_RECVMAXSZ) == 0) return (NNG_OK);
	return (NNG_ENOTSUP);
}

static nni_sp_pipe_ops pv_pipe_ops = {
	.p_size      = pv_pipe_size,
	.p_init      = pv_pipe_init,
	.p_fini      = pv_pipe_fini,
	.p_stop      = pv_pipe_stop,
	.p_send      = pv_pipe_send,
	.p_recv      = pv_pipe_recv,
	.p_close     = pv_pipe_close,
	.p_peer      = pv_pipe_peer,
	.p_getopt    = pv_getopt,
	.p_peer_addr = pv_pipe_addr,
	.p_self_addr = pv_pipe_addr,
};
static nni_sp_listener_ops pv_listener_ops = {
	.l_size   = sizeof(pv_ep),
	.l_init   = pv_lep_init,
	.l_fini   = pv_ep_fini,
	.l_bind   = pv_ep_bind,
	.l_accept = pv_ep_arm,
	.l_close  = pv_ep_close,
	.l_stop   = pv_ep_stop,
	.l_getopt = pv_getopt,
	.l_setopt = pv_ep_setopt,
};
static nni_sp_dialer_ops pv_dialer_ops = {
	.d_size    = sizeof(pv_ep),
	.d_init    = pv_dep_init,
	.d_fini    = pv_ep_fini,
	.d_connect = pv_ep_arm,
	.d_close   = pv_ep_close,
	.d_stop    = pv_ep_stop,
	.d_getopt  = pv_getopt,
	.d_setopt  = pv_ep_setopt,
};
static void
pv_tran_init(void)
{
}
static void
pv_tran_fini(void)
{
}
static nni_sp_tran pv_tran = {
	.tran_scheme   = "ssh",
	.tran_dialer   = &pv_dialer_ops,
	.tran_listener = &pv_listener_ops,
	.tran_pipe     = &pv_pipe_ops,
	.tran_init     = pv_tran_init,
	.tran_fini     = pv_tran_fini,
};

static int
pv_quiesce(void)
{
	int calm = 0;
	for (int i = 0; i < 2000000; i++) {
		if (nng_verif_inflight() == 0) {
			if (++calm >= 3) return (0);
			sched_yield();
		} else {
			calm = 0;
			if (i > 2000) {
				struct timespec ts = { 0, 5000 };
				nanosleep(&ts, NULL);
			} else {
				sched_yield();
			}
		}
	}
	return (-1);
}

static int
pv_register_pipe(pv_pipe *p, pv_ep *ep, uint16_t peer)
{
	// pv_mtx held
	p->ep                    = ep;
	p->peer                  = peer;
	p->idx                   = pv_npipes;
	pv_pipes[pv_npipes]      = p;
	pv_pipe_ids[pv_npipes]   = nni_pipe_id(p->npipe);
	pv_pipe_state[pv_npipes] = 1;
	pv_pipe_iocnt[pv_npipes]    = 0;
	return (pv_npipes++);
}

// a negotiated connection arrives on a listener (queued if no accept is pending, as tcp's waitpipes)
static int
pv_conn(pv_ep *ep, uint16_t peer)
{
	pv_pipe *p;
	int      rv;
	if (ep->closed) return (-NNG_ECLOSED);
	if ((rv = nni_pipe_alloc_listener((void **) &p, ep->nl)) != 0) return (-rv);
	nni_mtx_lock(&pv_mtx);
	rv = pv_register_pipe(p, ep, peer);
	p->waiting = true;
	nni_list_append(&ep->waitpipes, p);
	pv_ep_match(ep);
	nni_mtx_unlock(&pv_mtx);
	return (rv);
}

// the pending connect of a dialer succeeds with a new pipe
static int
pv_dial_ok(pv_ep *ep, uint16_t peer)
{
	pv_pipe *p;
	int      rv;
	nni_mtx_lock(&pv_mtx);
	if (ep->useraio == NULL || ep->closed) {
		nni_mtx_unlock(&pv_mtx);
		return (-NNG_ESTATE);
	}
	nni_mtx_unlock(&pv_mtx);
	if ((rv = nni_pipe_alloc_dialer((void **) &p, ep->nd)) != 0) return (-rv);
	nni_mtx_lock(&pv_mtx);
	rv = pv_register_pipe(p, ep, peer);
	p->waiting = true;
	nni_list_append(&ep->waitpipes, p);
	pv_ep_match(ep);
	nni_mtx_unlock(&pv_mtx);
	return (rv);
}

// the pending accept / connect fails with `code`; withpipe: a connection had been made and
// its negotiation failed (the shape of tcptran_pipe_nego_cb's error path)
static int
pv_ep_fail(pv_ep *ep, int code, int withpipe, uint16_t peer, int *pidx)
{
	pv_pipe *p = NULL;
	nni_aio *aio;
	int      rv;
	*pidx = -1;
	nni_mtx_lock(&pv_mtx);
	if (ep->useraio == NULL || ep->closed) {
		nni_mtx_unlock(&pv_mtx);
		return (NNG_ESTATE);
	}
	nni_mtx_unlock(&pv_mtx);
	if (withpipe) {
		rv = ep->nd != NULL ? nni_pipe_alloc_dialer((void **) &p, ep->nd)
		                    : nni_pipe_alloc_listener((void **) &p, ep->nl);
		if (rv != 0) return (rv);
	}
	nni_mtx_lock(&pv_mtx);
	if (p != NULL) *pidx = pv_register_pipe(p, ep, peer);
	aio         = ep->useraio;
	ep->useraio = NULL;
	if (aio != NULL) nni_aio_finish_error(aio, code);
	nni_mtx_unlock(&pv_mtx);
	if (p != NULL) {
		nni_pipe_close(p->npipe);
		nni_pipe_rele(p->npipe);
	}
	return (0);
}

static int
pv_drop(int idx)
{
	pv_pipe *p;
	nni_mtx_lock(&pv_mtx);
	if ((p = pv_pipes[idx]) == NULL) {
		nni_mtx_unlock(&pv_mtx);
		return (-1);
	}
	p->dead = true;
	pv_fail_all(&p->recvq, NNG_ECONNSHUT);
	pv_fail_all(&p->sendq, NNG_ECONNSHUT);
	nni_mtx_unlock(&pv_mtx);
	return (0);
}

// ------------------------------------------------------------------ event log
typedef struct {
	int      sock;
	uint32_t pid;
	int      ev;
	int      did;
	int      lid;
	int      mark; // 0 event, 1 "close of socket returned", 2 message received from pid
} evrec;
#define NLOG (1 << 18)
static evrec           evlog[NLOG];
static int             nev, ev_shown;
static pthread_mutex_t ev_mtx = PTHREAD_MUTEX_INITIALIZER;

#define NSOCK 6
#define NEP 16
static nng_socket   socks[NSOCK];
static int          sock_open[NSOCK];
static int          cbclose_n[NSOCK][4]; // callbacks of that event which still close their pipe (-1: all)
static int          cb_block_sock = -1, cb_block_ms, cb_block_n; // scenario mode: the next n ADD_PRE callbacks of that socket sleep
static uint64_t     cb_seed;             // scenario mode: pseudo-random reject decisions
static int          cb_rej_pre, cb_rej_post; // per mille
static nng_dialer   dials[NEP];
static int          dial_open[NEP];
static pv_ep       *dial_ep[NEP];
static nng_aio     *dial_aio[NEP];
static int          dial_aio_state[NEP]; // 0 none, 1 pending, 2 done
static int          dial_aio_rv[NEP];
static nng_listener lsts[NEP];
static int          lst_open[NEP];
static pv_ep       *lst_ep[NEP];

static void
log_rec(int s, uint32_t pid, int ev, int did, int lid, int mark)
{
	pthread_mutex_lock(&ev_mtx);
	if (nev < NLOG) {
		evlog[nev].sock = s;
		evlog[nev].pid  = pid;
		evlog[nev].ev   = ev;
		evlog[nev].did  = did;
		evlog[nev].lid  = lid;
		evlog[nev].mark = mark;
		nev++;
	}
	pthread_mutex_unlock(&ev_mtx);
}

static uint64_t
mix(uint64_t x)
{
	x ^= x >> 33;
	x *= 0xff51afd7ed558ccdULL;
	x ^= x >> 33;
	x *= 0xc4ceb9fe1a85ec53ULL;
	x ^= x >> 33;
	return x;
}

static void
pipe_cb(nng_pipe p, nng_pipe_ev ev, void *arg)
{
	int s      = (int) (intptr_t) arg;
	int doclose = 0;
	log_rec(s, (uint32_t) nng_pipe_id(p), (int) ev, nng_dialer_id(nng_pipe_dialer(p)),
	    nng_listener_id(nng_pipe_listener(p)), 0);
	pthread_mutex_lock(&ev_mtx);
	int block = 0;
	if (ev == NNG_PIPE_EV_ADD_PRE && s == cb_block_sock && cb_block_n > 0) {
		cb_block_n--;
		block = cb_block_ms;
	}
	pthread_mutex_unlock(&ev_mtx);
	if (block > 0) {
		// a slow application callback: the listener's accept callback is stuck in here, no accept is outstanding
		struct timespec ts = { block / 1000, (block % 1000) * 1000000L };
		nanosleep(&ts, NULL);
	}
	pthread_mutex_lock(&ev_mtx);
	if (ev >= 1 && ev <= 3 && cbclose_n[s][ev] != 0) {
		if (cbclose_n[s][ev] > 0) cbclose_n[s][ev]--;
		doclose = 1;
	}
	pthread_mutex_unlock(&ev_mtx);
	if (cb_seed != 0 && ev != NNG_PIPE_EV_REM_POST) {
		uint64_t h = mix(cb_seed ^ ((uint64_t) nng_pipe_id(p) << 8) ^ (uint64_t) ev) % 1000;
		if (h < (uint64_t) (ev == NNG_PIPE_EV_ADD_PRE ? cb_rej_pre : cb_rej_post)) doclose = 1;
	}
	if (doclose) {
		log_rec(s, (uint32_t) nng_pipe_id(p), (int) ev, 0, 0, 3); // closed inside this callback
		nng_pipe_close(p);
	}
}

static int
pv_idx_of(uint32_t id)
{
	for (int i = pv_npipes - 1; i >= 0; i--)
		if (pv_pipe_ids[i] == id) return i;
	return -1;
}

static void
dial_aio_cb(void *arg)
{
	int k             = (int) (intptr_t) arg;
	dial_aio_rv[k]    = nng_aio_result(dial_aio[k]);
	dial_aio_state[k] = 2;
}

// ------------------------------------------------------------------ script mode
// 1 if some open endpoint that was busy at the previous observation now shows neither a pending
// transport call nor an armed timer (nor a pipe): either it really went idle, or the expire
// thread is between clearing a_sleep and dispatching the timer's callback (real time, not counted
// by hook H2q) -- the caller waits a little and looks again
static char last_dphase[NEP], last_lphase[NEP];
static int
transient_idle(void)
{
	int hit = 0;
	for (int k = 0; k < NEP; k++) {
		nni_dialer *d;
		if (dial_open[k] && nni_dialer_find(&d, (uint32_t) nng_dialer_id(dials[k])) == 0) {
			nni_mtx_lock(&pv_mtx);
			int conn = dial_ep[k] != NULL && dial_ep[k]->useraio != NULL;
			nni_mtx_unlock(&pv_mtx);
			int idle = !conn && !d->d_tmo_aio.a_sleep && d->d_pipe == NULL;
			if (idle && last_dphase[k] == 'b') hit = 1;
			nni_dialer_rele(d);
		}
		nni_listener *l;
		if (lst_open[k] && nni_listener_find(&l, (uint32_t) nng_listener_id(lsts[k])) == 0) {
			nni_mtx_lock(&pv_mtx);
			int acc = lst_ep[k] != NULL && lst_ep[k]->useraio != NULL;
			nni_mtx_unlock(&pv_mtx);
			if (!acc && !l->l_tmo_aio.a_sleep && last_lphase[k] == 'b') hit = 1;
			nni_listener_rele(l);
		}
	}
	return hit;
}

static void
observe(int rv, const char *extra)
{
	int q = pv_quiesce();
	for (int i = 0; i < 40 && transient_idle(); i++) {
		struct timespec ts = { 0, 1000000 };
		nanosleep(&ts, NULL);
		q = pv_quiesce();
	}
	printf("rv=%d%s%s", rv, extra ? " " : "", extra ? extra : "");
	if (q != 0) printf(" NOT-QUIESCENT");
	// events since the last line, per pipe in order (stable by pipe index)
	printf(" ev=");
	int first = 1;
	pthread_mutex_lock(&ev_mtx);
	for (int pi = -1; pi < pv_npipes; pi++) {
		for (int i = ev_shown; i < nev; i++) {
			if (evlog[i].mark != 0) continue;
			if (pv_idx_of(evlog[i].pid) != pi) continue;
			// "x": the callback closed the pipe it was called for
			int x = (i + 1 < nev && evlog[i + 1].mark == 3 && evlog[i + 1].pid == evlog[i].pid && evlog[i + 1].ev == evlog[i].ev);
			if (pi < 0)
				printf("%s?%u:%d%s", first ? "" : ",", evlog[i].pid, evlog[i].ev, x ? "x" : "");
			else
				printf("%sp%d:%d%s", first ? "" : ",", pi, evlog[i].ev, x ? "x" : "");
			first = 0;
		}
	}
	ev_shown = nev;
	pthread_mutex_unlock(&ev_mtx);
	if (first) printf("-");
	printf(" pipes=");
	first = 1;
	nni_mtx_lock(&pv_mtx);
	for (int i = 0; i < pv_npipes; i++) {
		pv_pipe *p = pv_pipes[i];
		printf("%sp%d:%c:%d", first ? "" : ",", i,
		    (p == NULL || pv_pipe_state[i] == 3) ? 'g' : (p->closed ? 'c' : 'o'), pv_pipe_iocnt[i] > 0 ? 1 : 0);
		first = 0;
	}
	nni_mtx_unlock(&pv_mtx);
	if (first) printf("-");
	for (int k = 0; k < NEP; k++) {
		if (!dial_open[k]) continue;
		nni_dialer *d;
		if (nni_dialer_find(&d, (uint32_t) nng_dialer_id(dials[k])) != 0) {
			printf(" d%d=x", k);
			continue;
		}
		int      pi = -1;
		nni_sock *s = d->d_sock;
		(void) s;
		if (d->d_pipe != NULL) pi = pv_idx_of(nni_pipe_id(d->d_pipe));
		nni_mtx_lock(&pv_mtx);
		int conn = dial_ep[k] != NULL && dial_ep[k]->useraio != NULL;
		int att  = dial_ep[k] != NULL ? dial_ep[k]->attempts : -1;
		nni_mtx_unlock(&pv_mtx);
		int tmo = d->d_tmo_aio.a_sleep ? 1 : 0;
		printf(" d%d=", k);
		if (pi >= 0)
			printf("p%d", pi);
		else
			printf("%s", d->d_pipe != NULL ? "p?" : "-");
		printf("/%d/%d/%d/%s/a%d", (int) d->d_inirtime, (int) d->d_maxrtime, (int) d->d_currtime,
		    conn ? "c" : (tmo ? "t" : "-"), att);
		last_dphase[k] = (conn || tmo || d->d_pipe != NULL) ? 'b' : 'i';
		if (tmo) {
			// what is left of the delay drawn (never more than the delay itself)
			nni_time now = nni_clock(), ex = d->d_tmo_aio.a_expire;
			printf("/r%lld", ex > now ? (long long) (ex - now) : 0LL);
		}
		if (dial_aio_state[k] == 2) {
			printf("/u%d", dial_aio_rv[k]);
			dial_aio_state[k] = 0;
		}
		nni_dialer_rele(d);
	}
	for (int k = 0; k < NEP; k++) {
		if (!lst_open[k]) continue;
		nni_listener *l;
		if (nni_listener_find(&l, (uint32_t) nng_listener_id(lsts[k])) != 0) {
			printf(" l%d=x", k);
			continue;
		}
		nni_mtx_lock(&pv_mtx);
		int acc = lst_ep[k] != NULL && lst_ep[k]->useraio != NULL;
		int att = lst_ep[k] != NULL ? lst_ep[k]->attempts : -1;
		nni_mtx_unlock(&pv_mtx);
		int tmo = l->l_tmo_aio.a_sleep ? 1 : 0;
		printf(" l%d=%s/a%d", k, acc ? "a" : (tmo ? "t" : "-"), att);
		last_lphase[k] = (acc || tmo) ? 'b' : 'i';
		if (tmo) {
			nni_time now = nni_clock(), ex = l->l_tmo_aio.a_expire;
			printf("/r%lld", ex > now ? (long long) (ex - now) : 0LL);
		}
		nni_listener_rele(l);
	}
	printf("\n");
	fflush(stdout);
}

struct {
	const char *name;
	int (*open)(nng_socket *);
} protos[] = {
	{ "bus0", nng_bus0_open }, { "pair0", nng_pair0_open }, { "pair1", nng_pair1_open },
	{ "push0", nng_push0_open }, { "pull0", nng_pull0_open }, { "pub0", nng_pub0_open },
	{ "sub0", nng_sub0_open }, { "req0", nng_req0_open }, { "rep0", nng_rep0_open },
	{ NULL, NULL },
};

static void
reset_all(void)
{
	for (int k = 0; k < NEP; k++) {
		if (dial_open[k]) nng_dialer_close(dials[k]);
		if (lst_open[k]) nng_listener_close(lsts[k]);
		dial_open[k] = lst_open[k] = 0;
		dial_ep[k] = lst_ep[k] = NULL;
	}
	for (int s = 0; s < NSOCK; s++) {
		if (sock_open[s]) nng_socket_close(socks[s]);
		sock_open[s] = 0;
		for (int e = 0; e < 4; e++) cbclose_n[s][e] = 0;
	}
	pv_quiesce();
	for (int k = 0; k < NEP; k++) {
		if (dial_aio[k] != NULL) {
			nng_aio_stop(dial_aio[k]);
			nng_aio_free(dial_aio[k]);
			dial_aio[k] = NULL;
		}
		dial_aio_state[k] = 0;
	}
	pv_quiesce();
	nni_mtx_lock(&pv_mtx);
	pv_npipes = 0;
	nni_mtx_unlock(&pv_mtx);
	pthread_mutex_lock(&ev_mtx);
	nev = ev_shown = 0;
	pthread_mutex_unlock(&ev_mtx);
	memset(last_dphase, 0, sizeof(last_dphase));
	memset(last_lphase, 0, sizeof(last_lphase));
}

#define IDX(t) atoi((t) + 1)

static int
script_main(void)
{
	static char line[4096];
	char       *tok[10];
	while (fgets(line, sizeof(line), stdin) != NULL) {
		int   nt = 0;
		char *sp = NULL;
		for (char *t = strtok_r(line, " \n", &sp); t != NULL && nt < 10; t = strtok_r(NULL, " \n", &sp)) tok[nt++] = t;
		if (nt == 0 || tok[0][0] == '#') continue;
		const char *op = tok[0];
		int         rv = 0;
		char        extra[128];
		extra[0] = 0;
		if (strcmp(op, "mark") == 0) {
			reset_all();
			printf("mark %s\n", tok[1]);
			fflush(stdout);
			continue;
		}
		if (strcmp(op, "open") == 0) {
			int s = IDX(tok[1]);
			rv    = NNG_ENOTSUP;
			for (int i = 0; protos[i].name != NULL; i++) {
				if (strcmp(protos[i].name, tok[2]) == 0) {
					rv = protos[i].open(&socks[s]);
					if (rv == 0) sock_open[s] = 1;
				}
			}
		} else if (strcmp(op, "notify") == 0) {
			// notify s<k> <pre><post><rem>  ('1' = the logging callback, '0' = none)
			int s = IDX(tok[1]);
			for (int e = 1; e <= 3; e++) {
				int r = nng_pipe_notify(socks[s], (nng_pipe_ev) e, tok[2][e - 1] == '1' ? pipe_cb : NULL, (void *) (intptr_t) s);
				if (r != 0) rv = r;
			}
		} else if (strcmp(op, "cbclose") == 0) {
			// cbclose s<k> <ev> <n>: the next n callbacks for event ev close their pipe (-1: all)
			pthread_mutex_lock(&ev_mtx);
			cbclose_n[IDX(tok[1])][atoi(tok[2])] = atoi(tok[3]);
			pthread_mutex_unlock(&ev_mtx);
		} else if (strcmp(op, "sopt") == 0) {
			rv = nng_socket_set_ms(socks[IDX(tok[1])], strcmp(tok[2], "min") == 0 ? NNG_OPT_RECONNMINT : NNG_OPT_RECONNMAXT, atoi(tok[3]));
		} else if (strcmp(op, "listen") == 0) {
			int  k = IDX(tok[1]), s = IDX(tok[2]);
			char url[32];
			snprintf(url, sizeof(url), "ssh://l%d", k);
			pv_last_ep = NULL;
			rv         = nng_listener_create(&lsts[k], socks[s], url);
			if (rv == 0) {
				lst_ep[k]   = pv_last_ep;
				lst_open[k] = 1;
				rv          = nng_listener_start(lsts[k], 0);
			}
		} else if (strcmp(op, "dialer") == 0) {
			// dialer d<k> s<j>: create only (options may follow), "dstart d<k> nb|aio" starts it
			int  k = IDX(tok[1]), s = IDX(tok[2]);
			char url[32];
			snprintf(url, sizeof(url), "ssh://d%d", k);
			pv_last_ep = NULL;
			rv         = nng_dialer_create(&dials[k], socks[s], url);
			if (rv == 0) {
				dial_ep[k]   = pv_last_ep;
				dial_open[k] = 1;
			}
		} else if (strcmp(op, "dstart") == 0) {
			int k = IDX(tok[1]);
			if (strcmp(tok[2], "nb") == 0) {
				rv = nng_dialer_start(dials[k], NNG_FLAG_NONBLOCK);
			} else if (dial_aio_state[k] == 1) {
				rv = NNG_EBUSY;
			} else {
				if (dial_aio[k] == NULL) nng_aio_alloc(&dial_aio[k], dial_aio_cb, (void *) (intptr_t) k);
				dial_aio_state[k] = 1;
				nng_dialer_start_aio(dials[k], NNG_FLAG_NONBLOCK, dial_aio[k]);
			}
		} else if (strcmp(op, "dopt") == 0) {
			rv = nng_dialer_set_ms(dials[IDX(tok[1])], strcmp(tok[2], "min") == 0 ? NNG_OPT_RECONNMINT : NNG_OPT_RECONNMAXT, atoi(tok[3]));
		} else if (strcmp(op, "conn") == 0) {
			int k = IDX(tok[1]);
			int r = (lst_open[k] && lst_ep[k]) ? pv_conn(lst_ep[k], (uint16_t) atoi(tok[2])) : -NNG_ECLOSED;
			if (r < 0)
				rv = -r;
			else
				snprintf(extra, sizeof(extra), "pipe=p%d", r);
		} else if (strcmp(op, "dialok") == 0) {
			int k = IDX(tok[1]);
			int r = (dial_open[k] && dial_ep[k]) ? pv_dial_ok(dial_ep[k], (uint16_t) atoi(tok[2])) : -NNG_ECLOSED;
			if (r < 0)
				rv = -r;
			else
				snprintf(extra, sizeof(extra), "pipe=p%d", r);
		} else if (strcmp(op, "dialfail") == 0 || strcmp(op, "accfail") == 0) {
			// dialfail d<k> <code> [<peer of a connection whose negotiation failed>]
			int    k  = IDX(tok[1]), pidx;
			pv_ep *ep = op[0] == 'd' ? (dial_open[k] ? dial_ep[k] : NULL) : (lst_open[k] ? lst_ep[k] : NULL);
			rv        = ep ? pv_ep_fail(ep, atoi(tok[2]), nt > 3, nt > 3 ? (uint16_t) atoi(tok[3]) : 0, &pidx) : NNG_ECLOSED;
			if (rv == 0 && pidx >= 0) snprintf(extra, sizeof(extra), "pipe=p%d", pidx);
		} else if (strcmp(op, "drop") == 0) {
			rv = pv_drop(IDX(tok[1])) == 0 ? 0 : NNG_ENOENT;
		} else if (strcmp(op, "pclose") == 0) {
			nng_pipe p;
			p.id = pv_pipe_ids[IDX(tok[1])];
			rv   = nng_pipe_close(p);
		} else if (strcmp(op, "lclose") == 0) {
			int k       = IDX(tok[1]);
			rv          = nng_listener_close(lsts[k]);
			lst_open[k] = 0;
			lst_ep[k]   = NULL;
		} else if (strcmp(op, "dclose") == 0) {
			int k        = IDX(tok[1]);
			rv           = nng_dialer_close(dials[k]);
			dial_open[k] = 0;
			dial_ep[k]   = NULL;
		} else if (strcmp(op, "close") == 0) {
			int s = IDX(tok[1]);
			rv    = nng_socket_close(socks[s]);
			sock_open[s] = 0;
			// endpoints of that socket are gone with it
			for (int k = 0; k < NEP; k++) {
				if (dial_open[k] && nng_dialer_id(dials[k]) > 0) {
					nni_dialer *d;
					if (nni_dialer_find(&d, (uint32_t) nng_dialer_id(dials[k])) == 0) {
						nni_dialer_rele(d);
					} else {
						dial_open[k] = 0;
						dial_ep[k]   = NULL;
					}
				}
				if (lst_open[k]) {
					nni_listener *l;
					if (nni_listener_find(&l, (uint32_t) nng_listener_id(lsts[k])) == 0) {
						nni_listener_rele(l);
					} else {
						lst_open[k] = 0;
						lst_ep[k]   = NULL;
					}
				}
			}
		} else if (strcmp(op, "advance") == 0) {
			nng_verif_clock_advance((uint64_t) atoll(tok[1]));
		} else if (strcmp(op, "racestart") == 0) {
			nni_mtx_lock(&pv_mtx);
			pv_race_armed = 1;
			nni_mtx_unlock(&pv_mtx);
		} else if (strcmp(op, "poll") == 0) {
			rv = 0;
		} else {
			printf("badop %s\n", op);
			fflush(stdout);
			continue;
		}
		observe(rv, extra[0] ? extra : NULL);
	}
	reset_all();
	return 0;
}

#include "wb_pipeev_real.h"

int
main(int argc, char **argv)
{
	int rc;
	nng_init(NULL);
	nni_mtx_init(&pv_mtx);
	nni_sp_tran_register(&pv_tran);
	if (argc > 1)
		rc = scenario_main(argc, argv);
	else
		rc = script_main();
	fflush(stdout); // (LeakSanitizer's exit handler would otherwise discard what is still buffered)
	nng_fini();
	return rc;
}
