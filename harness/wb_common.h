// wb_common.h: helpers shared by the white-box drivers.
#ifndef WB_COMMON_H
#define WB_COMMON_H
#include <stdint.h>
#include <stdio.h>
#include <stdlib.h>
#include <string.h>

static inline int
hexval(int c)
{
	if (c >= '0' && c <= '9') return c - '0';
	if (c >= 'a' && c <= 'f') return c - 'a' + 10;
	if (c >= 'A' && c <= 'F') return c - 'A' + 10;
	return -1;
}
// decode hex ("-" = empty); returns malloc'd buffer (never NULL), sets *len
static inline uint8_t *
unhex(const char *s, size_t *len)
{
	size_t   n = (strcmp(s, "-") == 0) ? 0 : strlen(s) / 2;
	uint8_t *b = malloc(n + 1);
	for (size_t i = 0; i < n; i++) {
		b[i] = (uint8_t) ((hexval(s[2 * i]) << 4) | hexval(s[2 * i + 1]));
	}
	*len = n;
	return b;
}
static inline void
puthex(const void *p, size_t n)
{
	const uint8_t *b = p;
	if (n == 0) {
		putchar('-');
		return;
	}
	for (size_t i = 0; i < n; i++) {
		printf("%02x", b[i]);
	}
}
#endif
