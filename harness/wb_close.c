// wb_close.c: close-path scenario runner (C10: close always terminates,
// completes everything, invalidates handles).
//
//   wb_close stress   scenario lines on stdin, observation lines on stdout
//   wb_close script   (stub, see script_mode)
//
// Scenario line:  S <id> <proto> <tran> <shape> <order> <seed> <delay>
//   proto  req0 rep0 pub0 sub0 push0 pull0 surveyor0 respondent0 pair0 pair1 bus0, each also <name>_raw
//   tran   inproc | tcp | ipc | vtran
//   shape  comma list of pending-operation kinds set up before the close:
//          srecv ssend arecv asend crecv csend cbrecv dial bdial accept nego peer device
//          extensions: peerd (like peer, but the socket under test is the dialing side),
//                      bstart (nng_dialer_create + a thread blocked in nng_dialer_start(d,0): handle known),
//                      fill (nng_sendmsg NONBLOCK until it fails, at most 64, so that later sends block)
//   order  sock sock2 ctxsock ctx2 epsock ep2 pipesock seq opsock
//          ctxbusy: 8 threads looping over nng_ctx_get_ms on the contexts (opened up to 8) while one thread closes the socket
//          extensions: opsockc / opsockd (opsock whose loop leaves out the dialer / the context calls)
//          lateop: white-box replay of the interleaving inside nng_socket_send / nng_socket_recv in which the
//                  operation obtains its socket reference (nni_sock_find) before the close begins and reaches
//                  the protocol (nni_sock_send / nni_sock_recv) only while close is waiting for that reference;
//                  pending operations lsend / lrecv
//   seed   PRNG seed for the 0..3 ms pre-close sleeps
//   delay  "-" or point:usec[,point:usec...] for nng_verif_delay_hook
// Observation lines: B R C O H N E W, see the comments at the printing sites.
#define _GNU_SOURCE
#include <arpa/inet.h>
#include <errno.h>
#include <fcntl.h>
#include <netinet/in.h>
#include <ctype.h>
#include <pthread.h>
#include <sched.h>
#include <signal.h>
#include <stdio.h>
#include <stdlib.h>
#include <string.h>
#include <sys/socket.h>
#include <sys/stat.h>
#include <sys/un.h>
#include <time.h>
#include <unistd.h>

#include "vtran.h"
#include "wb_common.h"

extern void (*nng_verif_delay_hook)(int, void *) __attribute__((weak));

#define SCRATCH "/tmp/c10h"
#define WD_LIMIT_MS 10000 // default; WB_CLOSE_WDMS overrides it (diagnostics)
#define MAXOPS 24
#define MAXCTX 8
#define MAXEP 8
#define MAXPIPE 16
#define MAXFD 8
#define MAXACT 48
#define MAXDELAY 64

// ---------------------------------------------------------------------------
// time
static uint64_t
now_ms(void)
{
	struct timespec ts;
	clock_gettime(CLOCK_MONOTONIC, &ts);
	return ((uint64_t) ts.tv_sec * 1000u + (uint64_t) ts.tv_nsec / 1000000u);
}

// ---------------------------------------------------------------------------
// watchdog: every potentially blocking library call of the harness is
// bracketed by wd_begin/wd_end; the monitor thread kills the process when one
// of them is older than WD_LIMIT_MS.
#define WD_SLOTS 16
static struct {
	int      active;
	char     what[40];
	uint64_t deadline;
} wd_slot[WD_SLOTS];
static pthread_mutex_t wd_mtx = PTHREAD_MUTEX_INITIALIZER;
static char            wd_id[64]; // id of the running scenario (under wd_mtx)
static int             wd_stop;
static uint64_t        wd_limit_ms = WD_LIMIT_MS;
static pthread_t       wd_thr;

static int
wd_begin(const char *what)
{
	int slot = -1;
	pthread_mutex_lock(&wd_mtx);
	for (int i = 0; i < WD_SLOTS; i++) {
		if (!wd_slot[i].active) {
			slot = i;
			break;
		}
	}
	if (slot >= 0) {
		wd_slot[slot].active = 1;
		snprintf(wd_slot[slot].what, sizeof(wd_slot[slot].what), "%s", what);
		wd_slot[slot].deadline = now_ms() + wd_limit_ms;
	}
	pthread_mutex_unlock(&wd_mtx);
	return (slot);
}

static void
wd_end(int slot)
{
	if (slot < 0) return;
	pthread_mutex_lock(&wd_mtx);
	wd_slot[slot].active = 0;
	pthread_mutex_unlock(&wd_mtx);
}

// diagnostics: when WB_CLOSE_WDCMD is set it is run (through system(3), with
// the first %d replaced by our pid) before the process exits, e.g.
//   WB_CLOSE_WDCMD='gdb -p %d -batch -ex "thread apply all bt" >&2'
static void
wd_diagnose(void)
{
	const char *fmt = getenv("WB_CLOSE_WDCMD");
	char        cmd[512];
	if (fmt == NULL || strstr(fmt, "%d") == NULL || strchr(fmt, '%') != strrchr(fmt, '%')) return;
	snprintf(cmd, sizeof(cmd), fmt, (int) getpid());
	if (system(cmd) != 0) {
		// nothing to do about it
	}
}

static void *
wd_main(void *arg)
{
	(void) arg;
	for (;;) {
		struct timespec ts = { 0, 25 * 1000 * 1000 };
		nanosleep(&ts, NULL);
		pthread_mutex_lock(&wd_mtx);
		if (wd_stop) {
			pthread_mutex_unlock(&wd_mtx);
			return (NULL);
		}
		uint64_t t = now_ms();
		for (int i = 0; i < WD_SLOTS; i++) {
			if (wd_slot[i].active && t > wd_slot[i].deadline) {
				// W <id> <what>: the named call did not return in time
				printf("W %s %s\n", wd_id, wd_slot[i].what);
				fflush(stdout);
				wd_diagnose();
				_exit(3);
			}
		}
		pthread_mutex_unlock(&wd_mtx);
	}
}

static void
wd_set_id(const char *id)
{
	pthread_mutex_lock(&wd_mtx);
	snprintf(wd_id, sizeof(wd_id), "%s", id);
	pthread_mutex_unlock(&wd_mtx);
}

// ---------------------------------------------------------------------------
// delay hook
static int delay_us[MAXDELAY]; // accessed with atomics
static int delayhook_noted;

static void
delay_fn(int pt, void *obj)
{
	(void) obj;
	if (pt >= 0 && pt < MAXDELAY) {
		int us = __atomic_load_n(&delay_us[pt], __ATOMIC_RELAXED);
		if (us > 0) usleep((useconds_t) us);
	}
}

static void
delay_clear(void)
{
	if (&nng_verif_delay_hook != NULL) {
		__atomic_store_n(&nng_verif_delay_hook, NULL, __ATOMIC_SEQ_CST);
	}
	for (int i = 0; i < MAXDELAY; i++) __atomic_store_n(&delay_us[i], 0, __ATOMIC_RELAXED);
}

static void
delay_install(const char *id, const char *spec)
{
	if (strcmp(spec, "-") == 0) return;
	if (&nng_verif_delay_hook == NULL) {
		if (!delayhook_noted) {
			printf("N %s delayhook\n", id);
			delayhook_noted = 1;
		}
		return;
	}
	char  buf[256];
	char *sp = NULL;
	snprintf(buf, sizeof(buf), "%s", spec);
	for (char *t = strtok_r(buf, ",", &sp); t != NULL; t = strtok_r(NULL, ",", &sp)) {
		int pt = 0, us = 0;
		if (sscanf(t, "%d:%d", &pt, &us) == 2 && pt >= 0 && pt < MAXDELAY && us >= 0) {
			__atomic_store_n(&delay_us[pt], us, __ATOMIC_RELAXED);
		}
	}
	__atomic_store_n(&nng_verif_delay_hook, delay_fn, __ATOMIC_SEQ_CST);
}

// ---------------------------------------------------------------------------
// protocol table (shared with script mode)
typedef struct {
	const char *name;
	int (*open)(nng_socket *);
	const char *peer;
	int         raw;
} proto_t;

static const proto_t protos[] = {
	{ "req0", nng_req0_open, "rep0", 0 },
	{ "req0_raw", nng_req0_open_raw, "rep0_raw", 1 },
	{ "rep0", nng_rep0_open, "req0", 0 },
	{ "rep0_raw", nng_rep0_open_raw, "req0_raw", 1 },
	{ "pub0", nng_pub0_open, "sub0", 0 },
	{ "pub0_raw", nng_pub0_open_raw, "sub0_raw", 1 },
	{ "sub0", nng_sub0_open, "pub0", 0 },
	{ "sub0_raw", nng_sub0_open_raw, "pub0_raw", 1 },
	{ "push0", nng_push0_open, "pull0", 0 },
	{ "push0_raw", nng_push0_open_raw, "pull0_raw", 1 },
	{ "pull0", nng_pull0_open, "push0", 0 },
	{ "pull0_raw", nng_pull0_open_raw, "push0_raw", 1 },
	{ "surveyor0", nng_surveyor0_open, "respondent0", 0 },
	{ "surveyor0_raw", nng_surveyor0_open_raw, "respondent0_raw", 1 },
	{ "respondent0", nng_respondent0_open, "surveyor0", 0 },
	{ "respondent0_raw", nng_respondent0_open_raw, "surveyor0_raw", 1 },
	{ "pair0", nng_pair0_open, "pair0", 0 },
	{ "pair0_raw", nng_pair0_open_raw, "pair0_raw", 1 },
	{ "pair1", nng_pair1_open, "pair1", 0 },
	{ "pair1_raw", nng_pair1_open_raw, "pair1_raw", 1 },
	{ "pair1_poly", nng_pair1_open_poly, "pair1", 0 },
	{ "bus0", nng_bus0_open, "bus0", 0 },
	{ "bus0_raw", nng_bus0_open_raw, "bus0_raw", 1 },
	{ NULL, NULL, NULL, 0 },
};

static const proto_t *
proto_find(const char *name)
{
	for (int i = 0; protos[i].name != NULL; i++) {
		if (strcmp(protos[i].name, name) == 0) return (&protos[i]);
	}
	return (NULL);
}

// open a socket by protocol name; a cooked sub0 socket subscribes to everything
static int
open_by_name(const char *name, nng_socket *sp)
{
	const proto_t *p = proto_find(name);
	int            rv;
	if (p == NULL) return (NNG_ENOTSUP);
	if ((rv = p->open(sp)) != 0) return (rv);
	if (strcmp(name, "sub0") == 0) {
		(void) nng_sub0_socket_subscribe(*sp, "", 0);
	}
	return (0);
}

enum { T_INPROC, T_TCP, T_IPC, T_VTRAN };

static int
tran_find(const char *name)
{
	if (strcmp(name, "inproc") == 0) return (T_INPROC);
	if (strcmp(name, "tcp") == 0) return (T_TCP);
	if (strcmp(name, "ipc") == 0) return (T_IPC);
	if (strcmp(name, "vtran") == 0) return (T_VTRAN);
	return (-1);
}

// ---------------------------------------------------------------------------
// scenario state
enum {
	OP_SRECV,
	OP_SSEND,
	OP_ARECV,
	OP_ASEND,
	OP_CRECV,
	OP_CSEND,
	OP_CBRECV,
	OP_BDIAL,
	OP_BSTART,
	OP_DEVICE,
};

typedef struct scn scn_t;

typedef struct {
	char       name[24];
	int        kind;
	scn_t     *sc;
	int        ctxi;
	int        is_thread;
	int        started;
	pthread_t  thr;
	nng_aio   *aio;
	char       addr[192];
	nng_dialer d;
	int        d_valid; // result slot (under res_mtx): nng_dial gave us a dialer
	int        done;    // result slot (under res_mtx)
	int        rv;      // result slot (under res_mtx)
} op_t;

typedef struct {
	uint32_t id;
	int      est; // ADD_POST seen
	int      rem; // REM_POST seen
} pipe_rec;

struct scn {
	char           id[64];
	const proto_t *proto;
	int            tran;
	nng_socket     s;
	nng_socket     peer;
	int            have_peer;
	nng_socket     dev2;
	int            have_dev2;
	nng_ctx        ctx[MAXCTX];
	int            nctx;
	nng_dialer     dialer[MAXEP];
	int            ndialer;
	nng_listener   listener[MAXEP];
	int            nlistener;
	pipe_rec       pipes[MAXPIPE]; // under pipe_mtx
	int            npipes;         // under pipe_mtx
	int            fds[MAXFD];
	int            nfds;
	char           paths[MAXFD][128]; // files to unlink at the end
	int            npaths;
	op_t           ops[MAXOPS];
	int            nops;
	op_t          *devop;
	nni_sock      *latesock;  // order lateop: the reference an operation in flight holds
	op_t          *lateop[2]; // order lateop: its send and its receive
	int            naddr;
	uint32_t       rng;
};

static pthread_mutex_t res_mtx  = PTHREAD_MUTEX_INITIALIZER;
static pthread_mutex_t pipe_mtx = PTHREAD_MUTEX_INITIALIZER;
static int             vt_seq; // telnet:// urls must be unique per process

static uint32_t
rng_next(scn_t *sc)
{
	uint32_t x = sc->rng;
	x ^= x << 13;
	x ^= x >> 17;
	x ^= x << 5;
	sc->rng = x;
	return (x);
}

// result recording (shared with script mode)
static void
op_finish(op_t *o, int rv)
{
	pthread_mutex_lock(&res_mtx);
	o->rv   = rv;
	o->done = 1;
	pthread_mutex_unlock(&res_mtx);
}

static int
op_result(op_t *o, int *rvp)
{
	int done;
	pthread_mutex_lock(&res_mtx);
	done = o->done;
	*rvp = o->rv;
	pthread_mutex_unlock(&res_mtx);
	return (done);
}

static void
pipe_cb(nng_pipe p, nng_pipe_ev ev, void *arg)
{
	scn_t   *sc = arg;
	uint32_t id = (uint32_t) nng_pipe_id(p);
	int      k;
	pthread_mutex_lock(&pipe_mtx);
	for (k = 0; k < sc->npipes; k++) {
		if (sc->pipes[k].id == id) break;
	}
	if (k == sc->npipes && k < MAXPIPE) {
		sc->pipes[k].id  = id;
		sc->pipes[k].est = 0;
		sc->pipes[k].rem = 0;
		sc->npipes++;
	}
	if (k < MAXPIPE) {
		if (ev == NNG_PIPE_EV_ADD_POST) sc->pipes[k].est = 1;
		if (ev == NNG_PIPE_EV_REM_POST) sc->pipes[k].rem = 1;
	}
	pthread_mutex_unlock(&pipe_mtx);
}

static int
pipes_established(scn_t *sc)
{
	int n = 0;
	pthread_mutex_lock(&pipe_mtx);
	for (int k = 0; k < sc->npipes; k++) n += sc->pipes[k].est;
	pthread_mutex_unlock(&pipe_mtx);
	return (n);
}

// a message the socket under test accepts: raw sockets want their protocol
// header (request id / backtrace / hop count), otherwise the send is refused
// (NNG_EPROTO) or the peer drops the connection
static int
mk_msg(scn_t *sc, nng_msg **mp)
{
	nng_msg    *m;
	const char *pn = sc->proto->name;
	int         rv;
	if ((rv = nng_msg_alloc(&m, 8)) != 0) return (rv);
	if (strcmp(pn, "req0_raw") == 0 || strcmp(pn, "surveyor0_raw") == 0) {
		rv = nng_msg_header_append_u32(m, 0x80000001u);
	} else if (strcmp(pn, "pair1_raw") == 0) {
		rv = nng_msg_header_append_u32(m, 1);
	} else if (strcmp(pn, "rep0_raw") == 0 || strcmp(pn, "respondent0_raw") == 0) {
		uint32_t pid = 1;
		pthread_mutex_lock(&pipe_mtx);
		for (int k = 0; k < sc->npipes; k++) {
			if (sc->pipes[k].est) {
				pid = sc->pipes[k].id;
				break;
			}
		}
		pthread_mutex_unlock(&pipe_mtx);
		if ((rv = nng_msg_header_append_u32(m, pid)) == 0) rv = nng_msg_header_append_u32(m, 0x80000001u);
	}
	if (rv != 0) {
		nng_msg_free(m);
		return (rv);
	}
	*mp = m;
	return (0);
}

static int
wait_established(scn_t *sc, int want)
{
	// loopback connections are up within a few ms; a pipe the protocol refuses
	// (second pipe of a pair socket) never shows up
	uint64_t end = now_ms() + 500;
	while (pipes_established(sc) < want) {
		if (now_ms() > end) return (-1);
		nng_msleep(1);
	}
	return (0);
}

// wait (at most 2 s) until the library has no queued task or reap request
static int
quiesce2s(void)
{
	uint64_t end  = now_ms() + 2000;
	int      calm = 0;
	for (;;) {
		if (nng_verif_inflight() == 0) {
			if (++calm >= 3) return (0);
			sched_yield();
		} else {
			calm               = 0;
			struct timespec ts = { 0, 100 * 1000 };
			nanosleep(&ts, NULL);
		}
		if (now_ms() > end) return (-1);
	}
}

// ---------------------------------------------------------------------------
// addresses and raw BSD sockets
static void
add_fd(scn_t *sc, int fd)
{
	if (sc->nfds < MAXFD) {
		sc->fds[sc->nfds++] = fd;
	} else {
		close(fd);
	}
}

static void
add_path(scn_t *sc, const char *path)
{
	if (sc->npaths < MAXFD) snprintf(sc->paths[sc->npaths++], sizeof(sc->paths[0]), "%s", path);
}

// a fresh address of the scenario's transport that nothing listens on.
// tcp: a port that is bound by the harness but not listening (ECONNREFUSED).
static int
addr_unused(scn_t *sc, char *buf, size_t n)
{
	int k = sc->naddr++;
	switch (sc->tran) {
	case T_INPROC:
		snprintf(buf, n, "inproc://c10-%d-%s-%d", (int) getpid(), sc->id, k);
		return (0);
	case T_IPC:
		snprintf(buf, n, "ipc://%s/%d-%s-%d.ipc", SCRATCH, (int) getpid(), sc->id, k);
		return (0);
	case T_TCP: {
		struct sockaddr_in sin;
		socklen_t          sl = sizeof(sin);
		int                fd = socket(AF_INET, SOCK_STREAM | SOCK_CLOEXEC, 0);
		if (fd < 0) return (-1);
		memset(&sin, 0, sizeof(sin));
		sin.sin_family      = AF_INET;
		sin.sin_addr.s_addr = htonl(INADDR_LOOPBACK);
		if (bind(fd, (struct sockaddr *) &sin, sizeof(sin)) != 0 ||
		    getsockname(fd, (struct sockaddr *) &sin, &sl) != 0) {
			close(fd);
			return (-1);
		}
		add_fd(sc, fd);
		snprintf(buf, n, "tcp://127.0.0.1:%d", (int) ntohs(sin.sin_port));
		return (0);
	}
	default:
		snprintf(buf, n, "telnet://c10x%d", vt_seq++);
		return (0);
	}
}

// a plain BSD listening socket (never accepts, never sends); tcp/ipc only
static int
raw_listen(scn_t *sc, char *buf, size_t n)
{
	int k = sc->naddr++;
	if (sc->tran == T_TCP) {
		struct sockaddr_in sin;
		socklen_t          sl = sizeof(sin);
		int                fd = socket(AF_INET, SOCK_STREAM | SOCK_CLOEXEC, 0);
		if (fd < 0) return (-1);
		memset(&sin, 0, sizeof(sin));
		sin.sin_family      = AF_INET;
		sin.sin_addr.s_addr = htonl(INADDR_LOOPBACK);
		if (bind(fd, (struct sockaddr *) &sin, sizeof(sin)) != 0 || listen(fd, 8) != 0 ||
		    getsockname(fd, (struct sockaddr *) &sin, &sl) != 0) {
			close(fd);
			return (-1);
		}
		add_fd(sc, fd);
		snprintf(buf, n, "tcp://127.0.0.1:%d", (int) ntohs(sin.sin_port));
		return (0);
	}
	if (sc->tran == T_IPC) {
		struct sockaddr_un sun;
		int                fd = socket(AF_UNIX, SOCK_STREAM | SOCK_CLOEXEC, 0);
		if (fd < 0) return (-1);
		memset(&sun, 0, sizeof(sun));
		sun.sun_family = AF_UNIX;
		snprintf(sun.sun_path, sizeof(sun.sun_path), "%s/%d-%s-%d.ipc", SCRATCH, (int) getpid(), sc->id, k);
		unlink(sun.sun_path);
		if (bind(fd, (struct sockaddr *) &sun, sizeof(sun)) != 0 || listen(fd, 8) != 0) {
			close(fd);
			return (-1);
		}
		add_fd(sc, fd);
		add_path(sc, sun.sun_path);
		snprintf(buf, n, "ipc://%s", sun.sun_path);
		return (0);
	}
	return (-1);
}

// a plain BSD client connection to an nng listener (sends nothing); tcp/ipc only
static int
raw_connect(scn_t *sc, const char *addr)
{
	int fd = -1;
	if (strncmp(addr, "tcp://127.0.0.1:", 16) == 0) {
		struct sockaddr_in sin;
		memset(&sin, 0, sizeof(sin));
		sin.sin_family      = AF_INET;
		sin.sin_addr.s_addr = htonl(INADDR_LOOPBACK);
		sin.sin_port        = htons((uint16_t) atoi(addr + 16));
		fd                  = socket(AF_INET, SOCK_STREAM | SOCK_CLOEXEC, 0);
		if (fd < 0) return (-1);
		if (connect(fd, (struct sockaddr *) &sin, sizeof(sin)) != 0) {
			close(fd);
			return (-1);
		}
	} else if (strncmp(addr, "ipc://", 6) == 0) {
		struct sockaddr_un sun;
		memset(&sun, 0, sizeof(sun));
		sun.sun_family = AF_UNIX;
		snprintf(sun.sun_path, sizeof(sun.sun_path), "%s", addr + 6);
		fd = socket(AF_UNIX, SOCK_STREAM | SOCK_CLOEXEC, 0);
		if (fd < 0) return (-1);
		if (connect(fd, (struct sockaddr *) &sun, sizeof(sun)) != 0) {
			close(fd);
			return (-1);
		}
	} else {
		return (-1);
	}
	add_fd(sc, fd);
	return (0);
}

// start an nng listener on `sock` at a fresh address of the scenario's
// transport; `dialaddr` receives the address a dialer has to use.
// For vtran *epp receives the transport endpoint.
static int
sock_listen(scn_t *sc, nng_socket sock, nng_listener *lp, char *dialaddr, size_t n, vt_ep **epp)
{
	int  rv;
	int  k = sc->naddr++;
	char url[192];
	switch (sc->tran) {
	case T_INPROC:
		snprintf(url, sizeof(url), "inproc://c10-%d-%s-%d", (int) getpid(), sc->id, k);
		break;
	case T_IPC:
		snprintf(url, sizeof(url), "ipc://%s/%d-%s-%d.ipc", SCRATCH, (int) getpid(), sc->id, k);
		add_path(sc, url + 6);
		break;
	case T_TCP:
		snprintf(url, sizeof(url), "tcp://127.0.0.1:0");
		break;
	default:
		snprintf(url, sizeof(url), "telnet://c10x%d", vt_seq++);
		nni_mtx_lock(&vt_mtx);
		vt_last_ep = NULL;
		nni_mtx_unlock(&vt_mtx);
		break;
	}
	int sl = wd_begin("setup:listen");
	rv     = nng_listen(sock, url, lp, 0);
	wd_end(sl);
	if (rv != 0) return (rv);
	if (sc->tran == T_TCP) {
		int port = 0;
		if ((rv = nng_listener_get_int(*lp, NNG_OPT_BOUND_PORT, &port)) != 0) return (rv);
		snprintf(dialaddr, n, "tcp://127.0.0.1:%d", port);
	} else {
		snprintf(dialaddr, n, "%s", url);
	}
	if (epp != NULL) {
		nni_mtx_lock(&vt_mtx);
		*epp = vt_last_ep;
		nni_mtx_unlock(&vt_mtx);
	}
	return (0);
}

// ---------------------------------------------------------------------------
// pending operations
static void *
op_thread(void *arg)
{
	op_t    *o  = arg;
	scn_t   *sc = o->sc;
	nng_msg *m  = NULL;
	int      rv = NNG_EINTERNAL;

	switch (o->kind) {
	case OP_SRECV:
		if ((rv = nng_recvmsg(sc->s, &m, 0)) == 0) nng_msg_free(m);
		break;
	case OP_SSEND:
		if ((rv = mk_msg(sc, &m)) == 0) {
			if ((rv = nng_sendmsg(sc->s, m, 0)) != 0) nng_msg_free(m);
		}
		break;
	case OP_CBRECV:
		if ((rv = nng_ctx_recvmsg(sc->ctx[o->ctxi], &m, 0)) == 0) nng_msg_free(m);
		break;
	case OP_BDIAL: {
		nng_dialer d = NNG_DIALER_INITIALIZER;
		rv           = nng_dial(sc->s, o->addr, &d, 0);
		if (rv == 0) {
			pthread_mutex_lock(&res_mtx);
			o->d       = d;
			o->d_valid = 1;
			pthread_mutex_unlock(&res_mtx);
		}
		break;
	}
	case OP_BSTART:
		rv = nng_dialer_start(o->d, 0);
		break;
	default:
		break;
	}
	op_finish(o, rv);
	return (NULL);
}

static void
op_aio_cb(void *arg)
{
	op_t    *o  = arg;
	int      rv = (int) nng_aio_result(o->aio);
	nng_msg *m;
	switch (o->kind) {
	case OP_ASEND:
	case OP_CSEND:
		if (rv != 0 && (m = nng_aio_get_msg(o->aio)) != NULL) {
			nng_aio_set_msg(o->aio, NULL);
			nng_msg_free(m);
		}
		break;
	case OP_ARECV:
	case OP_CRECV:
		if (rv == 0 && (m = nng_aio_get_msg(o->aio)) != NULL) {
			nng_aio_set_msg(o->aio, NULL);
			nng_msg_free(m);
		}
		break;
	default:
		break;
	}
	op_finish(o, rv);
}

static op_t *
op_new(scn_t *sc, int kind, const char *name)
{
	if (sc->nops >= MAXOPS) return (NULL);
	op_t *o = &sc->ops[sc->nops++];
	memset(o, 0, sizeof(*o));
	snprintf(o->name, sizeof(o->name), "%s", name);
	o->kind = kind;
	o->sc   = sc;
	return (o);
}

static void
op_start_thread(op_t *o)
{
	o->is_thread = 1;
	if (pthread_create(&o->thr, NULL, op_thread, o) == 0) {
		o->started = 1;
	} else {
		op_finish(o, NNG_ENOMEM);
	}
}

// allocate the aio of an aio operation; for sends attach a message
static int
op_prep_aio(op_t *o, int with_msg)
{
	if (nng_aio_alloc(&o->aio, op_aio_cb, o) != 0) {
		o->aio = NULL;
		op_finish(o, NNG_ENOMEM);
		return (-1);
	}
	nng_aio_set_timeout(o->aio, NNG_DURATION_INFINITE);
	if (with_msg) {
		nng_msg *m;
		if (mk_msg(o->sc, &m) != 0) {
			op_finish(o, NNG_ENOMEM);
			return (-1);
		}
		nng_aio_set_msg(o->aio, m);
	}
	o->started = 1;
	return (0);
}

// open n contexts; returns the index of the first one or -1 (not supported)
static int
open_ctxs(scn_t *sc, int n)
{
	int first = sc->nctx;
	for (int i = 0; i < n; i++) {
		if (sc->nctx >= MAXCTX) return (-1);
		if (nng_ctx_open(&sc->ctx[sc->nctx], sc->s) != 0) return (-1);
		sc->nctx++;
	}
	return (first);
}

// ---------------------------------------------------------------------------
// shape
enum {
	K_SRECV,
	K_SSEND,
	K_ARECV,
	K_ASEND,
	K_CRECV,
	K_CSEND,
	K_CBRECV,
	K_DIAL,
	K_BDIAL,
	K_ACCEPT,
	K_NEGO,
	K_PEER,
	K_DEVICE,
	K_PEERD,
	K_BSTART,
	K_FILL,
	K_NUM
};
static const char *kind_names[K_NUM] = { "srecv", "ssend", "arecv", "asend", "crecv", "csend", "cbrecv", "dial",
	"bdial", "accept", "nego", "peer", "device", "peerd", "bstart", "fill" };

static void
note_ignored(scn_t *sc, const char *what)
{
	// N <id> <kind>: a requested shape element was not applicable and ignored
	printf("N %s %s\n", sc->id, what);
}

static void
setup_shape(scn_t *sc, const char *shape)
{
	int   want[K_NUM] = { 0 };
	char  buf[256];
	char *sp = NULL;
	char  addr[192];
	int   rv;
	int   nest = 0; // established pipes expected so far
	int   nrep = 1; // x<N>

	snprintf(buf, sizeof(buf), "%s", shape);
	for (char *t = strtok_r(buf, ",", &sp); t != NULL; t = strtok_r(NULL, ",", &sp)) {
		int k;
		if (strcmp(t, "-") == 0 || strcmp(t, "none") == 0) continue;
		// sbuf<N> / rbuf<N>: NNG_OPT_SENDBUF / NNG_OPT_RECVBUF of the socket (set before anything else);
		// x<N>: N instances of each of ssend / srecv / asend / arecv (buffered + blocked ones)
		if (strncmp(t, "sbuf", 4) == 0 && isdigit((unsigned char) t[4])) {
			if (nng_socket_set_int(sc->s, NNG_OPT_SENDBUF, atoi(t + 4)) != 0) note_ignored(sc, "sbuf");
			continue;
		}
		if (strncmp(t, "rbuf", 4) == 0 && isdigit((unsigned char) t[4])) {
			if (nng_socket_set_int(sc->s, NNG_OPT_RECVBUF, atoi(t + 4)) != 0) note_ignored(sc, "rbuf");
			continue;
		}
		if (t[0] == 'x' && isdigit((unsigned char) t[1]) && t[2] == 0) {
			nrep = t[1] - '0';
			if (nrep < 1) nrep = 1;
			if (nrep > 4) nrep = 4;
			continue;
		}
		for (k = 0; k < K_NUM; k++) {
			if (strcmp(t, kind_names[k]) == 0) break;
		}
		if (k == K_NUM) {
			note_ignored(sc, t);
		} else {
			want[k] = 1;
		}
	}

	// --- endpoints first, so that the data operations see the pipes ---
	if (want[K_ACCEPT]) {
		if (sc->nlistener < MAXEP &&
		    sock_listen(sc, sc->s, &sc->listener[sc->nlistener], addr, sizeof(addr), NULL) == 0) {
			sc->nlistener++;
		} else {
			note_ignored(sc, "accept");
		}
	}
	if (want[K_NEGO]) {
		if ((sc->tran == T_TCP || sc->tran == T_IPC) && sc->nlistener < MAXEP &&
		    sock_listen(sc, sc->s, &sc->listener[sc->nlistener], addr, sizeof(addr), NULL) == 0) {
			sc->nlistener++;
			if (raw_connect(sc, addr) != 0) note_ignored(sc, "nego:connect");
		} else {
			note_ignored(sc, "nego");
		}
	}
	if (want[K_PEER] || want[K_PEERD]) {
		rv = open_by_name(sc->proto->peer, &sc->peer);
		if (rv == 0) {
			sc->have_peer = 1;
		} else {
			if (want[K_PEER]) note_ignored(sc, "peer");
			if (want[K_PEERD]) note_ignored(sc, "peerd");
			want[K_PEER] = want[K_PEERD] = 0;
		}
	}
	if (want[K_PEER]) {
		vt_ep *ep = NULL;
		if (sc->nlistener < MAXEP &&
		    sock_listen(sc, sc->s, &sc->listener[sc->nlistener], addr, sizeof(addr), &ep) == 0) {
			sc->nlistener++;
			if (sc->tran == T_VTRAN) {
				uint16_t peerid = 0;
				(void) nng_socket_peer_id(sc->s, &peerid);
				if (ep == NULL || vt_npipes >= VT_MAXPIPES - 2 || vt_connect(ep, peerid) < 0) {
					note_ignored(sc, "peer");
				} else {
					nest++;
				}
			} else {
				int sl = wd_begin("setup:peerdial");
				rv     = nng_dial(sc->peer, addr, NULL, 0);
				wd_end(sl);
				if (rv != 0) {
					note_ignored(sc, "peer");
				} else {
					nest++;
				}
			}
			if (wait_established(sc, nest) != 0) {
				note_ignored(sc, "peer:nopipe");
				nest = pipes_established(sc);
			}
		} else {
			note_ignored(sc, "peer");
		}
	}
	if (want[K_PEERD]) {
		nng_listener pl;
		if (sc->tran != T_VTRAN && sc->ndialer < MAXEP &&
		    sock_listen(sc, sc->peer, &pl, addr, sizeof(addr), NULL) == 0) {
			int sl = wd_begin("setup:peerd");
			rv     = nng_dial(sc->s, addr, &sc->dialer[sc->ndialer], 0);
			wd_end(sl);
			if (rv == 0) {
				sc->ndialer++;
				nest++;
				if (wait_established(sc, nest) != 0) {
					note_ignored(sc, "peerd:nopipe");
					nest = pipes_established(sc);
				}
			} else {
				note_ignored(sc, "peerd");
			}
		} else {
			note_ignored(sc, "peerd");
		}
	}
	if (want[K_DIAL]) {
		if (sc->tran != T_VTRAN && sc->ndialer < MAXEP && addr_unused(sc, addr, sizeof(addr)) == 0 &&
		    nng_dial(sc->s, addr, &sc->dialer[sc->ndialer], NNG_FLAG_NONBLOCK) == 0) {
			sc->ndialer++;
		} else {
			note_ignored(sc, "dial");
		}
	}
	if (want[K_BDIAL]) {
		op_t *o;
		if ((sc->tran == T_TCP || sc->tran == T_IPC) && raw_listen(sc, addr, sizeof(addr)) == 0 &&
		    (o = op_new(sc, OP_BDIAL, "bdial")) != NULL) {
			snprintf(o->addr, sizeof(o->addr), "%s", addr);
			op_start_thread(o);
		} else {
			note_ignored(sc, "bdial");
		}
	}
	if (want[K_BSTART]) {
		op_t *o;
		if ((sc->tran == T_TCP || sc->tran == T_IPC) && sc->ndialer < MAXEP &&
		    raw_listen(sc, addr, sizeof(addr)) == 0 &&
		    nng_dialer_create(&sc->dialer[sc->ndialer], sc->s, addr) == 0) {
			nng_dialer d = sc->dialer[sc->ndialer++];
			if ((o = op_new(sc, OP_BSTART, "bstart")) != NULL) {
				o->d = d;
				op_start_thread(o);
			}
		} else {
			note_ignored(sc, "bstart");
		}
	}

	// --- make later sends block (optional) ---
	if (want[K_FILL]) {
		for (int i = 0; i < 64; i++) {
			nng_msg *m;
			if (mk_msg(sc, &m) != 0) break;
			if (nng_sendmsg(sc->s, m, NNG_FLAG_NONBLOCK) != 0) {
				nng_msg_free(m);
				break;
			}
		}
	}

	// --- context operations ---
	if (want[K_CRECV]) {
		int first = open_ctxs(sc, 2);
		if (first < 0) {
			note_ignored(sc, "crecv");
		} else {
			for (int i = 0; i < 2; i++) {
				char  nm[24];
				op_t *o;
				snprintf(nm, sizeof(nm), "crecv%d", i);
				if ((o = op_new(sc, OP_CRECV, nm)) == NULL) break;
				o->ctxi = first + i;
				if (op_prep_aio(o, 0) == 0) nng_ctx_recv(sc->ctx[o->ctxi], o->aio);
			}
		}
	}
	if (want[K_CSEND]) {
		int first = open_ctxs(sc, 2);
		if (first < 0) {
			note_ignored(sc, "csend");
		} else {
			for (int i = 0; i < 2; i++) {
				char  nm[24];
				op_t *o;
				snprintf(nm, sizeof(nm), "csend%d", i);
				if ((o = op_new(sc, OP_CSEND, nm)) == NULL) break;
				o->ctxi = first + i;
				if (op_prep_aio(o, 1) == 0) nng_ctx_send(sc->ctx[o->ctxi], o->aio);
			}
		}
	}
	if (want[K_CBRECV]) {
		int first = open_ctxs(sc, 1);
		if (first < 0) {
			note_ignored(sc, "cbrecv");
		} else {
			op_t *o = op_new(sc, OP_CBRECV, "cbrecv0");
			if (o != NULL) {
				o->ctxi = first;
				op_start_thread(o);
			}
		}
	}

	// --- socket operations ---
	for (int r = 0; r < nrep; r++) {
		char nm[24];
		if (want[K_SRECV]) {
			snprintf(nm, sizeof(nm), r ? "srecv_%d" : "srecv", r);
			op_t *o = op_new(sc, OP_SRECV, nm);
			if (o != NULL) op_start_thread(o);
		}
		if (want[K_ARECV]) {
			snprintf(nm, sizeof(nm), r ? "arecv_%d" : "arecv", r);
			op_t *o = op_new(sc, OP_ARECV, nm);
			if (o != NULL && op_prep_aio(o, 0) == 0) nng_socket_recv(sc->s, o->aio);
		}
		if (want[K_SSEND]) {
			snprintf(nm, sizeof(nm), r ? "ssend_%d" : "ssend", r);
			op_t *o = op_new(sc, OP_SSEND, nm);
			if (o != NULL) op_start_thread(o);
		}
		if (want[K_ASEND]) {
			snprintf(nm, sizeof(nm), r ? "asend_%d" : "asend", r);
			op_t *o = op_new(sc, OP_ASEND, nm);
			if (o != NULL && op_prep_aio(o, 1) == 0) nng_socket_send(sc->s, o->aio);
		}
	}

	// --- device last: the operations above stay pending on the socket it then owns ---
	if (want[K_DEVICE]) {
		op_t *o;
		if (sc->proto->raw && open_by_name(sc->proto->peer, &sc->dev2) == 0) {
			sc->have_dev2 = 1;
			if ((o = op_new(sc, OP_DEVICE, "device")) != NULL && op_prep_aio(o, 0) == 0) {
				sc->devop = o;
				nng_device_aio(o->aio, sc->s, sc->dev2);
			}
		} else {
			note_ignored(sc, "device");
		}
	}
}

// ---------------------------------------------------------------------------
// closers
enum { A_CTX, A_DIALER, A_LISTENER, A_PIPE, A_SOCK, A_OPS, A_LATE };
enum { OPS_CTX = 1, OPS_DIALER = 2 }; // idx of an A_OPS action: which handle-creating calls the loop makes

typedef struct {
	char what[32];
	int  rv;
	long ms;
} crec_t;

typedef struct {
	scn_t             *sc;
	int                type[MAXACT];
	int                idx[MAXACT];
	uint32_t           pipeid[MAXACT];
	int                nacts;
	const char        *suffix;
	unsigned           presleep_us;
	pthread_barrier_t *bar;
	crec_t             recs[MAXACT];
	int                nrecs;
	long               opscount; // -1: no ops loop
	pthread_t          thr;
	int                started;
} closer_t;

static void
closer_add(closer_t *c, int type, int idx, uint32_t pipeid)
{
	if (c->nacts < MAXACT) {
		c->type[c->nacts]   = type;
		c->idx[c->nacts]    = idx;
		c->pipeid[c->nacts] = pipeid;
		c->nacts++;
	}
}

static void
closer_add_ctxs(closer_t *c)
{
	for (int k = 0; k < c->sc->nctx; k++) closer_add(c, A_CTX, k, 0);
}
static void
closer_add_eps(closer_t *c)
{
	for (int k = 0; k < c->sc->ndialer; k++) closer_add(c, A_DIALER, k, 0);
	for (int k = 0; k < c->sc->nlistener; k++) closer_add(c, A_LISTENER, k, 0);
}
static void
closer_add_pipes(closer_t *c)
{
	scn_t *sc = c->sc;
	pthread_mutex_lock(&pipe_mtx);
	for (int k = 0; k < sc->npipes; k++) {
		if (sc->pipes[k].est) closer_add(c, A_PIPE, k, sc->pipes[k].id);
	}
	pthread_mutex_unlock(&pipe_mtx);
}

// thread A of order opsock: keep issuing new operations until the socket refuses them
static long
ops_loop(scn_t *sc, int do_ctx, int do_dialer)
{
	long     count = 0;
	uint64_t end   = now_ms() + 2000;
	char     addr[96];
	// any registered dialing transport will do; vtran has no dialer
	snprintf(addr, sizeof(addr), "inproc://c10-%d-%s-ops", (int) getpid(), sc->id);
	for (;;) {
		nng_ctx    c;
		nng_dialer d;
		nng_msg   *m;
		int        v;
		int        rc = NNG_ECLOSED;
		int        rd = NNG_ECLOSED;
		if (do_ctx) {
			rc = nng_ctx_open(&c, sc->s);
			if (rc == 0) (void) nng_ctx_close(c);
		}
		if (do_dialer) {
			rd = nng_dialer_create(&d, sc->s, addr);
			if (rd == 0) (void) nng_dialer_close(d);
		}
		if (!do_ctx || !do_dialer) {
			// the variant without one of the two: the option read tells when the socket is gone
			int rg = nng_socket_get_int(sc->s, NNG_OPT_RECVBUF, &v);
			if (rg != NNG_ECLOSED && rg != NNG_EBUSY) rg = 0;
			if (!do_ctx) rc = rg;
			if (!do_dialer) rd = rg;
		}
		if (mk_msg(sc, &m) == 0) {
			if (nng_sendmsg(sc->s, m, NNG_FLAG_NONBLOCK) != 0) nng_msg_free(m);
		}
		(void) nng_socket_get_int(sc->s, NNG_OPT_RECVBUF, &v);
		count++;
		if ((rc == NNG_ECLOSED || rc == NNG_ENOTSUP) && rd == NNG_ECLOSED) break;
		if (rc == NNG_EBUSY && rd == NNG_EBUSY) break; // device-owned socket: nothing will change
		if (now_ms() > end) break;
	}
	return (count);
}

static void
closer_run(closer_t *c)
{
	scn_t *sc = c->sc;
	for (int i = 0; i < c->nacts; i++) {
		crec_t  *r  = &c->recs[c->nrecs];
		int      k  = c->idx[i];
		int      rv = 0;
		int      sl;
		uint64_t t0;
		switch (c->type[i]) {
		case A_CTX:
			snprintf(r->what, sizeof(r->what), "ctx%d%s", k, c->suffix);
			break;
		case A_DIALER:
			snprintf(r->what, sizeof(r->what), "dialer%d%s", k, c->suffix);
			break;
		case A_LISTENER:
			snprintf(r->what, sizeof(r->what), "listener%d%s", k, c->suffix);
			break;
		case A_PIPE:
			snprintf(r->what, sizeof(r->what), "pipe%d%s", k, c->suffix);
			break;
		case A_SOCK:
			snprintf(r->what, sizeof(r->what), "sock%s", c->suffix);
			break;
		case A_LATE:
			snprintf(r->what, sizeof(r->what), "lateop");
			break;
		default:
			snprintf(r->what, sizeof(r->what), "opsloop");
			break;
		}
		sl = wd_begin(r->what);
		t0 = now_ms();
		switch (c->type[i]) {
		case A_CTX:
			rv = nng_ctx_close(sc->ctx[k]);
			break;
		case A_DIALER:
			rv = nng_dialer_close(sc->dialer[k]);
			break;
		case A_LISTENER:
			rv = nng_listener_close(sc->listener[k]);
			break;
		case A_PIPE: {
			nng_pipe p = NNG_PIPE_INITIALIZER;
			p.id       = c->pipeid[i];
			rv         = (int) nng_pipe_close(p);
			break;
		}
		case A_SOCK:
			rv = nng_socket_close(sc->s);
			break;
		case A_LATE:
			// the reference was taken before the closers started (run_order); the other closer is by
			// now inside nng_socket_close, waiting for it
			nng_msleep(40);
			if (sc->latesock != NULL) {
				if (sc->lateop[0] != NULL && sc->lateop[0]->aio != NULL) nni_sock_send(sc->latesock, sc->lateop[0]->aio);
				if (sc->lateop[1] != NULL && sc->lateop[1]->aio != NULL) nni_sock_recv(sc->latesock, sc->lateop[1]->aio);
				nni_sock_rele(sc->latesock);
				sc->latesock = NULL;
			}
			break;
		default:
			c->opscount = ops_loop(sc, (k & OPS_CTX) != 0, (k & OPS_DIALER) != 0);
			break;
		}
		r->ms = (long) (now_ms() - t0);
		wd_end(sl);
		r->rv = rv;
		if (c->type[i] != A_OPS && c->type[i] != A_LATE) c->nrecs++;
	}
}

static void *
closer_thread(void *arg)
{
	closer_t *c = arg;
	if (c->bar != NULL) pthread_barrier_wait(c->bar);
	if (c->presleep_us > 0) usleep(c->presleep_us);
	closer_run(c);
	return (NULL);
}

static void
closer_print(closer_t *c)
{
	// C <id> <what> <rv> <ms>: one close call, its return value and duration
	for (int i = 0; i < c->nrecs; i++) {
		printf("C %s %s %d %ld\n", c->sc->id, c->recs[i].what, c->recs[i].rv, c->recs[i].ms);
	}
	// O <id> <count>: iterations of the opsock loop
	if (c->opscount >= 0) printf("O %s %ld\n", c->sc->id, c->opscount);
}

static void
closer_init(closer_t *c, scn_t *sc, const char *suffix)
{
	memset(c, 0, sizeof(*c));
	c->sc       = sc;
	c->suffix   = suffix;
	c->opscount = -1;
}

// order ctxbusy: NBUSY threads keep making short context calls (each looks the context up: c_ref++,
// works, releases) while another thread closes the socket, so that sock_shutdown's walk over s_ctxs
// meets contexts that are referenced at that instant.
#define NBUSY 8
typedef struct {
	scn_t             *sc;
	int                k;
	long               count;
	pthread_barrier_t *bar;
} busy_t;

static void *
busy_thread(void *arg)
{
	busy_t      *b   = arg;
	uint64_t     end = now_ms() + 2000;
	nng_duration ms;
	pthread_barrier_wait(b->bar);
	while (now_ms() < end) {
		if (nng_ctx_get_ms(b->sc->ctx[b->k], NNG_OPT_RECVTIMEO, &ms) != 0) break;
		b->count++;
	}
	return (NULL);
}

static int run_order(scn_t *sc, const char *order);

static int
run_ctxbusy(scn_t *sc)
{
	static closer_t   c;
	static busy_t     b[NBUSY];
	pthread_t         thr[NBUSY];
	int               started[NBUSY] = { 0 };
	pthread_barrier_t bar;
	long              total = 0;

	while (sc->nctx < MAXCTX && nng_ctx_open(&sc->ctx[sc->nctx], sc->s) == 0) sc->nctx++;
	if (sc->nctx == 0) {
		note_ignored(sc, "ctxbusy");
		return (run_order(sc, "sock"));
	}
	closer_init(&c, sc, "");
	closer_add(&c, A_SOCK, 0, 0);
	c.presleep_us = rng_next(sc) % 2001;
	pthread_barrier_init(&bar, NULL, NBUSY + 1);
	c.bar = &bar;
	for (int i = 0; i < NBUSY; i++) {
		b[i].sc    = sc;
		b[i].k     = i % sc->nctx;
		b[i].count = 0;
		b[i].bar   = &bar;
		if (pthread_create(&thr[i], NULL, busy_thread, &b[i]) != 0) {
			printf("W %s harness:pthread_create\n", sc->id);
			fflush(stdout);
			_exit(3);
		}
		started[i] = 1;
	}
	if (pthread_create(&c.thr, NULL, closer_thread, &c) != 0) {
		printf("W %s harness:pthread_create\n", sc->id);
		fflush(stdout);
		_exit(3);
	}
	pthread_join(c.thr, NULL);
	for (int i = 0; i < NBUSY; i++) {
		if (started[i]) pthread_join(thr[i], NULL);
		total += b[i].count;
	}
	pthread_barrier_destroy(&bar);
	closer_print(&c);
	printf("O %s %ld\n", sc->id, total);
	return (0);
}

// returns -1 for an unknown order
static int
run_order(scn_t *sc, const char *order)
{
	static closer_t   a, b, c2; // large; only the main thread runs scenarios
	pthread_barrier_t bar;
	int               nthr   = 1;
	int               phase2 = 0;

	closer_init(&a, sc, "");
	closer_init(&b, sc, "B");
	closer_init(&c2, sc, "");

	if (strcmp(order, "ctxbusy") == 0) {
		return (run_ctxbusy(sc));
	}
	if (strcmp(order, "sock") == 0) {
		closer_add(&a, A_SOCK, 0, 0);
	} else if (strcmp(order, "sock2") == 0) {
		closer_add(&a, A_SOCK, 0, 0);
		closer_add(&b, A_SOCK, 0, 0);
		nthr = 2;
	} else if (strcmp(order, "ctxsock") == 0) {
		closer_add_ctxs(&a);
		b.suffix = "";
		closer_add(&b, A_SOCK, 0, 0);
		nthr = 2;
	} else if (strcmp(order, "ctx2") == 0) {
		closer_add_ctxs(&a);
		closer_add_ctxs(&b);
		closer_add(&c2, A_SOCK, 0, 0);
		nthr   = 2;
		phase2 = 1;
	} else if (strcmp(order, "epsock") == 0) {
		closer_add_eps(&a);
		b.suffix = "";
		closer_add(&b, A_SOCK, 0, 0);
		nthr = 2;
	} else if (strcmp(order, "ep2") == 0) {
		closer_add_eps(&a);
		closer_add_eps(&b);
		closer_add(&c2, A_SOCK, 0, 0);
		nthr   = 2;
		phase2 = 1;
	} else if (strcmp(order, "pipesock") == 0) {
		closer_add_pipes(&a);
		b.suffix = "";
		closer_add(&b, A_SOCK, 0, 0);
		nthr = 2;
	} else if (strcmp(order, "seq") == 0) {
		closer_add_ctxs(&a);
		closer_add_eps(&a);
		closer_add_pipes(&a);
		closer_add(&a, A_SOCK, 0, 0);
		// the second close of the socket is reported as sockB
		phase2    = 1;
		c2.suffix = "B";
		closer_add(&c2, A_SOCK, 0, 0);
	} else if (strcmp(order, "opsock") == 0 || strcmp(order, "opsockc") == 0 || strcmp(order, "opsockd") == 0) {
		// opsockc / opsockd (extensions): the loop without the dialer / without the context calls
		closer_add(&a, A_OPS, order[6] == 'c' ? OPS_CTX : order[6] == 'd' ? OPS_DIALER : (OPS_CTX | OPS_DIALER), 0);
		a.opscount = 0;
		b.suffix   = "";
		closer_add(&b, A_SOCK, 0, 0);
		nthr = 2;
	} else if (strcmp(order, "lateop") == 0) {
		op_t *o;
		sc->latesock = NULL;
		sc->lateop[0] = sc->lateop[1] = NULL;
		if (nni_sock_find(&sc->latesock, sc->s.id) != 0) sc->latesock = NULL;
		if ((o = op_new(sc, OP_ASEND, "lsend")) != NULL && op_prep_aio(o, 1) == 0) sc->lateop[0] = o;
		if ((o = op_new(sc, OP_ARECV, "lrecv")) != NULL && op_prep_aio(o, 0) == 0) sc->lateop[1] = o;
		closer_add(&a, A_LATE, 0, 0);
		b.suffix = "";
		closer_add(&b, A_SOCK, 0, 0);
		nthr = 2;
	} else {
		return (-1);
	}

	a.presleep_us = rng_next(sc) % 3001;
	b.presleep_us = rng_next(sc) % 3001;

	pthread_barrier_init(&bar, NULL, (unsigned) nthr);
	a.bar = &bar;
	b.bar = &bar;
	if (pthread_create(&a.thr, NULL, closer_thread, &a) != 0) {
		// cannot happen in practice; run inline so that the scenario still completes
		a.bar = NULL;
		if (nthr == 2) b.bar = NULL;
		closer_thread(&a);
	} else {
		a.started = 1;
	}
	if (nthr == 2) {
		if (pthread_create(&b.thr, NULL, closer_thread, &b) != 0) {
			// the barrier would never open: fatal for the harness
			printf("W %s harness:pthread_create\n", sc->id);
			fflush(stdout);
			_exit(3);
		}
		b.started = 1;
	}
	// every blocking call inside the closers is under the watchdog, so plain joins are safe
	if (a.started) pthread_join(a.thr, NULL);
	if (b.started) pthread_join(b.thr, NULL);
	pthread_barrier_destroy(&bar);
	if (phase2) closer_run(&c2);

	closer_print(&a);
	if (nthr == 2) closer_print(&b);
	if (phase2) closer_print(&c2);
	return (0);
}

// ---------------------------------------------------------------------------
// handle checks after the close
#define HCALL(name, expr)                                \
	do {                                             \
		int sl_ = wd_begin(name);                \
		int rv_ = (int) (expr);                  \
		wd_end(sl_);                             \
		/* H <id> <handleop> <rv> */             \
		printf("H %s %s %d\n", sc->id, name, rv_); \
	} while (0)

static int
h_send(scn_t *sc)
{
	nng_msg *m;
	int      rv;
	if ((rv = mk_msg(sc, &m)) != 0) return (rv);
	if ((rv = nng_sendmsg(sc->s, m, NNG_FLAG_NONBLOCK)) != 0) nng_msg_free(m);
	return (rv);
}
static int
h_recv(nng_socket s)
{
	nng_msg *m  = NULL;
	int      rv = nng_recvmsg(s, &m, NNG_FLAG_NONBLOCK);
	if (rv == 0) nng_msg_free(m);
	return (rv);
}
static int
h_ctx_open(nng_socket s)
{
	nng_ctx c;
	int     rv = nng_ctx_open(&c, s);
	if (rv == 0) (void) nng_ctx_close(c);
	return (rv);
}
static int
h_dialer_create(nng_socket s, const char *addr)
{
	nng_dialer d;
	int        rv = nng_dialer_create(&d, s, addr);
	if (rv == 0) (void) nng_dialer_close(d);
	return (rv);
}
static int
h_listener_create(nng_socket s, const char *addr)
{
	nng_listener l;
	int          rv = nng_listener_create(&l, s, addr);
	if (rv == 0) (void) nng_listener_close(l);
	return (rv);
}
static int
h_sock_get(nng_socket s)
{
	nng_duration d;
	return (nng_socket_get_ms(s, NNG_OPT_RECVTIMEO, &d));
}
static int
h_ctx_recv(nng_ctx c)
{
	nng_msg *m  = NULL;
	int      rv = nng_ctx_recvmsg(c, &m, NNG_FLAG_NONBLOCK);
	if (rv == 0) nng_msg_free(m);
	return (rv);
}
static int
h_ctx_get(nng_ctx c)
{
	nng_duration d;
	return (nng_ctx_get_ms(c, NNG_OPT_RECVTIMEO, &d));
}
static int
h_dialer_get(nng_dialer d)
{
	nng_duration v;
	return (nng_dialer_get_ms(d, NNG_OPT_RECONNMINT, &v));
}
static int
h_listener_get(nng_listener l)
{
	size_t v;
	return (nng_listener_get_size(l, NNG_OPT_RECVMAXSZ, &v));
}
static int
h_pipe_get(uint32_t id)
{
	nng_pipe p = NNG_PIPE_INITIALIZER;
	size_t   v;
	p.id = id;
	return ((int) nng_pipe_get_size(p, NNG_OPT_RECVMAXSZ, &v));
}
static int
h_pipe_close(uint32_t id)
{
	nng_pipe p = NNG_PIPE_INITIALIZER;
	p.id       = id;
	return ((int) nng_pipe_close(p));
}

static void
check_handles(scn_t *sc)
{
	char     nm[48];
	char     addr[96];
	uint32_t pid[MAXPIPE];
	int      np;

	pthread_mutex_lock(&pipe_mtx);
	np = sc->npipes;
	for (int k = 0; k < np; k++) pid[k] = sc->pipes[k].id;
	pthread_mutex_unlock(&pipe_mtx);

	// pipes first: "immediately" means before the reaper had time to run
	for (int k = 0; k < np; k++) {
		snprintf(nm, sizeof(nm), "pipe%d.get", k);
		HCALL(nm, h_pipe_get(pid[k]));
		snprintf(nm, sizeof(nm), "pipe%d.close", k);
		HCALL(nm, h_pipe_close(pid[k]));
	}

	snprintf(addr, sizeof(addr), "inproc://c10-%d-%s-h", (int) getpid(), sc->id);
	HCALL("sock.send", h_send(sc));
	HCALL("sock.recv", h_recv(sc->s));
	HCALL("sock.ctx_open", h_ctx_open(sc->s));
	HCALL("sock.dialer_create", h_dialer_create(sc->s, addr));
	HCALL("sock.listener_create", h_listener_create(sc->s, addr));
	HCALL("sock.get", h_sock_get(sc->s));
	HCALL("sock.close", nng_socket_close(sc->s));

	for (int k = 0; k < sc->nctx; k++) {
		snprintf(nm, sizeof(nm), "ctx%d.recv", k);
		HCALL(nm, h_ctx_recv(sc->ctx[k]));
		snprintf(nm, sizeof(nm), "ctx%d.get", k);
		HCALL(nm, h_ctx_get(sc->ctx[k]));
		snprintf(nm, sizeof(nm), "ctx%d.close", k);
		HCALL(nm, nng_ctx_close(sc->ctx[k]));
	}
	for (int k = 0; k < sc->ndialer; k++) {
		snprintf(nm, sizeof(nm), "dialer%d.get", k);
		HCALL(nm, h_dialer_get(sc->dialer[k]));
		snprintf(nm, sizeof(nm), "dialer%d.start", k);
		HCALL(nm, nng_dialer_start(sc->dialer[k], NNG_FLAG_NONBLOCK));
		snprintf(nm, sizeof(nm), "dialer%d.close", k);
		HCALL(nm, nng_dialer_close(sc->dialer[k]));
	}
	for (int k = 0; k < sc->nlistener; k++) {
		snprintf(nm, sizeof(nm), "listener%d.get", k);
		HCALL(nm, h_listener_get(sc->listener[k]));
		snprintf(nm, sizeof(nm), "listener%d.start", k);
		HCALL(nm, nng_listener_start(sc->listener[k], 0));
		snprintf(nm, sizeof(nm), "listener%d.close", k);
		HCALL(nm, nng_listener_close(sc->listener[k]));
	}

	// ... and again once the library is quiescent
	if (np > 0) {
		int sl = wd_begin("quiesce");
		(void) quiesce2s();
		wd_end(sl);
		for (int k = 0; k < np; k++) {
			snprintf(nm, sizeof(nm), "pipe%d.get.q", k);
			HCALL(nm, h_pipe_get(pid[k]));
			snprintf(nm, sizeof(nm), "pipe%d.close.q", k);
			HCALL(nm, h_pipe_close(pid[k]));
		}
	}
}

// ---------------------------------------------------------------------------
// one scenario
static void
wait_ops(scn_t *sc)
{
	for (int i = 0; i < sc->nops; i++) {
		op_t *o = &sc->ops[i];
		if (!o->started) continue;
		int sl = wd_begin(o->name);
		if (o->is_thread) {
			pthread_join(o->thr, NULL);
		} else {
			nng_aio_wait(o->aio);
		}
		wd_end(sl);
	}
	for (int i = 0; i < sc->nops; i++) {
		op_t *o = &sc->ops[i];
		int   rv;
		// R <id> <opname> <rv>: terminal result of a pending operation
		if (op_result(o, &rv)) {
			printf("R %s %s %d\n", sc->id, o->name, rv);
		} else {
			printf("R %s %s none\n", sc->id, o->name);
		}
		// a blocking nng_dial that succeeded hands out a dialer after all
		pthread_mutex_lock(&res_mtx);
		if (o->kind == OP_BDIAL && o->d_valid && sc->ndialer < MAXEP) {
			sc->dialer[sc->ndialer++] = o->d;
		}
		pthread_mutex_unlock(&res_mtx);
	}
}

static void
timed_close(scn_t *sc, const char *what, nng_socket s)
{
	int      sl = wd_begin(what);
	uint64_t t0 = now_ms();
	int      rv = nng_socket_close(s);
	long     ms = (long) (now_ms() - t0);
	wd_end(sl);
	printf("C %s %s %d %ld\n", sc->id, what, rv, ms);
}

static void
cleanup(scn_t *sc)
{
	for (int i = 0; i < sc->nops; i++) {
		op_t *o = &sc->ops[i];
		if (o->aio != NULL) {
			nng_msg *m;
			int      sl = wd_begin("cleanup:aio");
			nng_aio_stop(o->aio);
			wd_end(sl);
			// an operation that was never submitted still owns its message
			if ((o->kind == OP_ASEND || o->kind == OP_CSEND) && !o->done &&
			    (m = nng_aio_get_msg(o->aio)) != NULL) {
				nng_aio_set_msg(o->aio, NULL);
				nng_msg_free(m);
			}
			nng_aio_free(o->aio);
			o->aio = NULL;
		}
	}
	for (int i = 0; i < sc->nfds; i++) close(sc->fds[i]);
	for (int i = 0; i < sc->npaths; i++) unlink(sc->paths[i]);
	int sl = wd_begin("cleanup:quiesce");
	(void) quiesce2s();
	wd_end(sl);
	// recycle the vtran pipe table when every pipe of it is gone
	nni_mtx_lock(&vt_mtx);
	int gone = 1;
	for (int i = 0; i < vt_npipes; i++) {
		if (vt_pipe_state[i] != 3 && vt_pipe_state[i] != 0) gone = 0;
	}
	if (gone) {
		for (int i = 0; i < vt_npipes; i++) vt_pipe_state[i] = 0;
		vt_npipes = 0;
	}
	nni_mtx_unlock(&vt_mtx);
}

static void
run_scenario(char **tok)
{
	scn_t *sc = calloc(1, sizeof(*sc));
	int    rv;

	if (sc == NULL) return;
	snprintf(sc->id, sizeof(sc->id), "%.48s", tok[1]);
	for (char *p = sc->id; *p; p++) {
		// the id becomes part of urls and file names
		if (!((*p >= '0' && *p <= '9') || (*p >= 'a' && *p <= 'z') || (*p >= 'A' && *p <= 'Z') || *p == '_' ||
		        *p == '.')) {
			*p = '-';
		}
	}
	wd_set_id(sc->id);
	sc->proto = proto_find(tok[2]);
	sc->tran  = tran_find(tok[3]);
	sc->rng   = (uint32_t) strtoul(tok[6], NULL, 0) * 2654435761u + 0x9e3779b9u;
	if (sc->rng == 0) sc->rng = 1;

	// B <id> <proto> <tran> <shape> <order>
	printf("B %s %s %s %s %s\n", sc->id, tok[2], tok[3], tok[4], tok[5]);
	if (sc->proto == NULL || sc->tran < 0) {
		printf("N %s %s\n", sc->id, sc->proto == NULL ? "proto" : "tran");
		printf("E %s\n", sc->id);
		free(sc);
		return;
	}
	if ((rv = open_by_name(sc->proto->name, &sc->s)) != 0) {
		printf("N %s open:%d\n", sc->id, rv);
		printf("E %s\n", sc->id);
		free(sc);
		return;
	}
	delay_install(sc->id, tok[7]);
	(void) nng_pipe_notify(sc->s, NNG_PIPE_EV_ADD_PRE, pipe_cb, sc);
	(void) nng_pipe_notify(sc->s, NNG_PIPE_EV_ADD_POST, pipe_cb, sc);
	(void) nng_pipe_notify(sc->s, NNG_PIPE_EV_REM_POST, pipe_cb, sc);

	setup_shape(sc, tok[4]);

	// let the operations really become pending
	nng_msleep(20);

	if (run_order(sc, tok[5]) != 0) {
		printf("N %s order\n", sc->id);
		timed_close(sc, "sock", sc->s);
	}

	// a device owns its sockets: nng_socket_close said NNG_EBUSY; stopping the
	// device is the way to close them
	if (sc->devop != NULL && sc->devop->aio != NULL) nng_aio_cancel(sc->devop->aio);

	wait_ops(sc);
	check_handles(sc);

	if (sc->have_dev2) timed_close(sc, "devsock", sc->dev2);
	if (sc->have_peer) timed_close(sc, "peer", sc->peer);

	cleanup(sc);
	delay_clear();
	// E <id>: the scenario ran to its end
	printf("E %s\n", sc->id);
	free(sc);
}

static int
stress_mode(void)
{
	static char line[4096];
	char       *tok[10];
	while (fgets(line, sizeof(line), stdin) != NULL) {
		int   nt = 0;
		char *sp = NULL;
		for (char *t = strtok_r(line, " \t\r\n", &sp); t != NULL && nt < 10; t = strtok_r(NULL, " \t\r\n", &sp)) {
			tok[nt++] = t;
		}
		if (nt == 0 || tok[0][0] == '#') continue;
		if (strcmp(tok[0], "S") != 0 || nt < 8) {
			printf("N - badline\n");
			continue;
		}
		run_scenario(tok);
	}
	return (0);
}

// ---------------------------------------------------------------------------
// SCRIPT MODE: the deterministic part.  One command per line, executed by this thread; after
// each command the library is brought to quiescence (hook H2q) and one observation line is
// printed.  ocaml/drv_c10.ml runs the same script on Core/CloseModel.v.
//   mark <k>                          new case (everything of the previous case is closed and released)
//   open <proto> ...                  the socket of the case (further tokens are for the model)
//   ctx                               nng_ctx_open                 -> c<k>, k = creation order
//   dialer | listener                 nng_dialer_create (inproc, nobody listens) / nng_listener_create + start
//                                     (telnet:// = the deterministic transport) -> ep<k>
//   conn ep<k> <peer-proto-number>    a pipe appears on listener ep<k>          -> p<k>
//   recv|send s|c<k> a<i> [flag]      asynchronous operation with aio a<i> (flag is for the model)
//   dstart ep<k> a<i>                 nng_dialer_start_aio(d, NNG_FLAG_NONBLOCK, a<i>)
//   close s | c<k> | ep<k> | p<k>     the close call of that handle
//   bufs <n>                          NNG_OPT_SENDBUF and NNG_OPT_RECVBUF := n (the model only echoes the return value)
//   probe                             nothing
// observation:  rv=<n> done=<a<i>:<rv>,...|-> h=<handle>:<ok|errno>,...
//   done = operations that reached their result since the previous line (sorted by aio number),
//   h    = for every handle of the case the result of a find-type call (ok = the handle is valid).
#define SC_MAXAIO 64
typedef struct {
	nng_aio *aio;
	int      idx;
	int      used, done, reported, rv, is_send;
} sc_aio_t;
static sc_aio_t        sc_aios[SC_MAXAIO];
static pthread_mutex_t sc_mtx = PTHREAD_MUTEX_INITIALIZER;

static void
sc_aio_cb(void *arg)
{
	sc_aio_t *a  = arg;
	int       rv = (int) nng_aio_result(a->aio);
	nng_msg  *m  = nng_aio_get_msg(a->aio);
	if (m != NULL && (rv == 0) != (a->is_send != 0)) {
		// a received message, or the message of a failed send, is ours to release
		nng_aio_set_msg(a->aio, NULL);
		nng_msg_free(m);
	}
	pthread_mutex_lock(&sc_mtx);
	a->done = 1;
	a->rv   = rv;
	pthread_mutex_unlock(&sc_mtx);
}

typedef struct {
	int          open;
	const proto_t *proto;
	nng_socket   s;
	nng_ctx      ctx[MAXCTX];
	int          nctx;
	int          ep_isdialer[MAXEP];
	nng_dialer   epd[MAXEP];
	nng_listener epl[MAXEP];
	vt_ep       *epv[MAXEP];
	int          nep;
	uint32_t     pipeid[MAXPIPE];
	int          npipe;
} sc_case_t;
static sc_case_t scc;
static int       sc_serial;

static void
sc_reset(void)
{
	if (scc.open) {
		int sl = wd_begin("script:close");
		(void) nng_socket_close(scc.s);
		wd_end(sl);
	}
	(void) quiesce2s();
	for (int i = 0; i < SC_MAXAIO; i++) {
		if (sc_aios[i].used && sc_aios[i].aio != NULL) {
			int sl = wd_begin("script:aio");
			nng_aio_cancel(sc_aios[i].aio);
			nng_aio_wait(sc_aios[i].aio);
			nng_aio_free(sc_aios[i].aio);
			wd_end(sl);
		}
	}
	memset(sc_aios, 0, sizeof(sc_aios));
	memset(&scc, 0, sizeof(scc));
}

static sc_aio_t *
sc_aio_get(const char *tok, int is_send)
{
	int i = atoi(tok + 1);
	if (tok[0] != 'a' || i < 0 || i >= SC_MAXAIO || sc_aios[i].used) return (NULL);
	sc_aio_t *a = &sc_aios[i];
	a->idx      = i;
	a->is_send  = is_send;
	if (nng_aio_alloc(&a->aio, sc_aio_cb, a) != 0) return (NULL);
	nng_aio_set_timeout(a->aio, NNG_DURATION_INFINITE);
	a->used = 1;
	return (a);
}

static const char *
sc_hv(int rv, char *buf, size_t n)
{
	if (rv == NNG_ECLOSED || rv == NNG_ENOENT) {
		snprintf(buf, n, "%d", rv);
	} else {
		snprintf(buf, n, "ok");
	}
	return (buf);
}

static void
sc_observe(int rv)
{
	char line[4096];
	int  n = 0, first = 1;
	char b[16];
	(void) quiesce2s();
	n += snprintf(line + n, sizeof(line) - n, "rv=%d done=", rv);
	pthread_mutex_lock(&sc_mtx);
	for (int i = 0; i < SC_MAXAIO; i++) {
		if (sc_aios[i].used && sc_aios[i].done && !sc_aios[i].reported) {
			sc_aios[i].reported = 1;
			n += snprintf(line + n, sizeof(line) - n, "%sa%d:%d", first ? "" : ",", i, sc_aios[i].rv);
			first = 0;
		}
	}
	pthread_mutex_unlock(&sc_mtx);
	if (first) n += snprintf(line + n, sizeof(line) - n, "-");
	n += snprintf(line + n, sizeof(line) - n, " h=");
	if (scc.proto != NULL) {
		nng_duration ms;
		size_t       sz;
		n += snprintf(line + n, sizeof(line) - n, "s:%s", sc_hv(nng_socket_get_ms(scc.s, NNG_OPT_RECVTIMEO, &ms), b, sizeof(b)));
		for (int k = 0; k < scc.nctx; k++) {
			n += snprintf(line + n, sizeof(line) - n, ",c%d:%s", k, sc_hv(nng_ctx_get_ms(scc.ctx[k], NNG_OPT_RECVTIMEO, &ms), b, sizeof(b)));
		}
		for (int k = 0; k < scc.nep; k++) {
			int r = scc.ep_isdialer[k] ? nng_dialer_get_ms(scc.epd[k], NNG_OPT_RECONNMINT, &ms)
			                           : nng_listener_get_size(scc.epl[k], NNG_OPT_RECVMAXSZ, &sz);
			n += snprintf(line + n, sizeof(line) - n, ",ep%d:%s", k, sc_hv(r, b, sizeof(b)));
		}
		for (int k = 0; k < scc.npipe; k++) {
			nng_pipe p = NNG_PIPE_INITIALIZER;
			p.id       = scc.pipeid[k];
			n += snprintf(line + n, sizeof(line) - n, ",p%d:%s", k, sc_hv((int) nng_pipe_get_size(p, NNG_OPT_RECVMAXSZ, &sz), b, sizeof(b)));
		}
	} else {
		n += snprintf(line + n, sizeof(line) - n, "-");
	}
	printf("%s\n", line);
}

static int
script_mode(void)
{
	char  buf[512];
	char *tok[8];
	while (fgets(buf, sizeof(buf), stdin) != NULL) {
		int   nt = 0, rv = 0, sl;
		char *sv = NULL;
		for (char *x = strtok_r(buf, " \t\r\n", &sv); x != NULL && nt < 8; x = strtok_r(NULL, " \t\r\n", &sv)) tok[nt++] = x;
		if (nt == 0 || tok[0][0] == '#') continue;
		if (strcmp(tok[0], "mark") == 0) {
			sc_reset();
			printf("mark %s\n", nt > 1 ? tok[1] : "0");
			continue;
		}
		wd_set_id("script");
		sl = wd_begin(tok[0]);
		if (strcmp(tok[0], "open") == 0 && nt >= 2) {
			scc.proto = proto_find(tok[1]);
			rv        = open_by_name(tok[1], &scc.s);
			scc.open  = (rv == 0);
			if (rv == 0 && strncmp(tok[1], "surveyor0", 9) == 0 && strstr(tok[1], "_raw") == NULL) {
				(void) nng_socket_set_ms(scc.s, NNG_OPT_SURVEYOR_SURVEYTIME, 600000); // no real-time expiry inside a case
			}
		} else if (strcmp(tok[0], "ctx") == 0) {
			if (scc.nctx < MAXCTX) {
				rv = nng_ctx_open(&scc.ctx[scc.nctx], scc.s);
				if (rv == 0) scc.nctx++;
			} else {
				rv = NNG_ENOMEM;
			}
		} else if (strcmp(tok[0], "dialer") == 0 || strcmp(tok[0], "listener") == 0) {
			char url[96];
			int  k = scc.nep;
			if (k >= MAXEP) {
				rv = NNG_ENOMEM;
			} else if (tok[0][0] == 'd') {
				snprintf(url, sizeof(url), "inproc://c10s-%d-%d", (int) getpid(), ++sc_serial);
				rv = nng_dialer_create(&scc.epd[k], scc.s, url);
				scc.ep_isdialer[k] = 1;
				if (rv == 0) scc.nep++;
			} else {
				snprintf(url, sizeof(url), "telnet://c10s-%d", ++sc_serial);
				rv = nng_listener_create(&scc.epl[k], scc.s, url);
				if (rv == 0) {
					nni_mtx_lock(&vt_mtx);
					scc.epv[k] = vt_last_ep;
					nni_mtx_unlock(&vt_mtx);
					scc.ep_isdialer[k] = 0;
					scc.nep++;
					rv = nng_listener_start(scc.epl[k], 0);
				}
			}
		} else if (strcmp(tok[0], "conn") == 0 && nt >= 3) {
			int k = atoi(tok[1] + 2);
			if (k < 0 || k >= scc.nep || scc.ep_isdialer[k] || scc.npipe >= MAXPIPE) {
				rv = NNG_EINVAL;
			} else {
				int idx = vt_connect(scc.epv[k], (uint16_t) atoi(tok[2]));
				if (idx < 0) {
					rv = -idx;
				} else {
					(void) quiesce2s();
					scc.pipeid[scc.npipe++] = vt_pipe_ids[idx];
				}
			}
		} else if ((strcmp(tok[0], "recv") == 0 || strcmp(tok[0], "send") == 0) && nt >= 3) {
			int       is_send = tok[0][0] == 's';
			sc_aio_t *a       = sc_aio_get(tok[2], is_send);
			if (a == NULL) {
				rv = NNG_EINVAL;
			} else {
				if (is_send) {
					nng_msg *m = NULL;
					scn_t    tmp;
					memset(&tmp, 0, sizeof(tmp));
					tmp.proto = scc.proto;
					if (mk_msg(&tmp, &m) == 0) nng_aio_set_msg(a->aio, m);
				}
				if (tok[1][0] == 'c') {
					int     k = atoi(tok[1] + 1);
					nng_ctx c = NNG_CTX_INITIALIZER;
					if (k >= 0 && k < scc.nctx) c = scc.ctx[k];
					if (is_send) nng_ctx_send(c, a->aio); else nng_ctx_recv(c, a->aio);
				} else {
					if (is_send) nng_socket_send(scc.s, a->aio); else nng_socket_recv(scc.s, a->aio);
				}
			}
		} else if (strcmp(tok[0], "dstart") == 0 && nt >= 3) {
			int       k = atoi(tok[1] + 2);
			sc_aio_t *a = sc_aio_get(tok[2], 0);
			if (a == NULL || k < 0 || k >= scc.nep || !scc.ep_isdialer[k]) {
				rv = NNG_EINVAL;
			} else {
				nng_dialer_start_aio(scc.epd[k], NNG_FLAG_NONBLOCK, a->aio);
			}
		} else if (strcmp(tok[0], "close") == 0 && nt >= 2) {
			if (tok[1][0] == 's') {
				rv = nng_socket_close(scc.s);
				if (rv == 0) scc.open = 0;
			} else if (tok[1][0] == 'c') {
				int     k = atoi(tok[1] + 1);
				nng_ctx c = NNG_CTX_INITIALIZER;
				if (k >= 0 && k < scc.nctx) c = scc.ctx[k];
				rv = nng_ctx_close(c);
			} else if (tok[1][0] == 'e') {
				int k = atoi(tok[1] + 2);
				if (k < 0 || k >= scc.nep) rv = NNG_EINVAL;
				else rv = scc.ep_isdialer[k] ? nng_dialer_close(scc.epd[k]) : nng_listener_close(scc.epl[k]);
			} else if (tok[1][0] == 'p') {
				int      k = atoi(tok[1] + 1);
				nng_pipe p = NNG_PIPE_INITIALIZER;
				if (k >= 0 && k < scc.npipe) p.id = scc.pipeid[k];
				rv = (int) nng_pipe_close(p);
			} else {
				rv = NNG_EINVAL;
			}
		} else if (strcmp(tok[0], "bufs") == 0 && nt >= 2) {
			// NNG_OPT_SENDBUF and NNG_OPT_RECVBUF of the socket (the upper queues of raw sockets)
			int r2;
			rv = nng_socket_set_int(scc.s, NNG_OPT_SENDBUF, atoi(tok[1]));
			r2 = nng_socket_set_int(scc.s, NNG_OPT_RECVBUF, atoi(tok[1]));
			if (rv == 0) rv = r2;
		} else if (strcmp(tok[0], "probe") == 0) {
			rv = 0;
		} else {
			rv = NNG_EINVAL;
		}
		wd_end(sl);
		sc_observe(rv);
	}
	sc_reset();
	return (0);
}

int
main(int argc, char **argv)
{
	int rc;
	setvbuf(stdout, NULL, _IOLBF, 0);
	if (argc < 2) {
		fprintf(stderr, "usage: %s stress|script\n", argv[0]);
		return (2);
	}
	signal(SIGPIPE, SIG_IGN);
	if (getenv("WB_CLOSE_WDMS") != NULL && atoi(getenv("WB_CLOSE_WDMS")) > 0) {
		wd_limit_ms = (uint64_t) atoi(getenv("WB_CLOSE_WDMS"));
	}
	mkdir(SCRATCH, 0777);
	if (nng_init(NULL) != 0) {
		fprintf(stderr, "nng_init failed\n");
		return (2);
	}
	vt_register();
	if (pthread_create(&wd_thr, NULL, wd_main, NULL) != 0) {
		fprintf(stderr, "cannot start the watchdog\n");
		return (2);
	}
	if (strcmp(argv[1], "stress") == 0) {
		rc = stress_mode();
	} else if (strcmp(argv[1], "script") == 0) {
		rc = script_mode();
	} else {
		fprintf(stderr, "unknown mode %s\n", argv[1]);
		rc = 2;
	}
	delay_clear();
	wd_set_id("-");
	int sl = wd_begin("fini");
	nng_fini();
	wd_end(sl);
	pthread_mutex_lock(&wd_mtx);
	wd_stop = 1;
	pthread_mutex_unlock(&wd_mtx);
	pthread_join(wd_thr, NULL);
	fflush(stdout);
	return (rc);
}
