// wb_allocfail.c -- C20 (a): white-box driver for the modelled allocating operations under
// "the k-th allocation fails".  Reads an op script on stdin and prints, per op, the
// observation through the component's API followed by " | " and the ledger of the call:
// A<size> (allocated), X<size> (refused), F<size> (freed), in program order, as seen by
// the pluggable allocator (nng_init_params) -- so allocation counts, sizes, order and
// failure positions are part of the comparison with ocaml/drv_c20.ml.
//
//   oracle <bits>      the next allocations succeed (1) / are refused (0); exhausted = succeed
//   sizes              print the struct sizes the model is parametric in (probed through
//                      the allocator itself: the first allocation of each constructor)
//   msg:   alloc i sz | dup i j | free i | unique i <shared> | pullup i <shared> | <wb_msg ops> i ...
//   lmq:   linit cap | lput id | lget | lflush | lresize cap | lfini
//   msgq:  qinit cap | qtryput id | qresize cap | qfini
//   idmap: iinit lo hi | iset k v | iget k | iremove k | ialloc v | ivisit | icount | ifini
//   url:   uparse <hex> | uclone | ufree | ufree2
//   sub:   sopen | ssub <hex> | sunsub <hex> | sprobe <hex> | sclose
//   end                free everything; prints the number of recorded blocks still live
//   mark <k> | # ...
// Only allocations made by the script thread while an op runs are recorded / refused
// (SUB needs a real socket, whose background threads allocate on their own).
#include "core/nng_impl.h"
#include "core/msgqueue.c" // private struct of nni_msgq (the archive member is then not linked)
#include "wb_common.h"
#include <pthread.h>

// ------------------------------------------------------------------ allocator
static pthread_t main_thr;
static int       recording;
static int       silent; // blocks are recorded (their later frees show) but no event / oracle
static char      orc[4096];
static size_t    orc_pos, orc_len;
static char      ev[8192];
static size_t    evn;
#define RSZ 8192
static void  *rec_p[RSZ];
static size_t rec_sz[RSZ];
static long   rec_live, rec_bytes;

static void
ev_add(char k, size_t sz)
{
	evn += (size_t) snprintf(ev + evn, sizeof(ev) - evn, "%s%c%zu", evn ? " " : "", k, sz);
}
static int
mine(void)
{
	return recording && pthread_equal(pthread_self(), main_thr);
}
static int
refuse(void)
{
	if (orc_pos < orc_len) {
		return orc[orc_pos++] == '0';
	}
	return 0;
}
static void
rec_add(void *p, size_t sz)
{
	for (size_t i = ((uintptr_t) p >> 4) % RSZ, n = 0; n < RSZ; i = (i + 1) % RSZ, n++) {
		if (rec_p[i] == NULL || rec_p[i] == (void *) 1) { // free or tombstone
			rec_p[i]  = p;
			rec_sz[i] = sz;
			rec_live++;
			rec_bytes += (long) sz;
			return;
		}
	}
	fprintf(stderr, "record table full\n");
	exit(3);
}
// returns the recorded size + 1, or 0 if the block was not recorded
static size_t
rec_del(void *p)
{
	for (size_t i = ((uintptr_t) p >> 4) % RSZ, n = 0; n < RSZ; i = (i + 1) % RSZ, n++) {
		if (rec_p[i] == p) {
			size_t sz = rec_sz[i];
			rec_p[i]  = (void *) 1; // tombstone
			rec_live--;
			rec_bytes -= (long) sz;
			return sz + 1;
		}
		if (rec_p[i] == NULL) {
			return 0;
		}
	}
	return 0;
}
static void *
wb_malloc(size_t sz)
{
	if (silent && pthread_equal(pthread_self(), main_thr)) {
		void *p = malloc(sz);
		rec_add(p, sz);
		return p;
	}
	if (mine()) {
		if (refuse()) {
			ev_add('X', sz);
			return NULL;
		}
		void *p = malloc(sz);
		memset(p, 0xa5, sz);
		ev_add('A', sz);
		rec_add(p, sz);
		return p;
	}
	return malloc(sz);
}
static void *
wb_calloc(size_t n, size_t sz)
{
	if (silent && pthread_equal(pthread_self(), main_thr)) {
		void *p = calloc(n, sz);
		rec_add(p, n * sz);
		return p;
	}
	if (mine()) {
		if (refuse()) {
			ev_add('X', n * sz);
			return NULL;
		}
		void *p = calloc(n, sz);
		ev_add('A', n * sz);
		rec_add(p, n * sz);
		return p;
	}
	return calloc(n, sz);
}
static pthread_mutex_t rec_lk = PTHREAD_MUTEX_INITIALIZER;
static void
wb_free(void *p, size_t sz)
{
	if (p == NULL) {
		return;
	}
	if (pthread_equal(pthread_self(), main_thr)) {
		size_t r = rec_del(p);
		if (r != 0 && recording) {
			ev_add('F', sz);
			if (r - 1 != sz) {
				ev_add('!', r - 1); // freed with a size other than the allocated one
			}
		}
	} else {
		pthread_mutex_lock(&rec_lk);
		(void) rec_del(p);
		pthread_mutex_unlock(&rec_lk);
	}
	if (sz > 0) {
		memset(p, 0xdd, sz); // poison: use after release shows as wrong bytes
	}
	free(p);
}
#define REC(stmt)              \
	do {                   \
		recording = 1; \
		stmt;          \
		recording = 0; \
	} while (0)
static void
endl(void)
{
	printf(" | %s\n", evn ? ev : "-");
	evn   = 0;
	ev[0] = 0;
}

// ------------------------------------------------------------------ msg
static nng_msg *slot[8];
static void
mobs(int rv, const char *val, nng_msg *m)
{
	if (m == NULL) {
		printf("rv=%d val=%s none", rv, val);
		return;
	}
	printf("rv=%d val=%s hdr=", rv, val);
	puthex(nng_msg_header(m), nng_msg_header_len(m));
	printf(" body=");
	puthex(nng_msg_body(m), nng_msg_len(m));
	printf(" cap=%zu", nng_msg_capacity(m));
}

// ------------------------------------------------------------------ lmq / msgq
#define MAXMSG 512
static nng_msg *qmsgs[MAXMSG]; // tracking reference (one extra clone), allocated off the record
static int      qheld[MAXMSG];
static nni_lmq  lq;
static int      lq_live;
static nni_msgq *mq;
static nng_msg *
qmk(int id)
{
	nng_msg *m;
	nng_msg_alloc(&m, 0);
	nng_msg_append_u32(m, (uint32_t) id);
	nni_msg_clone(m);
	if (qmsgs[id] != NULL) {
		fprintf(stderr, "msg id %d reused\n", id);
		exit(3);
	}
	qmsgs[id] = m;
	qheld[id] = 1;
	return m;
}
static int
qid(nng_msg *m)
{
	uint32_t v;
	NNI_GET32((uint8_t *) nng_msg_body(m), v);
	return (int) v;
}
static void
qrelease(int id)
{
	qheld[id] = 0;
	nng_msg_free(qmsgs[id]);
}
static void
qfreed(void)
{
	int first = 1;
	printf(" freed=");
	for (int i = 0; i < MAXMSG; i++) {
		if (qmsgs[i] != NULL && qheld[i] && !nni_msg_shared(qmsgs[i])) {
			printf("%s%d", first ? "" : ",", i);
			first    = 0;
			qheld[i] = 0;
		}
	}
	if (first) {
		printf("-");
	}
}
static void
lstate(void)
{
	printf(" len=%zu cap=%zu full=%d empty=%d", nni_lmq_len(&lq), nni_lmq_cap(&lq), nni_lmq_full(&lq), nni_lmq_empty(&lq));
}
static void
qstate(void)
{
	printf(" cap=%d len=%u alloc=%u", nni_msgq_cap(mq), mq->mq_len, mq->mq_alloc);
}
static void
qreset(void)
{
	for (int i = 0; i < MAXMSG; i++) {
		if (qmsgs[i] != NULL) {
			nng_msg_free(qmsgs[i]);
			qmsgs[i] = NULL;
			qheld[i] = 0;
		}
	}
}

// ------------------------------------------------------------------ idmap
static nni_id_map imap;
static int        have_imap;

// ------------------------------------------------------------------ url
static nng_url *url1, *url2;
static void
hexs(const char *s)
{
	if (s == NULL) {
		printf("NULL");
	} else {
		puthex(s, strlen(s));
	}
}
static void
ushow(int rv, nng_url *u)
{
	if (rv != 0 || u == NULL) {
		printf("rv=%d", rv);
		return;
	}
	printf("rv=0 scheme=");
	hexs(nng_url_scheme(u));
	printf(" userinfo=");
	hexs(nng_url_userinfo(u));
	printf(" host=");
	hexs(nng_url_hostname(u));
	printf(" port=%u path=", (unsigned) nng_url_port(u));
	hexs(nng_url_path(u));
	printf(" query=");
	hexs(nng_url_query(u));
	printf(" fragment=");
	hexs(nng_url_fragment(u));
}

// ------------------------------------------------------------------ sub
static nng_socket ssock;
static int        have_ssock;

static void
cleanup(void)
{
	for (int i = 0; i < 8; i++) {
		if (slot[i] != NULL) {
			nng_msg_free(slot[i]);
			slot[i] = NULL;
		}
	}
	if (lq_live) {
		nni_lmq_fini(&lq);
		lq_live = 0;
	}
	if (mq != NULL) {
		nni_msgq_fini(mq);
		mq = NULL;
	}
	if (have_imap) {
		nni_id_map_fini(&imap);
		have_imap = 0;
	}
	if (url1 != NULL) {
		nng_url_free(url1);
		url1 = NULL;
	}
	if (url2 != NULL) {
		nng_url_free(url2);
		url2 = NULL;
	}
}

static size_t
first_event_size(void)
{
	size_t v = 0;
	sscanf(ev, "A%zu", &v);
	evn   = 0;
	ev[0] = 0;
	return v;
}

int
main(void)
{
	static char line[1 << 20];
	char       *tok[8];
	nng_init_params prm;
	main_thr = pthread_self();
	setvbuf(stdout, NULL, _IOLBF, 0); // a crash must not take the lines of earlier ops with it
	memset(&prm, 0, sizeof(prm));
	prm.num_task_threads = prm.max_task_threads = 2;
	prm.num_expire_threads = prm.max_expire_threads = 1;
	prm.num_poller_threads = prm.max_poller_threads = 1;
	prm.num_resolver_threads                        = 1;
	prm.malloc_fn                                   = wb_malloc;
	prm.calloc_fn                                   = wb_calloc;
	prm.free_fn                                     = wb_free;
	if (nng_init(&prm) != 0) {
		fprintf(stderr, "nng_init failed\n");
		return 3;
	}
	nng_log_set_logger(nng_null_logger);
	while (fgets(line, sizeof(line), stdin) != NULL) {
		int   nt = 0;
		char *sp = NULL;
		for (char *t = strtok_r(line, " \n", &sp); t != NULL && nt < 8; t = strtok_r(NULL, " \n", &sp)) {
			tok[nt++] = t;
		}
		if (nt == 0 || tok[0][0] == '#') {
			continue;
		}
		const char *op = tok[0];
		if (strcmp(op, "mark") == 0) {
			cleanup();
			if (have_ssock) {
				nng_socket_close(ssock);
				have_ssock = 0;
			}
			qreset();
			orc_len = orc_pos = 0;
			evn               = 0;
			printf("mark %s\n", tok[1]);
			fflush(stdout);
			continue;
		}
		if (strcmp(op, "oracle") == 0) {
			snprintf(orc, sizeof(orc), "%s", nt > 1 && strcmp(tok[1], "-") != 0 ? tok[1] : "");
			orc_len = strlen(orc);
			orc_pos = 0;
			continue;
		}
		if (strcmp(op, "sizes") == 0) {
			// probed through the allocator: the first block of each constructor
			nng_msg    *m = NULL;
			nni_msgq   *q = NULL;
			nng_url    *u = NULL;
			nni_id_map  im;
			nng_socket  s;
			size_t      szmsg, szq, szent, szurl, sztopic = 0;
			REC(nng_msg_alloc(&m, 0));
			szmsg = first_event_size();
			nng_msg_free(m);
			REC(nni_msgq_init(&q, 1));
			szq = first_event_size();
			nni_msgq_fini(q);
			nni_id_map_init(&im, 1, 100, false);
			REC(nni_id_set(&im, 1, &im));
			szent = first_event_size() / 8;
			nni_id_map_fini(&im);
			REC(nng_url_parse(&u, "tcp://127.0.0.1:1"));
			szurl = first_event_size();
			nng_url_free(u);
			if (nng_sub0_open(&s) == 0) {
				REC(nng_sub0_socket_subscribe(s, "x", 1));
				sztopic = first_event_size();
				nng_socket_close(s);
			}
			printf("sizes msg=%zu ptr=%zu msgq=%zu ent=%zu url=%zu topic=%zu\n", szmsg, sizeof(void *), szq, szent, szurl,
			    sztopic);
			continue;
		}
		if (strcmp(op, "end") == 0) {
			REC(cleanup());
			printf("end live=%ld/%ld", rec_live, rec_bytes);
			endl();
			continue;
		}
		int      i   = nt > 1 ? atoi(tok[1]) : 0;
		int      rv  = 0;
		char     val[40] = "-";
		size_t   len;
		uint8_t *d;

		// ---------------- lmq
		if (strcmp(op, "linit") == 0) {
			if (lq_live) {
				nni_lmq_fini(&lq);
			}
			REC(nni_lmq_init(&lq, (size_t) i));
			lq_live = 1;
			printf("rv=0");
			lstate();
			endl();
			continue;
		}
		if (op[0] == 'l' && !lq_live) {
			printf("noqueue\n");
			continue;
		}
		if (strcmp(op, "lput") == 0) {
			nng_msg *m = qmk(i);
			REC(rv = nni_lmq_put(&lq, m));
			if (rv != 0) {
				qrelease(i);
			}
			printf("rv=%d", rv);
			lstate();
			endl();
			continue;
		}
		if (strcmp(op, "lget") == 0) {
			nng_msg *m = NULL;
			REC(rv = nni_lmq_get(&lq, &m));
			if (rv == 0) {
				printf("rv=0 msg=%d", qid(m));
				qrelease(qid(m));
			} else {
				printf("rv=%d msg=-", rv);
			}
			lstate();
			endl();
			continue;
		}
		if (strcmp(op, "lflush") == 0) {
			REC(nni_lmq_flush(&lq));
			printf("rv=0");
			qfreed();
			lstate();
			endl();
			continue;
		}
		if (strcmp(op, "lresize") == 0) {
			REC(rv = nni_lmq_resize(&lq, (size_t) i));
			printf("rv=%d", rv);
			qfreed();
			lstate();
			endl();
			continue;
		}
		if (strcmp(op, "lfini") == 0) {
			REC(nni_lmq_fini(&lq));
			lq_live = 0;
			printf("rv=0");
			qfreed();
			endl();
			continue;
		}
		// ---------------- msgq
		if (strcmp(op, "qinit") == 0) {
			if (mq != NULL) {
				nni_msgq_fini(mq);
				mq = NULL;
			}
			REC(rv = nni_msgq_init(&mq, (unsigned) i));
			printf("rv=%d", rv);
			if (rv == 0) {
				qstate();
			}
			endl();
			continue;
		}
		if (op[0] == 'q' && mq == NULL) {
			printf("noqueue\n");
			continue;
		}
		if (strcmp(op, "qtryput") == 0) {
			nng_msg *m = qmk(i);
			REC(rv = nni_msgq_tryput(mq, m));
			if (rv != 0) {
				qrelease(i);
			}
			printf("rv=%d", rv);
			qfreed();
			qstate();
			endl();
			continue;
		}
		if (strcmp(op, "qresize") == 0) {
			REC(rv = nni_msgq_resize(mq, i));
			printf("rv=%d", rv);
			qfreed();
			qstate();
			endl();
			continue;
		}
		if (strcmp(op, "qfini") == 0) {
			REC(nni_msgq_fini(mq));
			mq = NULL;
			printf("rv=0");
			qfreed();
			endl();
			continue;
		}
		// ---------------- idmap
		uint64_t a = nt > 1 ? strtoull(tok[1], NULL, 16) : 0;
		uint64_t b = nt > 2 ? strtoull(tok[2], NULL, 16) : 0;
		if (strcmp(op, "iinit") == 0) {
			if (have_imap) {
				nni_id_map_fini(&imap);
			}
			nni_id_map_init(&imap, a, b, false);
			have_imap = 1;
			printf("rv=0");
			endl();
			continue;
		}
		if (op[0] == 'i' && strncmp(op, "insert", 6) != 0 && !have_imap) {
			printf("nomap\n");
			continue;
		}
		if (strcmp(op, "iset") == 0) {
			REC(rv = nni_id_set(&imap, a, (void *) (uintptr_t) b));
			printf("rv=%d cap=%u count=%u", rv, imap.id_cap, imap.id_count);
			endl();
			continue;
		}
		if (strcmp(op, "iget") == 0) {
			void *v;
			REC(v = nni_id_get(&imap, a));
			if (v == NULL) {
				printf("get=-");
			} else {
				printf("get=%llx", (unsigned long long) (uintptr_t) v);
			}
			endl();
			continue;
		}
		if (strcmp(op, "iremove") == 0) {
			REC(rv = nni_id_remove(&imap, a));
			printf("rv=%d cap=%u count=%u", rv, imap.id_cap, imap.id_count);
			endl();
			continue;
		}
		if (strcmp(op, "ialloc") == 0) {
			uint64_t id = 0;
			REC(rv = nni_id_alloc(&imap, &id, (void *) (uintptr_t) a));
			if (rv == 0) {
				printf("rv=0 id=%llx cap=%u count=%u", (unsigned long long) id, imap.id_cap, imap.id_count);
			} else {
				printf("rv=%d id=- cap=%u count=%u", rv, imap.id_cap, imap.id_count);
			}
			endl();
			continue;
		}
		if (strcmp(op, "icount") == 0) {
			printf("count=%u", nni_id_count(&imap));
			endl();
			continue;
		}
		if (strcmp(op, "ivisit") == 0) {
			// as a set: sorted by key
			uint64_t keys[4096];
			void    *vals[4096];
			uint32_t cur = 0;
			int      n   = 0;
			uint64_t k;
			void    *v;
			while (n < 4096 && nni_id_visit(&imap, &k, &v, &cur)) {
				keys[n] = k;
				vals[n] = v;
				n++;
			}
			for (int x = 1; x < n; x++) {
				for (int y = x; y > 0 && keys[y - 1] > keys[y]; y--) {
					uint64_t tk = keys[y];
					void    *tv = vals[y];
					keys[y]     = keys[y - 1];
					vals[y]     = vals[y - 1];
					keys[y - 1] = tk;
					vals[y - 1] = tv;
				}
			}
			printf("visit=");
			if (n == 0) {
				printf("-");
			}
			for (int x = 0; x < n; x++) {
				printf("%s%llx:%llx", x ? "," : "", (unsigned long long) keys[x], (unsigned long long) (uintptr_t) vals[x]);
			}
			endl();
			continue;
		}
		if (strcmp(op, "ifini") == 0) {
			REC(nni_id_map_fini(&imap));
			printf("rv=0 cap=%u count=%u", imap.id_cap, imap.id_count);
			have_imap = 0;
			endl();
			continue;
		}
		// ---------------- url
		if (strcmp(op, "uparse") == 0) {
			d       = unhex(tok[1], &len);
			char *s = malloc(len + 1);
			memcpy(s, d, len);
			s[len] = 0;
			free(d);
			if (url1 != NULL) {
				nng_url_free(url1);
				url1 = NULL;
			}
			REC(rv = nng_url_parse(&url1, s));
			free(s);
			if (rv != 0) {
				url1 = NULL;
			}
			ushow(rv, url1);
			endl();
			continue;
		}
		if (strcmp(op, "uclone") == 0) {
			if (url1 == NULL) {
				printf("nourl\n");
				continue;
			}
			if (url2 != NULL) {
				nng_url_free(url2);
				url2 = NULL;
			}
			REC(rv = nng_url_clone(&url2, url1));
			if (rv != 0) {
				url2 = NULL;
			}
			ushow(rv, url2);
			endl();
			continue;
		}
		if (strcmp(op, "ufree") == 0 || strcmp(op, "ufree2") == 0) {
			nng_url **up = strcmp(op, "ufree") == 0 ? &url1 : &url2;
			if (*up == NULL) {
				printf("nourl\n");
				continue;
			}
			REC(nng_url_free(*up));
			*up = NULL;
			printf("ok");
			endl();
			continue;
		}
		// ---------------- sub
		if (strcmp(op, "sopen") == 0) {
			if (have_ssock) {
				nng_socket_close(ssock);
			}
			rv         = nng_sub0_open(&ssock);
			have_ssock = (rv == 0);
			printf("rv=%d", rv);
			endl();
			continue;
		}
		if (op[0] == 's' && !have_ssock) {
			printf("nosock\n");
			continue;
		}
		if (strcmp(op, "ssub") == 0 || strcmp(op, "sunsub") == 0) {
			d = unhex(tok[1], &len);
			if (strcmp(op, "ssub") == 0) {
				REC(rv = nng_sub0_socket_subscribe(ssock, d, len));
			} else {
				REC(rv = nng_sub0_socket_unsubscribe(ssock, d, len));
			}
			free(d);
			printf("rv=%d", rv);
			endl();
			continue;
		}
		if (strcmp(op, "sprobe") == 0) {
			// membership, observed through the API off the record: unsubscribe tells
			d  = unhex(tok[1], &len);
			rv = nng_sub0_socket_unsubscribe(ssock, d, len);
			if (rv == 0) {
				silent = 1;
				(void) nng_sub0_socket_subscribe(ssock, d, len);
				silent = 0;
			}
			free(d);
			printf("has=%d", rv == 0);
			endl();
			continue;
		}
		if (strcmp(op, "sclose") == 0) {
			nng_socket_close(ssock);
			have_ssock = 0;
			printf("rv=0");
			endl();
			continue;
		}
		// ---------------- msg
		if (strcmp(op, "alloc") == 0) {
			if (slot[i]) {
				nng_msg_free(slot[i]);
			}
			slot[i] = NULL;
			REC(rv = nng_msg_alloc(&slot[i], strtoull(tok[2], NULL, 10)));
			if (rv != 0) {
				slot[i] = NULL;
			}
			mobs(rv, val, slot[i]);
			endl();
			continue;
		}
		if (slot[i] == NULL) {
			printf("noslot\n");
			continue;
		}
		nng_msg *m = slot[i];
		if (strcmp(op, "free") == 0) {
			REC(nng_msg_free(m));
			slot[i] = NULL;
			printf("ok");
			endl();
			continue;
		}
		if (strcmp(op, "dup") == 0) {
			int j = atoi(tok[2]);
			if (slot[j]) {
				nng_msg_free(slot[j]);
			}
			slot[j] = NULL;
			REC(rv = nng_msg_dup(&slot[j], m));
			if (rv != 0) {
				slot[j] = NULL;
			}
			mobs(rv, val, slot[j]);
			endl();
			continue;
		}
		if (strcmp(op, "unique") == 0 || strcmp(op, "pullup") == 0) {
			int      shared = atoi(tok[2]);
			int      pu     = strcmp(op, "pullup") == 0;
			nng_msg *r;
			if (shared) {
				nni_msg_clone(m); // the other owner's reference
			}
			if (pu) {
				REC(r = nni_msg_pull_up(m));
			} else {
				REC(r = nni_msg_unique(m));
			}
			if (pu && r == NULL) {
				// nni_msg_pull_up failed: the caller still owns its reference and
				// (like inproc) frees it
				REC(nng_msg_free(m));
			}
			if (shared) {
				// what is left of the original belongs to the other owner: off the record
				nng_msg_free(m);
			}
			slot[i] = r;
			mobs(r ? 0 : 2, val, r);
			endl();
			continue;
		}
#define BYTES_OP(name, fn)                 \
	if (strcmp(op, name) == 0) {       \
		d = unhex(tok[2], &len);   \
		REC(rv = fn(m, d, len));   \
		free(d);                   \
		mobs(rv, val, m);          \
		endl();                    \
		continue;                  \
	}
#define SIZE_OP(name, fn)                                        \
	if (strcmp(op, name) == 0) {                             \
		REC(rv = fn(m, strtoull(tok[2], NULL, 10)));     \
		mobs(rv, val, m);                                \
		endl();                                          \
		continue;                                        \
	}
		BYTES_OP("append", nng_msg_append)
		BYTES_OP("insert", nng_msg_insert)
		BYTES_OP("happend", nng_msg_header_append)
		BYTES_OP("hinsert", nng_msg_header_insert)
		SIZE_OP("trim", nng_msg_trim)
		SIZE_OP("chop", nng_msg_chop)
		SIZE_OP("htrim", nng_msg_header_trim)
		SIZE_OP("hchop", nng_msg_header_chop)
		SIZE_OP("realloc", nng_msg_realloc)
		SIZE_OP("reserve", nng_msg_reserve)
		if (strcmp(op, "clear") == 0) {
			nng_msg_clear(m);
			mobs(0, val, m);
			endl();
			continue;
		}
		if (strcmp(op, "hclear") == 0) {
			nng_msg_header_clear(m);
			mobs(0, val, m);
			endl();
			continue;
		}
		int      k = nt > 2 ? atoi(tok[2]) : 0;
		uint64_t v = nt > 3 ? strtoull(tok[3], NULL, 16) : 0;
#define PUT_OP(name, pfx)                                                                                             \
	if (strcmp(op, name) == 0) {                                                                                  \
		REC(rv = k == 2 ? pfx##_u16(m, (uint16_t) v) : k == 4 ? pfx##_u32(m, (uint32_t) v) : pfx##_u64(m, v)); \
		mobs(rv, val, m);                                                                                     \
		endl();                                                                                               \
		continue;                                                                                             \
	}
#define GET_OP(name, pfx)                                                                                         \
	if (strcmp(op, name) == 0) {                                                                              \
		uint16_t v16 = 0;                                                                                 \
		uint32_t v32 = 0;                                                                                 \
		uint64_t v64 = 0;                                                                                 \
		rv = k == 2 ? pfx##_u16(m, &v16) : k == 4 ? pfx##_u32(m, &v32) : pfx##_u64(m, &v64);              \
		if (rv == 0)                                                                                      \
			snprintf(val, sizeof(val), "%llx", (unsigned long long) (k == 2 ? v16 : k == 4 ? v32 : v64)); \
		mobs(rv, val, m);                                                                                 \
		endl();                                                                                           \
		continue;                                                                                         \
	}
		PUT_OP("appendu", nng_msg_append)
		PUT_OP("insertu", nng_msg_insert)
		PUT_OP("happendu", nng_msg_header_append)
		PUT_OP("hinsertu", nng_msg_header_insert)
		GET_OP("trimu", nng_msg_trim)
		GET_OP("chopu", nng_msg_chop)
		GET_OP("htrimu", nng_msg_header_trim)
		GET_OP("hchopu", nng_msg_header_chop)
		printf("badop %s\n", op);
	}
	cleanup();
	if (have_ssock) {
		nng_socket_close(ssock);
	}
	qreset();
	nng_fini();
	return 0;
}
