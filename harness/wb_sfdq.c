// wb_sfdq.c: driver for the socket-fd stream listener's hand-over queue (src/core/sockfd.c), C14.
// Public stream API only: nng_stream_listener_alloc("socket://"), NNG_OPT_SOCKET_FD,
// nng_stream_listener_accept/close/stop.  Every descriptor handed to the listener is one end of a
// socketpair whose other end has already written TAGN copies of a tag byte (= the pair's index),
// so each accepted stream identifies its descriptor by reading one byte -- even when the same
// descriptor is (wrongly) handed out more than once.  All pairs of a case are created before its
// first command, so descriptor numbers are not reused inside a case and "closed" can be read off
// fcntl(F_GETFD).
//
//   mark <k>          new case (everything released)
//   setfd f<i>        nng_stream_listener_set_int(l, NNG_OPT_SOCKET_FD, fd of pair i)
//   accept a<j>       nng_stream_listener_accept(l, aio j)
//   cancel a<j>       nng_aio_cancel(aio j)
//   close | stop      nng_stream_listener_close / _stop
//   poll
//   probe             the application opens a descriptor of its own (dup of stdout: it gets the lowest free number,
//                     e.g. one the listener has just closed); later lines show probe=<o|c> (still open / closed)
// observation after every command (library quiescent, hook H2q):
//   rv=<n> done=a<j>:<rv>[:f<i>],... fds=f<i>:<q|d|c>,...
//     q = handed over, still open, not delivered; d = delivered to an accept; c = closed
#define _GNU_SOURCE
#include <errno.h>
#include <fcntl.h>
#include <sched.h>
#include <sys/socket.h>
#include <time.h>
#include <unistd.h>

#include "core/nng_impl.h"
#include "wb_common.h"

extern int nng_verif_inflight(void);

#define NPAIR 48
#define NAIO 48
#define TAGN 64

static nng_stream_listener *lst;
static int                  pair_fd[NPAIR], pair_peer[NPAIR];
static int                  handed[NPAIR];   // set_fd returned 0
static int                  deliv[NPAIR];    // times delivered
static int                  was_closed[NPAIR]; // seen closed once (its number may be reused by the probe later)
static nng_aio             *aios[NAIO];
static int                  aio_pending[NAIO], aio_done[NAIO], aio_rv[NAIO], aio_tag[NAIO];
static nng_stream          *streams[NAIO * 4];
static int                  nstreams;
static nni_mtx              cb_mtx;
static int                  probe_fd = -1;

static int
quiesce(void)
{
	int calm = 0;
	for (int i = 0; i < 2000000; i++) {
		if (nng_verif_inflight() == 0) {
			if (++calm >= 3) return (0);
			sched_yield();
		} else {
			calm = 0;
			if (i > 2000) {
				struct timespec ts = { 0, 5000 };
				nanosleep(&ts, NULL);
			} else {
				sched_yield();
			}
		}
	}
	return (-1);
}

static void
acc_cb(void *arg)
{
	int k = (int) (intptr_t) arg;
	nni_mtx_lock(&cb_mtx);
	aio_rv[k]      = nng_aio_result(aios[k]);
	aio_tag[k]     = -1;
	aio_done[k]    = 1;
	aio_pending[k] = 0;
	if (aio_rv[k] == 0 && nstreams < NAIO * 4) {
		streams[nstreams++] = nng_aio_get_output(aios[k], 0);
		aio_tag[k]          = -2 - (nstreams - 1); // stream index, tag read by the main thread
	}
	nni_mtx_unlock(&cb_mtx);
}

// read one tag byte from an accepted stream (the bytes are already in the socket buffer)
static int
read_tag(nng_stream *s)
{
	nng_aio *a;
	nng_iov  iov;
	uint8_t  b   = 0xff;
	int      tag = -1;
	if (nng_aio_alloc(&a, NULL, NULL) != 0) return -1;
	nng_aio_set_timeout(a, 500);
	iov.iov_buf = &b;
	iov.iov_len = 1;
	nng_aio_set_iov(a, 1, &iov);
	nng_stream_recv(s, a);
	nng_aio_wait(a);
	if (nng_aio_result(a) == 0 && nng_aio_count(a) == 1) tag = b;
	nng_aio_free(a);
	return tag;
}

static void
release_all(void)
{
	if (lst != NULL) {
		nng_stream_listener_close(lst);
		nng_stream_listener_stop(lst);
	}
	if (probe_fd >= 0) {
		close(probe_fd);
		probe_fd = -1;
	}
	for (int k = 0; k < NAIO; k++) {
		if (aios[k] != NULL) {
			nng_aio_stop(aios[k]);
			nng_aio_free(aios[k]);
			aios[k] = NULL;
		}
		aio_pending[k] = aio_done[k] = 0;
	}
	quiesce();
	for (int i = 0; i < nstreams; i++) {
		nng_stream_close(streams[i]);
		nng_stream_stop(streams[i]);
		nng_stream_free(streams[i]);
	}
	nstreams = 0;
	if (lst != NULL) {
		nng_stream_listener_free(lst);
		lst = NULL;
	}
	quiesce();
	for (int i = 0; i < NPAIR; i++) {
		if (pair_peer[i] >= 0) close(pair_peer[i]);
		// our end: owned by the listener / a stream if handed over (closed by them); ours otherwise
		if (pair_fd[i] >= 0 && !was_closed[i] && (!handed[i] || fcntl(pair_fd[i], F_GETFD) != -1)) close(pair_fd[i]);
		pair_fd[i] = pair_peer[i] = -1;
		handed[i] = deliv[i] = was_closed[i] = 0;
	}
}

static int
new_case(void)
{
	uint8_t tags[TAGN];
	for (int i = 0; i < NPAIR; i++) {
		int sv[2];
		if (socketpair(AF_UNIX, SOCK_STREAM, 0, sv) != 0) return -1;
		pair_fd[i]   = sv[0];
		pair_peer[i] = sv[1];
		memset(tags, i, sizeof(tags));
		if (write(sv[1], tags, sizeof(tags)) != (ssize_t) sizeof(tags)) return -1;
	}
	return nng_stream_listener_alloc(&lst, "socket://") == 0 && nng_stream_listener_listen(lst) == 0 ? 0 : -1;
}

static void
observe(int rv)
{
	int q = quiesce();
	// tags of streams accepted by this command
	nni_mtx_lock(&cb_mtx);
	for (int k = 0; k < NAIO; k++) {
		if (aio_done[k] && aio_tag[k] <= -2) {
			int si = -2 - aio_tag[k];
			nni_mtx_unlock(&cb_mtx);
			int tag = read_tag(streams[si]);
			nni_mtx_lock(&cb_mtx);
			aio_tag[k] = tag;
			if (tag >= 0 && tag < NPAIR) deliv[tag]++;
		}
	}
	printf("rv=%d%s done=", rv, q != 0 ? " NOT-QUIESCENT" : "");
	int first = 1;
	for (int k = 0; k < NAIO; k++) {
		if (!aio_done[k]) continue;
		if (aio_rv[k] == 0)
			printf("%sa%d:0:f%d", first ? "" : ",", k, aio_tag[k]);
		else
			printf("%sa%d:%d", first ? "" : ",", k, aio_rv[k]);
		first       = 0;
		aio_done[k] = 0;
	}
	nni_mtx_unlock(&cb_mtx);
	if (first) printf("-");
	printf(" fds=");
	first = 1;
	for (int i = 0; i < NPAIR; i++) {
		if (!handed[i]) continue;
		int closed = was_closed[i] || (fcntl(pair_fd[i], F_GETFD) == -1 && errno == EBADF);
		was_closed[i] = closed;
		printf("%sf%d:%c", first ? "" : ",", i, closed ? 'c' : (deliv[i] > 0 ? 'd' : 'q'));
		if (deliv[i] > 1) printf("x%d", deliv[i]);
		first = 0;
	}
	if (first) printf("-");
	if (probe_fd >= 0) printf(" probe=%c", (fcntl(probe_fd, F_GETFD) == -1 && errno == EBADF) ? 'c' : 'o');
	printf("\n");
	fflush(stdout);
}

int
main(void)
{
	static char line[256];
	char       *tok[4];
	nng_init(NULL);
	nni_mtx_init(&cb_mtx);
	for (int i = 0; i < NPAIR; i++) pair_fd[i] = pair_peer[i] = -1;
	while (fgets(line, sizeof(line), stdin) != NULL) {
		int   nt = 0;
		char *sp = NULL;
		for (char *t = strtok_r(line, " \n", &sp); t != NULL && nt < 4; t = strtok_r(NULL, " \n", &sp)) tok[nt++] = t;
		if (nt == 0 || tok[0][0] == '#') continue;
		const char *op = tok[0];
		int         rv = 0;
		if (strcmp(op, "mark") == 0) {
			release_all();
			printf("mark %s\n", tok[1]);
			fflush(stdout);
			if (new_case() != 0) {
				printf("SETUP-FAILED\n");
				return 3;
			}
			continue;
		}
		if (strcmp(op, "setfd") == 0) {
			int i = atoi(tok[1] + 1);
			rv    = nng_stream_listener_set_int(lst, NNG_OPT_SOCKET_FD, pair_fd[i]);
			if (rv == 0) handed[i] = 1;
		} else if (strcmp(op, "accept") == 0) {
			int k = atoi(tok[1] + 1);
			if (aio_pending[k]) {
				rv = NNG_EBUSY;
			} else {
				if (aios[k] == NULL) nng_aio_alloc(&aios[k], acc_cb, (void *) (intptr_t) k);
				nng_aio_set_timeout(aios[k], NNG_DURATION_INFINITE);
				aio_pending[k] = 1;
				nng_stream_listener_accept(lst, aios[k]);
			}
		} else if (strcmp(op, "cancel") == 0) {
			int k = atoi(tok[1] + 1);
			if (aios[k] != NULL) nng_aio_cancel(aios[k]);
		} else if (strcmp(op, "close") == 0) {
			nng_stream_listener_close(lst);
		} else if (strcmp(op, "stop") == 0) {
			nng_stream_listener_stop(lst);
		} else if (strcmp(op, "probe") == 0) {
			if (probe_fd < 0) probe_fd = dup(1);
		} else if (strcmp(op, "poll") == 0) {
			rv = 0;
		} else {
			printf("badop %s\n", op);
			fflush(stdout);
			continue;
		}
		observe(rv);
	}
	release_all();
	fflush(stdout);
	nng_fini();
	return 0;
}
