// vtran.h: a deterministic SP transport for the verification harness.
// Registered under the URL scheme "telnet" (present in nng's scheme table,
// without a transport of its own).  Listener only.  Every transport-level
// event is an explicit call from the harness thread:
//   vt_connect(ep, peer)   a new pipe appears on the listener
//   vt_sent(p, rv)         the oldest pending pipe send completes
//   vt_inject(p, bytes)    a whole wire message arrives (queued until a recv is posted)
//   vt_drop(p)             the peer goes away (pending / later recv and send fail NNG_ECONNSHUT)
// and everything the protocol hands to the transport stays observable.
#ifndef VTRAN_H
#define VTRAN_H
#include "core/nng_impl.h"

#define VT_MAXPIPES 256
#define VT_MAXEPS 16

typedef struct vt_pipe vt_pipe;
typedef struct vt_ep   vt_ep;
typedef struct vt_buf  vt_buf;

struct vt_buf {
	vt_buf  *next;
	size_t   len;
	uint8_t *data;
};

struct vt_pipe {
	nni_pipe *npipe;
	vt_ep    *ep;
	uint16_t  peer;
	int       idx;
	uint32_t  id;
	bool      closed; // p_close was called
	bool      dead;   // peer dropped
	nni_list  sendq;  // aios given to p_send, oldest first
	nni_list  recvq;  // aios given to p_recv
	vt_buf   *in_head, *in_tail;
	nni_list_node node;
};

struct vt_ep {
	nni_listener *nlistener;
	nni_aio      *useraio;
	bool          closed;
	nni_list      waitpipes;
	int           idx;
};

static nni_mtx  vt_mtx;
static vt_pipe *vt_pipes[VT_MAXPIPES]; // NULL once finalized
static int      vt_pipe_state[VT_MAXPIPES]; // 0 none, 1 open, 2 closed, 3 gone
static uint32_t vt_pipe_ids[VT_MAXPIPES];
static int      vt_npipes;
static vt_ep   *vt_eps[VT_MAXEPS];
static vt_ep   *vt_last_ep;

static void
vt_fail_all(nni_list *l, nng_err rv)
{
	nni_aio *aio;
	while ((aio = nni_list_first(l)) != NULL) {
		nni_aio_list_remove(aio);
		nni_aio_finish_error(aio, rv);
	}
}

static void
vt_pipe_close(void *arg)
{
	vt_pipe *p = arg;
	nni_mtx_lock(&vt_mtx);
	p->closed = true;
	if (p->idx >= 0 && vt_pipe_state[p->idx] == 1) vt_pipe_state[p->idx] = 2;
	vt_fail_all(&p->sendq, NNG_ECLOSED);
	vt_fail_all(&p->recvq, NNG_ECLOSED);
	nni_mtx_unlock(&vt_mtx);
}

static void
vt_pipe_stop(void *arg)
{
	vt_pipe *p = arg;
	nni_mtx_lock(&vt_mtx);
	if (p->ep != NULL) nni_list_node_remove(&p->node);
	nni_mtx_unlock(&vt_mtx);
}

static int
vt_pipe_init(void *arg, nni_pipe *npipe)
{
	vt_pipe *p = arg;
	p->npipe   = npipe;
	p->idx     = -1;
	nni_aio_list_init(&p->sendq);
	nni_aio_list_init(&p->recvq);
	NNI_LIST_NODE_INIT(&p->node);
	return (0);
}

static void
vt_pipe_fini(void *arg)
{
	vt_pipe *p = arg;
	nni_mtx_lock(&vt_mtx);
	while (p->in_head != NULL) {
		vt_buf *b  = p->in_head;
		p->in_head = b->next;
		free(b->data);
		free(b);
	}
	if (p->idx >= 0) {
		vt_pipes[p->idx]      = NULL;
		vt_pipe_state[p->idx] = 3;
	}
	nni_mtx_unlock(&vt_mtx);
}

static void
vt_pipe_cancel(nni_aio *aio, void *arg, nng_err rv)
{
	NNI_ARG_UNUSED(arg);
	nni_mtx_lock(&vt_mtx);
	if (nni_aio_list_active(aio)) {
		nni_aio_list_remove(aio);
		nni_aio_finish_error(aio, rv);
	}
	nni_mtx_unlock(&vt_mtx);
}

static void
vt_pipe_send(void *arg, nni_aio *aio)
{
	vt_pipe *p = arg;
	nni_mtx_lock(&vt_mtx);
	if (!nni_aio_start(aio, vt_pipe_cancel, p)) {
		nni_mtx_unlock(&vt_mtx);
		return;
	}
	if (p->closed) {
		nni_aio_finish_error(aio, NNG_ECLOSED);
	} else if (p->dead) {
		nni_aio_finish_error(aio, NNG_ECONNSHUT);
	} else {
		nni_aio_list_append(&p->sendq, aio);
	}
	nni_mtx_unlock(&vt_mtx);
}

// deliver the oldest inbox entry to the oldest receive (called with vt_mtx held)
static void
vt_pipe_match(vt_pipe *p)
{
	nni_aio *aio;
	while ((p->in_head != NULL) && ((aio = nni_list_first(&p->recvq)) != NULL)) {
		vt_buf  *b = p->in_head;
		nni_msg *m;
		if (nni_msg_alloc(&m, b->len) != 0) {
			nni_aio_list_remove(aio);
			nni_aio_finish_error(aio, NNG_ENOMEM);
			continue;
		}
		if (b->len > 0) memcpy(nni_msg_body(m), b->data, b->len);
		p->in_head = b->next;
		if (p->in_head == NULL) p->in_tail = NULL;
		nni_aio_list_remove(aio);
		nni_aio_set_msg(aio, m);
		nni_aio_finish(aio, 0, b->len);
		free(b->data);
		free(b);
	}
}

static void
vt_pipe_recv(void *arg, nni_aio *aio)
{
	vt_pipe *p = arg;
	nni_mtx_lock(&vt_mtx);
	if (!nni_aio_start(aio, vt_pipe_cancel, p)) {
		nni_mtx_unlock(&vt_mtx);
		return;
	}
	if (p->closed) {
		nni_aio_finish_error(aio, NNG_ECLOSED);
	} else if (p->dead && p->in_head == NULL) {
		nni_aio_finish_error(aio, NNG_ECONNSHUT);
	} else {
		nni_aio_list_append(&p->recvq, aio);
		vt_pipe_match(p);
	}
	nni_mtx_unlock(&vt_mtx);
}

static uint16_t
vt_pipe_peer(void *arg)
{
	return (((vt_pipe *) arg)->peer);
}

static nng_err
vt_pipe_getopt(void *arg, const char *name, void *buf, size_t *szp, nni_type t)
{
	NNI_ARG_UNUSED(arg);
	NNI_ARG_UNUSED(name);
	NNI_ARG_UNUSED(buf);
	NNI_ARG_UNUSED(szp);
	NNI_ARG_UNUSED(t);
	return (NNG_ENOTSUP);
}

static nng_sockaddr vt_nowhere;
static const nng_sockaddr *
vt_pipe_addr(void *arg)
{
	NNI_ARG_UNUSED(arg);
	return (&vt_nowhere);
}

static size_t
vt_pipe_size(void)
{
	return (sizeof(vt_pipe));
}

// ---- listener ----
static nng_err
vt_ep_init(void *arg, nng_url *url, nni_listener *nl)
{
	vt_ep *ep = arg;
	NNI_ARG_UNUSED(url);
	ep->nlistener = nl;
	NNI_LIST_INIT(&ep->waitpipes, vt_pipe, node);
	nni_mtx_lock(&vt_mtx);
	ep->idx = -1;
	for (int i = 0; i < VT_MAXEPS; i++) {
		if (vt_eps[i] == NULL) {
			ep->idx   = i;
			vt_eps[i] = ep;
			break;
		}
	}
	vt_last_ep = ep;
	nni_mtx_unlock(&vt_mtx);
	return (ep->idx < 0 ? NNG_ENOMEM : NNG_OK);
}
static void
vt_ep_fini(void *arg)
{
	vt_ep *ep = arg;
	nni_mtx_lock(&vt_mtx);
	if (ep->idx >= 0) vt_eps[ep->idx] = NULL;
	if (vt_last_ep == ep) vt_last_ep = NULL;
	nni_mtx_unlock(&vt_mtx);
}
static nng_err
vt_ep_bind(void *arg, nng_url *url)
{
	NNI_ARG_UNUSED(arg);
	NNI_ARG_UNUSED(url);
	return (NNG_OK);
}
static void
vt_ep_cancel(nni_aio *aio, void *arg, nng_err rv)
{
	vt_ep *ep = arg;
	nni_mtx_lock(&vt_mtx);
	if (ep->useraio == aio) {
		ep->useraio = NULL;
		nni_aio_finish_error(aio, rv);
	}
	nni_mtx_unlock(&vt_mtx);
}
static void
vt_ep_match(vt_ep *ep)
{
	vt_pipe *p;
	nni_aio *aio;
	if (((aio = ep->useraio) == NULL) || ((p = nni_list_first(&ep->waitpipes)) == NULL)) {
		return;
	}
	nni_list_remove(&ep->waitpipes, p);
	ep->useraio = NULL;
	nni_aio_set_output(aio, 0, p->npipe);
	nni_aio_finish(aio, 0, 0);
}
static void
vt_ep_accept(void *arg, nni_aio *aio)
{
	vt_ep *ep = arg;
	nni_mtx_lock(&vt_mtx);
	if (ep->closed) {
		nni_mtx_unlock(&vt_mtx);
		nni_aio_finish_error(aio, NNG_ECLOSED);
		return;
	}
	if (ep->useraio != NULL) {
		nni_mtx_unlock(&vt_mtx);
		nni_aio_finish_error(aio, NNG_EBUSY);
		return;
	}
	if (!nni_aio_start(aio, vt_ep_cancel, ep)) {
		nni_mtx_unlock(&vt_mtx);
		return;
	}
	ep->useraio = aio;
	vt_ep_match(ep);
	nni_mtx_unlock(&vt_mtx);
}
static void
vt_ep_close(void *arg)
{
	vt_ep   *ep = arg;
	vt_pipe *p;
	nni_mtx_lock(&vt_mtx);
	ep->closed = true;
	NNI_LIST_FOREACH (&ep->waitpipes, p) {
		p->closed = true;
	}
	if (ep->useraio != NULL) {
		nni_aio_finish_error(ep->useraio, NNG_ECLOSED);
		ep->useraio = NULL;
	}
	nni_mtx_unlock(&vt_mtx);
}
static void
vt_ep_stop(void *arg)
{
	NNI_ARG_UNUSED(arg);
}
static nng_err
vt_ep_getopt(void *arg, const char *name, void *buf, size_t *szp, nni_type t)
{
	NNI_ARG_UNUSED(arg);
	NNI_ARG_UNUSED(name);
	NNI_ARG_UNUSED(buf);
	NNI_ARG_UNUSED(szp);
	NNI_ARG_UNUSED(t);
	return (NNG_ENOTSUP);
}
static nng_err
vt_ep_setopt(void *arg, const char *name, const void *buf, size_t sz, nni_type t)
{
	NNI_ARG_UNUSED(arg);
	NNI_ARG_UNUSED(buf);
	NNI_ARG_UNUSED(sz);
	NNI_ARG_UNUSED(t);
	// socket-level options are offered to every endpoint; accept the common ones silently
	if (strcmp(name, NNG_OPT_RECVMAXSZ) == 0) return (NNG_OK);
	return (NNG_ENOTSUP);
}
static void
vt_tran_init(void)
{
}
static void
vt_tran_fini(void)
{
}

static nni_sp_pipe_ops vt_pipe_ops = {
	.p_size      = vt_pipe_size,
	.p_init      = vt_pipe_init,
	.p_fini      = vt_pipe_fini,
	.p_stop      = vt_pipe_stop,
	.p_send      = vt_pipe_send,
	.p_recv      = vt_pipe_recv,
	.p_close     = vt_pipe_close,
	.p_peer      = vt_pipe_peer,
	.p_getopt    = vt_pipe_getopt,
	.p_peer_addr = vt_pipe_addr,
	.p_self_addr = vt_pipe_addr,
};
static nni_sp_listener_ops vt_listener_ops = {
	.l_size   = sizeof(vt_ep),
	.l_init   = vt_ep_init,
	.l_fini   = vt_ep_fini,
	.l_bind   = vt_ep_bind,
	.l_accept = vt_ep_accept,
	.l_close  = vt_ep_close,
	.l_stop   = vt_ep_stop,
	.l_getopt = vt_ep_getopt,
	.l_setopt = vt_ep_setopt,
};
static nni_sp_tran vt_tran = {
	.tran_scheme   = "telnet",
	.tran_dialer   = NULL,
	.tran_listener = &vt_listener_ops,
	.tran_pipe     = &vt_pipe_ops,
	.tran_init     = vt_tran_init,
	.tran_fini     = vt_tran_fini,
};

static void
vt_register(void)
{
	nni_mtx_init(&vt_mtx);
	nni_sp_tran_register(&vt_tran);
}

// ---- harness-side events ----
extern int nng_verif_inflight(void);

// wait until the library has no queued task or reap request; returns 0, or -1 on a 10 s timeout
static int
vt_quiesce(void)
{
	int calm = 0;
	for (int i = 0; i < 2000000; i++) {
		if (nng_verif_inflight() == 0) {
			if (++calm >= 3) return (0);
			sched_yield();
		} else {
			calm = 0;
			if (i > 2000) {
				struct timespec ts = { 0, 5000 };
				nanosleep(&ts, NULL);
			} else {
				sched_yield();
			}
		}
	}
	return (-1);
}

// returns the new pipe's index, or -(error)
static int
vt_connect(vt_ep *ep, uint16_t peer)
{
	vt_pipe *p;
	int      rv;
	if ((rv = nni_pipe_alloc_listener((void **) &p, ep->nlistener)) != 0) {
		return (-rv);
	}
	nni_mtx_lock(&vt_mtx);
	p->ep                    = ep;
	p->peer                  = peer;
	p->idx                   = vt_npipes;
	p->id                    = nni_pipe_id(p->npipe);
	vt_pipes[vt_npipes]      = p;
	vt_pipe_ids[vt_npipes]   = p->id;
	vt_pipe_state[vt_npipes] = 1;
	vt_npipes++;
	nni_list_append(&ep->waitpipes, p);
	vt_ep_match(ep);
	rv = p->idx;
	nni_mtx_unlock(&vt_mtx);
	return (rv);
}

// complete the oldest pending send of pipe idx with rv (0: message consumed)
static int
vt_sent(int idx, nng_err rv)
{
	vt_pipe *p;
	nni_aio *aio;
	nni_mtx_lock(&vt_mtx);
	if ((p = vt_pipes[idx]) == NULL || (aio = nni_list_first(&p->sendq)) == NULL) {
		nni_mtx_unlock(&vt_mtx);
		return (-1);
	}
	nni_aio_list_remove(aio);
	if (rv == 0) {
		nni_msg *m = nni_aio_get_msg(aio);
		size_t   n = nni_msg_len(m);
		nni_aio_set_msg(aio, NULL);
		nni_msg_free(m);
		nni_aio_finish(aio, 0, n);
	} else {
		nni_aio_finish_error(aio, rv);
	}
	nni_mtx_unlock(&vt_mtx);
	return (0);
}

static int
vt_inject(int idx, const uint8_t *data, size_t len)
{
	vt_pipe *p;
	vt_buf  *b;
	nni_mtx_lock(&vt_mtx);
	if ((p = vt_pipes[idx]) == NULL || p->closed) {
		nni_mtx_unlock(&vt_mtx);
		return (-1);
	}
	b       = calloc(1, sizeof(*b));
	b->len  = len;
	b->data = malloc(len + 1);
	memcpy(b->data, data, len);
	if (p->in_tail != NULL) {
		p->in_tail->next = b;
	} else {
		p->in_head = b;
	}
	p->in_tail = b;
	vt_pipe_match(p);
	nni_mtx_unlock(&vt_mtx);
	return (0);
}

static int
vt_drop(int idx)
{
	vt_pipe *p;
	nni_mtx_lock(&vt_mtx);
	if ((p = vt_pipes[idx]) == NULL) {
		nni_mtx_unlock(&vt_mtx);
		return (-1);
	}
	p->dead = true;
	if (p->in_head == NULL) vt_fail_all(&p->recvq, NNG_ECONNSHUT);
	vt_fail_all(&p->sendq, NNG_ECONNSHUT);
	nni_mtx_unlock(&vt_mtx);
	return (0);
}
#endif
