// wb_opkinds.c: REAL operation kinds of the library under disruption (C02).
//
// One scenario per input line:   <id> cmd ; cmd ; cmd ...
// A scenario sets up objects (sockets, contexts, stream dialers/listeners, connected
// streams), allocates user aios, applies disruptions before and after submitting real
// operations on them, waits, cleans up, and prints for every user aio what was observed:
//   - the harness' own events: submission, callback (result), callback return, cancel /
//     abort / stop by the user, return of nng_aio_stop, close of an object;
//   - the H2 trace records of the framework (src/core/aio.c, NNG_VERIF) for that aio:
//     nni_aio_start accepted / refused, finish, stop/close/fini section, expiry.
// Both are totally ordered by the trace's own sequence numbers: every harness event is
// logged THROUGH the trace, as an nng_aio_abort(marker, n) on a private marker aio that
// is never started (kind VT_ABORT, arg = event number).  Python (checks/c02_opkinds.py)
// turns the per-aio order into the event alphabet of Core/ProvContract.v and feeds the
// extracted monitor; it also applies the liveness / plausibility oracle.
//
// Every scenario runs under a watchdog; a hang, a panic (SIGABRT) or a sanitizer
// report ends the process after dumping what was observed so far, and the Python side
// attributes it to the scenario whose BEGIN has no END.
#define _GNU_SOURCE
#include <pthread.h>
#include <sched.h>
#include <signal.h>
#include <sys/socket.h>
#include <time.h>
#include <unistd.h>

#include "core/nng_impl.h"
#include "wb_common.h"

extern int  nng_verif_inflight(void);
extern void nng_verif_trace_start(void);
extern int  nng_verif_trace_stop(void (*)(unsigned, int, void *, const unsigned char *, int, int));

enum { EV_SUBMIT = 1, EV_CB, EV_CBDONE, EV_UABORT, EV_USTOP, EV_STOPRET, EV_UCLOSE, EV_USET };

#define NSLOT 8
#define NAIO 12
#define MAXEV 4096
#define MAXRES 24

typedef struct {
	int      kind, idx, rv;
	long long t;
} hev;
static hev             evs[MAXEV];
static int             nev;
static pthread_mutex_t ev_mtx = PTHREAD_MUTEX_INITIALIZER;
static nng_aio        *marker;

// tracked user operation = one user aio
enum { OP_NONE = 0, OP_RECV, OP_SEND, OP_CRECV, OP_CSEND, OP_SLEEP, OP_SDIAL, OP_SACCEPT, OP_SSEND, OP_SRECV, OP_DSTART, OP_DEVICE };
typedef struct {
	nng_aio *aio;
	int      idx;
	int      op, a, b, len; // operation, object slots, length / ms
	int      resub_left;
	volatile int nsub, ncb, ndone;
	int      res[MAXRES];
	long long tsub[MAXRES], tcb[MAXRES];
	uint8_t *buf;
} uop;
static uop ops[NAIO];

static nng_socket           socks[NSLOT];
static int                  sock_open[NSLOT];
static volatile int         sock_pipes[NSLOT];
static nng_ctx              ctxs[NSLOT];
static int                  ctx_open[NSLOT];
static nng_stream_dialer   *sds[NSLOT];
static nng_stream_listener *sls[NSLOT];
static char                 sl_url[NSLOT][160];
static nng_stream          *sts[NSLOT];
static nng_dialer           nds[NSLOT];
static int                  nd_open[NSLOT];
static nng_listener         sock_lst[NSLOT];
static char                 sock_url[NSLOT][160];
// streams produced by tracked dials / accepts (closed and freed at cleanup)
static nng_stream     *extra[256];
static int             nextra;
static pthread_mutex_t extra_mtx = PTHREAD_MUTEX_INITIALIZER;

static void add_extra(nng_stream *s);
// untracked background dials / accepts (their streams go to extra[])
static nng_aio *bg[64];
static int      nbg;
static void
bg_cb(void *arg)
{
	nng_aio *a = *(nng_aio **) arg;
	if (nng_aio_result(a) == 0) add_extra(nng_aio_get_output(a, 0));
}

static volatile long long wd_deadline; // watchdog (ms, nng_clock); 0 = off
static char               cur_id[32] = "-";
static char               cur_cmd[256];
static volatile int       dumped;

static void
mark(int kind, int idx, int rv)
{
	int n;
	pthread_mutex_lock(&ev_mtx);
	n = nev;
	if (nev < MAXEV) {
		evs[nev].kind = kind;
		evs[nev].idx  = idx;
		evs[nev].rv   = rv;
		evs[nev].t    = (long long) nng_clock();
		nev++;
	}
	pthread_mutex_unlock(&ev_mtx);
	// the trace record that orders this event among the framework's records
	nng_aio_abort(marker, (nng_err) (n + 1));
}

static void
trace_cb(unsigned seq, int kind, void *aio, const unsigned char *f, int result, int arg)
{
	if (aio == (void *) marker) {
		if (kind == 6 && arg >= 1 && arg <= nev) {
			hev *e = &evs[arg - 1];
			printf("E %u %d %d %d %lld\n", seq, e->kind, e->idx, e->rv, e->t);
		}
		return;
	}
	for (int i = 0; i < NAIO; i++) {
		if (ops[i].aio != NULL && (void *) ops[i].aio == aio) {
			printf("T %u %d %d %d%d%d%d%d%d%d%d%d %d %d\n", seq, kind, i, f[0], f[1], f[2], f[3], f[4], f[5], f[6], f[7], f[8], result, arg);
			return;
		}
	}
}

static void
snap(const char *tag)
{
	for (int i = 0; i < NAIO; i++) {
		if (ops[i].aio == NULL) continue;
		printf("%s a%d sub=%d cb=%d done=%d res=", tag, i, ops[i].nsub, ops[i].ncb, ops[i].ndone);
		int n = ops[i].ncb < MAXRES ? ops[i].ncb : MAXRES;
		for (int k = 0; k < n; k++) printf("%s%d", k ? "," : "", ops[i].res[k]);
		if (n == 0) printf("-");
		printf(" t=");
		int ns = ops[i].nsub < MAXRES ? ops[i].nsub : MAXRES;
		for (int k = 0; k < ns; k++) printf("%s%lld:%lld", k ? "," : "", ops[i].tsub[k], k < n ? ops[i].tcb[k] : -1LL);
		if (ns == 0) printf("-");
		printf("\n");
	}
	fflush(stdout);
}

static void
dump_trace(void)
{
	if (__atomic_exchange_n(&dumped, 1, __ATOMIC_SEQ_CST)) return;
	int n = nng_verif_trace_stop(trace_cb);
	printf("TRACE %d events=%d\n", n, nev);
	fflush(stdout);
}

static void
on_abort(int sig)
{
	(void) sig;
	signal(SIGABRT, SIG_DFL);
	printf("PANIC %s cmd=%s\n", cur_id, cur_cmd);
	snap("OP");
	dump_trace();
	fflush(stdout);
	_exit(96);
}

static void *
watchdog(void *arg)
{
	(void) arg;
	for (;;) {
		struct timespec ts = { 0, 20 * 1000 * 1000 };
		nanosleep(&ts, NULL);
		long long dl = wd_deadline;
		if (dl != 0 && (long long) nng_clock() > dl) {
			printf("HANG %s cmd=%s\n", cur_id, cur_cmd);
			fflush(stdout);
			if (getenv("WB_HANG_HOLD") != NULL) { // keep the process for a debugger
				sleep((unsigned) atoi(getenv("WB_HANG_HOLD")));
			}
			snap("OH");
			dump_trace();
			fflush(stdout);
			_exit(97);
		}
	}
	return NULL;
}

static int
quiesce(void)
{
	int calm = 0;
	for (int i = 0; i < 2000000; i++) {
		if (nng_verif_inflight() == 0) {
			if (++calm >= 3) return 0;
			sched_yield();
		} else {
			calm = 0;
			if (i > 500) {
				struct timespec ts = { 0, 20000 };
				nanosleep(&ts, NULL);
			} else {
				sched_yield();
			}
		}
	}
	return -1;
}

static void
add_extra(nng_stream *s)
{
	if (s == NULL) return;
	pthread_mutex_lock(&extra_mtx);
	if (nextra < 256) {
		extra[nextra++] = s;
		s               = NULL;
	}
	pthread_mutex_unlock(&extra_mtx);
	if (s != NULL) { // overflow: release right away
		nng_stream_close(s);
		nng_stream_stop(s);
		nng_stream_free(s);
	}
}

static void
do_submit(uop *u)
{
	nng_msg *m;
	nng_iov  iov;
	mark(EV_SUBMIT, u->idx, 0);
	if (u->nsub < MAXRES) u->tsub[u->nsub] = (long long) nng_clock();
	__atomic_add_fetch(&u->nsub, 1, __ATOMIC_SEQ_CST);
	switch (u->op) {
	case OP_RECV:
		nng_socket_recv(socks[u->a], u->aio);
		break;
	case OP_SEND:
		m = NULL;
		nng_msg_alloc(&m, (size_t) u->len);
		nng_aio_set_msg(u->aio, m);
		nng_socket_send(socks[u->a], u->aio);
		break;
	case OP_CRECV:
		nng_ctx_recv(ctxs[u->a], u->aio);
		break;
	case OP_CSEND:
		m = NULL;
		nng_msg_alloc(&m, (size_t) u->len);
		nng_aio_set_msg(u->aio, m);
		nng_ctx_send(ctxs[u->a], u->aio);
		break;
	case OP_SLEEP:
		nng_sleep_aio((nng_duration) u->len, u->aio);
		break;
	case OP_SDIAL:
		nng_stream_dialer_dial(sds[u->a], u->aio);
		break;
	case OP_SACCEPT:
		nng_stream_listener_accept(sls[u->a], u->aio);
		break;
	case OP_SSEND:
	case OP_SRECV:
		iov.iov_buf = u->buf;
		iov.iov_len = (size_t) u->len;
		nng_aio_set_iov(u->aio, 1, &iov);
		if (u->op == OP_SSEND) {
			nng_stream_send(sts[u->a], u->aio);
		} else {
			nng_stream_recv(sts[u->a], u->aio);
		}
		break;
	case OP_DSTART:
		nng_dialer_start_aio(nds[u->a], NNG_FLAG_NONBLOCK, u->aio);
		break;
	case OP_DEVICE:
		nng_device_aio(u->aio, socks[u->a], socks[u->b]);
		break;
	default:
		break;
	}
}

static void
op_cb(void *arg)
{
	uop *u  = arg;
	int  rv = (int) nng_aio_result(u->aio);
	mark(EV_CB, u->idx, rv);
	if (u->ncb < MAXRES) {
		u->res[u->ncb] = rv;
		u->tcb[u->ncb] = (long long) nng_clock();
	}
	__atomic_add_fetch(&u->ncb, 1, __ATOMIC_SEQ_CST);
	// consume what the operation produced / left behind
	switch (u->op) {
	case OP_RECV:
	case OP_CRECV:
		if (rv == 0 && nng_aio_get_msg(u->aio) != NULL) {
			nng_msg_free(nng_aio_get_msg(u->aio));
		}
		nng_aio_set_msg(u->aio, NULL);
		break;
	case OP_SEND:
	case OP_CSEND:
		if (rv != 0 && nng_aio_get_msg(u->aio) != NULL) {
			nng_msg_free(nng_aio_get_msg(u->aio));
		}
		nng_aio_set_msg(u->aio, NULL);
		break;
	case OP_SDIAL:
	case OP_SACCEPT:
		if (rv == 0) {
			add_extra(nng_aio_get_output(u->aio, 0));
		}
		break;
	default:
		break;
	}
	// re-submission from inside the callback (a stopped aio is never offered a second operation)
	if (u->resub_left > 0 && rv != (int) NNG_ESTOPPED) {
		u->resub_left--;
		do_submit(u);
	}
	__atomic_add_fetch(&u->ndone, 1, __ATOMIC_SEQ_CST);
	mark(EV_CBDONE, u->idx, 0);
}

static void
pipe_cb(nng_pipe p, nng_pipe_ev ev, void *arg)
{
	(void) p;
	(void) ev;
	int k = (int) (intptr_t) arg;
	__atomic_add_fetch(&sock_pipes[k], 1, __ATOMIC_SEQ_CST);
}

static int
open_sock(nng_socket *s, const char *proto, int raw)
{
#define P(name, fn) \
	if (strcmp(proto, name) == 0) return raw ? fn##_open_raw(s) : fn##_open(s)
	P("pair0", nng_pair0);
	P("pair1", nng_pair1);
	P("req", nng_req0);
	P("rep", nng_rep0);
	P("pub", nng_pub0);
	P("sub", nng_sub0);
	P("push", nng_push0);
	P("pull", nng_pull0);
	P("surveyor", nng_surveyor0);
	P("respondent", nng_respondent0);
	P("bus", nng_bus0);
#undef P
	if (strcmp(proto, "pair1poly") == 0) return nng_pair1_open_poly(s);
	return NNG_ENOTSUP;
}

// synchronous helper operations use their own aio (not tracked)
static int
sync_wait(nng_aio *aio)
{
	nng_aio_wait(aio);
	return (int) nng_aio_result(aio);
}

static int
slot(const char *tok)
{
	int k = atoi(tok + 1);
	if (tok[0] == 'n' && tok[1] == 'd') k = atoi(tok + 2);
	if (k < 0 || k >= NAIO) k = 0;
	return k;
}

static void
url_of_listener(int k, char *out, size_t n)
{
	// the address a dialer has to use to reach stream listener k (tcp: the bound port)
	if (strncmp(sl_url[k], "tcp://", 6) == 0) {
		int port = 0;
		nng_stream_listener_get_int(sls[k], NNG_OPT_BOUND_PORT, &port);
		snprintf(out, n, "tcp://127.0.0.1:%d", port);
	} else {
		snprintf(out, n, "%s", sl_url[k]);
	}
}

static int
dead_tcp_port(void)
{
	nng_stream_listener *l    = NULL;
	int                  port = 1;
	if (nng_stream_listener_alloc(&l, "tcp://127.0.0.1:0") == 0) {
		if (nng_stream_listener_listen(l) == 0) {
			nng_stream_listener_get_int(l, NNG_OPT_BOUND_PORT, &port);
		}
		nng_stream_listener_close(l);
		nng_stream_listener_stop(l);
		nng_stream_listener_free(l);
	}
	return port;
}

static void
cleanup(int close_first)
{
	for (int pass = 0; pass < 2; pass++) {
		if ((pass == 0) == (close_first != 0)) {
			mark(EV_UCLOSE, -1, 0);
			for (int k = 0; k < NSLOT; k++) {
				if (ctx_open[k]) {
					nng_ctx_close(ctxs[k]);
					ctx_open[k] = 0;
				}
			}
			for (int k = 0; k < NSLOT; k++) {
				if (sock_open[k]) {
					nng_socket_close(socks[k]);
					sock_open[k] = 0;
				}
				nd_open[k] = 0;
			}
			for (int k = 0; k < NSLOT; k++) {
				if (sts[k] != NULL) nng_stream_close(sts[k]);
				if (sds[k] != NULL) nng_stream_dialer_close(sds[k]);
				if (sls[k] != NULL) nng_stream_listener_close(sls[k]);
			}
		} else {
			for (int i = 0; i < NAIO; i++) {
				if (ops[i].aio != NULL) {
					mark(EV_USTOP, i, 0);
					nng_aio_stop(ops[i].aio);
					mark(EV_STOPRET, i, 0);
				}
			}
		}
	}
}

static void
release_all(void)
{
	for (int i = 0; i < nbg; i++) {
		nng_aio_stop(bg[i]);
	}
	for (int i = 0; i < nbg; i++) {
		nng_aio_free(bg[i]);
		bg[i] = NULL;
	}
	nbg = 0;
	for (int k = 0; k < NSLOT; k++) {
		if (sts[k] != NULL) {
			nng_stream_stop(sts[k]);
			nng_stream_free(sts[k]);
			sts[k] = NULL;
		}
		if (sds[k] != NULL) {
			nng_stream_dialer_stop(sds[k]);
			nng_stream_dialer_free(sds[k]);
			sds[k] = NULL;
		}
		if (sls[k] != NULL) {
			nng_stream_listener_stop(sls[k]);
			nng_stream_listener_free(sls[k]);
			sls[k] = NULL;
		}
	}
	pthread_mutex_lock(&extra_mtx);
	int n  = nextra;
	nextra = 0;
	pthread_mutex_unlock(&extra_mtx);
	for (int i = 0; i < n; i++) {
		nng_stream_close(extra[i]);
		nng_stream_stop(extra[i]);
		nng_stream_free(extra[i]);
	}
	for (int i = 0; i < NAIO; i++) {
		if (ops[i].aio != NULL) {
			if (nng_aio_get_msg(ops[i].aio) != NULL && (ops[i].op == OP_SEND || ops[i].op == OP_CSEND)) {
				// (a send that never ran its callback would leave it here)
				nng_msg_free(nng_aio_get_msg(ops[i].aio));
				nng_aio_set_msg(ops[i].aio, NULL);
			}
			nng_aio_free(ops[i].aio);
			free(ops[i].buf);
		}
		memset(&ops[i], 0, sizeof(ops[i]));
	}
	memset(sock_open, 0, sizeof(sock_open));
	memset(ctx_open, 0, sizeof(ctx_open));
	memset(nd_open, 0, sizeof(nd_open));
	for (int k = 0; k < NSLOT; k++) sock_pipes[k] = 0;
}

// connect a stream pair synchronously: dial on sds[d], accept on sls[l]
static int
stream_connect(int ta, int tb, int d, int l)
{
	nng_aio *da = NULL, *aa = NULL;
	int      rv;
	nng_aio_alloc(&da, NULL, NULL);
	nng_aio_alloc(&aa, NULL, NULL);
	nng_aio_set_timeout(da, 5000);
	nng_aio_set_timeout(aa, 5000);
	nng_stream_listener_accept(sls[l], aa);
	nng_stream_dialer_dial(sds[d], da);
	rv = sync_wait(da);
	if (rv == 0) rv = sync_wait(aa);
	if (rv == 0) {
		sts[ta] = nng_aio_get_output(da, 0);
		sts[tb] = nng_aio_get_output(aa, 0);
	} else {
		nng_aio_cancel(aa);
		nng_aio_wait(aa);
		if (nng_aio_result(da) == 0) add_extra(nng_aio_get_output(da, 0));
		if (nng_aio_result(aa) == 0) add_extra(nng_aio_get_output(aa, 0));
	}
	nng_aio_free(da);
	nng_aio_free(aa);
	return rv;
}

static int
run_cmd(char *cmd)
{
	char *tok[10];
	int   nt = 0;
	char *sp = NULL;
	snprintf(cur_cmd, sizeof(cur_cmd), "%s", cmd);
	for (char *t = strtok_r(cmd, " \t\n", &sp); t != NULL && nt < 10; t = strtok_r(NULL, " \t\n", &sp)) tok[nt++] = t;
	if (nt == 0) return 0;
	const char *c = tok[0];
	int         rv = 0;
#define NEED(n) \
	if (nt < (n)) { \
		printf("BADCMD %s\n", c); \
		return -1; \
	}
	if (strcmp(c, "sock") == 0) { // sock sK proto raw
		NEED(4);
		int k = slot(tok[1]);
		rv    = open_sock(&socks[k], tok[2], atoi(tok[3]));
		if (rv == 0) {
			sock_open[k] = 1;
			nng_pipe_notify(socks[k], NNG_PIPE_EV_ADD_POST, pipe_cb, (void *) (intptr_t) k);
			if (strcmp(tok[2], "sub") == 0 && !atoi(tok[3])) nng_sub0_socket_subscribe(socks[k], "", 0);
		}
	} else if (strcmp(c, "setms") == 0) {
		NEED(4);
		rv = nng_socket_set_ms(socks[slot(tok[1])], tok[2], atoi(tok[3]));
	} else if (strcmp(c, "setint") == 0) {
		NEED(4);
		rv = nng_socket_set_int(socks[slot(tok[1])], tok[2], atoi(tok[3]));
	} else if (strcmp(c, "listen") == 0) { // listen sK url
		NEED(3);
		int k = slot(tok[1]);
		snprintf(sock_url[k], sizeof(sock_url[k]), "%s", tok[2]);
		rv = nng_listen(socks[k], tok[2], &sock_lst[k], 0);
		if (rv == 0 && strncmp(tok[2], "tcp://", 6) == 0) {
			int port = 0;
			nng_listener_get_int(sock_lst[k], NNG_OPT_BOUND_PORT, &port);
			snprintf(sock_url[k], sizeof(sock_url[k]), "tcp://127.0.0.1:%d", port);
		}
	} else if (strcmp(c, "dial") == 0) { // dial sK url|@sJ
		NEED(3);
		const char *u = tok[2][0] == '@' ? sock_url[slot(tok[2] + 1)] : tok[2];
		rv            = nng_dial(socks[slot(tok[1])], u, NULL, 0);
	} else if (strcmp(c, "waitpipes") == 0) { // waitpipes sK n ms
		NEED(4);
		int       k  = slot(tok[1]);
		long long dl = (long long) nng_clock() + atoi(tok[3]);
		while (sock_pipes[k] < atoi(tok[2]) && (long long) nng_clock() < dl) nng_msleep(1);
		rv = sock_pipes[k] < atoi(tok[2]) ? -2 : 0;
	} else if (strcmp(c, "ctx") == 0) { // ctx cK sJ
		NEED(3);
		int k = slot(tok[1]);
		rv    = nng_ctx_open(&ctxs[k], socks[slot(tok[2])]);
		if (rv == 0) ctx_open[k] = 1;
	} else if (strcmp(c, "csub") == 0) { // csub cK : subscribe a SUB context to everything
		NEED(2);
		rv = nng_sub0_ctx_subscribe(ctxs[slot(tok[1])], "", 0);
	} else if (strcmp(c, "nd") == 0) { // nd ndK sJ url|@sI|deadtcp
		NEED(4);
		int  k = slot(tok[1]);
		char u[160];
		if (strcmp(tok[3], "deadtcp") == 0) {
			snprintf(u, sizeof(u), "tcp://127.0.0.1:%d", dead_tcp_port());
		} else {
			snprintf(u, sizeof(u), "%s", tok[3][0] == '@' ? sock_url[slot(tok[3] + 1)] : tok[3]);
		}
		rv = nng_dialer_create(&nds[k], socks[slot(tok[2])], u);
		if (rv == 0) nd_open[k] = 1;
	} else if (strcmp(c, "psend") == 0 || strcmp(c, "pcsend") == 0) { // peer side: send one message (never blocks for long)
		NEED(2);
		nng_msg *m  = NULL;
		nng_aio *a  = NULL;
		nng_msg_alloc(&m, 4);
		nng_aio_alloc(&a, NULL, NULL);
		nng_aio_set_timeout(a, nt > 2 ? atoi(tok[2]) : 200);
		nng_aio_set_msg(a, m);
		if (c[1] == 'c') {
			nng_ctx_send(ctxs[slot(tok[1])], a);
		} else {
			nng_socket_send(socks[slot(tok[1])], a);
		}
		rv = sync_wait(a);
		if (rv != 0 && nng_aio_get_msg(a) != NULL) nng_msg_free(nng_aio_get_msg(a));
		nng_aio_free(a);
	} else if (strcmp(c, "precv") == 0 || strcmp(c, "pcrecv") == 0) { // peer side: receive one message
		NEED(2);
		nng_aio *a = NULL;
		nng_aio_alloc(&a, NULL, NULL);
		nng_aio_set_timeout(a, nt > 2 ? atoi(tok[2]) : 200);
		if (c[1] == 'c') {
			nng_ctx_recv(ctxs[slot(tok[1])], a);
		} else {
			nng_socket_recv(socks[slot(tok[1])], a);
		}
		rv = sync_wait(a);
		if (rv == 0 && nng_aio_get_msg(a) != NULL) nng_msg_free(nng_aio_get_msg(a));
		nng_aio_free(a);
	} else if (strcmp(c, "sl") == 0) { // sl lK url : stream listener, listening
		NEED(3);
		int k = slot(tok[1]);
		snprintf(sl_url[k], sizeof(sl_url[k]), "%s", tok[2]);
		rv = (int) nng_stream_listener_alloc(&sls[k], tok[2]);
		if (rv == 0) rv = (int) nng_stream_listener_listen(sls[k]);
	} else if (strcmp(c, "sd") == 0) { // sd dK url|@lJ|deadtcp
		NEED(3);
		char u[160];
		if (strcmp(tok[2], "deadtcp") == 0) {
			snprintf(u, sizeof(u), "tcp://127.0.0.1:%d", dead_tcp_port());
		} else if (tok[2][0] == '@') {
			url_of_listener(slot(tok[2] + 1), u, sizeof(u));
		} else {
			snprintf(u, sizeof(u), "%s", tok[2]);
		}
		rv = (int) nng_stream_dialer_alloc(&sds[slot(tok[1])], u);
	} else if (strcmp(c, "sconn") == 0) { // sconn tA tB dK lK
		NEED(5);
		rv = stream_connect(slot(tok[1]), slot(tok[2]), slot(tok[3]), slot(tok[4]));
	} else if (strcmp(c, "bgdial") == 0 || strcmp(c, "bgaccept") == 0) { // bgdial dK n | bgaccept lK n
		NEED(3);
		for (int i = 0; i < atoi(tok[2]) && nbg < 64; i++) {
			if (nng_aio_alloc(&bg[nbg], bg_cb, &bg[nbg]) != 0) break;
			nng_aio_set_timeout(bg[nbg], 10000);
			if (c[2] == 'd') {
				nng_stream_dialer_dial(sds[slot(tok[1])], bg[nbg]);
			} else {
				nng_stream_listener_accept(sls[slot(tok[1])], bg[nbg]);
			}
			nbg++;
		}
	} else if (strcmp(c, "sfdpush") == 0) { // sfdpush lK [n] : hand n connected fds (socketpair halves) to a socket:// listener
		NEED(2);
		int n = nt > 2 ? atoi(tok[2]) : 1;
		for (int i = 0; i < n && rv == 0; i += 2) {
			int fds[2];
			if (socketpair(AF_UNIX, SOCK_STREAM, 0, fds) != 0) {
				rv = -3;
				break;
			}
			rv = (int) nng_stream_listener_set_int(sls[slot(tok[1])], NNG_OPT_SOCKET_FD, fds[0]);
			if (rv != 0) close(fds[0]);
			if (i + 1 < n && rv == 0) {
				rv = (int) nng_stream_listener_set_int(sls[slot(tok[1])], NNG_OPT_SOCKET_FD, fds[1]);
				if (rv != 0) close(fds[1]);
			} else {
				close(fds[1]);
			}
		}
	} else if (strcmp(c, "sfdconn") == 0) { // sfdconn tA tB lK : two streams over one socketpair
		NEED(4);
		int      fds[2];
		int      l  = slot(tok[3]);
		nng_aio *a1 = NULL, *a2 = NULL;
		nng_aio_alloc(&a1, NULL, NULL);
		nng_aio_alloc(&a2, NULL, NULL);
		nng_aio_set_timeout(a1, 2000);
		nng_aio_set_timeout(a2, 2000);
		if (socketpair(AF_UNIX, SOCK_STREAM, 0, fds) != 0) {
			rv = -3;
		} else {
			nng_stream_listener_set_int(sls[l], NNG_OPT_SOCKET_FD, fds[0]);
			nng_stream_listener_set_int(sls[l], NNG_OPT_SOCKET_FD, fds[1]);
			nng_stream_listener_accept(sls[l], a1);
			rv = sync_wait(a1);
			nng_stream_listener_accept(sls[l], a2);
			if (rv == 0) rv = sync_wait(a2); else nng_aio_wait(a2);
			if (nng_aio_result(a1) == 0) sts[slot(tok[1])] = nng_aio_get_output(a1, 0);
			if (nng_aio_result(a2) == 0) sts[slot(tok[2])] = nng_aio_get_output(a2, 0);
		}
		nng_aio_free(a1);
		nng_aio_free(a2);
	} else if (strcmp(c, "stsend") == 0 || strcmp(c, "strecv") == 0) { // peer side of a stream: move len bytes (bounded wait)
		NEED(3);
		nng_aio *a   = NULL;
		size_t   len = (size_t) atoi(tok[2]);
		uint8_t *b   = calloc(1, len + 1);
		nng_iov  iov = { b, len };
		nng_aio_alloc(&a, NULL, NULL);
		nng_aio_set_timeout(a, nt > 3 ? atoi(tok[3]) : 200);
		nng_aio_set_iov(a, 1, &iov);
		if (c[2] == 's') {
			nng_stream_send(sts[slot(tok[1])], a);
		} else {
			nng_stream_recv(sts[slot(tok[1])], a);
		}
		rv = sync_wait(a);
		nng_aio_free(a);
		free(b);
	} else if (strcmp(c, "aio") == 0) { // aio aK resub
		NEED(3);
		int k = slot(tok[1]);
		memset(&ops[k], 0, sizeof(ops[k]));
		ops[k].idx        = k;
		ops[k].resub_left = atoi(tok[2]);
		rv                = (int) nng_aio_alloc(&ops[k].aio, op_cb, &ops[k]);
	} else if (strcmp(c, "trace") == 0) {
		nev    = 0;
		dumped = 0;
		nng_verif_trace_start();
	}
	// ---- disruptions
	else if (strcmp(c, "tmo") == 0) {
		NEED(3);
		mark(EV_USET, slot(tok[1]), 0);
		nng_aio_set_timeout(ops[slot(tok[1])].aio, (nng_duration) atoi(tok[2]));
	} else if (strcmp(c, "expire") == 0) { // expire aK delta-ms (relative to now; prints the absolute value)
		NEED(3);
		nng_time t = nng_clock() + (nng_time) (long long) atoi(tok[2]);
		mark(EV_USET, slot(tok[1]), 1);
		nng_aio_set_expire(ops[slot(tok[1])].aio, t);
		printf("EXPIRE a%d %llu\n", slot(tok[1]), (unsigned long long) t);
	} else if (strcmp(c, "cancel") == 0) {
		NEED(2);
		mark(EV_UABORT, slot(tok[1]), (int) NNG_ECANCELED);
		nng_aio_cancel(ops[slot(tok[1])].aio);
	} else if (strcmp(c, "abort") == 0) {
		NEED(3);
		mark(EV_UABORT, slot(tok[1]), atoi(tok[2]));
		nng_aio_abort(ops[slot(tok[1])].aio, (nng_err) atoi(tok[2]));
	} else if (strcmp(c, "stop") == 0) {
		NEED(2);
		mark(EV_USTOP, slot(tok[1]), 0);
		nng_aio_stop(ops[slot(tok[1])].aio);
		mark(EV_STOPRET, slot(tok[1]), 0);
	} else if (strcmp(c, "close") == 0) { // close sK
		NEED(2);
		int k = slot(tok[1]);
		mark(EV_UCLOSE, -1, 1);
		if (sock_open[k]) rv = nng_socket_close(socks[k]);
		sock_open[k] = 0;
	} else if (strcmp(c, "cclose") == 0) {
		NEED(2);
		int k = slot(tok[1]);
		mark(EV_UCLOSE, -1, 2);
		if (ctx_open[k]) rv = nng_ctx_close(ctxs[k]);
		ctx_open[k] = 0;
	} else if (strcmp(c, "sdclose") == 0) {
		NEED(2);
		mark(EV_UCLOSE, -1, 3);
		nng_stream_dialer_close(sds[slot(tok[1])]);
	} else if (strcmp(c, "slclose") == 0) {
		NEED(2);
		mark(EV_UCLOSE, -1, 4);
		nng_stream_listener_close(sls[slot(tok[1])]);
	} else if (strcmp(c, "stclose") == 0) {
		NEED(2);
		mark(EV_UCLOSE, -1, 5);
		nng_stream_close(sts[slot(tok[1])]);
	} else if (strcmp(c, "ndclose") == 0) {
		NEED(2);
		int k = slot(tok[1]);
		mark(EV_UCLOSE, -1, 6);
		if (nd_open[k]) rv = nng_dialer_close(nds[k]);
		nd_open[k] = 0;
	} else if (strcmp(c, "usleep") == 0) {
		NEED(2);
		struct timespec ts = { atoi(tok[1]) / 1000000, (atoi(tok[1]) % 1000000) * 1000L };
		nanosleep(&ts, NULL);
	}
	// ---- tracked operations: <op> aK <object> [len]
	else if (strcmp(c, "recv") == 0 || strcmp(c, "send") == 0 || strcmp(c, "crecv") == 0 || strcmp(c, "csend") == 0 ||
	    strcmp(c, "sleep") == 0 || strcmp(c, "sdial") == 0 || strcmp(c, "saccept") == 0 || strcmp(c, "ssend") == 0 ||
	    strcmp(c, "srecv") == 0 || strcmp(c, "dstart") == 0 || strcmp(c, "device") == 0) {
		NEED(3);
		uop *u = &ops[slot(tok[1])];
		if (u->aio == NULL) {
			printf("BADCMD %s: no aio\n", c);
			return -1;
		}
		u->op  = strcmp(c, "recv") == 0 ? OP_RECV : strcmp(c, "send") == 0 ? OP_SEND : strcmp(c, "crecv") == 0 ? OP_CRECV
		    : strcmp(c, "csend") == 0                                                                           ? OP_CSEND
		    : strcmp(c, "sleep") == 0                                                                           ? OP_SLEEP
		    : strcmp(c, "sdial") == 0                                                                           ? OP_SDIAL
		    : strcmp(c, "saccept") == 0                                                                         ? OP_SACCEPT
		    : strcmp(c, "ssend") == 0                                                                           ? OP_SSEND
		    : strcmp(c, "srecv") == 0                                                                           ? OP_SRECV
		    : strcmp(c, "dstart") == 0                                                                          ? OP_DSTART
		                                                                                                        : OP_DEVICE;
		if (u->op == OP_SLEEP) {
			u->len = atoi(tok[2]);
		} else {
			u->a   = slot(tok[2]);
			u->len = nt > 3 ? atoi(tok[3]) : 0;
			if (u->op == OP_DEVICE) {
				NEED(4);
				u->b = slot(tok[3]);
			}
		}
		if ((u->op == OP_SSEND || u->op == OP_SRECV) && u->buf == NULL) u->buf = calloc(1, (size_t) u->len + 1);
		if ((u->op == OP_SDIAL && sds[u->a] == NULL) || (u->op == OP_SACCEPT && sls[u->a] == NULL) ||
		    ((u->op == OP_SSEND || u->op == OP_SRECV) && sts[u->a] == NULL)) {
			printf("SETUPFAIL %s: object missing\n", c);
			return -1;
		}
		do_submit(u);
	} else if (strcmp(c, "await") == 0) { // await need0,need1,... maxms : until every aio has had that many callbacks
		NEED(3);
		// per aio: a number n (at least n callbacks have returned) or q (quiet: every submission has had its
		// callback and the re-submission chain has ended: exhausted, or broken by NNG_ESTOPPED)
		int   need[NAIO] = { 0 };
		int   i          = 0;
		char *sp2        = NULL;
		for (char *t = strtok_r(tok[1], ",", &sp2); t != NULL && i < NAIO; t = strtok_r(NULL, ",", &sp2)) need[i++] = (t[0] == 'q') ? -1 : atoi(t);
		long long dl = (long long) nng_clock() + atoi(tok[2]);
		for (;;) {
			int ok = 1;
			for (int k = 0; k < NAIO; k++) {
				if (ops[k].aio == NULL) continue;
				int nd = ops[k].ndone;
				int ns = ops[k].nsub;
				if (need[k] >= 0) {
					if (nd < need[k]) ok = 0;
				} else if (!(ns >= 1 && nd == ns && (ops[k].resub_left == 0 || (nd <= MAXRES && ops[k].res[nd - 1] == (int) NNG_ESTOPPED)))) {
					ok = 0;
				}
			}
			if (ok || (long long) nng_clock() >= dl) break;
			struct timespec ts = { 0, 200000 };
			nanosleep(&ts, NULL);
		}
		quiesce();
	} else if (strcmp(c, "snap") == 0) {
		NEED(2);
		snap(tok[1]);
	} else if (strcmp(c, "cleanup") == 0) { // cleanup close|stop : which comes first
		NEED(2);
		cleanup(strcmp(tok[1], "close") == 0);
		quiesce();
	} else {
		printf("BADCMD %s\n", c);
		return -1;
	}
	if (rv != 0) printf("RV %s %d\n", c, rv);
	return rv;
}

int
main(void)
{
	static char line[16384];
	pthread_t   wd;
	setvbuf(stdout, NULL, _IOLBF, 0);
	signal(SIGABRT, on_abort);
	nng_init(NULL);
	nng_aio_alloc(&marker, NULL, NULL);
	pthread_create(&wd, NULL, watchdog, NULL);
	while (fgets(line, sizeof(line), stdin) != NULL) {
		char *sp = NULL;
		char *id = strtok_r(line, " \t\n", &sp);
		if (id == NULL || id[0] == '#') continue;
		char *rest = strtok_r(NULL, "\n", &sp);
		if (rest == NULL) continue;
		snprintf(cur_id, sizeof(cur_id), "%s", id);
		long long t0 = (long long) nng_clock();
		wd_deadline  = t0 + (getenv("WB_WATCHDOG_MS") != NULL ? atoi(getenv("WB_WATCHDOG_MS")) : 25000);
		printf("BEGIN %s\n", id);
		int   failed = 0;
		char *sp3    = NULL;
		for (char *cmd = strtok_r(rest, ";", &sp3); cmd != NULL; cmd = strtok_r(NULL, ";", &sp3)) {
			// a failing set-up command ends the scenario (reported, never a verdict); disruptions and
			// tracked operations never "fail" here - their outcome is what is observed
			int rv = run_cmd(cmd);
			if (rv != 0) {
				char *c = cur_cmd;
				while (*c == ' ') c++;
				if (strncmp(c, "close", 5) != 0 && strncmp(c, "cclose", 6) != 0 && strncmp(c, "ndclose", 7) != 0 &&
				    strncmp(c, "psend", 5) != 0 && strncmp(c, "precv", 5) != 0 && strncmp(c, "pcsend", 6) != 0 &&
				    strncmp(c, "pcrecv", 6) != 0 && strncmp(c, "stsend", 6) != 0 && strncmp(c, "strecv", 6) != 0 &&
				    strncmp(c, "waitpipes", 9) != 0) {
					failed = 1;
					break;
				}
			}
		}
		if (failed) {
			// still tear everything down in order
			printf("SETUPFAIL %s at: %s\n", id, cur_cmd);
			snprintf(cur_cmd, sizeof(cur_cmd), "cleanup(after setup failure)");
			cleanup(1);
			quiesce();
		}
		snprintf(cur_cmd, sizeof(cur_cmd), "final");
		snap("O2");
		nng_msleep(15);
		quiesce();
		snap("O3");
		dump_trace();
		release_all();
		quiesce();
		wd_deadline = 0;
		printf("END %s ms=%lld\n", id, (long long) nng_clock() - t0);
		fflush(stdout);
		snprintf(cur_id, sizeof(cur_id), "-");
	}
	nng_aio_free(marker);
	nng_fini();
	printf("BYE\n");
	return 0;
}
