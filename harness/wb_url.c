// wb_url.c: white-box driver for the URL code (C19).  Reads an op script on
// stdin and prints one observation line per op, in the same text format as
// ocaml/drv_url.ml:
//   parse <hex>    nng_url_parse, then every accessor
//   sprintf <hex>  parse, nng_url_sprintf
//   rt <hex>       parse, sprintf, parse again; prints the second URL
//   clone <hex>    parse, nng_url_clone, free the original, print the clone
//   canon <hex>    nni_url_canonify_uri on an exactly-sized heap copy
//   canon2 <hex>   the same, applied twice
//   svc <hexname> [..]  getservbyname(name, "tcp") (the resolver oracle)
//   mark <k>, # comment
// Strings are passed in exactly-sized heap blocks so that the sanitizer sees
// any access beyond the terminating NUL.
#include "core/nng_impl.h"
#include "wb_common.h"
#include <netdb.h>
#include <arpa/inet.h>

static void
hexs(const char *s)
{
	if (s == NULL) {
		printf("NULL");
	} else {
		puthex(s, strlen(s));
	}
}

static void
show(const char *tag, nng_url *u)
{
	printf("%s rv=0 scheme=", tag);
	hexs(nng_url_scheme(u));
	printf(" userinfo=");
	hexs(nng_url_userinfo(u));
	printf(" host=");
	hexs(nng_url_hostname(u));
	printf(" port=%u path=", (unsigned) nng_url_port(u));
	hexs(nng_url_path(u));
	printf(" query=");
	hexs(nng_url_query(u));
	printf(" fragment=");
	hexs(nng_url_fragment(u));
	printf("\n");
}

// exactly-sized NUL-terminated heap copy of the decoded hex argument
static char *
arg_string(const char *hex)
{
	size_t   len;
	uint8_t *d = unhex(hex, &len);
	char    *s = malloc(len + 1);
	memcpy(s, d, len);
	s[len] = 0;
	free(d);
	return (s);
}

int
main(void)
{
	static char line[1 << 20];
	char       *tok[4];
	nng_init(NULL);
	while (fgets(line, sizeof(line), stdin) != NULL) {
		int   nt = 0;
		char *sp = NULL;
		for (char *t = strtok_r(line, " \n", &sp); t != NULL && nt < 4;
		     t       = strtok_r(NULL, " \n", &sp)) {
			tok[nt++] = t;
		}
		if (nt == 0) continue;
		const char *op = tok[0];
		if (op[0] == '#') continue;
		if (strcmp(op, "mark") == 0) {
			printf("mark %s\n", tok[1]);
			fflush(stdout);
			continue;
		}
		if (nt < 2) {
			printf("bad line\n");
			continue;
		}
		char *s = arg_string(tok[1]);
		if (strcmp(op, "svc") == 0) {
			struct servent *se = getservbyname(s, "tcp");
			if (se != NULL) {
				printf("svc %s %u\n", tok[1], (unsigned) ntohs((uint16_t) se->s_port));
			} else {
				printf("svc %s -\n", tok[1]);
			}
			free(s);
			continue;
		}
		if ((strcmp(op, "canon") == 0) || (strcmp(op, "canon2") == 0)) {
			int rv = nni_url_canonify_uri(s);
			if (rv != 0) {
				printf("%s rv=%d\n", op, rv);
			} else if (strcmp(op, "canon") == 0) {
				printf("%s rv=0 out=", op);
				puthex(s, strlen(s));
				printf("\n");
			} else {
				// second application on an exactly-sized copy
				char *s2 = malloc(strlen(s) + 1);
				strcpy(s2, s);
				rv = nni_url_canonify_uri(s2);
				if (rv != 0) {
					printf("%s rv=0 second rv=%d\n", op, rv);
				} else {
					printf("%s rv=0 out=", op);
					puthex(s2, strlen(s2));
					printf("\n");
				}
				free(s2);
			}
			free(s);
			continue;
		}
		nng_url *u  = NULL;
		int      rv = nng_url_parse(&u, s);
		free(s); // the URL must not refer to the caller's string
		if (rv != 0) {
			printf("%s rv=%d\n", op, rv);
			continue;
		}
		if (strcmp(op, "parse") == 0) {
			show("parse", u);
		} else if (strcmp(op, "sprintf") == 0) {
			int   n   = nng_url_sprintf(NULL, 0, u);
			char *out = malloc((size_t) n + 1);
			int   n2  = nng_url_sprintf(out, (size_t) n + 1, u);
			printf("sprintf rv=0 len=%d str=", n2);
			puthex(out, strlen(out));
			printf("\n");
			free(out);
		} else if (strcmp(op, "rt") == 0) {
			int   n   = nng_url_sprintf(NULL, 0, u);
			char *out = malloc((size_t) n + 1);
			nng_url_sprintf(out, (size_t) n + 1, u);
			nng_url *u2  = NULL;
			int      rv2 = nng_url_parse(&u2, out);
			free(out);
			if (rv2 != 0) {
				printf("rt rv=0 rv2=%d\n", rv2);
			} else {
				show("rt rv=0 rv2=0", u2);
				nng_url_free(u2);
			}
		} else if (strcmp(op, "clone") == 0) {
			nng_url *c   = NULL;
			int      crv = nng_url_clone(&c, u);
			// a component that is NULL in the original must be NULL
			// in the clone; if it is not, the pointer is wild and is
			// reported as such, never dereferenced
			bool wild_host = (crv == 0) && (c != NULL) &&
			    (nng_url_hostname(u) == NULL) &&
			    (nng_url_hostname(c) != NULL);
			nng_url_free(u); // the clone must be independent
			u = NULL;
			if (crv != 0 || c == NULL) {
				printf("clone rv=0 crv=%d\n", crv);
			} else {
				char tag[48];
				snprintf(tag, sizeof(tag), "clone rv=0 crv=%d%s", crv,
				    wild_host ? " WILD-HOST" : "");
				if (wild_host) {
					c->u_hostname = NULL;
				}
				show(tag, c);
				nng_url_free(c);
			}
		} else {
			printf("bad line\n");
		}
		if (u != NULL) {
			nng_url_free(u);
		}
	}
	return (0);
}
