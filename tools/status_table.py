#!/usr/bin/env python3
"""status_table.py -- the table of DESIGN.md 11.6 from evidence/<id>.json (written by the last run of each check)."""
import json, os, sys
V = os.path.dirname(os.path.dirname(os.path.abspath(__file__)))
rows = []
for i in range(1, 21):
    p = "C%02d" % i
    try:
        d = json.load(open(os.path.join(V, "evidence", p + ".json")))
    except Exception:
        rows.append("| %s | - | - | - | - | - | - |" % p)
        continue
    c = d.get("coverage", {})
    th = c.get("theorems") or []
    ax = c.get("axioms_per_theorem") or {}
    nth = len(th) if isinstance(th, list) else th
    closed = sum(1 for t in (ax.values() if isinstance(ax, dict) else []) if not t or t == "Closed under the global context" or t == [])
    if not isinstance(ax, dict) or not ax:
        closed = c.get("discharged", nth)
    rows.append("| %s | %s | %s | %s | %s | %s | %s |" % (p, d.get("tier"), nth, closed, c.get("evaluations"), c.get("distinct_nontrivial"), d.get("wall_s")))
print("| property | tier | theorems in Properties_Cnn.v | closed (no axioms) | evaluations | distinct non-trivial cases | wall s |")
print("|---|---|---|---|---|---|---|")
print("\n".join(rows))
