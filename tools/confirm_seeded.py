#!/usr/bin/env python3
"""Confirm a seeded breaking change delivered by an outside agent (round 3 layout).

  tools/confirm_seeded.py <dir-with-patch.diff,demo.c,build_demo.sh> [--no-suite]

Builds /repo's HEAD twice in scratch worktrees under /tmp/nngconf (once unchanged - shared by
all confirmations of the same HEAD - and once with patch.diff applied), runs the repository's
test suite on the changed tree, builds the demonstration against both and runs it 5 times on
each.  Writes <dir>/confirm.json:
  {"suite_ok":bool, "suite_failed":[...], "demo_orig_pass":n/5, "demo_mut_fail":n/5, "confirmed":bool}
Removes the changed worktree and its build output afterwards; the unchanged one is removed by
`tools/confirm_seeded.py --clean`.
"""
import json, os, shutil, subprocess, sys, re

SCR = "/tmp/nngconf"


def sh(cmd, **kw):
    return subprocess.run(cmd, shell=True, capture_output=True, text=True, **kw)


def build(wt, tests=True):
    r = sh("cmake -G Ninja -S %s -B %s/build -DCMAKE_BUILD_TYPE=Debug -DNNG_TESTS=%s >/dev/null && ninja -C %s/build 2>&1 | tail -5"
           % (wt, wt, "ON" if tests else "ON", wt))
    return r.returncode == 0 and "FAILED" not in r.stdout, r.stdout + r.stderr


def orig_tree():
    head = sh("git -C /repo rev-parse --short HEAD").stdout.strip()
    wt = os.path.join(SCR, "orig-" + head)
    if not os.path.exists(os.path.join(wt, "build", "libnng_testing.a")):
        sh("git -C /repo worktree add --detach %s HEAD" % wt)
        ok, out = build(wt)
        if not ok:
            print("orig build failed", out); sys.exit(2)
    return wt


def run_demo(d, wt, tag, n=5):
    exe = os.path.join(SCR, "demo-%s-%d" % (tag, os.getpid()))
    r = sh("sh %s/build_demo.sh %s %s/build %s" % (d, wt, wt, exe), cwd=d)
    if not os.path.exists(exe):
        return None, "demo build failed: " + (r.stdout + r.stderr)[-800:]
    rcs = []
    last = ""
    for _ in range(n):
        try:
            rr = subprocess.run([exe], capture_output=True, text=True, timeout=120,
                                env=dict(os.environ, LD_LIBRARY_PATH=wt + "/build"))
            rcs.append(rr.returncode); last = (rr.stdout + rr.stderr)[-600:]
        except subprocess.TimeoutExpired:
            rcs.append(124); last = "timeout"
    os.remove(exe)
    return rcs, last


def main():
    if sys.argv[1] == "--clean":
        for e in os.listdir(SCR) if os.path.isdir(SCR) else []:
            p = os.path.join(SCR, e)
            sh("git -C /repo worktree remove --force %s" % p)
            shutil.rmtree(p, ignore_errors=True)
        sh("git -C /repo worktree prune")
        return 0
    d = os.path.abspath(sys.argv[1])
    suite = "--no-suite" not in sys.argv
    os.makedirs(SCR, exist_ok=True)
    res = {}
    o = orig_tree()
    wt = os.path.join(SCR, "mut-%d" % os.getpid())
    sh("git -C /repo worktree add --detach %s HEAD" % wt)
    try:
        r = sh("git -C %s apply %s/patch.diff" % (wt, d))
        if r.returncode != 0:
            res["error"] = "patch does not apply: " + r.stderr; return finish(d, res)
        ok, out = build(wt)
        res["build_ok"] = ok
        if not ok:
            res["error"] = out[-800:]; return finish(d, res)
        res["new_warnings"] = len(re.findall(r"warning:", out))
        if suite:
            r = sh("ctest --test-dir %s/build -j8 --timeout 900 2>&1 | tail -15" % wt)
            failed = re.findall(r"^\s*\d+ - (\S+) \(", r.stdout, re.M)
            again = []
            for t in failed:
                if t == "nng.platform.resolver_test":
                    continue
                okt = False
                for _ in range(3):      # known-flaky tests (multistress, nngcat_*: fixed ports / paths) get three tries alone
                    rr = sh("ctest --test-dir %s/build -R '^%s$' --timeout 900 2>&1 | tail -3" % (wt, t))
                    if "100% tests passed" in rr.stdout:
                        okt = True; break
                if not okt:
                    again.append(t)
            res["suite_failed_first"] = failed
            res["suite_failed"] = again
            res["suite_ok"] = not again
        ro, lo = run_demo(d, o, "o")
        rm, lm = run_demo(d, wt, "m")
        res["demo_orig_rcs"], res["demo_mut_rcs"] = ro, rm
        res["demo_orig_last"], res["demo_mut_last"] = lo, lm
        res["confirmed"] = bool(ro and rm and all(x == 0 for x in ro) and sum(1 for x in rm if x != 0) >= 4
                                and res.get("suite_ok", True))
    finally:
        sh("git -C /repo worktree remove --force %s" % wt)
        shutil.rmtree(wt, ignore_errors=True)
    return finish(d, res)


def finish(d, res):
    json.dump(res, open(os.path.join(d, "confirm.json"), "w"), indent=1)
    print(os.path.basename(os.path.dirname(d)) + "/" + os.path.basename(d),
          "confirmed" if res.get("confirmed") else "NOT confirmed",
          {k: res[k] for k in res if k in ("suite_failed", "demo_orig_rcs", "demo_mut_rcs", "error")})
    return 0


if __name__ == "__main__":
    sys.exit(main())
