#!/usr/bin/env python3
"""Run registered checks against a seeded breaking change.

  tools/run_seeded.py <seeded-dir> [--props C17,C03] [--tier quick] [--in-repo]

<seeded-dir> holds patch.diff (+ meta.json).  By default the patch is applied to a scratch
worktree of /repo's HEAD (outside /repo and /verif) and the checks run from a private copy of
/verif with NNGV_REPO pointing at the worktree, so that nothing another process is doing in
/verif or /repo is disturbed (generated constants, .vo files and evidence of the live tree stay
untouched).  With --in-repo the patch is applied to /repo itself (git -C /repo apply), the
checks of /verif run in place, and the patch is undone straight afterwards
(git -C /repo checkout -- .): the mode for the final pass when nothing else is running.
Writes <seeded-dir>/result.json: per property exit code and the VIOLATION lines.
"""
import json, os, shutil, subprocess, sys, time

VERIF = os.path.dirname(os.path.dirname(os.path.abspath(__file__)))
SCR = os.environ.get("NNGV_SEEDED_SCRATCH", "/tmp/nngv-seeded")


def sh(cmd, **kw):
    return subprocess.run(cmd, shell=isinstance(cmd, str), capture_output=True, text=True, **kw)


def main():
    a = sys.argv[1:]
    d = os.path.abspath(a[0])
    props, tier, inrepo = None, "quick", False
    i = 1
    while i < len(a):
        if a[i] == "--props":
            props = a[i + 1].split(","); i += 2
        elif a[i] == "--tier":
            tier = a[i + 1]; i += 2
        elif a[i] == "--in-repo":
            inrepo = True; i += 1
        else:
            i += 1
    patch = os.path.join(d, "patch.diff")
    meta = {}
    if os.path.exists(os.path.join(d, "meta.json")):
        meta = json.load(open(os.path.join(d, "meta.json")))
    if props is None:
        props = [meta.get("property", os.path.basename(os.path.dirname(d)))]
    res = {"patch": patch, "tier": tier, "mode": "in-repo" if inrepo else "scratch-worktree", "checks": {}}
    if inrepo:
        r = sh(["git", "-C", "/repo", "apply", patch])
        if r.returncode != 0:
            print("patch does not apply:", r.stderr); return 2
        try:
            for p in props:
                t0 = time.time()
                r = sh(["./check", p, tier], cwd=VERIF)
                res["checks"][p] = {"rc": r.returncode, "wall_s": round(time.time() - t0, 1),
                                    "violations": [l for l in r.stdout.splitlines() if l.startswith("VIOLATION")][:6],
                                    "detail": [l for l in r.stdout.splitlines() if l.startswith("  ")][:6]}
        finally:
            sh(["git", "-C", "/repo", "checkout", "--", "."])
    else:
        tag = "%d" % os.getpid()
        wt = os.path.join(SCR, "wt-" + tag)
        vc = os.path.join(SCR, "verif-" + tag)
        os.makedirs(SCR, exist_ok=True)
        sh(["git", "-C", "/repo", "worktree", "add", "--detach", wt, "HEAD"])
        try:
            r = sh(["git", "-C", wt, "apply", patch])
            if r.returncode != 0:
                print("patch does not apply:", r.stderr); return 2
            sh("rsync -a --exclude .git --exclude out --exclude seeded %s/ %s/" % (VERIF, vc))
            env = dict(os.environ, NNGV_REPO=wt)
            for p in props:
                t0 = time.time()
                r = sh(["./check", p, tier], cwd=vc, env=env)
                res["checks"][p] = {"rc": r.returncode, "wall_s": round(time.time() - t0, 1),
                                    "violations": [l.replace(vc, "/verif") for l in r.stdout.splitlines() if l.startswith("VIOLATION")][:6],
                                    "detail": [l[:400] for l in r.stdout.splitlines() if l.startswith("  ")][:6]}
        finally:
            sh(["git", "-C", "/repo", "worktree", "remove", "--force", wt])
            shutil.rmtree(vc, ignore_errors=True)
            shutil.rmtree(wt, ignore_errors=True)
            sh(["git", "-C", "/repo", "worktree", "prune"])
    # keep the results of earlier runs for other properties (a change may be caught by a neighbouring check)
    try:
        prev = json.load(open(os.path.join(d, "result.json")))
        for p, c in (prev.get("checks") or {}).items():
            res["checks"].setdefault(p, c)
    except Exception:
        pass
    res["caught"] = any(c["rc"] != 0 and c["violations"] for c in res["checks"].values())
    json.dump(res, open(os.path.join(d, "result.json"), "w"), indent=1)
    for p, c in res["checks"].items():
        print("%s %s rc=%d %s" % (os.path.relpath(d, VERIF) if d.startswith(VERIF) else d, p, c["rc"], (c["violations"] or ["(no VIOLATION line)"])[0]))
        for l in c["detail"][:2]:
            print("   ", l.strip()[:300])
    return 0


if __name__ == "__main__":
    sys.exit(main())
