# c05_pubsub.py -- drop-in of tools/gen_consts.py (exec()'d with its globals).
# Regenerates from the current sources what the PUB/SUB models (coq/Proto/SubModel.v,
# PubModel.v, XsubModel.v) take as literals:
#   * protocol numbers of PUB and SUB (NNI_PROTO(major, minor) in sub.c / pub.c / xsub.c,
#     the NNI_PROTO macro itself from core/protocol.h) and which peer each pipe_start insists on,
#   * SUB0_DEFAULT_RECV_BUF_LEN, SUB0_DEFAULT_PREFER_NEW, the nni_copyin_int range of RECVBUF in sub.c,
#   * PUB's per-pipe send queue default (sock->sendbuf = 16) and the range of SENDBUF in pub.c,
#   * the default capacity of the socket's upper read queue (raw SUB) and the range of the
#     generic RECVBUF option in core/socket.c,
#   * the error numbers the models use,
#   * C05_SUB_UNSUB_CLEARS_POLL: does sub0_ctx_unsubscribe clear the recv pollable when it
#     purges the socket's own queue to empty (the `fixed` parameter of sub_step),
#   * C05_MSGQ_GET_TRIES_FIRST: does nni_msgq_aio_get look at the queue before nni_aio_start
#     (the `mq_fixed` parameter of xsub_step).
_sub = src("src/sp/protocol/pubsub0/sub.c")
_pub = src("src/sp/protocol/pubsub0/pub.c")
_xsub = src("src/sp/protocol/pubsub0/xsub.c")
_sock = src("src/core/socket.c")
_mq = src("src/core/msgqueue.c")
_defs = src("src/core/protocol.h")


def _need(m, what):
    if not m:
        missing.append(what)
    return m


# NNI_PROTO(major, minor) (((major) *16) + (minor))
_m = _need(re.search(r"#define\s+NNI_PROTO\(major,\s*minor\)\s*\(\(\(major\)\s*\*\s*(\d+)\)\s*\+\s*\(minor\)\)", _defs), "NNI_PROTO macro in src/core/protocol.h")
_mul = int(_m.group(1)) if _m else 0


def _proto(text, name, where):
    m = _need(re.search(r"#define\s+%s\s+NNI_PROTO\((\d+),\s*(\d+)\)" % name, text), "%s in %s" % (name, where))
    return int(m.group(1)) * _mul + int(m.group(2)) if m else 0


_p_pub = [_proto(t, "NNI_PROTO_PUB_V0", w) for t, w in ((_sub, "sub.c"), (_pub, "pub.c"), (_xsub, "xsub.c"))]
_p_sub = [_proto(t, "NNI_PROTO_SUB_V0", w) for t, w in ((_sub, "sub.c"), (_pub, "pub.c"), (_xsub, "xsub.c"))]
if len(set(_p_pub)) != 1 or len(set(_p_sub)) != 1:
    missing.append("PUB/SUB protocol numbers differ between sub.c, pub.c and xsub.c")
N("C05_PROTO_PUB", _p_pub[0], "pubsub0/*.c: NNI_PROTO_PUB_V0")
N("C05_PROTO_SUB", _p_sub[0], "pubsub0/*.c: NNI_PROTO_SUB_V0")
# the peer each pipe_start insists on, and the proto_self / proto_peer tables
_need(re.search(r"sub0_pipe_start\(void \*arg\)\s*\{[^}]*?nni_pipe_peer\(p->pipe\)\s*!=\s*NNI_PROTO_PUB_V0\)", _sub, re.S), "sub0_pipe_start peer test (!= NNI_PROTO_PUB_V0)")
_need(re.search(r"xsub0_pipe_start\(void \*arg\)\s*\{[^}]*?nni_pipe_peer\(p->pipe\)\s*!=\s*NNI_PROTO_PUB_V0\)", _xsub, re.S), "xsub0_pipe_start peer test (!= NNI_PROTO_PUB_V0)")
_need(re.search(r"pub0_pipe_start\(void \*arg\)\s*\{[^}]*?nni_pipe_peer\(p->pipe\)\s*!=\s*NNI_PROTO_SUB_V0\)", _pub, re.S), "pub0_pipe_start peer test (!= NNI_PROTO_SUB_V0)")
_need(re.search(r"\.proto_self\s*=\s*\{\s*NNI_PROTO_SUB_V0,\s*\"sub\"\s*\}", _sub), "sub0_proto.proto_self")
_need(re.search(r"\.proto_self\s*=\s*\{\s*NNI_PROTO_PUB_V0,\s*\"pub\"\s*\}", _pub), "pub0_proto.proto_self")

Nat("C05_SUB_DEFAULT_RECV_BUF_LEN", define_int("src/sp/protocol/pubsub0/sub.c", "SUB0_DEFAULT_RECV_BUF_LEN"), "sub.c")
_m = _need(re.search(r"#define\s+SUB0_DEFAULT_PREFER_NEW\s+(true|false)", _sub), "SUB0_DEFAULT_PREFER_NEW in sub.c")
extra_text.append("Definition C05_SUB_DEFAULT_PREFER_NEW : bool := %s.  (* sub.c *)" % (_m.group(1) if _m else "false"))
_need(re.search(r"sock->recv_buf_len\s*=\s*SUB0_DEFAULT_RECV_BUF_LEN;\s*sock->prefer_new\s*=\s*SUB0_DEFAULT_PREFER_NEW;", _sub), "sub0_sock_init defaults")
_m = _need(re.search(r"sub0_ctx_set_recv_buf_len\(.*?nni_copyin_int\(&val, buf, sz, (\d+), (\d+), t\)", _sub, re.S), "sub0_ctx_set_recv_buf_len range")
N("C05_SUB_RECVBUF_MIN", int(_m.group(1)) if _m else 0, "sub.c sub0_ctx_set_recv_buf_len: nni_copyin_int(.., lo, ..)")
N("C05_SUB_RECVBUF_MAX", int(_m.group(2)) if _m else 0, "sub.c sub0_ctx_set_recv_buf_len: nni_copyin_int(.., hi)")

Nat("C05_PUB_DEFAULT_SENDBUF", find_int("src/sp/protocol/pubsub0/pub.c", r"sock->sendbuf\s*=\s*(\d+);", "pub0_sock_init sendbuf default"), "pub.c pub0_sock_init: sock->sendbuf = k")
_m = _need(re.search(r"pub0_sock_set_sendbuf\(.*?nni_copyin_int\(&val, buf, sz, (\d+), (\d+), t\)", _pub, re.S), "pub0_sock_set_sendbuf range")
N("C05_PUB_SENDBUF_MIN", int(_m.group(1)) if _m else 0, "pub.c pub0_sock_set_sendbuf: nni_copyin_int(.., lo, ..)")
N("C05_PUB_SENDBUF_MAX", int(_m.group(2)) if _m else 0, "pub.c pub0_sock_set_sendbuf: nni_copyin_int(.., hi)")

Nat("C05_SOCK_URQ_DEFAULT", find_int("src/core/socket.c", r"nni_msgq_init\(&s->s_urq,\s*(\d+)\)", "default capacity of s_urq"), "socket.c: nni_msgq_init(&s->s_urq, k)")
_m = _need(re.search(r"sock_set_recvbuf\(.*?nni_copyin_int\(&len, buf, sz, (\d+), (\d+), t\)", _sock, re.S), "sock_set_recvbuf range")
N("C05_SOCK_RECVBUF_MIN", int(_m.group(1)) if _m else 0, "socket.c sock_set_recvbuf: nni_copyin_int(.., lo, ..)")
N("C05_SOCK_RECVBUF_MAX", int(_m.group(2)) if _m else 0, "socket.c sock_set_recvbuf: nni_copyin_int(.., hi)")

_e = src("include/nng/nng.h")
for _n in ("NNG_EINVAL", "NNG_ECLOSED", "NNG_EAGAIN", "NNG_ENOTSUP", "NNG_ENOENT", "NNG_EPROTO"):
    _m = _need(re.search(r"\b%s\s*=\s*(\d+)\s*," % _n, _e), "%s in include/nng/nng.h" % _n)
    N("C05_" + _n, int(_m.group(1)) if _m else 0, "include/nng/nng.h")

# ---- which form of sub0_ctx_unsubscribe: does the purge clear the pollable?
_m = _need(re.search(r"\nsub0_ctx_unsubscribe\(sub0_ctx \*ctx.*?\n\}\n", _sub, re.S), "sub0_ctx_unsubscribe in sub.c")
_body = _m.group(0) if _m else ""
_need(re.search(r"nni_lmq_get\(&ctx->lmq, &msg\);\s*if \(sub0_matches\(ctx, nni_msg_body\(msg\), nni_msg_len\(msg\)\)\)\s*\{\s*\(void\) nni_lmq_put\(&ctx->lmq, msg\);\s*\}\s*else\s*\{\s*nni_msg_free\(msg\);", _body), "sub0_ctx_unsubscribe requeue filter")
_clears = bool(re.search(r"nni_lmq_empty\(&ctx->lmq\)[^;{]*\{?\s*nni_pollable_clear\(&sock->readable\)", _body)) and "sock->master" in _body
extra_text.append("Definition C05_SUB_UNSUB_CLEARS_POLL : bool := %s.  (* sub.c sub0_ctx_unsubscribe clears sock->readable when the master queue is purged to empty *)"
                  % ("true" if _clears else "false"))

# ---- which form of nni_msgq_aio_get: nni_aio_start before anything else (pinned), or only when the
#      operation has to wait (repaired: another reader ahead, or nothing queued and no writer waiting)?
_m = _need(re.search(r"\nnni_msgq_aio_get\(nni_msgq \*mq, nni_aio \*aio\)\s*\{(.*?)\n\}\n", _mq, re.S), "nni_msgq_aio_get in msgqueue.c")
_g = re.sub(r"//[^\n]*", "", _m.group(1)) if _m else ""
_start_first = bool(re.match(r"\s*nni_mtx_lock\(&mq->mq_lock\);\s*if \(!nni_aio_start\(aio, nni_msgq_cancel, mq\)\)", _g))
_start_if_wait = bool(re.match(r"\s*nni_mtx_lock\(&mq->mq_lock\);\s*if \(\(!nni_list_empty\(&mq->mq_aio_getq\)\)\s*\|\|\s*"
                               r"\(\(mq->mq_len == 0\)\s*&&\s*nni_list_empty\(&mq->mq_aio_putq\)\)\)\s*\{\s*"
                               r"if \(!nni_aio_start\(aio, nni_msgq_cancel, mq\)\)", _g))
if _g and not (_start_first or _start_if_wait):
    missing.append("nni_msgq_aio_get: neither the pinned nor the repaired placement of nni_aio_start")
extra_text.append("Definition C05_MSGQ_GET_TRIES_FIRST : bool := %s.  (* msgqueue.c nni_msgq_aio_get calls nni_aio_start only when it has to wait *)"
                  % ("true" if _start_if_wait else "false"))
# ---- nni_msgq_resize: are the queues / run_notify re-run before unlocking?
_m = _need(re.search(r"\nnni_msgq_resize\(nni_msgq \*mq, int cap\)\s*\{(.*?)\n\}\n", _mq, re.S), "nni_msgq_resize in msgqueue.c")
_r = re.sub(r"//[^\n]*", "", _m.group(1)) if _m else ""
_need(re.search(r"while \(mq->mq_len > \(\(unsigned\) cap \+ 1\)\)", _r), "nni_msgq_resize drop rule (len > cap + 1)")
_rs = bool(re.search(r"out:\s*nni_msgq_run_putq\(mq\);\s*nni_msgq_run_getq\(mq\);\s*nni_msgq_run_notify\(mq\);\s*nni_mtx_unlock", _r))
_rs_pinned = bool(re.search(r"out:\s*nni_mtx_unlock", _r))
if _r and not (_rs or _rs_pinned):
    missing.append("nni_msgq_resize: neither the pinned nor the repaired epilogue")
extra_text.append("Definition C05_MSGQ_RESIZE_NOTIFIES : bool := %s.  (* msgqueue.c nni_msgq_resize re-runs the queues and run_notify *)"
                  % ("true" if _rs else "false"))
