# C14: which literal result codes do the SP transports hand to the core's connect / accept aio, and in which
# context -- the endpoint's OWN close (the application closed it) or anything else (peer-side events, the
# peer's listener going away, resource failures).  Regenerated from the source on every run; Props/Properties_C14
# proves that every code of the second kind makes the dialer redial and the listener re-arm.
import re as _re
import os as _os


def _strip(t):
    t = _re.sub(r"/\*.*?\*/", " ", t, flags=_re.S)
    return _re.sub(r"//[^\n]*", " ", t)


_h = src("include/nng/nng.h")
_errv = dict((a, int(b, 0)) for a, b in _re.findall(r"\b(NNG_E\w+)\s*=\s*(0x[0-9a-fA-F]+|\d+)", _h))
_EPFN = _re.compile(r"(_ep_|nego_cb$|dial_cb$|accept_cb$|accept_clients$|resolv_cb$|timer_cb$|conn_finish$)")
_sites = []
for _tr in ("inproc/inproc.c", "tcp/tcp.c", "ipc/ipc.c", "tls/tls.c", "ws/websocket.c", "socket/sockfd.c", "udp/udp.c", "dtls/dtls.c"):
    _p = _os.path.join(REPO, "src", "sp", "transport", _tr)
    if not _os.path.exists(_p):
        missing.append("transport source src/sp/transport/%s" % _tr)
        continue
    _t = _strip(open(_p, errors="replace").read())
    _fns = [(m.start(), m.group(1)) for m in _re.finditer(r"^([A-Za-z_]\w*)\s*\([^;{]*\)\s*\{", _t, _re.M)]

    def _fn_at(pos):
        f = "?"
        for s, n in _fns:
            if s <= pos:
                f = n
        return f
    _found = []
    for _m in _re.finditer(r"\b(?:nni_aio_finish_error|inproc_conn_finish)\s*\(\s*([^,()]+(?:\([^()]*\))?[^,()]*),\s*(NNG_E\w+)", _t):
        _found.append((_m.start(), _m.group(1).strip(), _m.group(2)))
    for _m in _re.finditer(r"\brv\s*=\s*(NNG_E\w+)\s*;", _t):
        _found.append((_m.start(), "rv", _m.group(1)))
    for _pos, _aio, _code in sorted(_found):
        _f = _fn_at(_pos)
        if not _EPFN.search(_f):
            continue          # pipe-level send/receive completions are not connect / accept completions
        _pre = _re.sub(r"\s+", " ", _t[max(0, _pos - 400):_pos])
        # (1) under `if (ep->closed)` (possibly after freeing the fresh connection / unlocking)
        _own = bool(_re.search(r"if \((?:ep|l|d)->closed\) \{(?: [^{}]*;)? ?$", _pre)) or \
            bool(_re.search(r"if \((?:ep|l|d)->closed\) \{ [^{}]{0,120}$", _pre))
        # (2) in the endpoint's close / stop: its own aio, or a loop over one of its own lists
        if _re.search(r"_ep_(close|stop)$", _f):
            _lst = _re.findall(r"nni_list_first\(&(\w+)->", _pre)
            if _re.match(r"ep->user_?aio$", _aio) or (_lst and _lst[-1] == "ep"):
                _own = True
        # (3) the mapping NNG_ECLOSED -> NNG_ECONNSHUT of the negotiation callbacks is a peer-side code
        if _code not in _errv:
            missing.append("%s used in %s:%s" % (_code, _tr, _f))
            continue
        _sites.append((_tr.split("/")[-1], _f, _errv[_code], _own, _code))

# the sites the scenario family of C14 is about must be there (a rewrite that hides them from this scan is reported)
_need = [("inproc.c", "inproc_ep_close", False), ("inproc.c", "inproc_ep_close", True), ("inproc.c", "inproc_ep_connect", False),
         ("tcp.c", "tcptran_ep_close", True), ("tcp.c", "tcptran_pipe_nego_cb", False), ("ipc.c", "ipc_ep_close", True),
         ("ipc.c", "ipc_pipe_nego_cb", False)]
for _n in _need:
    if not any((s[0], s[1], s[3]) == _n for s in _sites):
        missing.append("completion site %s:%s (%s) for the table of transport failure codes" % (_n[0], _n[1], "own close" if _n[2] else "peer side"))
extra_text.append("(* C14: literal result codes the transports give to the core's connect / accept aio: (file, function, code, true = in the context of the endpoint's own close) *)")
extra_text.append("Definition C14_TRAN_FAIL_SITES : list (string * string * N * bool) := [" +
                  ";\n  ".join('("%s"%%string, "%s"%%string, %d%%N, %s)' % (a, b, c, "true" if d else "false") for a, b, c, d, e in _sites) + "].")
Nat("C14_TRAN_FAIL_SITE_COUNT", len(_sites), "number of literal connect/accept completion sites found in src/sp/transport")
