# C11: the reference-release shape of the negotiation error path of the stream transports (SpLedgerModel.lf_nego_err_rele)
# (exec'd by tools/gen_consts.py with src, N, Nat, missing, extra_text, re in scope)
_ok = True
for _p, _fn, _pipe in [("src/sp/transport/tcp/tcp.c", "tcptran_pipe_nego_cb", "npipe"),
                       ("src/sp/transport/ipc/ipc.c", "ipc_pipe_nego_cb", "pipe"),
                       ("src/sp/transport/socket/sockfd.c", "sfd_tran_pipe_nego_cb", "npipe")]:
    m = re.search(r"\n%s\(void \*arg\)\s*\{.*?\n\}" % _fn, src(_p), re.S)
    if not m:
        missing.append("%s in %s" % (_fn, _p))
        _ok = False
        continue
    _err = m.group(0).split("error:")[-1]
    if not (re.search(r"nni_pipe_close\(p->%s\);" % _pipe, _err) and re.search(r"nni_pipe_rele\(p->%s\);" % _pipe, _err)
            and re.search(r"nng_stream_close\(p->conn\);", _err)):
        _ok = False
extra_text.append("Definition C11_NEGO_ERR_RELEASES : bool := %s.  (* tcp/ipc/sockfd *_pipe_nego_cb error path: "
                  "nng_stream_close, nni_pipe_close, nni_pipe_rele *)" % ("true" if _ok else "false"))
