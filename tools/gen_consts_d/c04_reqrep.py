# c04_reqrep.py -- drop-in of tools/gen_consts.py (exec()'d with its globals): regenerates
# from the current sources of src/sp/protocol/reqrep0/{req,rep,xreq,xrep}.c (C04, C12)
#   * protocol / peer numbers of the four files,
#   * default resend time and tick (NNI_SECOND from defs.h), TTL default and option range,
#   * the request id range (nni_id_map_init(&s->requests, lo, hi, true)),
#   * queue depths used by the raw variants (xrep per-pipe sendq; the socket core's upper queues; the
#     range of the buffer options), the error numbers the models use,
#   * which of the known repairs the current source has (so that the model driver follows the source):
#       C04_REQ_CLONE_FIXED        req.c decides clone / free / requeue from a per-request snapshot of the
#                                  resend time (field req_retry), not from the current ctx->retry
#       C04_REQ_CANCEL_SEND_FIXED  req.c req0_ctx_cancel_send no longer asserts recv_aio == NULL but completes
#                                  a pending receive with NNG_ECANCELED
#       C04_MSGQ_NB_FIXED          msgqueue.c nni_msgq_aio_get/put do not begin with nni_aio_start
#       C04_MSGQ_RESIZE_FIXED      msgqueue.c nni_msgq_resize re-runs both waiter queues and run_notify
#       C04_REP_WBUSY_FIXED        rep.c raises or clears writable according to the busy state of the socket's reply pipe
#       C04_MSGQ_GET_RUNS_PUTQ     msgqueue.c nni_msgq_aio_get runs the writer side after the reader side
_D = "src/sp/protocol/reqrep0/"
_rq, _rp, _xq, _xp = (src(_D + f) for f in ("req.c", "rep.c", "xreq.c", "xrep.c"))


def _g(regex, text, what, path, flags=re.S):
    m = re.search(regex, text, flags)
    if not m:
        missing.append("%s in %s" % (what, path))
    return m


def _num(s):
    return int(s.rstrip("uUlL"), 0)


def _body(text, fn, path):
    m = re.search(r"^%s\([^)]*\)\s*\{.*?^\}" % re.escape(fn), text, re.S | re.M)
    if not m:
        missing.append("definition of %s in %s" % (fn, path))
        return ""
    return m.group(0)


for _tag, _txt, _f, _pfx in (("REQ", _rq, "req.c", "REQ0"), ("XREQ", _xq, "xreq.c", "REQ0"), ("REP", _rp, "rep.c", "REP0"), ("XREP", _xp, "xrep.c", "REP0")):
    for _w in ("SELF", "PEER"):
        _m = _g(r"#define\s+%s_%s\s+(0x[0-9a-fA-F]+|\d+)" % (_pfx, _w), _txt, "%s_%s" % (_pfx, _w), _D + _f)
        N("C04_%s_%s" % (_tag, _w), _num(_m.group(1)) if _m else 0, "%s%s %s_%s" % (_D, _f, _pfx, _w))
    _g(r"nni_pipe_peer\(p->pipe\)\s*!=\s*%s_PEER" % _pfx, _txt, "pipe_start peer check", _D + _f)
    _m = _g(r"nni_atomic_set\(&s->ttl,\s*(\d+)\)", _txt, "ttl default", _D + _f)
    Nat("C04_%s_TTL_DEFAULT" % _tag, int(_m.group(1)) if _m else 0, "%s%s sock_init: nni_atomic_set(&s->ttl, k)" % (_D, _f))
    _m = _g(r"nni_copyin_int\(&ttl,\s*buf,\s*sz,\s*(\d+),\s*NNI_MAX_MAX_TTL,\s*t\)", _txt, "ttl option range", _D + _f)
    Nat("C04_%s_TTL_MIN" % _tag, int(_m.group(1)) if _m else 0, "%s%s set_max_ttl: nni_copyin_int(.., lo, NNI_MAX_MAX_TTL, ..)" % (_D, _f))
Nat("C04_TTL_MAX", define_int("src/core/defs.h", "NNI_MAX_MAX_TTL"), "src/core/defs.h NNI_MAX_MAX_TTL")
_m = _g(r"uint32_t\s+m_header_buf\[\(NNI_MAX_MAX_TTL \+ (\d+)\)\]", src("src/core/message.c"), "m_header_buf size", "src/core/message.c")
Nat("C04_HEADER_BYTES", (define_int("src/core/defs.h", "NNI_MAX_MAX_TTL") + (int(_m.group(1)) if _m else 0)) * 4,
    "message.c: sizeof(m_header_buf) = (NNI_MAX_MAX_TTL + k) * 4")
_g(r"uint32_t\s+btrace\[NNI_MAX_MAX_TTL \+ 1\]", _rp, "rep0_ctx btrace size", _D + "rep.c")

_sec = define_int("src/core/defs.h", "NNI_SECOND")
_m = _g(r"s->retry\s*=\s*NNI_SECOND\s*\*\s*(\d+);", _rq, "default resend time", _D + "req.c")
N("C04_REQ_RESEND_DEFAULT", _sec * (int(_m.group(1)) if _m else 0), "req.c req0_sock_init: s->retry = NNI_SECOND * k")
_m = _g(r"s->retry_tick\s*=\s*NNI_SECOND;", _rq, "default resend tick", _D + "req.c")
N("C04_REQ_TICK_DEFAULT", _sec, "req.c req0_sock_init: s->retry_tick = NNI_SECOND")
_m = _g(r"nni_id_map_init\(&s->requests,\s*(\w+),\s*(\w+),\s*true\)", _rq, "requests id range", _D + "req.c")
N("C04_REQ_ID_MIN", _num(_m.group(1)) if _m else 0, "req.c nni_id_map_init(&s->requests, lo, hi, true)")
N("C04_REQ_ID_MAX", _num(_m.group(2)) if _m else 0, "req.c nni_id_map_init(&s->requests, lo, hi, true)")
_m = _g(r"if\s*\(dur\s*<\s*-(\d+)\)\s*\{\s*return\s*\(NNG_EINVAL\)", src("src/core/options.c"), "nni_copyin_ms lower bound", "src/core/options.c")
N("C04_MS_MIN_NEG", int(_m.group(1)) if _m else 0, "options.c nni_copyin_ms: dur < -k => NNG_EINVAL")

_m = _g(r"nni_msgq_init\(&p->sendq,\s*(\d+)\)", _xp, "xrep per-pipe sendq depth", _D + "xrep.c")
Nat("C04_XREP_PIPE_SENDQ", int(_m.group(1)) if _m else 0, "xrep.c xrep0_pipe_init: nni_msgq_init(&p->sendq, k)")
_sk = src("src/core/socket.c")
_m = _g(r"nni_msgq_init\(&s->s_uwq,\s*(\d+)\)", _sk, "upper write queue depth", "src/core/socket.c")
Nat("C04_SOCK_UWQ_DEFAULT", int(_m.group(1)) if _m else 0, "socket.c: nni_msgq_init(&s->s_uwq, k)")
_m = _g(r"nni_msgq_init\(&s->s_urq,\s*(\d+)\)", _sk, "upper read queue depth", "src/core/socket.c")
Nat("C04_SOCK_URQ_DEFAULT", int(_m.group(1)) if _m else 0, "socket.c: nni_msgq_init(&s->s_urq, k)")
_bufs = re.findall(r"nni_copyin_int\(&len,\s*buf,\s*sz,\s*(\d+),\s*(\d+),\s*t\)", _sk)
if len(_bufs) != 2 or _bufs[0] != _bufs[1]:
    missing.append("two identical buffer-size nni_copyin_int ranges in src/core/socket.c (found %r)" % (_bufs,))
    _bufs = [("0", "0")]
N("C04_SOCK_BUF_MAX", int(_bufs[0][1]), "socket.c sock_set_sendbuf/recvbuf: nni_copyin_int(.., 0, k, ..)")

_e = src("include/nng/nng.h")
for _n in ("NNG_ENOMEM", "NNG_EINVAL", "NNG_ECLOSED", "NNG_EAGAIN", "NNG_ENOTSUP", "NNG_ESTATE", "NNG_EPROTO", "NNG_ECONNRESET", "NNG_ECANCELED"):
    _m = _g(r"\b%s\s*=\s*(\d+)\s*," % _n, _e, _n, "include/nng/nng.h")
    N("C04_" + _n, int(_m.group(1)) if _m else 0, "include/nng/nng.h")

# ---- repairs ----
# clone policy: pinned = the three decisions read ctx->retry; repaired = they read ctx->req_retry
_reset = _body(_rq, "req0_ctx_reset", _D + "req.c")
_runq = _body(_rq, "req0_run_send_queue", _D + "req.c")
_rcb = _body(_rq, "req0_recv_cb", _D + "req.c")
_pc = _body(_rq, "req0_pipe_close", _D + "req.c")
_pin = lambda b: re.search(r"if\s*\(ctx->retry\s*>\s*0\)\s*\{\s*nni_msg_(free|clone)\(ctx->req_msg\)", b) is not None
_fix = lambda b: re.search(r"if\s*\(ctx->req_retry\s*>\s*0\)\s*\{\s*nni_msg_(free|clone)\(ctx->req_msg\)", b) is not None
_allpin = _pin(_reset) and _pin(_runq) and _pin(_rcb) and re.search(r"if\s*\(ctx->retry\s*<=\s*0\)", _pc) is not None
_allfix = _fix(_reset) and _fix(_runq) and _fix(_rcb) and re.search(r"if\s*\(ctx->req_retry\s*<=\s*0\)", _pc) is not None \
    and re.search(r"ctx->req_retry\s*=\s*ctx->retry;", _body(_rq, "req0_ctx_send", _D + "req.c")) is not None
if not _allpin and not _allfix:
    missing.append("req.c clone/free/requeue decisions (neither the pinned form on ctx->retry nor the repaired form on ctx->req_retry)")
extra_text.append("Definition C04_REQ_CLONE_FIXED : bool := %s.  (* req.c: clone/free/requeue keyed on the per-request snapshot req_retry *)"
                  % ("true" if _allfix else "false"))
_cs = _body(_rq, "req0_ctx_cancel_send", _D + "req.c")
_cs_pin = "NNI_ASSERT(ctx->recv_aio == NULL)" in _cs
_cs_fix = (not _cs_pin) and re.search(r"ctx->recv_aio\s*!=\s*NULL\)\s*\{\s*nni_aio_finish_error\(ctx->recv_aio,\s*NNG_ECANCELED\)", _cs) is not None
if not _cs_pin and not _cs_fix:
    missing.append("req0_ctx_cancel_send (neither the pinned assertion nor the repaired completion of recv_aio) in req.c")
extra_text.append("Definition C04_REQ_CANCEL_SEND_FIXED : bool := %s.  (* req.c req0_ctx_cancel_send completes a pending receive with NNG_ECANCELED *)"
                  % ("true" if _cs_fix else "false"))
_mq = src("src/core/msgqueue.c")
_first = lambda b: re.search(r"nni_mtx_lock\(&mq->mq_lock\);\s*(?://[^\n]*\n\s*)*if\s*\(!nni_aio_start\(", b) is not None
_gb = _body(_mq, "nni_msgq_aio_get", "src/core/msgqueue.c")
_pb = _body(_mq, "nni_msgq_aio_put", "src/core/msgqueue.c")
extra_text.append("Definition C04_MSGQ_NB_FIXED : bool := %s.  (* msgqueue.c nni_msgq_aio_get/put do not begin with nni_aio_start *)"
                  % ("false" if (_first(_gb) or _first(_pb)) else "true"))
# shape lints: the branches the models mirror
_g(r"\(\(ctx\s*=\s*nni_id_get\(&s->requests,\s*id\)\)\s*==\s*NULL\)\s*\|\|\s*\(ctx->send_aio\s*!=\s*NULL\)\s*\|\|\s*\(ctx->rep_msg\s*!=\s*NULL\)", _rcb, "req0_recv_cb discard test", _D + "req.c")
_g(r"\(ctx->recv_aio\s*!=\s*NULL\)\s*\|\|\s*\(\(ctx->req_msg\s*==\s*NULL\)\s*&&\s*\(ctx->rep_msg\s*==\s*NULL\)\)", _rq, "req0_ctx_recv state test", _D + "req.c")
_g(r"ctx->retry_time\s*>\s*now\s*\|\|\s*\(ctx->req_msg\s*==\s*NULL\)", _rq, "req0_retry_cb skip test", _D + "req.c")
_g(r"if\s*\(hops\s*>\s*ttl\)", _rp, "rep0_pipe_recv_cb hop test", _D + "rep.c")
_g(r"if\s*\(hops\s*>\s*ttl\)", _xp, "xrep0_pipe_recv_cb hop test", _D + "xrep.c")
_g(r"ctx->btrace_len\s*=\s*0;\s*ctx->pipe_id\s*=\s*0;", _rp, "rep0_ctx_send clears the backtrace", _D + "rep.c")
# ids and headers (ReqIdsProofs: the id map holds the ids of the requests held now; cooked sends ignore the application's header)
_g(r"if\s*\(ctx->request_id\s*!=\s*0\)\s*\{\s*nni_id_remove\(&s->requests,\s*ctx->request_id\);\s*ctx->request_id\s*=\s*0;\s*\}", _reset,
   "req0_ctx_reset retires the request id whenever one is set (independently of req_msg)", _D + "req.c")
_g(r"nni_msg_header_clear\(msg\);\s*nni_msg_header_append_u32\(msg,\s*ctx->request_id\);", _body(_rq, "req0_ctx_send", _D + "req.c"),
   "req0_ctx_send replaces the application's header by the request id", _D + "req.c")
_g(r"msg\s*=\s*nni_aio_get_msg\(aio\);\s*nni_msg_header_clear\(msg\);", _body(_rp, "rep0_ctx_send", _D + "rep.c"),
   "rep0_ctx_send clears the application's header before appending the backtrace", _D + "rep.c")
_rs = _body(_mq, "nni_msgq_resize", "src/core/msgqueue.c")
extra_text.append("Definition C04_MSGQ_RESIZE_FIXED : bool := %s.  (* msgqueue.c nni_msgq_resize re-runs the waiter queues and run_notify *)"
                  % ("true" if re.search(r"nni_msgq_run_putq\(mq\);\s*nni_msgq_run_getq\(mq\);\s*nni_msgq_run_notify\(mq\);\s*nni_mtx_unlock", _rs) else "false"))
extra_text.append("Definition C04_REQ_STASH_FIXED : bool := %s.  (* req.c req0_recv_cb takes a matched context off its pipe's list and the retry queue *)"
                  % ("true" if ("nni_list_node_remove(&ctx->pipe_node)" in _rcb and "nni_list_node_remove(&ctx->retry_node)" in _rcb) else "false"))
extra_text.append("Definition C04_REQ_RDCLR_FIXED : bool := %s.  (* req.c req0_ctx_reset clears the readable pollable with the master's stashed reply *)"
                  % ("true" if "nni_pollable_clear(&s->readable)" in _reset else "false"))
_rpc = _body(_rp, "rep0_pipe_close", _D + "rep.c")
extra_text.append("Definition C04_REP_RCLOSE_FIXED : bool := %s.  (* rep.c rep0_pipe_close clears the readable pollable when recvpipes becomes empty *)"
                  % ("true" if "nni_pollable_clear(&s->readable)" in _rpc else "false"))
_rcs = _body(_rp, "rep0_ctx_send", _D + "rep.c")
extra_text.append("Definition C04_REP_NBSEND_FIXED : bool := %s.  (* rep.c rep0_ctx_send gives the reply slot back when nni_aio_start refuses *)"
                  % ("true" if re.search(r"if\s*\(!nni_aio_start\(aio,\s*rep0_ctx_cancel_send,\s*ctx\)\)\s*\{[^}]*ctx->btrace_len\s*=", _rcs) else "false"))
extra_text.append("Definition C04_REP_SAIO_FIXED : bool := %s.  (* rep.c rep0_ctx_send refuses (NNG_ESTATE) while ctx->saio is pending, before the reply slot is consumed *)"
                  % ("true" if re.search(r"nni_mtx_lock\(&s->lk\);\s*if\s*\(ctx->saio\s*!=\s*NULL\)\s*\{[^}]*NNG_ESTATE[^}]*\}\s*len\s*=\s*ctx->btrace_len", _rcs) else "false"))
_rcr = _body(_rp, "rep0_ctx_recv", _D + "rep.c")
_rprc = _body(_rp, "rep0_pipe_recv_cb", _D + "rep.c")
_wb = lambda b: re.search(r"if\s*\(ctx\s*==\s*&s->ctx\)\s*\{\s*if\s*\(!p->busy\)\s*\{\s*nni_pollable_raise\(&s->writable\);\s*\}\s*else\s*\{\s*nni_pollable_clear\(&s->writable\);", b) is not None
_wb_pin = lambda b: re.search(r"if\s*\(\(ctx\s*==\s*&s->ctx\)\s*&&\s*!p->busy\)\s*\{\s*nni_pollable_raise\(&s->writable\);", b) is not None
_wb_send = re.search(r"p->busy\s*=\s*true;\s*if\s*\(p->id\s*==\s*s->ctx\.pipe_id\)\s*\{(?:\s*//[^\n]*\n)*\s*nni_pollable_clear\(&s->writable\);", _rcs) is not None
_wb_all = _wb(_rcr) and _wb(_rprc) and _wb_send
if not _wb_all and not (_wb_pin(_rcr) and _wb_pin(_rprc) and not _wb_send):
    missing.append("rep.c writable pollable on receive / send (neither the pinned form nor the repaired raise-or-clear form in rep0_ctx_recv, rep0_pipe_recv_cb and rep0_ctx_send)")
extra_text.append("Definition C04_REP_WBUSY_FIXED : bool := %s.  (* rep.c: writable raised or cleared according to the busy state of the socket's reply pipe *)"
                  % ("true" if _wb_all else "false"))
extra_text.append("Definition C04_MSGQ_GET_RUNS_PUTQ : bool := %s.  (* msgqueue.c nni_msgq_aio_get runs nni_msgq_run_putq after nni_msgq_run_getq *)"
                  % ("true" if re.search(r"nni_msgq_run_getq\(mq\);\s*(?://[^\n]*\n\s*)*nni_msgq_run_putq\(mq\);", _gb) else "false"))
