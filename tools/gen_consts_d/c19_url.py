# c19_url.py -- drop-in of tools/gen_consts.py (exec()'d with its globals):
# regenerates from src/core/url.c the scheme table nni_schemes[], the default
# port table nni_url_default_ports[], the inline buffer size (u_static[]),
# the host-name limit, and three booleans saying which of the known defects
# (DESIGN section 8, C19) the current source has repaired, so that the model
# driver follows the source.
_u = src("src/core/url.c")
_h = src("src/core/url.h")


def _bytes(s):
    return "[" + "; ".join("%d" % b for b in s.encode("latin-1")) + "]%N"


# --- nni_schemes[]
_m = re.search(r"static\s+const\s+char\s*\*\s*nni_schemes\[\]\s*=\s*\{(.*?)\};", _u, re.S)
_schemes = []
if not _m:
    missing.append("nni_schemes[] in src/core/url.c")
else:
    _body = re.sub(r"//[^\n]*", "", _m.group(1))
    _schemes = re.findall(r'"([^"]*)"', _body)
    if not _schemes or not re.search(r"NULL\s*,?\s*$", _body.strip()):
        missing.append("nni_schemes[] entries / NULL terminator in src/core/url.c")

# --- nni_url_default_ports[]
_m = re.search(r"nni_url_default_ports\[\]\s*=\s*\{(.*?)\};", _u, re.S)
_ports = []
if not _m:
    missing.append("nni_url_default_ports[] in src/core/url.c")
else:
    _body = re.sub(r"//[^\n]*", "", _m.group(1))
    _ports = [(a, int(b)) for a, b in re.findall(r'\{\s*"([^"]*)"\s*,\s*(\d+)\s*\}', _body)]
    if not _ports:
        missing.append("nni_url_default_ports[] entries in src/core/url.c")

# --- schemes treated as path-only (strcmp chain at the top of the parser)
_m = re.search(r"if \(((?:\s*\(strcmp\(url->u_scheme, \"[a-z+0-9]+\"\) == 0\)\s*(?:\|\|)?)+)\)\s*\{\s*url->u_path\s*=\s*p;", _u)
_special = re.findall(r'"([^"]+)"', _m.group(1)) if _m else []
if not _special:
    missing.append("path-only scheme list (strcmp chain) in src/core/url.c")

# --- u_static size
_m = re.search(r"char\s+u_static\[(\w+)\]", _h)
_static = 0
if not _m:
    missing.append("u_static[] in src/core/url.h")
elif _m.group(1).isdigit():
    _static = int(_m.group(1))
else:
    _static = define_int("include/nng/nng.h", _m.group(1))
_hostmax = find_int("src/core/url.c", r"strlen\(url->u_hostname\)\s*>=\s*(\d+)", "host name limit")

# --- which defects are repaired in this source (False = as pinned)
# scheme lookup: exact iff the loop also checks the table entry ends at len
_loop = re.search(r"for \(int i = 0; nni_schemes\[i\] != NULL; i\+\+\) \{(.*?)\n\t\}", _u, re.S)
_loopb = _loop.group(1) if _loop else ""
_scheme_exact = bool(re.search(r"nni_schemes\[i\]\[len\]\s*==\s*('\\0'|0)|strlen\(nni_schemes\[i\]\)\s*==\s*len", _loopb))
# utf8: accumulate-then-advance iff, inside the continuation loop, "v += s[0] & 0x3fu" comes before "s++"
_cl = re.search(r"for \(int i = 0; i < nb; i\+\+\) \{(.*?)\n\t\t\}", _u, re.S)
_clb = _cl.group(1) if _cl else ""
if not _cl or "v +=" not in _clb and "v |=" not in _clb:
    missing.append("url_utf8_validate continuation loop in src/core/url.c")
_after_check = _clb.split("}", 1)[1] if "}" in _clb else _clb
_pos_inc = _after_check.find("s++")
_pos_acc = max(_after_check.find("v +="), _after_check.find("v |="))
_utf8_fixed = _pos_acc >= 0 and (_pos_inc < 0 or _pos_acc < _pos_inc)
# clone: allocation size
_m = re.search(r"dst->u_buffer\s*=\s*nni_alloc\((\w+)->u_bufsz\)", _u)
if not _m:
    missing.append("nni_url_clone_inline allocation in src/core/url.c")
_clone_fixed = bool(_m) and _m.group(1) == "src"
# clone: is the rebasing of u_hostname guarded by a NULL test (as userinfo/query/fragment are)?
if not re.search(r"dst->u_hostname\s*=\s*dst->u_buffer", _u):
    missing.append("nni_url_clone_inline u_hostname rebasing in src/core/url.c")
_clone_null_fixed = bool(re.search(r"if \(src->u_hostname != NULL\) \{\s*dst->u_hostname\s*=", _u))

# bracketed literal: does the scan for ']' reject a nested '['?
_bl = re.search(r"while \(\*p != '\]'\) \{(.*?)\n\t\t\}", _u, re.S)
if not _bl:
    missing.append("IPv6 bracket scan loop in src/core/url.c")
_bracket_fixed = bool(_bl) and bool(re.search(r"\*p == '\['", _bl.group(1)))

Nat("URL_STATIC_SIZE", _static, "core/url.h: char u_static[NNG_MAXADDRLEN]")
Nat("URL_HOST_MAX", _hostmax, "url.c: strlen(url->u_hostname) >= k")
extra_text.append("")
extra_text.append("(* url.c nni_schemes[] : %s *)" % " ".join(_schemes))
extra_text.append("Definition URL_SCHEMES : list (list N) :=\n  [ " + ";\n    ".join(_bytes(s) for s in _schemes) + " ].")
extra_text.append("(* url.c nni_url_default_ports[] : %s *)" % " ".join("%s=%d" % p for p in _ports))
extra_text.append("Definition URL_DEFAULT_PORTS : list (list N * N) :=\n  [ " + ";\n    ".join("(%s, %d%%N)" % (_bytes(a), b) for a, b in _ports) + " ].")
extra_text.append("(* url.c: schemes whose URL is scheme://path only : %s *)" % " ".join(_special))
extra_text.append("Definition URL_PATH_ONLY_SCHEMES : list (list N) :=\n  [ " + ";\n    ".join(_bytes(s) for s in _special) + " ].")
extra_text.append("(* which known defects of url.c the current source has repaired (false = as pinned) *)")
extra_text.append("Definition URL_FIX_SCHEME_EXACT : bool := %s.  (* scheme lookup also checks the table entry's length *)" % ("true" if _scheme_exact else "false"))
extra_text.append("Definition URL_FIX_UTF8_ACCUM : bool := %s.  (* url_utf8_validate accumulates s[0] before s++ *)" % ("true" if _utf8_fixed else "false"))
extra_text.append("Definition URL_FIX_CLONE_NULL : bool := %s.  (* nni_url_clone_inline tests src->u_hostname for NULL before rebasing it *)" % ("true" if _clone_null_fixed else "false"))
extra_text.append("Definition URL_FIX_BRACKET : bool := %s.  (* the scan for ']' rejects a '[' inside the brackets *)" % ("true" if _bracket_fixed else "false"))
extra_text.append("Definition URL_FIX_CLONE_ALLOC : bool := %s.  (* nni_url_clone_inline allocates src->u_bufsz *)" % ("true" if _clone_fixed else "false"))
