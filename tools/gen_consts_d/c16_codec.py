# C16: literals of the WebSocket / HTTP codecs, read from the current source.
# (exec'd by tools/gen_consts.py with src, N, Nat, missing, extra_text, re in scope)
_ws = "src/supplemental/websocket/websocket.c"
_t = src(_ws)


def _enum(name, key):
    m = re.search(r"\b%s\s*=\s*(0x[0-9a-fA-F]+|\d+)\s*," % re.escape(name), _t)
    if not m:
        missing.append("%s in %s" % (name, _ws))
        return
    N(key, int(m.group(1), 0), "websocket.c enum: %s" % name)


for _n in ["WS_CONT", "WS_TEXT", "WS_BINARY", "WS_CLOSE", "WS_PING", "WS_PONG"]:
    _enum(_n, "C16_" + _n)
for _n in ["WS_CLOSE_NORMAL_CLOSE", "WS_CLOSE_PROTOCOL_ERR", "WS_CLOSE_UNSUPP_FORMAT", "WS_CLOSE_TOO_BIG",
           "WS_CLOSE_INTERNAL"]:
    _enum(_n, "C16_" + _n)
for _n in ["WS_DEF_RECVMAX", "WS_DEF_MAXRXFRAME", "WS_DEF_MAXTXFRAME"]:
    m = re.search(r"#define\s+%s\s+\(1U\s*<<\s*(\d+)\)" % _n, _t)
    if not m:
        missing.append("%s in %s" % (_n, _ws))
    else:
        N("C16_" + _n, 1 << int(m.group(1)), "websocket.c #define %s (1U << %s)" % (_n, m.group(1)))
m = re.search(r"ws->fragsize\s*=\s*1\s*<<\s*(\d+);", _t)
if not m:
    missing.append("ws_init fragsize in " + _ws)
else:
    N("C16_WS_INIT_FRAGSIZE", 1 << int(m.group(1)), "websocket.c ws_init: ws->fragsize = 1 << k")
# control frames: if (len > 125) in ws_msg_init_control, frame->len > 125 in ws_read_frame_cb (ping and pong)
_c = [x for x in re.findall(r"if \((?:frame->)?len > (\d+)\) \{", _t) if x != "0"]
if len(_c) != 3 or len(set(_c)) != 1:
    missing.append("control frame limit (three tests 'len > 125') in " + _ws)
else:
    N("C16_WS_CONTROL_MAX", int(_c[0]), "websocket.c: control payload limit")
# length encodings
for _pat, _key, _what in [
        (r"if \(frame->len < (\d+)\) \{\s*frame->head\[1\] = frame->len & 0x7f;", "C16_WS_LEN7_LIMIT", "prep_tx 7-bit limit"),
        (r"\} else if \(frame->len < (\d+)\) \{\s*frame->head\[1\] = 126;", "C16_WS_LEN16_LIMIT", "prep_tx 16-bit limit"),
        (r"NNI_GET64\(frame->head \+ 2, frame->len\);\s*if \(frame->len < (\d+)\)", "C16_WS_MIN64", "read_cb minimal 64-bit"),
        (r"NNI_GET16\(frame->head \+ 2, frame->len\);\s*if \(frame->len < (\d+)\)", "C16_WS_MIN16", "read_cb minimal 16-bit")]:
    m = re.search(_pat, _t)
    if not m:
        missing.append("%s in %s" % (_what, _ws))
    else:
        N(_key, int(m.group(1)), "websocket.c " + _what)
# ws_dialer_dial: which settings are copied into the connection (the model's eff_recvmax / eff_fragsize)
m = re.search(r"\nws_dialer_dial\(.*?\n\}", _t, re.S)
if not m:
    missing.append("ws_dialer_dial in " + _ws)
else:
    _b = m.group(0)
    extra_text.append("Definition C16_DIALER_COPIES_RECVMAX : bool := %s.  (* ws_dialer_dial assigns ws->recvmax *)"
                      % ("true" if re.search(r"ws->recvmax\s*=", _b) else "false"))
    extra_text.append("Definition C16_DIALER_COPIES_FRAGSIZE : bool := %s.  (* ws_dialer_dial assigns ws->fragsize *)"
                      % ("true" if re.search(r"ws->fragsize\s*=", _b) else "false"))

# http_chunk.c
_ch = "src/supplemental/http/http_chunk.c"
N("C16_CHUNK_RADIX", find_int(_ch, r"\(SIZE_MAX - digit\) / (\d+)\)", "chunk overflow test divisor"), "http_chunk.c (SIZE_MAX - digit) / k")
N("C16_CHUNK_RADIX_MUL", find_int(_ch, r"cl->cl_size \*= (\d+);", "chunk size multiplier"), "http_chunk.c cl_size *= k")
N("C16_CHUNK_TAIL", find_int(_ch, r"nni_alloc\(cl->cl_size \+ (\d+)\)", "chunk CRLF tail"), "http_chunk.c alloc(size + k)")
N("C16_CHUNK_TAIL_GUARD", find_int(_ch, r"cl->cl_size > \(SIZE_MAX - (\d+)\)", "chunk tail guard"), "http_chunk.c size > SIZE_MAX - k")
if "cl->cl_size > (SIZE_MAX - cl->cl_total)" not in src(_ch) or "cl->cl_size > (cl->cl_maxsz - cl->cl_total)" not in src(_ch):
    missing.append("chunk total/maximum tests in " + _ch)
# http_conn.c
m = re.search(r"#define\s+HTTP_BUFSIZE\s+\((\d+)\s*-\s*(\d+)\)", src("src/supplemental/http/http_conn.c"))
if not m:
    missing.append("HTTP_BUFSIZE in http_conn.c")
else:
    N("C16_HTTP_BUFSIZE", int(m.group(1)) - int(m.group(2)), "http_conn.c HTTP_BUFSIZE")
m = re.search(r"http_versions\[\]\s*=\s*\{(.*?)NULL", src("src/supplemental/http/http_conn.c"), re.S)
if not m:
    missing.append("http_versions[] in http_conn.c")
else:
    _v = re.findall(r'"([^"]+)"', m.group(1))
    extra_text.append("Definition C16_HTTP_VERSIONS : list (list N) := [%s]%%N.  (* http_conn.c http_versions[] *)"
                      % "; ".join("[" + ";".join(str(ord(c)) for c in s) + "]" for s in _v))
# error codes
for _n in ["NNG_ENOMEM", "NNG_EAGAIN", "NNG_ENOTSUP", "NNG_EPROTO", "NNG_EMSGSIZE"]:
    m = re.search(r"\b%s\s*=\s*(\d+)," % _n, src("include/nng/nng.h"))
    if not m:
        missing.append(_n + " in nng.h")
    else:
        N("C16_" + _n, int(m.group(1)), "nng.h")
# base64 tables
_b = src("src/supplemental/websocket/base64.c")
m = re.search(r"const uint8_t decode\[256\]\s*=\s*\{(.*?)\};", _b, re.S)
_tab = [int(x, 16) for x in re.findall(r"0x[0-9A-Fa-f]+", m.group(1))] if m else []
if len(_tab) != 256:
    missing.append("decode[256] table in base64.c")
else:
    extra_text.append("Definition C16_B64_DECODE : list N := [%s]%%N.  (* base64.c decode[] *)" % ";".join(map(str, _tab)))
m = re.search(r"const uint8_t encode\[65\]\s*=\s*((?:\s*\"[^\"]*\")+);", _b)
_enc = "".join(re.findall(r'"([^"]*)"', m.group(1))) if m else ""
if len(_enc) != 64:
    missing.append("encode[65] string in base64.c")
else:
    extra_text.append("Definition C16_B64_ENCODE : list N := [%s]%%N.  (* base64.c encode[] *)" % ";".join(str(ord(c)) for c in _enc))
# which of the recorded HTTP parser defects are repaired in the current text (the
# model of HttpLineModel.v follows the unrepaired text; Properties_C16.codec_fix_flags ties it)
_hm = src("src/supplemental/http/http_msg.c")
m = re.search(r"\nnni_http_req_parse\(.*?\n\}", _hm, re.S)
if not m:
    missing.append("nni_http_req_parse in http_msg.c")
else:
    extra_text.append("Definition C16_REQ_PARSE_KEEPS_ERR : bool := %s.  (* nni_http_req_parse leaves the loop when a line fails to parse *)"
                      % ("true" if re.search(r"http_req_parse_line\(conn, line\);\s*\}\s*if \(rv != (?:0|NNG_OK)\) \{\s*break;", m.group(0)) else "false"))
m = re.search(r"\nhttp_res_parse_line\(.*?\n\}", _hm, re.S)
if not m:
    missing.append("http_res_parse_line in http_msg.c")
else:
    extra_text.append("Definition C16_STATUS_STRICT : bool := %s.  (* http_res_parse_line insists on a 3-digit status code *)"
                      % ("true" if re.search(r"strlen\(codestr\) != 3", m.group(0)) else "false"))
# ws_read_cb: does the running RECVMAXSZ test also count control frames?
m = re.search(r"if \(\(!ws->isstream\) && \(ws->recvmax > 0\)([^{]*)\{\s*size_t\s+totlen = frame->len;", _t)
if not m:
    missing.append("running recvmax test of ws_read_cb in " + _ws)
    # keep the name defined (the check is already broken by the missing pattern; the wire runs can still
    # look for a failing input)
    extra_text.append("Definition C16_RECVMAX_COUNTS_CONTROL : bool := false.  (* pattern not found: default *)")
else:
    extra_text.append("Definition C16_RECVMAX_COUNTS_CONTROL : bool := %s.  (* ws_read_cb: recvmax test not restricted to data frames *)"
                      % ("false" if re.search(r"0x0?8", m.group(1)) else "true"))
# http_rd_buf, HTTP_RD_REQ: is the read buffer compacted before it is tested for being full?
_hc = src("src/supplemental/http/http_conn.c")
m = re.search(r"case HTTP_RD_REQ:(.*?)case HTTP_RD_RES:", _hc, re.S)
if not m or "http_buf_pull_up(conn);" not in m.group(1) or "conn->rd_put == conn->bufsz" not in m.group(1):
    missing.append("HTTP_RD_REQ buffer policy (pull-up and full test) in http_conn.c")
else:
    _b = m.group(1)
    extra_text.append("Definition C16_RDBUF_PULLUP_FIRST : bool := %s.  (* http_rd_buf REQ: http_buf_pull_up precedes the rd_put == bufsz test *)"
                      % ("true" if _b.index("http_buf_pull_up(conn);") < _b.index("conn->rd_put == conn->bufsz") else "false"))
# http_rd_buf, HTTP_RD_FULL / HTTP_RD_RAW: the loop that serves a multi-element read from the buffer (Codec/HttpIov.v
# `consume`), and which vector the physical read is given (`rd_vector fixed`)
m = re.search(r"case HTTP_RD_FULL:(.*?)case HTTP_RD_DISCARD:", _hc, re.S)
_need = ["memcpy(iov[0].iov_buf, rbuf, n);", "iov[0].iov_len -= n;", "NNI_INCPTR(iov[0].iov_buf, n);", "conn->rd_get += n;",
         "rbuf += n;", "nni_aio_bump_count(aio, n);", "cnt -= n;", "nni_aio_set_iov(aio, nio, iov);",
         "nni_aio_set_iov(&conn->rd_aio, nio, iov);"]
if not m or any(x not in m.group(1) for x in _need):
    missing.append("HTTP_RD_FULL buffer-to-iov loop of http_rd_buf (shape modelled by Codec/HttpIov.v consume): " +
                   ", ".join(x for x in _need if not m or x not in m.group(1)))
    extra_text.append("Definition C16_RDBUF_IOV_REFETCH : bool := false.  (* pattern not found: default *)")
else:
    _b = m.group(1)
    _i0, _i1 = _b.index("nni_aio_set_iov(aio, nio, iov);"), _b.index("nni_aio_set_iov(&conn->rd_aio, nio, iov);")
    extra_text.append("Definition C16_RDBUF_IOV_REFETCH : bool := %s.  (* http_rd_buf fetches the user aio's vector again before the physical read *)"
                      % ("true" if "nni_aio_get_iov(aio, &nio, &iov);" in _b[_i0:_i1] else "false"))
m = re.search(r"case HTTP_RD_RES:(.*?)case HTTP_RD_CHUNK:", _hc, re.S)
if not m or not re.search(r"http_buf_pull_up\(conn\);.*iov1\.iov_len == 0\) \{\s*return \(NNG_EMSGSIZE\);", m.group(1), re.S):
    missing.append("HTTP_RD_RES buffer policy (pull-up, EMSGSIZE when full) in http_conn.c")
if 'strcpy((char *) conn->buf, "NNG-DISCARD: X");' not in _hc:
    missing.append("NNG-DISCARD placeholder in http_conn.c")
