# C11: literals and the order of the tests of the SP/UDP datagram classifier (src/sp/transport/udp/udp.c)
# (exec'd by tools/gen_consts.py with src, N, Nat, missing, extra_text, re in scope)
_u = "src/sp/transport/udp/udp.c"
_t = src(_u)
for _n in ["OPCODE_DATA", "OPCODE_CREQ", "OPCODE_CACK", "OPCODE_DISC", "OPCODE_MESH",
           "DISC_TYPE", "DISC_REFUSED", "DISC_MSGSIZE", "DISC_NEGO", "DISC_PROTO", "DISC_NOBUF"]:
    m = re.search(r"\b%s\s*=\s*(\d+)," % _n, _t)
    if not m:
        missing.append("%s in %s" % (_n, _u))
    else:
        N("C11_UDP_" + _n, int(m.group(1)), "udp.c enum: " + _n)
m = re.search(r"typedef struct udp_sp_msg \{\s*uint8_t\s+us_ver;\s*uint8_t\s+us_op_code;\s*uint16_t\s+us_type;\s*"
              r"uint16_t\s+us_params\[2\];\s*\} udp_sp_msg;", _t)
if not m:
    missing.append("struct udp_sp_msg layout in " + _u)
else:
    N("C11_UDP_HDR_LEN", 8, "udp.c sizeof(udp_sp_msg): 1 + 1 + 2 + 2*2")
_ok = ("if ((n >= sizeof(*hdr)) && (hdr->us_ver == 1)) {" in _t and
       "if ((dreq->us_length > len) || (dreq->us_length > p->rcvmax)) {" in _t and
       re.search(r"len = dreq->us_length;", _t) is not None and
       re.search(r"default:\s*udp_send_disc_full\(ep, sa, DISC_PROTO\);", _t) is not None)
extra_text.append("Definition C11_UDP_DATA_CHECKS : bool := %s.  (* udp_rx_cb: n >= sizeof(hdr) && ver == 1; udp_recv_data: "
                  "us_length > len || us_length > rcvmax => DISC; unknown opcode => DISC_PROTO *)" % ("true" if _ok else "false"))
