# c20_sites.py -- C20 site table (DESIGN 5/C20): every direct allocation call in src/
# outside tests / TLS / Windows / tools, with whether its result is compared with NULL
# (pointer-returning allocators) or its error code is tested (status-returning ones)
# before the first use.  A check of *shape*, regenerated from the source on every run;
# not a semantic proof.  Emits into Gen/Consts.v:
#     ALLOC_SITES : list alloc_site      (file, line, function, callee, checked, how)
# and writes out/C20/alloc_sites.json for checks/c20.py.
#
# Exec'd by tools/gen_consts.py (globals REPO, extra_text, missing, re, os) and
# loaded by checks/c20.py through scan_repo(repo).
import json as _json
import os as _os
import re as _re

# ---- what counts as an allocation call -------------------------------------------------
PTR_ALLOC = ["nni_alloc", "nni_zalloc", "NNI_ALLOC_STRUCT", "NNI_ALLOC_STRUCTS", "nni_strdup",
             "nng_alloc", "nng_strdup", "nni_msg_unique", "nni_msg_pull_up"]
# status-returning allocators: int/nng_err result, object through an out-parameter
RV_ALLOC = ["nni_msg_alloc", "nni_msg_dup", "nng_msg_alloc", "nng_msg_dup", "nni_aio_alloc",
            "nng_aio_alloc", "nni_asprintf", "nni_url_asprintf", "nni_url_asprintf_port",
            "nng_url_parse", "nng_url_clone", "nni_url_clone_inline", "nni_msgq_init",
            "nni_lmq_resize", "nni_msgq_resize", "nni_id_set", "nni_id_alloc", "nni_id_alloc32",
            "nni_msg_realloc", "nni_msg_append", "nni_msg_insert", "nni_msg_reserve",
            "nni_http_chunks_init", "nni_pollable_getfd", "nni_thr_init", "nni_plat_thr_init"]
EXCLUDE = _re.compile(r"(_test\.c$|/tls/|/dtls/|windows|/testing/|^src/tools/|/tools/)")

# ---- idioms the scanner cannot see: explicit per-site justifications --------------------
# key = (file, function, callee, nth occurrence of that callee in the function (0-based))
# Every entry was read by hand; an entry that no longer matches a flagged site is reported
# as stale by checks/c20.py (so the table cannot silently rot).
JUSTIFIED = {
    ("src/core/aio.c", "nng_verif_trace_start", "nni_zalloc", 0):
        "verification hook H2 (#ifdef NNG_VERIF), not library code; nng_verif_trace_record tests the pointer",
    ("src/core/lmq.c", "nni_lmq_init", "nni_lmq_resize", 0):
        "documented: 'initialization of a queue is guaranteed to succeed ... if memory cannot be allocated "
        "the capacity will only be 2' (proved: AllocFail lmq_init_o_clean)",
    ("src/core/stats.c", "nni_stat_set_string", "nni_strdup", 0):
        "best effort: a NULL string is a legal value of a string statistic (stat_update tests str != NULL)",
    ("src/core/stats.c", "stat_update", "nni_strdup", 0):
        "best effort: the snapshot's string is NULL, which is also its value for an item without a string; "
        "the old copy is freed, nothing leaks",
    ("src/sp/transport/udp/udp.c", "udp_start_rx", "nni_msg_insert", 0):
        "the insert only needs sizeof(udp_sp_msg)=20 bytes of headroom, which the trim of the previous round and "
        "nng_msg_alloc's 32-byte headroom provide (default rcvmax 65000); for a power-of-two rcvmax >= 1024 a "
        "refused grow leaves a 20-byte smaller receive window, memory-safe",
    ("src/sp/transport/udp/udp.c", "udp_recv_data", "nni_msg_realloc", 0):
        "restores the length of a message whose capacity is already >= rcvmax: nni_chunk_grow finds the room and does not allocate",
    ("src/supplemental/http/http_conn.c", "nni_http_set_status", "nni_strdup", 0):
        "documented in the source: on failure the built-in reason phrase is used",
}


def strip_c(txt):
    """blank out comments, string and char literals (same length, newlines kept)"""
    out = list(txt)
    i, n = 0, len(txt)
    while i < n:
        c = txt[i]
        if c == "/" and i + 1 < n and txt[i + 1] == "/":
            j = txt.find("\n", i)
            j = n if j < 0 else j
            for k in range(i, j):
                out[k] = " "
            i = j
        elif c == "/" and i + 1 < n and txt[i + 1] == "*":
            j = txt.find("*/", i + 2)
            j = n if j < 0 else j + 2
            for k in range(i, j):
                if out[k] != "\n":
                    out[k] = " "
            i = j
        elif c == '"' or c == "'":
            j = i + 1
            while j < n and txt[j] != c:
                if txt[j] == "\\":
                    j += 1
                j += 1
            for k in range(i + 1, min(j, n)):
                if out[k] != "\n":
                    out[k] = " "
            i = j + 1
        else:
            i += 1
    return "".join(out)


def functions(txt):
    """(name, body_start, body_end) of every top-level function body of stripped text"""
    res = []
    depth = 0
    i, n = 0, len(txt)
    start = None
    name = None
    # skip preprocessor lines for brace matching purposes: keep simple, nng sources are regular
    while i < n:
        c = txt[i]
        if c == "{":
            if depth == 0:
                # function body iff previous non-space char is ')'
                j = i - 1
                while j >= 0 and txt[j].isspace():
                    j -= 1
                if j >= 0 and txt[j] == ")":
                    # find matching '('
                    d = 0
                    k = j
                    while k >= 0:
                        if txt[k] == ")":
                            d += 1
                        elif txt[k] == "(":
                            d -= 1
                            if d == 0:
                                break
                        k -= 1
                    m = _re.search(r"([A-Za-z_]\w*)\s*$", txt[:k])
                    if m:
                        name = m.group(1)
                        start = i
            depth += 1
        elif c == "}":
            depth -= 1
            if depth == 0 and start is not None:
                res.append((name, start, i))
                start = None
        i += 1
    return res


def match_paren(txt, i):
    """index of the ')' matching the '(' at i"""
    d = 0
    n = len(txt)
    while i < n:
        if txt[i] == "(":
            d += 1
        elif txt[i] == ")":
            d -= 1
            if d == 0:
                return i
        i += 1
    return n - 1


def stmt_start(txt, p, lo):
    """start of the statement containing position p (not before lo)"""
    d = 0
    i = p - 1
    while i > lo:
        c = txt[i]
        if c == ")":
            d += 1
        elif c == "(":
            d -= 1
        elif c in ";{}" and d <= 0:
            return i + 1
        i -= 1
    return lo + 1


def stmt_end(txt, p, hi):
    """end of the statement that starts before p: the ';' or '{' at paren depth 0"""
    d = 0
    i = p
    while i < hi:
        c = txt[i]
        if c == "(":
            d += 1
        elif c == ")":
            d -= 1
        elif c in ";{" and d <= 0:
            return i
        i += 1
    return hi


LV = r"(\*?\s*[A-Za-z_]\w*(?:\s*(?:->|\.)\s*\w+|\s*\[[^\]]*\])*)"


def null_test_at(body, pos, tgt):
    """is the occurrence of the lvalue tgt at body[pos:] part of a NULL test / a forwarding?"""
    before = body[max(0, pos - 40):pos]
    after = body[pos + len(tgt):pos + len(tgt) + 40]
    if _re.match(r"\s*\)*\s*(==|!=)\s*NULL", after):
        return "null-test"
    if _re.search(r"NULL\s*(==|!=)\s*\(*\s*$", before):
        return "null-test"
    if _re.search(r"!\s*\(*\s*$", before):
        return "null-test"
    if _re.search(r"(if|while)\s*\(\s*$", before) and _re.match(r"\s*\)", after):
        return "null-test"
    if _re.search(r"(\&\&|\|\||\()\s*$", before) and _re.match(r"\s*(\&\&|\|\||\)\s*(\&\&|\|\||\{|\?))", after):
        return "null-test"
    if _re.match(r"\s*\?", after):
        return "null-test"
    if _re.search(r"return\s*\(*\s*$", before) and _re.match(r"\s*\)*\s*;", after):
        return "returned"
    return None


def rv_test_at(body, pos, tgt):
    before = body[max(0, pos - 40):pos]
    after = body[pos + len(tgt):pos + len(tgt) + 40]
    if _re.match(r"\s*\)*\s*(==|!=)\s*(0|NNG_OK|NNG_E\w+)", after):
        return "rv-test"
    if _re.search(r"(if|while|switch)\s*\(\s*\(*\s*$", before):
        return "rv-test"
    if _re.search(r"!\s*\(*\s*$", before):
        return "rv-test"
    if _re.search(r"return\s*\(*\s*$", before):
        return "returned"
    if _re.search(r"(\&\&|\|\|)\s*\(*\s*$", before):
        return "rv-test"
    return None


def classify(body, fstart, call_pos, callee, kind):
    """returns (checked, how, detail)"""
    open_p = body.index("(", call_pos)
    close_p = match_paren(body, open_p)
    s0 = stmt_start(body, call_pos, 0)
    s1 = stmt_end(body, close_p + 1, len(body))
    pre = body[s0:call_pos]
    post = body[close_p + 1:s1]
    stmt = body[s0:s1]
    rest = body[s1:]
    if _re.search(r"\breturn\s*\(*\s*(\([\w\s\*]+\)\s*)?$", pre):
        return True, "returned", "result returned to the caller"
    if kind == "ptr":
        m = _re.search(LV + r"\s*=\s*(?:\(\s*[\w\s]+\**\s*\)\s*)?$", pre)
        if not m:
            return False, "unassigned", "result neither assigned nor returned: " + " ".join(stmt.split())[:90]
        tgt = " ".join(m.group(1).split())
        if _re.match(r"\s*\)*\s*(==|!=)\s*NULL", post) or _re.search(r"!\s*\(+\s*" + _re.escape(m.group(1)) + r"\s*=\s*$", pre):
            return True, "inline", "compared with NULL in the same expression"
        # ternary / conditional inside the same statement after the call
        names = [tgt]
        if tgt.startswith("*"):
            names.append(tgt[1:].strip())
        # declaration "T *x = alloc()" : the lvalue is x
        base = tgt.lstrip("* ").strip()
        if base not in names:
            names.append(base)
        best = None
        for nm in names:
            pat = _re.compile(r"(?<![\w>.])" + _re.escape(nm).replace(r"\ ", r"\s*") + r"(?![\w])")
            for mm in pat.finditer(post + rest):
                # an occurrence that is itself followed by '->' or '[' or '.' is a use of a field
                if best is None or mm.start() < best[0]:
                    best = (mm.start(), nm, mm.group(0))
                break
        if best is None:
            return False, "no-use", "no later use of %s found" % tgt
        pos, nm, txt = best
        both = post + rest
        after = both[pos + len(txt):pos + len(txt) + 6]
        if _re.match(r"\s*(->|\[)", after) or (_re.match(r"\s*\.", after)):
            return False, "deref", "first use dereferences %s: %s" % (nm, " ".join(both[max(0, pos - 30):pos + 50].split()))
        t = null_test_at(both, pos, txt)
        if t == "null-test":
            return True, "next", "first use of %s is a NULL test" % nm
        if t == "returned":
            return True, "returned", "%s returned to the caller" % nm
        return False, "use", "first use of %s is not a NULL test: %s" % (nm, " ".join(both[max(0, pos - 40):pos + 60].split()))
    else:
        if _re.search(r"\(\s*void\s*\)\s*$", pre):
            return False, "void", "result cast to void: " + " ".join(stmt.split())[:90]
        if _re.match(r"\s*\)*\s*(==|!=)\s*(0|NNG_OK|NNG_E\w+)", post):
            return True, "inline", "status compared in the same expression"
        if _re.search(r"\b(if|while)\s*\(\s*\(*\s*!?\s*$", pre) or _re.search(r"(\&\&|\|\|)\s*\(*\s*!?\s*$", pre):
            return True, "inline", "status is the condition"
        m = _re.search(LV + r"\s*=\s*$", pre)
        if m:
            tgt = " ".join(m.group(1).split()).lstrip("* ").strip()
            if _re.match(r"\s*\)+\s*(==|!=)\s*(0|NNG_OK|NNG_E\w+)", post) or _re.match(r"\s*\)+\s*\)", post) and _re.search(r"\b(if|while)\b", pre):
                return True, "inline", "status assigned and compared in the same expression"
            pat = _re.compile(r"(?<![\w>.])" + _re.escape(tgt) + r"(?![\w])")
            mm = pat.search(post + rest)
            if not mm:
                return False, "no-use", "status %s never looked at" % tgt
            t = rv_test_at(post + rest, mm.start(), mm.group(0))
            if t:
                return True, "next" if t == "rv-test" else "returned", "first use of %s tests/returns the status" % tgt
            both = post + rest
            return False, "use", "status %s not tested first: %s" % (tgt, " ".join(both[max(0, mm.start() - 40):mm.start() + 60].split()))
        return False, "ignored", "status ignored: " + " ".join(stmt.split())[:90]


def scan_repo(repo):
    sites = []
    names = PTR_ALLOC + RV_ALLOC
    call_re = _re.compile(r"(?<![\w])(" + "|".join(names) + r")\s*\(")
    for root, _, files in _os.walk(_os.path.join(repo, "src")):
        for f in sorted(files):
            if not f.endswith(".c"):
                continue
            p = _os.path.join(root, f)
            rel = _os.path.relpath(p, repo)
            if EXCLUDE.search(rel):
                continue
            raw = open(p, errors="replace").read()
            txt = strip_c(raw)
            for (fn, b0, b1) in functions(txt):
                body = txt[b0:b1 + 1]
                seen = {}
                for m in call_re.finditer(body):
                    callee = m.group(1)
                    if callee == fn:
                        continue
                    kind = "ptr" if callee in PTR_ALLOC else "rv"
                    nth = seen.get(callee, 0)
                    seen[callee] = nth + 1
                    line = txt.count("\n", 0, b0 + m.start()) + 1
                    try:
                        ok, how, detail = classify(body, b0, m.start(), callee, kind)
                    except Exception as ex:  # never let one odd construct hide the rest
                        ok, how, detail = False, "scan-error", repr(ex)
                    key = (rel, fn, callee, nth)
                    just = JUSTIFIED.get(key)
                    sites.append({"file": rel, "line": line, "fn": fn, "callee": callee, "nth": nth, "kind": kind,
                                  "scan_checked": ok, "how": how, "detail": detail,
                                  "justified": just, "checked": bool(ok or just)})
    sites.sort(key=lambda s: (s["file"], s["line"]))
    return sites


def stale_justifications(sites):
    flagged = {(s["file"], s["fn"], s["callee"], s["nth"]) for s in sites if not s["scan_checked"]}
    return [k for k in JUSTIFIED if k not in flagged]


def coq_table(sites):
    def q(s):
        return '"%s"%%string' % s.replace('"', "'")
    lines = ["", "(* ---- C20: allocation site table (tools/gen_consts_d/c20_sites.py); a check of shape, not a semantic proof ---- *)",
             "Record alloc_site := mkAllocSite { as_file : string; as_line : N; as_fn : string; as_callee : string;",
             "                                    as_checked : bool; as_how : string }.",
             "Definition ALLOC_SITES : list alloc_site := ["]
    rows = []
    for s in sites:
        how = s["how"] if s["scan_checked"] else ("justified" if s["justified"] else "UNCHECKED:" + s["how"])
        rows.append("  mkAllocSite %s %d%%N %s %s %s %s" % (q(s["file"]), s["line"], q(s["fn"]), q(s["callee"]),
                                                         "true" if s["checked"] else "false", q(how)))
    lines.append(";\n".join(rows))
    lines.append("].")
    lines.append("Definition ALLOC_SITES_COUNT : nat := %d." % len(sites))
    return lines


if "extra_text" in globals():      # running inside gen_consts.py
    _sites = scan_repo(REPO)       # noqa: F821
    if len(_sites) < 100:
        missing.append("C20 allocation site scan found only %d sites" % len(_sites))   # noqa: F821
    extra_text.extend(coq_table(_sites))   # noqa: F821
    _outd = _os.path.join(_os.environ.get("NNGV_VERIF", "/verif"), "out", "C20")
    try:
        _os.makedirs(_outd, exist_ok=True)
        _json.dump(_sites, open(_os.path.join(_outd, "alloc_sites.json"), "w"), indent=1)
    except Exception:
        pass
