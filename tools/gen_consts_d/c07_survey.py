# c07_survey.py -- drop-in of tools/gen_consts.py (exec()'d with its globals): the
# literals of src/sp/protocol/survey0/{survey,respond,xsurvey,xrespond}.c that the
# C07 models use (protocol numbers, default survey time, TTL default and range,
# queue depths, survey id range), and which of the known repairs the current source has
# (so that the model driver follows the source):
#   C07_SURV_NBRECV_FIXED   survey.c surv0_ctx_recv clamps the aio expiry for `timeout < 0`, not `< 1`
#   C07_RESP_NB_FIXED       respond.c resp0_ctx_send tests btrace_len before it calls nni_aio_start
#   C07_RESP_WBUSY_FIXED    respond.c resp0_ctx_recv raises writable only for an idle pipe
#   C07_RESP_RCLOSE_FIXED   respond.c resp0_pipe_close clears readable
#   C07_RESP_SBUSY_FIXED    respond.c resp0_ctx_send tests ctx->saio != NULL (second send while one is queued)
#   C07_RESP_WOTHER_FIXED   respond.c resp0_ctx_send looks at s->ctx.pipe_id (clears writable for another context's send)
#   C07_RESP_WSTALE_FIXED   respond.c the two receive paths clear writable when the new survey's pipe is busy
#   C07_MSGQ_NB_FIXED       msgqueue.c nni_msgq_aio_get/put do not start with nni_aio_start
#   C07_MSGQ_RESIZE_FIXED   msgqueue.c nni_msgq_resize runs the put and get queues afterwards
#   C07_MSGQ_GET_RUNS_PUTQ  msgqueue.c nni_msgq_aio_get calls nni_msgq_run_putq after nni_msgq_run_getq
_S = "src/sp/protocol/survey0/"


def _body(path, fn):
    """text of the definition of function fn (from its name at column 0 to the closing brace at column 0)"""
    t = src(path)
    m = re.search(r"^%s\(.*?^\}" % re.escape(fn), t, re.S | re.M)
    if not m:
        missing.append("function %s in %s" % (fn, path))
        return ""
    return m.group(0)


def _int(path, regex, what, text=None):
    m = re.search(regex, text if text is not None else src(path), re.S)
    if not m:
        missing.append("%s in %s" % (what, path))
        return 0
    return int(m.group(1).rstrip("uU"), 0)


# protocol numbers
for _f, _tag in (("survey.c", "SURV"), ("xsurvey.c", "XSURV")):
    N("C07_%s_SELF" % _tag, define_int(_S + _f, "SURVEYOR0_SELF"), _S + _f)
    N("C07_%s_PEER" % _tag, define_int(_S + _f, "SURVEYOR0_PEER"), _S + _f)
_pm = re.search(r"#define\s+NNI_PROTO\(major,\s*minor\)\s*\(\(\(major\)\s*\*\s*(\d+)\)\s*\+\s*\(minor\)\)", src("src/core/protocol.h"))
if not _pm:
    missing.append("NNI_PROTO macro in src/core/protocol.h")
_mul = int(_pm.group(1)) if _pm else 0
for _f, _tag in (("respond.c", "RESP"), ("xrespond.c", "XRESP")):
    _t = src(_S + _f)
    for _nm, _out in (("NNI_PROTO_SURVEYOR_V0", "PEER"), ("NNI_PROTO_RESPONDENT_V0", "SELF")):
        _m = re.search(r"#define\s+%s\s+NNI_PROTO\((\d+),\s*(\d+)\)" % _nm, _t)
        if not _m:
            missing.append("%s in %s" % (_nm, _S + _f))
        N("C07_%s_%s" % (_tag, _out), (int(_m.group(1)) * _mul + int(_m.group(2))) if _m else 0, _S + _f + " " + _nm)
    if not re.search(r"nni_pipe_peer\(p->npipe\)\s*!=\s*NNI_PROTO_SURVEYOR_V0", _t):
        missing.append("pipe_start peer test in %s" % (_S + _f))
for _f in ("survey.c", "xsurvey.c"):
    if not re.search(r"nni_pipe_peer\(p->n?pipe\)\s*!=\s*SURVEYOR0_PEER", src(_S + _f)):
        missing.append("pipe_start peer test in %s" % (_S + _f))

# survey.c
_sv = src(_S + "survey.c")
_second = define_int("src/core/defs.h", "NNI_SECOND")
if not re.search(r"tmo\s*=\s*NNI_SECOND;", _sv):
    missing.append("default survey time (tmo = NNI_SECOND) in survey.c")
N("C07_SURVEY_TIME_DEFAULT", _second, "survey.c surv0_ctx_init: tmo = NNI_SECOND (defs.h)")
Nat("C07_SURV_RECV_BUF", _int(_S + "survey.c", r"if\s*\(ctx\s*==\s*&sock->ctx\)\s*\{\s*len\s*=\s*(\d+);", "recv_buf default"), "survey.c surv0_ctx_init: len = k")
Nat("C07_SURV_SEND_BUF", _int(_S + "survey.c", r"nni_atomic_set\(&sock->send_buf,\s*(\d+)\)", "send_buf default"), "survey.c surv0_sock_init: send_buf = k")
_m = re.search(r"nni_id_map_init\(&sock->surveys,\s*(\w+),\s*(\w+),\s*true\)", _sv)
if not _m:
    missing.append("nni_id_map_init(&sock->surveys ..) in survey.c")
N("C07_SURVEY_ID_LO", int(_m.group(1).rstrip("uU"), 0) if _m else 0, "survey.c surv0_sock_init")
N("C07_SURVEY_ID_HI", int(_m.group(2).rstrip("uU"), 0) if _m else 0, "survey.c surv0_sock_init")
if not re.search(r"\(ctx->survey_id\s*==\s*0\)\s*\|\|\s*\(now\s*>=\s*ctx->expire\)", _sv):
    missing.append("surv0_ctx_recv ESTATE test `(survey_id == 0) || (now >= expire)` in survey.c")
if not re.search(r"ctx->expire\s*=\s*nni_clock\(\)\s*\+\s*survey_time;", _sv):
    missing.append("surv0_ctx_send `expire = nni_clock() + survey_time` in survey.c")
_rb = _body(_S + "survey.c", "surv0_ctx_recv")
_old = re.search(r"\(timeout\s*<\s*1\)\s*\|\|", _rb)
_new = re.search(r"\(timeout\s*<\s*0\)\s*\|\|", _rb)
if not _old and not _new:
    missing.append("surv0_ctx_recv clamp test (neither `timeout < 1` nor `timeout < 0`) in survey.c")
extra_text.append("Definition C07_SURV_NBRECV_FIXED : bool := %s.  (* survey.c surv0_ctx_recv: clamp test is `timeout < 0` *)" % ("true" if _new else "false"))

# TTL default and range, all four files
_ttls = []
for _f, _pat in (("survey.c", r"sock->ttl\s*=\s*(\d+);"), ("respond.c", r"nni_atomic_set\(&s->ttl,\s*(\d+)\)"),
                 ("xsurvey.c", r"nni_atomic_set\(&s->ttl,\s*(\d+)\)"), ("xrespond.c", r"nni_atomic_set\(&s->ttl,\s*(\d+)\)")):
    _ttls.append(_int(_S + _f, _pat, "default ttl"))
    if not re.search(r"nni_copyin_int\(&(?:s->)?ttl,\s*buf,\s*sz,\s*1,\s*NNI_MAX_MAX_TTL,\s*t\)", src(_S + _f)):
        missing.append("ttl option range 1..NNI_MAX_MAX_TTL in %s" % (_S + _f))
if len(set(_ttls)) != 1:
    missing.append("the four survey0 files no longer share one default ttl: %r" % _ttls)
Nat("C07_TTL_DEFAULT", _ttls[0], "survey0/*.c sock_init: ttl = k")
Nat("C07_TTL_MIN", 1, "survey0/*.c set_max_ttl: nni_copyin_int(.., 1, NNI_MAX_MAX_TTL, ..)")

# raw sockets' queues
Nat("C07_XSURV_SENDQ", _int(_S + "xsurvey.c", r"nni_msgq_init\(&p->sendq,\s*(\d+)\)", "pipe sendq depth"), "xsurvey.c xsurv0_pipe_init")
Nat("C07_XRESP_SENDQ", _int(_S + "xrespond.c", r"nni_msgq_init\(&p->sendq,\s*(\d+)\)", "pipe sendq depth"), "xrespond.c xresp0_pipe_init")
Nat("C07_UWQ_DEFAULT", _int("src/core/socket.c", r"nni_msgq_init\(&s->s_uwq,\s*(\d+)\)", "upper write queue depth"), "socket.c nni_sock_create")
Nat("C07_URQ_DEFAULT", _int("src/core/socket.c", r"nni_msgq_init\(&s->s_urq,\s*(\d+)\)", "upper read queue depth"), "socket.c nni_sock_create")
_m = re.search(r"sock_set_recvbuf\(.*?nni_copyin_int\(&len,\s*buf,\s*sz,\s*(\d+),\s*(\d+),\s*t\)", src("src/core/socket.c"), re.S)
if not _m:
    missing.append("sock_set_recvbuf range in src/core/socket.c")
N("C07_BUF_OPT_MIN", int(_m.group(1)) if _m else 0, "socket.c sock_set_recvbuf/sendbuf")
N("C07_BUF_OPT_MAX", int(_m.group(2)) if _m else 0, "socket.c sock_set_recvbuf/sendbuf")
for _n in ("NNG_ESTATE", "NNG_ETIMEDOUT", "NNG_ECANCELED", "NNG_EAGAIN", "NNG_ECLOSED", "NNG_EPROTO", "NNG_EINVAL", "NNG_ENOTSUP", "NNG_ENOMEM"):
    N("C07_" + _n, _int("include/nng/nng.h", r"\b%s\s*=\s*(\d+)\s*," % _n, _n), "include/nng/nng.h")

# respond.c: which repairs are present
_sb = _body(_S + "respond.c", "resp0_ctx_send")
_i_start = _sb.find("nni_aio_start(")
_i_state = _sb.find("ctx->btrace_len) == 0")
if _i_start < 0 or _i_state < 0:
    missing.append("resp0_ctx_send: nni_aio_start / btrace_len test in respond.c")
extra_text.append("Definition C07_RESP_NB_FIXED : bool := %s.  (* respond.c resp0_ctx_send: btrace_len is tested before nni_aio_start *)"
                  % ("true" if 0 <= _i_state < _i_start else "false"))
_rb = _body(_S + "respond.c", "resp0_ctx_recv")
if "nni_pollable_raise(&s->writable)" not in _rb:
    missing.append("resp0_ctx_recv: raise of the writable pollable in respond.c")
_wb = re.search(r"!p->busy\)*\s*\{\s*nni_pollable_raise\(&s->writable\)", _rb)   # `(ctx == &s->ctx) && (!p->busy)` or nested ifs
extra_text.append("Definition C07_RESP_WBUSY_FIXED : bool := %s.  (* respond.c resp0_ctx_recv: writable raised only if !p->busy *)" % ("true" if _wb else "false"))
_cb = _body(_S + "respond.c", "resp0_pipe_close")
extra_text.append("Definition C07_RESP_RCLOSE_FIXED : bool := %s.  (* respond.c resp0_pipe_close clears the readable pollable *)"
                  % ("true" if "nni_pollable_clear(&s->readable)" in _cb else "false"))

extra_text.append("Definition C07_RESP_SBUSY_FIXED : bool := %s.  (* respond.c resp0_ctx_send refuses a send while ctx->saio is still queued *)"
                  % ("true" if re.search(r"ctx->saio\s*!=\s*NULL", _sb) else "false"))
extra_text.append("Definition C07_RESP_WOTHER_FIXED : bool := %s.  (* respond.c resp0_ctx_send clears writable when it makes the socket context's pipe busy *)"
                  % ("true" if re.search(r"s->ctx\.pipe_id", _sb) else "false"))

_rcb = _body(_S + "respond.c", "resp0_pipe_recv_cb")
extra_text.append("Definition C07_RESP_WSTALE_FIXED : bool := %s.  (* respond.c resp0_ctx_recv and resp0_pipe_recv_cb clear writable when the new survey's pipe is busy *)"
                  % ("true" if ("nni_pollable_clear(&s->writable)" in _rb and "nni_pollable_clear(&s->writable)" in _rcb) else "false"))

# msgqueue.c: the raw sockets' entry points
_gb = _body("src/core/msgqueue.c", "nni_msgq_aio_get")
_pb = _body("src/core/msgqueue.c", "nni_msgq_aio_put")
_first = lambda b: re.search(r"nni_mtx_lock\(&mq->mq_lock\);\s*(?://[^\n]*\n\s*)*if\s*\(!nni_aio_start\(", b) is not None
extra_text.append("Definition C07_MSGQ_NB_FIXED : bool := %s.  (* msgqueue.c nni_msgq_aio_get/put do not begin with nni_aio_start *)"
                  % ("false" if (_first(_gb) or _first(_pb)) else "true"))
_zb = _body("src/core/msgqueue.c", "nni_msgq_resize")
if "mq->mq_len > ((unsigned) cap + 1)" not in _zb:
    missing.append("nni_msgq_resize drop rule `mq_len > cap + 1` in src/core/msgqueue.c")
extra_text.append("Definition C07_MSGQ_RESIZE_FIXED : bool := %s.  (* msgqueue.c nni_msgq_resize runs nni_msgq_run_putq/getq *)"
                  % ("true" if ("nni_msgq_run_putq(mq)" in _zb and "nni_msgq_run_getq(mq)" in _zb) else "false"))
if "nni_msgq_run_getq(mq)" not in _gb:
    missing.append("nni_msgq_aio_get: nni_msgq_run_getq call in src/core/msgqueue.c")
if "nni_msgq_run_putq(mq)" not in _pb:
    missing.append("nni_msgq_aio_put: nni_msgq_run_putq call in src/core/msgqueue.c")
if "nni_msgq_run_getq(mq)" in _pb:
    missing.append("nni_msgq_aio_put now also runs the readers: the C07 raw models have no flag for that (src/core/msgqueue.c)")
_gp = re.search(r"nni_msgq_run_getq\(mq\);(?:\s*//[^\n]*)*\s*nni_msgq_run_putq\(mq\);", _gb)
extra_text.append("Definition C07_MSGQ_GET_RUNS_PUTQ : bool := %s.  (* msgqueue.c nni_msgq_aio_get: run_getq then run_putq *)"
                  % ("true" if _gp else "false"))
