# C01/C11: literals and the order of the checks of the stream transports' framing, read from the
# current source.  (exec'd by tools/gen_consts.py with src, N, Nat, missing, extra_text, re in scope)
_tcp = "src/sp/transport/tcp/tcp.c"
_ipc = "src/sp/transport/ipc/ipc.c"
_sfd = "src/sp/transport/socket/sockfd.c"
_defs = "src/core/defs.h"

# length prefix: uint8_t txlen[sizeof(uint64_t)] / tx_head[1 + sizeof(uint64_t)]
for _p, _pat, _key, _val in [
        (_tcp, r"uint8_t\s+txlen\[sizeof\(uint64_t\)\];\s*uint8_t\s+rxlen\[sizeof\(uint64_t\)\];", "C01_TCP_HEAD_LEN", 8),
        (_sfd, r"uint8_t\s+txlen\[sizeof\(uint64_t\)\];\s*uint8_t\s+rxlen\[sizeof\(uint64_t\)\];", "C01_SFD_HEAD_LEN", 8),
        (_ipc, r"uint8_t\s+tx_head\[1 \+ sizeof\(uint64_t\)\];\s*uint8_t\s+rx_head\[1 \+ sizeof\(uint64_t\)\];", "C01_IPC_HEAD_LEN", 9)]:
    if not re.search(_pat, src(_p)):
        missing.append("length prefix buffers in " + _p)
    else:
        N(_key, _val, _p + ": txlen/rxlen buffers")

m = re.search(r"#define\s+NNI_MAX_STREAM_MSGSZ\s+UINT64_C\((0x[0-9a-fA-F]+)\)", src(_defs))
if not m:
    missing.append("NNI_MAX_STREAM_MSGSZ in " + _defs)
else:
    N("C01_MAX_STREAM_MSGSZ", int(m.group(1), 16), "defs.h NNI_MAX_STREAM_MSGSZ")
m = re.search(r"#define\s+NNG_RECVMAXSZ_DEFAULT\s+\(1U\s*<<\s*(\d+)\)", src(_defs))
if not m:
    missing.append("NNG_RECVMAXSZ_DEFAULT in " + _defs)
else:
    N("C01_RECVMAXSZ_DEFAULT", 1 << int(m.group(1)), "defs.h NNG_RECVMAXSZ_DEFAULT")
if not re.search(r"return \(\(size <= NNI_MAX_STREAM_MSGSZ\) &&\s*\(size <= \(uint64_t\) SIZE_MAX\)\);", src(_defs)):
    missing.append("nni_msg_size_valid body in " + _defs)

_h = src("include/nng/nng.h")
for _n in ["NNG_ENOMEM", "NNG_EPROTO", "NNG_EMSGSIZE", "NNG_ECLOSED", "NNG_ECONNSHUT"]:
    m = re.search(r"\b%s\s*=\s*(\d+)," % _n, _h)
    if not m:
        missing.append(_n + " in nng.h")
    else:
        N("C01_" + _n, int(m.group(1)), "include/nng/nng.h")

# negotiation header written by *_pipe_start and checked by *_nego_cb
_ok = True
for _p, _tx, _rx in [(_tcp, "txlen", "rxlen"), (_sfd, "txlen", "rxlen"), (_ipc, "tx_head", "rx_head")]:
    _t = src(_p)
    if not re.search(r"p->%s\[0\] = 0;\s*p->%s\[1\] = 'S';\s*p->%s\[2\] = 'P';\s*p->%s\[3\] = 0;\s*"
                     r"NNI_PUT16\(&p->%s\[4\], p->proto\);\s*NNI_PUT16\(&p->%s\[6\], 0\);" % ((_tx,) * 6), _t):
        missing.append("negotiation header written in " + _p)
        _ok = False
    if not re.search(r"\(p->%s\[0\] != 0\) \|\| \(p->%s\[1\] != 'S'\) \|\|\s*\(p->%s\[2\] != 'P'\) \|\| \(p->%s\[3\] != 0\) \|\|\s*"
                     r"\(p->%s\[6\] != 0\) \|\|\s*\(p->%s\[7\] != 0\)" % ((_rx,) * 6), _t):
        missing.append("negotiation header check in " + _p)
        _ok = False
    if not re.search(r"want_?rx_?head\s*= 8;\s*p->want_?tx_?head\s*= 8;", _t):
        missing.append("negotiation lengths (8) in " + _p)
        _ok = False
if _ok:
    extra_text.append("Definition C01_NEGO_HEADER : list N := [0; 83; 80; 0; 0; 0; 0; 0]%N.  "
                      "(* *_pipe_start: 00 'S' 'P' 00 <proto=0> 00 00 *)")

# receive callback: size validity, then the RECVMAXSZ test (len > rcvmax && rcvmax > 0), then nni_msg_alloc
_before = True
for _p, _rm, _msg in [(_tcp, "rcvmax", "rxmsg"), (_sfd, "rcvmax", "rxmsg"), (_ipc, "rcv_max", "rx_msg")]:
    _t = src(_p)
    a = _t.find("if (!nni_msg_size_valid(len))")
    b = _t.find("if ((len > p->%s) && (p->%s > 0))" % (_rm, _rm))
    c = _t.find("nni_msg_alloc(&p->%s, (size_t) len)" % _msg)
    if a < 0 or b < 0 or c < 0:
        missing.append("receive size checks in " + _p)
        _before = False
    elif not (a < b < c):
        _before = False
extra_text.append("Definition C01_RX_CHECKS_BEFORE_ALLOC : bool := %s.  "
                  "(* tcp/ipc/sockfd recv_cb: nni_msg_size_valid, then len > rcvmax && rcvmax > 0, then nni_msg_alloc *)"
                  % ("true" if _before else "false"))
extra_text.append("Definition C01_IPC_TYPE_CHECK : bool := %s.  (* ipc_pipe_recv_cb: if (p->rx_head[0] != 1) => NNG_EPROTO *)"
                  % ("true" if re.search(r"if \(p->rx_head\[0\] != 1\) \{\s*rv = NNG_EPROTO;", src(_ipc)) else "false"))

# nni_msg_pull_up: is the result of nni_msg_insert tested?
m = re.search(r"\nnni_msg_pull_up\(nni_msg \*m\)\s*\{.*?\n\}", src("src/core/message.c"), re.S)
if not m:
    missing.append("nni_msg_pull_up in src/core/message.c")
else:
    _b = m.group(0)
    if "nni_msg_insert(" not in _b:
        missing.append("nni_msg_insert call in nni_msg_pull_up")
    _chk = re.search(r"if\s*\(\s*\(?\s*(?:rv\s*=\s*)?nni_msg_insert\(", _b) is not None or \
        re.search(r"rv\s*=\s*nni_msg_insert\([^;]*;\s*if\s*\(rv", _b) is not None
    extra_text.append("Definition C01_PULLUP_CHECKS_INSERT : bool := %s.  (* message.c nni_msg_pull_up tests the result of nni_msg_insert *)"
                      % ("true" if _chk else "false"))

# ws_start_read: the gate that stops reading while nobody receives ("we already have a data frame")
_wst = src("src/supplemental/websocket/websocket.c")
m = re.search(r"\nws_start_read\(nni_ws \*ws\)\s*\{.*?\n\}", _wst, re.S)
if not m:
    missing.append("ws_start_read in websocket.c")
else:
    extra_text.append("Definition C01_WS_READ_GATE_RXQ : bool := %s.  (* ws_start_read: if (nni_list_empty(&ws->recvq) && "
                      "!nni_list_empty(&ws->rxq)) return; *)"
                      % ("true" if re.search(r"if \(nni_list_empty\(&ws->recvq\) && !nni_list_empty\(&ws->rxq\)\) \{\s*return;", m.group(0)) else "false"))
