# c09_bus.py -- drop-in of tools/gen_consts.py (exec()'d with its globals):
# regenerates from the current src/sp/protocol/bus0/bus.c
#   * the protocol number (self = peer = NNI_PROTO_BUS_V0, through the NNI_PROTO macro),
#   * the default per-pipe send queue depth (s->send_buf) and receive queue depth
#     (nni_lmq_init(&s->recv_msgs, k)), the range of the two buffer options,
#   * whether bus0_sock_send still calls nni_aio_start(aio, NULL, NULL) before the
#     fan-out (BUS_SEND_NO_AIO_START = false: every NNG_FLAG_NONBLOCK send fails with
#     NNG_EAGAIN and sends nothing) or not (true: the repaired form), so that the
#     model driver follows the source before and after the repair.
_p = "src/sp/protocol/bus0/bus.c"
_b = src(_p)


def _need(regex, what, text=_b, flags=re.S):
    m = re.search(regex, text, flags)
    if not m:
        missing.append("%s in %s" % (what, _p))
    return m


_mac = re.search(r"#define\s+NNI_PROTO\(major,\s*minor\)\s*\(\(\(major\)\s*\*\s*(\d+)\)\s*\+\s*\(minor\)\)", src("src/core/protocol.h"))
if not _mac:
    missing.append("NNI_PROTO macro in src/core/protocol.h")
_m = _need(r"#define\s+NNI_PROTO_BUS_V0\s+NNI_PROTO\((\d+),\s*(\d+)\)", "NNI_PROTO_BUS_V0")
_proto = (int(_m.group(1)) * int(_mac.group(1)) + int(_m.group(2))) if (_m and _mac) else 0
N("BUS_PROTO_SELF", _proto, "bus.c NNI_PROTO_BUS_V0 through protocol.h NNI_PROTO")
# both protocol descriptors name it as self and as peer, and pipe_start compares the peer with it
_n = len(re.findall(r"\.proto_(?:self|peer)\s*=\s*\{\s*NNI_PROTO_BUS_V0\s*,", _b))
if _n != 4:
    missing.append("proto_self/proto_peer = NNI_PROTO_BUS_V0 (4 places, found %d) in %s" % (_n, _p))
_need(r"nni_pipe_peer\(p->pipe\)\s*!=\s*NNI_PROTO_BUS_V0", "bus0_pipe_start peer test")
N("BUS_PROTO_PEER", _proto, "bus.c proto_peer / bus0_pipe_start")

_m = _need(r"nni_lmq_init\(&s->recv_msgs,\s*(\d+)\)", "bus0_sock_init recv_msgs depth")
Nat("BUS_RECVBUF", int(_m.group(1)) if _m else 0, "bus.c bus0_sock_init: nni_lmq_init(&s->recv_msgs, k)")
_m = _need(r"s->send_buf\s*=\s*(\d+);", "bus0_sock_init send_buf")
Nat("BUS_SENDBUF", int(_m.group(1)) if _m else 0, "bus.c bus0_sock_init: s->send_buf = k")
_need(r"nni_lmq_init\(&p->send_queue,\s*p->bus->send_buf\)", "bus0_pipe_init send_queue depth")
_r = re.findall(r"nni_copyin_int\(&val,\s*buf,\s*sz,\s*(\d+),\s*(\d+),\s*t\)", _b)
if len(_r) != 2 or _r[0] != _r[1]:
    missing.append("the two nni_copyin_int ranges of the buffer options in %s" % _p)
    _r = [("0", "0")]
N("BUS_BUF_LO", int(_r[0][0]), "bus.c nni_copyin_int(&val, buf, sz, lo, .., t)")
N("BUS_BUF_HI", int(_r[0][1]), "bus.c nni_copyin_int(&val, buf, sz, .., hi, t)")

# the body of bus0_sock_send
_m = _need(r"\nbus0_sock_send\(void \*arg, nni_aio \*aio\)\s*\{(.*?)\n\}", "bus0_sock_send body")
_body = _m.group(1) if _m else ""
_start = re.search(r"nni_aio_start\(\s*aio\s*,", _body) is not None
if _m and not re.search(r"nni_aio_finish\(aio,\s*0,\s*len\)", _body):
    missing.append("nni_aio_finish(aio, 0, len) in bus0_sock_send of %s" % _p)
if _m and not re.search(r"nni_pipe_id\(pipe->pipe\)\s*==\s*sender", _body):
    missing.append("the raw-mode skip test in bus0_sock_send of %s" % _p)
# ... or it still starts the aio (with a NULL cancel function, to honour a stopped aio) but nni_aio_start no longer
# turns a zero timeout into an immediate failure for an operation that cannot wait (fix 6c6b12b)
_aio = src("src/core/aio.c")
_nullcancel_ok = bool(re.search(r"if\s*\(timeout\s*&&\s*\(cancel\s*!=\s*NULL\)\)\s*\{", _aio)) and \
    bool(re.search(r"nni_aio_start\(\s*aio\s*,\s*NULL\s*,\s*NULL\s*\)", _body))
extra_text.append("Definition BUS_SEND_NO_AIO_START : bool := %s.  (* a NONBLOCK BUS send is not refused: bus0_sock_send has no nni_aio_start before the fan-out, or starts with a NULL cancel function and nni_aio_start applies zero timeouts only to operations that can wait (the pinned tree: NONBLOCK sends fail) *)"
                  % ("true" if (not _start or _nullcancel_ok) else "false"))
