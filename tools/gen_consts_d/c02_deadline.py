# C02: the three places of aio.c that retire an absolute expiry (a_use_expire): Core/AioDeadline.v
import re as _re
_a2 = _re.sub(r"#ifdef NNG_VERIF.*?#endif", "", src("src/core/aio.c"), flags=_re.S)
_a2 = _re.sub(r"//[^\n]*|/\*.*?\*/", "", _a2, flags=_re.S)
def _fn_body(_txt, _head):
    _i = _txt.find(_head)
    if _i < 0:
        return None
    _j = _txt.find("\n}\n", _i)
    return _txt[_i:_j]
_st = _fn_body(_a2, "\nnni_aio_set_timeout(nni_aio *aio, nni_duration when)")
_se = _fn_body(_a2, "\nnni_aio_set_expire(nni_aio *aio, nni_time expire)")
_fi = _fn_body(_a2, "\nnni_aio_finish_impl(")
_sa = _fn_body(_a2, "\nnni_aio_start(nni_aio *aio, nni_aio_cancel_fn cancel, void *data)")
if None in (_st, _se, _fi, _sa):
    missing.append("aio.c: nni_aio_set_timeout / nni_aio_set_expire / nni_aio_finish_impl / nni_aio_start not found")
else:
    _clr = r"aio->a_use_expire\s*=\s*false\s*;"
    _c_set = bool(_re.search(_clr, _st)) and bool(_re.search(r"aio->a_timeout\s*=\s*when\s*;", _st))
    _c_fin = bool(_re.search(_clr, _fi))
    # the head of nni_aio_start: the deadline computation as modelled (dl_start), then (repaired form) the flag is consumed
    _head = _sa[:_sa.find("nni_task_prep")] if "nni_task_prep" in _sa else _sa
    _shape = bool(_re.search(r"if\s*\(!aio->a_sleep\s*&&\s*!aio->a_use_expire\)\s*\{\s*switch\s*\(aio->a_timeout\)\s*\{\s*case NNG_DURATION_ZERO:\s*timeout\s*=\s*true;\s*break;\s*case NNG_DURATION_INFINITE:\s*case NNG_DURATION_DEFAULT:\s*aio->a_expire\s*=\s*NNI_TIME_NEVER;\s*break;\s*default:\s*aio->a_expire\s*=\s*nni_clock\(\)\s*\+\s*aio->a_timeout;\s*break;\s*\}\s*\}\s*else if\s*\(aio->a_use_expire\s*&&\s*aio->a_expire\s*<=\s*nni_clock\(\)\)\s*\{\s*timeout\s*=\s*true;\s*\}", _head))
    _c_cons = bool(_re.search(r"timeout\s*=\s*true;\s*\}\s*" + _clr, _head))
    if not _shape:
        missing.append("aio.c nni_aio_start: the deadline computation no longer has the form Core/AioDeadline.dl_start models")
    if not (bool(_re.search(r"aio->a_expire\s*=\s*expire\s*;", _se)) and bool(_re.search(r"aio->a_use_expire\s*=\s*true\s*;", _se))):
        missing.append("aio.c nni_aio_set_expire: not the form Core/AioDeadline.dl_set_expire models")
    extra_text.append("Definition C02_DL_SET_CLEARS : bool := %s.  (* aio.c nni_aio_set_timeout clears a_use_expire *)" % ("true" if _c_set else "false"))
    extra_text.append("Definition C02_DL_FINISH_CLEARS : bool := %s.  (* aio.c nni_aio_finish_impl clears a_use_expire *)" % ("true" if _c_fin else "false"))
    extra_text.append("Definition C02_DL_START_CONSUMES : bool := %s.  (* aio.c nni_aio_start clears a_use_expire once the deadline is fixed *)" % ("true" if _c_cons else "false"))
