# c03_bus.py -- drop-in of tools/gen_consts.py (exec()'d with its globals), property C03.
# Reads src/sp/protocol/bus0/bus.c and decides the order of two statements inside
# bus0_sock_send:
#   C03_BUS_START_BEFORE_DETACH = true   nni_aio_start(aio, ..) comes textually before
#       nni_aio_set_msg(aio, NULL) and before the header is trimmed / cleared: a refused
#       send (aio timeout 0, stopped aio) leaves the message, untouched, on the aio
#       (fix 6932118);
#   = false  the pinned order: the message slot of the aio is emptied first, so a
#       refused send completes with the message neither sent, freed nor left on the aio.
_p = "src/sp/protocol/bus0/bus.c"
_b = src(_p)
_m = re.search(r"\nbus0_sock_send\(void \*arg, nni_aio \*aio\)\s*\{(.*?)\n\}", _b, re.S)
if not _m:
    missing.append("bus0_sock_send body in %s" % _p)
    _body = ""
else:
    _body = _m.group(1)
_st = re.search(r"nni_aio_start\(\s*aio\s*,", _body)
_dt = re.search(r"nni_aio_set_msg\(\s*aio\s*,\s*NULL\s*\)", _body)
_tr = re.search(r"nni_msg_header_(?:trim_u32|clear)\(\s*msg\s*\)", _body)
if _m and not _dt:
    missing.append("nni_aio_set_msg(aio, NULL) in bus0_sock_send of %s" % _p)
if _m and not _tr:
    missing.append("the header trim/clear in bus0_sock_send of %s" % _p)
# no nni_aio_start at all (the other possible repair): nothing can refuse, so nothing is detached early
_before = (_st is None) or (_dt is not None and _tr is not None and _st.start() < _dt.start() and _st.start() < _tr.start())
extra_text.append("Definition C03_BUS_START_BEFORE_DETACH : bool := %s.  (* bus.c bus0_sock_send: nni_aio_start precedes nni_aio_set_msg(aio, NULL) and the header trim (a refused send keeps its message) *)"
                  % ("true" if _before else "false"))

# hook H3 (live message / reference counters) present in message.c?
_h3 = re.search(r"nng_verif_msg_refs\s*\(\s*void\s*\)", src("src/core/message.c")) is not None
extra_text.append("Definition C03_HOOK_H3 : bool := %s.  (* message.c exports nng_verif_msg_live / nng_verif_msg_refs under NNG_VERIF *)"
                  % ("true" if _h3 else "false"))
