# C02: error numbers used by the aio model
import re as _re
_h = src("include/nng/nng.h")
for _n in ("NNG_ESTOPPED", "NNG_ETIMEDOUT", "NNG_ECANCELED", "NNG_ECLOSED", "NNG_EAGAIN", "NNG_ESTATE"):
    _m = _re.search(r"\b%s\s*=\s*(\d+)" % _n, _h)
    if _m:
        N(_n, int(_m.group(1)), "include/nng/nng.h enum nng_err")
    else:
        missing.append("%s in include/nng/nng.h" % _n)

# ---- table of nni_aio_start call sites: is the result honoured? (a check of the code's shape) ----
import os as _os
_sites = []
for _root, _dirs, _files in _os.walk(_os.path.join(REPO, "src")):
    if "/platform/windows" in _root or "/tls/" in _root or _root.endswith("/testing"):
        continue
    for _f in sorted(_files):
        if not _f.endswith(".c") or _f.endswith("_test.c"):
            continue
        _p = _os.path.join(_root, _f)
        _t = open(_p, errors="replace").read()
        for _m in _re.finditer(r"\bnni_aio_start\s*\(", _t):
            _ls = _t.rfind("\n", 0, _m.start()) + 1
            _pre = _t[_ls:_m.start()].strip()
            if _pre.startswith("//") or _pre.startswith("*") or _t[_ls:_m.start()].lstrip().startswith("bool") or "nni_aio_start(nni_aio *" in _t[_m.start():_m.start() + 40]:
                continue    # comment or the definition itself
            _line = _t.count("\n", 0, _m.start()) + 1
            # enclosing function name: last line starting in column 0 with an identifier followed by '('
            _fn = "?"
            for _fm in _re.finditer(r"^([A-Za-z_]\w*)\s*\(", _t[:_m.start()], _re.M):
                _fn = _fm.group(1)
            _guard = bool(_re.search(r"(if\s*\(\s*!?\s*$|=\s*$|return\s*\(?\s*!?\s*$|\(void\)\s*$|&&\s*!?\s*$|\|\|\s*!?\s*$|\(\s*!\s*$)", _t[max(0, _m.start() - 40):_m.start()]))
            _sites.append((_os.path.relpath(_p, REPO), _fn, _line, _guard))
_sites.sort()
extra_text.append("(* nni_aio_start call sites: (file, function, result honoured) *)")
extra_text.append("Definition AIO_START_SITES : list (string * string * bool) := [")
extra_text.append(";\n".join('  ("%s"%%string, "%s"%%string, %s)' % (a, b, "true" if g else "false") for a, b, l, g in _sites) + " ].")
Nat("AIO_START_SITE_COUNT", len(_sites), "number of nni_aio_start call sites outside tests/windows/tls")

# ---- which form of the expire loop does the source have?  (repaired: an aio of the batch is
#      re-examined when its turn comes and skipped when its deadline is not (any more) due) ----
_a = src("src/core/aio.c")
_loop = _a[_a.find("nni_aio_expire_loop(void *arg)"):]
_loop = _loop[:_loop.find("\nvoid *\nnni_aio_get_prov_data")] if "\nvoid *\nnni_aio_get_prov_data" in _loop else _loop
_batch = _loop[_loop.find("for (uint32_t i = 0; i < exp_idx; i++)"):]
_fixed = bool(_re.search(r"if\s*\(\s*\(\s*!\s*q->eq_stop\s*\)\s*&&\s*\(\s*aio->a_expire\s*>=\s*now\s*\)\s*\)\s*\{\s*aio->a_expiring\s*=\s*false;", _re.sub(r"//[^\n]*|#ifdef NNG_VERIF.*?#endif|NNI_VERIF_AIO\([^;]*;", "", _batch, flags=_re.S)))
extra_text.append("Definition C02_EXPIRE_RECHECK_FIXED : bool := %s.  (* aio.c nni_aio_expire_loop: batch entries are re-checked (still due?) when their turn comes *)" % ("true" if _fixed else "false"))

_d = src("src/core/defs.h")
_m = _re.search(r"#define\s+NNI_EXPIRE_BATCH\s+(\d+)", _d)
if _m:
    Nat("C02_NNI_EXPIRE_BATCH", int(_m.group(1)), "src/core/defs.h NNI_EXPIRE_BATCH")
else:
    missing.append("NNI_EXPIRE_BATCH in src/core/defs.h")
# the scan's shape: a due entry that does not fit into the batch must still lower eq_next
_scan = _loop[_loop.find("while (aio != NULL)"):_loop.find("for (uint32_t i = 0; i < exp_idx; i++)")]
_scan_c = _re.sub(r"//[^\n]*|NNI_VERIF_AIO\([^;]*;", "", _scan)
_ok = bool(_re.search(r"if\s*\(\(q->eq_stop\s*\|\|\s*aio->a_expire\s*<\s*now\)\s*&&\s*\(exp_idx\s*<\s*NNI_EXPIRE_BATCH\)\)\s*\{.*?continue;\s*\}\s*if\s*\(aio->a_expire\s*<\s*q->eq_next\)\s*\{\s*q->eq_next\s*=\s*aio->a_expire;\s*\}\s*aio\s*=\s*nni_list_next\(&q->eq_list,\s*aio\);", _scan_c, _re.S))
extra_text.append("Definition C02_EXPIRE_SCAN_SHAPE : bool := %s.  (* aio.c nni_aio_expire_loop scan: (due && room) => batch, else lower eq_next - the shape Core/ExpireScan.scan models *)" % ("true" if _ok else "false"))

# ---- which form of nni_aio_abort does the source have?  (repaired, fix e9a11c8: an operation that has
#      completed keeps its result: `if ((fn == NULL) && (!aio->a_done))`, a_done set by finish / failed
#      start / sleep expiry, cleared by reset / successful start) ----
_ab = _a[_a.find("\nnni_aio_abort(nni_aio *aio, nng_err rv)"):]
_ab = _ab[:_ab.find("\n}\n")]
_f1 = bool(_re.search(r"if\s*\(\(fn\s*==\s*NULL\)\s*&&\s*\(!aio->a_done\)\)\s*\{", _ab))
_fin = _a[_a.find("\nnni_aio_finish_impl("):]
_fin = _fin[:_fin.find("\n}\n")]
_f2 = "aio->a_done       = true;" in _fin or bool(_re.search(r"aio->a_done\s*=\s*true;", _fin))
_rs = _a[_a.find("\nnni_aio_reset(nni_aio *aio)"):]
_rs = _rs[:_rs.find("\n}\n")]
_f3 = bool(_re.search(r"aio->a_done\s*=\s*false;", _rs))
_stt = _a[_a.find("\nnni_aio_start(nni_aio *aio, nni_aio_cancel_fn cancel, void *data)"):]
_stt = _stt[:_stt.find("\n}\n")]
_f4 = len(_re.findall(r"aio->a_done\s*=\s*true;", _stt)) == 3 and len(_re.findall(r"aio->a_done\s*=\s*false;", _stt)) == 1
_f5 = bool(_re.search(r"aio->a_sleep\s*=\s*false;\s*aio->a_done\s*=\s*true;", _loop))
_pinned = bool(_re.search(r"if\s*\(fn\s*==\s*NULL\)\s*\{", _ab)) and "a_done" not in _a
if not (_f1 and _f2 and _f3 and _f4 and _f5) and not _pinned:
    missing.append("nni_aio_abort / a_done: neither the pinned nor the repaired form (abort %s finish %s reset %s start %s expire %s)" % (_f1, _f2, _f3, _f4, _f5))
extra_text.append("Definition C02_ABORT_DONE_FIXED : bool := %s.  (* aio.c: nni_aio_abort leaves a completed operation alone (a_done) *)" % ("true" if (_f1 and _f2 and _f3 and _f4 and _f5) else "false"))
