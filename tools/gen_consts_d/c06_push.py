# C06: which form of push.c does the source have?  (repaired, fix 8475361: push0_pipe_close marks the pipe
# closed under s->m and push0_pipe_ready returns at once for a closed pipe)
import re as _re
_p = src("src/sp/protocol/pipeline0/push.c")
_rdy = _p[_p.find("\npush0_pipe_ready(push0_pipe *p)"):]
_rdy = _rdy[:_rdy.find("\n}\n")]
_cls = _p[_p.find("\npush0_pipe_close(void *arg)"):]
_cls = _cls[:_cls.find("\n}\n")]
_fixed = bool(_re.search(r"nni_mtx_lock\(&s->m\);\s*if\s*\(p->closed\)\s*\{(?:\s*//[^\n]*\n)*\s*nni_mtx_unlock\(&s->m\);\s*return;", _rdy)) and bool(_re.search(r"nni_mtx_lock\(&s->m\);\s*p->closed\s*=\s*true;", _cls))
_pinned = "p->closed" not in _p
if not _fixed and not _pinned:
    missing.append("push.c closed-pipe guard: neither the pinned nor the repaired form")
extra_text.append("Definition C06_PUSH_CLOSED_GUARD_FIXED : bool := %s.  (* push.c: push0_pipe_ready ignores a pipe whose pipe_close has run *)" % ("true" if _fixed else "false"))

# ---- round 2 (seeded C06/5, C06/6; finding push-resize-overtakes-blocked) ----
def _c06_fn(name_sig):
    i = _p.find("\n" + name_sig)
    if i < 0:
        missing.append("push.c: %s not found" % name_sig)
        return ""
    b = _p[i:]
    return b[:b.find("\n}\n")]

# protocol numbers: NNI_PROTO(major, minor) = major * 16 + minor (src/core/protocol.h)
_mm = _re.search(r"#define\s+NNI_PROTO\(major,\s*minor\)\s*\(\(\(major\)\s*\*\s*(\d+)\)\s*\+\s*\(minor\)\)", src("src/core/protocol.h"))
if not _mm:
    missing.append("NNI_PROTO macro in src/core/protocol.h")
_mul6 = int(_mm.group(1)) if _mm else 0
def _c06_proto(name):
    m = _re.search(r"#define\s+%s\s+NNI_PROTO\((\d+),\s*(\d+)\)" % name, _p)
    if not m:
        missing.append("push.c: #define %s NNI_PROTO(a, b)" % name)
        return 0
    return int(m.group(1)) * _mul6 + int(m.group(2))
N("C06_PUSH_SELF", _c06_proto("NNI_PROTO_PUSH_V0"), "pipeline0/push.c NNI_PROTO_PUSH_V0 via protocol.h NNI_PROTO")
N("C06_PUSH_PEER", _c06_proto("NNI_PROTO_PULL_V0"), "pipeline0/push.c push0_pipe_start: nni_pipe_peer != NNI_PROTO_PULL_V0")

# push0_pipe_start: the peer's protocol is checked (and a wrong peer refused) BEFORE the receive is armed and
# push0_pipe_ready may hand the pipe a message
_st = _c06_fn("push0_pipe_start(void *arg)")
_chk = _re.search(r"if\s*\(nni_pipe_peer\(p->pipe\)\s*!=\s*NNI_PROTO_PULL_V0\)\s*\{.*?return\s*\(NNG_EPROTO\);\s*\}", _st, _re.S)
_rdy1 = _st.find("push0_pipe_ready(p)")
_rcv1 = _st.find("nni_pipe_recv(p->pipe")
if not _chk or _rdy1 < 0 or _rcv1 < 0:
    missing.append("push.c push0_pipe_start: peer check / nni_pipe_recv / push0_pipe_ready")
_first = bool(_chk) and _rdy1 > _chk.end() and _rcv1 > _chk.end()
extra_text.append("Definition C06_PUSH_START_CHECKS_PEER_FIRST : bool := %s.  (* push.c push0_pipe_start: a wrong peer is refused before nni_pipe_recv / push0_pipe_ready *)" % ("true" if _first else "false"))

# push0_sock_send queues a blocked sender at the TAIL of s->aq and push0_pipe_ready serves nni_list_first(&s->aq)
_sd = _c06_fn("push0_sock_send(void *arg, nni_aio *aio)")
_fifo = bool(_re.search(r"nni_aio_start\(aio,\s*push0_cancel,\s*s\)\)\s*\{\s*nni_mtx_unlock\(&s->m\);\s*return;\s*\}\s*nni_aio_list_append\(&s->aq,\s*aio\);", _sd)) \
    and len(_re.findall(r"\(a\s*=\s*nni_list_first\(&s->aq\)\)\s*!=\s*NULL", _rdy)) == 2 and "nni_list_last(&s->aq)" not in _p and "prepend(&s->aq" not in _p
extra_text.append("Definition C06_PUSH_WAITERS_FIFO : bool := %s.  (* push.c: blocked senders are appended to s->aq and served from its head *)" % ("true" if _fifo else "false"))

# push0_set_send_buf_len: pinned = nni_lmq_resize directly followed by the pollable logic; repaired = blocked senders
# move into the resized buffer, in order, while there is room (finding push-resize-overtakes-blocked)
_rz_fixed = _re.search(r"rv\s*=\s*nni_lmq_resize\(&s->wq,\s*\(size_t\)\s*val\);\s*(?://[^\n]*\n\s*)*while\s*\(!nni_lmq_full\(&s->wq\)\)\s*\{"
                       r"[^}]*?nni_list_first\(&s->aq\)\)\s*==\s*NULL\)\s*\{\s*break;\s*\}\s*nni_aio_list_remove\(a\);[^}]*?nni_lmq_put\(&s->wq,\s*m\);"
                       r"\s*nni_aio_set_msg\(a,\s*NULL\);\s*nni_aio_finish\(a,\s*0,\s*l\);\s*\}\s*(?://[^\n]*\n\s*)*if\s*\(!nni_lmq_full\(&s->wq\)\)\s*\{\s*nni_pollable_raise\(&s->writable\);", _p, _re.S)
_rz_pinned = _re.search(r"rv\s*=\s*nni_lmq_resize\(&s->wq,\s*\(size_t\)\s*val\);\s*(?://[^\n]*\n\s*)*if\s*\(!nni_lmq_full\(&s->wq\)\)\s*\{\s*nni_pollable_raise\(&s->writable\);", _p)
if not _rz_fixed and not _rz_pinned:
    missing.append("push.c push0_set_send_buf_len after nni_lmq_resize: neither the pinned nor the repaired form")
extra_text.append("Definition C06_PUSH_RESIZE_ADMITS_FIXED : bool := %s.  (* push.c push0_set_send_buf_len: blocked senders move into the resized buffer, in order *)" % ("true" if _rz_fixed else "false"))
_mb = _re.search(r"nni_copyin_int\(&val,\s*buf,\s*sz,\s*(\d+),\s*(\d+),\s*t\)", _p)
if not _mb:
    missing.append("push.c push0_set_send_buf_len: nni_copyin_int range")
N("C06_PUSH_BUF_MAX", int(_mb.group(2)) if _mb else 0, "pipeline0/push.c set_send_buf_len: nni_copyin_int(.., 0, hi, ..)")
