# C06: which form of push.c does the source have?  (repaired, fix 8475361: push0_pipe_close marks the pipe
# closed under s->m and push0_pipe_ready returns at once for a closed pipe)
import re as _re
_p = src("src/sp/protocol/pipeline0/push.c")
_rdy = _p[_p.find("\npush0_pipe_ready(push0_pipe *p)"):]
_rdy = _rdy[:_rdy.find("\n}\n")]
_cls = _p[_p.find("\npush0_pipe_close(void *arg)"):]
_cls = _cls[:_cls.find("\n}\n")]
_fixed = bool(_re.search(r"nni_mtx_lock\(&s->m\);\s*if\s*\(p->closed\)\s*\{(?:\s*//[^\n]*\n)*\s*nni_mtx_unlock\(&s->m\);\s*return;", _rdy)) and bool(_re.search(r"nni_mtx_lock\(&s->m\);\s*p->closed\s*=\s*true;", _cls))
_pinned = "p->closed" not in _p
if not _fixed and not _pinned:
    missing.append("push.c closed-pipe guard: neither the pinned nor the repaired form")
extra_text.append("Definition C06_PUSH_CLOSED_GUARD_FIXED : bool := %s.  (* push.c: push0_pipe_ready ignores a pipe whose pipe_close has run *)" % ("true" if _fixed else "false"))
