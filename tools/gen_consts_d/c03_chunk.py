# c03_chunk.py -- drop-in of tools/gen_consts.py (exec()'d with its globals), property C03.
# The capacity / free rules of src/core/message.c that Ledger/ChunkAlloc.v is parameterised with
# (the 32 + 32 bytes and the 1024 threshold of nni_msg_alloc are MSG_HEADROOM / MSG_HEADROOM2 /
# MSG_BIG of gen_consts.py itself):
#   C03_CHUNK_CAP_FIRST_1 / _2   in the two re-allocating branches of nni_chunk_grow (1: the data
#       pointer is inside the buffer; 2: no data pointer yet): `ch->ch_cap = allocsz;` comes
#       textually BEFORE `nni_free(ch->ch_buf, ch->ch_cap);` -- the old buffer is then returned to
#       the allocator with the NEW capacity.  false = the order of the source (free first).
#   C03_CHUNK_NULL_GE            branch 2 re-allocates when `allocsz >= ch->ch_cap` (true) / `>` (false)
#   C03_CHUNK_INSERT_PAD         sizeof(uint64_t) pad that nni_chunk_insert demands before it splits the slack
#   C03_MSG_HEADER_BYTES         sizeof(m_header_buf)
_p = "src/core/message.c"
_s = src(_p)
_m = re.search(r"\nnni_chunk_grow\(nni_chunk \*ch, size_t newsz, size_t headwanted\)\s*\{(.*?)\n\}", _s, re.S)
_first = [False, False]
_ge = True
if not _m:
    missing.append("nni_chunk_grow body in %s" % _p)
else:
    _body = _m.group(1)
    _frees = [x.start() for x in re.finditer(r"nni_free\(\s*ch->ch_buf\s*,\s*ch->ch_cap\s*\)\s*;", _body)]
    _caps = [x.start() for x in re.finditer(r"ch->ch_cap\s*=\s*allocsz\s*;", _body)]
    if len(_frees) != 2 or len(_caps) != 2:
        missing.append("two `nni_free(ch->ch_buf, ch->ch_cap)` and two `ch->ch_cap = allocsz` in nni_chunk_grow of %s (found %d / %d)" % (_p, len(_frees), len(_caps)))
    else:
        # the in-buffer branch ends with the first `return (0);` after its free
        _split = max(_body.find("return (0);", min(_frees[0], _caps[0])), 0)
        _b1 = sorted([("f", _frees[0]), ("c", _caps[0])], key=lambda t: t[1])
        _b2 = sorted([("f", _frees[1]), ("c", _caps[1])], key=lambda t: t[1])
        if not (_frees[0] < _frees[1] and _caps[0] < _caps[1] and max(_frees[0], _caps[0]) < min(_frees[1], _caps[1])):
            missing.append("the free / cap statements of nni_chunk_grow's two branches in %s (unexpected layout)" % _p)
        _first = [_b1[0][0] == "c", _b2[0][0] == "c"]
    _g = re.search(r"if \(allocsz (>=|>) ch->ch_cap\)", _body)
    if not _g:
        missing.append("`if (allocsz >= ch->ch_cap)` in nni_chunk_grow of %s" % _p)
    else:
        _ge = _g.group(1) == ">="
extra_text.append("Definition C03_CHUNK_CAP_FIRST_1 : bool := %s.  (* message.c nni_chunk_grow, data pointer inside the buffer: ch_cap = allocsz precedes nni_free(ch_buf, ch_cap) *)" % ("true" if _first[0] else "false"))
extra_text.append("Definition C03_CHUNK_CAP_FIRST_2 : bool := %s.  (* message.c nni_chunk_grow, no data pointer: ch_cap = allocsz precedes nni_free(ch_buf, ch_cap) *)" % ("true" if _first[1] else "false"))
extra_text.append("Definition C03_CHUNK_NULL_GE : bool := %s.  (* message.c nni_chunk_grow: if (allocsz >= ch->ch_cap) *)" % ("true" if _ge else "false"))
_i = re.search(r"\nnni_chunk_insert\(.*?\n\}", _s, re.S)
_pad = 0
if not _i or not re.search(r"\(needed \+ sizeof\(uint64_t\)\) <= ch->ch_cap", _i.group(0)) or not re.search(r"\(shift \+ \(sizeof\(uint64_t\) - 1\)\) &\s*~\(sizeof\(uint64_t\) - 1\)", _i.group(0)):
    missing.append("the uint64_t pad / rounding of nni_chunk_insert in %s" % _p)
else:
    _pad = 8
Nat("C03_CHUNK_INSERT_PAD", _pad, "message.c nni_chunk_insert: (needed + sizeof(uint64_t)) <= ch_cap, shift rounded up to sizeof(uint64_t)")
_h = re.search(r"uint32_t\s+m_header_buf\[\(NNI_MAX_MAX_TTL \+ (\d+)\)\]", _s)
if not _h:
    missing.append("m_header_buf in %s" % _p)
Nat("C03_MSG_HEADER_BYTES", (define_int("src/core/defs.h", "NNI_MAX_MAX_TTL") + (int(_h.group(1)) if _h else 0)) * 4,
    "message.c sizeof(m_header_buf) = (NNI_MAX_MAX_TTL + k) * 4")
