# c20_flags.py -- which form of three allocation-failure paths the current source has
# (pinned = the defect is present, repaired = it is not); the theorems of
# Props/Properties_C20.v are stated for both forms and these flags say which one
# speaks about the tree as it is.
#   URL_STRDUP_CHECKED      url.c nni_url_parse_inline_inner tests the result of nni_strdup
#   WS_FINISH_RELOCK_FIXED  websocket.c ws_read_finish_msg does not call ws_close_error
#                           (which locks ws->mtx) while holding ws->mtx
#   PULL_UP_INSERT_CHECKED  message.c nni_msg_pull_up tests the result of nni_msg_insert
def _body(path, fn):
    t = src(path)
    m = re.search(r"^%s\([^)]*\)\s*\{" % re.escape(fn), t, re.M)
    if not m:
        missing.append("%s in %s" % (fn, path))
        return ""
    i = m.end()
    d = 1
    while i < len(t) and d > 0:
        d += {"{": 1, "}": -1}.get(t[i], 0)
        i += 1
    return t[m.end():i]


_b = _body("src/core/url.c", "nni_url_parse_inline_inner")
if "nni_strdup(s)" not in _b:
    missing.append("nni_strdup(s) in nni_url_parse_inline_inner (src/core/url.c)")
_url_checked = bool(re.search(r"\(\s*url->u_buffer\s*=\s*nni_strdup\(s\)\s*\)\s*==\s*NULL", _b)) or \
    bool(re.search(r"url->u_buffer\s*=\s*nni_strdup\(s\);\s*if\s*\(\s*url->u_buffer\s*==\s*NULL", _b))
_b = _body("src/supplemental/websocket/websocket.c", "ws_read_finish_msg")
if "nni_msg_alloc(&msg, len)" not in _b:
    missing.append("nni_msg_alloc(&msg, len) in ws_read_finish_msg (websocket.c)")
_ws_fixed = "ws_close_error(" not in _b
_b = _body("src/core/message.c", "nni_msg_pull_up")
if "nni_msg_insert(m, nni_msg_header(m), nni_msg_header_len(m))" not in _b:
    missing.append("nni_msg_insert(m, header) in nni_msg_pull_up (message.c)")
_pu_checked = not re.search(r"^\s*nni_msg_insert\(m, nni_msg_header\(m\), nni_msg_header_len\(m\)\);", _b, re.M)
extra_text.append("")
extra_text.append("(* ---- C20: forms of the source (tools/gen_consts_d/c20_flags.py) ---- *)")
for _n, _v, _c in [("URL_STRDUP_CHECKED", _url_checked, "url.c: the long-URL nni_strdup is tested"),
                   ("WS_FINISH_RELOCK_FIXED", _ws_fixed, "websocket.c: ws_read_finish_msg does not re-lock ws->mtx on ENOMEM"),
                   ("PULL_UP_INSERT_CHECKED", _pu_checked, "message.c: nni_msg_pull_up tests nni_msg_insert")]:
    extra_text.append("Definition %s : bool := %s.  (* %s *)" % (_n, "true" if _v else "false", _c))

# literals used by coq/AllocFail
_h = src("include/nng/nng.h")
for _nm in ("NNG_ENOMEM", "NNG_ECLOSED"):
    _m = re.search(r"\b%s\s*=\s*(\d+)" % _nm, _h)
    if not _m:
        missing.append("%s in include/nng/nng.h" % _nm)
    N("C20_" + _nm, int(_m.group(1)) if _m else 0, "include/nng/nng.h")
N("C20_WS_CLOSE_INTERNAL", find_int("src/supplemental/websocket/websocket.c", r"WS_CLOSE_INTERNAL\s*=\s*(\d+)", "WS_CLOSE_INTERNAL"),
  "websocket.c enum")
Nat("C20_WS_SHORT_FRAME", find_int("src/supplemental/websocket/websocket.c",
                                   r"Short frames can avoid an alloc\s*if \(frame->len < (\d+)\)", "short-frame threshold in ws_read_cb"),
    "websocket.c ws_read_cb: frames shorter than this use the inline buffer")
if not re.search(r"char\s+u_static\[NNG_MAXADDRLEN\]", src("src/core/url.h")):
    missing.append("u_static[NNG_MAXADDRLEN] in src/core/url.h")
Nat("C20_URL_STATIC", define_int("include/nng/nng.h", "NNG_MAXADDRLEN"), "sizeof(url->u_static) = NNG_MAXADDRLEN")
