# c13_route.py -- drop-in of tools/gen_consts.py (exec()'d with its globals): what the device /
# routing theorems of C13 take from the current sources
#   * NNI_MAX_MAX_TTL and NNI_MAX_HEADER_SIZE = (NNI_MAX_MAX_TTL + 1) * sizeof(uint32_t) (defs.h), and
#     the size of m_header_buf (message.c), in bytes,
#   * the lower bound of NNG_OPT_MAXTTL in every protocol that has one (nni_copyin_int(.., lo, NNI_MAX_MAX_TTL, ..)),
#   * the pipe id range (core/pipe.c) and the request / survey id range (req.c, survey.c): the high bit
#     is what ends a backtrace,
#   * the guard of nni_msg_header_append_u32 (panic when len + 4 >= sizeof buf) and of nni_msg_header_append
#     (error when len + n > sizeof buf),
#   * shape lints: the hop loop (`hops > ttl`, `hops++`, `len < 4`, `body[0] & 0x80`) in rep.c, xrep.c,
#     respond.c, xrespond.c; the pipe id pushed first in xrep.c / xrespond.c and popped in their getq
#     callbacks; xreq.c / xsurvey.c moving words until the high bit; pair1's hop tests and increment;
#     bus raw appending / trimming the pipe id; device.c leaving the message in the aio between
#     nni_sock_recv(p->src) and nni_sock_send(p->dst).
_D = "src/core/defs.h"
_M = "src/core/message.c"


def _g13(regex, path, what, flags=re.S):
    m = re.search(regex, src(path), flags)
    if not m:
        missing.append("%s in %s" % (what, path))
    return m


_ttl = define_int(_D, "NNI_MAX_MAX_TTL")
Nat("C13_MAX_TTL", _ttl, "src/core/defs.h NNI_MAX_MAX_TTL")
_m = _g13(r"#define\s+NNI_MAX_HEADER_SIZE\s+\(\(NNI_MAX_MAX_TTL \+ (\d+)\) \* sizeof\(uint32_t\)\)", _D, "NNI_MAX_HEADER_SIZE")
Nat("C13_MAX_HEADER_SIZE", (_ttl + (int(_m.group(1)) if _m else 0)) * 4, "src/core/defs.h NNI_MAX_HEADER_SIZE = (NNI_MAX_MAX_TTL + k) * sizeof(uint32_t)")
_m = _g13(r"uint32_t\s+m_header_buf\[\(NNI_MAX_MAX_TTL \+ (\d+)\)\]", _M, "m_header_buf size")
Nat("C13_HEADER_BUF_BYTES", (_ttl + (int(_m.group(1)) if _m else 0)) * 4, "message.c sizeof(m_header_buf) = (NNI_MAX_MAX_TTL + k) * 4")
_g13(r"nni_msg_header_append\(nni_msg \*m, const void \*data, size_t len\)\s*\{\s*if \(\(len \+ m->m_header_len\) > sizeof\(m->m_header_buf\)\) \{\s*return \(NNG_EINVAL\);",
     _M, "nni_msg_header_append bound (len + m_header_len > sizeof buf => NNG_EINVAL)")
_g13(r"nni_msg_header_append_u32\(nni_msg \*m, uint32_t val\)\s*\{[^}]*?if \(\(m->m_header_len \+ sizeof\(val\)\) >= \(sizeof\(m->m_header_buf\)\)\) \{\s*nni_panic\(",
     _M, "nni_msg_header_append_u32 guard (len + 4 >= sizeof buf => panic)")

_P = "src/sp/protocol/"
for _tag, _f in (("REP", "reqrep0/rep.c"), ("XREP", "reqrep0/xrep.c"), ("RESPOND", "survey0/respond.c"),
                 ("XRESPOND", "survey0/xrespond.c"), ("PAIR1", "pair1/pair.c")):
    _m = _g13(r"nni_copyin_int\(&ttl,\s*buf,\s*sz,\s*(\d+),\s*NNI_MAX_MAX_TTL,\s*t\)", _P + _f, "ttl option range")
    Nat("C13_%s_TTL_MIN" % _tag, int(_m.group(1)) if _m else 0, "%s%s set_max_ttl: nni_copyin_int(.., lo, NNI_MAX_MAX_TTL, ..)" % (_P, _f))

# the hop loop, same text in the four receivers
for _f in ("reqrep0/rep.c", "reqrep0/xrep.c", "survey0/respond.c", "survey0/xrespond.c"):
    _g13(r"hops = 1;\s*for \(;;\) \{.*?if \(hops > ttl\) \{.*?goto drop;\s*\}\s*hops\+\+;\s*if \(nni_msg_len\(msg\) < 4\) \{.*?nni_pipe_close\(.*?"
         r"end\s*=\s*\(\(body\[0\] & 0x80u?\) != 0\);\s*if \(nni_msg_header_append\(msg, body, 4\) != 0\) \{.*?goto drop;\s*\}\s*nni_msg_trim\(msg, 4\);\s*if \(end\) \{\s*break;",
         _P + _f, "hop loop (hops > ttl => drop; len < 4 => close; header full => drop; high bit ends)")
for _f, _id in (("reqrep0/xrep.c", r"nni_pipe_id\(p->pipe\)"), ("survey0/xrespond.c", r"p->id")):
    _g13(r"nni_msg_header_append_u32\(msg, %s\);\s*// Move backtrace from body to header\s*hops = 1;" % _id, _P + _f, "pipe id pushed before the hop loop")
    _g13(r"if \(nni_msg_header_len\(msg\) < 4\) \{\s*nni_msg_free\(msg\);.*?id = nni_msg_header_trim_u32\(msg\);.*?nni_id_get\(&s->pipes, id\)", _P + _f, "getq_cb pops the pipe id")
for _f in ("reqrep0/xreq.c", "survey0/xsurvey.c"):
    _g13(r"while \(!end\) \{.*?if \(nni_msg_len\(msg\) < 4\) \{.*?nni_pipe_close\(.*?end\s*=\s*\(\(body\[0\] & 0x80u?\) != 0\);\s*if \(nn[gi]_msg_header_append\(msg, body, sizeof\(uint32_t\)\) != 0\) \{.*?nni_pipe_close\(.*?nni_msg_trim\(msg, sizeof\(uint32_t\)\);",
         _P + _f, "raw requester/surveyor receive loop")
_g13(r"\(len < sizeof\(uint32_t\)\) \|\|\s*\(\(hdr = nni_msg_trim_u32\(msg\)\) > (0xff)\)", _P + "pair1/pair.c", "pair1 malformed test")
_g13(r"if \(\(int\) hdr > nni_atomic_get\(&s->ttl\)\)", _P + "pair1/pair.c", "pair1 ttl test")
_g13(r"nni_msg_header_poke_u32\(m, nni_msg_header_peek_u32\(m\) \+ 1\)", _P + "pair1/pair.c", "pair1 hop increment")
_g13(r"if \(s->raw\) \{\s*nni_msg_header_append_u32\(msg, nni_pipe_id\(p->pipe\)\);", _P + "bus0/bus.c", "bus raw receive appends the pipe id")
_g13(r"if \(nni_msg_header_len\(msg\) >= sizeof\(uint32_t\)\) \{\s*sender = nni_msg_header_trim_u32\(msg\);", _P + "bus0/bus.c", "bus raw send trims the sender id")
_g13(r"if \(s->raw && nni_pipe_id\(pipe->pipe\) == sender\) \{\s*continue;", _P + "bus0/bus.c", "bus raw send skips the sender")

# id ranges
_m = _g13(r"static nni_id_map pipes\s*=\s*NNI_ID_MAP_INITIALIZER\((\d+|0x[0-9a-fA-F]+),\s*(\d+|0x[0-9a-fA-F]+),", "src/core/pipe.c", "pipe id range")
N("C13_PIPE_ID_MIN", int(_m.group(1), 0) if _m else 0, "core/pipe.c NNI_ID_MAP_INITIALIZER(lo, hi, ..)")
N("C13_PIPE_ID_MAX", int(_m.group(2), 0) if _m else 0, "core/pipe.c NNI_ID_MAP_INITIALIZER(lo, hi, ..)")
for _tag, _f, _v in (("REQ", "reqrep0/req.c", "s->requests"), ("SURVEY", "survey0/survey.c", "sock->surveys")):
    _m = _g13(r"nni_id_map_init\(&%s,\s*(0x[0-9a-fA-F]+)u?,\s*(0x[0-9a-fA-F]+)u?," % re.escape(_v), _P + _f, "id range")
    N("C13_%s_ID_MIN" % _tag, int(_m.group(1), 0) if _m else 0, "%s%s nni_id_map_init(.., lo, hi, ..)" % (_P, _f))
    N("C13_%s_ID_MAX" % _tag, int(_m.group(2), 0) if _m else 0, "%s%s nni_id_map_init(.., lo, hi, ..)" % (_P, _f))

# device.c: the path's state machine
_DV = "src/core/device.c"
_g13(r"case NNI_DEVICE_STATE_RECV:\s*// Leave the message where it is\.\s*p->state = NNI_DEVICE_STATE_SEND;", _DV, "device_cb RECV -> SEND leaves the message in the aio")
_g13(r"switch \(next\) \{\s*case NNI_DEVICE_STATE_SEND:\s*nni_sock_recv\(p->src, &p->aio\);\s*break;\s*case NNI_DEVICE_STATE_RECV:\s*nni_sock_send\(p->dst, &p->aio\);", _DV, "device_cb recv(src) / send(dst)")
_g13(r"if \(\(rv != 0\) && \(p->state == NNI_DEVICE_STATE_RECV\)\) \{\s*nni_msg_free\(nni_aio_get_msg\(&p->aio\)\);", _DV, "device_cb frees a received message when the device is stopping")
# failing path: the current form frees whatever is attached; the form first pinned only in the SEND state
_dsrc = src(_DV)
_cur = re.search(r"if \(rv != 0\) \{\s*(?://[^\n]*\n\s*)*nni_msg_free\(nni_aio_get_msg\(&p->aio\)\);\s*nni_aio_set_msg\(&p->aio, NULL\);\s*p->state = NNI_DEVICE_STATE_FINI;", _dsrc)
_old = re.search(r"if \(rv != 0\) \{\s*if \(p->state == NNI_DEVICE_STATE_SEND\) \{\s*nni_msg_free\(nni_aio_get_msg\(&p->aio\)\);", _dsrc)
if not _cur and not _old:
    missing.append("device_cb failing path (neither the pinned nor the repaired form) in %s" % _DV)
extra_text.append("Definition C13_DEVICE_FREES_ATTACHED : bool := %s.  (* src/core/device.c device_cb: a failing path frees whatever message is attached to its aio *)" % ("true" if _cur else "false"))
_g13(r"if \(!nni_sock_raw\(s1\)\) \{\s*return \(NNG_EINVAL\);", _DV, "device_init requires raw sockets")

# device_init: how many forwarding paths.  Current form: one path when s2 cannot receive OR the device is a
# reflector (s1 == s2); without the second half two forwarders read from the one socket and race.
_one = re.search(r"if \(\(\(nni_sock_flags\(s2\) & NNI_PROTO_FLAG_RCV\) == 0\) \|\| \(s1 == s2\)\) \{\s*num_paths = 1;", _dsrc)
_two = re.search(r"if \(\(nni_sock_flags\(s2\) & NNI_PROTO_FLAG_RCV\) == 0\) \{\s*num_paths = 1;", _dsrc)
if not _one and not _two:
    missing.append("device_init num_paths rule (neither form) in %s" % _DV)
extra_text.append("Definition C13_DEVICE_REFLECTOR_ONE_PATH : bool := %s.  (* src/core/device.c device_init: num_paths = 1 also when s1 == s2 *)" % ("true" if _one else "false"))
_g13(r"int\s+num_paths = 2;", _DV, "device_init starts from two paths")
_g13(r"if \(\(nni_sock_flags\(s1\) & NNI_PROTO_FLAG_RCV\) == 0\) \{\s*nni_sock \*temp = s1;\s*s1\s*= s2;\s*s2\s*= temp;", _DV, "device_init swaps so that s1 can receive")
_g13(r"p->src\s*= i == 0 \? s1 : s2;\s*p->dst\s*= i == 0 \? s2 : s1;", _DV, "device_init path i: src/dst")
