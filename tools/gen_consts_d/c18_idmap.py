# c18_idmap.py -- drop-in of tools/gen_consts.py (exec()'d with its globals):
# regenerates from the current sources
#   * the literals of src/core/idhash.c (minimum capacity, the small-table
#     max load, the load-factor fractions, the default upper bound, the probe
#     multiplier/increment of ID_NEXT, NNG_ENOMEM / NNG_ENOENT),
#   * which variant of the cursor wrap test nni_id_alloc has
#     (IDMAP_ALLOC_WRAP_FIXED: the `|| id_dyn_val == 0` repair present), so that
#     the model driver follows the source,
#   * the id ranges the library uses: socket, ctx, dialer, listener, pipe ids
#     (static NNI_ID_MAP_INITIALIZER), request / survey ids and the transports'
#     and protocols' pipe maps (nni_id_map_init call sites).
_i = src("src/core/idhash.c")


def _num(s):
    return int(s.rstrip("uUlL"), 0)


def _grab(regex, what, text=_i, flags=re.S):
    m = re.search(regex, text, flags)
    if not m:
        missing.append("%s in src/core/idhash.c" % what)
        return None
    return m


_m = _grab(r"new_cap\s*=\s*(\d+);\s*while\s*\(new_cap\s*<\s*\(m->id_count\s*\*\s*(\d+)\)\)\s*\{\s*new_cap\s*\*=\s*(\d+);", "id_resize new_cap loop")
Nat("IDMAP_MIN_CAP", int(_m.group(1)) if _m else 0, "idhash.c id_resize: new_cap = k")
Nat("IDMAP_COUNT_FACTOR", int(_m.group(2)) if _m else 0, "idhash.c id_resize: while (new_cap < count * k)")
Nat("IDMAP_GROW_FACTOR", int(_m.group(3)) if _m else 0, "idhash.c id_resize: new_cap *= k")
_m = _grab(r"if\s*\(new_cap\s*>\s*(\d+)\)\s*\{\s*m->id_min_load\s*=\s*new_cap\s*/\s*(\d+);\s*m->id_max_load\s*=\s*new_cap\s*\*\s*(\d+)\s*/\s*(\d+);\s*\}\s*else\s*\{\s*m->id_min_load\s*=\s*(\d+);\s*m->id_max_load\s*=\s*(\d+);", "id_resize load thresholds")
Nat("IDMAP_SMALL_CAP", int(_m.group(1)) if _m else 0, "idhash.c id_resize: if (new_cap > k)")
Nat("IDMAP_MIN_LOAD_DIV", int(_m.group(2)) if _m else 0, "idhash.c: id_min_load = new_cap / k")
Nat("IDMAP_MAX_LOAD_MUL", int(_m.group(3)) if _m else 0, "idhash.c: id_max_load = new_cap * k / ..")
Nat("IDMAP_MAX_LOAD_DIV", int(_m.group(4)) if _m else 0, "idhash.c: id_max_load = new_cap * .. / k")
Nat("IDMAP_SMALL_MIN_LOAD", int(_m.group(5)) if _m else 0, "idhash.c: small table id_min_load")
Nat("IDMAP_SMALL_MAX_LOAD", int(_m.group(6)) if _m else 0, "idhash.c: small table id_max_load")
_m = _grab(r"#define\s+ID_NEXT\(m,\s*j\)\s*\(\(\(\(j\)\s*\*\s*(\d+)\)\s*\+\s*(\d+)\)\s*&\s*\(m->id_cap\s*-\s*1\)\)", "ID_NEXT macro")
Nat("IDMAP_PROBE_MUL", int(_m.group(1)) if _m else 0, "idhash.c ID_NEXT: (j * k + ..) & (cap - 1)")
Nat("IDMAP_PROBE_INC", int(_m.group(2)) if _m else 0, "idhash.c ID_NEXT: (j * .. + k) & (cap - 1)")
_m = _grab(r"#define\s+ID_INDEX\(m,\s*j\)\s*\(\(j\)\s*&\s*\(m->id_cap\s*-\s*1\)\)", "ID_INDEX macro")
_m = _grab(r"if\s*\(lo\s*==\s*0\)\s*\{\s*lo\s*=\s*(\w+);\s*\}\s*if\s*\(hi\s*==\s*0\)\s*\{\s*hi\s*=\s*(\w+);", "nni_id_map_init defaults")
N("IDMAP_DEFAULT_LO", _num(_m.group(1)) if _m else 0, "idhash.c nni_id_map_init: lo == 0 -> k")
N("IDMAP_DEFAULT_HI", _num(_m.group(2)) if _m else 0, "idhash.c nni_id_map_init: hi == 0 -> k")
_m = _grab(r"NNI_ASSERT\(hi\s*>\s*lo\);", "nni_id_map_init NNI_ASSERT(hi > lo)")

# the wrap test of nni_id_alloc: pinned form / repaired form
_pinned = re.search(r"m->id_dyn_val\+\+;\s*if\s*\(m->id_dyn_val\s*>\s*m->id_max_val\)\s*\{\s*m->id_dyn_val\s*=\s*m->id_min_val;", _i)
_fixed = re.search(r"m->id_dyn_val\+\+;\s*if\s*\(\(m->id_dyn_val\s*>\s*m->id_max_val\)\s*\|\|\s*\(m->id_dyn_val\s*==\s*0\)\)\s*\{\s*m->id_dyn_val\s*=\s*m->id_min_val;", _i)
if not _pinned and not _fixed:
    missing.append("nni_id_alloc cursor wrap test (neither the pinned nor the repaired form) in src/core/idhash.c")
_grab(r"if\s*\(m->id_count\s*>\s*\(m->id_max_val\s*-\s*m->id_min_val\)\)", "nni_id_alloc exhaustion test")
_grab(r"m->id_dyn_val\s*=\s*nni_random\(\)\s*%\s*\(m->id_max_val\s*-\s*m->id_min_val\s*\+\s*1\)\s*\+\s*m->id_min_val;", "nni_id_alloc random start")

_e = src("include/nng/nng.h")
for _n in ("NNG_ENOMEM", "NNG_ENOENT"):
    _m = re.search(r"\b%s\s*=\s*(\d+)\s*," % _n, _e)
    if not _m:
        missing.append("%s in include/nng/nng.h" % _n)
    N("IDMAP_" + _n, int(_m.group(1)) if _m else 0, "include/nng/nng.h")

# ---- the ranges used by the library
_ranges = []   # (coq name, file, lo, hi, random)


def _static(path, var, name):
    m = re.search(r"static\s+nni_id_map\s+%s\s*=\s*NNI_ID_MAP_INITIALIZER\(\s*(\w+)\s*,\s*(\w+)\s*,\s*(true|false)\s*\)" % var, src(path))
    if not m:
        missing.append("static nni_id_map %s in %s" % (var, path))
        return
    _ranges.append((name, "%s: %s" % (path, var), _num(m.group(1)), _num(m.group(2)), m.group(3) == "true", True))


def _init(path, field, name):
    m = re.search(r"nni_id_map_init\(\s*&\w+->%s\s*,\s*(\w+)\s*,\s*(\w+)\s*,\s*(true|false)\s*\)" % field, src(path))
    if not m:
        missing.append("nni_id_map_init(&..->%s ..) in %s" % (field, path))
        return
    lo, hi = _num(m.group(1)), _num(m.group(2))
    # nni_id_map_init substitutes the defaults for 0
    _ranges.append((name, "%s: %s" % (path, field), lo, hi, m.group(3) == "true", False))


_static("src/core/socket.c", "sock_ids", "SOCK")
_static("src/core/socket.c", "ctx_ids", "CTX")
_static("src/core/dialer.c", "dialers", "DIALER")
_static("src/core/listener.c", "listeners", "LISTENER")
_static("src/core/pipe.c", "pipes", "PIPE")
_init("src/sp/protocol/reqrep0/req.c", "requests", "REQ")
_init("src/sp/protocol/survey0/survey.c", "surveys", "SURVEY")

for _name, _where, _lo, _hi, _rnd, _st in _ranges:
    N("IDMAP_%s_LO" % _name, _lo, _where)
    N("IDMAP_%s_HI" % _name, _hi, _where)
extra_text.append("Definition IDMAP_ALLOC_WRAP_FIXED : bool := %s.  (* idhash.c nni_id_alloc: `|| id_dyn_val == 0` present in the wrap test *)"
                  % ("true" if _fixed else "false"))
extra_text.append("(* id ranges used by the library: (name, lo, hi, random start, static initializer) *)")
extra_text.append("Definition IDMAP_RANGES : list (string * N * N * bool * bool) := [\n  %s]." % ";\n  ".join(
    '("%s"%%string, %d%%N, %d%%N, %s, %s)' % (n.lower(), lo, hi, "true" if r else "false", "true" if st else "false")
    for n, _w, lo, hi, r, st in _ranges))
# every other nni_id_map_init call site (pipe maps keyed by pipe id; they only use set/get/remove)
_sites = []
for _root, _dirs, _files in os.walk(os.path.join(REPO, "src")):
    for _f in sorted(_files):
        if _f.endswith(".c") and not _f.endswith("_test.c") and _f != "idhash.c":
            _p = os.path.relpath(os.path.join(_root, _f), REPO)
            for _m in re.finditer(r"nni_id_map_init\(\s*&?([\w>.\-]+)\s*,\s*(\w+)\s*,\s*(\w+)\s*,\s*(\w+(?:\s*\([^)]*\)[^,)]*)?[^)]*)\)", src(_p)):
                try:
                    _sites.append((_p, _m.group(1), _num(_m.group(2)), _num(_m.group(3))))
                except ValueError:
                    _sites.append((_p, _m.group(1), -1, -1))   # non-literal bounds (nng.c: caller-supplied)
_sites.sort()
extra_text.append("(* all nni_id_map_init call sites: (file, map, lo, hi) as written; 0 = default (1 / 0xffffffff) *)")
extra_text.append("Definition IDMAP_INIT_SITES : list (string * string * N * N) := [\n  %s]." % ";\n  ".join(
    '("%s"%%string, "%s"%%string, %d%%N, %d%%N)' % (p, v, lo, hi) for p, v, lo, hi in _sites if lo >= 0))
