# C14: pipe events, redial, accept -- constants, decision tables and shape flags read from the source
import re as _re
import os as _os

_h = src("include/nng/nng.h")


def _strip(t):
    t = _re.sub(r"/\*.*?\*/", " ", t, flags=_re.S)
    return _re.sub(r"//[^\n]*", " ", t)


def _func(path, name):
    """body of the function `name` (first definition at column 0) of a file, comments stripped; '' if absent"""
    t = src(path)
    m = _re.search(r"^%s\s*\([^;{]*\)\s*\{" % _re.escape(name), t, _re.M)
    if not m:
        missing.append("function %s in %s" % (name, path))
        return ""
    i = m.end()
    depth = 1
    while i < len(t) and depth > 0:
        if t[i] == "{":
            depth += 1
        elif t[i] == "}":
            depth -= 1
        i += 1
    return _strip(t[m.end():i])


# ---- enums ----
_m = _re.search(r"typedef enum \{([^}]*)\}\s*nng_pipe_ev;", _h, _re.S)
_evs = {}
if _m:
    _v = 0
    for _name in _re.findall(r"\b(NNG_PIPE_EV_\w+)\b\s*(?:=\s*(\d+))?\s*,", _strip(_m.group(1))):
        if _name[1]:
            _v = int(_name[1])
        _evs[_name[0]] = _v
        _v += 1
for _n in ("NNG_PIPE_EV_NONE", "NNG_PIPE_EV_ADD_PRE", "NNG_PIPE_EV_ADD_POST", "NNG_PIPE_EV_REM_POST", "NNG_PIPE_EV_NUM"):
    if _n in _evs:
        N("C14_" + _n[4:], _evs[_n], "include/nng/nng.h enum nng_pipe_ev")
    else:
        missing.append("%s in include/nng/nng.h" % _n)

_m = _re.search(r"typedef enum \{([^}]*)\}\s*nng_err;", _h, _re.S)
_errs = []
if _m:
    for _a, _b in _re.findall(r"\b(NNG_E\w+|NNG_OK)\s*=\s*(0x[0-9a-fA-F]+|\d+)", _strip(_m.group(1))):
        _errs.append((_a, int(_b, 0)))
if len(_errs) < 20:
    missing.append("enum nng_err in include/nng/nng.h")
_errv = dict(_errs)
extra_text.append("(* C14: the error enum (include/nng/nng.h nng_err) *)")
extra_text.append("Definition C14_ERR_ENUM : list (string * N) := [" +
                  "; ".join('("%s"%%string, %d%%N)' % (a, b) for a, b in _errs) + "].")
for _n in ("NNG_ECLOSED", "NNG_ECANCELED", "NNG_ESTOPPED", "NNG_ECONNABORTED", "NNG_ECONNRESET", "NNG_ETIMEDOUT",
           "NNG_EPEERAUTH", "NNG_ECONNSHUT", "NNG_EBUSY"):
    if _n in _errv:
        N("C14_" + _n[4:], _errv[_n], "include/nng/nng.h enum nng_err")
    else:
        missing.append("%s in include/nng/nng.h" % _n)


def _switch_table(body, classify):
    """[(set of labels, action)] of the (single) switch in a function body"""
    i = body.find("switch")
    if i < 0:
        return None
    b = body[body.find("{", i) + 1:]
    parts = _re.split(r"\b(case\s+[\w]+\s*:|default\s*:)", b)
    groups, labels = [], []
    for k in range(1, len(parts), 2):
        lab = parts[k]
        code = parts[k + 1]
        lm = _re.match(r"case\s+(\w+)", lab)
        labels.append(lm.group(1) if lm else "default")
        if code.strip() == "":
            continue          # falls through to the next label
        groups.append((labels, classify(code[:code.find("break;")] if "break;" in code else code)))
        labels = []
    return groups


def _val(lab):
    if lab == "0":
        return 0
    return _errv.get(lab)


# ---- listener_accept_cb: result code -> action (0 start pipe & re-arm, 1 re-arm, 2 cool-down, 3 stop) ----
_cool = [None]


def _lclass(code):
    if "nni_pipe_start(" in code and "listener_accept_start(" in code:
        return 0
    if "listener_accept_start(" in code:
        return 1
    m = _re.search(r"nni_sleep_aio\(\s*(\d+)\s*,\s*&l->l_tmo_aio\s*\)", code)
    if m:
        _cool[0] = int(m.group(1))
        return 2
    return 3


_lt = _switch_table(_func("src/core/listener.c", "listener_accept_cb"), _lclass)
_lcases, _ldef = [], None
if _lt:
    for _labs, _act in _lt:
        if "default" in _labs:
            _ldef = _act
            continue         # labels that share the default's code are the default
        for _l in _labs:
            if _val(_l) is None:
                missing.append("case label %s of listener_accept_cb" % _l)
            else:
                _lcases.append((_val(_l), _act))
if not _lt or _ldef is None or _cool[0] is None:
    missing.append("switch of listener_accept_cb in src/core/listener.c")
extra_text.append("(* C14: listener.c listener_accept_cb: (result code, action) with 0 = start pipe and re-arm, 1 = re-arm, 2 = cool-down, 3 = stop; default action *)")
extra_text.append("Definition C14_LISTENER_CASES : list (N * N) := [" + "; ".join("(%d%%N, %d%%N)" % c for c in _lcases) + "].")
N("C14_LISTENER_DEFAULT", _ldef if _ldef is not None else 9, "listener.c listener_accept_cb: default branch")
N("C14_LISTENER_COOLDOWN_MS", _cool[0] or 0, "listener.c listener_accept_cb: nni_sleep_aio(k, &l->l_tmo_aio)")
_ltc = _func("src/core/listener.c", "listener_timer_cb")
extra_text.append("Definition C14_LISTENER_TIMER_REARMS : bool := %s.  (* listener_timer_cb: result 0 -> listener_accept_start *)" %
                  ("true" if _re.search(r"nni_aio_result\(&l->l_tmo_aio\)\s*==\s*0\s*\)\s*\{\s*listener_accept_start\(l\)", _ltc) else "false"))

# ---- dialer_connect_cb: result code -> class (0 start pipe, 1 nothing, 2 retry: timer unless a user aio waits) ----


def _dclass(code):
    if "nni_pipe_start(" in code:
        return 0
    if "nni_dialer_timer_start(" in code:
        return 2
    return 1


_dt = _switch_table(_func("src/core/dialer.c", "dialer_connect_cb"), _dclass)
_dcases, _ddef = [], None
if _dt:
    for _labs, _act in _dt:
        if "default" in _labs:
            _ddef = _act
            continue
        for _l in _labs:
            if _val(_l) is None:
                missing.append("case label %s of dialer_connect_cb" % _l)
            else:
                _dcases.append((_val(_l), _act))
if not _dt or _ddef is None:
    missing.append("switch of dialer_connect_cb in src/core/dialer.c")
extra_text.append("(* C14: dialer.c dialer_connect_cb: (result code, class) with 0 = start pipe, 1 = nothing, 2 = retry; default class *)")
extra_text.append("Definition C14_DIALER_CASES : list (N * N) := [" + "; ".join("(%d%%N, %d%%N)" % c for c in _dcases) + "].")
N("C14_DIALER_DEFAULT", _ddef if _ddef is not None else 9, "dialer.c dialer_connect_cb: default branch")
_dcb = _func("src/core/dialer.c", "dialer_connect_cb")
extra_text.append("Definition C14_DIALER_RETRY_SHAPE : bool := %s.  (* default branch: if (user_aio == NULL) nni_dialer_timer_start(d); else reset d_started *)" %
                  ("true" if _re.search(r"if\s*\(\s*user_aio\s*==\s*NULL\s*\)\s*\{\s*nni_dialer_timer_start\(d\);\s*\}\s*else\s*\{\s*nni_atomic_flag_reset\(&d->d_started\);", _dcb) else "false"))

# ---- reconnect defaults ----
_sec = define_int("src/core/defs.h", "NNI_SECOND")
_sk = src("src/core/socket.c")
_m1 = _re.search(r"s->s_reconn\s*=\s*([^;]+);", _sk)
_m2 = _re.search(r"s->s_reconnmax\s*=\s*([^;]+);", _sk)


def _dur(expr):
    e = expr.strip().replace("NNI_SECOND", str(_sec))
    if _re.fullmatch(r"[\d\s*/()+-]+", e):
        return int(eval(e))
    return None


if _m1 and _m2 and _dur(_m1.group(1)) is not None and _dur(_m2.group(1)) is not None:
    N("C14_SOCK_RECONN_MIN", _dur(_m1.group(1)), "socket.c nni_sock_create: s_reconn")
    N("C14_SOCK_RECONN_MAX", _dur(_m2.group(1)), "socket.c nni_sock_create: s_reconnmax")
else:
    missing.append("s_reconn / s_reconnmax defaults in src/core/socket.c")
_dk = src("src/core/dialer.c")
_m1 = _re.search(r"d->d_inirtime\s*=\s*([^;]+);", _strip(_dk))
_m2 = _re.search(r"d->d_maxrtime\s*=\s*([^;]+);", _strip(_dk))
if _m1 and _m2 and _dur(_m1.group(1)) is not None and _dur(_m2.group(1)) is not None:
    N("C14_DIALER_INIT_MIN", _dur(_m1.group(1)), "dialer.c nni_dialer_init: d_inirtime")
    N("C14_DIALER_INIT_MAX", _dur(_m2.group(1)), "dialer.c nni_dialer_init: d_maxrtime")
else:
    missing.append("d_inirtime / d_maxrtime initial values in src/core/dialer.c")

# ---- shape of nni_pipe_run_cb's filter and of dialer_timer_start_locked ----
_rc = _re.sub(r"\s+", " ", _func("src/core/socket.c", "nni_pipe_run_cb"))
_shape = all(_re.search(p, _rc) for p in (
    r"if \(wantevs\) \{ nni_mtx_lock\(&serialize\);",
    r"if \(p->p_last_event == NNG_PIPE_EV_NONE && ev != NNG_PIPE_EV_ADD_PRE\) \{ nni_mtx_unlock\(&serialize\); return; \}",
    r"if \(p->p_last_event >= ev\) \{ nni_mtx_unlock\(&serialize\); return; \}",
    r"p->p_last_event = ev;",
    r"if \(cb != NULL\) \{ cb\(pid, ev, arg\); \} nni_mtx_unlock\(&serialize\);"))
extra_text.append("Definition C14_RUNCB_SHAPE_OK : bool := %s.  (* socket.c nni_pipe_run_cb has the two guards, the assignment and the callback under `serialize`, in this order *)" % ("true" if _shape else "false"))

_ts = _re.sub(r"\s+", " ", _func("src/core/socket.c", "dialer_timer_start_locked"))
_pinned = bool(_re.search(r"if \(d->d_maxrtime > 0\) \{ d->d_currtime \*= 2; if \(d->d_currtime > d->d_maxrtime\) \{ d->d_currtime = d->d_maxrtime; \} \}", _ts))
_wide = bool(_re.search(r"if \(d->d_maxrtime > 0\) \{ if \(d->d_currtime > d->d_maxrtime / 2\) \{ d->d_currtime = d->d_maxrtime; \} else \{ d->d_currtime \*= 2; \} \}", _ts))
_draw = bool(_re.search(r"back_off = d->d_currtime;", _ts)) and bool(_re.search(r"nni_sleep_aio\(back_off \? \(nng_duration\) \(nni_random\(\) % back_off\) : 0, &d->d_tmo_aio\);", _ts))
if not (_pinned or _wide) or not _draw:
    missing.append("the doubling / draw of dialer_timer_start_locked in src/core/socket.c (neither the pinned nor the repaired form)")
extra_text.append("Definition C14_BACKOFF_WIDE : bool := %s.  (* dialer_timer_start_locked: the doubling cannot overflow (compares with d_maxrtime / 2 first) *)" % ("true" if _wide else "false"))

_so = _re.sub(r"\s+", " ", _func("src/core/dialer.c", "nni_dialer_setopt"))
_mx = _re.search(r"if \(strcmp\(name, NNG_OPT_RECONNMAXT\) == 0\) \{(.*?)return \(rv\); \}", _so)
_mn = _re.search(r"if \(strcmp\(name, NNG_OPT_RECONNMINT\) == 0\) \{(.*?)return \(rv\); \}", _so)
if not _mx or not _mn or "d->d_currtime = d->d_inirtime;" not in _mn.group(1):
    missing.append("RECONNMINT / RECONNMAXT branches of nni_dialer_setopt in src/core/dialer.c")
extra_text.append("Definition C14_RECONNMAX_RESETS : bool := %s.  (* nni_dialer_setopt(RECONNMAXT) also restarts the back-off (d_currtime = d_inirtime) *)" %
                  ("true" if (_mx and "d->d_currtime = d->d_inirtime;" in _mx.group(1)) else "false"))

_pr = _re.sub(r"\s+", " ", _func("src/core/socket.c", "nni_pipe_remove"))
extra_text.append("Definition C14_REMOVE_KICKS : bool := %s.  (* nni_pipe_remove: if (d != NULL && d->d_pipe == p) { d->d_pipe = NULL; dialer_timer_start_locked(d); } *)" %
                  ("true" if _re.search(r"if \(\(d != NULL\) && \(d->d_pipe == p\)\) \{ d->d_pipe = NULL; dialer_timer_start_locked\(d\);", _pr) else "false"))

# ---- start_pipe call order and pipe_reap call order ----


def _order(body, pats):
    pos = -1
    for p in pats:
        m = _re.compile(p).search(body, pos + 1)
        if not m:
            return False
        pos = m.start()
    return True


_sp_pats = [r"nni_pipe_run_cb\(p, NNG_PIPE_EV_ADD_PRE\)", r"if \(nni_pipe_is_closed\(p\)\)", r"return;",
            r"p->p_proto_ops\.pipe_start\(p->p_proto_data\) != 0", r"nni_pipe_close\(p\);", r"return;",
            r"nni_pipe_run_cb\(p, NNG_PIPE_EV_ADD_POST\)"]
_lsp = _re.sub(r"\s+", " ", _func("src/core/socket.c", "listener_start_pipe"))
_dsp = _re.sub(r"\s+", " ", _func("src/core/socket.c", "dialer_start_pipe"))
_dsp_first = bool(_re.search(r"nni_mtx_lock\(&s->s_mx\); d->d_pipe = p; d->d_currtime = d->d_inirtime; nni_mtx_unlock\(&s->s_mx\);.*nni_pipe_run_cb\(p, NNG_PIPE_EV_ADD_PRE\)", _dsp))
extra_text.append("Definition C14_START_PIPE_ORDER_OK : bool := %s.  (* *_start_pipe: ADD_PRE, closed?, pipe_start (close on failure), ADD_POST; the dialer sets d_pipe / resets d_currtime first *)" %
                  ("true" if (_order(_lsp, _sp_pats) and _order(_dsp, _sp_pats) and _dsp_first) else "false"))
_reap = _re.sub(r"\s+", " ", _func("src/core/pipe.c", "pipe_reap"))
extra_text.append("Definition C14_REAP_ORDER_OK : bool := %s.  (* pipe_reap: proto pipe_close, tran p_close, run_cb(REM_POST), id removal, stops, nni_pipe_remove *)" %
                  ("true" if _order(_reap, [r"p->p_proto_ops\.pipe_close\(", r"p->p_tran_ops\.p_close\(", r"nni_pipe_run_cb\(p, NNG_PIPE_EV_REM_POST\)",
                                            r"nni_id_remove\(&pipes, p->p_id\)", r"p->p_proto_ops\.pipe_stop\(", r"p->p_tran_ops\.p_stop\(", r"nni_pipe_remove\(p\)"]) else "false"))
_shut = _re.sub(r"\s+", " ", _func("src/core/socket.c", "sock_shutdown"))
extra_text.append("Definition C14_SHUTDOWN_ORDER_OK : bool := %s.  (* sock_shutdown: s_closing, listeners closed, dialers closed, pipes closed, ..., wait for s_pipes to drain *)" %
                  ("true" if _order(_shut, [r"sock->s_closing = true;", r"nni_listener_close\(l\)", r"nni_dialer_close\(d\)", r"NNI_LIST_FOREACH \(&sock->s_pipes, pipe\) \{ nni_pipe_close\(pipe\); \}",
                                            r"while \(!nni_list_empty\(&sock->s_pipes\)\) \{ nni_cv_wait\(&sock->s_cv\); \}"]) else "false"))

# ---- the close-only codes in the transports (a check of the code's shape, as C02's site table) ----
_tr_bad = []
_nego_files = []
for _root, _dirs, _files in _os.walk(_os.path.join(REPO, "src", "sp", "transport")):
    for _f in sorted(_files):
        if not _f.endswith(".c") or _f.endswith("_test.c"):
            continue
        _p = _os.path.join(_root, _f)
        _t = _strip(open(_p, errors="replace").read())
        for _m in _re.finditer(r"\bNNG_ECONNABORTED\b", _t):
            _fn = "?"
            for _fm in _re.finditer(r"^([A-Za-z_]\w*)\s*\(", _t[:_m.start()], _re.M):
                _fn = _fm.group(1)
            if not (_fn.endswith("_ep_close") or _fn.endswith("_ep_stop")):
                _tr_bad.append("%s:%s" % (_f, _fn))
        if _re.search(r"_pipe_nego_cb\(void \*arg\)\s*\{", _t) or _re.search(r"_nego_cb\(void \*arg\)\s*\{", _t):
            _ok = bool(_re.search(r"if\s*\(rv == NNG_ECLOSED\)\s*\{\s*rv = NNG_ECONNSHUT;\s*\}", _t))
            _nego_files.append((_f, _ok))
for _pf in ("src/platform/posix/posix_tcplisten.c", "src/platform/posix/posix_ipclisten.c"):
    _t = _re.sub(r"\s+", " ", _strip(src(_pf)))
    if not _re.search(r"case ECONNABORTED: case ECONNRESET: continue;", _t):
        _tr_bad.append(_os.path.basename(_pf) + ":accept does not skip ECONNABORTED")
extra_text.append("(* C14: NNG_ECONNABORTED appears in the transports only in endpoint close/stop functions; posix accept skips ECONNABORTED/ECONNRESET *)")
extra_text.append("Definition C14_ECONNABORTED_CLOSE_ONLY : bool := %s.  (* offenders: %s *)" % ("true" if not _tr_bad else "false", ", ".join(_tr_bad) or "none"))
extra_text.append("Definition C14_NEGO_MAPS_ECLOSED : list (string * bool) := [" + "; ".join('("%s"%%string, %s)' % (a, "true" if b else "false") for a, b in _nego_files) + "].  (* negotiation callbacks map NNG_ECLOSED to NNG_ECONNSHUT *)")

# ---- does pipe_reap defer while nni_pipe_start is still running for the pipe? (repair of the start/reap race) ----
_reap_src = _re.sub(r"\s+", " ", _func("src/core/pipe.c", "pipe_reap"))
_ps = _re.sub(r"\s+", " ", _func("src/core/socket.c", "nni_pipe_start"))
_waits = bool(_re.search(r"if \(nni_atomic_get_bool\(&p->p_starting\)\) \{.*?nni_reap\(&pipe_reap_list, p\); return; \}", _reap_src)) and \
    bool(_re.search(r"nni_atomic_set_bool\(&p->p_starting, true\);.*nni_atomic_set_bool\(&p->p_starting, false\);", _ps))
extra_text.append("Definition C14_REAP_WAITS_START : bool := %s.  (* pipe_reap re-queues itself while nni_pipe_start is running for the pipe *)" % ("true" if _waits else "false"))
