# c15_poll.py -- drop-in of tools/gen_consts.py (exec()'d with its globals), property C15.
# Regenerates from the current sources
#   * the error numbers and flag values the C15 models use (include/nng/nng.h),
#   * whether the four NONBLOCK entry points of src/nng.c set a zero timeout and map
#     NNG_ETIMEDOUT to NNG_EAGAIN (C15_API_*), and whether nni_aio_start refuses a zero
#     timeout with NNG_ETIMEDOUT (src/core/aio.c),
#   * which form nni_pollable_getfd (src/core/pollable.c) has: C15_POLLABLE_GETFD_SYNC = true
#     when, after publishing the new descriptor, it re-reads p_raised after its own
#     write/drain (the repair of the first-getfd / clear race), false for the single
#     "if raised then write" of the pinned tree.
_H = "include/nng/nng.h"
_h = src(_H)


def _c15_need(regex, text, what, path, flags=re.S):
    m = re.search(regex, text, flags)
    if not m:
        missing.append("%s in %s" % (what, path))
    return m


for _n in ("NNG_ETIMEDOUT", "NNG_EAGAIN", "NNG_ENOTSUP", "NNG_ESTATE", "NNG_ECLOSED", "NNG_EPROTO", "NNG_ENOMEM"):
    _m = _c15_need(r"\b%s\s*=\s*(\d+)" % _n, _h, _n, _H)
    N("C15_" + _n, int(_m.group(1)) if _m else 0, "include/nng/nng.h")
_m = _c15_need(r"#define\s+NNG_FLAG_NONBLOCK\s+(\d+)u?", _h, "NNG_FLAG_NONBLOCK", _H)
N("C15_NNG_FLAG_NONBLOCK", int(_m.group(1)) if _m else 0, "include/nng/nng.h")
_m = _c15_need(r"#define\s+NNG_DURATION_ZERO\s+\(?(-?\d+)\)?", _h, "NNG_DURATION_ZERO", _H)

_A = "src/nng.c"
_a = src(_A)
_ok_api = True
for _fn in ("nng_recvmsg", "nng_sendmsg", "nng_ctx_recvmsg", "nng_ctx_sendmsg"):
    _m = re.search(r"\n%s\([^)]*\)\s*\{(.*?)\n\}" % _fn, _a, re.S)
    if not _m:
        missing.append("%s body in %s" % (_fn, _A))
        _ok_api = False
        continue
    _b = _m.group(1)
    if not re.search(r"NNG_FLAG_NONBLOCK\)?\s*(?:==\s*NNG_FLAG_NONBLOCK\))?\s*\{\s*nn[gi]_aio_set_timeout\(&aio,\s*NNG_DURATION_ZERO\)", _b):
        _ok_api = False
    if not re.search(r"rv\s*==\s*NNG_ETIMEDOUT\)\s*&&\s*\(\(flags\s*&\s*NNG_FLAG_NONBLOCK\)\s*==\s*NNG_FLAG_NONBLOCK\)\)\s*\{\s*rv\s*=\s*NNG_EAGAIN;", _b):
        _ok_api = False
extra_text.append("Definition C15_API_NONBLOCK_ZERO_TIMEOUT_EAGAIN : bool := %s.  (* nng.c: nng_(ctx_)sendmsg/recvmsg set NNG_DURATION_ZERO for NNG_FLAG_NONBLOCK and map NNG_ETIMEDOUT to NNG_EAGAIN *)"
                  % ("true" if _ok_api else "false"))
_m = re.search(r"\nnni_aio_start\([^)]*\)\s*\{(.*?)\n\}", src("src/core/aio.c"), re.S)
_b = _m.group(1) if _m else ""
if not _m:
    missing.append("nni_aio_start body in src/core/aio.c")
_z = bool(re.search(r"case\s+NNG_DURATION_ZERO:\s*timeout\s*=\s*true;", _b)) and bool(re.search(r"if\s*\(timeout(?:\s*&&\s*\(cancel\s*!=\s*NULL\))?\)\s*\{.*?NNG_ETIMEDOUT.*?return\s*\(false\);", _b, re.S))
extra_text.append("Definition C15_AIO_START_REFUSES_ZERO_TIMEOUT : bool := %s.  (* aio.c nni_aio_start: timeout 0 => NNG_ETIMEDOUT, not queued (for every operation that has a cancel function, i.e. could wait; since fix 6c6b12b not for one without) *)"
                  % ("true" if _z else "false"))

_P = "src/core/pollable.c"
_m = re.search(r"\nnni_pollable_getfd\([^)]*\)\s*\{(.*?)\n\}", src(_P), re.S)
if not _m:
    missing.append("nni_pollable_getfd body in %s" % _P)
_b = _m.group(1) if _m else ""
_after_cas = _b[_b.find("nni_atomic_cas64"):] if "nni_atomic_cas64" in _b else ""
_loads = len(re.findall(r"nni_atomic_get_bool\(&p->p_raised\)", _after_cas))
if _m and _loads < 1:
    missing.append("the load of p_raised after the cas in nni_pollable_getfd of %s" % _P)
_sync = _loads >= 2 and "nni_plat_pipe_clear" in _after_cas
extra_text.append("Definition C15_POLLABLE_GETFD_SYNC : bool := %s.  (* pollable.c nni_pollable_getfd re-reads p_raised after its own write/drain on the new descriptor *)"
                  % ("true" if _sync else "false"))
for _fn, _sw in (("nni_pollable_raise", "true"), ("nni_pollable_clear", "false")):
    _c15_need(r"\n%s\(nni_pollable \*p\)\s*\{\s*if\s*\(!?nni_atomic_swap_bool\(&p->p_raised,\s*%s\)\)" % (_fn, _sw), src(_P), "%s: swap of p_raised first" % _fn, _P)
