# C14: the socket-fd stream listener's hand-over queue (src/core/sockfd.c)
import re as _re

_t = src("src/core/sockfd.c")
_t = _re.sub(r"/\*.*?\*/", " ", _t, flags=_re.S)
_t = _re.sub(r"//[^\n]*", " ", _t)
_m = _re.search(r"#define\s+NNG_SFD_LISTEN_QUEUE\s+(\d+)", _t)
if _m:
    Nat("C14_SFD_LISTEN_QUEUE", int(_m.group(1)), "src/core/sockfd.c NNG_SFD_LISTEN_QUEUE")
else:
    missing.append("NNG_SFD_LISTEN_QUEUE in src/core/sockfd.c")
    Nat("C14_SFD_LISTEN_QUEUE", 0, "NOT FOUND")


def _body(name):
    m = _re.search(r"^%s\s*\([^;{]*\)\s*\{" % _re.escape(name), _t, _re.M)
    if not m:
        missing.append("function %s in src/core/sockfd.c" % name)
        return ""
    i, depth = m.end(), 1
    while i < len(_t) and depth > 0:
        depth += {"{": 1, "}": -1}.get(_t[i], 0)
        i += 1
    return _re.sub(r"\s+", " ", _t[m.end():i])


_sc = _body("sfd_start_conn")
_hdr = r"fd = l->listen_q\[0\]; for \(int i = 1; i < l->listen_cnt; i\+\+\) \{ "
_today = bool(_re.search(_hdr + r"l->listen_q\[i\] = l->listen_q\[i \+ 1\]; \} l->listen_cnt--;", _sc))
_fixed = bool(_re.search(_hdr + r"l->listen_q\[i - 1\] = l->listen_q\[i\]; \} l->listen_cnt--;", _sc))
if not (_today or _fixed):
    # neither the shift as pinned nor the repaired one: the model no longer describes the code
    missing.append("the shift loop of sfd_start_conn in src/core/sockfd.c (neither `q[i] = q[i + 1]` nor `q[i - 1] = q[i]` from i = 1)")
extra_text.append("Definition C14_SFDQ_SHIFT_FIXED : bool := %s.  (* sockfd.c sfd_start_conn: the queue is shifted with listen_q[i - 1] = listen_q[i] (pinned: listen_q[i] = listen_q[i + 1], which keeps slot 0 and drops slot 1) *)" % ("true" if _fixed else "false"))
_cl = _body("sfd_listener_close")
# the whole function, one statement after the other: lock; closed = true; fail the waiting accepts; close the queued
# descriptors; [listen_cnt = 0;] unlock -- nothing else counts as "the queue is emptied at close"
_cl_pre = (r"^ nni_aio \*aio; sfd_listener \*l = arg; nni_mtx_lock\(&l->mtx\); l->closed = true; "
           r"while \(\(aio = nni_list_first\(&l->accept_q\)\) != NULL\) \{ nni_aio_list_remove\(aio\); nni_aio_finish_error\(aio, NNG_ECLOSED\); \} "
           r"for \(int i = 0; i < l->listen_cnt; i\+\+\) \{ nni_sfd_close_fd\(l->listen_q\[i\]\); \} ")
_cl_fixed = bool(_re.search(_cl_pre + r"l->listen_cnt = 0; nni_mtx_unlock\(&l->mtx\); \}$", _cl))
_cl_today = bool(_re.search(_cl_pre + r"nni_mtx_unlock\(&l->mtx\); \}$", _cl))
if not (_cl_fixed or _cl_today):
    missing.append("sfd_listener_close in src/core/sockfd.c is neither the pinned function nor the pinned function with `l->listen_cnt = 0;` between the close loop and the unlock")
_stop = _body("sfd_listener_stop")
if not _re.search(r"^ sfd_listener_close\(arg\); \}$", _stop):
    missing.append("sfd_listener_stop in src/core/sockfd.c (expected to be a call of sfd_listener_close)")
extra_text.append("Definition C14_SFDQ_CLOSE_RESETS : bool := %s.  (* sockfd.c sfd_listener_close: `l->listen_cnt = 0;` directly after the loop that closes the queued descriptors, before the unlock (so that sfd_listener_stop = close does not close them again) *)" % ("true" if _cl_fixed else "false"))
_sf = _body("sfd_listener_set_fd")
_setshape = all(_re.search(p, _sf) for p in (
    r"if \(l->closed\) \{ nni_mtx_unlock\(&l->mtx\); return \(NNG_ECLOSED\); \}",
    r"if \(l->listen_cnt == NNG_SFD_LISTEN_QUEUE\) \{ nni_mtx_unlock\(&l->mtx\); return \(NNG_ENOSPC\); \}",
    r"l->listen_q\[l->listen_cnt\+\+\] = fd; if \(\(aio = nni_list_first\(&l->accept_q\)\) != NULL\) \{ nni_aio_list_remove\(aio\); sfd_start_conn\(l, aio\); \}"))
extra_text.append("Definition C14_SFDQ_SETFD_SHAPE_OK : bool := %s.  (* sfd_listener_set_fd: closed -> ECLOSED, full -> ENOSPC, append, serve the oldest waiting accept *)" % ("true" if _setshape else "false"))
_h = src("include/nng/nng.h")
for _n in ("NNG_ENOSPC", "NNG_ENOMEM"):
    _mm = _re.search(r"\b%s\s*=\s*(\d+)" % _n, _h)
    if _mm:
        N("C14_" + _n[4:], int(_mm.group(1)), "include/nng/nng.h enum nng_err")
    else:
        missing.append("%s in include/nng/nng.h" % _n)
