# c10_close.py -- drop-in of tools/gen_consts.py (exec()'d with its globals) for property C10.
# Regenerated from the current sources:
#   * the error numbers Core/CloseModel.v uses,
#   * which form (pinned / repaired) the source has for the five close-path defects found with the
#     model (C10_FX_*: the fx_* flags of CloseModel.fixes; the theorems of Properties_C10 are stated
#     for these values),
#   * per protocol file: which step of close completes the operations pending on the socket itself
#     (0 = nni_msgq_close of the upper queues, 1 = the protocol's sock_close, 2 = sock_fini through
#     the master context), whether the protocol refuses operations after its sock_close (a
#     "closed" latch) and whether sock_fini finalizes a master context (completing stragglers).  A shape check of the code, not of its semantics.
_h = src("include/nng/nng.h")
for _n in ("NNG_EBUSY", "NNG_ECLOSED", "NNG_ENOENT", "NNG_ENOTSUP"):
    _m = re.search(r"\b%s\s*=\s*(\d+)" % _n, _h)
    if _m:
        N("C10_" + _n[4:], int(_m.group(1)), "include/nng/nng.h enum nng_err")
    else:
        missing.append("%s in include/nng/nng.h" % _n)


def _body(text, name, path):
    """text of the function definition `name(` ... up to the closing brace in column 0"""
    m = re.search(r"^%s\([^;{]*\)\s*\{" % re.escape(name), text, re.M)
    if not m:
        missing.append("function %s in %s" % (name, path))
        return ""
    e = text.find("\n}\n", m.end())
    return text[m.start():e if e > 0 else len(text)]


def _strip(t):
    t = re.sub(r"//[^\n]*", "", t)
    t = re.sub(r"/\*.*?\*/", "", t, flags=re.S)
    return re.sub(r"NNI_VERIF_DELAY\([^;]*;", "", t)


_S = "src/core/socket.c"
_s = src(_S)
# fx_ephold: sock_shutdown honours a failed nni_listener_hold / nni_dialer_hold (waits instead of closing)
_sh = _strip(_body(_s, "sock_shutdown", _S))
_okl = bool(re.search(r"if\s*\(\s*nni_listener_hold\(l\)\s*!=\s*0\s*\)\s*\{[^}]*nni_cv_wait\(&sock->s_cv\);[^}]*continue;", _sh))
_okd = bool(re.search(r"if\s*\(\s*nni_dialer_hold\(d\)\s*!=\s*0\s*\)\s*\{[^}]*nni_cv_wait\(&sock->s_cv\);[^}]*continue;", _sh))
_barel = bool(re.search(r"^\s*nni_listener_hold\(l\);", _sh, re.M))
_bared = bool(re.search(r"^\s*nni_dialer_hold\(d\);", _sh, re.M))
_wake = len(re.findall(r"nni_list_node_remove\(&[dl]->[dl]_node\);\s*nni_cv_wake\(&s->s_cv\);", _strip(_body(_s, "nni_sock_remove_dialer", _S) + _body(_s, "nni_sock_remove_listener", _S))))
if (_okl and _okd and _wake == 2) == (_barel and _bared):
    missing.append("sock_shutdown endpoint loops: neither the pinned nor the repaired shape in " + _S)
_fx_ephold = _okl and _okd and _wake == 2

# fx_epid: the endpoint id is allocated before the endpoint is linked into the socket
_fx_epid = None
for _p, _fn, _alloc, _add in (("src/core/dialer.c", "nni_dialer_init", "nni_id_alloc32(&dialers", "nni_sock_add_dialer("),
                              ("src/core/listener.c", "nni_listener_init", "nni_id_alloc32(&listeners", "nni_sock_add_listener(")):
    _b = _strip(_body(src(_p), _fn, _p))
    _ia, _ib = _b.find(_alloc), _b.find(_add)
    if _ia < 0 or _ib < 0:
        missing.append("%s: id allocation / socket link in %s" % (_fn, _p))
        continue
    _v = _ia < _ib
    if _v and "nni_id_remove(" not in _b[_ib:]:
        missing.append("%s: id allocated first but not removed when the link fails (%s)" % (_fn, _p))
    if _fx_epid is not None and _fx_epid != _v:
        missing.append("dialer.c and listener.c disagree on the order of id allocation and socket link")
    _fx_epid = _v
_fx_epid = bool(_fx_epid)

# fx_ctxfini: nni_ctx_rele finalizes the context before it releases sock_lk
_cr = _strip(_body(_s, "nni_ctx_rele", _S))
_i_rm = _cr.find("nni_list_remove(&sock->s_ctxs, ctx);")
_i_un = _cr.find("nni_mtx_unlock(&sock_lk);", _i_rm if _i_rm >= 0 else 0)
_i_de = _cr.find("nni_ctx_destroy(ctx);", _i_rm if _i_rm >= 0 else 0)
if _i_rm < 0 or _i_un < 0 or _i_de < 0:
    missing.append("nni_ctx_rele: list removal / unlock / destroy in " + _S)
_fx_ctxfini = 0 <= _i_de < _i_un

# fx_lateop: sock_close runs the protocol's sock_close again after the wait for references
_sc = _strip(_body(_s, "sock_close", _S))
_i_wait = _sc.find("nni_cv_wait(&s->s_close_cv);")
if _i_wait < 0 or "sock_destroy(s);" not in _sc:
    missing.append("sock_close: wait for references / sock_destroy in " + _S)
_tail = _sc[_i_wait:_sc.find("sock_destroy(s);")] if _i_wait >= 0 else ""
_mq = _strip(src("src/core/msgqueue.c"))
_mq_latched = all(re.search(r"if\s*\(mq->mq_closed\)", _body(_mq, _f, "src/core/msgqueue.c")) for _f in ("nni_msgq_aio_get", "nni_msgq_aio_put"))
# stragglers of the protocol (second sock_close) AND of the upper queues (second nni_msgq_close, or a closed latch in
# nni_msgq_aio_get/put) are completed
_fx_lateop = ("s->s_sock_ops.sock_close(s->s_data);" in _tail) and \
             (("nni_msgq_close(s->s_urq);" in _tail and "nni_msgq_close(s->s_uwq);" in _tail) or _mq_latched)

# fx_ctxopen: nni_ctx_open closes (not merely releases) the context it created on a socket that is shutting down
_co = _strip(_body(_s, "nni_ctx_open", _S))
_m = re.search(r"if\s*\(sock->s_closing\)\s*\{([^}]*)\}", _co)
if not _m or not re.search(r"nni_ctx_(rele|close)\(ctx\);", _m.group(1)):
    missing.append("nni_ctx_open: the s_closing branch in " + _S)
_fx_ctxopen = bool(_m and "nni_ctx_close(ctx);" in _m.group(1))

# fx_ctxmark: sock_shutdown's loop over s_ctxs sets c_closed for EVERY context (before / outside the c_ref == 0 test)
_m = re.search(r"while\s*\(\(ctx = nctx\) != NULL\)\s*\{(.*?)\n\t\}\n", _sh, re.S)
if not _m:
    missing.append("sock_shutdown: the loop over s_ctxs in " + _S)
    _fx_ctxmark = False
else:
    _lb = _m.group(1)
    _i_set, _i_if = _lb.find("ctx->c_closed = true;"), _lb.find("if (ctx->c_ref == 0)")
    if _i_set < 0 or _i_if < 0:
        missing.append("sock_shutdown: c_closed assignment / c_ref test in the context loop of " + _S)
    _fx_ctxmark = 0 <= _i_set < _i_if

# nni_msgq_close: the loop that fails the waiters covers both lists unconditionally
_mc = _body(_mq, "nni_msgq_close", "src/core/msgqueue.c")
_msgq_close_all = bool(re.search(r"while\s*\(\s*\(\(aio = nni_list_first\(&mq->mq_aio_getq\)\) != NULL\)\s*\|\|\s*\(\(aio = nni_list_first\(&mq->mq_aio_putq\)\) != NULL\)\s*\)\s*\{\s*nni_aio_list_remove\(aio\);\s*nni_aio_finish_error\(aio, NNG_ECLOSED\);\s*\}", _mc))
extra_text.append("Definition C10_MSGQ_CLOSE_ALL : bool := %s.  (* msgqueue.c nni_msgq_close fails every waiting reader and writer, unconditionally (the shape Queue/MsgqModel.v MClose models) *)" % ("true" if _msgq_close_all else "false"))

for _n, _v, _c in (("C10_FX_EPHOLD", _fx_ephold, "socket.c sock_shutdown waits for an endpoint another thread is closing (pinned: closes it without a hold)"),
                   ("C10_FX_EPID", _fx_epid, "dialer.c/listener.c *_init allocate the id before linking the endpoint into the socket"),
                   ("C10_FX_CTXFINI", _fx_ctxfini, "socket.c nni_ctx_rele runs ctx_fini before releasing sock_lk"),
                   ("C10_FX_LATEOP", _fx_lateop, "socket.c sock_close completes stragglers before sock_destroy: the protocol's sock_close and the upper queues' close run again"),
                   ("C10_FX_CTXOPEN", _fx_ctxopen, "socket.c nni_ctx_open closes the context when the socket is shutting down (pinned: only releases it)"),
                   ("C10_FX_CTXMARK", _fx_ctxmark, "socket.c sock_shutdown marks every context closed, not only the idle ones")):
    extra_text.append("Definition %s : bool := %s.  (* %s *)" % (_n, "true" if _v else "false", _c))

# ---- per protocol: where the socket-level pending operations are completed, and the closed latch ----
_PROTOS = [("req0", "reqrep0/req.c", "req0"), ("rep0", "reqrep0/rep.c", "rep0"), ("req0_raw", "reqrep0/xreq.c", "xreq0"),
           ("rep0_raw", "reqrep0/xrep.c", "xrep0"), ("pub0", "pubsub0/pub.c", "pub0"), ("sub0", "pubsub0/sub.c", "sub0"),
           ("sub0_raw", "pubsub0/xsub.c", "xsub0"), ("push0", "pipeline0/push.c", "push0"), ("pull0", "pipeline0/pull.c", "pull0"),
           ("surveyor0", "survey0/survey.c", "surv0"), ("respondent0", "survey0/respond.c", "resp0"),
           ("surveyor0_raw", "survey0/xsurvey.c", "xsurv0"), ("respondent0_raw", "survey0/xrespond.c", "xresp0"),
           ("pair0", "pair0/pair.c", "pair0"), ("pair1", "pair1/pair.c", "pair1"), ("bus0", "bus0/bus.c", "bus0")]
_rows = []
for _name, _f, _pre in _PROTOS:
    _p = "src/sp/protocol/" + _f
    try:
        _t = _strip(src(_p))
    except Exception:
        missing.append(_p)
        continue
    _fini = _body(_t, _pre + "_sock_fini", _p)
    _close = _body(_t, _pre + "_sock_close", _p)
    _ops = _body(_t, _pre + "_sock_send", _p) + _body(_t, _pre + "_sock_recv", _p)
    _finic = bool(re.search(r"_ctx_fini\(&\w+->(master|ctx)\)", _fini))     # sock_fini finalizes the master context
    _closec = bool(re.search(r"nni_aio_finish_error\(|_ctx_close\(&\w+->(master|ctx)\)", _close))   # sock_close completes waiters itself
    if re.search(r"nni_msgq_aio_(get|put)\(", _ops):
        _ph, _latch = 0, _mq_latched   # the upper queues: do nni_msgq_aio_get/put refuse a closed queue?
    elif _closec or not _finic:
        _ph = 1
        _latch = bool(re.search(r"\bclosed\b", _ops))
    else:
        _ph, _latch = 2, True          # sock_close only latches "closed"; the master context is finalized by sock_fini
    _rows.append((_name, _ph, _latch, _finic))
extra_text.append("(* per protocol: (name, step that completes the socket's pending operations: 0 msgq close / 1 sock_close / 2 sock_fini, closed latch, sock_fini finalizes a master context) *)")
extra_text.append("Definition C10_PROTO_CLOSE : list (string * nat * bool * bool) := [")
extra_text.append(";\n".join('  ("%s"%%string, %d, %s, %s)' % (a, b, "true" if c else "false", "true" if d else "false") for a, b, c, d in _rows) + " ].")
