# c08_pair.py -- drop-in of tools/gen_consts.py (exec()'d with its globals): regenerates
# from the current sources of src/sp/protocol/pair0/pair.c and pair1/pair.c
#   * protocol / peer numbers (NNI_PROTO(1,0) through the NNI_PROTO macro; PAIR1_SELF/PEER),
#   * default queue depths (nni_lmq_init(&s->rmq|wmq, k)), the range of the buffer options,
#   * the TTL default (nni_atomic_set(&s->ttl, k)) and range (nni_copyin_int(.., lo, NNI_MAX_MAX_TTL ..)),
#   * the hop-header limits of pair1_pipe_recv_cb (> k) and pair1_sock_send (>= k),
#   * the error numbers the model uses,
#   * which variant of set_send_buf_len each file has (PAIRx_RESIZE_ADMITS_FIXED: waiters admitted after a resize),
#   * which variant of pipe_stop's send-pollable handling each file has
#     (PAIRx_STOP_WRITABLE_FIXED: the clear is guarded by nni_lmq_full(&s->wmq)).
_P0 = "src/sp/protocol/pair0/pair.c"
_P1 = "src/sp/protocol/pair1/pair.c"
_p0 = src(_P0)
_p1 = src(_P1)


def _g(regex, text, what, path, flags=re.S):
    m = re.search(regex, text, flags)
    if not m:
        missing.append("%s in %s" % (what, path))
    return m


def _num(s):
    return int(s.rstrip("uUlL"), 0)


# NNI_PROTO(major, minor) = major * 16 + minor
_m = _g(r"#define\s+NNI_PROTO\(major,\s*minor\)\s*\(\(\(major\)\s*\*\s*(\d+)\)\s*\+\s*\(minor\)\)", src("src/core/protocol.h"), "NNI_PROTO macro", "src/core/protocol.h")
_mul = int(_m.group(1)) if _m else 0
_m = _g(r"#define\s+NNI_PROTO_PAIR_V0\s+NNI_PROTO\((\d+),\s*(\d+)\)", _p0, "NNI_PROTO_PAIR_V0", _P0)
_v0 = int(_m.group(1)) * _mul + int(_m.group(2)) if _m else 0
N("C08_PAIR0_SELF", _v0, "pair0/pair.c NNI_PROTO_PAIR_V0 via protocol.h NNI_PROTO")
_m = _g(r"\.proto_self\s*=\s*\{\s*NNI_PROTO_PAIR_V0\s*,[^}]*\},\s*\.proto_peer\s*=\s*\{\s*NNI_PROTO_PAIR_V0\s*,", _p0, "pair0_proto self/peer = NNI_PROTO_PAIR_V0", _P0)
_m = _g(r"nni_pipe_peer\(p->pipe\)\s*!=\s*NNI_PROTO_PAIR_V0", _p0, "pair0_pipe_start peer check", _P0)
N("C08_PAIR0_PEER", _v0, "pair0/pair.c pair0_pipe_start: nni_pipe_peer != NNI_PROTO_PAIR_V0")
_m = _g(r"#define\s+PAIR1_SELF\s+(0x[0-9a-fA-F]+|\d+)", _p1, "PAIR1_SELF", _P1)
N("C08_PAIR1_SELF", _num(_m.group(1)) if _m else 0, "pair1/pair.c PAIR1_SELF")
_m = _g(r"#define\s+PAIR1_PEER\s+(0x[0-9a-fA-F]+|\d+)", _p1, "PAIR1_PEER", _P1)
N("C08_PAIR1_PEER", _num(_m.group(1)) if _m else 0, "pair1/pair.c PAIR1_PEER")
_g(r"nni_pipe_peer\(p->pipe\)\s*!=\s*PAIR1_PEER", _p1, "pair1_pipe_start peer check", _P1)

for _tag, _txt, _path in (("PAIR0", _p0, _P0), ("PAIR1", _p1, _P1)):
    for _q in ("rmq", "wmq"):
        _m = _g(r"nni_lmq_init\(&s->%s,\s*(\d+)\)" % _q, _txt, "nni_lmq_init(&s->%s, k)" % _q, _path)
        Nat("C08_%s_%s_DEFAULT" % (_tag, _q.upper()), int(_m.group(1)) if _m else 0, "%s sock_init: nni_lmq_init(&s->%s, k)" % (_path, _q))
    _bufs = re.findall(r"nni_copyin_int\(&val,\s*buf,\s*sz,\s*(\d+),\s*(\d+),\s*t\)", _txt)
    if len(_bufs) != 2 or _bufs[0] != _bufs[1]:
        missing.append("two identical buffer-size nni_copyin_int ranges in %s (found %r)" % (_path, _bufs))
        _bufs = [("0", "0")]
    N("C08_%s_BUF_MIN" % _tag, int(_bufs[0][0]), "%s set_send/recv_buf_len: nni_copyin_int(.., lo, hi, ..)" % _path)
    N("C08_%s_BUF_MAX" % _tag, int(_bufs[0][1]), "%s set_send/recv_buf_len: nni_copyin_int(.., lo, hi, ..)" % _path)
    # pipe_stop: pinned form clears the send pollable whenever wr_ready; repaired form only when the buffer is full
    _fn = "pair%s_pipe_stop" % _tag[-1]
    _pinned = re.search(r"if\s*\(s->wr_ready\)\s*\{\s*s->wr_ready\s*=\s*false;\s*nni_pollable_clear\(&s->writable\);\s*\}", _txt)
    _fixed = re.search(r"if\s*\(s->wr_ready\)\s*\{\s*s->wr_ready\s*=\s*false;\s*if\s*\(nni_lmq_full\(&s->wmq\)\)\s*\{\s*nni_pollable_clear\(&s->writable\);\s*\}\s*\}", _txt)
    if not _pinned and not _fixed:
        missing.append("%s wr_ready branch (neither the pinned nor the repaired form) in %s" % (_fn, _path))
    extra_text.append("Definition C08_%s_STOP_WRITABLE_FIXED : bool := %s.  (* %s %s: clear of s->writable guarded by nni_lmq_full(&s->wmq) *)"
                      % (_tag, "true" if _fixed else "false", _path, _fn))
    # the stale-completion repair (fix ec0a8f1): send_sched(s, p) returns unless s->p == p, and
    # pipe_recv_cb parks a message (rd_ready) only for the current peer
    _X = "pair0" if _tag == "PAIR0" else "pair1"
    _st1 = re.search(_X + r"_send_sched\(" + _X + r"_sock \*s, " + _X + r"_pipe \*p\)\s*\{.*?nni_mtx_lock\(&s->mtx\);\s*(?://[^\n]*\n\s*)*if\s*\(s->p\s*!=\s*p\)\s*\{\s*nni_mtx_unlock\(&s->mtx\);\s*return;", _txt, re.S)
    _st2 = re.search(r"\}\s*else if\s*\(s->p\s*==\s*p\)\s*\{\s*s->rd_ready\s*=\s*true;\s*\}\s*else\s*\{(?:\s*//[^\n]*\n)*\s*nni_msg_free\(msg\);", _txt)
    _st3 = re.search(_X + r"_send_sched\(p->pair,\s*p\);", _txt)
    extra_text.append("Definition C08_%s_STALE_FIXED : bool := %s.  (* %s: send_sched(s, p) and the rd_ready branch of pipe_recv_cb act only for the current peer *)"
                      % (_tag, "true" if (_st1 and _st2 and _st3) else "false", _path))
    # the resize repair (fix 7c956d7): set_send_buf_len moves the blocked senders into the grown queue, in order.
    # Pinned form: nni_lmq_resize(&s->wmq ..) directly followed by the pollable logic.
    _rz_fixed = re.search(r"rv\s*=\s*nni_lmq_resize\(&s->wmq,\s*\(size_t\)\s*val\);\s*(?://[^\n]*\n\s*)*while\s*\(!nni_lmq_full\(&s->wmq\)\)\s*\{"
                          r"[^}]*?nni_list_first\(&s->waq\)\)\s*==\s*NULL\)\s*\{\s*break;\s*\}\s*nni_aio_list_remove\(a\);[^}]*?nni_lmq_put\(&s->wmq,\s*m\);"
                          r"\s*nni_aio_set_msg\(a,\s*NULL\);\s*nni_aio_finish\(a,\s*0,\s*l\);\s*\}\s*(?://[^\n]*\n\s*)*if\s*\(!nni_lmq_full\(&s->wmq\)\)\s*\{\s*nni_pollable_raise\(&s->writable\);", _txt, re.S)
    _rz_pinned = re.search(r"rv\s*=\s*nni_lmq_resize\(&s->wmq,\s*\(size_t\)\s*val\);\s*(?://[^\n]*\n\s*)*if\s*\(!nni_lmq_full\(&s->wmq\)\)\s*\{\s*nni_pollable_raise\(&s->writable\);", _txt)
    if not _rz_fixed and not _rz_pinned:
        missing.append("set_send_buf_len after nni_lmq_resize (neither the pinned nor the repaired form) in %s" % _path)
    extra_text.append("Definition C08_%s_RESIZE_ADMITS_FIXED : bool := %s.  (* %s set_send_buf_len: blocked senders move into the resized queue, in order *)"
                      % (_tag, "true" if _rz_fixed else "false", _path))
    # shape lints: the branches the model mirrors
    _g(r"if\s*\(s->p\s*!=\s*NULL\)\s*\{[^}]*return\s*\(NNG_EBUSY\);", _txt, "pipe_start: s->p != NULL => NNG_EBUSY", _path)
    _g(r"if\s*\(s->p\s*==\s*p\)\s*\{\s*s->p\s*=\s*NULL;", _txt, "pipe_stop: s->p == p => s->p = NULL", _path)
    _g(r"if\s*\(\(!nni_lmq_full\(&s->wmq\)\)\s*\|\|\s*s->wr_ready\)\s*\{\s*nni_pollable_raise\(&s->writable\);", _txt, "send_sched: raise writable", _path)

_m = _g(r"nni_atomic_set\(&s->ttl,\s*(\d+)\)", _p1, "pair1 ttl default", _P1)
Nat("C08_PAIR1_TTL_DEFAULT", int(_m.group(1)) if _m else 0, "pair1/pair.c sock_init: nni_atomic_set(&s->ttl, k)")
_m = _g(r"nni_copyin_int\(&ttl,\s*buf,\s*sz,\s*(\d+),\s*NNI_MAX_MAX_TTL,\s*t\)", _p1, "pair1 ttl range", _P1)
Nat("C08_PAIR1_TTL_MIN", int(_m.group(1)) if _m else 0, "pair1/pair.c set_max_ttl: nni_copyin_int(.., lo, NNI_MAX_MAX_TTL, ..)")
Nat("C08_PAIR1_TTL_MAX", define_int("src/core/defs.h", "NNI_MAX_MAX_TTL"), "src/core/defs.h NNI_MAX_MAX_TTL (upper bound of pair1's ttl option)")
_m = _g(r"\(len\s*<\s*sizeof\(uint32_t\)\)\s*\|\|\s*\(\(hdr\s*=\s*nni_msg_trim_u32\(msg\)\)\s*>\s*(0x[0-9a-fA-F]+|\d+)\)", _p1, "pair1_pipe_recv_cb malformed test", _P1)
N("C08_PAIR1_RX_HOP_LIMIT", _num(_m.group(1)) if _m else 0, "pair1/pair.c pipe_recv_cb: hdr > k => malformed")
_g(r"if\s*\(\(int\)\s*hdr\s*>\s*nni_atomic_get\(&s->ttl\)\)", _p1, "pair1_pipe_recv_cb ttl test ((int) hdr > ttl)", _P1)
_m = _g(r"\(nni_msg_header_len\(m\)\s*!=\s*sizeof\(uint32_t\)\)\s*\|\|\s*\(nni_msg_header_peek_u32\(m\)\s*>=\s*(0x[0-9a-fA-F]+|\d+)\)", _p1, "pair1_sock_send raw header test", _P1)
N("C08_PAIR1_TX_HOP_LIMIT", _num(_m.group(1)) if _m else 0, "pair1/pair.c sock_send (raw): header >= k => NNG_EPROTO")
_g(r"nni_msg_header_poke_u32\(m,\s*nni_msg_header_peek_u32\(m\)\s*\+\s*1\)", _p1, "pair1_pipe_send hop increment", _P1)
_g(r"nni_msg_header_clear\(m\);\s*nni_msg_header_append_u32\(m,\s*0\);", _p1, "pair1_sock_send cooked header := 0", _P1)

_e = src("include/nng/nng.h")
for _n in ("NNG_EINVAL", "NNG_EBUSY", "NNG_ECLOSED", "NNG_EAGAIN", "NNG_ENOTSUP", "NNG_EPROTO"):
    _m = re.search(r"\b%s\s*=\s*(\d+)\s*," % _n, _e)
    if not _m:
        missing.append("%s in include/nng/nng.h" % _n)
    N("C08_" + _n, int(_m.group(1)) if _m else 0, "include/nng/nng.h")
for _n, _s in (("NNG_OPT_MAXTTL", "ttl-max"), ("NNG_OPT_SENDBUF", "send-buffer"), ("NNG_OPT_RECVBUF", "recv-buffer")):
    if not re.search(r'#define\s+%s\s+"%s"' % (_n, _s), _e):
        missing.append('%s = "%s" in include/nng/nng.h' % (_n, _s))
