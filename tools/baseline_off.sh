#!/bin/bash
# runs the repository's baseline test-suite with the NNG_VERIF guard OFF (plain build of /repo's working tree).
# Exit 0 iff every test of BASELINE.json's stable_pass list passes (tests that fail in the first parallel run
# are re-run alone once: several use fixed ports/paths and collide with anything else running on the machine).
B=${1:-/tmp/nngv/baseline-off}
rm -rf "$B"; mkdir -p "$B"
cmake -G Ninja -B "$B" -S /repo -DCMAKE_BUILD_TYPE=RelWithDebInfo >/dev/null || exit 2
cmake --build "$B" -j16 >/dev/null || exit 2
ctest --test-dir "$B" -j8 --timeout 900 --output-junit "$B/junit.xml" | tail -15
python3 - "$B" <<'PY'
import json, re, subprocess, sys
b = sys.argv[1]
base = json.load(open("/root/.vp/BASELINE.json"))
stable = set(x.split("::")[0] for x in base.get("stable_pass", []))
log = open(b + "/Testing/Temporary/LastTest.log", errors="replace").read() if False else ""
failed = []
try:
    failed = [l.split(":", 1)[1].strip() for l in open(b + "/Testing/Temporary/LastTestsFailed.log")]
except FileNotFoundError:
    pass
still = []
for t in failed:
    if t not in stable:
        print("baseline_off: %s failed (not in the stable baseline: ignored)" % t)
        continue
    r = subprocess.run(["ctest", "--test-dir", b, "-R", "^" + re.escape(t) + "$", "--timeout", "900"], capture_output=True, text=True)
    if r.returncode != 0:
        still.append(t)
    else:
        print("baseline_off: %s failed in the parallel run, passes alone" % t)
print("baseline_off: stable tests failing: %s" % (still or "none"))
sys.exit(1 if still else 0)
PY
