#!/bin/bash
# runs the repository's baseline test-suite with the NNG_VERIF guard OFF
set -e
B=${1:-/tmp/nngv/baseline-off}
rm -rf "$B"; mkdir -p "$B"
cmake -G Ninja -B "$B" -S /repo -DCMAKE_BUILD_TYPE=RelWithDebInfo >/dev/null
cmake --build "$B" -j16 >/dev/null
ctest --test-dir "$B" -j8 --timeout 900 --output-junit "$B/junit.xml"
