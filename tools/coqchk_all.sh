#!/bin/bash
# independent re-check of every compiled property file and everything it depends on (coqchk), with the axiom
# summary (-o).  ~5 min, ~5 GB.  Output: docs/coqchk_all.txt
cd "$(dirname "$0")/../coq" || exit 2
python3 ../tools/gen_consts.py >/dev/null 2>&1
python3 ../tools/assemble.py >/dev/null 2>&1
coq_makefile -f _CoqProject -o Makefile >/dev/null 2>&1 && timeout 3000 make -j16 >/dev/null 2>&1 || { echo "make failed"; exit 1; }
mods=$(ls Props/Properties_C*.v | sed 's/.v$//; s#/#.#g; s/^/NngV./' | tr '\n' ' ')
timeout 3000 coqchk -o -silent -Q . NngV $mods > ../docs/coqchk_all.txt 2>&1
tail -14 ../docs/coqchk_all.txt
grep -q "Axioms: <none>" ../docs/coqchk_all.txt
