#!/bin/bash
# final pass: every seeded change applied to /repo itself (git -C /repo apply), the registered quick check run
# in /verif, the change undone (git -C /repo checkout -- .).  Nothing else may use /repo meanwhile.
cd "$(dirname "$0")/.."
out=seeded/INREPO_RESULTS.txt
: > $out
for d in seeded/C*/[0-9]; do
  id=$(basename $(dirname $d))
  props=$id
  [ "$d" = "seeded/C01/3" ] && props="C01,C16"
  [ "$d" = "seeded/C12/3" ] && props="C12,C14"
  python3 tools/run_seeded.py $d --props $props --in-repo 2>&1 | grep "^seeded" >> $out
  git -C /repo status --short | grep -v "^??" >> $out
done
echo "done" >> $out
