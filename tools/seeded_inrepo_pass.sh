#!/bin/bash
# final pass: every seeded change applied to /repo itself (git -C /repo apply), the registered quick check run
# in /verif, the change undone (git -C /repo checkout -- .).  Nothing else may use /repo meanwhile.
cd "$(dirname "$0")/.."
# usage: seeded_inrepo_pass.sh [glob-of-change-numbers, default 0-9] [output file]
pat=${1:-0-9}
out=${2:-seeded/INREPO_RESULTS.txt}
: > $out
for d in seeded/C*/[$pat]; do
  id=$(basename $(dirname $d))
  props=$id
  [ "$d" = "seeded/C01/3" ] && props="C01,C16"
  [ "$d" = "seeded/C12/3" ] && props="C12,C14"
  [ "$d" = "seeded/C07/6" ] && props="C07,C02"
  [ "$d" = "seeded/C09/6" ] && props="C09,C13"
  [ "$d" = "seeded/C18/5" ] && props="C18,C08"
  python3 tools/run_seeded.py $d --props $props --in-repo 2>&1 | grep "^seeded" >> $out
  git -C /repo status --short | grep -v "^??" >> $out
done
echo "done" >> $out
