#!/bin/bash
# build_wb.sh <builddir> <driver.c> : compile a white-box driver against the
# sanitised static library in <builddir>; prints the binary path.
set -e
B=$1; SRC=$2; NAME=$(basename "$SRC" .c)
REPO=${NNGV_REPO:-/repo}
OUT="$B/wb/$NAME"
mkdir -p "$B/wb"
if [ "$OUT" -nt "$SRC" ] && [ "$OUT" -nt "$B/libnng_testing.a" ]; then echo "$OUT"; exit 0; fi
SAN=""
case "$B" in *b-asan-*) SAN="-fsanitize=address,undefined -fno-sanitize-recover=all -fno-sanitize=nonnull-attribute";; esac
gcc -O1 -g $SAN -DNNG_VERIF -DNNG_STATIC_LIB -DNNG_TEST_LIB -DNNG_PRIVATE -DNNG_PLATFORM_POSIX \
  $(grep -o '\-DNNG_[A-Z0-9_]*\(=[0-9A-Za-z_]*\)\?' "$B/build.ninja" | sort -u | tr '\n' ' ') \
  -I"$REPO/src" -I"$REPO/include" -I"$(dirname "$SRC")" "$SRC" "$B/libnng_testing.a" -lpthread -o "$OUT" 2>"$B/wb/$NAME.log" \
  || { echo "driver build failed: $B/wb/$NAME.log" >&2; head -30 "$B/wb/$NAME.log" >&2; exit 2; }
echo "$OUT"
