#!/bin/bash
# build_models.sh [driver ...]: extract the model of each OCaml driver's component and
# build ocaml/build/modeld_<x>.  A driver names its component in its first line:
#   (* model: <fragment> *)      (fragment = file name in coq/extract.d without .txt)
# Incremental.  With arguments only those drivers are built and a failure is fatal;
# without arguments all are attempted and failures are reported but not fatal.
cd "$(dirname "$0")/.."
python3 tools/assemble.py
( cd coq && { [ -f Makefile ] && [ Makefile -nt _CoqProject ] || coq_makefile -f _CoqProject -o Makefile >/dev/null; } )
want="$@"; fatal=1
if [ -z "$want" ]; then want=$(ls ocaml/drv_*.ml | sed 's#ocaml/drv_\(.*\)\.ml#\1#'); fatal=0; fi
rc=0
for d in $want; do
  src=ocaml/drv_$d.ml
  frag=$(head -1 $src | sed -n 's/^(\* model: \([A-Za-z0-9_-]*\) \*).*/\1/p')
  [ -z "$frag" ] && { echo "build_models: $src has no '(* model: <fragment> *)' first line" >&2; rc=1; continue; }
  ufrag=${frag//-/_}
  out=ocaml/build/$ufrag; mkdir -p $out
  # 1. the .vo files the extraction unit imports
  mods=$(sed -n 's/^import \(.*\)/\1/p' coq/extract.d/$frag.txt | sed 's#\.#/#g; s#$#.vo#' | tr '\n' ' ')
  ( cd coq && timeout 1500 make -s -j16 $mods >/dev/null 2>../$out/coq.log ) || { echo "build_models: models of $frag do not compile (see $out/coq.log)" >&2; rc=1; continue; }
  # 2. extraction (only if some model .vo is newer than the extracted file)
  newer=0; for m in $mods; do [ coq/$m -nt $out/nngv_model.ml ] && newer=1; done
  [ coq/Extract_$ufrag.v -nt $out/nngv_model.ml ] && newer=1
  if [ $newer = 1 ] || [ ! -f $out/nngv_model.ml ]; then
    ( cd $out && timeout 600 coqc -Q ../../../coq NngV ../../../coq/Extract_$ufrag.v >extract.log 2>&1 ) || { echo "build_models: extraction of $frag failed (see $out/extract.log)" >&2; rc=1; continue; }
    rm -f coq/Extract_$ufrag.vo coq/Extract_$ufrag.glob coq/.Extract_$ufrag.aux
    ( cd $out && ocamlfind ocamlopt -w -a -c nngv_model.mli nngv_model.ml ) || { rc=1; continue; }
  fi
  # 3. conv + driver
  if [ ocaml/conv.ml -nt $out/conv.cmx ] || [ $out/nngv_model.cmx -nt $out/conv.cmx ] || [ ! -f $out/conv.cmx ]; then
    cp ocaml/conv.ml $out/ && ( cd $out && ocamlfind ocamlopt -w -a -c conv.ml ) || { rc=1; continue; }
  fi
  extra=$(sed -n '2s/^(\* with: \(.*\) \*).*/\1/p' $src)
  newer=0; for e in $extra; do [ ocaml/$e -nt ocaml/build/modeld_$d ] && newer=1; done
  if [ $newer = 1 ] || [ $src -nt ocaml/build/modeld_$d ] || [ $out/conv.cmx -nt ocaml/build/modeld_$d ] || [ ! -f ocaml/build/modeld_$d ]; then
    for e in $extra; do cp ocaml/$e $out/; done
    cp $src $out/ && ( cd $out && ocamlfind ocamlopt -w -a -o ../modeld_$d nngv_model.cmx conv.cmx $extra drv_$d.ml 2>build_$d.log ) || { echo "build_models: driver $d does not compile (see $out/build_$d.log)" >&2; rc=1; continue; }
  fi
done
[ $fatal = 1 ] && exit $rc
exit 0
