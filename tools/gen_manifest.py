#!/usr/bin/env python3
"""Writes /verif/MANIFEST.json from the table below (one place to keep the claims current).
   A property is claimed only if checks/<id>.py exists; everything else is listed under
   not_applicable with its reason."""
import json, os, sys

VERIF = os.path.dirname(os.path.dirname(os.path.abspath(__file__)))
ENGINE = "coq-proof+correspondence"

COMMON_TRUST = ("Trusted: Coq 8.16.1 kernel (no native_compute), extraction with ExtrOcamlBasic only, the OCaml/C drivers, "
                "generator quality of the correspondence runs; ")

# id -> (level text, level note, technique, design ref)
CLAIMS = {
 "C02": (
  "Coq theorems over ALL interleavings of the critical sections of one nni_aio (any number of threads; continuations a thread has not yet run may be overtaken): token accounting (each submitted operation has exactly one completion token: with the provider, being finished, being dispatched, queued, or already run; never more callbacks than submissions; at most one in flight; busy count exact), stop quiescence (after nni_aio_stop returns every earlier operation has had its callback and none starts later; state at return is idle), a strictly decreasing measure for every library-internal step (bounded completion), no timeout before the deadline for the source's current expire loop (the form of the loop is read from aio.c on every run; the pinned form is refuted by a witness that was replayed on the real expire thread and repaired by a fix: commit). Result consistency is proved only for runs without a 'late' abort (aio_result_consistent_partial); the general statement is refuted by a model witness that the concurrent stress run reproduces (known finding aio-late-abort-result). Tie to aio.c: (1) scripted sequential runs, implementation (ASan/UBSan, virtual clock H4) vs extracted model line by line plus an observation oracle; (2) concurrent stress with the H2 trace: every logged critical section of aio.c must be an instance of the extracted AioFw.fw_step, which Coq lemmas relate to the model's steps; (3) a directed schedule of the early-timeout witness on the real expire thread; (4) a regenerated table of all nni_aio_start call sites (result honoured).",
  COMMON_TRUST + "hooks H2 (trace), H2q (quiescence), H4 (virtual clock); mutual exclusion of eq_mtx/task_mtx and condition-variable semantics; prep+start of nni_aio_start are one model step; providers honour the provider contract (finish at most once per successful start) - for providers without their own model only the syntactic start-site table is checked; nni_aio_reset's unlocked writes are classified, not verified; liveness beyond the decreasing measure (scheduler fairness) is not expressible. PARTIAL: result consistency (see text). Axioms: none.",
  "Coq proof (interleaving semantics, invariants by induction over runs, termination measure, refuted/holds witnesses) + extracted-model differential runs + trace conformance of the running code against the model's step functions",
  "DESIGN.md 5/C02"),
 "C04": (
  "Coq theorems over all histories of the REQ, REP, XREQ (raw) and XREP state machines (one step = one critical section of req.c/rep.c/xreq.c/xrep.c): a reply is delivered only to the context whose outstanding request id matches and at most once, every other reply is discarded silently, ids are fresh with the high bit set, state errors (ESTATE) exactly as documented, REP replies go to the pipe the request came from exactly once, backtrace push/pop round-trips and is bounded, non-blocking clauses and poll mirrors for the source as it is now (flags read from the source on every run; each pinned form has a _refuted vm_compute witness that was replayed on the implementation and repaired by a fix: commit). Theorems named _partial state what is missing (ledger balance excludes messages parked in transport aios; poll mirror holds outside pipe-close steps). Tie: extracted models vs the real library (ASan/UBSan, Debug asserts on) on the same scripts over the deterministic white-box transport, every completion, wire message and poll descriptor compared after each command; spec oracle on the implementation's own observations.",
  COMMON_TRUST + "the test transport harness/vtran.h, hooks H2q/H4; send/receive buffers used at the level of their FIFO spec (C18); environment contract op_ok (fresh pipe ids, completions only for operations in flight, one submission per aio at a time); socket mutex gives mutual exclusion; real transports replaced by the deterministic one (C01). Axioms: none.",
  "Coq proof (state-machine invariants + per-history laws by induction, refuted/holds pairs keyed on flags regenerated from the source) + extracted-model differential correspondence over a deterministic transport",
  "DESIGN.md 5/C04"),
 "C05": (
  "Coq theorems over all histories of SUB (with contexts), PUB and XSUB: a message is queued for a context iff one of its subscriptions is a byte prefix (prefix decision procedure proved correct), contexts are independent, unsubscribe purges exactly the messages no remaining subscription matches, a full queue drops exactly the oldest, per-publisher order without duplication, conservation (delivered + queued + dropped = arrived-and-matching), non-blocking receive immediate, poll mirror for the source as it is now (pinned form refuted, repaired by a fix: commit), PUB send never blocks and offers each message to each pipe exactly once in FIFO order per pipe with drops only on a full per-pipe queue, XSUB does no filtering. Tie: extracted models vs the sanitised library on the same scripts over the deterministic transport; prefix oracle on the implementation's own deliveries.",
  COMMON_TRUST + "harness/vtran.h, hook H2q; per-pipe/ per-context queues at the level of the lmq FIFO spec (C18); op_ok environment contract; mutual exclusion of the socket mutex. Axioms: none.",
  "Coq proof (invariants, prefix-filter decision procedure, conservation/ordering laws by induction over histories) + extracted-model differential correspondence",
  "DESIGN.md 5/C05"),
 "C06": (
  "Coq theorems over all histories of the PUSH and PULL state machines (one step = one critical section): multiset conservation per step and per history, hand-off to the transports in acceptance order, back-pressure (blocking send queued, NONBLOCK send EAGAIN with no change exactly when nothing can be accepted), PULL delivery in arrival order, and end-to-end conservation for one pusher and any number of pullers under the link law. Tied to push.c/pull.c by running the extracted models and the real library (ASan/UBSan) on the same scripts over a deterministic white-box transport, comparing every completion, every message handed to a pipe and both poll descriptors after every command.",
  COMMON_TRUST + "the test transport harness/vtran.h and the quiescence hook H2q; the send buffer is used at the level of its FIFO spec (C18); environment contract op_ok (pipe started once, completions only for sends in flight, an aio submitted once at a time); mutual exclusion of the socket mutex; real transports are replaced by the deterministic one (covered by C01). Axioms: none.",
  "Coq proof (invariants + multiset/ordering laws by induction over histories, composition under a link law) + extracted-model differential correspondence over a deterministic transport",
  "DESIGN.md 5/C06"),
 "C07": (
  "Coq theorems over all histories of SURVEYOR (with contexts), RESPONDENT (with contexts), XSURVEYOR and XRESPONDENT: only responses carrying the id of the context's current survey are delivered, a new survey aborts the old one, late responses are never delivered, ids fresh with the high bit, ESTATE rules, deadline behaviour on the virtual clock, fan-out offers each pipe the survey once, a response goes to the pipe of the latest survey received exactly once, backtrace header rules (bounded, bytes conserved, TTL, short body, never full), raw-mode routing and drop/close rules, non-blocking receive clauses. The statements that fail on the tree are kept as _refuted witnesses: each was replayed on the implementation; the small ones were repaired by fix: commits, the RESPONDENT non-blocking send (EAGAIN while the pipe is busy) cannot be repaired without editing the repository's tests and is a known finding (respondent-nb-send-eagain). Tie: extracted models vs the sanitised library over the deterministic transport with the virtual clock; observation oracle.",
  COMMON_TRUST + "harness/vtran.h, hooks H2q/H4; queues at the level of the lmq spec (C18); op_ok environment contract; socket mutex. PARTIAL where a theorem is named _refuted for the current source (respondent NONBLOCK send). Axioms: none.",
  "Coq proof (state-machine invariants, id/deadline laws by induction over histories, refuted witnesses) + extracted-model differential correspondence with a virtual clock",
  "DESIGN.md 5/C07"),
 "C08": (
  "Coq theorems over all histories of one parametric PAIR machine instantiated as pair0, pair1 and pair1 raw: at most one peer (a second is refused), conservation per step with explicit loss lists, FIFO and lossless delivery in both directions while the peer stays attached (resizes included), a full send buffer blocks instead of dropping, non-blocking send/receive immediate and successful whenever possible, poll mirrors (send side for the source as it is now; the pinned pipe_stop form is refuted and was repaired by a fix: commit), PAIRv1 hop-count rules for every 32-bit header word (TTL, malformed headers disconnect, outgoing hop+1, raw header handling). pair_stale_send_completion_refuted documents what the environment contract excludes (a completion processed after its pipe was replaced - suspected race, not reproducible with the deterministic harness, recorded in DESIGN.md as suspected). Tie: extracted models vs the sanitised library over the deterministic transport; hop sweep of every boundary value at every TTL; observation oracle.",
  COMMON_TRUST + "harness/vtran.h, hook H2q; lmq FIFO spec (C18); environment contract op_ok incl. 'successful completions are processed while their pipe is still attached' (excludes the suspected stale-completion race); socket mutex. Axioms: none.",
  "Coq proof (parametric state machine, invariants + FIFO/loss laws by induction over histories, bit-vector hop rules) + extracted-model differential correspondence",
  "DESIGN.md 5/C08"),
 "C09": (
  "Coq theorems over all histories of BUS (cooked and raw): fan-out offers a sent message to every attached peer at most once and never back to the peer it came from (raw/device mode), send never blocks, per-peer FIFO, a full per-peer queue drops the whole message for that peer only, receive order per peer, conservation per step and per history (nothing lost except the counted drops), non-blocking receive. The NONBLOCK send clause is refuted for the pinned bus0_sock_send (it starts the aio before the fan-out and returns EAGAIN): replayed on the implementation, not repairable without editing the repository's tests, known finding bus-nonblock-send-eagain; bus_nonblock_send_holds_when_fixed states it for the repaired form. Tie: extracted model vs sanitised library over the deterministic transport.",
  COMMON_TRUST + "harness/vtran.h, hook H2q; lmq FIFO spec (C18); op_ok environment contract; socket mutex. PARTIAL: NONBLOCK send (known finding). Axioms: none.",
  "Coq proof (invariants + conservation/ordering laws by induction over histories) + extracted-model differential correspondence",
  "DESIGN.md 5/C09"),
 "C12": (
  "Coq theorems over all histories of the REQ retry machinery (model shared with C04, virtual clock): a request whose pipe is lost is re-queued and re-sent on another pipe, a pending request is re-sent at each retry tick, a queued request is sent as soon as a pipe is ready and is never dropped while queued, with retries disabled a request is sent at most once and a pipe loss resets the context. Statements named _partial say what is missing (progress is per step under 'some pipe ready', not a fairness argument); the stashed-reply statement is refuted for the pinned form and holds _partial for the repaired one. Tie: extracted model vs sanitised library with the virtual clock placing retry ticks exactly.",
  COMMON_TRUST + "as C04, plus hook H4 (virtual clock) for retry ticks; eventual delivery depends on a ready pipe existing (environment) - PARTIAL: liveness is stated per step. Axioms: none.",
  "Coq proof (invariants over the retry queues by induction over histories with an explicit clock) + extracted-model differential correspondence with a virtual clock",
  "DESIGN.md 5/C12"),
 "C16": (
  "Coq theorems for every byte string and every segmentation: WebSocket frame header encode/decode round-trip and minimal-length encoding, masking involutive and equal to the byte-wise definition for any stride, frame round-trip, decoder output independent of how the input is cut (any split gives the same events), reassembly exact, fragmentation round-trip, decoder rejects exactly the malformed frames and delivers nothing after an error, limits; HTTP head parser and chunked decoder segmentation-independent and restartable, malformed heads rejected, emitters well formed and accepted by the peer parser; base64 round-trip. Pinned-form defects (control frames counted against recvmax, header without colon, status line shape) are refuted by witnesses, replayed and repaired by fix: commits; the flags are read from the source on every run. One unrepaired genuine defect is a known finding (http-wrbuf-clobbers-unread). Tie: extracted codec models vs the sanitised C (websocket.c/http_msg.c/http_chunk.c/base64.c compiled white-box) on generated valid and malformed streams with random cuts, plus loopback runs.",
  COMMON_TRUST + "white-box inclusion of the codec sources; see evidence.assumptions for the unmodelled policies (8 KiB read buffer, back-pressure, URI canonification on unreserved characters only). Axioms: none.",
  "Coq proof (round-trip and segmentation-independence theorems by induction over byte strings/cut lists) + extracted-model differential correspondence on cut streams",
  "DESIGN.md 5/C16"),
 "C17": (
  "Coq theorems (unbounded: all op histories, all sizes) that the model of message.c/nng.c refines a pair of byte strings, never leaves its storage, keeps capacity>=length, BE codecs round-trip, dup is equal; the model is tied to the code by a white-box differential run (extracted model vs sanitised library, every observable after every op) and an extracted-spec oracle.",
  COMMON_TRUST + "sizes are unbounded nat (SIZE_MAX guards not modelled). Axioms: none (Print Assumptions closed).",
  "Coq proof (refinement + invariant by induction over op lists) + extracted-model differential correspondence",
  "DESIGN.md 5/C17"),
 "C18": (
  "Coq theorems for all histories: lmq refines a bounded FIFO (put/get/flush/resize, resize keeps the oldest min(len,cap) in order and frees exactly the rest), msgq steps are total with ring indices in range, depth <= cap (+1 in-flight slot after a shrink), FIFO in acceptance order over whole histories, blocked-reader invariant; id map (idhash.c): refinement to an association-list map with cyclic cursor over all histories, probe sequence has full period for every table size (termination of find/alloc), alloc returns the first free id in cyclic order within [lo,hi] and fails only when all are live, load accounting, the library's id ranges satisfy the invariant, constants regenerated from the source. Pinned-form defects (lmq/msgq resize, id_alloc wrap at UINT64_MAX) refuted, replayed, repaired by fix: commits. Tie: white-box differential runs (msgqueue.c/idhash.c compiled into the drivers, ASan/UBSan, private state compared) and spec oracles.",
  COMMON_TRUST + "messages are abstract ids; aio layer reduced to 'start succeeded / failed'; mutual exclusion of mq_lock assumed (one step = one critical section); nni_random scripted. Axioms: none.",
  "Coq proof (ring-window refinement to a list FIFO, open-addressing refinement to a finite map, probe-order number theory, invariants by induction over op lists) + extracted-model differential correspondence",
  "DESIGN.md 5/C18"),
 "C19": (
  "Coq theorems for every byte string: the UTF-8 validator accepts exactly well-formed UTF-8 (as the code defines it) and never reads out of bounds, URL canonification and parsing are total and stay in bounds, the scheme table is matched exactly, canonification is idempotent and its output canonical, parse/sprintf round-trip (_partial: stated on the modelled character classes), clone is equal and independent. Pinned-form defects (over-long/truncated UTF-8, scheme prefix match, bracketed host round-trip, clone of long/NULL-host URLs) are refuted by witnesses, replayed and repaired by fix: commits; flags are read from the source on every run. Tie: extracted model vs the sanitised C on exactly-sized heap copies of generated and mutated URLs/byte strings.",
  COMMON_TRUST + "getservbyname is an oracle fed from the implementation side's libc; C-locale ctype tables; allocation failure not modelled here (C20). PARTIAL: parse_accepts_only_partial / parse_sprintf_roundtrip_partial. Axioms: none.",
  "Coq proof (decision procedure correctness, bounds and idempotence by induction over byte strings) + extracted-model differential correspondence",
  "DESIGN.md 5/C19"),
}

NOT_BUILT = {
 "C01": "not yet built: SP framing/iov/wire-length model planned (DESIGN.md 5/C01); no check is registered rather than a weak one",
 "C03": "not yet built: ownership ledger over the protocol models planned (DESIGN.md 5/C03)",
 "C10": "not yet built: close/teardown state machine planned (DESIGN.md 5/C10)",
 "C11": "not yet built: hostile-peer byte streams against the negotiation/framing models planned (DESIGN.md 5/C11)",
 "C13": "not yet built: device/backtrace composition over ReqRepBacktrace.v/SurveyBacktrace.v planned (DESIGN.md 5/C13)",
 "C14": "not yet built: pipe event/dialer/listener state machine planned (DESIGN.md 5/C14)",
 "C15": "not yet built as its own check: the per-protocol NONBLOCK/poll-mirror theorems exist under C04-C09; the uniform statement over all protocols is planned (DESIGN.md 5/C15)",
 "C20": "not yet built: allocation-failure enumeration against error-path models planned (DESIGN.md 5/C20)",
}


def main():
    props = [json.loads(l)["id"] for l in open(os.path.join(VERIF, "properties.jsonl")) if l.strip()]
    checks, na = [], []
    for p in props:
        have = os.path.exists(os.path.join(VERIF, "checks", p.lower() + ".py"))
        if p in CLAIMS and have:
            text, note, tech, ref = CLAIMS[p]
            checks.append({"property_id": p, "quick_cmd": "./check %s quick" % p, "thorough_cmd": "./check %s thorough" % p,
                           "evidence_file": "/verif/evidence/%s.json" % p, "replay_cmd_template": "./check %s --replay {path}" % p,
                           "engine": ENGINE, "level_claimed": {"category": "proof", "text": text, "design_ref": ref},
                           "level_note": note, "technique": tech})
        else:
            na.append({"property_id": p, "reason": NOT_BUILT.get(p, "not built")})
    m = {"version": 1, "setup_cmd": "tools/setup.sh",
         "hooks": {"guard": "NNG_VERIF",
                   "enable": "tools/build_nng.sh builds /repo's working tree with -DNNG_VERIF (CMAKE_C_FLAGS) into a scratch dir under /tmp/nngv keyed by the tree's content hash",
                   "baseline_off_cmd": "tools/baseline_off.sh",
                   "source_commits": ["80aca36", "c04e219", "96df945", "957b318", "51e940d"], "add_only": True},
         "engines": [{"name": ENGINE, "path": "check", "serves_properties": [c["property_id"] for c in checks],
                      "kind_free_text": "Coq 8.16 theorems about hand-written executable Gallina models (coq/), constants and repaired/pinned flags regenerated from /repo on every run (tools/gen_consts.py -> coq/Gen/Consts.v); models extracted to OCaml and run against the real library (white-box, ASan/UBSan, -DNNG_VERIF) on the same op sequences; an abstract spec oracle on the implementation's own observations decides violations"}],
         "checks": checks, "not_applicable": na,
         "notes": "Known findings (genuine defects recorded, not repaired) and fixed: lines are in findings/known_findings.txt; seeded breaking changes under seeded/<id>/."}
    tmp = os.path.join(VERIF, "MANIFEST.json.tmp")
    json.dump(m, open(tmp, "w"), indent=1)
    os.replace(tmp, os.path.join(VERIF, "MANIFEST.json"))
    print("claimed:", " ".join(c["property_id"] for c in checks), "| not_applicable:", " ".join(x["property_id"] for x in na))


if __name__ == "__main__":
    main()
