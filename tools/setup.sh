#!/bin/bash
# setup_cmd: build the framework from files on disk only (offline).
set -e
cd "$(dirname "$0")/.."
python3 tools/gen_consts.py
python3 tools/assemble.py
cd coq && coq_makefile -f _CoqProject -o Makefile >/dev/null && timeout 3000 make -k -j16 >/dev/null 2>make.log || { tail -40 make.log; echo "coq build had failures (checks will report them)"; }
cd .. && tools/build_models.sh
echo setup done
