#!/bin/bash
# Build a static, sanitised nng_testing library from /repo's *current working
# tree* (hooks on: -DNNG_VERIF).  Output dir is keyed by a hash of the
# working-tree contents so a changed tree is rebuilt; prints the build dir.
# usage: build_nng.sh [asan|plain]
set -e
VARIANT=${1:-asan}
REPO=${NNGV_REPO:-/repo}
ROOT=${NNGV_SCRATCH:-/tmp/nngv}
mkdir -p "$ROOT"
H=$( (cd "$REPO" && git ls-files -s -- src include cmake CMakeLists.txt && git diff -- src include cmake CMakeLists.txt && \
      git ls-files -o --exclude-standard -- src include | xargs -r sha1sum) 2>/dev/null | sha1sum | cut -c1-16)
B="$ROOT/b-$VARIANT-$H"
if [ -f "$B/.ok" ]; then echo "$B"; exit 0; fi
# evict older builds of this variant (disk is limited)
ls -1dt "$ROOT"/b-$VARIANT-* 2>/dev/null | tail -n +25 | while read d; do [ "$d" != "$B" ] && rm -rf "$d"; done
rm -rf "$B"; mkdir -p "$B"
if [ "$VARIANT" = asan ]; then
  CF="-O1 -g -fno-omit-frame-pointer -fsanitize=address,undefined -fno-sanitize-recover=all -fno-sanitize=nonnull-attribute -DNNG_VERIF"
else
  CF="-O1 -g -DNNG_VERIF"
fi
( cd "$B" && cmake -G Ninja -DCMAKE_BUILD_TYPE=Debug -DNNG_TESTS=ON -DNNG_TOOLS=OFF -DBUILD_SHARED_LIBS=OFF \
    -DCMAKE_C_COMPILER=gcc -DCMAKE_C_FLAGS="$CF" "$REPO" >cmake.log 2>&1 && \
  ninja -j16 nng_testing >build.log 2>&1 ) || { echo "BUILD FAILED, see $B/build.log" >&2; tail -30 "$B/build.log" >&2; exit 2; }
touch "$B/.ok"
echo "$B"
