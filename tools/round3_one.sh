#!/bin/sh
# tools/round3_one.sh <Cnn> <k-in-outdir> <k-in-seeded>: confirm an outside change (confirm_seeded.py),
# copy it to seeded/<Cnn>/<k>/ and run the property's quick check against it in a scratch worktree.
set -u
P=$1; K=$2; N=$3
SRC=/tmp/seeded3-out/$P/$K
DST=/verif/seeded/$P/$N
[ -f $SRC/patch.diff ] || { echo "$P/$K: no patch.diff"; exit 2; }
mkdir -p $DST
cp $SRC/patch.diff $SRC/meta.json $SRC/demo.c $SRC/build_demo.sh $DST/ 2>/dev/null
cp $SRC/demo_output_original.txt $SRC/demo_output_mutated.txt $DST/ 2>/dev/null
python3 /verif/tools/confirm_seeded.py $DST
python3 /verif/tools/run_seeded.py $DST --props $P
