#!/usr/bin/env python3
"""prints a markdown table of the seeded breaking changes under seeded/ and which check caught them"""
import json, os, sys
V = os.path.dirname(os.path.dirname(os.path.abspath(__file__)))
rows = []
for pid in sorted(os.listdir(os.path.join(V, "seeded"))):
    d = os.path.join(V, "seeded", pid)
    if not os.path.isdir(d):
        continue
    for k in sorted(os.listdir(d)):
        dd = os.path.join(d, k)
        if not os.path.isdir(dd):
            continue
        meta = json.load(open(os.path.join(dd, "meta.json"))) if os.path.exists(os.path.join(dd, "meta.json")) else {}
        res = json.load(open(os.path.join(dd, "result.json"))) if os.path.exists(os.path.join(dd, "result.json")) else {}
        extra = json.load(open(os.path.join(dd, "result_extra.json"))) if os.path.exists(os.path.join(dd, "result_extra.json")) else {}
        caught = []
        for src in (res, extra):
            for p, c in (src.get("checks") or {}).items():
                if c["rc"] != 0 and c["violations"]:
                    caught.append(p + (" (no-failing-input-found)" if all("no-failing-input-found" in v for v in c["violations"]) else ""))
        rows.append((pid, k, meta.get("title", "?")[:110], ", ".join(meta.get("files", []))[:60], ", ".join(sorted(set(caught))) or "**not caught**"))
print("| change | what was changed | file | caught by |\n|---|---|---|---|")
for r in rows:
    print("| %s/%s | %s | %s | %s |" % (r[0], r[1], r[2].replace("|", "\\|"), r[3], r[4]))
