# C18 -- socket buffers are bounded FIFOs; identifiers unique and in range (DESIGN 5/C18)
import random, re
from vlib import *

try:
    import c18_idmap
except Exception as _e:      # the id-map half is a separate module (checks/c18_idmap.py)
    c18_idmap = None
    _idmap_import_error = repr(_e)


# ----------------------------------------------------------------- generators
def gen_lmq_case(rng):
    cap = rng.choice([0, 1, 2, 3, 4, 4, 5, 7, 8, 8, 9, 15, 16, 17])
    lines = ["linit %d" % cap]
    mid = 1
    # pre-roll to move the ring offset
    for _ in range(rng.randrange(0, 2 * (cap + 1))):
        if rng.random() < 0.55:
            lines.append("lput %d" % mid); mid += 1
        else:
            lines.append("lget")
    for _ in range(rng.randrange(1, 50)):
        r = rng.random()
        if r < 0.45:
            lines.append("lput %d" % mid); mid += 1
        elif r < 0.78:
            lines.append("lget")
        elif r < 0.95:
            lines.append("lresize %d" % rng.choice([0, 1, 2, 3, 4, 4, 5, 7, 8, 8, 9, 16, 17, 32]))
        else:
            lines.append("lflush")
    return lines


def gen_msgq_case(rng):
    cap = rng.choice([0, 0, 1, 2, 3, 4, 4, 5, 8])
    lines = ["qinit %d" % cap]
    mid, aio = 1, 0
    started = []
    for _ in range(rng.randrange(1, 60)):
        r = rng.random()
        if aio >= 62:
            break
        if r < 0.20:
            lines.append("qtryput %d" % mid); mid += 1
        elif r < 0.38:
            lines.append("qput %d %d %d" % (aio, mid, 1 if rng.random() < 0.2 else 0)); started.append(aio); aio += 1; mid += 1
        elif r < 0.68:
            lines.append("qget %d %d" % (aio, 1 if rng.random() < 0.2 else 0)); started.append(aio); aio += 1
        elif r < 0.76 and started:
            lines.append("qcancel %d" % rng.choice(started))
        elif r < 0.93:
            lines.append("qresize %d" % rng.choice([0, 0, 1, 2, 3, 4, 5, 8, 9]))
        elif r < 0.98:
            lines.append("qnotify")
        else:
            lines.append("qclose")
    return lines


# ------------------------------------------------ the abstract (history) oracle
KV = re.compile(r"(\w+)=(\S+)")


def parse_obs(line):
    d = dict(KV.findall(line.split("|")[0])) if line else {}
    return d


def lst(s):
    return [] if s in (None, "-") else s.split(",")


def fifo_oracle(case, outs):
    """The C18 queue spec evaluated on the implementation's own observations:
    messages come out in acceptance order, each at most once; never more than
    cap (+1 in-flight after a shrink) buffered; resize frees only the oldest and
    only as many as no longer fit; flush/close free everything buffered; a
    failed put leaves the message with the caller.  Returns None or (op index, text)."""
    buffered = []          # accepted and not yet delivered/freed, oldest first
    seen_out = set()
    cap = None
    waiting_w = {}         # aio -> msg (blocked writers, msgq)
    for k, line in enumerate(case):
        t = line.split()
        op = t[0]
        o = parse_obs(outs[k] if k < len(outs) else "")
        if not o:
            return (k, "no observation")
        rv = o.get("rv")
        freed = lst(o.get("freed"))
        if op in ("linit", "qinit"):
            cap = int(t[1]); buffered = []; waiting_w = {}
            if op == "linit" and int(o.get("cap", -1)) != cap:
                return (k, "capacity not as configured")
            continue
        if op == "lput":
            if rv == "0":
                buffered.append(t[1])
            elif rv == "8":
                if len(buffered) < cap:
                    return (k, "put refused (EAGAIN) although the queue is not full")
            else:
                return (k, "unexpected rv %s" % rv)
        elif op == "lget":
            if rv == "0":
                m = o.get("msg")
                if not buffered or buffered[0] != m:
                    return (k, "get returned %s, oldest queued is %s" % (m, buffered[0] if buffered else None))
                buffered.pop(0)
            elif buffered:
                return (k, "get failed although messages are queued")
        elif op in ("lflush",):
            if sorted(freed) != sorted(buffered):
                return (k, "flush freed %s, queued were %s" % (freed, buffered))
            buffered = []
        elif op == "lresize":
            if rv == "0":
                newcap = int(t[1])
                keep = buffered[:newcap]
                if sorted(freed) != sorted(buffered[newcap:]):
                    return (k, "resize freed %s, should free exactly the newest beyond capacity %s" % (freed, buffered[newcap:]))
                buffered = keep
                cap = newcap
        elif op in ("qput", "qget", "qtryput", "qcancel", "qclose", "qresize", "qnotify"):
            if op == "qput":
                waiting_w[t[1]] = t[2]
            if op == "qtryput":
                if rv == "0":
                    buffered.append(t[1])
            if op == "qresize" and rv == "0":
                newcap = int(t[1])
                nfree = max(0, len(buffered) - (newcap + 1))
                if freed != [] and sorted(freed) != sorted(buffered[:nfree]):
                    return (k, "resize freed %s, may free only the oldest %d: %s" % (freed, nfree, buffered[:nfree]))
                if len(freed) != nfree:
                    return (k, "resize freed %d messages, exactly %d no longer fit" % (len(freed), nfree))
                buffered = buffered[nfree:]
                cap = newcap
                freed = []
            if op == "qclose":
                if sorted(freed) != sorted(buffered):
                    return (k, "close freed %s, buffered were %s" % (freed, buffered))
                buffered = []
                freed = []
            if freed:
                return (k, "messages freed by an operation that must not discard: %s" % freed)
            # completions: writers first (acceptance), then deliveries, in a way consistent with FIFO
            dones = [d.split(":") for d in lst(o.get("done"))]
            acc = [a for a, r, m in dones if a in waiting_w and r == "0"]
            for a, r, m in dones:
                if a in waiting_w and r != "0":
                    if m != "kept":
                        return (k, "failed put lost its message (aio %s)" % a)
                    waiting_w.pop(a)
            # accepted writers enter the queue in aio (= submission) order
            for a in sorted(acc, key=int):
                buffered.append(waiting_w.pop(a))
            dels = [(a, m) for a, r, m in dones if r == "0" and m not in ("-", "kept")]
            got = sorted(m for a, m in dels)
            exp = sorted(buffered[:len(dels)])
            if got != exp:
                return (k, "delivered %s, the oldest accepted messages are %s" % (got, buffered[:len(dels)]))
            for a, m in dels:
                if m in seen_out:
                    return (k, "message %s delivered twice" % m)
                seen_out.add(m)
            # readers are served oldest-message-to-oldest-reader
            for (a, m), e in zip(sorted(dels, key=lambda x: int(x[0])), buffered[:len(dels)]):
                if m != e:
                    return (k, "reader %s got %s, expected %s (readers served in order)" % (a, m, e))
            buffered = buffered[len(dels):]
            if cap is not None and len(buffered) > cap + 1:
                return (k, "more than cap+1 messages buffered")
        if op.startswith("l") and cap is not None and len(buffered) > cap:
            return (k, "more than cap messages queued")
        if op.startswith("l"):
            if int(o.get("len", -1)) != len(buffered):
                return (k, "reported length %s, %d messages are queued" % (o.get("len"), len(buffered)))
    return None


def strip_diag(l):
    return l.split(" | diag")[0] if l else l


def run_queue_part(rep, tier, rng, bdir, replay=None):
    impl, err = wb_build(bdir, "wb_queue.c")
    if impl is None:
        p = rep.replay_file("wb_queue_build.txt", err)
        rep.violation(p, "white-box queue driver does not build against the current tree (correspondence broken)", nofail=True)
        return
    model = model_bin("modeld_queue")
    n = 300 if tier == "quick" else 12000
    if replay:
        cases = [[l.strip() for l in open(replay) if l.strip() and not l.startswith("#")]]
    else:
        cases = load_corpus("C18") + [gen_lmq_case(rng) if i % 2 == 0 else gen_msgq_case(rng) for i in range(n)]
    diverged, diag_only = [], 0
    hist, distinct = {}, set()

    def spec_fails(c):
        o, crash = run_cases(impl, [c])
        return crash is not None or fifo_oracle(c, o[0]) is not None

    for b0 in range(0, len(cases), 250):
        batch = cases[b0:b0 + 250]
        iout, crash = run_cases(impl, batch)
        mout, _ = run_cases(model, batch)
        if crash:
            ci, rc, errtxt = crash
            small = ddmin(batch[ci], lambda c: run_cases(impl, [c])[1] is not None)
            p = rep.replay_file("crash_%d.case" % (b0 + ci), "# implementation crashed (rc=%s)\n# %s\n" % (rc, errtxt.replace("\n", "\n# ")) + "\n".join(small) + "\n")
            rep.violation(p, "queue code crashed / sanitizer report (rc=%s): %s" % (rc, san_summary(errtxt)))
            continue
        for ci, case in enumerate(batch):
            rep.cov["evaluations"] += len(case)
            for l in case:
                hist[l.split()[0]] = hist.get(l.split()[0], 0) + 1
            if any(re.search(r"msg=\d|:\d+:\d+|freed=\d", x) for x in iout[ci]):
                distinct.add(hash(tuple(case)))
            bad = fifo_oracle(case, iout[ci])
            if bad:
                k, text = bad
                small = ddmin(case, spec_fails)
                p = rep.replay_file("spec_%d.case" % (b0 + ci), "# %s at op %d (%s)\n" % (text, k, case[k]) + "\n".join(small) + "\n")
                rep.violation(p, "queue contradicts the bounded-FIFO spec: %s (op %d: %s)" % (text, k, case[k]))
                continue
            for k, line in enumerate(case):
                io = iout[ci][k] if k < len(iout[ci]) else None
                mo = mout[ci][k] if k < len(mout[ci]) else None
                if io != mo:
                    if strip_diag(io) == strip_diag(mo):
                        diag_only += 1
                    else:
                        diverged.append((b0 + ci, k, line, io, mo))
                    break
    if diverged and not rep.violations:
        ci, k, line, io, mo = diverged[0]
        p = rep.replay_file("diverge_%d.case" % ci, "# model and implementation differ at op %d: %s\n# impl : %s\n# model: %s\n# (%d cases diverge; the FIFO oracle found no violation)\n" % (k, line, io, mo, len(diverged)) + "\n".join(cases[ci]) + "\n")
        rep.violation(p, "correspondence LmqModel/MsgqModel<->lmq.c/msgqueue.c broken on %d cases; first: op %r impl=%r model=%r" % (len(diverged), line, io, mo), nofail=True)
    rep.cov["distinct_nontrivial"] += len(distinct)
    rep.cov["queue_cases"] = len(cases)
    rep.cov["queue_op_histogram"] = hist
    rep.cov["queue_divergences"] = len(diverged)
    rep.cov["queue_private_field_only_differences"] = diag_only
    rep.cov["samples"] += [cases[0][:14], cases[1][:14] if len(cases) > 1 else []]


def run(tier, seed, replay=None):
    rep = Report("C18", tier, seed)
    ok, msg = gen_consts("c18")
    cb = coq_build("Properties_C18", extra=(["IdMap/IdMapProps"] if c18_idmap is not None else []))
    gate = coq_gate()
    rep.proof_cov(cb, "make -C coq Props/Properties_C18.vo && coqc Props/Properties_C18.v (Print Assumptions) ; grep gate")
    proof_ok = ok and cb["ok"] and not gate
    model_build(*(["queue", "idmap"] if c18_idmap is not None else ["queue"]))
    bdir, err = nng_build("asan")
    if bdir is None:
        p = rep.replay_file("build_failed.txt", err)
        rep.violation(p, "nng does not build", nofail=True)
        return rep.finish()
    rng = random.Random(seed)
    kind = None
    if replay:
        first = [l for l in open(replay) if l.strip() and not l.startswith("#")][0].split()[0]
        kind = "queue" if first in ("linit", "qinit") else "idmap"
    if kind in (None, "queue"):
        run_queue_part(rep, tier, rng, bdir, replay if kind == "queue" else None)
    if kind in (None, "idmap"):
        if c18_idmap is not None:
            st = c18_idmap.run_idmap(rep, tier, rng, bdir, replay if kind == "idmap" else None)
            if isinstance(st, dict):
                for k2, v2 in st.items():
                    if k2 in ("idmap_evaluations", "idmap_distinct_nontrivial") and isinstance(v2, int):
                        rep.cov[k2[6:]] = rep.cov.get(k2[6:], 0) + v2
                        rep.cov[k2] = v2
                    elif k2 == "idmap_samples":
                        rep.cov["samples"] += v2
                    else:
                        rep.cov[k2] = v2
        else:
            rep.cov["idmap"] = "id-map module not present: " + _idmap_import_error
    if not proof_ok and not rep.violations:
        proof_broken_report(rep, cb, "C18 theorems do not check (%s)" % ("; ".join(gate[:3]) if gate else msg if not ok else "see log"))
    rep.cov["rule"] = ("random histories on lmq (caps 0..32, ring pre-rolled, resizes at any fill) and msgq (caps 0..9, blocking and "
                       "non-blocking put/get aios, tryput, cancel, resize, close) run on the real code (ASan/UBSan, msgqueue.c compiled into the driver) "
                       "and on the extracted models; non-trivial = some message is delivered or freed; distinct = distinct scripts; "
                       "id-map histories as described under idmap_rule")
    rep.assumptions += ["messages are identified by a 4-byte body; frees are observed through the reference count",
                        "aios use a NULL callback so completion is synchronous and observable without timing"]
    return rep.finish()
