# C10 -- close always terminates, completes everything, invalidates handles (DESIGN 5/C10)
#
#  1. proofs: Props/Properties_C10.v (Core/CloseModel.v, CloseProofs.v, CloseTerm.v, CloseSafe.v), grep gate
#  2. model self-check: exhaustive interleaving search of the extracted model over small scenarios
#     (ocaml/drv_c10.ml explore): no assertion/use-after-free event, no state without an enabled step,
#     handles invalid and nothing pending when close returns, the termination measure decreases --
#     a bounded cross-check of the invariants (not a proof)
#  3. deterministic scripts: harness/wb_close.c (mode script) against the model, line by line
#     (sets of (operation, result), handle validity) + the property's clauses on the implementation's lines
#  4. concurrent scenarios on the real library (ASan/UBSan): protocol x transport x pending set x close order
#     (harness/wb_close.c mode stress), oracle on the implementation's own observations:
#       close returns (watchdog 10 s), every pending operation reaches a terminal result,
#       afterwards every handle operation fails with NNG_ECLOSED / NNG_ENOENT
import os, random, re, subprocess, sys, time
from concurrent.futures import ThreadPoolExecutor
from vlib import *

ECLOSED, ENOENT, EBUSY = 7, 12, 4
COOKED = "req0 rep0 pub0 sub0 push0 pull0 surveyor0 respondent0 pair0 pair1 bus0".split()
PROTOS = COOKED + [p + "_raw" for p in COOKED]
TRANS = ["inproc", "tcp", "ipc", "vtran"]
SHAPES = ["srecv,asend,crecv", "peer,srecv,ssend", "peerd,arecv,csend,cbrecv", "dial,accept", "nego,bdial,arecv",
          "bstart,accept,cbrecv", "fill,peer,ssend,asend", "peer,fill,csend,crecv", "-", "peer,peerd,dial,accept,srecv"]
ORDERS = ["sock", "sock2", "ctxsock", "ctx2", "epsock", "ep2", "pipesock", "seq", "opsock", "opsockc", "opsockd", "lateop"]
# delay points of hook H5 (src/core/{socket,pipe,dialer,listener}.c) that widen the windows of the races the model found
DELAYS = ["-", "3:2000,4:2000", "1:3000,2:3000", "15:3000", "7:4000", "8:3000,5:1000", "9:2000,10:2000", "13:1500,14:1500", "6:3000,12:2000", "11:3000"]
NPROC = 6
MSGQ_PROTOS = ["req0_raw", "rep0_raw", "sub0_raw", "surveyor0_raw", "respondent0_raw", "pair1_poly"]   # users of nni_msgq in src/sp/protocol


def gen_scenarios(rng, tier):
    sc = []
    n = 0

    def add(p, t, sh, o, d="-"):
        nonlocal n
        n += 1
        sc.append("S q%d %s %s %s %s %d %s" % (n, p, t, sh, o, rng.randrange(1, 1 << 30), d))
    if tier == "quick":
        for p in PROTOS:
            for t in TRANS:
                for _ in range(18):
                    add(p, t, rng.choice(SHAPES), rng.choice(ORDERS))
                for _ in range(6):
                    add(p, t, rng.choice(SHAPES), rng.choice(ORDERS), rng.choice(DELAYS[1:]))
        # devices (raw sockets only)
        for p in PROTOS:
            if p.endswith("_raw"):
                add(p, rng.choice(TRANS), "device", rng.choice(["sock", "sock2", "seq"]))
        # raw sockets whose send/recv go through the socket's upper message queues (nni_msgq: xreq, xrep, xsub,
        # xsurveyor, xrespondent, pair1-poly): configured SENDBUF/RECVBUF x several operations outstanding at close
        # (some buffered, some blocked in the queue), aio and blocking-thread forms
        for p in MSGQ_PROTOS:
            for nb in (0, 1, 2, 8):
                for form in ("asend,ssend", "arecv,srecv", "asend,ssend,arecv,srecv", "asend,arecv"):
                    add(p, rng.choice(TRANS), "sbuf%d,rbuf%d,x%d,%s" % (nb, rng.choice([nb, 0, 1, 2, 8]), rng.randrange(2, 5), form),
                        rng.choice(["sock", "sock", "sock2", "seq", "lateop"]))
            add(p, "inproc", "sbuf1,x3,asend,ssend", "sock")
            add(p, rng.choice(TRANS), "peer,sbuf2,rbuf2,x4,asend,ssend,arecv", rng.choice(["sock", "pipesock", "epsock"]))
        # context calls of other threads in flight (between nni_ctx_find and nni_ctx_rele) while the socket closes
        for p in CTX_PROTOS:
            for t in ("inproc", rng.choice(["tcp", "ipc", "vtran"])):
                for sh in ("-", "crecv,csend", "peer,crecv"):
                    add(p, t, sh, "ctxbusy")
        # directed: the five races found with the model, with the delay that makes them certain on an unrepaired tree
        for p in ("req0", "pair0", "sub0", "bus0_raw", "respondent0"):
            t = rng.choice(["inproc", "tcp", "ipc"])
            add(p, t, "dial,accept,srecv", "epsock", "3:2000,4:2000")
            add(p, t, "srecv", "opsockd", "1:3000,2:3000")
            add(p, t, "crecv,csend", "ctxsock", "15:3000")
            add(p, t, "srecv", "opsockc", "7:4000")
            add(p, t, "peer", "lateop")
    else:
        for rep_ in range(2):
            for p in PROTOS:
                for t in TRANS:
                    for sh in SHAPES:
                        for o in ORDERS:
                            add(p, t, sh, o, "-" if rep_ == 0 else rng.choice(DELAYS))
            for p in MSGQ_PROTOS:
                for t in TRANS:
                    for nb in (0, 1, 2, 8):
                        for nr in (0, 1, 2, 8):
                            for form in ("asend,ssend", "arecv,srecv", "asend,ssend,arecv,srecv", "peer,asend,ssend,arecv"):
                                add(p, t, "sbuf%d,rbuf%d,x%d,%s" % (nb, nr, rng.randrange(1, 5), form), rng.choice(["sock", "sock2", "seq", "lateop", "pipesock"]),
                                    "-" if rep_ == 0 else rng.choice(DELAYS))
            for p in CTX_PROTOS:
                for t in TRANS:
                    for sh in ("-", "crecv,csend", "peer,crecv", "peer,cbrecv,csend"):
                        for _ in range(5):
                            add(p, t, sh, "ctxbusy", "-" if rep_ == 0 else rng.choice(DELAYS))
        for p in PROTOS:
            if p.endswith("_raw"):
                for t in TRANS:
                    for o in ("sock", "sock2", "seq"):
                        add(p, t, "device", o, rng.choice(DELAYS))
    rng.shuffle(sc)
    return sc


def run_chunk(binpath, lines, per_scenario_timeout=14):
    """run scenario lines in one process; a dead process (crash, watchdog) is restarted on the rest.
    returns list of (scenario line, output lines, failure) with failure None | ('W', what) | ('X', rc, stderr)"""
    res = []
    rest = list(lines)
    nfail = 0
    while rest:
        if nfail >= 3:
            break          # three scenarios of this chunk hung or crashed already: enough evidence, do not wait 10 s per further hang
        try:
            p = subprocess.run([binpath, "stress"], input="\n".join(rest) + "\n", capture_output=True, text=True,
                               timeout=per_scenario_timeout * len(rest) + 30, env=dict(os.environ, **ASAN_ENV))
            out, err, rc = p.stdout, p.stderr, p.returncode
        except subprocess.TimeoutExpired as ex:
            out = ex.stdout.decode() if isinstance(ex.stdout, bytes) else (ex.stdout or "")
            err, rc = "TIMEOUT (process killed by the check)", -9
        per = {}
        order = []
        for l in out.splitlines():
            f = l.split()
            if len(f) >= 2 and f[0] in "BRCHEONW":
                per.setdefault(f[1], []).append(l)
                if f[0] == "B":
                    order.append(f[1])
        done_upto = 0
        failed = False
        for i, line in enumerate(rest):
            sid = line.split()[1]
            ls = per.get(sid, [])
            if any(x.startswith("E ") for x in ls):
                res.append((line, ls, None))
                done_upto = i + 1
                continue
            # this scenario did not finish
            w = [x for x in ls if x.startswith("W ")]
            if w:
                res.append((line, ls, ("W", w[0].split()[2] if len(w[0].split()) > 2 else "?")))
            elif rc != 0 or ls:
                res.append((line, ls, ("X", rc, err[-3500:])))
            else:
                # not even begun although the process ended normally: harness problem
                res.append((line, ls, ("X", rc, "scenario not executed: " + err[-1500:])))
            done_upto = i + 1
            failed = True
            nfail += 1
            break
        rest = rest[done_upto:]
        if not failed and rest:
            # process ended cleanly but did not report everything (should not happen)
            for line in rest:
                res.append((line, [], ("X", rc, "no output for the scenario; stderr: " + err[-800:])))
            rest = []
        if not failed and rc != 0 and res:
            # all scenarios reported E but the process failed at exit (leak report, nng_fini hang)
            line, ls, _ = res[-1]
            res[-1] = (line, ls, ("X", rc, err[-3500:]))
    return res


def oracle(line, ls):
    """the property's three clauses on the implementation's own observations of one scenario.
    returns (list of violation texts, stats)"""
    f = line.split()
    shape, order = f[4], f[5]
    bad = []
    st = {"closes": 0, "ops": 0, "handle_ops": 0, "pipe_valid_after_close": 0, "results": {}}
    dev = "device" in shape.split(",")
    for l in ls:
        t = l.split()
        if t[0] == "C":
            st["closes"] += 1
            rv, ms = int(t[3]), int(t[4])
            if ms >= 10000:
                bad.append("close %s took %d ms" % (t[2], ms))
            ok = (0, ECLOSED, ENOENT) + ((EBUSY,) if dev else ())
            if rv not in ok:
                bad.append("close %s returned %d (expected 0, NNG_ECLOSED or NNG_ENOENT%s)" % (t[2], rv, ", NNG_EBUSY for a device socket" if dev else ""))
        elif t[0] == "R":
            st["ops"] += 1
            st["results"][t[3]] = st["results"].get(t[3], 0) + 1
            if not re.match(r"^-?\d+$", t[3]):
                bad.append("operation %s has no terminal result (%s)" % (t[2], t[3]))
        elif t[0] == "H":
            st["handle_ops"] += 1
            rv = int(t[3])
            name = t[2]
            if name.startswith("pipe"):
                if name.endswith(".q"):
                    if rv != ENOENT:
                        bad.append("after close and quiescence %s returned %d instead of NNG_ENOENT" % (name, rv))
                else:
                    # nng_pipe_close / socket close return before the reaper has removed the pipe's id:
                    # a call in that window finds the closed, still allocated pipe (pipe_handle_refuted)
                    if rv == 0:
                        st["pipe_valid_after_close"] += 1
                    elif rv not in (ENOENT, ECLOSED, 9):
                        bad.append("%s returned %d after close" % (name, rv))
            else:
                if rv not in (ECLOSED, ENOENT):
                    bad.append("after close %s returned %d instead of NNG_ECLOSED / NNG_ENOENT" % (name, rv))
    return bad, st


def stress(rep, impl, scen, label):
    chunks = [scen[i::NPROC] for i in range(NPROC)]
    t0 = time.time()
    with ThreadPoolExecutor(max_workers=NPROC) as ex:
        results = list(ex.map(lambda c: run_chunk(impl, c), chunks))
    tot = {"scenarios": 0, "closes": 0, "ops": 0, "handle_ops": 0, "pipe_valid_after_close": 0, "results": {}, "hangs": 0, "crashes": 0}
    nviol = 0
    for res in results:
        for line, ls, fail in res:
            tot["scenarios"] += 1
            sid = line.split()[1]
            if fail is not None:
                if fail[0] == "W":
                    tot["hangs"] += 1
                    txt = "watchdog (10 s): %s did not return / complete in scenario  %s" % (fail[1], line)
                    if tot["hangs"] <= 3:
                        # confirm by running the scenario again on its own
                        again = run_chunk(impl, [line])
                        f2 = again[0][2] if again else None
                        txt += "  [re-run alone: %s]" % ("hangs again (%s)" % f2[1] if f2 and f2[0] == "W" else "crashes" if f2 else "completes this time: the hang depends on the schedule")
                    p = rep.replay_file("%s_hang_%s.case" % (label, sid), "# %s\n%s\n# output:\n# %s\n" % (txt, line, "\n# ".join(ls)))
                    rep.violation(p, txt)
                else:
                    tot["crashes"] += 1
                    txt = "crash / sanitizer report (rc=%s) in scenario  %s : %s" % (fail[1], line, san_summary(fail[2]))
                    p = rep.replay_file("%s_crash_%s.case" % (label, sid), "# %s\n%s\n# output:\n# %s\n# stderr:\n# %s\n" % (txt, line, "\n# ".join(ls), fail[2].replace("\n", "\n# ")))
                    rep.violation(p, txt)
                nviol += 1
                continue
            bad, st = oracle(line, ls)
            for k in ("closes", "ops", "handle_ops", "pipe_valid_after_close"):
                tot[k] += st[k]
            for k, v in st["results"].items():
                tot["results"][k] = tot["results"].get(k, 0) + v
            if bad:
                nviol += 1
                txt = "%s  [scenario %s]" % ("; ".join(bad[:3]), line)
                p = rep.replay_file("%s_spec_%s.case" % (label, sid), "# %s\n%s\n# output:\n# %s\n" % ("\n# ".join(bad), line, "\n# ".join(ls)))
                rep.violation(p, txt)
    tot["wall_s"] = round(time.time() - t0, 1)
    return tot


# ---------------------------------------------------------------- deterministic scripts (model vs implementation)
PEER = {"pair1_poly": 17, "pair0": 16, "pair1": 17, "pub0": 33, "sub0": 32, "req0": 49, "rep0": 48, "push0": 81, "pull0": 80,
        "surveyor0": 99, "respondent0": 98, "bus0": 112}
CTX_PROTOS = ("req0", "rep0", "sub0", "surveyor0", "respondent0")


def proto_close_table():
    """C10_PROTO_CLOSE of coq/Gen/Consts.v: name -> (phase, latch, finic)"""
    txt = open(os.path.join(COQ, "Gen", "Consts.v")).read()
    tab = {}
    for m in re.finditer(r'\("(\w+)"%string, (\d), (true|false), (true|false)\)', txt):
        tab[m.group(1)] = (int(m.group(2)), 1 if m.group(3) == "true" else 0, 1 if m.group(4) == "true" else 0)
    return tab


def gen_script_case(rng, proto, tab):
    base = proto[:-4] if proto.endswith("_raw") else proto
    ph, latch, finic = tab.get(proto, tab.get(base, (1, 0, 0)))
    lines = ["open %s %d %d %d" % (proto, ph, latch, finic)]
    if proto in MSGQ_PROTOS and rng.random() < 0.7:
        lines.append("bufs %d ?" % rng.choice([1, 2, 8]))
    nctx = rng.choice([0, 1, 2]) if True else 0
    has_ctx = proto in CTX_PROTOS
    cs = []
    for _ in range(nctx):
        lines.append("ctx" if has_ctx else "ctx nosup")
        if has_ctx:
            cs.append("c%d" % len(cs))
    eps, listeners = [], []
    for _ in range(rng.choice([0, 1, 2, 2])):
        k = rng.choice(["listener", "dialer"])
        lines.append(k)
        if k == "listener":
            listeners.append("ep%d" % len(eps))
        eps.append("ep%d" % len(eps))
    ps = []
    for l in listeners:
        for _ in range(rng.choice([0, 1, 1, 2])):
            lines.append("conn %s %d" % (l, PEER[base]))
            ps.append("p%d" % len(ps))
    naio = 0
    targets = ["s"] + cs

    def ops(n):
        nonlocal naio
        for _ in range(n):
            lines.append("%s %s a%d ?" % (rng.choice(["recv", "send"]), rng.choice(targets), naio))
            naio += 1
    ops(rng.randrange(1, 6) if "bufs" not in " ".join(lines) else rng.randrange(4, 12))
    closes = cs + eps + ps + ["s"]
    rng.shuffle(closes)
    if rng.random() < 0.5:
        closes.remove("s")
        closes.append("s")
    for c in closes:
        lines.append("close " + c)
        r = rng.random()
        if r < 0.25:
            lines.append("close " + c)                   # second close of the same handle
        elif r < 0.45 and naio < 60:
            ops(1)                                       # an operation after that close (maybe on the closed handle)
        elif r < 0.55:
            lines.append("ctx" if has_ctx else "ctx nosup")
            if has_ctx and "close s" not in lines:
                cs.append("c%d" % len(cs))
    lines.append("probe")
    return lines


SCL = re.compile(r"^rv=(-?\d+) done=(\S+) h=(\S+)$")


def script_flags(case, out):
    """fill in the '?' of every recv/send from what the implementation did: completed at once (n<rv>) or pending (b)"""
    res = []
    for i, l in enumerate(case):
        t = l.split()
        m = SCL.match(out[i]) if i < len(out) else None
        dn = [x.split(":") for x in m.group(2).split(",")] if m and m.group(2) != "-" else []
        own = t[2] if t[0] in ("recv", "send") else None
        if own and t[-1] == "?":
            flag = "b"
            for a, rv in dn:
                if a == own:
                    flag = "n" + rv
            t = t[:-1] + [flag]
        if t[0] == "bufs" and t[-1] == "?":
            t = t[:-1] + ["rv%s" % (m.group(1) if m else "0")]
        # completions the protocol produced for reasons of its own (a second request cancels the first, a pipe
        # went away ...): given to the model as events, except at the closes whose effect the model must predict
        if t[0] == "conn" and m and m.group(3) != "-":
            # the protocol may refuse the pipe in pipe_start (PAIR has one peer): the core closes it at once
            hv = [x for x in m.group(3).split(",") if x.startswith("p")]
            if int(m.group(1)) == 0 and hv and not hv[-1].endswith(":ok"):
                t.append("reject")
        if not (t[0] == "close" and (t[1] == "s" or t[1].startswith("c"))):
            t += ["+%s:%s" % (a, rv) for a, rv in dn if a != own]
        res.append(" ".join(t))
    return res


def script_oracle(case, out):
    """the property's clauses on the implementation's observation lines of one scripted case"""
    subm, done = {}, set()       # aio -> handle it was submitted on
    invalid = set()
    pipes_of = {}                # ep -> pipes
    nep = 0
    np_ = 0
    eporder = []
    for i, l in enumerate(case):
        t = l.split()
        m = SCL.match(out[i]) if i < len(out) else None
        if not m:
            return (i, "no/odd observation %r" % (out[i] if i < len(out) else None))
        rv = int(m.group(1))
        if m.group(2) != "-":
            for x in m.group(2).split(","):
                a, r = x.split(":")
                done.add(a)
        hv = dict(x.split(":") for x in m.group(3).split(",")) if m.group(3) != "-" else {}
        if t[0] in ("listener", "dialer") and rv == 0:
            eporder.append("ep%d" % nep)
            nep += 1
        if t[0] == "conn" and rv == 0:
            pipes_of.setdefault(t[1], []).append("p%d" % np_)
            np_ += 1
        if t[0] in ("recv", "send"):
            subm[t[2]] = t[1]
            if t[1] in invalid and t[2] not in done:
                return (i, "operation %s on the closed handle %s did not fail at once" % (t[2], t[1]))
        if t[0] == "close":
            h = t[1]
            if h in invalid:
                if rv not in (ECLOSED, ENOENT):
                    return (i, "close of the already closed handle %s returned %d" % (h, rv))
            elif rv == 0:
                invalid.add(h)
                if h == "s":
                    invalid |= set(hv.keys())
                    pend = [a for a in subm if a not in done]
                    if pend:
                        return (i, "socket close returned with operations still pending: %s" % ",".join(pend))
                elif h.startswith("c"):
                    pend = [a for a, hh in subm.items() if hh == h and a not in done]
                    if pend:
                        return (i, "context close returned with operations of the context still pending: %s" % ",".join(pend))
                elif h.startswith("ep"):
                    invalid |= set(pipes_of.get(h, []))
            elif rv not in (ECLOSED, ENOENT):
                return (i, "close %s returned %d" % (h, rv))
        for h in invalid:
            if hv.get(h, "x") == "ok":
                return (i, "handle %s is still valid after its close returned (and the library is quiescent)" % h)
    return None


def scripts(rep, impl, model, rng, tier):
    tab = proto_close_table()
    n = 40 if tier == "quick" else 400
    cases = []
    for p in PROTOS + ["pair1_poly"]:
        for _ in range(n):
            cases.append(gen_script_case(rng, p, tab))
    # the deterministic transport of harness/vtran.h has room for 256 pipes per process: batches of 40 cases
    BATCH = 40
    batches = [cases[i:i + BATCH] for i in range(0, len(cases), BATCH)]
    with ThreadPoolExecutor(max_workers=NPROC) as ex:
        outs = list(ex.map(lambda b: run_cases(impl, b, timeout=600, args=["script"]), batches))
    iout = []
    for bi, (o, crash) in enumerate(outs):
        if crash:
            ci, rc, errtxt = crash
            gi = bi * BATCH + ci
            p = rep.replay_file("script_crash_%d.case" % gi, "# implementation crashed or hung (rc=%s)\n# %s\nmark 0\n" % (rc, errtxt.replace("\n", "\n# ")) + "\n".join(cases[gi]) + "\n")
            rep.violation(p, "scripted case: implementation crashed / hung (rc=%s): %s" % (rc, san_summary(errtxt)))
            return {"cases": len(cases), "crashed": 1}
        iout += o
    flagged = [script_flags(c, o) for c, o in zip(cases, iout)]
    mout, mcrash = run_cases(model, flagged, timeout=900, args=["script"])
    div, nspec, lines = [], 0, 0
    for ci, case in enumerate(cases):
        lines += len(case)
        bad = script_oracle(case, iout[ci])
        if bad:
            nspec += 1
            k, text = bad
            p = rep.replay_file("script_spec_%d.case" % ci, "# %s at line %d (%s)\n# replay: <bdir>/wb/wb_close script < this file\nmark 0\n" % (text, k, case[k]) + "\n".join(case) + "\n# implementation:\n# " + "\n# ".join(iout[ci]) + "\n")
            rep.violation(p, "scripted case: %s (line %d: %s)" % (text, k, case[k]))
            continue
        for k in range(len(case)):
            io = iout[ci][k] if k < len(iout[ci]) else None
            mo = mout[ci][k] if k < len(mout[ci]) else None
            if io != mo:
                div.append((ci, k, io, mo))
                break
    if div and not rep.violations:
        ci, k, io, mo = div[0]
        p = rep.replay_file("script_diverge_%d.case" % ci, "# model and implementation differ at line %d: %s\n# impl : %s\n# model: %s\n# (%d cases diverge; the oracle found no violation of the property)\nmark 0\n" % (k, flagged[ci][k], io, mo, len(div)) + "\n".join(flagged[ci]) + "\n")
        rep.violation(p, "correspondence CloseModel<->code broken on %d scripted cases; first: %r\n impl =%r\n model=%r" % (len(div), flagged[ci][k], io, mo), nofail=True)
    return {"cases": len(cases), "lines": lines, "divergences": len(div), "spec_failures": nspec, "sample": flagged[0][:14]}


def replay_file_lines(path):
    return [l.strip() for l in open(path) if l.strip() and not l.startswith("#")]


def run(tier, seed, replay=None):
    rep = Report("C10", tier, seed)
    rng = random.Random(seed)
    tm = {}
    t_ = time.time()
    ok, msg = gen_consts("c10")
    cb = coq_build("Properties_C10")
    gate = coq_gate()
    rep.proof_cov(cb, "make -C coq Props/Properties_C10.vo && coqc Props/Properties_C10.v (Print Assumptions) ; grep gate")
    proof_ok = ok and cb["ok"] and not gate
    tm["coq"] = round(time.time() - t_, 1); t_ = time.time()
    model_build("c10")
    tm["model_build"] = round(time.time() - t_, 1); t_ = time.time()
    bdir, err = nng_build("asan")
    if bdir is None:
        p = rep.replay_file("build_failed.txt", err)
        rep.violation(p, "nng does not build", nofail=True)
        return rep.finish()
    impl, err = wb_build(bdir, "wb_close.c")
    if impl is None:
        p = rep.replay_file("wb_close_build.txt", err)
        rep.violation(p, "close driver does not build against the current tree (correspondence broken)", nofail=True)
        return rep.finish()
    model = model_bin("modeld_c10")
    tm["nng_build"] = round(time.time() - t_, 1); t_ = time.time()

    # ---- 2. the model's own exhaustive search (with the source's flags)
    rc, out, errtxt = run_prog(model, "", args=["explore", "cur"], timeout=600)
    flags = run_prog(model, "", args=["--flags"], timeout=30)[1]
    exp = {"scenarios": 0, "states": 0, "errors": 0, "late_closer_states": 0}
    exp_bad = []
    for l in out:
        m = re.match(r"scenario (\S+)\s+states=(\d+) final=(\d+) stuck-with-ext=(\d+) errors=(\d+)", l)
        if m:
            exp["scenarios"] += 1
            exp["states"] += int(m.group(2))
        m = re.match(r"\s+\[(.*?)\] (.*)", l)
        if m:
            if m.group(1).startswith("late-closer"):
                exp["late_closer_states"] += 1       # the documented late_closer_refuted, every tree
            else:
                exp_bad.append(l.strip())
    exp["errors"] = len(exp_bad)
    rep.cov["model_exploration"] = exp
    rep.cov["model_flags"] = flags[:1]
    allfixed = bool(flags) and "false" not in flags[0]
    consts = open(os.path.join(COQ, "Gen", "Consts.v")).read()
    pinned = re.findall(r"Definition (C10_(?:FX_\w+|MSGQ_CLOSE_ALL)) : bool := false\.\s*\(\* (.*?) \*\)", consts)
    rep.cov["source_shape_flags_false"] = [a for a, _ in pinned]
    if pinned:
        # the source no longer has the shape for which the property is proved: the theorems of Properties_C10 select
        # the defect's witness (pinned_defect) -- the scenarios below look for the failing input on the library itself
        p = rep.replay_file("pinned_shape.txt", "\n".join("%s = false: NOT(%s)" % x for x in pinned) +
                            "\nmodel witness: coq/Core/CloseProofs.v (w_ephold, w_epid, w_ctxfini, w_lateop, w_ctxopen, w_ctxmark); Queue/MsgqModel.v MClose\n")
        rep.violation(p, "the source lost a shape the close proof depends on: %s" % "; ".join("%s (%s)" % x for x in pinned), nofail=True)
    if (rc != 0 or not out or not out[-1].startswith("explore-done")):
        p = rep.replay_file("explore_failed.txt", "\n".join(out[-30:]) + errtxt[-2000:])
        rep.violation(p, "the model's exhaustive search did not run", nofail=True)
    elif exp_bad and allfixed:
        # every repair is in the source, yet the model of that source misbehaves
        p = rep.replay_file("explore_errors.txt", "\n".join(out))
        rep.violation(p, "model of the current source violates its own invariants on a small scenario: %s" % exp_bad[0][:300], nofail=True)
    elif exp_bad:
        rep.cov["model_exploration"]["pinned_defect_witnessed"] = exp_bad[:3]

    tm["explore"] = round(time.time() - t_, 1); t_ = time.time()
    # ---- 3. deterministic scripts: implementation vs model, line by line
    if replay and not any(l.startswith("S ") for l in replay_file_lines(replay)):
        case = [l for l in replay_file_lines(replay) if not l.startswith("mark")]
        iout, crash = run_cases(impl, [case], args=["script"])
        flagged = script_flags(case, iout[0])
        mout, _ = run_cases(model, [flagged], args=["script"])
        print("\n".join("%-28s impl: %-60s model: %s" % (a, b, c) for a, b, c in zip(flagged, iout[0], mout[0])))
        bad = script_oracle(case, iout[0])
        if bad or crash or iout[0] != mout[0]:
            p = rep.replay_file("replay.case", "\n".join(case) + "\n")
            rep.violation(p, "replay: %s" % (bad[1] if bad else "crash" if crash else "model and implementation differ"), nofail=not (bad or crash))
        return rep.finish()
    rep.cov["scripts"] = scripts(rep, impl, model, rng, tier)
    tm["scripts"] = round(time.time() - t_, 1); t_ = time.time()

    # ---- 4. concurrent scenarios on the real library
    if replay:
        scen = [l for l in replay_file_lines(replay) if l.startswith("S ")]
    else:
        scen = [l for c in load_corpus("C10") for l in c if l.startswith("S ")] + gen_scenarios(rng, tier)
    tot = stress(rep, impl, scen, "stress")
    tm["stress"] = round(time.time() - t_, 1)
    rep.cov["phase_seconds"] = tm
    rep.cov["evaluations"] = tot["closes"] + tot["ops"] + tot["handle_ops"] + rep.cov["scripts"].get("lines", 0)
    rep.cov["distinct_nontrivial"] = len(set(tuple(l.split()[2:6]) for l in scen))
    rep.cov["stress"] = tot
    rep.cov["rule"] = ("scenarios = protocol (22: 11 + raw) x transport (inproc, tcp, ipc, deterministic vtran) x pending set "
                       "(blocked/aio senders and receivers on socket and contexts, redialing dialer, blocking dial and dialer_start into a raw "
                       "listener that never answers (negotiating pipe), listener with accept in progress, raw client stalled mid-handshake, established "
                       "pipes, full send queues, nng_device) x close order (1-2 closing threads: socket, socket twice, contexts vs socket, endpoints vs socket, "
                       "pipes vs socket, everything sequentially + second close, a thread issuing new operations while the socket closes, an operation "
                       "overtaken by close) x H5 delay points; every call under a 10 s watchdog; ASan/UBSan build")
    rep.cov["samples"] = scen[:6]
    rep.cov["observations"] = [
        "pipe handles: %d of the pipe-handle calls made right after close still found the (closed, allocated) pipe; after quiescence all return NNG_ENOENT (theorem pipe_handle_refuted; by design: ids leave the map in pipe_reap after the REM_POST callback)" % tot["pipe_valid_after_close"],
        "a third concurrent nng_socket_close may return 0 before the first closer has closed the endpoints (theorem late_closer_refuted, findings/c10/race6_third_closer_returns_early.c)"]
    rep.assumptions += ["mutual exclusion of sock_lk/s_mx/dialers_lk/listeners_lk/pipes_lk/reap_mtx, condition variables and the C memory model are trusted",
                        "real lock-order deadlocks and use-after-free are runtime facts: observed by the watchdog and the sanitizers on the scenarios run, not proved",
                        "the model covers one socket with its children; the reaper is a FIFO (the C empties one LIFO stack per object type in rounds)",
                        "transport contract: no pipe is created on an endpoint after its transport-level close (checked in tcp/ipc/inproc/vtran by reading)"]
    # ---- directed: a device cancelled under traffic, then more sends and the closes (found by C03's real-transport
    #      programs): the reaper can wait for ever for a pipe's send aio whose task stays busy.  Schedule-dependent.
    led, lerr = wb_build(bdir, "wb_ledger.c")
    hang_script = os.path.join(VERIF, "findings", "c03", "device_cancel_reaper_hang.txt")
    nprobe = 8 if tier == "quick" else 60
    hangs = 0
    if led and os.path.exists(hang_script):
        txt = open(hang_script).read()
        for i in range(nprobe):
            try:
                subprocess.run([led], input=txt, capture_output=True, text=True, timeout=12, env=dict(os.environ, **ASAN_ENV))
            except subprocess.TimeoutExpired:
                hangs += 1
        rep.cov["evaluations"] += nprobe
        rep.cov["device_cancel_probe"] = {"runs": nprobe, "hangs": hangs}
        if hangs:
            pth = rep.replay_file("device_cancel_hang.txt", "%d of %d runs of findings/c03/device_cancel_reaper_hang.txt (through harness/wb_ledger) did not return within 12 s\n" % (hangs, nprobe) + txt)
            rep.violation(pth, "closing the sockets of a device that was cancelled under traffic never returns: the reaper waits in <proto>_pipe_stop -> nni_aio_stop for a pipe's send aio (%d of %d runs)" % (hangs, nprobe), key="device-cancel-reaper-hang")
    if not proof_ok and not rep.violations:
        proof_broken_report(rep, cb, "C10 theorems do not check (%s)" % ("; ".join(gate[:3]) if gate else msg if not ok else "see log"))
    return rep.finish()
